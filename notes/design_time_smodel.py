# DESIGN-TIME NOTE — NOT PART OF THE VERIFICATION MACHINERY.
#
# This script is never invoked by any check, is not registered in MANIFEST.json and proves
# nothing. It is the throw-away explicit-state transcription of the scheduler model "S"
# (DESIGN.md §2.3) that was used to sanity-check the *statements* of the planned Lean theorems on
# small instances before committing to them (DESIGN.md App. C), and to find the smallest witness
# for each Wiring flag. It is kept only so that the numbers quoted in App. C are reproducible and
# as a reading aid when the Lean model is written:
#
#   python3 design_time_smodel.py std            # all DAGs <=3 jobs etc., std wiring (~1 min)
#   python3 design_time_smodel.py off gate       # one mechanism flag off -> which statements break
#
import itertools, sys
from collections import deque

class W:  # wiring flags
    def __init__(s, **kw):
        s.gate=True; s.capDone=None; s.drain=True; s.respawn=True; s.lateDone=True
        s.chkCtx=True; s.chkInv=True; s.waitCtx=True; s.filterSent=True; s.capEnq=1
        s.__dict__.update(kw)

def explore(N, coe, deps, outcome, cancels, extCancel, w, emit=True, maxstates=2_000_000):
    n=len(deps); capDone = N if w.capDone is None else w.capDone
    # state tuple
    # caller, enq, closed, phase, ready, pending, ongoing, waiting, enqNil, err, jobs, workers, done, cancelled, started, ended, nsent
    J0=()  # jobs registered: tuple of (remaining, consumers, done, failed, invalid, dispatched)
    init=(('send',0) if n>0 else ('close',), (), False, 'sel', (), 0,0,0, False, None, J0, tuple(('idle',) for _ in range(N)), (), False, frozenset(), (), 0)
    viol=[]
    def mu(s):
        caller,enq,closed,phase,ready,pending,ongoing,waiting,enqNil,err,jobs,workers,done,cancelled,started,ended,nsent=s
        m=0
        if caller[0]=='send': m+= 9*(n-caller[1]) + 3
        elif caller[0]=='close': m+=2
        elif caller[0]=='wait': m+=1
        m+=8*len(enq)
        m+=7*sum(1 for j in jobs if not j[5])   # registered, undispatched
        for wk in workers:
            m+={'idle':1,'hold':6,'run':5,'post':4,'die':4,'exited':0}[wk[0]]
        m+=2*len(done)
        m+={'sel':3,'drain':1,'exited':0}[phase]
        if phase=='sel' and not enqNil: m+=1
        if not cancelled: m+=1
        return m
    def final(s):
        return s[0][0]=='ret' and s[3]=='exited' and all(wk[0]=='exited' for wk in s[11])
    def succ(s):
        caller,enq,closed,phase,ready,pending,ongoing,waiting,enqNil,err,jobs,workers,done,cancelled,started,ended,nsent=s
        out=[]
        def mk(**kw):
            d=dict(caller=caller,enq=enq,closed=closed,phase=phase,ready=ready,pending=pending,ongoing=ongoing,waiting=waiting,enqNil=enqNil,err=err,jobs=jobs,workers=workers,done=done,cancelled=cancelled,started=started,ended=ended,nsent=nsent)
            d.update(kw)
            return tuple(d[k] for k in ('caller','enq','closed','phase','ready','pending','ongoing','waiting','enqNil','err','jobs','workers','done','cancelled','started','ended','nsent'))
        # caller
        if caller[0]=='send' and len(enq)<w.capEnq:
            i=caller[1]; out.append(('callerSend',mk(enq=enq+(i,),caller=('send',i+1) if i+1<n else ('close',),nsent=nsent+1)))
        if caller[0]=='close':
            out.append(('callerClose',mk(closed=True,caller=('wait',))))
        if caller[0]=='wait':
            if cancelled and w.waitCtx: out.append(('callerRetCtx',mk(caller=('ret','ctx'))))
            if phase=='exited':
                r = err if err else (('ctx',) if cancelled else None)
                out.append(('callerRetFin',mk(caller=('ret',r))))
        # loop
        def exitchk(st_kw):
            if st_kw.get('pending',pending)==0 and st_kw.get('enqNil',enqNil): st_kw['phase']='drain' if w.drain else 'exited'
            return st_kw
        if phase=='sel':
            if not enqNil and enq:
                j=enq[0]; jl=list(jobs); rem=0; inv=False
                for d in deps[j]:
                    dj=jl[d]
                    if dj[2] and w.lateDone:
                        if dj[3]: inv=True
                        continue
                    jl[d]=(dj[0],dj[1]+(j,),dj[2],dj[3],dj[4],dj[5]); rem+=1
                assert j==len(jl)
                jl.append((rem,(),False,False,inv,False))
                kw=dict(enq=enq[1:],jobs=tuple(jl),pending=pending+1)
                if rem==0: kw['ready']=ready+(j,)
                else: kw['waiting']=waiting+1
                out.append(('loopEnq',mk(**exitchk(kw))))
            if not enqNil and not enq and closed:
                out.append(('loopEnqClosed',mk(**exitchk(dict(enqNil=True)))))
            if ready and (not w.gate or ongoing<N):
                j=ready[0]
                for wi,wk in enumerate(workers):
                    if wk[0]=='idle':
                        jl=list(jobs); x=jl[j]; jl[j]=x[:5]+(True,)
                        ws=list(workers); ws[wi]=('hold',j)
                        out.append(('loopDispatch',mk(ready=ready[1:],ongoing=ongoing+1,jobs=tuple(jl),workers=tuple(ws))))
                        break  # workers symmetric
            if done:
                (j,res)=done[0]; jl=list(jobs); x=jl[j]
                fail = res is not None
                jl[j]=(x[0],x[1],True,fail,x[4],x[5])
                kw=dict(done=done[1:],pending=pending-1,ongoing=ongoing-1)
                if fail and not coe:
                    kw.update(jobs=tuple(jl),err=(res,),phase='drain' if w.drain else 'exited')
                    out.append(('loopResult',mk(**kw)))
                else:
                    e=err
                    if fail:
                        if not (w.filterSent and res=='invalid'): e=(err or ())+(res,)
                        for c in x[1]:
                            y=jl[c]
                            if y[5]: viol.append(('C12 invalid written after dispatch',c))
                            jl[c]=y[:4]+(True,)+y[5:]
                    rd=ready; wt=waiting
                    for c in x[1]:
                        y=jl[c]; jl[c]=(y[0]-1,)+y[1:]
                        if y[0]-1==0: wt-=1; rd=rd+(c,)
                    kw.update(jobs=tuple(jl),err=e,ready=rd,waiting=wt)
                    out.append(('loopResult',mk(**exitchk(kw))))
        if phase=='drain':
            if enq: out.append(('loopDrain',mk(enq=enq[1:])))
            elif closed: out.append(('loopClose',mk(phase='exited')))
        # workers
        seen=set()
        for wi,wk in enumerate(workers):
            if wk in seen: continue
            seen.add(wk)
            ws=list(workers)
            if wk[0]=='hold':
                j=wk[1]
                if cancelled and w.chkCtx: ws[wi]=('post',j,'ctx'); out.append(('workerDecide',mk(workers=tuple(ws))))
                elif jobs[j][4] and w.chkInv: ws[wi]=('post',j,'invalid'); out.append(('workerDecide',mk(workers=tuple(ws))))
                else:
                    # start
                    if j in started: viol.append(('C01 twice',j))
                    okd=dict(ended)
                    for d in deps[j]:
                        if okd.get(d)!='ok': viol.append(('C01 dep not ok',j,d,okd.get(d)))
                    if cancelled: viol.append(('C09 start after cancel',j))
                    ws[wi]=('run',j); out.append(('workerStart',mk(workers=tuple(ws),started=started|{j})))
            elif wk[0]=='run':
                j=wk[1]; o=outcome[j]; c2 = cancelled or cancels[j]
                if o=='ok': ws[wi]=('post',j,None)
                elif o=='goexit': ws[wi]=('die',j)
                else: ws[wi]=('post',j,('e',j))
                out.append(('workerEnd',mk(workers=tuple(ws),cancelled=c2,ended=ended+((j,o),))))
            elif wk[0]=='post' and len(done)<capDone:
                ws[wi]=('idle',); out.append(('workerPost',mk(workers=tuple(ws),done=done+((wk[1],wk[2]),))))
            elif wk[0]=='die' and len(done)<capDone:
                ws[wi]=('idle',) if w.respawn else ('exited',)
                out.append(('workerDiePost',mk(workers=tuple(ws),done=done+((wk[1],('x',wk[1])),))))
            elif wk[0]=='idle' and phase=='exited':
                ws[wi]=('exited',); out.append(('workerExit',mk(workers=tuple(ws))))
        if extCancel and not cancelled:
            out.append(('cancel',mk(cancelled=True)))
        return out
    seen={init}; q=deque([init]); nstates=0; terminals=0; edges={}
    while q:
        s=q.popleft(); nstates+=1
        if nstates>maxstates: viol.append(('state limit',)); break
        caller,enq,closed,phase,ready,pending,ongoing,waiting,enqNil,err,jobs,workers,done,cancelled,started,ended,nsent=s
        # C19 report check in every select state
        if phase=='sel' and emit:
            x=pending-len(ready)-waiting
            if not (pending>=0 and waiting>=0 and 0<=x<=N and x==ongoing and pending<=nsent and waiting<=sum(1 for j in range(nsent) if deps[j])):
                viol.append(('C19',pending,len(ready),waiting,ongoing))
        if sum(1 for wk in workers if wk[0]=='run')>N: viol.append(('C03',))
        ss=succ(s)
        edges[s]=ss
        if not ss:
            terminals+=1
            if not final(s):
                if caller[0]!='ret': viol.append(('C05 deadlock',s))
                else: viol.append(('C06 leak',workers,phase))
        for (a,t) in ss:
            if not (mu(t)<mu(s)): viol.append(('measure',a,mu(s),mu(t)))
            if a=='callerRetFin':
                r=t[0][1]; ed=dict(ended)
                if not coe:
                    if r is None:
                        if cancelled: viol.append(('C07 nil but cancelled',))
                        if any(ed.get(j)!='ok' for j in range(n)): viol.append(('C07 nil incomplete',ed))
                    else:
                        e=r[0]
                        okk = (e=='ctx' and cancelled) or (isinstance(e,tuple) and e[0]=='e' and ed.get(e[1])=='fail') or (isinstance(e,tuple) and e[0]=='x' and ed.get(e[1])=='goexit')
                        if not okk: viol.append(('C07 err not real',r,ed))
                else:
                    exp=sorted([('e',j) for j in range(n) if ed.get(j)=='fail']+[('x',j) for j in range(n) if ed.get(j)=='goexit'],key=str)
                    got=[] if r is None else [e for e in r if e!='ctx']
                    if 'invalid' in got: viol.append(('C08 sentinel',r))
                    if sorted(got,key=str)!=exp: viol.append(('C08 multiset',r,ed))
                    # everything runnable ran
                    def okdeps(j): return all(ed.get(d)=='ok' for d in deps[j])
                    if not cancelled:
                        for j in range(n):
                            if okdeps(j) and j not in started: viol.append(('C08 runnable not run',j))
                    if r is None and cancelled: viol.append(('C08 nil but cancelled',))
            if t not in seen: seen.add(t); q.append(t)
    explore.edges=edges
    return nstates, terminals, viol

def dags(n, dup=False):
    opts=[]
    for i in range(n):
        sub=[]
        for mask in range(1<<i):
            d=[k for k in range(i) if mask>>k&1]
            sub.append(tuple(d))
            if dup and d: sub.append(tuple(d)+(d[0],))
        opts.append(sub)
    return itertools.product(*opts)

if __name__=='__main__':
    mode=sys.argv[1]
    tot=0; bad=0
    if mode=='std':
        for n in (0,1,2,3):
            for deps in dags(n, dup=True):
                for outc in itertools.product(('ok','fail','goexit'),repeat=n):
                    for canc in itertools.product((False,True),repeat=n):
                        if sum(canc)>1: continue
                        for N in (1,2):
                            for coe in (False,True):
                                for ext in ((False,True) if n<=2 else (False,)):
                                    ns,tm,v=explore(N,coe,deps,outc,canc,ext,W())
                                    tot+=ns
                                    if v:
                                        bad+=1
                                        if bad<=5: print('VIOL',N,coe,deps,outc,canc,ext,v[:3])
        print('std: states',tot,'bad configs',bad)
    else:
        flag=sys.argv[2]
        kw={flag: (False if flag not in ('capDone',) else 1)}
        found={}
        for n in (1,2,3):
            for deps in dags(n):
                for outc in itertools.product(('ok','fail','goexit'),repeat=n):
                    for N in (1,2):
                        for coe in (False,True):
                            for ext in (False,True):
                                ns,tm,v=explore(N,coe,deps,outc,(False,)*n,ext,W(**kw))
                                for x in v:
                                    k=x[0]
                                    if k not in found: found[k]=(N,coe,deps,outc,ext)
        print(flag,'off ->',{k:v for k,v in found.items()})
