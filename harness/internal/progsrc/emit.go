package progsrc

import (
	"fmt"
	"regexp"
	"strings"

	ps "go.uber.org/cff/verifh/internal/progspec"
)

// Files is the emitted source of one program.
type Files struct {
	Name      string         // base name without extension, e.g. p0012
	Main      string         // <Name>.go, carries the cff build tag
	Companion string         // <Name>_fn.go, no build tag ("" if empty)
	Imported  string         // function declarations for the batch's imported-functions package
	LineK     map[int]int    // source line of a task's function expression -> k
	PredLineK map[int]int    // source line of a flow task's cff.Predicate( call -> k of the gated task
	ExpName   map[int]string // k -> expected TaskInfo.Name
	DirName   string         // expected directive name ("" if not instrumented)
	NeedsCur  bool           // uses the process-global current H (execs must be 1)
}

// BaseName returns the file base name of program pid.
func BaseName(pid int) string { return fmt.Sprintf("p%04d", pid) }

type emitter struct {
	p            *ps.Program
	pkg          string // batch package name
	fnsPkg       string // import path of the imported-functions package
	tyAlias      string
	slot         int
	body         strings.Builder // body of the directive call's enclosing function, line-tracked
	line         int             // current line within body (0-based count of newlines written)
	comp         strings.Builder
	gateDeclared bool // the method-value predicate type of this program has been emitted
	imp          strings.Builder
	lineK        map[int]int
	predLK       map[int]int // line (within body) of a cff.Predicate( call -> k
	expName      map[int]string
	needCur      bool
	usesRv       bool
}

func (e *emitter) w(format string, a ...interface{}) {
	s := fmt.Sprintf(format, a...)
	e.body.WriteString(s)
	e.line += strings.Count(s, "\n")
}

// arg wraps an argument expression in the logging identity.
func (e *emitter) arg(expr string) string {
	s := e.slot
	e.slot++
	if !e.p.Wrap {
		return expr
	}
	return fmt.Sprintf("rt.Arg(h, %d, %s)", s, expr)
}

// resName names the variable of Results target i. Under the `names` quirk the caller's variables
// are called like the generated per-type variables (v1, v2, …).
func (e *emitter) resName(i int) string {
	if e.p.Quirk == "names" {
		// A result whose type is the j-th Params type is called v<j+1>: that is the name of the
		// generated variable of that very type (type ids are handed out in rendering order, Params first).
		t := e.p.Results[i]
		first := true
		for k := 0; k < i; k++ {
			if e.p.Results[k] == t {
				first = false
			}
		}
		if first {
			for j, pt := range e.p.Params {
				if pt == t {
					return fmt.Sprintf("v%d", j+1)
				}
			}
		}
		return fmt.Sprintf("v%d", 50+i)
	}
	return fmt.Sprintf("r%d", i)
}

// argFn wraps a function argument. A method value `rv.M` is, for every second program, wrapped at
// its receiver (`rt.Arg(h, k, rv).M`): the receiver of a method value is a user expression that Go
// evaluates when the method value is evaluated, so it too must be hoisted into the prologue.
func (e *emitter) argFn(fnx string) string {
	if e.p.Wrap && strings.HasPrefix(fnx, "rv.") && e.p.PID%2 == 0 {
		s := e.slot
		e.slot++
		return fmt.Sprintf("rt.Arg(h, %d, rv).%s", s, fnx[3:])
	}
	return e.arg(fnx)
}

// tyx spells a type in the program file / companion file.
func (e *emitter) tyx(id int) string { return TypeExpr(id, e.tyAlias+".", "ext.") }

// tyc spells a type in the companion file (ty imported unaliased).
func tyc(id int) string { return TypeExpr(id, "ty.", "ext.") }

// sig builds a parameter list and the list of val-converted arguments.
func params(ctx bool, ctxName string, pre []string, ins []int, spell func(int) string) (decl string, vals []string) {
	var ds []string
	if ctx {
		ds = append(ds, ctxName+" context.Context")
	}
	ds = append(ds, pre...)
	for i, t := range ins {
		ds = append(ds, fmt.Sprintf("a%d %s", i, spell(t)))
		vals = append(vals, fmt.Sprintf("valT%d(a%d)", t, i))
	}
	return strings.Join(ds, ", "), vals
}

func results(outs []int, err bool, spell func(int) string) string {
	var rs []string
	for _, t := range outs {
		rs = append(rs, spell(t))
	}
	if err {
		rs = append(rs, "error")
	}
	switch len(rs) {
	case 0:
		return ""
	case 1:
		return " " + rs[0]
	}
	return " (" + strings.Join(rs, ", ") + ")"
}

// hexpr returns the expression that yields the H inside a function of the
// given form.
func (e *emitter) hexpr(form string, ctx bool, ctxName string) string {
	switch form {
	case "lit":
		return "h"
	case "method":
		return "r.h"
	}
	if ctx {
		return "rt.From(" + ctxName + ")"
	}
	e.needCur = true
	return "rt.Cur()"
}

func ctxArg(ctx bool, name string) string {
	if ctx {
		return name
	}
	return "nil"
}

// taskBody returns the statements of a flow task function.
func taskBody(hx string, ctxA string, t *ps.Task, vals []string, mk func(int) string, errName string) string {
	call := fmt.Sprintf("%s.Task(%s, %d, %d", hx, ctxA, t.K, len(t.Outs))
	for _, v := range vals {
		call += ", " + v
	}
	call += ")"
	var rets []string
	for o, ty := range t.Outs {
		rets = append(rets, fmt.Sprintf("%s(o[%d])", mk(ty), o))
	}
	switch {
	case len(t.Outs) == 0 && !t.Err:
		return "\t" + call + "\n"
	case len(t.Outs) == 0 && t.Err:
		return fmt.Sprintf("\t_, %s := %s\n\treturn %s\n", errName, call, errName)
	case !t.Err:
		return fmt.Sprintf("\to, _ := %s\n\treturn %s\n", call, strings.Join(rets, ", "))
	}
	return fmt.Sprintf("\to, %s := %s\n\treturn %s, %s\n", errName, call, strings.Join(rets, ", "), errName)
}

func indent(s, by string) string {
	lines := strings.Split(strings.TrimRight(s, "\n"), "\n")
	for i, l := range lines {
		if l != "" {
			lines[i] = by + l
		}
	}
	return strings.Join(lines, "\n") + "\n"
}

func mkLocal(id int) string { return fmt.Sprintf("mkT%d", id) }

func mkImported(id int) string {
	if ps.Types[id].Home == "ext" {
		return fmt.Sprintf("ext.MkT%d", id)
	}
	return fmt.Sprintf("ty.MkT%d", id)
}

func valImported(vals []string, ins []int) []string {
	out := make([]string, len(vals))
	for i, t := range ins {
		pkg := "ty"
		if ps.Types[t].Home == "ext" {
			pkg = "ext"
		}
		out[i] = fmt.Sprintf("%s.ValT%d(a%d)", pkg, t, i)
	}
	return out
}

// names of the context / error identifiers used in function literals.
func (e *emitter) ctxName() string {
	if e.p.Quirk == "names" {
		return "ctx"
	}
	return "c"
}

func (e *emitter) errName() string {
	if e.p.Quirk == "names" {
		return "err"
	}
	return "e"
}

// flowTaskFn returns the function expression of flow task t and emits
// out-of-line declarations as needed.
func (e *emitter) flowTaskFn(t *ps.Task) string {
	pid := e.p.PID
	if e.p.Quirk == "sig-shape" && e.p.QuirkK == t.K {
		return shapeFn(e.p.SigP, e.p.SigR)
	}
	switch t.Form {
	case "lit":
		cn := e.ctxName()
		decl, vals := params(t.Ctx, cn, nil, t.Ins, e.tyx)
		body := taskBody("h", ctxArg(t.Ctx, cn), t, vals, mkLocal, e.errName())
		if e.p.Quirk == "nested" && t.K == 0 {
			body = "\tvar nested T2\n\t_ = cff.Flow(context.Background(), cff.Results(&nested), cff.Task(func() T2 { return mkT2(1) }))\n" + body
		}
		return fmt.Sprintf("func(%s)%s {\n%s\t\t}", decl, results(t.Outs, t.Err, e.tyx), indent(body, "\t\t"))
	case "named":
		name := fmt.Sprintf("p%dTask%d", pid, t.K)
		decl, vals := params(t.Ctx, "c", nil, t.Ins, tyc)
		hx := e.hexpr("named", t.Ctx, "c")
		fmt.Fprintf(&e.comp, "func %s(%s)%s {\n%s}\n\n", name, decl, results(t.Outs, t.Err, tyc),
			taskBody(hx, ctxArg(t.Ctx, "c"), t, vals, mkLocal, "e"))
		return name
	case "method":
		e.usesRv = true
		name := fmt.Sprintf("Task%d", t.K)
		decl, vals := params(t.Ctx, "c", nil, t.Ins, tyc)
		fmt.Fprintf(&e.comp, "func (r *recvP%d) %s(%s)%s {\n%s}\n\n", pid, name, decl, results(t.Outs, t.Err, tyc),
			taskBody("r.h", ctxArg(t.Ctx, "c"), t, vals, mkLocal, "e"))
		return "rv." + name
	case "imported":
		name := fmt.Sprintf("P%dTask%d", pid, t.K)
		decl, vals := params(t.Ctx, "c", nil, t.Ins, tyc)
		hx := e.hexpr("imported", t.Ctx, "c")
		fmt.Fprintf(&e.imp, "func %s(%s)%s {\n%s}\n\n", name, decl, results(t.Outs, t.Err, tyc),
			taskBody(hx, ctxArg(t.Ctx, "c"), t, valImported(vals, t.Ins), mkImported, "e"))
		return "fx." + name
	}
	panic("bad form " + t.Form)
}

// shapeFn is a type-correct function literal with the given parameter / result kinds
// (c context.Context, v T2, e error; trailing V = the last parameter is variadic).
func shapeFn(sigP, sigR string) string {
	variadic := strings.HasSuffix(sigP, "V")
	sigP = strings.TrimSuffix(sigP, "V")
	var ps, rs, zs []string
	for i, k := range sigP {
		ty := "T2"
		if k == 'c' {
			ty = "context.Context"
		}
		if variadic && i == len(sigP)-1 {
			ty = "..." + ty
		}
		ps = append(ps, fmt.Sprintf("_ %s", ty))
	}
	for _, k := range sigR {
		if k == 'e' {
			rs, zs = append(rs, "error"), append(zs, "nil")
		} else {
			rs, zs = append(rs, "T2"), append(zs, "T2(0)")
		}
	}
	return fmt.Sprintf("func(%s) (%s) { return %s }", strings.Join(ps, ", "), strings.Join(rs, ", "), strings.Join(zs, ", "))
}

func (e *emitter) predFn(t *ps.Task) string {
	pid := e.p.PID
	if strings.HasPrefix(e.p.Quirk, "sig-pred") && e.p.QuirkK == t.K {
		// unsupported predicate signatures (type-correct Go): a defined boolean result type,
		// two results, a variadic parameter
		cn := e.ctxName()
		decl, vals := params(t.PCtx, cn, nil, t.PIns, e.tyx)
		call := fmt.Sprintf("h.Pred(%s, %d", ctxArg(t.PCtx, cn), t.K)
		for _, v := range vals {
			call += ", " + v
		}
		switch e.p.Quirk {
		case "sig-prednamedbool":
			return fmt.Sprintf("func(%s) Flag { return Flag(%s)) }", decl, call)
		case "sig-pred2":
			return fmt.Sprintf("func(%s) (bool, error) { return %s), nil }", decl, call)
		default: // sig-predvariadic
			if decl != "" {
				decl += ", "
			}
			return fmt.Sprintf("func(%s_ ...int64) bool { return %s) }", decl, call)
		}
	}
	if t.PForm == "meth" && len(t.PIns) == 0 && !t.PCtx {
		// `pNGate{h, k}.Enabled`: one method, one receiver value per predicate
		if !e.gateDeclared {
			e.gateDeclared = true
			fmt.Fprintf(&e.comp, "type p%dGate struct {\n\th *rt.H\n\tk int\n}\n\nfunc (g p%dGate) Enabled() bool { return g.h.Pred(nil, g.k) }\n\n", pid, pid)
		}
		return fmt.Sprintf("p%dGate{h, %d}.Enabled", pid, t.K)
	}
	if t.PForm == "named" {
		name := fmt.Sprintf("p%dPred%d", pid, t.K)
		decl, vals := params(t.PCtx, "c", nil, t.PIns, tyc)
		hx := e.hexpr("named", t.PCtx, "c")
		call := fmt.Sprintf("%s.Pred(%s, %d", hx, ctxArg(t.PCtx, "c"), t.K)
		for _, v := range vals {
			call += ", " + v
		}
		fmt.Fprintf(&e.comp, "func %s(%s) bool {\n\treturn %s)\n}\n\n", name, decl, call)
		return name
	}
	cn := e.ctxName()
	decl, vals := params(t.PCtx, cn, nil, t.PIns, e.tyx)
	call := fmt.Sprintf("h.Pred(%s, %d", ctxArg(t.PCtx, cn), t.K)
	for _, v := range vals {
		call += ", " + v
	}
	return fmt.Sprintf("func(%s) bool { return %s) }", decl, call)
}

// simpleFn emits a function with signature func([ctx]) [error] whose body
// is `<hx>.<method>(ctx, id)`.
func (e *emitter) simpleFn(form, goName, method string, id int, ctx, err bool) string {
	pid := e.p.PID
	mkBody := func(hx, cn string) string {
		call := fmt.Sprintf("%s.%s(%s, %d)", hx, method, ctxArg(ctx, cn), id)
		if err {
			return "return " + call
		}
		return "_ = " + call
	}
	res := ""
	if err {
		res = " error"
	}
	switch form {
	case "lit":
		cn := e.ctxName()
		decl, _ := params(ctx, cn, nil, nil, nil)
		return fmt.Sprintf("func(%s)%s { %s }", decl, res, mkBody("h", cn))
	case "named":
		name := fmt.Sprintf("p%d%s%d", pid, goName, id)
		decl, _ := params(ctx, "c", nil, nil, nil)
		fmt.Fprintf(&e.comp, "func %s(%s)%s {\n\t%s\n}\n\n", name, decl, res, mkBody(e.hexpr("named", ctx, "c"), "c"))
		return name
	case "method":
		e.usesRv = true
		name := fmt.Sprintf("%s%d", goName, id)
		decl, _ := params(ctx, "c", nil, nil, nil)
		fmt.Fprintf(&e.comp, "func (r *recvP%d) %s(%s)%s {\n\t%s\n}\n\n", pid, name, decl, res, mkBody("r.h", "c"))
		return "rv." + name
	case "imported":
		name := fmt.Sprintf("P%d%s%d", pid, goName, id)
		decl, _ := params(ctx, "c", nil, nil, nil)
		fmt.Fprintf(&e.imp, "func %s(%s)%s {\n\t%s\n}\n\n", name, decl, res, mkBody(e.hexpr("imported", ctx, "c"), "c"))
		return "fx." + name
	}
	panic("bad form " + form)
}

func (e *emitter) sliceFn(s *ps.Slice) string {
	pid := e.p.PID
	valExpr := fmt.Sprintf("valT%d(a0)", s.Param)
	build := func(cn, hx string, spell func(int) string) (decl, body string) {
		var ds []string
		if s.Ctx {
			ds = append(ds, cn+" context.Context")
		}
		idx := "-1"
		if s.Idx {
			ds = append(ds, "i int")
			idx = "i"
		}
		ds = append(ds, "a0 "+spell(s.Param))
		call := fmt.Sprintf("%s.SliceFn(%s, %d, %s, %s)", hx, ctxArg(s.Ctx, cn), s.S, idx, valExpr)
		if s.Err {
			return strings.Join(ds, ", "), "return " + call
		}
		return strings.Join(ds, ", "), "_ = " + call
	}
	res := ""
	if s.Err {
		res = " error"
	}
	if s.Form == "named" {
		name := fmt.Sprintf("p%dSlice%d", pid, s.S)
		decl, body := build("c", e.hexpr("named", s.Ctx, "c"), tyc)
		fmt.Fprintf(&e.comp, "func %s(%s)%s {\n\t%s\n}\n\n", name, decl, res, body)
		return name
	}
	decl, body := build(e.ctxName(), "h", e.tyx)
	return fmt.Sprintf("func(%s)%s { %s }", decl, res, body)
}

func (e *emitter) sliceExpr(s *ps.Slice) string {
	pid := e.p.PID
	name := fmt.Sprintf("slP%dS%d", pid, s.S)
	typ := "[]" + tyc(s.Elem)
	if s.Named {
		typ = fmt.Sprintf("SL%d", s.Elem)
	}
	if s.Len < 0 {
		fmt.Fprintf(&e.comp, "func %s() %s { return nil }\n\n", name, typ)
	} else {
		fmt.Fprintf(&e.comp, "func %s() %s {\n\tout := make(%s, %d)\n\tfor i := range out {\n\t\tout[i] = mkT%d(rt.SliceElem(%d, i))\n\t}\n\treturn out\n}\n\n",
			name, typ, typ, s.Len, s.Elem, s.S)
	}
	return name + "()"
}

func (e *emitter) mapFn(m *ps.Map) string {
	pid := e.p.PID
	build := func(cn, hx string, spell func(int) string) (decl, body string) {
		var ds []string
		if m.Ctx {
			ds = append(ds, cn+" context.Context")
		}
		ds = append(ds, "k0 "+spell(m.KParam), "a0 "+spell(m.VParam))
		call := fmt.Sprintf("%s.MapFn(%s, %d, valT%d(k0), valT%d(a0))", hx, ctxArg(m.Ctx, cn), m.M, m.KParam, m.VParam)
		if m.Err {
			return strings.Join(ds, ", "), "return " + call
		}
		return strings.Join(ds, ", "), "_ = " + call
	}
	res := ""
	if m.Err {
		res = " error"
	}
	if m.Form == "named" {
		name := fmt.Sprintf("p%dMap%d", pid, m.M)
		decl, body := build("c", e.hexpr("named", m.Ctx, "c"), tyc)
		fmt.Fprintf(&e.comp, "func %s(%s)%s {\n\t%s\n}\n\n", name, decl, res, body)
		return name
	}
	decl, body := build(e.ctxName(), "h", e.tyx)
	return fmt.Sprintf("func(%s)%s { %s }", decl, res, body)
}

func (e *emitter) mapExpr(m *ps.Map) string {
	name := fmt.Sprintf("mpP%dM%d", e.p.PID, m.M)
	typ := fmt.Sprintf("map[%s]%s", tyc(m.Key), tyc(m.Val))
	if m.Len < 0 {
		fmt.Fprintf(&e.comp, "func %s() %s { return nil }\n\n", name, typ)
	} else {
		fmt.Fprintf(&e.comp, "func %s() %s {\n\tout := make(%s, %d)\n\tfor j := 0; j < %d; j++ {\n\t\tout[mkT%d(rt.MapKey(%d, j))] = mkT%d(rt.MapVal(%d, j))\n\t}\n\treturn out\n}\n\n",
			name, typ, typ, m.Len, m.Len, m.Key, m.M, m.Val, m.M)
	}
	return name + "()"
}

var (
	reCtx  = regexp.MustCompile(`\bcontext\.`)
	reRT   = regexp.MustCompile(`\brt\.`)
	reTy   = regexp.MustCompile(`\bty\.`)
	reExt  = regexp.MustCompile(`\bext\.`)
	reFx   = regexp.MustCompile(`\bfx\.`)
	reErrs = regexp.MustCompile(`\berrors\.`)
)

// Emit produces the source files of program p for batch package pkg;
// fnsPkg is the import path of the batch's imported-functions package.
func Emit(p *ps.Program, pkg, fnsPkg string) *Files {
	e := &emitter{p: p, pkg: pkg, fnsPkg: fnsPkg, tyAlias: "ty", lineK: map[int]int{}, predLK: map[int]int{}, expName: map[int]string{}}
	if p.TyAlias {
		e.tyAlias = "tyy"
	}
	name := BaseName(p.PID)
	dirName := ""
	if p.InstrDir {
		dirName = fmt.Sprintf("d%d", p.PID)
	}

	// ----- an auxiliary directive of the other kind before the program's own one (every fourth
	// program): files with several directives, a Parallel before a Flow and vice versa
	if p.PID%4 == 2 && (p.Quirk == "" || p.Quirk == "timealias" || p.Quirk == "params2" || p.Quirk == "results2") && strings.HasPrefix(p.Stream, "wf") {
		if p.Kind == "flow" && p.PID%8 == 6 {
			// … inside a package-level variable declaration
			e.w("var extraP%d = func(cx context.Context) error {\n\treturn cff.Parallel(cx, cff.Task(func() {}))\n}\n\n", p.PID)
		} else if p.Kind == "flow" {
			e.w("func extraP%d(cx context.Context) error {\n\treturn cff.Parallel(cx, cff.Task(func() {}))\n}\n\n", p.PID)
		} else {
			// … whose task takes a parameter of the predeclared type error (a named type without a package)
			e.w("func extraP%d(cx context.Context) (n int64, err error) {\n\terr = cff.Flow(cx, cff.Params(errors.New(\"e\")), cff.Results(&n), cff.Task(func(e error) int64 { return int64(len(e.Error())) }))\n\treturn\n}\n\n", p.PID)
		}
	}

	// ----- enclosing function
	fn := fmt.Sprintf("RunP%d", p.PID)
	cx := "cx"
	if p.Quirk == "names" {
		cx = "ctx"
	}
	switch {
	case p.Quirk == "paramtime":
		e.w("func RunP%d(cx context.Context, h *rt.H) error { return runP%d(cx, h, 0) }\n\n", p.PID, p.PID)
		e.w("func runP%d(cx context.Context, h *rt.H, time int) error {\n\t_ = time\n", p.PID)
	case p.Quirk == "paramdebug":
		e.w("func RunP%d(cx context.Context, h *rt.H) error { return runP%d(cx, h, 0) }\n\n", p.PID, p.PID)
		e.w("func runP%d(cx context.Context, h *rt.H, debug int) error {\n\t_ = debug\n", p.PID)
	case p.Generic:
		e.w("func RunP%d(cx context.Context, h *rt.H) error { return runP%d[int64](cx, h, 7) }\n\n", p.PID, p.PID)
		e.w("func runP%d[Q any](cx context.Context, h *rt.H, q Q) error {\n\t_ = q\n", p.PID)
	default:
		e.w("func %s(%s context.Context, h *rt.H) error {\n", fn, cx)
	}
	for i, t := range p.Results {
		e.w("\t%s := mkT%d(rt.Sentinel)\n", e.resName(i), t)
	}
	e.w("\trv := &recvP%d{h: h}\n\t_ = rv\n", p.PID)
	errVar := "err"
	switch p.Quirk {
	case "timealias":
		e.w("\t_ = tm.Now()\n")
	case "errvar":
		e.w("\terr := errors.New(\"outer\")\n")
	case "names":
		errVar = "res"
		e.w("\temitter := h.Emitter(0)\n\tsched := h.Conc()\n\ttasks := h.Param(0)\n\tflowInfo := %q\n\tstartTime := \"t0\"\n\t_, _, _, _, _ = emitter, sched, tasks, flowInfo, startTime\n", dirName)
	}
	directive := "Flow"
	if p.Kind == "par" {
		directive = "Parallel"
	}
	assign := ":="
	if p.Quirk == "errvar" {
		assign = "="
	}
	site := p.Site
	switch p.Quirk {
	case "", "timealias", "params2", "results2", "invokevar":
	default:
		site = "assign"
	}
	if site == "" {
		site = "assign"
	}
	recordResults := func(ind string) {
		for i, t := range p.Results {
			e.w("%sh.Result(%d, valT%d(%s))\n", ind, i, t, e.resName(i))
		}
	}
	switch site {
	case "return":
		e.w("\tdefer func() {\n")
		recordResults("\t\t")
		e.w("\t}()\n\treturn cff.%s(%s,\n", directive, e.arg(cx))
	case "if":
		e.w("\tif e2 := cff.%s(%s,\n", directive, e.arg(cx))
	case "arg":
		e.w("\t%s %s rt.Ret(h, cff.%s(%s,\n", errVar, assign, directive, e.arg(cx))
	case "var":
		// the directive as the initialiser of a local variable declaration
		e.w("\tvar %s = cff.%s(%s,\n", errVar, directive, e.arg(cx))
	default:
		e.w("\t%s %s cff.%s(%s,\n", errVar, assign, directive, e.arg(cx))
	}

	for _, tok := range p.Order {
		kind, id := ps.SplitTok(tok)
		switch kind {
		case "params":
			e.emitParams()
		case "results":
			var as []string
			for i := range p.Results {
				as = append(as, e.arg("&"+e.resName(i)))
			}
			if p.Quirk == "results2" && len(as) >= 2 {
				e.w("\t\tcff.Results(%s),\n", as[0])
				e.w("\t\tcff.Results(%s),\n", strings.Join(as[1:], ", "))
			} else {
				e.w("\t\tcff.Results(%s),\n", strings.Join(as, ", "))
			}
		case "conc":
			x := "h.Conc()"
			if p.Quirk == "names" {
				x = "sched"
			}
			e.w("\t\tcff.Concurrency(%s),\n", e.arg(x))
		case "coe":
			if p.PID%3 == 1 {
				// the option given twice: the last occurrence decides (here an earlier one with the
				// opposite constant value)
				e.w("\t\tcff.ContinueOnError(%v),\n", !strings.HasSuffix(p.COE, "1"))
			}
			switch p.COE {
			case "const0":
				e.w("\t\tcff.ContinueOnError(false),\n")
			case "const1":
				e.w("\t\tcff.ContinueOnError(true),\n")
			case "expr0":
				e.w("\t\tcff.ContinueOnError(%s),\n", e.arg("h.False()"))
			case "expr1":
				e.w("\t\tcff.ContinueOnError(%s),\n", e.arg("h.True()"))
			}
		case "instr":
			x := fmt.Sprintf("%q", dirName)
			if p.Quirk == "names" {
				x = "flowInfo"
			}
			e.w("\t\tcff.Instrument%s(%s),\n", directive, e.arg(x))
		case "emitter":
			x := fmt.Sprintf("h.Emitter(%d)", id)
			if p.Quirk == "names" && id == 0 {
				x = "emitter"
			}
			e.w("\t\tcff.WithEmitter(%s),\n", e.arg(x))
		case "task":
			e.emitFlowTask(p.Tasks[id], name)
		case "ptask":
			t := p.PTasks[id]
			fnx := e.simpleFn(t.Form, "PTask", "PTask", t.K, t.Ctx, t.Err)
			e.w("\t\tcff.Task(")
			e.lineK[e.line] = t.K
			e.w("%s", e.argFn(fnx))
			if t.Instr {
				e.expName[t.K] = fmt.Sprintf("t%d", t.K)
				e.w(", cff.Instrument(%s)", e.arg(fmt.Sprintf("%q", e.expName[t.K])))
			}
			e.w("),\n")
		case "ptasks":
			g := p.Groups[id]
			e.w("\t\tcff.Tasks(\n")
			for _, k := range g.Ks {
				t := p.PTasks[k]
				e.w("\t\t\t%s,\n", e.argFn(e.simpleFn(t.Form, "PTask", "PTask", t.K, t.Ctx, t.Err)))
			}
			e.w("\t\t),\n")
		case "slice":
			s := p.Slices[id]
			e.w("\t\tcff.Slice(%s, %s", e.argFn(e.sliceFn(s)), e.arg(e.sliceExpr(s)))
			if s.End {
				e.w(", cff.SliceEnd(%s)", e.arg(e.simpleFn("lit", "SliceEnd", "SliceEnd", s.S, s.EndCtx, s.EndErr)))
			}
			e.w("),\n")
		case "map":
			m := p.Maps[id]
			e.w("\t\tcff.Map(%s, %s", e.argFn(e.mapFn(m)), e.arg(e.mapExpr(m)))
			if m.End {
				e.w(", cff.MapEnd(%s)", e.arg(e.simpleFn("lit", "MapEnd", "MapEnd", m.M, m.EndCtx, m.EndErr)))
			}
			e.w("),\n")
		}
	}
	switch site {
	case "return":
		e.w("\t)\n}\n")
	case "if":
		e.w("\t); e2 != nil {\n")
		recordResults("\t\t")
		e.w("\t\treturn e2\n\t}\n")
		recordResults("\t")
		e.w("\treturn nil\n}\n")
	case "arg":
		e.w("\t))\n")
		recordResults("\t")
		e.w("\treturn %s\n}\n", errVar)
	default:
		e.w("\t)\n")
		recordResults("\t")
		e.w("\treturn %s\n}\n", errVar)
	}

	// ----- a very long physical line (a one-line data literal of 70,000 bytes) after the
	// directive in every seventh program: line-oriented post-processing must not lose it
	if p.PID%7 == 5 {
		e.w("\nvar _ = len(\"%s\")\n", strings.Repeat("x", 70000))
	}

	// ----- a raw string literal whose lines look like build constraints (a file template, say), after
	// the directive in every ninth program: text outside the directive is copied, not interpreted
	if p.PID%9 == 4 {
		e.w("\nconst p%dScaffold = `package scaffold\n//go:build linux && !ignore\n// +build linux,!ignore\n\n\t//go:build cff\n`\n\nvar _ = len(p%dScaffold)\n", p.PID, p.PID)
	}

	// ----- assemble main file; line numbers shift by the header length.
	body := e.body.String()
	var hdr strings.Builder
	if p.PID%5 == 3 {
		// a language-version guard next to the cff tag: in the go 1.22 scratch module it selects the
		// pre-1.22 (shared) loop-variable semantics for this file and for the file cff generates from it
		hdr.WriteString("//go:build cff && go1.18\n\n")
	} else {
		hdr.WriteString("//go:build cff\n\n")
	}
	fmt.Fprintf(&hdr, "package %s\n\nimport (\n\t\"context\"\n", pkg)
	if p.PID%6 == 1 {
		// a blank import (kept for its side effects): the generated file must keep it
		hdr.WriteString("\t_ \"embed\"\n")
	}
	if reErrs.MatchString(body) {
		hdr.WriteString("\t\"errors\"\n")
	}
	if p.Quirk == "timealias" {
		hdr.WriteString("\ttm \"time\"\n")
	}
	hdr.WriteString("\n\t\"go.uber.org/cff\"\n")
	if reFx.MatchString(body) {
		fmt.Fprintf(&hdr, "\tfx %q\n", fnsPkg)
	}
	hdr.WriteString("\t\"verifprog/rt\"\n")
	tyTwice := false
	if regexp.MustCompile(`\b` + e.tyAlias + `\.`).MatchString(body) {
		if p.TyAlias {
			hdr.WriteString("\ttyy \"verifprog/ty\"\n")
		} else {
			hdr.WriteString("\t\"verifprog/ty\"\n")
		}
		if p.PID%4 == 3 {
			// the same package under a second local name (legal Go): the qualifier the generator
			// prints for its types must not depend on anything but the file
			hdr.WriteString("\tty2nd \"verifprog/ty\"\n")
			tyTwice = true
		}
	}
	hdr.WriteString(")\n\n")
	if tyTwice {
		hdr.WriteString("var _ = ty2nd.MkT8\n\n")
	}
	header := hdr.String()
	shift := strings.Count(header, "\n") + 1 // 1-based lines
	lineK := map[int]int{}
	for l, k := range e.lineK {
		lineK[l+shift] = k
	}
	predLineK := map[int]int{}
	for l, k := range e.predLK {
		predLineK[l+shift] = k
	}
	// Names inferred by -auto-instrument: "<file>.<line>".
	if p.Kind == "flow" && p.AutoInstr && p.InstrDir {
		for l, k := range lineK {
			if _, ok := e.expName[k]; !ok {
				e.expName[k] = fmt.Sprintf("%s.go.%d", name, l)
			}
		}
	}

	// ----- companion file
	comp := e.comp.String()
	var ch strings.Builder
	fmt.Fprintf(&ch, "// GENERATED by progrun.\npackage %s\n\n", pkg)
	var imps []string
	if reCtx.MatchString(comp) {
		imps = append(imps, `"context"`)
	}
	imps = append(imps, `"verifprog/rt"`)
	if reExt.MatchString(comp) {
		imps = append(imps, `ext "verifprog/ext"`)
	}
	if reTy.MatchString(comp) {
		imps = append(imps, `"verifprog/ty"`)
	}
	ch.WriteString("import (\n")
	for _, i := range imps {
		ch.WriteString("\t" + i + "\n")
	}
	ch.WriteString(")\n\n")
	fmt.Fprintf(&ch, "type recvP%d struct{ h *rt.H }\n\n", p.PID)
	ch.WriteString(comp)

	return &Files{
		Name:      name,
		Main:      header + body,
		Companion: ch.String(),
		Imported:  e.imp.String(),
		LineK:     lineK,
		PredLineK: predLineK,
		ExpName:   e.expName,
		DirName:   dirName,
		NeedsCur:  e.needCur,
	}
}

func (e *emitter) emitParams() {
	p := e.p
	val := func(i, t int) string {
		x := fmt.Sprintf("mkT%d(h.Param(%d))", t, i)
		if p.Quirk == "errvar" && i == 0 {
			x = fmt.Sprintf("mkT%d(rt.IfErr(err, h.Param(%d)))", t, i)
		}
		if p.Quirk == "names" && i == 0 {
			x = fmt.Sprintf("mkT%d(tasks)", t)
		}
		if p.PID%2 == 1 && ps.Types[t].Home == "local" {
			// a conversion to the written-out type: for unnamed composite types (*S1, []byte, map[…]…)
			// every type expression is a distinct go/types object, identical only up to types.Identical
			x = fmt.Sprintf("(%s)(%s)", e.tyx(t), x)
		}
		return x
	}
	if p.Quirk == "params2" && len(p.Params) >= 2 {
		e.w("\t\tcff.Params(%s),\n", e.arg(val(0, p.Params[0])))
		var as []string
		for i := 1; i < len(p.Params); i++ {
			as = append(as, e.arg(val(i, p.Params[i])))
		}
		e.w("\t\tcff.Params(%s),\n", strings.Join(as, ", "))
		return
	}
	var as []string
	for i, t := range p.Params {
		as = append(as, e.arg(val(i, t)))
	}
	e.w("\t\tcff.Params(%s),\n", strings.Join(as, ", "))
}

func (e *emitter) emitFlowTask(t *ps.Task, file string) {
	p := e.p
	fnx := e.flowTaskFn(t)
	e.w("\t\tcff.Task(")
	e.lineK[e.line] = t.K
	e.w("%s", e.argFn(fnx))
	if t.Pred {
		// cff records the position of the cff.Predicate( call for the predicate
		// (the `// file:line:col` comment above `predN := new(` in the generated code).
		e.w(",\n\t\t\tcff.Predicate(")
		e.predLK[e.line] = t.K
		e.w("%s)", e.arg(e.predFn(t)))
	}
	if t.FB {
		var as []string
		for o, ty := range t.Outs {
			as = append(as, e.arg(fmt.Sprintf("mkT%d(rt.FB(%d, %d))", ty, t.K, o)))
		}
		if p.Quirk == "sig-fbarity" && p.QuirkK == t.K {
			as = append(as, "int64(0)") // one value too many
		}
		e.w(",\n\t\t\tcff.FallbackWith(%s)", strings.Join(as, ", "))
	}
	if t.Instr {
		e.expName[t.K] = fmt.Sprintf("t%d", t.K)
		x := fmt.Sprintf("%q", e.expName[t.K])
		if p.Quirk == "names" && t.K == 0 {
			x = "startTime"
		}
		e.w(",\n\t\t\tcff.Instrument(%s)", e.arg(x))
	}
	if t.Invoke {
		if p.Quirk == "invokevar" {
			e.w(",\n\t\t\tcff.Invoke(h.True())")
		} else {
			e.w(",\n\t\t\tcff.Invoke(true)")
		}
	}
	e.w(",\n\t\t),\n")
}
