package progoracle

import (
	"fmt"
	"sort"
	"strconv"
	"strings"

	ps "go.uber.org/cff/verifh/internal/progspec"
)

// Mismatch is one oracle disagreement.
type Mismatch struct {
	Prop string
	Msg  string
}

type mm struct{ list []Mismatch }

func (m *mm) add(prop, format string, a ...interface{}) {
	msg := fmt.Sprintf(format, a...)
	msg = strings.Join(strings.Fields(msg), "_")
	m.list = append(m.list, Mismatch{prop, msg})
}

// DefaultConc is the scheduler's default concurrency in the runner
// processes: max(GOMAXPROCS, 4). Set by the driver.
var DefaultConc = 4

// ---------------------------------------------------------------------
// Accept verdicts.

// WellFormed predicts whether cff must accept the program, and, when not,
// the diagnostic classes of which at least one is expected.
func WellFormed(p *ps.Program) (bool, []string) {
	diag := map[string]bool{}
	if p.Kind == "par" {
		hasEnd := false
		for _, s := range p.Slices {
			hasEnd = hasEnd || s.End
		}
		for _, m := range p.Maps {
			hasEnd = hasEnd || m.End
		}
		if p.COE != "" && hasEnd {
			diag["other"] = true
		}
		instr := p.InstrDir
		for _, t := range p.PTasks {
			instr = instr || t.Instr
		}
		if instr && p.Emitters == 0 {
			diag["other"] = true
		}
		if len(p.PTasks)+len(p.Slices)+len(p.Maps) == 0 {
			diag["other"] = true
		}
		// Element types must be assignable to the function's parameters
		// (the relation is given by the spec's assignable flag).
		for _, s := range p.Slices {
			if !s.Assign {
				diag["other"] = true
			}
		}
		for _, mp := range p.Maps {
			if !mp.Assign {
				diag["other"] = true
			}
		}
		return len(diag) == 0, keys(diag)
	}
	nprov := map[int]int{}
	inParams := map[int]int{}
	inOuts := map[int]int{}
	for _, x := range p.Params {
		nprov[x]++
		inParams[x]++
	}
	for _, t := range p.Tasks {
		for _, x := range t.Outs {
			nprov[x]++
			inOuts[x]++
		}
	}
	consumed := map[int]bool{}
	for _, x := range p.Results {
		consumed[x] = true
	}
	for _, t := range p.Tasks {
		for _, x := range t.Ins {
			consumed[x] = true
		}
		for _, x := range t.PIns {
			consumed[x] = true
		}
	}
	for x := range consumed {
		if nprov[x] == 0 {
			diag["no-provider"] = true
		}
	}
	for x, n := range nprov {
		if n > 1 {
			if inParams[x] > 0 && inOuts[x] > 0 {
				diag["dup-provider"] = true
				diag["unused-param"] = true
			} else {
				diag["dup-provider"] = true
			}
		}
		if !consumed[x] {
			if inParams[x] > 0 {
				diag["unused-param"] = true
			}
			if inOuts[x] > 0 {
				diag["unused-output"] = true
			}
		}
	}
	if _, cyc := topo(p); cyc {
		diag["cycle"] = true
	}
	instr := p.InstrDir
	for _, t := range p.Tasks {
		if (len(t.Outs) == 0) != t.Invoke {
			diag["invoke"] = true
		}
		if t.FB && !t.Err {
			diag["fallback"] = true
		}
		if t.Invoke && p.Quirk == "invokevar" {
			// cff.Invoke needs a constant argument.
			diag["invoke"] = true
			diag["other"] = true
		}
		instr = instr || t.Instr
	}
	if instr && p.Emitters == 0 {
		diag["other"] = true
	}
	switch p.Quirk {
	case "sig-prednamedbool", "sig-pred2", "sig-predvariadic", "sig-shape":
		diag["other"] = true // unsupported predicate signature
	case "sig-fbarity":
		diag["fallback"] = true
	}
	if len(p.Tasks) == 0 {
		diag["other"] = true
	}
	return len(diag) == 0, keys(diag)
}

func keys(m map[string]bool) []string {
	var out []string
	for k := range m {
		out = append(out, k)
	}
	sort.Strings(out)
	return out
}

// deps returns, per task, the tasks providing its inputs and predicate
// inputs (first provider in spec order when ambiguous).
func deps(p *ps.Program) (taskDeps, predDeps map[int][]int) {
	prov := map[int]int{}
	for i := len(p.Tasks) - 1; i >= 0; i-- {
		for _, x := range p.Tasks[i].Outs {
			prov[x] = p.Tasks[i].K
		}
	}
	taskDeps, predDeps = map[int][]int{}, map[int][]int{}
	for _, t := range p.Tasks {
		for _, x := range t.Ins {
			if d, ok := prov[x]; ok {
				taskDeps[t.K] = append(taskDeps[t.K], d)
			}
		}
		for _, x := range t.PIns {
			if d, ok := prov[x]; ok {
				predDeps[t.K] = append(predDeps[t.K], d)
			}
		}
	}
	return
}

// topo returns a topological order of the tasks and whether the
// dependency relation (through tasks and predicates) is cyclic.
func topo(p *ps.Program) ([]int, bool) {
	td, pd := deps(p)
	indeg := map[int]int{}
	cons := map[int][]int{}
	for _, t := range p.Tasks {
		seen := map[int]bool{}
		for _, d := range append(append([]int{}, td[t.K]...), pd[t.K]...) {
			if seen[d] {
				continue
			}
			seen[d] = true
			indeg[t.K]++
			cons[d] = append(cons[d], t.K)
		}
	}
	var order, queue []int
	for _, t := range p.Tasks {
		if indeg[t.K] == 0 {
			queue = append(queue, t.K)
		}
	}
	for len(queue) > 0 {
		k := queue[0]
		queue = queue[1:]
		order = append(order, k)
		for _, c := range cons[k] {
			indeg[c]--
			if indeg[c] == 0 {
				queue = append(queue, c)
			}
		}
	}
	return order, len(order) != len(p.Tasks)
}

// ---------------------------------------------------------------------
// Flow semantics.

type flowEval struct {
	p          *ps.Program
	val        map[int]int64 // type -> value (when its provider succeeded)
	ok         map[int]bool  // type -> provider succeeded
	jobRuns    map[int]bool
	jobOK      map[int]bool
	predCalled map[int]bool
	predArgs   map[int][]int64
	fnCalled   map[int]bool
	fnArgs     map[int][]int64
	fail       map[int]string // task -> ret entry when its job fails
	failIsPred map[int]bool
	anc        map[int]map[int]bool // task -> ancestor tasks
}

func denoteFlow(p *ps.Program, sc *ps.Scenario) *flowEval {
	ev := &flowEval{p: p, val: map[int]int64{}, ok: map[int]bool{}, jobRuns: map[int]bool{}, jobOK: map[int]bool{},
		predCalled: map[int]bool{}, predArgs: map[int][]int64{}, fnCalled: map[int]bool{}, fnArgs: map[int][]int64{},
		fail: map[int]string{}, failIsPred: map[int]bool{}, anc: map[int]map[int]bool{}}
	for i, x := range p.Params {
		ev.val[x] = ps.ParamVal(i)
		ev.ok[x] = true
	}
	order, _ := topo(p)
	td, pd := deps(p)
	byK := map[int]*ps.Task{}
	for _, t := range p.Tasks {
		byK[t.K] = t
	}
	allOK := func(tys []int) bool {
		for _, x := range tys {
			if !ev.ok[x] {
				return false
			}
		}
		return true
	}
	vals := func(tys []int) []int64 {
		out := make([]int64, len(tys))
		for i, x := range tys {
			out[i] = ev.val[x]
		}
		return out
	}
	for _, k := range order {
		t := byK[k]
		a := map[int]bool{}
		for _, d := range append(append([]int{}, td[k]...), pd[k]...) {
			a[d] = true
			for x := range ev.anc[d] {
				a[x] = true
			}
		}
		ev.anc[k] = a
		predReach := !t.Pred || allOK(t.PIns)
		if t.Pred && predReach {
			ev.predCalled[k] = true
			ev.predArgs[k] = vals(t.PIns)
		}
		if !allOK(t.Ins) || !predReach {
			continue
		}
		ev.jobRuns[k] = true
		outs := make([]int64, len(t.Outs))
		setOuts := func() {
			ev.jobOK[k] = true
			for o, x := range t.Outs {
				ev.val[x] = outs[o]
				ev.ok[x] = true
			}
		}
		fallback := func() {
			for o := range outs {
				outs[o] = ps.FallbackVal(k, o)
			}
			setOuts()
		}
		if t.Pred {
			switch sc.Pred[k] {
			case "panic":
				if t.FB {
					fallback()
				} else {
					ev.fail[k] = fmt.Sprintf("ppanic:%d:%s", k, sc.VClass('p', k, 0))
					ev.failIsPred[k] = true
				}
				continue
			case "f":
				setOuts() // zero values
				continue
			}
		}
		ev.fnCalled[k] = true
		ev.fnArgs[k] = vals(t.Ins)
		switch sc.Fn[k] {
		case "err":
			if t.FB {
				fallback()
			} else {
				ev.fail[k] = fmt.Sprintf("err:%d", k)
			}
		case "panic":
			if t.FB {
				fallback()
			} else {
				ev.fail[k] = fmt.Sprintf("panic:%d:%s", k, sc.VClass('t', k, 0))
			}
		default:
			for o := range outs {
				outs[o] = ps.TaskOut(k, o, ev.fnArgs[k])
			}
			setOuts()
		}
	}
	return ev
}

func joinArgs(k int, args []int64) string {
	s := strconv.Itoa(k)
	for _, a := range args {
		s += " " + strconv.FormatInt(a, 10)
	}
	return s
}

// CheckFlow compares the observations of one flow scenario.
func CheckFlow(p *ps.Program, sc *ps.Scenario, o *Obs) []Mismatch {
	m := &mm{}
	if o.Crash != "" {
		m.add("crash", "%s", o.Crash)
		return m.list
	}
	if !o.HasRet {
		m.add("crash", "no observation")
		return m.list
	}
	ev := denoteFlow(p, sc)
	var C []string
	for _, t := range p.Tasks {
		if e, ok := ev.fail[t.K]; ok {
			C = append(C, e)
		}
	}
	cancelK := sc.CancelIn()
	cancelActive := cancelK >= 0 && ev.fnCalled[cancelK]
	before := sc.Cancel == "before"

	// observed calls
	obsCall := map[int][]string{}
	obsPCall := map[int][]string{}
	for _, c := range o.Calls {
		switch c.Kind {
		case "call":
			k := atoi(c.F[0])
			obsCall[k] = append(obsCall[k], strings.Join(c.F, " "))
		case "pcall":
			k := atoi(c.F[0])
			obsPCall[k] = append(obsPCall[k], strings.Join(c.F, " "))
		default:
			m.add("calls", "unexpected %s line in a flow", c.Kind)
		}
	}
	checkSubset := func() {
		for k, ls := range obsCall {
			if len(ls) > 1 {
				m.add("calls", "task %d called %d times", k, len(ls))
			}
			if before || !ev.fnCalled[k] {
				m.add("calls", "task %d must not be called", k)
			} else if want := joinArgs(k, ev.fnArgs[k]); ls[0] != want {
				m.add("args", "task %d called with [%s] want [%s]", k, ls[0], want)
			}
		}
		for k, ls := range obsPCall {
			if len(ls) > 1 {
				m.add("calls", "predicate %d called %d times", k, len(ls))
			}
			if before || !ev.predCalled[k] {
				m.add("calls", "predicate %d must not be called", k)
			} else if want := joinArgs(k, ev.predArgs[k]); ls[0] != want {
				m.add("args", "predicate %d called with [%s] want [%s]", k, ls[0], want)
			}
		}
	}
	checkSubset()
	if cancelActive {
		// Nothing that depends on the cancelling task may start.
		_, pdeps := deps(p)
		for _, t := range p.Tasks {
			if ev.anc[t.K][cancelK] && len(obsCall[t.K]) > 0 {
				m.add("calls", "task %d started although it depends on task %d which cancelled the context", t.K, cancelK)
			}
			for _, d := range pdeps[t.K] {
				if (d == cancelK || ev.anc[d][cancelK]) && len(obsPCall[t.K]) > 0 {
					m.add("calls", "predicate %d started although it depends on task %d which cancelled the context", t.K, cancelK)
					break
				}
			}
		}
	}
	mustCallJob := func(k int) {
		// every function of an (ideal) successful ancestor job
		if ev.predCalled[k] && len(obsPCall[k]) == 0 {
			m.add("calls", "predicate %d must be called", k)
		}
		if ev.fnCalled[k] && len(obsCall[k]) == 0 {
			m.add("calls", "task %d must be called", k)
		}
	}
	unset := func() {
		for i := range p.Results {
			if o.Results[i] != "unset" {
				m.add("results", "result %d = %s want unset", i, o.Results[i])
			}
		}
	}

	switch {
	case before:
		if len(o.Ret) != 1 || o.Ret[0] != "ctx" {
			m.add("ret", "cancel=before: ret %v want [ctx]", o.Ret)
		}
		unset()
	case len(C) == 0 && !cancelActive:
		if len(o.Ret) != 0 {
			m.add("ret", "ret %v want nil", o.Ret)
		}
		for _, t := range p.Tasks {
			mustCallJob(t.K)
		}
		for i, x := range p.Results {
			want := "?"
			if ev.ok[x] {
				want = strconv.FormatInt(ev.val[x], 10)
			}
			if o.Results[i] != want {
				m.add("results", "result %d = %s want %s", i, o.Results[i], want)
			}
		}
	default:
		allowed := map[string]bool{}
		for _, c := range C {
			allowed[c] = true
		}
		if cancelActive {
			allowed["ctx"] = true
		}
		if len(o.Ret) != 1 {
			m.add("ret", "ret %v want exactly one entry of %v", o.Ret, keys(allowed))
		} else if !allowed[o.Ret[0]] {
			m.add("ret", "ret %v not among possible failures %v", o.Ret, keys(allowed))
		} else {
			// must-call: the reported function and all its ancestors
			rep := -1
			if o.Ret[0] == "ctx" {
				rep = cancelK
			} else {
				for k, e := range ev.fail {
					if e == o.Ret[0] {
						rep = k
					}
				}
			}
			if rep >= 0 {
				for a := range ev.anc[rep] {
					mustCallJob(a)
				}
				if ev.failIsPred[rep] && o.Ret[0] != "ctx" {
					if len(obsPCall[rep]) == 0 {
						m.add("calls", "predicate %d must be called", rep)
					}
				} else {
					mustCallJob(rep)
				}
			}
		}
		unset()
	}

	// events
	if p.Emitters > 0 || len(o.Ev) > 0 {
		spec := evSpec{Emitters: p.Emitters, DirInstr: p.InstrDir, Prefix: "Flow", Ret: o.Ret,
			Stragglers: len(o.Ret) != 0}
		for _, t := range p.Tasks {
			if !p.TaskInstrumented(t) {
				continue
			}
			et := evTask{K: t.K, Called: len(obsCall[t.K]) > 0}
			switch sc.Fn[t.K] {
			case "err":
				et.Outcome, et.Class = "TaskError", fmt.Sprintf("err:%d", t.K)
				if t.FB {
					et.Outcome = "TaskErrorRecovered"
				}
			case "panic":
				et.Outcome, et.Class = "TaskPanic", fmt.Sprintf("panic:%d:%s", t.K, sc.VClass('t', t.K, 0))
				if t.FB {
					et.Outcome = "TaskPanicRecovered"
				}
			default:
				et.Outcome, et.Class = "TaskSuccess", "-"
			}
			if t.Pred && sc.Pred[t.K] == "panic" && len(obsPCall[t.K]) > 0 {
				et.PredPanic = true
				et.PredClass = fmt.Sprintf("ppanic:%d:%s", t.K, sc.VClass('p', t.K, 0))
				et.PredKind = "TaskPanic"
				if t.FB {
					et.PredKind = "TaskPanicRecovered"
				}
				et.PredExact = len(o.Ret) == 0 || (len(o.Ret) == 1 && o.Ret[0] == et.PredClass)
			}
			spec.Tasks = append(spec.Tasks, et)
		}
		checkEvents(m, spec, o)
	}

	// stamps: dependencies end before dependents start
	st := map[string]Stamp{}
	for _, s := range o.Stamps {
		if len(s.IDs) > 0 {
			st[fmt.Sprintf("%s %d", s.Kind, s.IDs[0])] = s
		}
	}
	td, pd := deps(p)
	for _, t := range p.Tasks {
		if s, ok := st[fmt.Sprintf("call %d", t.K)]; ok {
			for _, d := range td[t.K] {
				if ds, ok := st[fmt.Sprintf("call %d", d)]; ok && !(ds.End < s.Start) {
					m.add("order", "task %d started before its dependency %d ended", t.K, d)
				}
			}
			if pst, ok := st[fmt.Sprintf("pcall %d", t.K)]; ok && !(pst.End < s.Start) {
				m.add("order", "task %d started before its predicate ended", t.K)
			}
		}
		if s, ok := st[fmt.Sprintf("pcall %d", t.K)]; ok {
			for _, d := range pd[t.K] {
				if ds, ok := st[fmt.Sprintf("call %d", d)]; ok && !(ds.End < s.Start) {
					m.add("order", "predicate %d started before its dependency %d ended", t.K, d)
				}
			}
		}
	}
	checkCommon(m, p, sc, o)
	return m.list
}

// checkCommon checks evalorder, concurrency bound and the harness flags.
func checkCommon(m *mm, p *ps.Program, sc *ps.Scenario, o *Obs) {
	want := 0
	if p.Wrap {
		want = p.NumSlots()
	}
	okOrder := len(o.EvalOrder) == want
	for i := 0; okOrder && i < want; i++ {
		if o.EvalOrder[i] != i {
			okOrder = false
		}
	}
	if !okOrder {
		m.add("evalorder", "evaluation order %v want 0..%d", o.EvalOrder, want-1)
	}
	for _, k := range []string{"beforefirststart", "samegoroutine", "count_ok"} {
		if o.EvalInfo[k] != 1 {
			m.add("evalorder", "evalinfo %s=%d", k, o.EvalInfo[k])
		}
	}
	bound := DefaultConc
	if p.HasConc() {
		bound = sc.Conc
	}
	if o.MaxIn > bound {
		m.add("maxin", "%d functions in flight, bound %d", o.MaxIn, bound)
	}
	if o.CtxSeen != 1 {
		m.add("ctxseen", "a function did not see the directive's context")
	}
	if o.EvNames != 1 {
		m.add("events", "an emitter was initialised with an unexpected task or directive name")
	}
	if o.Quiesced != 1 {
		m.add("quiesce", "goroutines still alive 3s after the directive returned")
	}
	if sc.Execs > 1 && o.ExecsAgree != 1 {
		m.add("agree", "the %d concurrent executions disagree", sc.Execs)
	}
}

// ---------------------------------------------------------------------
// Events.

type evTask struct {
	K         int
	Called    bool
	Outcome   string
	Class     string
	PredPanic bool
	PredKind  string
	PredClass string
	PredExact bool
}

type evSpec struct {
	Emitters   int
	Tasks      []evTask
	DirInstr   bool
	Prefix     string
	Ret        []string
	Stragglers bool // ret non-nil in fail-fast mode: a running task may be swept as skipped
}

func retClass(ret []string) string {
	if len(ret) == 0 {
		return "nil"
	}
	s := append([]string(nil), ret...)
	sort.Strings(s)
	return strings.Join(s, "+")
}

func checkEvents(m *mm, sp evSpec, o *Obs) {
	rc := retClass(sp.Ret)
	byK := map[int]evTask{}
	for _, t := range sp.Tasks {
		byK[t.K] = t
	}
	var ref []string
	for n := 0; n < 4; n++ {
		evs := o.Ev[n]
		if n >= sp.Emitters {
			if len(evs) > 0 {
				m.add("events", "emitter %d received %d events but is not installed", n, len(evs))
			}
			continue
		}
		count := map[string]int{}
		first := map[string]int{}
		last := map[string]int{}
		for i, e := range evs {
			key := fmt.Sprintf("%s/%d/%s", e.Kind, e.K, e.Class)
			count[key]++
			kk := fmt.Sprintf("%s/%d", e.Kind, e.K)
			count[kk]++
			if _, ok := first[kk]; !ok {
				first[kk] = i
			}
			last[kk] = i
			if strings.HasPrefix(e.Class, "other:") {
				m.add("events", "emitter %d: %s carries unclassified %s", n, e.Kind, e.Class)
			}
			if e.K >= 0 {
				if _, ok := byK[e.K]; !ok {
					m.add("events", "emitter %d: %s for task %d which is not instrumented", n, e.Kind, e.K)
				}
			} else if e.K != -1 {
				m.add("events", "emitter %d: %s for an unknown task", n, e.Kind)
			} else if !sp.DirInstr {
				m.add("events", "emitter %d: %s but the directive is not instrumented", n, e.Kind)
			}
		}
		exact := func(k int, kind, class string, want int) {
			got := count[fmt.Sprintf("%s/%d", kind, k)]
			if got != want {
				m.add("events", "emitter %d task %d: %d x %s want %d", n, k, got, kind, want)
				return
			}
			if want > 0 && count[fmt.Sprintf("%s/%d/%s", kind, k, class)] != want {
				m.add("events", "emitter %d task %d: %s class want %s", n, k, kind, class)
			}
		}
		atMost1 := func(k int, kind, class string) {
			got := count[fmt.Sprintf("%s/%d", kind, k)]
			if got > 1 {
				m.add("events", "emitter %d task %d: %d x %s want at most 1", n, k, got, kind)
			} else if got == 1 && count[fmt.Sprintf("%s/%d/%s", kind, k, class)] != 1 {
				m.add("events", "emitter %d task %d: %s class want %s", n, k, kind, class)
			}
		}
		outcomes := []string{"TaskSuccess", "TaskError", "TaskErrorRecovered", "TaskPanic", "TaskPanicRecovered"}
		for _, t := range sp.Tasks {
			if t.Called {
				for _, kind := range outcomes {
					if kind == t.Outcome {
						exact(t.K, kind, t.Class, 1)
					} else {
						exact(t.K, kind, "", 0)
					}
				}
				exact(t.K, "TaskDone", "-", 1)
				if first["TaskDone/"+strconv.Itoa(t.K)] < first[t.Outcome+"/"+strconv.Itoa(t.K)] {
					m.add("events", "emitter %d task %d: TaskDone before %s", n, t.K, t.Outcome)
				}
				if sp.Stragglers {
					atMost1(t.K, "TaskSkipped", rc)
				} else {
					exact(t.K, "TaskSkipped", "", 0)
				}
				continue
			}
			for _, kind := range outcomes {
				if t.PredPanic && kind == t.PredKind {
					if t.PredExact {
						exact(t.K, kind, t.PredClass, 1)
					} else {
						atMost1(t.K, kind, t.PredClass)
					}
				} else {
					exact(t.K, kind, "", 0)
				}
			}
			exact(t.K, "TaskDone", "", 0)
			exact(t.K, "TaskSkipped", rc, 1)
		}
		if sp.DirInstr {
			succ, fail, done := sp.Prefix+"Success", sp.Prefix+"Error", sp.Prefix+"Done"
			if len(sp.Ret) == 0 {
				exact(-1, succ, "-", 1)
				exact(-1, fail, "", 0)
			} else {
				exact(-1, succ, "", 0)
				exact(-1, fail, rc, 1)
			}
			exact(-1, done, "-", 1)
			outcomeIdx, ok1 := first[succ+"/-1"]
			if !ok1 {
				outcomeIdx = first[fail+"/-1"]
			}
			if di, ok := first[done+"/-1"]; ok {
				if di < outcomeIdx {
					m.add("events", "emitter %d: %s before the directive outcome event", n, done)
				}
				if len(sp.Ret) == 0 && di != len(evs)-1 {
					m.add("events", "emitter %d: %s is not the last event", n, done)
				}
				for _, t := range sp.Tasks {
					if si, ok := first["TaskSkipped/"+strconv.Itoa(t.K)]; ok && (si < outcomeIdx || si > di) {
						m.add("events", "emitter %d task %d: TaskSkipped outside the final sweep", n, t.K)
					}
				}
			}
		}
		var sorted []string
		for _, e := range evs {
			sorted = append(sorted, fmt.Sprintf("%s/%d/%s", e.Kind, e.K, e.Class))
		}
		sort.Strings(sorted)
		if n == 0 {
			ref = sorted
		} else if strings.Join(ref, " ") != strings.Join(sorted, " ") {
			m.add("events", "emitter %d saw a different multiset of events than emitter 0", n)
		}
	}
}

// ---------------------------------------------------------------------
// Parallel semantics.

func collLen(n int) int {
	if n < 0 {
		return 0
	}
	return n
}

// CheckPar compares the observations of one parallel scenario.
func CheckPar(p *ps.Program, sc *ps.Scenario, o *Obs) []Mismatch {
	if strings.HasPrefix(sc.Cancel, "sl:") {
		return nil // element-cancel scenarios are decided by the Lean model only (Gen/Check.lean)
	}
	m := &mm{}
	if o.Crash != "" {
		m.add("crash", "%s", o.Crash)
		return m.list
	}
	if !o.HasRet {
		m.add("crash", "no observation")
		return m.list
	}
	// ideal: every function whose dependencies succeed runs
	ideal := map[string]bool{}    // call line -> expected (when run)
	never := map[string]bool{}    // call lines that must not appear
	failOf := map[string]string{} // call line -> ret entry
	var C []string
	endDeps := map[string][]string{} // end call line -> element call lines
	for _, t := range p.PTasks {
		line := fmt.Sprintf("call %d", t.K)
		ideal[line] = true
		switch sc.Fn[t.K] {
		case "err":
			failOf[line] = fmt.Sprintf("err:%d", t.K)
		case "panic":
			failOf[line] = fmt.Sprintf("panic:%d:%s", t.K, sc.VClass('q', t.K, 0))
		}
	}
	for _, s := range p.Slices {
		fails := map[int]string{}
		for _, f := range sc.Sl {
			if f.C == s.S {
				fails[f.I] = f.Kind
			}
		}
		end := fmt.Sprintf("secall %d", s.S)
		for i := 0; i < collLen(s.Len); i++ {
			is := "-"
			if s.Idx {
				is = strconv.Itoa(i)
			}
			line := fmt.Sprintf("scall %d %s %d", s.S, is, ps.SliceElem(s.S, i))
			ideal[line] = true
			endDeps[end] = append(endDeps[end], line)
			switch fails[i] {
			case "err":
				failOf[line] = fmt.Sprintf("serr:%d:%d", s.S, i)
			case "panic":
				failOf[line] = fmt.Sprintf("spanic:%d:%d:%s", s.S, i, sc.VClass('s', s.S, i))
			}
		}
		if s.End {
			if len(fails) > 0 {
				never[end] = true
			} else {
				ideal[end] = true
				switch sc.SlEnd[s.S] {
				case "err":
					failOf[end] = fmt.Sprintf("seerr:%d", s.S)
				case "panic":
					failOf[end] = fmt.Sprintf("sepanic:%d:%s", s.S, sc.VClass('S', s.S, 0))
				}
			}
		}
	}
	for _, mp := range p.Maps {
		fails := map[int]string{}
		for _, f := range sc.Mp {
			if f.C == mp.M {
				fails[f.I] = f.Kind
			}
		}
		end := fmt.Sprintf("mecall %d", mp.M)
		for j := 0; j < collLen(mp.Len); j++ {
			line := fmt.Sprintf("mcall %d %d %d", mp.M, ps.MapKey(mp.M, j), ps.MapVal(mp.M, j))
			ideal[line] = true
			endDeps[end] = append(endDeps[end], line)
			switch fails[j] {
			case "err":
				failOf[line] = fmt.Sprintf("merr:%d:%d", mp.M, j)
			case "panic":
				failOf[line] = fmt.Sprintf("mpanic:%d:%d:%s", mp.M, j, sc.VClass('m', mp.M, j))
			}
		}
		if mp.End {
			if len(fails) > 0 {
				never[end] = true
			} else {
				ideal[end] = true
				switch sc.MpEnd[mp.M] {
				case "err":
					failOf[end] = fmt.Sprintf("meerr:%d", mp.M)
				case "panic":
					failOf[end] = fmt.Sprintf("mepanic:%d:%s", mp.M, sc.VClass('M', mp.M, 0))
				}
			}
		}
	}
	for line, e := range failOf {
		if ideal[line] {
			C = append(C, e)
		}
	}
	sort.Strings(C)

	obs := map[string]int{}
	for _, c := range o.Calls {
		obs[c.Key()]++
	}
	before := sc.Cancel == "before"
	cancelK := sc.CancelIn()
	cancelActive := cancelK >= 0
	coe := p.COETrue()

	for line, n := range obs {
		switch {
		case before:
			m.add("calls", "cancel=before: [%s] must not be called", line)
		case never[line]:
			m.add("calls", "[%s] called although an element of its collection failed", line)
		case !ideal[line]:
			m.add("calls", "unexpected call [%s]", line)
		case n > 1:
			m.add("calls", "[%s] called %d times", line, n)
		}
	}
	must := func(line string) {
		if obs[line] == 0 {
			m.add("calls", "[%s] must be called", line)
		}
	}
	inC := map[string]int{}
	for _, c := range C {
		inC[c]++
	}
	switch {
	case before:
		if len(o.Ret) == 0 {
			m.add("ret", "cancel=before: ret nil")
		}
		for _, e := range o.Ret {
			if e != "ctx" {
				m.add("ret", "cancel=before: ret entry %s want ctx", e)
			}
		}
		if !coe && len(o.Ret) > 1 {
			m.add("ret", "fail-fast: %d entries", len(o.Ret))
		}
	case cancelActive:
		if len(o.Ret) == 0 {
			m.add("ret", "cancel=in:%d: ret nil", cancelK)
		}
		seen := map[string]int{}
		for _, e := range o.Ret {
			if e == "ctx" {
				continue
			}
			seen[e]++
			if inC[e] == 0 {
				m.add("ret", "ret entry %s is not a possible failure %v", e, C)
			} else if seen[e] > 1 {
				m.add("ret", "ret entry %s reported twice", e)
			}
		}
		if !coe && len(o.Ret) > 1 {
			m.add("ret", "fail-fast: %d entries", len(o.Ret))
		}
		for _, e := range o.Ret {
			if e == "ctx" {
				must(fmt.Sprintf("call %d", cancelK))
				break
			}
		}
	case len(C) == 0:
		if len(o.Ret) != 0 {
			m.add("ret", "ret %v want nil", o.Ret)
		}
		for line := range ideal {
			must(line)
		}
	case coe:
		got := append([]string(nil), o.Ret...)
		sort.Strings(got)
		if strings.Join(got, ",") != strings.Join(C, ",") {
			m.add("ret", "ContinueOnError: ret %v want %v", got, C)
		}
		for line := range ideal {
			must(line)
		}
	default:
		if len(o.Ret) != 1 {
			m.add("ret", "fail-fast: ret %v want exactly one entry of %v", o.Ret, C)
		} else if inC[o.Ret[0]] == 0 {
			m.add("ret", "ret %v not among possible failures %v", o.Ret, C)
		} else {
			for line, e := range failOf {
				if e == o.Ret[0] {
					must(line)
					for _, d := range endDeps[line] {
						must(d)
					}
				}
			}
		}
	}
	for _, e := range o.Ret {
		if strings.HasPrefix(e, "other:") {
			m.add("ret", "unclassified entry %s", e)
		}
	}

	// events
	if p.Emitters > 0 || len(o.Ev) > 0 {
		spec := evSpec{Emitters: p.Emitters, DirInstr: p.InstrDir, Prefix: "Parallel", Ret: o.Ret,
			Stragglers: len(o.Ret) != 0 && (!coe || sc.Cancel != "none")}
		for _, t := range p.PTasks {
			if !t.Instr {
				continue
			}
			et := evTask{K: t.K, Called: obs[fmt.Sprintf("call %d", t.K)] > 0}
			switch sc.Fn[t.K] {
			case "err":
				et.Outcome, et.Class = "TaskError", fmt.Sprintf("err:%d", t.K)
			case "panic":
				et.Outcome, et.Class = "TaskPanic", fmt.Sprintf("panic:%d:%s", t.K, sc.VClass('q', t.K, 0))
			default:
				et.Outcome, et.Class = "TaskSuccess", "-"
			}
			spec.Tasks = append(spec.Tasks, et)
		}
		checkEvents(m, spec, o)
	}

	// stamps: End hooks start after all their elements ended
	maxEnd := map[string]int64{}
	for _, s := range o.Stamps {
		if (s.Kind == "scall" || s.Kind == "mcall") && len(s.IDs) > 0 {
			key := fmt.Sprintf("%c%d", s.Kind[0], s.IDs[0])
			if s.End > maxEnd[key] {
				maxEnd[key] = s.End
			}
		}
	}
	for _, s := range o.Stamps {
		if (s.Kind == "secall" || s.Kind == "mecall") && len(s.IDs) > 0 {
			key := fmt.Sprintf("%c%d", s.Kind[0], s.IDs[0])
			if s.Start < maxEnd[key] {
				m.add("order", "%s %d started before all its elements ended", s.Kind, s.IDs[0])
			}
		}
	}
	checkCommon(m, p, sc, o)
	return m.list
}

// ---------------------------------------------------------------------
// Modifier mode.

// ModifierLine compares the modifier-mode observation of a scenario with
// the base-mode one and returns the fields of the `modifier` O line.
//
//	ret:     same iff the sorted entry lists are equal, or both have exactly
//	         one entry and the scenario assigns a failure to several tasks
//	         (which one is reported is a race in both modes)
//	results: same iff the result lines are equal
//	calls:   same iff the sorted call lines are equal; when either run
//	         failed, iff every task called in both runs got the same arguments
//	         (which independent tasks still run after a failure is a race)
func ModifierLine(sc *ps.Scenario, base, mod *Obs) (ret, results, calls string) {
	if mod.Crash != "" || !mod.HasRet {
		return "diff:crash", "diff", "diff"
	}
	nfail := 0
	for _, oc := range sc.Fn {
		if oc != "ok" {
			nfail++
		}
	}
	br, mr := strings.Join(base.Ret, ","), strings.Join(mod.Ret, ",")
	ret = "same"
	if br != mr && !(nfail > 1 && len(base.Ret) == 1 && len(mod.Ret) == 1) {
		ret = "diff:" + retText(mod.Ret)
	}
	results = "same"
	if len(base.Results) != len(mod.Results) {
		results = "diff"
	}
	for i, v := range base.Results {
		if mod.Results[i] != v {
			results = "diff"
		}
	}
	calls = "same"
	bc, mc := map[string]string{}, map[string]string{}
	for _, c := range base.Calls {
		bc[c.Kind+" "+c.F[0]] += c.Key() + ";"
	}
	for _, c := range mod.Calls {
		mc[c.Kind+" "+c.F[0]] += c.Key() + ";"
	}
	failed := len(base.Ret) > 0 || len(mod.Ret) > 0
	for k, v := range bc {
		if w, ok := mc[k]; ok && w != v || !ok && !failed {
			calls = "diff"
		}
	}
	for k := range mc {
		if _, ok := bc[k]; !ok && !failed {
			calls = "diff"
		}
	}
	return
}

func retText(ret []string) string {
	if len(ret) == 0 {
		return "nil"
	}
	return strings.Join(ret, ",")
}

// CheckModifier applies the flow semantics to the modifier-mode
// observation itself (ret, calls, arguments, results only) and reports
// everything under the property "modifier".
func CheckModifier(p *ps.Program, sc *ps.Scenario, mod *Obs) []Mismatch {
	var out []Mismatch
	for _, m := range CheckFlow(p, sc, mod) {
		switch m.Prop {
		case "crash", "ret", "calls", "args", "results", "order":
			out = append(out, Mismatch{"modifier", m.Prop + ":" + m.Msg})
		}
	}
	return out
}
