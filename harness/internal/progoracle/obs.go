// Package progoracle is the built-in Go reference oracle of progrun: it
// predicts accept verdicts and run-time behaviour from spec + scenario and
// compares them with the observations.
package progoracle

import (
	"strconv"
	"strings"
)

// Call is one user-function invocation line.
type Call struct {
	Kind string   // call pcall scall secall mcall mecall
	F    []string // tokens after the kind
}

// Key returns the canonical text of the call.
func (c Call) Key() string { return c.Kind + " " + strings.Join(c.F, " ") }

// Event is one recording-emitter event.
type Event struct {
	Kind  string
	K     int // -1 for directive-level events
	Class string
}

// Stamp is the sequence-number interval of one invocation.
type Stamp struct {
	Kind       string
	IDs        []int
	Start, End int64
}

// Obs is the parsed observation block of one scenario.
type Obs struct {
	HasRet     bool
	Ret        []string // nil = "nil"
	Calls      []Call
	Results    map[int]string
	Ev         map[int][]Event
	EvalOrder  []int
	EvalInfo   map[string]int
	Stamps     []Stamp
	MaxIn      int
	CtxSeen    int
	EvNames    int
	Quiesced   int
	ExecsAgree int // -1 = absent
	Crash      string
}

func atoi(s string) int { n, _ := strconv.Atoi(s); return n }

// ParseObs parses observation lines (without the "O pid sid" prefix).
func ParseObs(lines []string) *Obs {
	o := &Obs{Results: map[int]string{}, Ev: map[int][]Event{}, EvalInfo: map[string]int{},
		ExecsAgree: -1, CtxSeen: -1, Quiesced: -1, EvNames: -1, MaxIn: -1}
	for _, l := range lines {
		f := strings.Fields(l)
		if len(f) == 0 {
			continue
		}
		switch f[0] {
		case "ret":
			o.HasRet = true
			if len(f) > 1 && f[1] != "nil" {
				o.Ret = strings.Split(f[1], ",")
			}
		case "call", "pcall", "scall", "secall", "mcall", "mecall":
			o.Calls = append(o.Calls, Call{Kind: f[0], F: f[1:]})
		case "result":
			if len(f) == 3 {
				o.Results[atoi(f[1])] = f[2]
			}
		case "ev":
			if len(f) == 5 {
				k := -1
				if f[3] != "-" {
					k = atoi(f[3])
				}
				n := atoi(f[1])
				o.Ev[n] = append(o.Ev[n], Event{Kind: f[2], K: k, Class: f[4]})
			}
		case "evalorder":
			for _, x := range f[1:] {
				o.EvalOrder = append(o.EvalOrder, atoi(x))
			}
		case "evalinfo":
			for _, x := range f[1:] {
				if i := strings.IndexByte(x, '='); i > 0 {
					o.EvalInfo[x[:i]] = atoi(x[i+1:])
				}
			}
		case "stamp":
			if len(f) >= 4 {
				st := Stamp{Kind: f[1]}
				ids := f[2 : len(f)-2]
				for _, x := range ids {
					st.IDs = append(st.IDs, atoi(x))
				}
				st.Start, _ = strconv.ParseInt(f[len(f)-2], 10, 64)
				st.End, _ = strconv.ParseInt(f[len(f)-1], 10, 64)
				o.Stamps = append(o.Stamps, st)
			}
		case "maxin":
			o.MaxIn = atoi(f[1])
		case "ctxseen":
			o.CtxSeen = atoi(f[1])
		case "evnames":
			o.EvNames = atoi(f[1])
		case "quiesced":
			o.Quiesced = atoi(f[1])
		case "execs-agree":
			o.ExecsAgree = atoi(f[1])
		case "crash":
			o.Crash = strings.Join(f[1:], " ")
		}
	}
	return o
}
