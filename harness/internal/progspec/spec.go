// Package progspec defines the abstract program specs, scenarios and the
// value discipline of the progrun differential harness, plus printing and
// parsing of the spec lines of the line protocol (see PROTOCOL.md).
package progspec

import (
	"fmt"
	"sort"
	"strconv"
	"strings"
)

// ---------------------------------------------------------------------
// Value discipline (bit-identical to the Lean model; do not change).

// Mod is the modulus of mix.
const Mod = 2147483629

// Mix is mix(acc, x) = (acc*31 + x + 17) mod 2147483629.
func Mix(acc, x int64) int64 { return (acc*31 + x + 17) % Mod }

// Hash is H(tag, xs) = 1 + foldl mix 7 (tag :: xs).
func Hash(tag int64, xs ...int64) int64 {
	acc := Mix(7, tag)
	for _, x := range xs {
		acc = Mix(acc, x)
	}
	return 1 + acc
}

// TaskOut is the value of output o of flow task k called with args.
func TaskOut(k, o int, args []int64) int64 { return Hash(int64(100+16*k+o), args...) }

// ParamVal is the value of Params entry i.
func ParamVal(i int) int64 { return Hash(int64(50000 + i)) }

// FallbackVal is the FallbackWith value of task k output o.
func FallbackVal(k, o int) int64 { return Hash(int64(60000 + 16*k + o)) }

// SliceElem is element i of Slice s.
func SliceElem(s, i int) int64 { return Hash(int64(70000 + 4096*s + i)) }

// MapKey is key j of Map m.
func MapKey(m, j int) int64 { return Hash(int64(80000 + 4096*m + j)) }

// MapVal is value j of Map m.
func MapVal(m, j int) int64 { return Hash(int64(90000 + 4096*m + j)) }

// ---------------------------------------------------------------------
// Type pool.

// TypeInfo describes one type id of the (global, fixed) type pool.
type TypeInfo struct {
	ID         int
	Shape      string // protocol token
	Home       string // local | ty | ext
	Comparable bool   // usable as a map key with an injective mk
}

// Types is the fixed type pool. The Go spelling lives in progsrc.
var Types = []TypeInfo{
	{0, "struct", "local", true},
	{1, "ptr-struct", "local", false},
	{2, "named-basic", "local", true},
	{3, "named-slice", "local", false},
	{4, "named-map", "local", false},
	{5, "generic-inst", "local", true},
	{6, "array-of-named", "local", true},
	{7, "interface", "local", false},
	{8, "imp-struct", "ty", true},
	{9, "imp-ptr-struct", "ty", false},
	{10, "imp-named-basic", "ty", true},
	{11, "imp-slice-of-named", "ty", false},
	{12, "imp-generic-inst", "ty", true},
	{13, "ext-struct", "ext", true},
	{14, "ext-ptr-struct", "ext", false},
	{15, "ext-named-slice", "ext", false},
	{16, "ext-map", "ext", false},
	{17, "struct2", "local", true},
	{18, "ptr-named-basic", "local", false},
	{19, "named-func", "local", false},
	// Type 20 is also a flow value: it is assignable to type 7, so a generator bug that passes
	// the wrong provider's variable can still compile.
	{20, "impl-struct", "local", true}, // i7, implements interface type 7
	// Types 21..23 are only used as Slice/Map element or parameter types
	// (assignability lattice), never as flow values.
	{21, "unnamed-slice", "local", false}, // []int64, underlying type of type 3
	{22, "basic", "local", true},          // int64, underlying type of type 2
	{23, "unnamed-func", "local", false},  // func() int64, underlying type of type 19
	// Type 24 is a flow value with two spellings ([]byte / []uint8, used alternately): identical
	// types, different names.
	{24, "byte-slice", "local", false},
}

// FlowTypes lists the type ids usable as flow values.
var FlowTypes = []int{0, 1, 2, 3, 4, 5, 6, 7, 8, 9, 10, 11, 12, 13, 14, 15, 16, 17, 18, 19, 20, 24}

// NumTypes is the number of type ids usable as flow values (the entries of FlowTypes).
var NumTypes = len(FlowTypes)

// Assignable is Go assignability of a value of type id from to a
// variable of type id to, for the types of the pool.
func Assignable(from, to int) bool {
	if from == to {
		return true
	}
	switch [2]int{from, to} {
	case [2]int{20, 7}, [2]int{21, 3}, [2]int{3, 21}, [2]int{19, 23}, [2]int{23, 19}:
		return true
	}
	return false
}

// ---------------------------------------------------------------------
// Programs.

// Task is a flow task.
type Task struct {
	K      int
	Pos    int
	Ctx    bool
	Err    bool
	Invoke bool
	Instr  bool
	FB     bool
	Pred   bool
	PCtx   bool
	Ins    []int
	Outs   []int
	PIns   []int
	Form   string // lit|named|method|imported
	PForm  string // lit|named (extra key)
}

// PTask is a cff.Task / member of cff.Tasks inside cff.Parallel.
type PTask struct {
	K     int
	Pos   int // position of its own cff.Task option, or of the group
	Ctx   bool
	Err   bool
	Instr bool
	Form  string
	Group int // -1: own cff.Task option
}

// PGroup is a cff.Tasks(...) option.
type PGroup struct {
	G   int
	Ks  []int
	Pos int
}

// Slice is a cff.Slice option.
type Slice struct {
	S      int
	Pos    int
	Idx    bool
	Ctx    bool
	Err    bool
	Len    int // -1 = nil
	End    bool
	EndCtx bool
	EndErr bool
	Named  bool
	Elem   int    // extra: element type id
	Form   string // extra: lit|named
	Param  int    // extra: type of the function's element parameter
	Assign bool   // extra: Elem is assignable to Param
}

// Map is a cff.Map option.
type Map struct {
	M      int
	Pos    int
	Ctx    bool
	Err    bool
	Len    int
	End    bool
	EndCtx bool
	EndErr bool
	Key    int // extra
	Val    int // extra
	Form   string
	KParam int  // extra: type of the function's key parameter
	VParam int  // extra: type of the function's value parameter
	Assign bool // extra: Key assignable to KParam and Val to VParam
}

// Program is one abstract program.
type Program struct {
	PID  int
	Kind string // flow | par

	// meta
	Stream  string // wf | mut:<kind> | known:<name>
	Generic bool   // enclosing function is generic
	TyAlias bool   // package ty imported under an alias
	Quirk   string // source-level quirk for known streams ("" = none)
	QuirkK  int    // the task a sig-* quirk applies to
	SigP    string // sig-shape: parameter kinds of the task function (c ctx, v value), "V" suffix = variadic
	SigR    string // sig-shape: result kinds (v value, e error)
	Site    string // call site of the directive: assign | return | if | arg
	ModSub  bool   // flow lies in the subset modifier mode supports

	// flow
	Params  []int
	Results []int
	Tasks   []*Task

	// parallel
	PTasks []*PTask
	Groups []*PGroup
	Slices []*Slice
	Maps   []*Map

	// opts
	Conc      int // 0 = no Concurrency option, otherwise nominal value
	COE       string
	Emitters  int
	InstrDir  bool // instrflow / instrpar
	AutoInstr bool
	Mode      string // base | source-map
	Wrap      bool   // extra: argument expressions wrapped in rt.Arg

	// Order is the source listing order of the options (extra line).
	// Tokens: params results conc coe instr emitter:<i> task:<k>
	// ptask:<k> ptasks:<g> slice:<s> map:<m>
	Order []string

	Scenarios []*Scenario
}

// ---------------------------------------------------------------------
// Scenarios.

// ElemFail is a failing slice/map element.
type ElemFail struct {
	C    int // slice or map id
	I    int // index / key number
	Kind string
}

// Scenario assigns outcomes and run parameters.
type Scenario struct {
	SID    int
	Conc   int // 0 = '-'
	Execs  int
	Cancel string // none | before | in:<k>
	Fn     map[int]string
	Pred   map[int]string
	Sl     []ElemFail
	SlEnd  map[int]string
	Mp     []ElemFail
	MpEnd  map[int]string
	PV     int // extra: panic value class offset
}

// VClasses are the panic value classes, cycled through.
var VClasses = []string{"str", "err", "rt", "struct", "pe"}

// VClass returns the panic value class of a function in a scenario.
// kind: t task, p predicate, q parallel task, s slice elem, S slice end,
// m map elem, M map end. a, b are the primary and secondary ids (b = 0 when
// there is none).
func (sc *Scenario) VClass(kind byte, a, b int) string {
	off := 0
	switch kind {
	case 'p', 'S', 'M':
		off = 1
	}
	return VClasses[(sc.PV+a+b+off)%5]
}

// CancelIn returns k for cancel=in:<k>, or -1.
func (sc *Scenario) CancelIn() int {
	if strings.HasPrefix(sc.Cancel, "in:") {
		n, _ := strconv.Atoi(sc.Cancel[3:])
		return n
	}
	return -1
}

// ---------------------------------------------------------------------
// Printing.

func b2i(b bool) int {
	if b {
		return 1
	}
	return 0
}

func tyList(xs []int) string {
	if len(xs) == 0 {
		return "-"
	}
	ss := make([]string, len(xs))
	for i, x := range xs {
		ss[i] = strconv.Itoa(x)
	}
	return strings.Join(ss, ",")
}

func lenStr(n int) string {
	if n < 0 {
		return "nil"
	}
	return strconv.Itoa(n)
}

func concStr(n int) string {
	if n == 0 {
		return "-"
	}
	return strconv.Itoa(n)
}

func spaceList(xs []int) string {
	ss := make([]string, len(xs))
	for i, x := range xs {
		ss[i] = strconv.Itoa(x)
	}
	return strings.Join(ss, " ")
}

// SpecLines returns the prog/P lines of the program.
func (p *Program) SpecLines() []string {
	var out []string
	add := func(f string, a ...interface{}) { out = append(out, fmt.Sprintf(f, a...)) }
	add("prog %d %s", p.PID, p.Kind)
	quirk := p.Quirk
	if quirk == "" {
		quirk = "-"
	}
	site := p.Site
	if site == "" {
		site = "assign"
	}
	add("P %d meta stream=%s generic=%d tyalias=%d quirk=%s quirkk=%d psig=%s rsig=%s site=%s modsubset=%d", p.PID, p.Stream, b2i(p.Generic), b2i(p.TyAlias), quirk, p.QuirkK, dash(p.SigP), dash(p.SigR), site, b2i(p.ModSub))
	if p.Kind == "flow" {
		if len(p.Params) > 0 {
			add("P %d params %s", p.PID, spaceList(p.Params))
		}
		if len(p.Results) > 0 {
			add("P %d results %s", p.PID, spaceList(p.Results))
		}
		for _, t := range p.Tasks {
			pf := t.PForm
			if pf == "" {
				pf = "-"
			}
			add("P %d task %d pos=%d ctx=%d err=%d invoke=%d instr=%d fb=%d pred=%d pctx=%d ins=%s outs=%s pins=%s form=%s pform=%s",
				p.PID, t.K, t.Pos, b2i(t.Ctx), b2i(t.Err), b2i(t.Invoke), b2i(t.Instr), b2i(t.FB), b2i(t.Pred), b2i(t.PCtx),
				tyList(t.Ins), tyList(t.Outs), tyList(t.PIns), t.Form, pf)
		}
		add("P %d opts conc=%s emitters=%d instrflow=%d autoinstr=%d mode=%s wrap=%d",
			p.PID, concStr(p.Conc), p.Emitters, b2i(p.InstrDir), b2i(p.AutoInstr), p.Mode, b2i(p.Wrap))
	} else {
		for _, t := range p.PTasks {
			g := "-"
			if t.Group >= 0 {
				g = strconv.Itoa(t.Group)
			}
			add("P %d ptask %d pos=%d ctx=%d err=%d instr=%d form=%s group=%s",
				p.PID, t.K, t.Pos, b2i(t.Ctx), b2i(t.Err), b2i(t.Instr), t.Form, g)
		}
		for _, g := range p.Groups {
			add("P %d ptasks %s pos=%d group=%d", p.PID, tyList(g.Ks), g.Pos, g.G)
		}
		for _, s := range p.Slices {
			add("P %d slice %d pos=%d idx=%d ctx=%d err=%d len=%s end=%d endctx=%d enderr=%d named=%d elem=%d form=%s param=%d assignable=%d",
				p.PID, s.S, s.Pos, b2i(s.Idx), b2i(s.Ctx), b2i(s.Err), lenStr(s.Len), b2i(s.End), b2i(s.EndCtx), b2i(s.EndErr), b2i(s.Named), s.Elem, s.Form, s.Param, b2i(s.Assign))
		}
		for _, m := range p.Maps {
			add("P %d map %d pos=%d ctx=%d err=%d len=%s end=%d endctx=%d enderr=%d key=%d val=%d form=%s kparam=%d vparam=%d assignable=%d",
				p.PID, m.M, m.Pos, b2i(m.Ctx), b2i(m.Err), lenStr(m.Len), b2i(m.End), b2i(m.EndCtx), b2i(m.EndErr), m.Key, m.Val, m.Form, m.KParam, m.VParam, b2i(m.Assign))
		}
		coe := p.COE
		if coe == "" {
			coe = "-"
		}
		add("P %d opts conc=%s coe=%s emitters=%d instrpar=%d autoinstr=%d mode=%s wrap=%d",
			p.PID, concStr(p.Conc), coe, p.Emitters, b2i(p.InstrDir), b2i(p.AutoInstr), p.Mode, b2i(p.Wrap))
	}
	add("P %d order %s", p.PID, strings.Join(p.Order, " "))
	return out
}

func kvList(m map[int]string) string {
	if len(m) == 0 {
		return "-"
	}
	keys := make([]int, 0, len(m))
	for k := range m {
		keys = append(keys, k)
	}
	sort.Ints(keys)
	ss := make([]string, len(keys))
	for i, k := range keys {
		ss[i] = fmt.Sprintf("%d:%s", k, m[k])
	}
	return strings.Join(ss, ",")
}

func efList(xs []ElemFail) string {
	if len(xs) == 0 {
		return "-"
	}
	ss := make([]string, len(xs))
	for i, x := range xs {
		ss[i] = fmt.Sprintf("%d:%d:%s", x.C, x.I, x.Kind)
	}
	return strings.Join(ss, ",")
}

// Line returns the S line of the scenario.
func (sc *Scenario) Line(pid int) string {
	return fmt.Sprintf("S %d %d conc=%s execs=%d cancel=%s fn=%s pred=%s sl=%s slend=%s mp=%s mpend=%s pv=%d",
		pid, sc.SID, concStr(sc.Conc), sc.Execs, sc.Cancel, kvList(sc.Fn), kvList(sc.Pred),
		efList(sc.Sl), kvList(sc.SlEnd), efList(sc.Mp), kvList(sc.MpEnd), sc.PV)
}

// ---------------------------------------------------------------------
// Parsing (for -replay).

func parseKV(fields []string) map[string]string {
	m := map[string]string{}
	for _, f := range fields {
		if i := strings.IndexByte(f, '='); i > 0 {
			m[f[:i]] = f[i+1:]
		}
	}
	return m
}

func parseTyList(s string) []int {
	if s == "-" || s == "" {
		return nil
	}
	var out []int
	for _, f := range strings.Split(s, ",") {
		n, _ := strconv.Atoi(f)
		out = append(out, n)
	}
	return out
}

func parseLen(s string) int {
	if s == "nil" {
		return -1
	}
	n, _ := strconv.Atoi(s)
	return n
}

func parseConc(s string) int {
	if s == "-" {
		return 0
	}
	n, _ := strconv.Atoi(s)
	return n
}

func atoi(s string) int { n, _ := strconv.Atoi(s); return n }

func atoiOr(kv map[string]string, key string, def int) int {
	if v, ok := kv[key]; ok {
		return atoi(v)
	}
	return def
}

func parseKVList(s string) map[int]string {
	m := map[int]string{}
	if s == "-" || s == "" {
		return m
	}
	for _, f := range strings.Split(s, ",") {
		i := strings.IndexByte(f, ':')
		if i < 0 {
			continue
		}
		m[atoi(f[:i])] = f[i+1:]
	}
	return m
}

func parseEFList(s string) []ElemFail {
	if s == "-" || s == "" {
		return nil
	}
	var out []ElemFail
	for _, f := range strings.Split(s, ",") {
		p := strings.SplitN(f, ":", 3)
		if len(p) != 3 {
			continue
		}
		out = append(out, ElemFail{C: atoi(p[0]), I: atoi(p[1]), Kind: p[2]})
	}
	return out
}

// ParseScenario parses an S line (fields after splitting on spaces).
func ParseScenario(f []string) (pid int, sc *Scenario, err error) {
	if len(f) < 3 || f[0] != "S" {
		return 0, nil, fmt.Errorf("not an S line")
	}
	pid = atoi(f[1])
	kv := parseKV(f[3:])
	sc = &Scenario{
		SID:    atoi(f[2]),
		Conc:   parseConc(kv["conc"]),
		Execs:  atoi(kv["execs"]),
		Cancel: kv["cancel"],
		Fn:     parseKVList(kv["fn"]),
		Pred:   parseKVList(kv["pred"]),
		Sl:     parseEFList(kv["sl"]),
		SlEnd:  parseKVList(kv["slend"]),
		Mp:     parseEFList(kv["mp"]),
		MpEnd:  parseKVList(kv["mpend"]),
		PV:     atoi(kv["pv"]),
	}
	if sc.Execs == 0 {
		sc.Execs = 1
	}
	if sc.Cancel == "" {
		sc.Cancel = "none"
	}
	return pid, sc, nil
}

// ParseFile parses the prog/P/S lines of a previously written protocol
// file and returns the programs with their scenarios, in file order.
func ParseFile(lines []string) ([]*Program, error) {
	var progs []*Program
	byPID := map[int]*Program{}
	for ln, line := range lines {
		f := strings.Fields(line)
		if len(f) == 0 {
			continue
		}
		switch f[0] {
		case "prog":
			if len(f) != 3 {
				return nil, fmt.Errorf("line %d: bad prog line", ln+1)
			}
			p := &Program{PID: atoi(f[1]), Kind: f[2]}
			progs = append(progs, p)
			byPID[p.PID] = p
		case "P":
			if len(f) < 3 {
				return nil, fmt.Errorf("line %d: bad P line", ln+1)
			}
			p := byPID[atoi(f[1])]
			if p == nil {
				return nil, fmt.Errorf("line %d: P line for unknown program", ln+1)
			}
			rest := f[3:]
			switch f[2] {
			case "meta":
				kv := parseKV(rest)
				p.Stream = kv["stream"]
				p.Generic = kv["generic"] == "1"
				p.TyAlias = kv["tyalias"] == "1"
				if kv["quirk"] != "-" {
					p.Quirk = kv["quirk"]
				}
				p.QuirkK, _ = strconv.Atoi(kv["quirkk"])
				if kv["psig"] != "-" {
					p.SigP = kv["psig"]
				}
				if kv["rsig"] != "-" {
					p.SigR = kv["rsig"]
				}
				p.Site = kv["site"]
				p.ModSub = kv["modsubset"] == "1"
			case "params":
				for _, x := range rest {
					p.Params = append(p.Params, atoi(x))
				}
			case "results":
				for _, x := range rest {
					p.Results = append(p.Results, atoi(x))
				}
			case "task":
				kv := parseKV(rest[1:])
				t := &Task{
					K: atoi(rest[0]), Pos: atoi(kv["pos"]), Ctx: kv["ctx"] == "1", Err: kv["err"] == "1",
					Invoke: kv["invoke"] == "1", Instr: kv["instr"] == "1", FB: kv["fb"] == "1",
					Pred: kv["pred"] == "1", PCtx: kv["pctx"] == "1",
					Ins: parseTyList(kv["ins"]), Outs: parseTyList(kv["outs"]), PIns: parseTyList(kv["pins"]),
					Form: kv["form"], PForm: kv["pform"],
				}
				if t.PForm == "-" {
					t.PForm = ""
				}
				p.Tasks = append(p.Tasks, t)
			case "ptask":
				kv := parseKV(rest[1:])
				t := &PTask{K: atoi(rest[0]), Pos: atoi(kv["pos"]), Ctx: kv["ctx"] == "1", Err: kv["err"] == "1",
					Instr: kv["instr"] == "1", Form: kv["form"], Group: -1}
				if g := kv["group"]; g != "-" && g != "" {
					t.Group = atoi(g)
				}
				p.PTasks = append(p.PTasks, t)
			case "ptasks":
				kv := parseKV(rest[1:])
				p.Groups = append(p.Groups, &PGroup{G: atoi(kv["group"]), Ks: parseTyList(rest[0]), Pos: atoi(kv["pos"])})
			case "slice":
				kv := parseKV(rest[1:])
				p.Slices = append(p.Slices, &Slice{S: atoi(rest[0]), Pos: atoi(kv["pos"]), Idx: kv["idx"] == "1",
					Ctx: kv["ctx"] == "1", Err: kv["err"] == "1", Len: parseLen(kv["len"]), End: kv["end"] == "1",
					EndCtx: kv["endctx"] == "1", EndErr: kv["enderr"] == "1", Named: kv["named"] == "1",
					Elem: atoi(kv["elem"]), Form: kv["form"], Param: atoiOr(kv, "param", atoi(kv["elem"])), Assign: kv["assignable"] != "0"})
			case "map":
				kv := parseKV(rest[1:])
				p.Maps = append(p.Maps, &Map{M: atoi(rest[0]), Pos: atoi(kv["pos"]), Ctx: kv["ctx"] == "1",
					Err: kv["err"] == "1", Len: parseLen(kv["len"]), End: kv["end"] == "1",
					EndCtx: kv["endctx"] == "1", EndErr: kv["enderr"] == "1", Key: atoi(kv["key"]), Val: atoi(kv["val"]), Form: kv["form"],
					KParam: atoiOr(kv, "kparam", atoi(kv["key"])), VParam: atoiOr(kv, "vparam", atoi(kv["val"])), Assign: kv["assignable"] != "0"})
			case "opts":
				kv := parseKV(rest)
				p.Conc = parseConc(kv["conc"])
				p.Emitters = atoi(kv["emitters"])
				p.AutoInstr = kv["autoinstr"] == "1"
				p.Mode = kv["mode"]
				p.Wrap = kv["wrap"] == "1"
				if p.Kind == "flow" {
					p.InstrDir = kv["instrflow"] == "1"
				} else {
					p.InstrDir = kv["instrpar"] == "1"
					if kv["coe"] != "-" {
						p.COE = kv["coe"]
					}
				}
			case "order":
				p.Order = append([]string(nil), rest...)
			}
		case "S":
			pid, sc, err := ParseScenario(f)
			if err != nil {
				return nil, fmt.Errorf("line %d: %v", ln+1, err)
			}
			p := byPID[pid]
			if p == nil {
				return nil, fmt.Errorf("line %d: S line for unknown program", ln+1)
			}
			p.Scenarios = append(p.Scenarios, sc)
		}
	}
	return progs, nil
}

// ---------------------------------------------------------------------
// Helpers shared by generator, source emitter and oracle.

// HasConc reports whether the program carries a cff.Concurrency option.
func (p *Program) HasConc() bool { return p.Conc != 0 }

// COETrue reports whether ContinueOnError evaluates to true.
func (p *Program) COETrue() bool { return p.COE == "const1" || p.COE == "expr1" }

// TaskInstrumented reports whether flow task t emits events.
func (p *Program) TaskInstrumented(t *Task) bool {
	return t.Instr || (p.AutoInstr && p.InstrDir)
}

// NumSlots returns the number of wrapped argument expressions of the
// directive in source order (independent of Wrap).
func (p *Program) NumSlots() int {
	n := 1 // ctx
	for _, tok := range p.Order {
		n += p.slotsOf(tok)
	}
	return n
}

func (p *Program) slotsOf(tok string) int {
	name, id := SplitTok(tok)
	switch name {
	case "params":
		return len(p.Params)
	case "results":
		return len(p.Results)
	case "conc":
		return 1
	case "coe":
		if p.COE == "expr0" || p.COE == "expr1" {
			return 1
		}
		return 0
	case "instr":
		return 1
	case "emitter":
		return 1
	case "task":
		t := p.Tasks[id]
		n := 1
		if t.FB {
			n += len(t.Outs)
		}
		if t.Pred {
			n++
		}
		if t.Instr {
			n++
		}
		return n
	case "ptask":
		t := p.PTasks[id]
		n := 1
		if t.Instr {
			n++
		}
		return n
	case "ptasks":
		return len(p.Groups[id].Ks)
	case "slice":
		s := p.Slices[id]
		n := 2
		if s.End {
			n++
		}
		return n
	case "map":
		m := p.Maps[id]
		n := 2
		if m.End {
			n++
		}
		return n
	}
	return 0
}

// SplitTok splits an order token "name:id" into its parts (id = 0 if absent).
func SplitTok(tok string) (string, int) {
	if i := strings.IndexByte(tok, ':'); i >= 0 {
		return tok[:i], atoi(tok[i+1:])
	}
	return tok, 0
}

func dash(s string) string {
	if s == "" {
		return "-"
	}
	return s
}
