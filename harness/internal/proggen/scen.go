package proggen

import (
	"fmt"

	ps "go.uber.org/cff/verifh/internal/progspec"
)

// NeedsCur reports whether some function of the program can only find its
// harness state through the process-global pointer (a package-level
// function without a ctx parameter); such programs are never run with
// execs=64.
func NeedsCur(p *ps.Program) bool {
	global := func(form string, ctx bool) bool { return (form == "named" || form == "imported") && !ctx }
	for _, t := range p.Tasks {
		if global(t.Form, t.Ctx) || (t.Pred && global(t.PForm, t.PCtx)) {
			return true
		}
	}
	for _, t := range p.PTasks {
		if global(t.Form, t.Ctx) {
			return true
		}
	}
	for _, s := range p.Slices {
		if global(s.Form, s.Ctx) {
			return true
		}
	}
	for _, m := range p.Maps {
		if global(m.Form, m.Ctx) {
			return true
		}
	}
	return false
}

func (g *Gen) scenConc(p *ps.Program) int {
	if p.Conc == 0 {
		return 0
	}
	if g.chance(60) {
		return p.Conc
	}
	return g.pick([]int{1, 2, 3, 8})
}

func copyMap(m map[int]string) map[int]string {
	out := map[int]string{}
	for k, v := range m {
		out[k] = v
	}
	return out
}

// Scenarios draws the scenarios of an accepted program.
func (g *Gen) Scenarios(p *ps.Program) []*ps.Scenario {
	var out []*ps.Scenario
	if p.Kind == "flow" {
		out = g.flowScenarios(p)
	} else {
		out = g.parScenarios(p)
	}
	// One slow all-ok scenario for programs with an emitter and a (small) concurrency limit: the
	// directive outlives several state-flush ticks (100 ms), so goroutines created per tick show up
	// in the distinct-goroutine count. pv >= 1000 marks it (the panic class still is pv mod 4).
	if p.Emitters > 0 && p.Conc >= 1 && p.Conc <= 2 && len(out) > 0 && g.chance(50) {
		out = append(out, &ps.Scenario{Execs: 1, Cancel: "none", PV: -1})
	}
	for i, sc := range out {
		sc.SID = i
		if sc.Execs == 0 {
			sc.Execs = 1
		}
		if sc.Execs > 2 && bigCollection(p) {
			// thousands of elements times 64 concurrent executions would only measure the
			// harness's own bookkeeping against the watchdog
			sc.Execs = 2
		}
		if sc.Cancel == "" {
			sc.Cancel = "none"
		}
		slow, late := sc.PV == -1, sc.PV == -2
		sc.Conc = g.scenConc(p)
		sc.PV = g.R.Intn(4)
		if slow {
			sc.Conc = p.Conc
			sc.PV += 1000
		}
		if late {
			sc.PV += 2000
		}
		if sc.Fn == nil {
			sc.Fn = map[int]string{}
		}
		if sc.Pred == nil {
			sc.Pred = map[int]string{}
		}
		if sc.SlEnd == nil {
			sc.SlEnd = map[int]string{}
		}
		if sc.MpEnd == nil {
			sc.MpEnd = map[int]string{}
		}
	}
	return out
}

type fnSlot struct {
	pred bool
	k    int
	opts []string
}

func (g *Gen) flowScenarios(p *ps.Program) []*ps.Scenario {
	var slots []fnSlot
	for _, t := range p.Tasks {
		o := []string{"ok"}
		if t.Err {
			o = append(o, "err")
		}
		o = append(o, "panic")
		slots = append(slots, fnSlot{false, t.K, o})
		if t.Pred {
			slots = append(slots, fnSlot{true, t.K, []string{"t", "f", "panic"}})
		}
	}
	mk := func(choice []int) *ps.Scenario {
		sc := &ps.Scenario{Fn: map[int]string{}, Pred: map[int]string{}}
		for i, s := range slots {
			if s.pred {
				sc.Pred[s.k] = s.opts[choice[i]]
			} else {
				sc.Fn[s.k] = s.opts[choice[i]]
			}
		}
		return sc
	}
	allOK := make([]int, len(slots))
	var out []*ps.Scenario
	seen := map[string]bool{}
	add := func(choice []int) {
		key := fmt.Sprint(choice)
		if seen[key] {
			return
		}
		seen[key] = true
		out = append(out, mk(choice))
	}
	if len(slots) <= 4 {
		// full enumeration
		choice := make([]int, len(slots))
		var rec func(i int)
		rec = func(i int) {
			if i == len(slots) {
				add(append([]int(nil), choice...))
				return
			}
			for c := range slots[i].opts {
				choice[i] = c
				rec(i + 1)
			}
		}
		rec(0)
	} else {
		add(allOK)
		// each single failure
		for i, s := range slots {
			for c := 1; c < len(s.opts); c++ {
				ch := append([]int(nil), allOK...)
				ch[i] = c
				add(ch)
			}
		}
		// all predicates false
		ch := append([]int(nil), allOK...)
		anyPred := false
		for i, s := range slots {
			if s.pred {
				ch[i] = 1
				anyPred = true
			}
		}
		if anyPred {
			add(ch)
		}
		// random multi-failure assignments
		for n := 0; n < 8 || len(out) < 12; n++ {
			ch := append([]int(nil), allOK...)
			for i, s := range slots {
				if g.chance(30) {
					ch[i] = g.R.Intn(len(s.opts))
				}
			}
			add(ch)
			if n > 40 {
				break
			}
		}
	}
	// Run-parameter variants.
	if len(p.Tasks) > 0 {
		sc := mk(allOK)
		sc.Cancel = "before"
		out = append(out, sc)
		sc = mk(allOK)
		sc.Cancel = fmt.Sprintf("in:%d", g.R.Intn(len(p.Tasks)))
		out = append(out, sc)
		// every predicate false plus an in-flight cancel by a task that has no predicate: tasks are
		// gated off on the workers while the caller leaves through Wait's context arm
		{
			ch := append([]int(nil), allOK...)
			anyPred := false
			for i, s := range slots {
				if s.pred {
					ch[i], anyPred = 1, true
				}
			}
			var free []int
			for _, t := range p.Tasks {
				if !t.Pred {
					free = append(free, t.K)
				}
			}
			if anyPred && len(free) > 0 {
				sc = mk(ch)
				sc.Cancel = fmt.Sprintf("in:%d", free[g.R.Intn(len(free))])
				out = append(out, sc)
			}
		}
		// a failure plus an in-flight cancel
		ch := append([]int(nil), allOK...)
		i := g.R.Intn(len(slots))
		ch[i] = 1 + g.R.Intn(len(slots[i].opts)-1)
		sc = mk(ch)
		sc.Cancel = fmt.Sprintf("in:%d", g.R.Intn(len(p.Tasks)))
		out = append(out, sc)
	}
	if !NeedsCur(p) {
		sc := mk(allOK)
		sc.Execs = 64
		out = append(out, sc)
		// Failures absorbed by fallbacks / false predicates are still
		// deterministic: run one such assignment concurrently too.
		ch := append([]int(nil), allOK...)
		det := false
		for i, s := range slots {
			if s.pred {
				if g.chance(50) {
					ch[i] = 1
					det = true
				}
			} else if p.Tasks[s.k].FB && g.chance(60) {
				ch[i] = 1 + g.R.Intn(len(s.opts)-1)
				det = true
			}
		}
		if det {
			sc := mk(ch)
			sc.Execs = 64
			out = append(out, sc)
		}
	}
	return out
}

func (g *Gen) parScenarios(p *ps.Program) []*ps.Scenario {
	base := func() *ps.Scenario {
		sc := &ps.Scenario{Fn: map[int]string{}, SlEnd: map[int]string{}, MpEnd: map[int]string{}}
		for _, t := range p.PTasks {
			sc.Fn[t.K] = "ok"
		}
		for _, s := range p.Slices {
			if s.End {
				sc.SlEnd[s.S] = "ok"
			}
		}
		for _, m := range p.Maps {
			if m.End {
				sc.MpEnd[m.M] = "ok"
			}
		}
		return sc
	}
	failKind := func(err bool) string {
		if err && g.chance(55) {
			return "err"
		}
		return "panic"
	}
	var out []*ps.Scenario
	out = append(out, base())
	for _, t := range p.PTasks {
		if t.Err {
			sc := base()
			sc.Fn[t.K] = "err"
			out = append(out, sc)
		}
		sc := base()
		sc.Fn[t.K] = "panic"
		out = append(out, sc)
	}
	for _, s := range p.Slices {
		if s.Len > 0 {
			sc := base()
			sc.Sl = []ps.ElemFail{{C: s.S, I: g.R.Intn(s.Len), Kind: failKind(s.Err)}}
			out = append(out, sc)
			if s.Len > 1 {
				sc := base()
				for _, i := range g.R.Perm(s.Len)[:min(s.Len, 2+g.R.Intn(3))] {
					sc.Sl = append(sc.Sl, ps.ElemFail{C: s.S, I: i, Kind: failKind(s.Err)})
				}
				out = append(out, sc)
			}
		}
		if s.End {
			sc := base()
			sc.SlEnd[s.S] = "panic"
			out = append(out, sc)
			if s.EndErr {
				sc := base()
				sc.SlEnd[s.S] = "err"
				out = append(out, sc)
			}
		}
	}
	for _, m := range p.Maps {
		if m.Len > 0 {
			sc := base()
			sc.Mp = []ps.ElemFail{{C: m.M, I: g.R.Intn(m.Len), Kind: failKind(m.Err)}}
			out = append(out, sc)
			if m.Len > 1 {
				sc := base()
				for _, j := range g.R.Perm(m.Len)[:min(m.Len, 2+g.R.Intn(3))] {
					sc.Mp = append(sc.Mp, ps.ElemFail{C: m.M, I: j, Kind: failKind(m.Err)})
				}
				out = append(out, sc)
			}
		}
		if m.End {
			sc := base()
			sc.MpEnd[m.M] = "panic"
			out = append(out, sc)
			if m.EndErr {
				sc := base()
				sc.MpEnd[m.M] = "err"
				out = append(out, sc)
			}
		}
	}
	// late failures (pv in [2000,3000)): a task fails a few milliseconds into the run while the End
	// function of a collection is already running and panics later still — after a fail-fast
	// directive has returned. Nothing a straggler does may touch the caller's variables.
	if p.COE == "" && len(p.PTasks) > 0 {
		for _, s := range p.Slices {
			if s.End {
				sc := base()
				sc.Fn[p.PTasks[0].K] = failKind(p.PTasks[0].Err)
				sc.SlEnd[s.S] = "panic"
				sc.PV = -2
				out = append(out, sc)
				break
			}
		}
		for _, m := range p.Maps {
			if m.End {
				sc := base()
				sc.Fn[p.PTasks[0].K] = failKind(p.PTasks[0].Err)
				sc.MpEnd[m.M] = "panic"
				sc.PV = -2
				out = append(out, sc)
				break
			}
		}
	}
	// random combinations
	random := func() *ps.Scenario {
		sc := base()
		for _, t := range p.PTasks {
			if g.chance(35) {
				sc.Fn[t.K] = failKind(t.Err)
			}
		}
		for _, s := range p.Slices {
			if s.Len > 0 && g.chance(40) {
				for _, i := range g.R.Perm(s.Len)[:min(s.Len, 1+g.R.Intn(3))] {
					sc.Sl = append(sc.Sl, ps.ElemFail{C: s.S, I: i, Kind: failKind(s.Err)})
				}
			}
			if s.End && g.chance(30) {
				sc.SlEnd[s.S] = failKind(s.EndErr)
			}
		}
		for _, m := range p.Maps {
			if m.Len > 0 && g.chance(40) {
				for _, j := range g.R.Perm(m.Len)[:min(m.Len, 1+g.R.Intn(3))] {
					sc.Mp = append(sc.Mp, ps.ElemFail{C: m.M, I: j, Kind: failKind(m.Err)})
				}
			}
			if m.End && g.chance(30) {
				sc.MpEnd[m.M] = failKind(m.EndErr)
			}
		}
		return sc
	}
	for n := 0; n < 5 || len(out) < 12; n++ {
		out = append(out, random())
		if n > 30 {
			break
		}
	}
	sc := base()
	sc.Cancel = "before"
	out = append(out, sc)
	if len(p.PTasks) > 0 {
		sc := base()
		sc.Cancel = fmt.Sprintf("in:%d", g.R.Intn(len(p.PTasks)))
		out = append(out, sc)
		sc = random()
		sc.Cancel = fmt.Sprintf("in:%d", g.R.Intn(len(p.PTasks)))
		out = append(out, sc)
	}
	// every element of a slice panics: all panic value classes at once, several elements with the same
	// class (two recovered values of one uncomparable type meet in one directive)
	for _, s := range p.Slices {
		if s.Len >= 6 && s.Len <= 17 {
			sc := base()
			for i := 0; i < s.Len; i++ {
				sc.Sl = append(sc.Sl, ps.ElemFail{C: s.S, I: i, Kind: "panic"})
			}
			out = append(out, sc)
			break
		}
	}
	// an element of a slice with an End function cancels the context (all functions succeed): the End
	// function depends on that element and must not start
	for _, s := range p.Slices {
		if s.End && s.Len > 0 && s.Len <= 300 {
			sc := base()
			sc.Cancel = fmt.Sprintf("sl:%d:%d", s.S, s.Len-1)
			out = append(out, sc)
			if s.Len > 1 {
				sc = base()
				sc.Cancel = fmt.Sprintf("sl:%d:%d", s.S, g.R.Intn(s.Len))
				out = append(out, sc)
			}
			break
		}
	}
	if !NeedsCur(p) {
		sc := base()
		sc.Execs = 64
		out = append(out, sc)
		if p.COETrue() {
			sc := random()
			sc.Execs = 64
			out = append(out, sc)
		}
	}
	return out
}

func min(a, b int) int {
	if a < b {
		return a
	}
	return b
}

// bigCollection reports whether the program has a collection of a thousand elements or more.
func bigCollection(p *ps.Program) bool {
	for _, s := range p.Slices {
		if s.Len >= 1000 {
			return true
		}
	}
	for _, m := range p.Maps {
		if m.Len >= 1000 {
			return true
		}
	}
	return false
}
