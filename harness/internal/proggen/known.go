package proggen

import (
	ps "go.uber.org/cff/verifh/internal/progspec"
)

// flowWhere draws well-formed flows until cond holds.
func (g *Gen) flowWhere(pid int, cond func(*ps.Program) bool) *ps.Program {
	for {
		p := g.WellFormedFlow(pid)
		p.Mode, p.AutoInstr, p.Generic, p.TyAlias = "base", false, false, false
		if cond(p) {
			return p
		}
	}
}

func noExt(t *ps.Task) bool {
	ext, _ := homes(t.Ins, t.Outs)
	return !ext
}

// KnownPrograms returns the programs exercising the known defects of the
// unchanged tool; each runs in its own package. per is the number of
// programs per class.
func (g *Gen) KnownPrograms(startPID, per int) []*ps.Program {
	var out []*ps.Program
	pid := startPID
	add := func(p *ps.Program, stream, quirk string) {
		p.PID = pid
		p.Stream = "known:" + stream
		p.Quirk = quirk
		p.ModSub = false
		pid++
		out = append(out, p)
	}
	for i := 0; i < per; i++ {
		// F6: enclosing variable named err in an argument expression.
		add(g.flowWhere(pid, func(p *ps.Program) bool { return len(p.Params) > 0 }), "F6", "errvar")
		// F7: enclosing parameter named time / debug.
		add(g.flowWhere(pid, func(p *ps.Program) bool { return true }), "F7", "paramtime")
		add(g.flowWhere(pid, func(p *ps.Program) bool { return true }), "F7", "paramdebug")
		// F8: directive nested in a task literal.
		{
			p := g.flowWhere(pid, func(p *ps.Program) bool { return noExt(p.Tasks[0]) })
			p.Tasks[0].Form = "lit"
			add(p, "F8", "nested")
		}
		// names: user identifiers colliding with generated ones.
		{
			p := g.flowWhere(pid, func(p *ps.Program) bool { return len(p.Params) > 0 })
			if p.Emitters == 0 {
				p.Emitters = 1
			}
			p.InstrDir = true
			p.Conc = 2
			p.Tasks[0].Instr = true
			for _, t := range p.Tasks {
				if noExt(t) {
					t.Form = "lit"
				}
			}
			g.order(p)
			p.Wrap = true
			add(p, "names", "names")
		}
		// names, bare: the same without the logging wrapper around the arguments, so that the
		// arguments are plain identifiers / &identifiers named like generated locals.
		{
			p := g.flowWhere(pid, func(p *ps.Program) bool { return len(p.Params) > 0 && len(p.Results) > 0 })
			for _, t := range p.Tasks {
				if noExt(t) {
					t.Form = "lit"
				}
			}
			// the first Params value is also a Results target (its variable gets the generated name)
			p.Results = append([]int{p.Params[0]}, p.Results...)
			g.order(p)
			p.Wrap = false
			add(p, "names", "names")
		}
		// aiorder: regression program of the repaired defect F11 (-auto-instrument skipped tasks
		// listed before cff.InstrumentFlow).
		{
			p := g.flowWhere(pid, func(p *ps.Program) bool { return true })
			if p.Emitters == 0 {
				p.Emitters = 1
			}
			p.InstrDir, p.AutoInstr = true, true
			for _, t := range p.Tasks {
				t.Instr = false
			}
			g.order(p)
			// move InstrumentFlow to the end of the listing
			var toks []string
			for _, tk := range p.Order {
				if tk != "instr" {
					toks = append(toks, tk)
				}
			}
			p.Order = append(toks, "instr")
			add(p, "aiorder", "")
		}
		// notask: NEW finding — a flow without tasks is accepted.
		{
			p := &ps.Program{Kind: "flow", Mode: "base", Wrap: i%2 == 0}
			t := ps.FlowTypes[g.R.Intn(len(ps.FlowTypes))]
			p.Params, p.Results = []int{t}, []int{t}
			g.order(p)
			add(p, "notask", "")
		}
	}
	for _, p := range out {
		FillPos(p)
	}
	return out
}
