// Package proggen draws random abstract programs and scenarios.
package proggen

import (
	"fmt"
	"math/rand"
	"sort"

	ps "go.uber.org/cff/verifh/internal/progspec"
)

// Gen is a seeded generator.
type Gen struct {
	R *rand.Rand

	// plain restricts the next WellFormedFlow to the constructs modifier
	// mode supports: Params, Results, Concurrency and plain Tasks.
	plain bool
	// parCount counts the parallel programs drawn so far (every eighth gets a very large slice).
	parCount int
	// flowCount counts the well-formed flows drawn so far (every fourth is listed consumers first).
	flowCount int
}

// New returns a generator for the seed.
func New(seed int64) *Gen { return &Gen{R: rand.New(rand.NewSource(seed))} }

func (g *Gen) chance(pct int) bool { return g.R.Intn(100) < pct }

func (g *Gen) pick(xs []int) int { return xs[g.R.Intn(len(xs))] }

func (g *Gen) pickS(xs ...string) string { return xs[g.R.Intn(len(xs))] }

// ---------------------------------------------------------------------
// Flow programs.

// typeAlloc hands out distinct type ids in random order.
type typeAlloc struct {
	free []int
}

// flowPerm is a random permutation of the flow-value type ids.
func (g *Gen) flowPerm() []int {
	perm := g.R.Perm(len(ps.FlowTypes))
	out := make([]int, len(perm))
	for i, x := range perm {
		out[i] = ps.FlowTypes[x]
	}
	return out
}

func (g *Gen) newAlloc() *typeAlloc {
	free := g.flowPerm()
	if g.chance(30) {
		// the interface type 7 and its implementation 20 early, in this order: a pair of distinct
		// flow types of which the second is assignable to the first
		var rest []int
		for _, x := range free {
			if x != 7 && x != 20 {
				rest = append(rest, x)
			}
		}
		k := g.R.Intn(2)
		if k > len(rest) {
			k = len(rest)
		}
		free = append(append(append([]int{}, rest[:k]...), 7, 20), rest[k:]...)
	}
	return &typeAlloc{free: free}
}

func (a *typeAlloc) next() (int, bool) {
	if len(a.free) == 0 {
		return 0, false
	}
	t := a.free[0]
	a.free = a.free[1:]
	return t, true
}

// WellFormedFlow draws a well-formed flow.
func (g *Gen) WellFormedFlow(pid int) *ps.Program {
	p := &ps.Program{PID: pid, Kind: "flow", Stream: "wf", Mode: "base"}
	alloc := g.newAlloc()
	ntasks := 1 + g.R.Intn(8)
	if g.chance(30) {
		ntasks = 1 + g.R.Intn(3)
	}
	nparams := g.R.Intn(4)
	if g.chance(30) {
		nparams = 0
	}
	var avail []int // provided types so far
	for i := 0; i < nparams; i++ {
		if t, ok := alloc.next(); ok {
			p.Params = append(p.Params, t)
			avail = append(avail, t)
		}
	}
	consumed := map[int]bool{}
	for k := 0; k < ntasks; k++ {
		t := &ps.Task{K: k}
		// inputs
		nin := g.R.Intn(4)
		if len(avail) == 0 {
			nin = 0
		}
		for i := 0; i < nin; i++ {
			x := g.pick(avail)
			if g.chance(85) && contains(t.Ins, x) {
				continue // mostly distinct; sometimes the same type twice
			}
			t.Ins = append(t.Ins, x)
			consumed[x] = true
		}
		if len(t.Ins) >= 1 && g.chance(12) {
			// the same type twice, followed by the others: [A, A, B, …]
			t.Ins = append([]int{t.Ins[0]}, t.Ins...)
		}
		if contains(avail, 7) && contains(avail, 20) && g.chance(35) {
			t.Ins = []int{7, 7, 20}
			consumed[7], consumed[20] = true, true
		}
		// predicate
		if !g.plain && g.chance(28) {
			t.Pred = true
			t.PCtx = g.chance(30)
			npin := g.R.Intn(3)
			if len(avail) == 0 {
				npin = 0
			}
			for i := 0; i < npin; i++ {
				x := g.pick(avail)
				if contains(t.PIns, x) {
					continue
				}
				t.PIns = append(t.PIns, x)
				consumed[x] = true
			}
			if len(t.PIns) >= 1 && g.chance(12) {
				t.PIns = append([]int{t.PIns[0]}, t.PIns...)
			}
		}
		// outputs
		nout := 1
		switch r := g.R.Intn(100); {
		case r < 12 && !g.plain:
			nout = 0
		case r < 70:
			nout = 1
		case r < 92:
			nout = 2
		default:
			nout = 3
		}
		for o := 0; o < nout; o++ {
			if x, ok := alloc.next(); ok {
				t.Outs = append(t.Outs, x)
			}
		}
		if len(t.Outs) == 0 {
			t.Invoke = true
		}
		t.Ctx = g.chance(40)
		t.Err = g.chance(55)
		if !g.plain && t.Err && len(t.Outs) > 0 && g.chance(35) {
			t.FB = true
		}
		if !g.plain && t.Err && len(t.Outs) == 0 && g.chance(20) {
			t.FB = true // cff.FallbackWith() without values on an output-less task
		}
		p.Tasks = append(p.Tasks, t)
		avail = append(avail, t.Outs...)
	}
	// Every provided type must be consumed: hand unconsumed ones to
	// Results, a later task's inputs, or a later predicate's inputs.
	provider := map[int]int{} // type -> task index, -1 for params
	for _, x := range p.Params {
		provider[x] = -1
	}
	for _, t := range p.Tasks {
		for _, x := range t.Outs {
			provider[x] = t.K
		}
	}
	var unconsumed []int
	for _, x := range avail {
		if !consumed[x] {
			unconsumed = append(unconsumed, x)
		}
	}
	for _, x := range unconsumed {
		later := []int{}
		for k := provider[x] + 1; k < ntasks; k++ {
			later = append(later, k)
		}
		r := g.R.Intn(100)
		switch {
		case r < 45 || len(later) == 0:
			p.Results = append(p.Results, x)
		case r < 85:
			t := p.Tasks[g.pick(later)]
			t.Ins = append(t.Ins, x)
		default:
			t := p.Tasks[g.pick(later)]
			if t.Pred {
				t.PIns = append(t.PIns, x)
			} else {
				t.Ins = append(t.Ins, x)
			}
		}
	}
	// Also sometimes expose already-consumed values as results.
	for _, x := range avail {
		if consumed[x] && !contains(p.Results, x) && g.chance(12) {
			p.Results = append(p.Results, x)
		}
		if contains(p.Results, x) && g.chance(6) {
			p.Results = append(p.Results, x) // the same type in two Results targets
		}
	}
	g.R.Shuffle(len(p.Results), func(i, j int) { p.Results[i], p.Results[j] = p.Results[j], p.Results[i] })

	if !g.plain && g.flowCount%8 == 5 {
		n := 0
		for _, t := range p.Tasks {
			if !t.Pred && n < 2 {
				t.Pred, t.PCtx, t.PIns = true, false, nil
				n++
			}
		}
	}
	g.flowOpts(p)
	g.forms(p)
	g.order(p)
	g.flowCount++
	if g.flowCount%4 == 3 {
		consumerFirst(p)
	}
	return p
}

// consumerFirst rewrites a flow into the listing that is hardest for an emission order computed by a
// graph walk: tasks are listed consumers first (deepest first), and every function names its most
// derived input first — so a function reaches a provider both directly and through another input
// (a shortcut edge beside a longer path), starting from the consumer.
func consumerFirst(p *ps.Program) {
	depth := map[int]int{} // type -> length of the longest provider chain
	for _, x := range p.Params {
		depth[x] = 0
	}
	tdepth := map[int]int{}
	for _, t := range p.Tasks { // tasks are generated providers-first
		d := 0
		for _, x := range append(append([]int{}, t.Ins...), t.PIns...) {
			if depth[x]+1 > d {
				d = depth[x] + 1
			}
		}
		tdepth[t.K] = d
		for _, x := range t.Outs {
			depth[x] = d
		}
	}
	byDepth := func(xs []int) {
		if len(xs) == 3 && xs[0] == xs[1] { // the repeated-type shapes keep their order
			return
		}
		sort.SliceStable(xs, func(i, j int) bool { return depth[xs[i]] > depth[xs[j]] })
	}
	for _, t := range p.Tasks {
		byDepth(t.Ins)
		byDepth(t.PIns)
	}
	// permute the task tokens of the listing among their own positions, deepest first
	var pos []int
	var ks []int
	for i, tk := range p.Order {
		if n, id := ps.SplitTok(tk); n == "task" {
			pos = append(pos, i)
			ks = append(ks, id)
		}
	}
	sort.SliceStable(ks, func(i, j int) bool { return tdepth[ks[i]] > tdepth[ks[j]] })
	for i, at := range pos {
		p.Order[at] = fmt.Sprintf("task:%d", ks[i])
	}
	FillPos(p)
}

func contains(xs []int, x int) bool {
	for _, y := range xs {
		if y == x {
			return true
		}
	}
	return false
}

func (g *Gen) flowOpts(p *ps.Program) {
	if g.chance(45) {
		p.Conc = g.pick([]int{1, 2, 3, 8})
	}
	if !g.plain && g.chance(50) {
		p.Emitters = 1 + g.R.Intn(3)
		p.InstrDir = g.chance(60)
		for _, t := range p.Tasks {
			t.Instr = g.chance(50)
		}
		p.AutoInstr = g.chance(30)
	}
	if g.chance(25) {
		p.Mode = "source-map"
	}
	p.Wrap = g.chance(65)
	p.Generic = g.chance(12)
	p.TyAlias = g.chance(25)
	p.Site = g.pickS("assign", "assign", "assign", "return", "if", "arg", "var")
	g.quirks(p)
	p.ModSub = IsModSubset(p)
}

// quirks draws the source-level peculiarities of well-formed programs:
// `time` imported under an alias, and (flows) Params split over two
// cff.Params options.
func (g *Gen) quirks(p *ps.Program) {
	switch r := g.R.Intn(100); {
	case r < 14:
		p.Quirk = "timealias"
	case r < 26 && p.Kind == "flow" && len(p.Params) >= 2:
		p.Quirk = "params2"
	case r < 40 && p.Kind == "flow" && len(p.Results) >= 2:
		p.Quirk = "results2" // the Results targets split over two cff.Results options
	}
}

// IsModSubset reports whether the flow only uses what modifier mode
// supports: Params, Results, Concurrency and plain Tasks.
func IsModSubset(p *ps.Program) bool {
	if p.Kind != "flow" || p.Stream != "wf" || p.Emitters != 0 || p.InstrDir || len(p.Tasks) == 0 {
		return false
	}
	switch p.Quirk {
	case "", "timealias", "params2", "results2":
	default:
		return false
	}
	for _, t := range p.Tasks {
		if t.Pred || t.FB || t.Invoke || t.Instr || len(t.Outs) == 0 {
			return false
		}
	}
	return true
}

// PlainFlow draws a well-formed flow inside the modifier-mode subset.
func (g *Gen) PlainFlow(pid int) *ps.Program {
	g.plain = true
	defer func() { g.plain = false }()
	return g.WellFormedFlow(pid)
}

func homes(tys ...[]int) (ext, local bool) {
	for _, l := range tys {
		for _, t := range l {
			switch ps.Types[t].Home {
			case "ext":
				ext = true
			case "local":
				local = true
			}
		}
	}
	return
}

// forms chooses function forms compatible with the types in signatures.
func (g *Gen) forms(p *ps.Program) {
	for _, t := range p.Tasks {
		ext, local := homes(t.Ins, t.Outs)
		var opts []string
		if !ext {
			opts = append(opts, "lit", "lit", "lit")
		}
		opts = append(opts, "named", "method")
		if !local {
			opts = append(opts, "imported", "imported")
		}
		t.Form = opts[g.R.Intn(len(opts))]
		if t.Pred {
			pext, _ := homes(t.PIns)
			if pext || g.chance(25) {
				t.PForm = "named"
			} else {
				t.PForm = "lit"
			}
			if len(t.PIns) == 0 && !t.PCtx && g.chance(60) {
				// a method value: predicates of different tasks are then the same method of
				// different receiver values
				t.PForm = "meth"
			}
		}
	}
	for _, t := range p.PTasks {
		t.Form = g.pickS("lit", "lit", "named", "method", "imported")
	}
}

// order draws the source listing order and fills the pos fields.
func (g *Gen) order(p *ps.Program) {
	var toks []string
	if p.Kind == "flow" {
		if len(p.Params) > 0 {
			toks = append(toks, "params")
		}
		if len(p.Results) > 0 {
			toks = append(toks, "results")
		}
		for _, t := range p.Tasks {
			toks = append(toks, fmt.Sprintf("task:%d", t.K))
		}
	} else {
		for _, t := range p.PTasks {
			if t.Group < 0 {
				toks = append(toks, fmt.Sprintf("ptask:%d", t.K))
			}
		}
		for _, gr := range p.Groups {
			toks = append(toks, fmt.Sprintf("ptasks:%d", gr.G))
		}
		for _, s := range p.Slices {
			toks = append(toks, fmt.Sprintf("slice:%d", s.S))
		}
		for _, m := range p.Maps {
			toks = append(toks, fmt.Sprintf("map:%d", m.M))
		}
		if p.COE != "" {
			toks = append(toks, "coe")
		}
	}
	if p.Conc != 0 {
		toks = append(toks, "conc")
	}
	if p.InstrDir {
		toks = append(toks, "instr")
	}
	for i := 0; i < p.Emitters; i++ {
		toks = append(toks, fmt.Sprintf("emitter:%d", i))
	}
	g.R.Shuffle(len(toks), func(i, j int) { toks[i], toks[j] = toks[j], toks[i] })
	// Emitters must keep their relative order so that emitter number i is
	// the i-th WithEmitter in the listing.
	var epos []int
	for i, tk := range toks {
		if n, _ := ps.SplitTok(tk); n == "emitter" {
			epos = append(epos, i)
		}
	}
	for i, pos := range epos {
		toks[pos] = fmt.Sprintf("emitter:%d", i)
	}
	// cff.InstrumentFlow may be listed anywhere among the options (the order dependence of
	// -auto-instrument was defect F11, repaired; stream known:aiorder keeps the extreme case).
	p.Order = toks
	FillPos(p)
}

// FillPos sets the pos fields from p.Order.
func FillPos(p *ps.Program) {
	for i, tk := range p.Order {
		n, id := ps.SplitTok(tk)
		switch n {
		case "task":
			p.Tasks[id].Pos = i
		case "ptask":
			p.PTasks[id].Pos = i
		case "ptasks":
			p.Groups[id].Pos = i
			for _, k := range p.Groups[id].Ks {
				p.PTasks[k].Pos = i
			}
		case "slice":
			p.Slices[id].Pos = i
		case "map":
			p.Maps[id].Pos = i
		}
	}
}

// ---------------------------------------------------------------------
// Mutations.

// MutKinds lists the single-defect mutation kinds.
var MutKinds = []string{
	"drop-provider", "dup-task-task", "dup-params-params", "dup-params-task", "dup-same-task",
	"cycle", "cycle-pred", "cycle-self", "cycle-unreachable",
	"unused-param", "unused-output", "strip-invoke", "invoke-with-outputs",
	"fallback-no-error", "instr-no-emitter", "invoke-nonconst", "dup-params-two-options",
	// unsupported signatures: type-correct Go that cff must refuse
	"sig-prednamedbool", "sig-pred2", "sig-predvariadic", "sig-fbarity", "sig-shape", "sig-shape",
}

func (g *Gen) freshType(p *ps.Program) (int, bool) {
	used := map[int]bool{}
	for _, x := range p.Params {
		used[x] = true
	}
	for _, t := range p.Tasks {
		for _, x := range t.Outs {
			used[x] = true
		}
	}
	perm := g.flowPerm()
	for _, x := range perm {
		if !used[x] {
			return x, true
		}
	}
	return 0, false
}

// downstream returns the tasks that transitively depend on task k
// (including k).
func downstream(p *ps.Program, k int) map[int]bool {
	prov := map[int]int{}
	for _, t := range p.Tasks {
		for _, x := range t.Outs {
			prov[x] = t.K
		}
	}
	down := map[int]bool{k: true}
	for changed := true; changed; {
		changed = false
		for _, t := range p.Tasks {
			if down[t.K] {
				continue
			}
			for _, x := range append(append([]int{}, t.Ins...), t.PIns...) {
				if d, ok := prov[x]; ok && down[d] {
					down[t.K] = true
					changed = true
				}
			}
		}
	}
	return down
}

// Mutate applies one mutation of the given kind to a well-formed flow.
// It returns false if the kind is not applicable.
func (g *Gen) Mutate(p *ps.Program, kind string) bool {
	tasksWith := func(f func(*ps.Task) bool) []*ps.Task {
		var out []*ps.Task
		for _, t := range p.Tasks {
			if f(t) {
				out = append(out, t)
			}
		}
		return out
	}
	pickT := func(ts []*ps.Task) *ps.Task { return ts[g.R.Intn(len(ts))] }
	switch kind {
	case "drop-provider":
		// Remove one provided type from its provider while it stays consumed.
		type cand struct {
			param bool
			t     *ps.Task
			i     int
		}
		var cs []cand
		for i := range p.Params {
			cs = append(cs, cand{param: true, i: i})
		}
		for _, t := range p.Tasks {
			if len(t.Outs) >= 2 {
				for i := range t.Outs {
					cs = append(cs, cand{t: t, i: i})
				}
			}
		}
		if len(cs) == 0 {
			return false
		}
		c := cs[g.R.Intn(len(cs))]
		if c.param {
			p.Params = append(append([]int{}, p.Params[:c.i]...), p.Params[c.i+1:]...)
		} else {
			c.t.Outs = append(append([]int{}, c.t.Outs[:c.i]...), c.t.Outs[c.i+1:]...)
		}
	case "dup-task-task":
		ts := tasksWith(func(t *ps.Task) bool { return len(t.Outs) > 0 })
		if len(ts) < 2 {
			return false
		}
		a := pickT(ts)
		b := pickT(ts)
		if a == b {
			return false
		}
		b.Outs = append(b.Outs, a.Outs[g.R.Intn(len(a.Outs))])
	case "dup-same-task":
		ts := tasksWith(func(t *ps.Task) bool { return len(t.Outs) > 0 })
		if len(ts) == 0 {
			return false
		}
		a := pickT(ts)
		a.Outs = append(a.Outs, a.Outs[g.R.Intn(len(a.Outs))])
	case "dup-params-params":
		if len(p.Params) == 0 {
			return false
		}
		p.Params = append(p.Params, p.Params[g.R.Intn(len(p.Params))])
	case "dup-params-task":
		ts := tasksWith(func(t *ps.Task) bool { return len(t.Outs) > 0 })
		if len(ts) == 0 {
			return false
		}
		if len(p.Params) > 0 && g.chance(50) {
			a := pickT(ts)
			a.Outs = append(a.Outs, p.Params[g.R.Intn(len(p.Params))])
		} else {
			a := pickT(ts)
			p.Params = append(p.Params, a.Outs[g.R.Intn(len(a.Outs))])
		}
	case "cycle", "cycle-pred":
		// Task i gets as (predicate) input a type produced by a task
		// downstream of it.
		type cand struct{ i, x int }
		var cs []cand
		for _, t := range p.Tasks {
			if kind == "cycle-pred" && !t.Pred {
				continue
			}
			down := downstream(p, t.K)
			for _, d := range p.Tasks {
				if d.K != t.K && down[d.K] {
					for _, x := range d.Outs {
						cs = append(cs, cand{t.K, x})
					}
				}
			}
		}
		if len(cs) == 0 {
			return false
		}
		c := cs[g.R.Intn(len(cs))]
		if kind == "cycle-pred" {
			p.Tasks[c.i].PIns = append(p.Tasks[c.i].PIns, c.x)
		} else {
			p.Tasks[c.i].Ins = append(p.Tasks[c.i].Ins, c.x)
		}
	case "cycle-self":
		ts := tasksWith(func(t *ps.Task) bool { return len(t.Outs) > 0 })
		if len(ts) == 0 {
			return false
		}
		a := pickT(ts)
		x := a.Outs[g.R.Intn(len(a.Outs))]
		if a.Pred && g.chance(40) {
			a.PIns = append(a.PIns, x)
		} else {
			a.Ins = append(a.Ins, x)
		}
	case "cycle-unreachable":
		// Two (or three) extra tasks feeding only each other.
		n := 2 + g.R.Intn(2)
		var tys []int
		for i := 0; i < n; i++ {
			x, ok := g.freshTypeExcluding(p, tys)
			if !ok {
				return false
			}
			tys = append(tys, x)
		}
		base := len(p.Tasks)
		for i := 0; i < n; i++ {
			t := &ps.Task{K: base + i, Ins: []int{tys[(i+n-1)%n]}, Outs: []int{tys[i]}, Err: g.chance(50), Ctx: g.chance(30)}
			p.Tasks = append(p.Tasks, t)
		}
	case "unused-param":
		x, ok := g.freshType(p)
		if !ok {
			return false
		}
		p.Params = append(p.Params, x)
	case "unused-output":
		ts := tasksWith(func(t *ps.Task) bool { return len(t.Outs) > 0 })
		x, ok := g.freshType(p)
		if !ok || len(ts) == 0 {
			return false
		}
		a := pickT(ts)
		a.Outs = append(a.Outs, x)
	case "strip-invoke":
		ts := tasksWith(func(t *ps.Task) bool { return t.Invoke })
		if len(ts) == 0 {
			t := &ps.Task{K: len(p.Tasks), Err: g.chance(50), Ctx: g.chance(30)}
			if len(p.Params) > 0 {
				t.Ins = []int{p.Params[0]}
			}
			p.Tasks = append(p.Tasks, t)
			return true
		}
		pickT(ts).Invoke = false
	case "invoke-with-outputs":
		ts := tasksWith(func(t *ps.Task) bool { return len(t.Outs) > 0 })
		if len(ts) == 0 {
			return false
		}
		pickT(ts).Invoke = true
	case "fallback-no-error":
		ts := tasksWith(func(t *ps.Task) bool { return !t.Err && len(t.Outs) > 0 })
		if len(ts) == 0 {
			return false
		}
		pickT(ts).FB = true
	case "sig-prednamedbool", "sig-pred2", "sig-predvariadic":
		// The predicate of one task returns a defined boolean type / two results / is variadic.
		ts := tasksWith(func(t *ps.Task) bool { return t.Pred })
		var t *ps.Task
		if len(ts) == 0 {
			if len(p.Tasks) == 0 {
				return false
			}
			t = p.Tasks[g.R.Intn(len(p.Tasks))]
			t.Pred = true
		} else {
			t = pickT(ts)
		}
		if kind == "sig-predvariadic" {
			t.PIns = nil
		}
		// the predicate is emitted as a literal in the program file, which imports neither ty nor ext
		var local []int
		for _, x := range t.PIns {
			if ps.Types[x].Home == "local" {
				local = append(local, x)
			}
		}
		t.PIns = local
		t.PForm = "lit"
		p.Quirk = kind
		p.QuirkK = t.K
	case "sig-shape":
		// The function of one task gets a random unsupported shape: a context.Context that is not
		// the first parameter, an error that is not the last result, or a variadic parameter.
		if len(p.Tasks) == 0 {
			return false
		}
		t := p.Tasks[g.R.Intn(len(p.Tasks))]
		np, nr := 1+g.R.Intn(3), 1+g.R.Intn(3)
		ps_ := make([]byte, np)
		rs := make([]byte, nr)
		for i := range ps_ {
			ps_[i] = 'v'
		}
		for i := range rs {
			rs[i] = 'v'
		}
		if g.chance(50) {
			ps_[0] = 'c'
		}
		if g.chance(50) {
			rs[nr-1] = 'e'
		}
		sigP, sigR := "", ""
		switch g.R.Intn(3) {
		case 0: // ctx later
			if np < 2 {
				ps_ = append(ps_, 'v')
				np++
			}
			ps_[1+g.R.Intn(np-1)] = 'c'
			sigP, sigR = string(ps_), string(rs)
		case 1: // error not last
			if nr < 2 {
				rs = append(rs, 'v')
				nr++
			}
			rs[g.R.Intn(nr-1)] = 'e'
			sigP, sigR = string(ps_), string(rs)
		default: // variadic
			if ps_[np-1] == 'c' {
				ps_ = append(ps_, 'v')
			}
			sigP, sigR = string(ps_)+"V", string(rs)
		}
		p.Quirk, p.QuirkK, p.SigP, p.SigR = kind, t.K, sigP, sigR
	case "sig-fbarity":
		// cff.FallbackWith with one value too many.
		ts := tasksWith(func(t *ps.Task) bool { return t.FB && len(t.Outs) > 0 })
		if len(ts) == 0 {
			ts = tasksWith(func(t *ps.Task) bool { return t.Err && len(t.Outs) > 0 })
			if len(ts) == 0 {
				return false
			}
		}
		t := pickT(ts)
		t.FB = true
		p.Quirk = kind
		p.QuirkK = t.K
	case "invoke-nonconst":
		// cff.Invoke(h.True()): the argument must be a constant.
		if len(tasksWith(func(t *ps.Task) bool { return t.Invoke })) == 0 {
			t := &ps.Task{K: len(p.Tasks), Err: g.chance(50), Ctx: g.chance(30), Invoke: true}
			if len(p.Params) > 0 {
				t.Ins = []int{p.Params[0]}
			}
			p.Tasks = append(p.Tasks, t)
		}
		p.Quirk = "invokevar"
	case "dup-params-two-options":
		// Entry 0 alone in the first cff.Params option, its type again in the second.
		if len(p.Params) == 0 {
			return false
		}
		p.Params = append(p.Params, p.Params[0])
		p.Quirk = "params2"
	case "instr-no-emitter":
		p.Emitters = 0
		p.AutoInstr = false
		if g.chance(50) || len(p.Tasks) == 0 {
			p.InstrDir = true
		} else {
			p.InstrDir = false
			for _, t := range p.Tasks {
				t.Instr = false
			}
			p.Tasks[g.R.Intn(len(p.Tasks))].Instr = true
		}
	default:
		return false
	}
	return true
}

func (g *Gen) freshTypeExcluding(p *ps.Program, ex []int) (int, bool) {
	for tries := 0; tries < 50; tries++ {
		x, ok := g.freshType(p)
		if !ok {
			return 0, false
		}
		if !contains(ex, x) {
			return x, true
		}
	}
	return 0, false
}

// MutatedFlow draws a well-formed flow and applies one mutation.
func (g *Gen) MutatedFlow(pid int, kind string) *ps.Program {
	for tries := 0; tries < 200; tries++ {
		p := g.WellFormedFlow(pid)
		if p.Quirk == "params2" || p.Quirk == "results2" || p.Quirk == "invokevar" {
			p.Quirk = ""
		}
		if g.Mutate(p, kind) {
			p.Stream = "mut:" + kind
			p.ModSub = false
			// New tasks may have been added; redo forms and order.
			g.forms(p)
			g.order(p)
			return p
		}
	}
	p := g.WellFormedFlow(pid)
	return p
}

// ---------------------------------------------------------------------
// Parallel programs.

var sizes = []int{-1, 0, 1, 2, 17, 300}

func (g *Gen) comparableType() int {
	var c []int
	for _, t := range ps.Types {
		if t.Comparable {
			c = append(c, t.ID)
		}
	}
	return g.pick(c)
}

// ParallelProgram draws a parallel program.
func (g *Gen) ParallelProgram(pid int) *ps.Program {
	p := &ps.Program{PID: pid, Kind: "par", Stream: "wf", Mode: "base"}
	nt := g.R.Intn(5)
	// Collections-only directives whose collections are all empty or nil: the End hooks are then
	// the only jobs and must still run exactly once.
	emptyOnly := g.chance(14)
	// Every eighth parallel program has a very large first slice (3000, then 9001 elements): sizes
	// beyond any plausible window, batch or chunk size of generated code, and not multiples of one.
	g.parCount++
	big := 0
	switch g.parCount % 8 {
	case 2:
		big = 3000
	case 6:
		big = 9001
	}
	if big > 0 {
		emptyOnly = false
	}
	if emptyOnly {
		nt = 0
	}
	for k := 0; k < nt; k++ {
		p.PTasks = append(p.PTasks, &ps.PTask{K: k, Ctx: g.chance(45), Err: g.chance(60), Group: -1})
	}
	// Some of the tasks go into cff.Tasks groups.
	if nt >= 2 && g.chance(50) {
		gr := &ps.PGroup{G: 0}
		n := 1 + g.R.Intn(nt)
		perm := g.R.Perm(nt)[:n]
		sort.Ints(perm)
		for _, k := range perm {
			gr.Ks = append(gr.Ks, k)
			p.PTasks[k].Group = 0
		}
		p.Groups = append(p.Groups, gr)
	}
	ns := g.R.Intn(3)
	nm := g.R.Intn(2)
	if nt == 0 && ns == 0 && nm == 0 {
		ns = 1
	}
	if big > 0 && ns == 0 {
		ns = 1
	}
	pickLen := func() int {
		if emptyOnly {
			return sizes[g.R.Intn(2)]
		}
		if g.chance(5) {
			// beyond any plausible window or batch size of generated code (a failure or a
			// cancellation then leaves thousands of element jobs enqueued but never run)
			return []int{3000, 9001}[g.R.Intn(2)]
		}
		return sizes[g.R.Intn(len(sizes))]
	}
	for s := 0; s < ns; s++ {
		sl := &ps.Slice{S: s, Idx: g.chance(65), Ctx: g.chance(45), Err: g.chance(65), Len: pickLen(),
			Named: g.chance(30), Form: "lit", Assign: true}
		sl.Elem, sl.Param = g.assignablePair(false)
		if ps.Types[sl.Param].Home == "ext" || g.chance(25) {
			sl.Form = "named"
		}
		if s == 0 && big > 0 {
			sl.Len = big
		}
		p.Slices = append(p.Slices, sl)
	}
	for m := 0; m < nm; m++ {
		mp := &ps.Map{M: m, Ctx: g.chance(45), Err: g.chance(65), Len: pickLen(),
			Form: "lit", Assign: true}
		mp.Key, mp.KParam = g.assignablePair(true)
		mp.Val, mp.VParam = g.assignablePair(false)
		if ps.Types[mp.KParam].Home == "ext" || ps.Types[mp.VParam].Home == "ext" || g.chance(25) {
			mp.Form = "named"
		}
		p.Maps = append(p.Maps, mp)
	}
	// ContinueOnError excludes End hooks (the tool refuses the combination).
	endChance := 55
	if emptyOnly {
		endChance = 85
	}
	if !emptyOnly && g.chance(40) {
		p.COE = g.pickS("const0", "const1", "const1", "expr0", "expr1", "expr1")
	} else {
		for _, s := range p.Slices {
			if g.chance(endChance) {
				s.End, s.EndCtx, s.EndErr = true, g.chance(40), g.chance(60)
			}
		}
		for _, m := range p.Maps {
			if g.chance(endChance) {
				m.End, m.EndCtx, m.EndErr = true, g.chance(40), g.chance(60)
			}
		}
	}
	// element function and End function disagreeing on "returns an error": the End function's
	// result must be handled according to its own signature
	if p.COE == "" && g.chance(30) {
		for _, s := range p.Slices {
			s.End, s.EndErr, s.Err = true, true, false
		}
		for _, m := range p.Maps {
			m.End, m.EndErr, m.Err = true, true, false
		}
	}
	if g.chance(45) {
		p.Conc = g.pick([]int{1, 2, 3, 8})
	}
	if g.chance(50) {
		p.Emitters = 1 + g.R.Intn(3)
		p.InstrDir = g.chance(60)
		for _, t := range p.PTasks {
			if t.Group < 0 {
				t.Instr = g.chance(55)
			}
		}
		p.AutoInstr = g.chance(20)
	}
	if g.chance(25) {
		p.Mode = "source-map"
	}
	p.Wrap = g.chance(65)
	p.Generic = g.chance(20)
	p.TyAlias = g.chance(25)
	p.Site = g.pickS("assign", "assign", "assign", "return", "if", "arg", "var")
	g.quirks(p)
	g.forms(p)
	g.order(p)
	return p
}

// assignablePair draws an (element, parameter) type pair with the element
// assignable to the parameter: mostly identical types, otherwise a
// concrete type implementing the parameter interface or a named/unnamed
// pair with identical underlying types.
func (g *Gen) assignablePair(key bool) (elem, param int) {
	if g.chance(30) {
		pairs := [][2]int{{20, 7}, {20, 7}, {21, 3}, {3, 21}, {19, 23}, {23, 19}}
		if key {
			pairs = [][2]int{{20, 7}}
		}
		pr := pairs[g.R.Intn(len(pairs))]
		return pr[0], pr[1]
	}
	if key {
		t := g.comparableType()
		return t, t
	}
	t := g.R.Intn(len(ps.Types))
	return t, t
}

// unassignablePair draws an (element, parameter) pair Go refuses.
func (g *Gen) unassignablePair(key bool) (elem, param int) {
	pairs := [][2]int{{7, 20}, {22, 2}, {2, 22}, {0, 2}, {0, 17}, {1, 9}, {3, 15}}
	if key {
		pairs = [][2]int{{22, 2}, {2, 22}, {0, 2}, {0, 17}, {8, 13}, {10, 2}}
	}
	pr := pairs[g.R.Intn(len(pairs))]
	return pr[0], pr[1]
}

// MutatedParallelKind draws a parallel program the tool must refuse.
func (g *Gen) MutatedParallelKind(pid int, kind string) *ps.Program {
	if kind == "coe-end" {
		return g.MutatedParallel(pid)
	}
	for {
		p := g.ParallelProgram(pid)
		switch {
		case kind == "slice-unassignable" && len(p.Slices) > 0:
			s := p.Slices[g.R.Intn(len(p.Slices))]
			s.Elem, s.Param = g.unassignablePair(false)
			s.Assign = false
			if ps.Types[s.Param].Home == "ext" {
				s.Form = "named"
			}
		case kind == "map-unassignable" && len(p.Maps) > 0:
			m := p.Maps[g.R.Intn(len(p.Maps))]
			if g.chance(50) {
				m.Key, m.KParam = g.unassignablePair(true)
			} else {
				m.Val, m.VParam = g.unassignablePair(false)
			}
			m.Assign = false
			if ps.Types[m.KParam].Home == "ext" || ps.Types[m.VParam].Home == "ext" {
				m.Form = "named"
			}
		default:
			continue
		}
		p.Stream = "mut:" + kind
		return p
	}
}

// MutatedParallel draws a parallel program the tool must refuse:
// ContinueOnError together with an End hook.
func (g *Gen) MutatedParallel(pid int) *ps.Program {
	for {
		p := g.ParallelProgram(pid)
		if len(p.Slices)+len(p.Maps) == 0 {
			continue
		}
		for _, s := range p.Slices {
			s.End = false
		}
		for _, m := range p.Maps {
			m.End = false
		}
		if len(p.Slices) > 0 && (len(p.Maps) == 0 || g.chance(50)) {
			s := p.Slices[g.R.Intn(len(p.Slices))]
			s.End, s.Idx, s.EndErr = true, true, g.chance(50)
		} else {
			m := p.Maps[g.R.Intn(len(p.Maps))]
			m.End, m.EndErr = true, g.chance(50)
		}
		p.COE = g.pickS("const0", "const1", "expr0", "expr1")
		p.Stream = "mut:coe-end"
		g.order(p)
		return p
	}
}
