module go.uber.org/cff/verifh

go 1.19

require (
	go.uber.org/cff v0.0.0
	go.uber.org/multierr v1.11.0
)

require (
	golang.org/x/mod v0.17.0 // indirect
	golang.org/x/sync v0.7.0 // indirect
	golang.org/x/tools v0.20.0 // indirect
)

replace go.uber.org/cff => /repo
