module go.uber.org/cff/verifh

go 1.19

require (
	go.uber.org/cff v0.0.0
	go.uber.org/multierr v1.11.0
)

replace go.uber.org/cff => /repo
