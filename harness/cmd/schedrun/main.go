// schedrun drives the real scheduler (built from /repo with -tags verif) on
// generated scenarios. For every scenario it prints the scenario, the hook
// trace (T lines, replayed by the Lean driver through the model's
// executable definitions) and the verdicts of the hook-free oracles (O lines).
//
// Every random choice derives from -seed.
package main

import (
	"bufio"
	"bytes"
	"context"
	"errors"
	"flag"
	"fmt"
	"math/rand"
	"os"
	"runtime"
	"sort"
	"strings"
	"sync"
	"sync/atomic"
	"time"

	"go.uber.org/cff/scheduler"
	"go.uber.org/multierr"
)

// ---------------------------------------------------------------- scenario

type outcome int

const (
	oOK outcome = iota
	oFail
	oGoexit
	oCancelOK     // cancels the context inside the body, then returns nil
	oCancelFail   // cancels the context inside the body, then fails
	oCancelGoexit // cancels the context inside the body, then exits its goroutine
	oFailCtx      // fails with an error that wraps context.DeadlineExceeded although the scheduler's context is alive
)

// errCancelCause is the cause every harness-side cancellation carries.
var errCancelCause = errors.New("verif: cancellation cause")

func (o outcome) String() string {
	return [...]string{"ok", "fail", "goexit", "cancelok", "cancelfail", "cancelgoexit", "failctx"}[o]
}

type scenario struct {
	Idx       int
	N         int
	Coe       bool
	Emit      bool
	Deps      [][]int
	Out       []outcome
	Late      bool // enqueue a job only after all its dependencies' bodies ended
	ExtCancel int  // -1 none; k>=0: cancel from outside once k bodies have ended (0 = before the first Enqueue)
	Perturb   int
	Seed      int64
	Spin      int // bodies yield this many times (overlap)
	Block     int // -1 none; else this job's body blocks until Wait has returned (or 3 s)
}

func (s *scenario) header() string {
	b := func(x bool) int {
		if x {
			return 1
		}
		return 0
	}
	return fmt.Sprintf("scn %d N=%d coe=%d emit=%d late=%d extcancel=%d perturb=%d seed=%d spin=%d jobs=%d block=%d",
		s.Idx, s.N, b(s.Coe), b(s.Emit), b(s.Late), s.ExtCancel, s.Perturb, s.Seed, s.Spin, len(s.Deps), s.Block)
}

func (s *scenario) key() string {
	var sb strings.Builder
	fmt.Fprintf(&sb, "%d/%v/%v/%v/%d|", s.N, s.Coe, s.Emit, s.Late, s.ExtCancel)
	for j := range s.Deps {
		fmt.Fprintf(&sb, "%v%v;", s.Out[j], s.Deps[j])
	}
	return sb.String()
}

func (s *scenario) nontrivialOutcome() bool {
	if s.ExtCancel >= 0 {
		return true
	}
	for _, o := range s.Out {
		if o != oOK {
			return true
		}
	}
	return false
}

// nontrivial: fan-in > 1, a duplicate dependency, a failure/exit/cancel, or a late enqueue.
func (s *scenario) nontrivial() bool {
	if s.Late || s.ExtCancel >= 0 {
		return true
	}
	for j := range s.Deps {
		if len(s.Deps[j]) > 1 || s.Out[j] != oOK {
			return true
		}
	}
	return false
}

type herr struct {
	id      int
	wrapCtx bool
}

func (e *herr) Error() string { return fmt.Sprintf("job %d failed", e.id) }
func (e *herr) VerifID() int  { return e.id }
func (e *herr) Unwrap() error {
	if e.wrapCtx {
		return context.DeadlineExceeded
	}
	return nil
}

// ---------------------------------------------------------------- execution

type reportRec struct {
	st            scheduler.State
	submitted     int64
	submittedDeps int64
}

type emitter struct {
	mu        sync.Mutex
	reports   []reportRec
	submitted *int64
	withDeps  *int64
	retFin    *int32
	afterRet  int
}

func (e *emitter) Emit(st scheduler.State) {
	r := reportRec{st: st, submitted: atomic.LoadInt64(e.submitted), submittedDeps: atomic.LoadInt64(e.withDeps)}
	late := atomic.LoadInt32(e.retFin) == 2
	e.mu.Lock()
	if len(e.reports) < 50000 {
		e.reports = append(e.reports, r)
	}
	if late {
		e.afterRet++
	}
	e.mu.Unlock()
}

type result struct {
	lock             *sync.Mutex // guards the per-job records while job bodies may still be running
	sc               *scenario
	trace            []string
	starts           [][]int64 // per job: start stamps
	ends             []int64   // per job: end stamp (0 = none)
	maxIn            int32
	ret              error
	retStamp         int64
	cancelAt         int64   // stamp taken after the first cancel() returned (0 = never returned)
	cancelBeg        int64   // stamp taken before the first cancel() was called (0 = never cancelled)
	enqStamp         []int64 // stamp taken before Enqueue(j) is called
	hung             bool
	skipped          bool
	retBeforeRelease bool // Wait returned while the blocking job was still held
	blockStarted     bool
	dump             string
	reports          []reportRec
	afterRet         int
	wallNS           int64
}

var hangs int32
var leakBatches int32

func runScenario(sc *scenario) *result {
	if atomic.LoadInt32(&hangs) >= 3 || atomic.LoadInt32(&leakBatches) >= 2 {
		// the tree under test hangs or leaks: do not pile up stuck schedulers (leaked loops with a
		// nanosecond ticker burn a core each)
		return &result{sc: sc, skipped: true, starts: make([][]int64, len(sc.Deps)), ends: make([]int64, len(sc.Deps)), enqStamp: make([]int64, len(sc.Deps))}
	}
	n := len(sc.Deps)
	res := &result{sc: sc, starts: make([][]int64, n), ends: make([]int64, n), enqStamp: make([]int64, n)}
	var (
		seq       int64
		mu        sync.Mutex
		inflight  int32
		ended     int64
		submitted int64
		withDeps  int64
		retFin    int32
		cancelAt  int64
		cancelBeg int64
	)
	rec := &scheduler.VerifRecorder{Perturb: sc.Perturb, Seed: sc.Seed}
	res.lock = &mu
	// cancellation carries a cause: whatever the scheduler reports for a cancelled context must be
	// ctx.Err() (context.Canceled), never the caller-supplied cause
	ctx, cancelCause := context.WithCancelCause(context.Background())
	cancelFn := func() { cancelCause(errCancelCause) }
	defer cancelFn()
	doCancel := func() {
		rec.Add("X cancel-begin")
		atomic.CompareAndSwapInt64(&cancelBeg, 0, atomic.AddInt64(&seq, 1))
		cancelFn()
		rec.Add("X cancel-end")
		atomic.CompareAndSwapInt64(&cancelAt, 0, atomic.AddInt64(&seq, 1))
	}

	em := &emitter{submitted: &submitted, withDeps: &withDeps, retFin: &retFin}
	cfg := scheduler.Config{Concurrency: sc.N, ContinueOnError: sc.Coe, Verif: rec}
	if sc.Emit {
		cfg.Emitter = em
		cfg.StateFlushFrequency = time.Duration(1+sc.Seed%1000) * time.Nanosecond
	}

	endedCh := make(chan struct{}, n+1)
	release := make(chan struct{})
	waitReturned := make(chan struct{})
	if sc.Block >= 0 {
		go func() {
			select {
			case <-waitReturned:
				mu.Lock()
				res.retBeforeRelease = true
				mu.Unlock()
			case <-time.After(3 * time.Second):
			}
			close(release)
		}()
	}
	body := func(j int) func(context.Context) error {
		return func(context.Context) error {
			st := atomic.AddInt64(&seq, 1)
			mu.Lock()
			res.starts[j] = append(res.starts[j], st)
			mu.Unlock()
			in := atomic.AddInt32(&inflight, 1)
			for {
				m := atomic.LoadInt32(&res.maxIn)
				if in <= m || atomic.CompareAndSwapInt32(&res.maxIn, m, in) {
					break
				}
			}
			for i := 0; i < sc.Spin; i++ {
				runtime.Gosched()
			}
			if j == sc.Block {
				mu.Lock()
				res.blockStarted = true
				mu.Unlock()
				<-release
			}
			o := sc.Out[j]
			if o == oCancelOK || o == oCancelFail || o == oCancelGoexit {
				doCancel()
			}
			atomic.AddInt32(&inflight, -1)
			en := atomic.AddInt64(&seq, 1)
			mu.Lock()
			if res.ends[j] == 0 {
				res.ends[j] = en
			}
			mu.Unlock()
			atomic.AddInt64(&ended, 1)
			select {
			case endedCh <- struct{}{}:
			default:
			}
			switch o {
			case oFail, oCancelFail:
				return &herr{id: j}
			case oFailCtx:
				return &herr{id: j, wrapCtx: true}
			case oGoexit, oCancelGoexit:
				runtime.Goexit()
			}
			return nil
		}
	}

	done := make(chan struct{})
	t0 := time.Now()
	go func() {
		defer close(done)
		if sc.ExtCancel == 0 {
			doCancel()
		}
		sched := cfg.New()
		if sc.ExtCancel > 0 {
			go func() {
				for atomic.LoadInt64(&ended) < int64(sc.ExtCancel) {
					select {
					case <-endedCh:
					case <-time.After(200 * time.Microsecond):
						if atomic.LoadInt32(&retFin) != 0 {
							return
						}
					}
				}
				doCancel()
			}()
		}
		handles := make([]*scheduler.ScheduledJob, n)
		depSlices := map[string][]*scheduler.ScheduledJob{}
		for j := 0; j < n; j++ {
			if sc.Late {
				// wait for the bodies of all dependencies to end (bounded: a dependency may
				// never run), then give the loop a moment to see the result.
				deadline := time.Now().Add(3 * time.Millisecond)
				for _, d := range sc.Deps[j] {
					for {
						mu.Lock()
						e := res.ends[d]
						mu.Unlock()
						if e != 0 || time.Now().After(deadline) {
							break
						}
						runtime.Gosched()
					}
				}
				for i := 0; i < 20; i++ {
					runtime.Gosched()
				}
			}
			// Jobs naming the same dependencies share one slice (a fan-out of children built from one
			// `parents` slice): the scheduler must treat Job.Dependencies as read-only memory of the caller.
			key := fmt.Sprint(sc.Deps[j])
			deps, shared := depSlices[key]
			if !shared {
				deps = make([]*scheduler.ScheduledJob, len(sc.Deps[j]))
				for i, d := range sc.Deps[j] {
					deps[i] = handles[d]
				}
				depSlices[key] = deps
			}
			res.enqStamp[j] = atomic.AddInt64(&seq, 1)
			atomic.AddInt64(&submitted, 1)
			if len(deps) > 0 {
				atomic.AddInt64(&withDeps, 1)
			}
			handles[j] = sched.Enqueue(ctx, scheduler.Job{Run: body(j), Dependencies: deps})
		}
		atomic.StoreInt32(&retFin, 1)
		res.ret = sched.Wait(ctx)
		res.retStamp = atomic.AddInt64(&seq, 1)
		close(waitReturned)
		if c := atomic.LoadInt64(&cancelBeg); c == 0 {
			// normal completion (not through the ctx arm): reports must stop
			atomic.StoreInt32(&retFin, 2)
		}
	}()

	select {
	case <-done:
	case <-time.After(10 * time.Second):
		// possible hang: confirm with two dumps
		d1 := schedFrames()
		time.Sleep(300 * time.Millisecond)
		d2 := schedFrames()
		select {
		case <-done:
		default:
			if d1 == d2 {
				res.hung = true
				atomic.AddInt32(&hangs, 1)
				res.dump = d2
			} else {
				<-done
			}
		}
	}
	res.wallNS = time.Since(t0).Nanoseconds()
	res.cancelAt = atomic.LoadInt64(&cancelAt)
	res.cancelBeg = atomic.LoadInt64(&cancelBeg)
	if sc.Emit {
		// let a late tick land if the loop is (wrongly) still reporting
		time.Sleep(20 * time.Microsecond)
		em.mu.Lock()
		res.reports = append([]reportRec(nil), em.reports...)
		res.afterRet = em.afterRet
		em.mu.Unlock()
	}
	res.trace = rec.Snapshot()
	return res
}

// schedFrames returns a canonical summary of goroutines with scheduler frames.
func schedFrames() string {
	buf := make([]byte, 1<<22)
	buf = buf[:runtime.Stack(buf, true)]
	var out []string
	for _, g := range bytes.Split(buf, []byte("\n\n")) {
		s := string(g)
		if startedByCff(s) {
			lines := strings.Split(s, "\n")
			state := lines[0]
			if i := strings.Index(state, "["); i >= 0 {
				state = state[i:]
			}
			// drop "N minutes" decorations
			if i := strings.Index(state, ","); i >= 0 {
				state = state[:i] + "]"
			}
			fn := ""
			for _, l := range lines[1:] {
				if strings.Contains(l, "cff/scheduler.") && !strings.HasPrefix(l, "\t") {
					fn = l
					if i := strings.Index(fn, "("); i > 0 && strings.HasPrefix(fn, "go.uber.org/cff/scheduler.worker") {
						fn = fn[:i]
					}
					break
				}
			}
			out = append(out, state+" "+fn)
		}
	}
	sort.Strings(out)
	return strings.Join(out, "\n")
}

// startedByCff reports whether a goroutine dump entry is a goroutine that code of go.uber.org/cff started
// (whatever the function is called): its "created by" line names a function of the scheduler or the root
// package — not of this harness module, whose import path has the same prefix.
func startedByCff(g string) bool {
	i := strings.LastIndex(g, "\ncreated by ")
	if i < 0 {
		return false
	}
	c := g[i+len("\ncreated by "):]
	if strings.HasPrefix(c, "go.uber.org/cff/verifh") {
		return false
	}
	return strings.HasPrefix(c, "go.uber.org/cff/scheduler.") || strings.HasPrefix(c, "go.uber.org/cff.")
}

func countSchedGoroutines() int {
	s := schedFrames()
	if s == "" {
		return 0
	}
	return len(strings.Split(s, "\n"))
}

// ---------------------------------------------------------------- oracles (hook-free)

type verdicts map[string][]string // property -> failures

func (v verdicts) fail(p, format string, a ...interface{}) {
	v[p] = append(v[p], fmt.Sprintf(format, a...))
}

func isHerr(err error, id int) bool {
	var h *herr
	return errors.As(err, &h) && h.id == id
}

func classOf(err error) string {
	var h *herr
	switch {
	case err == nil:
		return "nil"
	case errors.As(err, &h):
		return fmt.Sprintf("fail:%d", h.id)
	case errors.Is(err, context.Canceled):
		return "ctx"
	case err.Error() == "job exited unexpectedly":
		return "exit"
	case err.Error() == "job invalid":
		return "invalid"
	}
	return "other:" + err.Error()
}

func check(r *result) verdicts {
	if r.lock != nil {
		// a body that outlives an early return of Wait may still be recording
		r.lock.Lock()
		defer r.lock.Unlock()
	}
	v := verdicts{}
	sc := r.sc
	n := len(sc.Deps)
	if r.skipped {
		return v
	}
	if r.hung {
		v.fail("C05", "scenario did not return within 10s; all-blocked scheduler goroutines: %s", strings.ReplaceAll(r.dump, "\n", " | "))
		return v
	}
	failedBody := func(j int) bool { // body ended but not ok
		return r.ends[j] != 0 && (sc.Out[j] == oFail || sc.Out[j] == oGoexit || sc.Out[j] == oCancelFail || sc.Out[j] == oCancelGoexit || sc.Out[j] == oFailCtx)
	}
	okEnded := func(j int) bool { return r.ends[j] != 0 && !failedBody(j) }

	// C01
	for j := 0; j < n; j++ {
		if len(r.starts[j]) > 1 {
			v.fail("C01", "job %d started %d times", j, len(r.starts[j]))
		}
		if len(r.starts[j]) >= 1 {
			st := r.starts[j][0]
			for _, d := range sc.Deps[j] {
				if !okEnded(d) {
					v.fail("C01", "job %d started but dependency %d did not finish without error", j, d)
				} else if r.ends[d] > st {
					v.fail("C01", "job %d started (stamp %d) before dependency %d ended (stamp %d)", j, st, d, r.ends[d])
				}
			}
		}
	}
	// C03
	if int(r.maxIn) > sc.N {
		v.fail("C03", "%d bodies in flight with Concurrency=%d", r.maxIn, sc.N)
	}

	cancelled := r.cancelBeg != 0
	cancelledBeforeRet := r.cancelAt != 0 && r.cancelAt < r.retStamp
	anyFailed := false
	for j := 0; j < n; j++ {
		if failedBody(j) {
			anyFailed = true
		}
	}
	// transitive "all dependencies ended ok"
	depsOK := make([]bool, n)
	for j := 0; j < n; j++ {
		depsOK[j] = true
		for _, d := range sc.Deps[j] {
			if !depsOK[d] || !okEnded(d) {
				depsOK[j] = false
			}
		}
	}
	for j := 0; j < n; j++ {
		if len(r.starts[j]) > 0 && !depsOK[j] {
			p := "C07"
			if sc.Coe {
				p = "C08"
			}
			v.fail(p, "job %d ran although a transitive dependency failed or did not run", j)
			// an End hook of a Parallel is exactly such a job: it depends on every element job
			v.fail("C10", "job %d ran although a transitive dependency failed or did not run", j)
		}
	}
	errs := multierr.Errors(r.ret)
	if !sc.Coe {
		// C07
		if r.ret == nil {
			for j := 0; j < n; j++ {
				if len(r.starts[j]) != 1 || !okEnded(j) {
					v.fail("C07", "Wait returned nil but job %d ran %d times / ended ok=%v", j, len(r.starts[j]), okEnded(j))
				}
			}
			if r.cancelAt != 0 && r.cancelAt < r.enqStampMax() {
				// cancel() had returned before Wait was even called
				v.fail("C07", "Wait returned nil although the context was cancelled before Wait was called")
			}
		} else {
			ok := false
			cls := classOf(r.ret)
			switch {
			case cls == "ctx":
				ok = cancelled
			case cls == "exit":
				for j := 0; j < n; j++ {
					if r.ends[j] != 0 && (sc.Out[j] == oGoexit || sc.Out[j] == oCancelGoexit) {
						ok = true
					}
				}
			case strings.HasPrefix(cls, "fail:"):
				for j := 0; j < n; j++ {
					if isHerr(r.ret, j) && r.ends[j] != 0 && (sc.Out[j] == oFail || sc.Out[j] == oCancelFail || sc.Out[j] == oFailCtx) {
						ok = true
					}
				}
			}
			if len(errs) != 1 {
				ok = false
			}
			if !ok {
				v.fail("C07", "Wait returned %q which is not the error of a job that failed, nor the context's", cls)
			}
		}
		if anyFailed && r.ret == nil {
			v.fail("C07", "a job failed but Wait returned nil")
		}
	} else {
		// C08: error entries = one per failed body + ctx entries only for skipped jobs
		want := map[string]int{}
		for j := 0; j < n; j++ {
			if r.ends[j] == 0 {
				continue
			}
			switch sc.Out[j] {
			case oFail, oCancelFail, oFailCtx:
				want[fmt.Sprintf("fail:%d", j)]++
			case oGoexit, oCancelGoexit:
				want["exit"]++
			}
		}
		got := map[string]int{}
		ctxEntries := 0
		for _, e := range errs {
			c := classOf(e)
			if c == "ctx" {
				ctxEntries++
				continue
			}
			got[c]++
		}
		retCtxArm := len(errs) == 1 && ctxEntries == 1 && cancelled
		if !retCtxArm {
			for k, w := range want {
				if got[k] != w {
					v.fail("C08", "error has %d entries %q, want %d", got[k], k, w)
				}
			}
			for k, g := range got {
				if want[k] == 0 {
					v.fail("C08", "error has %d unexpected entries %q", g, k)
				}
			}
			notRun := 0
			for j := 0; j < n; j++ {
				if len(r.starts[j]) == 0 {
					notRun++
				}
			}
			if ctxEntries > 0 && !cancelled {
				v.fail("C08", "context error entries without cancellation")
			}
			if ctxEntries > notRun+1 {
				v.fail("C08", "%d context entries but only %d jobs never started", ctxEntries, notRun)
			}
			// everything runnable ran exactly once (unless cancelled)
			if !cancelled {
				for j := 0; j < n; j++ {
					if depsOK[j] && len(r.starts[j]) != 1 {
						v.fail("C08", "job %d has all dependencies ok but ran %d times", j, len(r.starts[j]))
					}
				}
			}
		}
	}
	// C09: structural cases
	if r.cancelAt != 0 {
		for j := 0; j < n; j++ {
			if len(r.starts[j]) == 0 {
				continue
			}
			st := r.starts[j][0]
			// (a) depends on the job that cancelled
			for _, d := range sc.Deps[j] {
				if (sc.Out[d] == oCancelOK || sc.Out[d] == oCancelFail || sc.Out[d] == oCancelGoexit) && r.ends[d] != 0 {
					v.fail("C09", "job %d started although its dependency %d cancelled the context", j, d)
				}
			}
			// (b) submitted after cancel() returned
			if r.enqStamp[j] > r.cancelAt && st > r.cancelAt {
				v.fail("C09", "job %d was submitted after cancellation and still started", j)
			}
		}
		if cancelledBeforeRet {
			some := false
			for j := 0; j < n; j++ {
				if len(r.starts[j]) == 0 {
					some = true
				}
			}
			if some && r.ret == nil {
				v.fail("C09", "context cancelled, a job never started, but Wait returned nil")
			}
		}
	}
	// C09 promptness: with the context done, Wait must not wait for a job that is still running
	if sc.Block >= 0 && r.blockStarted && r.cancelBeg != 0 && !r.retBeforeRelease {
		v.fail("C09", "Wait did not return within 3s of the cancellation while job %d was still running", sc.Block)
	}
	// C19
	for i, rp := range r.reports {
		st := rp.st
		x := st.Pending - st.Ready - st.Waiting
		bad := ""
		switch {
		case st.Pending < 0 || st.Ready < 0 || st.Waiting < 0 || st.IdleWorkers < 0:
			bad = "negative field"
		case x < 0 || x > sc.N:
			bad = fmt.Sprintf("executing=%d outside 0..%d", x, sc.N)
		case st.IdleWorkers != sc.N-x:
			bad = fmt.Sprintf("idle=%d != N-executing=%d", st.IdleWorkers, sc.N-x)
		case st.Concurrency != sc.N:
			bad = "concurrency"
		case int64(st.Pending) > rp.submitted:
			bad = fmt.Sprintf("pending=%d > submitted=%d", st.Pending, rp.submitted)
		case int64(st.Waiting) > rp.submittedDeps:
			bad = fmt.Sprintf("waiting=%d > submitted-with-deps=%d", st.Waiting, rp.submittedDeps)
		}
		if bad != "" {
			v.fail("C19", "report %d %+v: %s", i, st, bad)
			break
		}
	}
	if r.afterRet > 0 {
		v.fail("C19", "%d reports after Wait returned from normal completion", r.afterRet)
	}
	return v
}

func (r *result) enqStampMax() int64 {
	var m int64
	for _, s := range r.enqStamp {
		if s > m {
			m = s
		}
	}
	return m
}

// ---------------------------------------------------------------- generation

func allDAGs(n int) [][][]int {
	// deps[j] ⊆ {0..j-1}
	if n == 0 {
		return [][][]int{{}}
	}
	prev := allDAGs(n - 1)
	var out [][][]int
	for _, p := range prev {
		for mask := 0; mask < 1<<(n-1); mask++ {
			var d []int
			for b := 0; b < n-1; b++ {
				if mask&(1<<b) != 0 {
					d = append(d, b)
				}
			}
			g := append(append([][]int{}, p...), d)
			out = append(out, g)
		}
	}
	return out
}

func genExhaustive(maxJobs int, ns []int, rng *rand.Rand, perturb int) []*scenario {
	var out []*scenario
	for n := 1; n <= maxJobs; n++ {
		for _, g := range allDAGs(n) {
			for om := 0; om < 1<<n; om++ {
				outs := make([]outcome, n)
				for j := 0; j < n; j++ {
					if om&(1<<j) != 0 {
						outs[j] = oFail
					}
				}
				for _, N := range ns {
					for _, coe := range []bool{false, true} {
						for _, late := range []bool{false, true} {
							if late && n < 2 {
								continue
							}
							out = append(out, &scenario{N: N, Coe: coe, Deps: g, Out: outs, Late: late, ExtCancel: -1, Block: -1,
								Perturb: perturb, Seed: rng.Int63(), Spin: rng.Intn(3)})
						}
					}
				}
			}
		}
	}
	return out
}

func genRandom(count, maxJobs, maxN int, rng *rand.Rand, perturb int) []*scenario {
	var out []*scenario
	for i := 0; i < count; i++ {
		n := 1 + rng.Intn(maxJobs)
		deps := make([][]int, n)
		fan := 1 + rng.Intn(6)
		for j := 1; j < n; j++ {
			k := 0
			switch rng.Intn(4) {
			case 0:
				k = 0
			case 1:
				k = 1
			default:
				k = rng.Intn(fan + 1)
			}
			for x := 0; x < k; x++ {
				deps[j] = append(deps[j], rng.Intn(j)) // duplicates possible
			}
		}
		outs := make([]outcome, n)
		pf := rng.Intn(4) // failure density
		for j := range outs {
			if rng.Intn(10) < pf {
				switch rng.Intn(10) {
				case 0:
					outs[j] = oGoexit
				case 1:
					outs[j] = oCancelOK
				case 2:
					outs[j] = oCancelFail
				case 3:
					outs[j] = oCancelGoexit
				case 4:
					outs[j] = oFailCtx
				default:
					outs[j] = oFail
				}
			}
		}
		ext := -1
		if rng.Intn(6) == 0 {
			ext = rng.Intn(n + 1)
		}
		N := 1 + rng.Intn(maxN)
		if rng.Intn(3) == 0 {
			N = 1 + rng.Intn(3)
		}
		out = append(out, &scenario{N: N, Coe: rng.Intn(2) == 0, Emit: rng.Intn(3) == 0, Deps: deps, Out: outs,
			Late: rng.Intn(4) == 0, ExtCancel: ext, Block: -1, Perturb: perturb * rng.Intn(2), Seed: rng.Int63(), Spin: rng.Intn(4)})
	}
	return out
}

// leak-prone family: many independent failing jobs, fail-fast, small N.
func genLeakFamily(count int, rng *rand.Rand, perturb int) []*scenario {
	var out []*scenario
	for i := 0; i < count; i++ {
		n := 4 + rng.Intn(40)
		deps := make([][]int, n)
		outs := make([]outcome, n)
		for j := range outs {
			if rng.Intn(3) > 0 {
				outs[j] = oFail
			}
		}
		out = append(out, &scenario{N: 2 + rng.Intn(3), Coe: false, Emit: rng.Intn(2) == 0, Deps: deps, Out: outs, ExtCancel: -1, Block: -1,
			Perturb: perturb, Seed: rng.Int63(), Spin: rng.Intn(2)})
	}
	return out
}

// fan-out leak family: a successful job unblocks k >= N consumers at once while independent
// jobs fail (fail-fast): if the loop ever has more jobs out than cap(donec), a worker is stranded.
func genFanoutLeak(count int, rng *rand.Rand, perturb int) []*scenario {
	var out []*scenario
	for i := 0; i < count; i++ {
		N := 2 + rng.Intn(3)
		k := N + rng.Intn(3)
		nf := 1 + rng.Intn(3)
		n := 1 + nf + k
		deps := make([][]int, n)
		outs := make([]outcome, n)
		for j := 1; j <= nf; j++ {
			outs[j] = oFail
		}
		for j := 1 + nf; j < n; j++ {
			deps[j] = []int{0}
			if rng.Intn(3) == 0 {
				outs[j] = oFail
			}
		}
		out = append(out, &scenario{N: N, Coe: false, Emit: rng.Intn(4) == 0, Deps: deps, Out: outs, ExtCancel: -1, Block: -1,
			Perturb: perturb, Seed: rng.Int63(), Spin: rng.Intn(3)})
	}
	return out
}

// blocker family (C09 promptness): job 0 blocks until Wait has returned; another job (or an
// outside goroutine) cancels the context meanwhile.
func genBlockers(count int, rng *rand.Rand, perturb int) []*scenario {
	var out []*scenario
	for i := 0; i < count; i++ {
		n := 2 + rng.Intn(4)
		deps := make([][]int, n)
		outs := make([]outcome, n)
		ext := -1
		if rng.Intn(2) == 0 {
			outs[1] = []outcome{oCancelOK, oCancelFail}[rng.Intn(2)]
		} else {
			ext = 1 + rng.Intn(n-1)
		}
		for j := 2; j < n; j++ {
			if rng.Intn(3) == 0 {
				deps[j] = []int{1}
			}
			if rng.Intn(4) == 0 {
				outs[j] = oFail
			}
		}
		out = append(out, &scenario{N: 2 + rng.Intn(3), Coe: rng.Intn(2) == 0, Emit: false, Deps: deps, Out: outs,
			ExtCancel: ext, Block: 0, Perturb: perturb * rng.Intn(2), Seed: rng.Int63(), Spin: rng.Intn(2)})
	}
	// A long queue behind a blocked worker: one worker, its only running job blocked, hundreds of
	// independent jobs still to be enqueued when the context is cancelled from outside. The caller's
	// remaining Enqueues and Wait must not wait for the blocked job.
	for i := 0; i < 1+count/40; i++ {
		n := 700 + rng.Intn(600)
		deps := make([][]int, n)
		outs := make([]outcome, n)
		out = append(out, &scenario{N: 1 + i%2, Coe: i%2 == 1, Emit: false, Deps: deps, Out: outs,
			ExtCancel: 1 + rng.Intn(3), Block: 0, Perturb: 0, Seed: rng.Int63(), Spin: 0})
	}
	return out
}

// ---------------------------------------------------------------- capacity (C03)

// capacityCase: phase 1 runs K jobs that leave in assorted ways (each with its OWN context, which
// some of them cancel before leaving); phase 2 enqueues N jobs that meet at a barrier: all N must
// be in flight at once. Also checks that the number of scheduler goroutines stays bounded by a
// function of N while many jobs are queued.
type capacityCase struct {
	Idx   int
	N     int // 0 = default
	Kills []string
	Extra int // extra independent quick jobs enqueued before the barrier jobs
}

func runCapacity(cc *capacityCase) (fails []string, info string) {
	n := cc.N
	cfg := scheduler.Config{Concurrency: cc.N, ContinueOnError: true}
	if n == 0 {
		n = runtime.GOMAXPROCS(0)
		if n < 4 {
			n = 4
		}
	}
	baseNG := runtime.NumGoroutine()
	sched := cfg.New()
	bg := context.Background()
	var wg1 sync.WaitGroup
	for _, how := range cc.Kills {
		how := how
		ctx, cancel := context.WithCancel(bg)
		wg1.Add(1)
		sched.Enqueue(ctx, scheduler.Job{Run: func(context.Context) error {
			defer wg1.Done()
			switch how {
			case "ok":
				cancel()
				return nil
			case "fail":
				cancel()
				return &herr{id: 0}
			case "goexit":
				defer cancel()
				runtime.Goexit()
			case "cancelgoexit":
				cancel()
				runtime.Goexit()
			case "cancelfail":
				cancel()
				return &herr{id: 0}
			}
			cancel()
			return nil
		}})
	}
	phase1 := make(chan struct{})
	go func() { wg1.Wait(); close(phase1) }()
	select {
	case <-phase1:
	case <-time.After(5 * time.Second):
		atomic.AddInt32(&hangs, 1)
		return []string{fmt.Sprintf("capacity lost: after some of %v left, the remaining jobs were never run within 5s (N=%d)", cc.Kills, n)}, "phase1-timeout"
	}
	var quick int64
	burstG := 0
	for i := 0; i < cc.Extra; i++ {
		sched.Enqueue(bg, scheduler.Job{Run: func(context.Context) error { atomic.AddInt64(&quick, 1); return nil }})
		if i%64 == 63 {
			// cheap (no stack dump: a slow sampler would let the loop catch up); the harness starts no
			// goroutine during a capacity case, so growth over the baseline is the scheduler's
			if g := runtime.NumGoroutine() - baseNG; g > burstG {
				burstG = g
			}
		}
	}
	var arrived int32
	var peak int32
	all := make(chan struct{})
	var once sync.Once
	maxG := 0
	for i := 0; i < n; i++ {
		sched.Enqueue(bg, scheduler.Job{Run: func(context.Context) error {
			// `arrived` counts the bodies in flight right now (it is decremented on return): the barrier opens
			// only when n bodies are in flight at the same time, and `peak` is the largest number ever in flight
			a := atomic.AddInt32(&arrived, 1)
			defer atomic.AddInt32(&arrived, -1)
			for {
				p := atomic.LoadInt32(&peak)
				if a <= p || atomic.CompareAndSwapInt32(&peak, p, a) {
					break
				}
			}
			if int(a) == n {
				once.Do(func() { close(all) })
			}
			select {
			case <-all:
			case <-time.After(2 * time.Second):
			}
			return nil
		}})
		if g := countSchedGoroutines(); g > maxG {
			maxG = g
		}
	}
	done := make(chan error, 1)
	go func() { done <- sched.Wait(bg) }()
	select {
	case <-done:
	case <-time.After(15 * time.Second):
		fails = append(fails, fmt.Sprintf("Wait did not return within 15s after %v (N=%d)", cc.Kills, n))
		atomic.AddInt32(&hangs, 1)
		once.Do(func() { close(all) })
	}
	if int(atomic.LoadInt32(&peak)) < n {
		fails = append(fails, fmt.Sprintf("capacity lost: only %d of %d simultaneously runnable jobs ran concurrently after jobs left via %v", peak, n, cc.Kills))
	}
	if int(atomic.LoadInt32(&peak)) > n {
		fails = append(fails, fmt.Sprintf("%d bodies in flight with Concurrency=%d", peak, n))
	}
	if burstG > n+4 {
		fails = append(fails, fmt.Sprintf("%d goroutines started by the scheduler were alive during a burst of %d Enqueue calls (Concurrency=%d): the number grows with the work submitted", burstG, cc.Extra, n))
	}
	return fails, fmt.Sprintf("N=%d kills=%d extra=%d peak=%d maxSchedGoroutines=%d", n, len(cc.Kills), cc.Extra, peak, maxG)
}

func genCapacity(count int, rng *rand.Rand) []*capacityCase {
	kinds := []string{"ok", "fail", "goexit", "cancelgoexit", "cancelfail"}
	var out []*capacityCase
	for i := 0; i < count; i++ {
		n := []int{1, 2, 3, 4, 8, 0}[rng.Intn(6)]
		nn := n
		if nn == 0 {
			nn = 4
		}
		k := rng.Intn(3*nn + 1)
		kills := make([]string, k)
		mode := rng.Intn(len(kinds) + 1)
		for j := range kills {
			if mode < len(kinds) {
				kills[j] = kinds[mode]
			} else {
				kills[j] = kinds[rng.Intn(len(kinds))]
			}
		}
		out = append(out, &capacityCase{Idx: i, N: n, Kills: kills, Extra: []int{0, 10, 1000}[rng.Intn(3)]})
	}
	return out
}

// ---------------------------------------------------------------- per-job contexts (C08, C01)

// ownCtxCase: ContinueOnError with a context per job (the public scheduler API takes one per Enqueue):
// some jobs are given an already-cancelled context, some cancel their own context and then fail, some
// fail plainly. Wait's context stays live. Expected, whatever the schedule: a job with a cancelled
// context is not run and contributes its context's error; a job below a failed or skipped job is not
// run and contributes nothing; every other job runs exactly once; failing ones contribute their error.
type ownCtxCase struct {
	Idx  int
	N    int
	Deps [][]int
	Kind []string // ok | fail | cancelfail | pre (context cancelled before Enqueue)
}

func genOwnCtx(count int, rng *rand.Rand) []*ownCtxCase {
	var out []*ownCtxCase
	for i := 0; i < count; i++ {
		n := 2 + rng.Intn(7)
		c := &ownCtxCase{Idx: 100000 + i, N: []int{1, 2, 3, 4}[rng.Intn(4)]}
		for j := 0; j < n; j++ {
			var d []int
			if j > 0 && rng.Intn(100) < 45 {
				for k := 0; k < 1+rng.Intn(2); k++ {
					d = append(d, rng.Intn(j))
				}
			}
			c.Deps = append(c.Deps, d)
			kind := "ok"
			switch r := rng.Intn(100); {
			case r < 18:
				kind = "pre"
			case r < 30:
				kind = "fail"
			case r < 42:
				kind = "cancelfail"
			}
			c.Kind = append(c.Kind, kind)
		}
		out = append(out, c)
	}
	return out
}

func runOwnCtx(c *ownCtxCase) (fails []string, info string, trace []string) {
	n := len(c.Deps)
	rec := &scheduler.VerifRecorder{}
	defer func() { trace = rec.Snapshot() }()
	sched := (scheduler.Config{Concurrency: c.N, ContinueOnError: true, Verif: rec}).New()
	bg := context.Background()
	runs := make([]int32, n)
	hs := make([]*scheduler.ScheduledJob, n)
	release := make(chan struct{})
	for j := 0; j < n; j++ {
		j := j
		ctx, cancelCause := context.WithCancelCause(bg)
		cancelCtx := func() { cancelCause(errCancelCause) }
		cancel := func() {
			// the job's own context: marked in the trace with the job's id
			rec.Add(fmt.Sprintf("X cancel-begin j%d", j))
			cancelCtx()
			rec.Add(fmt.Sprintf("X cancel-end j%d", j))
		}
		if c.Kind[j] == "pre" {
			cancel()
		}
		var deps []*scheduler.ScheduledJob
		for _, d := range c.Deps[j] {
			deps = append(deps, hs[d])
		}
		hs[j] = sched.Enqueue(ctx, scheduler.Job{Dependencies: deps, Run: func(context.Context) error {
			atomic.AddInt32(&runs[j], 1)
			if j == 0 {
				// keep work outstanding while the first results are processed
				select {
				case <-release:
				case <-time.After(20 * time.Millisecond):
				}
			}
			switch c.Kind[j] {
			case "fail":
				cancel()
				return &herr{id: j}
			case "cancelfail":
				cancel()
				return &herr{id: j}
			}
			cancel()
			return nil
		}})
	}
	done := make(chan error, 1)
	go func() { done <- sched.Wait(bg) }()
	var err error
	select {
	case err = <-done:
	case <-time.After(10 * time.Second):
		atomic.AddInt32(&hangs, 1)
		close(release)
		return []string{fmt.Sprintf("per-job contexts: Wait did not return within 10s (kinds %v deps %v N=%d)", c.Kind, c.Deps, c.N)}, "timeout", nil
	}
	close(release)
	// expected statuses by evaluation in enqueue order
	status := make([]string, n) // run-ok run-fail ctx invalid
	wantIDs := map[int]int{}
	wantCtx := 0
	for j := 0; j < n; j++ {
		switch {
		case c.Kind[j] == "pre":
			status[j] = "ctx"
			wantCtx++
		default:
			bad := false
			for _, d := range c.Deps[j] {
				if status[d] != "run-ok" {
					bad = true
				}
			}
			if bad {
				status[j] = "invalid"
			} else if c.Kind[j] == "ok" {
				status[j] = "run-ok"
			} else {
				status[j] = "run-fail"
				wantIDs[j]++
			}
		}
	}
	for j := 0; j < n; j++ {
		r := int(atomic.LoadInt32(&runs[j]))
		want := 0
		if strings.HasPrefix(status[j], "run") {
			want = 1
		}
		if r != want {
			fails = append(fails, fmt.Sprintf("job %d (%s, status %s) ran %d times, want %d", j, c.Kind[j], status[j], r, want))
		}
	}
	gotIDs := map[int]int{}
	gotCtx, other := 0, 0
	for _, e := range multierr.Errors(err) {
		var h *herr
		switch {
		case errors.As(e, &h):
			gotIDs[h.id]++
		case errors.Is(e, context.Canceled):
			gotCtx++
		default:
			other++
		}
	}
	if gotCtx != wantCtx || other != 0 || fmt.Sprint(gotIDs) != fmt.Sprint(wantIDs) {
		fails = append(fails, fmt.Sprintf("error entries: job errors %v ctx %d other %d, want job errors %v ctx %d", gotIDs, gotCtx, other, wantIDs, wantCtx))
	}
	if len(fails) > 0 {
		fails = append(fails, fmt.Sprintf("(kinds %v deps %v N=%d)", c.Kind, c.Deps, c.N))
	}
	return fails, fmt.Sprintf("ownctx N=%d jobs=%d pre=%d", c.N, n, wantCtx), nil
}

// ---------------------------------------------------------------- very large fan-in (C01)

// runBigFan: one job depending on `fan` jobs (more than 2^16) that are all still unfinished when it
// is enqueued — the shape cff.Slice + cff.SliceEnd produces for a large slice. The dependent must
// start exactly once, after every dependency has ended.
func runBigFan(fan, n int) (fails []string) {
	sched := (scheduler.Config{Concurrency: n}).New()
	bg := context.Background()
	release := make(chan struct{})
	var once sync.Once
	var ended int64
	var starts int32
	var seenAtStart int64 = -1
	enqueued := make(chan struct{})
	go func() {
		deps := make([]*scheduler.ScheduledJob, fan)
		for i := 0; i < fan; i++ {
			deps[i] = sched.Enqueue(bg, scheduler.Job{Run: func(context.Context) error {
				<-release
				atomic.AddInt64(&ended, 1)
				return nil
			}})
		}
		sched.Enqueue(bg, scheduler.Job{Dependencies: deps, Run: func(context.Context) error {
			if atomic.AddInt32(&starts, 1) == 1 {
				atomic.StoreInt64(&seenAtStart, atomic.LoadInt64(&ended))
			}
			return nil
		}})
		close(enqueued)
	}()
	paced := true
	select {
	case <-enqueued:
		time.Sleep(20 * time.Millisecond) // let the loop register the dependent while its dependencies are unfinished
	case <-time.After(20 * time.Second):
		// Enqueue is waiting for running jobs (it does not on the unchanged scheduler): let them go
		paced = false
	}
	once.Do(func() { close(release) })
	select {
	case <-enqueued:
	case <-time.After(60 * time.Second):
		atomic.AddInt32(&hangs, 1)
		return []string{fmt.Sprintf("fan-in %d: Enqueue did not return within 60s although every job body had been released", fan)}
	}
	done := make(chan error, 1)
	go func() { done <- sched.Wait(bg) }()
	select {
	case err := <-done:
		if err != nil {
			fails = append(fails, fmt.Sprintf("fan-in %d: Wait returned %v", fan, err))
		}
	case <-time.After(60 * time.Second):
		atomic.AddInt32(&hangs, 1)
		return []string{fmt.Sprintf("fan-in %d: Wait did not return within 60s", fan)}
	}
	if st := atomic.LoadInt32(&starts); st != 1 {
		fails = append(fails, fmt.Sprintf("fan-in %d: the dependent job started %d times", fan, st))
	}
	if seen := atomic.LoadInt64(&seenAtStart); seen != int64(fan) {
		fails = append(fails, fmt.Sprintf("fan-in %d: the dependent job started when only %d of its dependencies had ended (paced=%v)", fan, seen, paced))
	}
	return fails
}

// ---------------------------------------------------------------- slow state emitter (C05)

type slowEmitter struct {
	d time.Duration
	n int64
}

func (e *slowEmitter) Emit(scheduler.State) {
	atomic.AddInt64(&e.n, 1)
	time.Sleep(e.d)
}

// runSlowEmitter: an Emitter whose Emit takes longer than the flush period. Reporting may delay the
// scheduler but must not keep it from making progress: every Enqueue and Wait must return.
func runSlowEmitter(n, jobs int, period, emitTakes time.Duration, coe bool) (fails []string) {
	em := &slowEmitter{d: emitTakes}
	sched := (scheduler.Config{Concurrency: n, Emitter: em, StateFlushFrequency: period, ContinueOnError: coe}).New()
	bg := context.Background()
	stage := int32(0)
	done := make(chan error, 1)
	var ran int32
	go func() {
		var prev *scheduler.ScheduledJob
		for i := 0; i < jobs; i++ {
			atomic.StoreInt32(&stage, int32(i+1))
			var deps []*scheduler.ScheduledJob
			if prev != nil && i%2 == 1 {
				deps = []*scheduler.ScheduledJob{prev}
			}
			prev = sched.Enqueue(bg, scheduler.Job{Dependencies: deps, Run: func(context.Context) error {
				atomic.AddInt32(&ran, 1)
				time.Sleep(2 * period)
				return nil
			}})
		}
		atomic.StoreInt32(&stage, -1)
		done <- sched.Wait(bg)
	}()
	budget := 10*time.Second + time.Duration(jobs)*(emitTakes+4*period)*8
	select {
	case err := <-done:
		if err != nil {
			fails = append(fails, fmt.Sprintf("slow emitter: Wait returned %v", err))
		}
		if int(atomic.LoadInt32(&ran)) != jobs {
			fails = append(fails, fmt.Sprintf("slow emitter: %d of %d jobs ran", ran, jobs))
		}
	case <-time.After(budget):
		atomic.AddInt32(&hangs, 1)
		st := atomic.LoadInt32(&stage)
		where := "Wait"
		if st > 0 {
			where = fmt.Sprintf("Enqueue %d", st)
		}
		fails = append(fails, fmt.Sprintf("slow emitter (period %v, Emit takes %v, N=%d): the caller is still in %s after %v; %d of %d jobs ran, %d reports emitted",
			period, emitTakes, n, where, budget, atomic.LoadInt32(&ran), jobs, atomic.LoadInt64(&em.n)))
	}
	return fails
}

// exitEmitter exits its goroutine (runtime.Goexit, as t.FailNow does in a test emitter) at its k-th call.
type exitEmitter struct {
	n, k int64
}

func (e *exitEmitter) Emit(scheduler.State) {
	if atomic.AddInt64(&e.n, 1) == e.k {
		runtime.Goexit()
	}
}

// runExitingEmitter: the state emitter is user code on the loop goroutine; when it exits that goroutine
// the caller must still get out of Enqueue and Wait (C05), and the scheduler's goroutines must terminate
// afterwards (C06, checked by the caller of this function).  Nothing is claimed about what Wait returns.
func runExitingEmitter(n, jobs int, k int64, coe bool) (fails []string) {
	em := &exitEmitter{k: k}
	sched := scheduler.Config{Concurrency: n, ContinueOnError: coe, Emitter: em, StateFlushFrequency: time.Millisecond}.New()
	bg := context.Background()
	done := make(chan struct{})
	var stage int32
	go func() {
		defer close(done)
		var prev *scheduler.ScheduledJob
		for i := 0; i < jobs; i++ {
			atomic.StoreInt32(&stage, int32(i+1))
			var deps []*scheduler.ScheduledJob
			if prev != nil && i%2 == 1 {
				deps = []*scheduler.ScheduledJob{prev}
			}
			prev = sched.Enqueue(bg, scheduler.Job{Dependencies: deps, Run: func(context.Context) error {
				time.Sleep(3 * time.Millisecond)
				return nil
			}})
		}
		atomic.StoreInt32(&stage, -1)
		_ = sched.Wait(bg)
	}()
	select {
	case <-done:
	case <-time.After(10 * time.Second):
		atomic.AddInt32(&hangs, 1)
		where := "Wait"
		if st := atomic.LoadInt32(&stage); st > 0 {
			where = fmt.Sprintf("Enqueue %d", st)
		}
		fails = append(fails, fmt.Sprintf("the emitter exited the loop goroutine at its call %d (N=%d, coe=%v, %d jobs): the caller is still in %s after 10s", k, n, coe, jobs, where))
	}
	return fails
}

// runNested: every job of an outer scheduler runs a scheduler of its own (a flow inside a task) and waits
// for it.  Schedulers are independent of each other: whatever the number of outer jobs running at once,
// every inner Wait and then the outer Wait return (C05).
func runNested(outerN, outerJobs int) (fails []string) {
	outer := scheduler.Config{Concurrency: outerN}.New()
	bg := context.Background()
	var innerDone int32
	done := make(chan error, 1)
	// the outer jobs meet at a barrier first, so that as many of them as the outer limit allows are in
	// flight at the same time when the inner schedulers are created
	want := int32(outerN)
	if outerJobs < outerN {
		want = int32(outerJobs)
	}
	var arrived int32
	all := make(chan struct{})
	var once sync.Once
	go func() {
		for i := 0; i < outerJobs; i++ {
			outer.Enqueue(bg, scheduler.Job{Run: func(ctx context.Context) error {
				if atomic.AddInt32(&arrived, 1) >= want {
					once.Do(func() { close(all) })
				}
				select {
				case <-all:
				case <-time.After(2 * time.Second):
				}
				inner := scheduler.Config{Concurrency: 2}.New()
				a := inner.Enqueue(ctx, scheduler.Job{Run: func(context.Context) error { return nil }})
				inner.Enqueue(ctx, scheduler.Job{Dependencies: []*scheduler.ScheduledJob{a}, Run: func(context.Context) error { return nil }})
				err := inner.Wait(ctx)
				atomic.AddInt32(&innerDone, 1)
				return err
			}})
		}
		done <- outer.Wait(bg)
	}()
	select {
	case err := <-done:
		if err != nil {
			fails = append(fails, fmt.Sprintf("nested schedulers: outer Wait returned %v", err))
		}
	case <-time.After(15 * time.Second):
		atomic.AddInt32(&hangs, 1)
		fails = append(fails, fmt.Sprintf("nested schedulers (%d outer jobs, outer Concurrency %d): the outer Wait did not return within 15s; %d inner schedulers finished", outerJobs, outerN, atomic.LoadInt32(&innerDone)))
	}
	return fails
}

// runBigPoolFailFast: a pool larger than any plausible constant (n workers), every worker busy, one job
// fails (fail-fast), the others return only after Wait has returned: every worker must still be able to
// post its result and terminate (C06, checked by the caller).
func runBigPoolFailFast(n int) (fails []string) {
	sched := scheduler.Config{Concurrency: n}.New()
	bg := context.Background()
	var inflight int32
	release := make(chan struct{})
	allIn := make(chan struct{})
	var once sync.Once
	done := make(chan error, 1)
	go func() {
		for i := 0; i < n; i++ {
			i := i
			sched.Enqueue(bg, scheduler.Job{Run: func(context.Context) error {
				if int(atomic.AddInt32(&inflight, 1)) == n {
					once.Do(func() { close(allIn) })
				}
				select {
				case <-allIn:
				case <-time.After(3 * time.Second):
				}
				if i == 0 {
					return &herr{id: 0}
				}
				<-release
				return nil
			}})
		}
		done <- sched.Wait(bg)
	}()
	select {
	case <-done:
	case <-time.After(15 * time.Second):
		atomic.AddInt32(&hangs, 1)
		fails = append(fails, fmt.Sprintf("big pool (N=%d): Wait did not return within 15s after the first failure", n))
	}
	close(release)
	return fails
}

// lateEmitter counts the reports that START after Wait has returned.
type lateEmitter struct {
	returned int32
	late     int32
	total    int32
}

func (e *lateEmitter) Emit(scheduler.State) {
	atomic.AddInt32(&e.total, 1)
	if atomic.LoadInt32(&e.returned) == 1 {
		atomic.AddInt32(&e.late, 1)
	}
}

// runReportsStop: a scheduler with a state emitter (1ns flush) and `jobs` trivial jobs — also zero; after
// Wait has returned normally no further report may start (C19).
func runReportsStop(n, jobs int) (fails []string) {
	em := &lateEmitter{}
	sched := scheduler.Config{Concurrency: n, Emitter: em, StateFlushFrequency: time.Nanosecond}.New()
	bg := context.Background()
	for i := 0; i < jobs; i++ {
		sched.Enqueue(bg, scheduler.Job{Run: func(context.Context) error { return nil }})
	}
	// let the loop run on its ticker for a moment: reports are then continuously due when Wait is called
	time.Sleep(500 * time.Microsecond)
	if err := sched.Wait(bg); err != nil {
		fails = append(fails, fmt.Sprintf("reports-stop: Wait returned %v", err))
	}
	atomic.StoreInt32(&em.returned, 1)
	time.Sleep(5 * time.Millisecond)
	if l := atomic.LoadInt32(&em.late); l > 0 {
		fails = append(fails, fmt.Sprintf("%d state report(s) started after Wait had returned normally (N=%d, %d jobs, %d reports in all)", l, n, jobs, atomic.LoadInt32(&em.total)))
	}
	return fails
}

// runDeadlineCtx: contexts that carry a deadline (context.WithTimeout) which expires while task functions
// that ignore their context are still running; the functions return later.  Wait must return (C05) and,
// once the functions have returned, no goroutine started by the scheduler may remain (C06, checked by the
// caller).  shared: one deadline context for every Enqueue and for Wait (what generated code does);
// otherwise one per job and a live context for Wait.
func runDeadlineCtx(n, jobs int, coe, shared bool) (fails []string) {
	sched := scheduler.Config{Concurrency: n, ContinueOnError: coe}.New()
	bg := context.Background()
	var cancels []context.CancelFunc
	defer func() {
		for _, c := range cancels {
			c()
		}
	}()
	mk := func() context.Context {
		ctx, cancel := context.WithTimeout(bg, 5*time.Millisecond)
		cancels = append(cancels, cancel)
		return ctx
	}
	waitCtx := bg
	var sharedCtx context.Context
	if shared {
		sharedCtx = mk()
		waitCtx = sharedCtx
	}
	var running int32
	done := make(chan struct{})
	go func() {
		defer close(done)
		for i := 0; i < jobs; i++ {
			ctx := sharedCtx
			if !shared {
				ctx = mk()
			}
			sched.Enqueue(ctx, scheduler.Job{Run: func(context.Context) error {
				atomic.AddInt32(&running, 1)
				defer atomic.AddInt32(&running, -1)
				time.Sleep(25 * time.Millisecond) // outlasts the deadline, ignores the context
				return nil
			}})
		}
		_ = sched.Wait(waitCtx)
	}()
	select {
	case <-done:
	case <-time.After(10 * time.Second):
		atomic.AddInt32(&hangs, 1)
		fails = append(fails, fmt.Sprintf("deadline contexts (N=%d, coe=%v, shared=%v): Wait did not return within 10s", n, coe, shared))
	}
	// the functions that had been started have returned (a function that starts later still counts)
	for i := 0; i < 400 && atomic.LoadInt32(&running) > 0; i++ {
		time.Sleep(5 * time.Millisecond)
	}
	return fails
}

// ---------------------------------------------------------------- main

func parseScenario(lines []string) (*scenario, error) {
	sc := &scenario{ExtCancel: -1, Block: -1}
	var jobs int
	var coe, emit, late int
	sc.Block = -1
	if _, err := fmt.Sscanf(lines[0], "scn %d N=%d coe=%d emit=%d late=%d extcancel=%d perturb=%d seed=%d spin=%d jobs=%d block=%d",
		&sc.Idx, &sc.N, &coe, &emit, &late, &sc.ExtCancel, &sc.Perturb, &sc.Seed, &sc.Spin, &jobs, &sc.Block); err != nil {
		sc.Block = -1
		if _, err := fmt.Sscanf(lines[0], "scn %d N=%d coe=%d emit=%d late=%d extcancel=%d perturb=%d seed=%d spin=%d jobs=%d",
			&sc.Idx, &sc.N, &coe, &emit, &late, &sc.ExtCancel, &sc.Perturb, &sc.Seed, &sc.Spin, &jobs); err != nil {
			return nil, err
		}
	}
	sc.Coe, sc.Emit, sc.Late = coe == 1, emit == 1, late == 1
	for _, l := range lines[1:] {
		f := strings.Fields(l)
		if len(f) < 3 || f[0] != "job" {
			continue
		}
		var o outcome
		for k := oOK; k <= oFailCtx; k++ {
			if k.String() == f[2] {
				o = k
			}
		}
		var d []int
		for _, x := range f[3:] {
			var y int
			fmt.Sscanf(x, "%d", &y)
			d = append(d, y)
		}
		sc.Out = append(sc.Out, o)
		sc.Deps = append(sc.Deps, d)
	}
	if len(sc.Deps) != jobs {
		return nil, fmt.Errorf("scenario has %d job lines, header says %d", len(sc.Deps), jobs)
	}
	return sc, nil
}

func main() {
	var (
		seed     = flag.Int64("seed", 1, "PRNG seed")
		exh      = flag.Int("exhaustive", 3, "all DAGs up to this many jobs (0 = none)")
		random   = flag.Int("random", 1000, "number of random scenarios")
		maxJobs  = flag.Int("maxjobs", 14, "max jobs in random scenarios")
		maxN     = flag.Int("maxn", 8, "max Concurrency in random scenarios")
		leakFam  = flag.Int("leakfam", 200, "number of leak-prone scenarios")
		blockers = flag.Int("blockers", 60, "number of blocked-job cancellation scenarios (C09 promptness)")
		capacity = flag.Int("capacity", 40, "number of capacity cases (C03)")
		perturb  = flag.Int("perturb", 30, "perturbation percent at hook sites")
		par      = flag.Int("par", 8, "scenarios run concurrently")
		batch    = flag.Int("batch", 400, "scenarios per leak-check batch")
		outPath  = flag.String("out", "-", "output file")
		replay   = flag.String("replay", "", "replay the scenario(s) in this file (scn/job lines)")
		repeat   = flag.Int("repeat", 1, "with -replay: run each scenario this many times")
	)
	flag.Parse()
	rng := rand.New(rand.NewSource(*seed))

	var scs []*scenario
	if *replay != "" {
		data, err := os.ReadFile(*replay)
		if err != nil {
			fmt.Fprintln(os.Stderr, err)
			os.Exit(2)
		}
		var cur []string
		flush := func() {
			if len(cur) > 0 {
				sc, err := parseScenario(cur)
				if err != nil {
					fmt.Fprintln(os.Stderr, err)
					os.Exit(2)
				}
				for i := 0; i < *repeat; i++ {
					c := *sc
					c.Seed += int64(i)
					scs = append(scs, &c)
				}
			}
			cur = nil
		}
		for _, l := range strings.Split(string(data), "\n") {
			if strings.HasPrefix(l, "scn ") {
				flush()
				cur = []string{l}
			} else if strings.HasPrefix(l, "job ") && cur != nil {
				cur = append(cur, l)
			}
		}
		flush()
	} else {
		if *exh > 0 {
			scs = append(scs, genExhaustive(*exh, []int{1, 2, 3}, rng, *perturb)...)
		}
		scs = append(scs, genRandom(*random, *maxJobs, *maxN, rng, *perturb)...)
		scs = append(scs, genLeakFamily(*leakFam, rng, *perturb)...)
		scs = append(scs, genFanoutLeak(*leakFam, rng, *perturb)...)
		scs = append(scs, genBlockers(*blockers, rng, *perturb)...)
	}
	for i, s := range scs {
		s.Idx = i
	}

	var w *bufio.Writer
	if *outPath == "-" {
		w = bufio.NewWriterSize(os.Stdout, 1<<20)
	} else {
		f, err := os.Create(*outPath)
		if err != nil {
			fmt.Fprintln(os.Stderr, err)
			os.Exit(2)
		}
		defer f.Close()
		w = bufio.NewWriterSize(f, 1<<20)
	}
	defer w.Flush()

	distinct := map[string]bool{}
	nontrivial := 0
	stats := map[string]int{}
	base := countSchedGoroutines()

	emitResult := func(r *result, extra verdicts) {
		sc := r.sc
		if r.skipped {
			stats["skipped-after-hangs"]++
			return
		}
		fmt.Fprintln(w, sc.header())
		for j := range sc.Deps {
			fmt.Fprintf(w, "job %d %s", j, sc.Out[j])
			for _, d := range sc.Deps[j] {
				fmt.Fprintf(w, " %d", d)
			}
			fmt.Fprintln(w)
		}
		for _, l := range r.trace {
			fmt.Fprintln(w, "T", l)
		}
		fmt.Fprintf(w, "obs ret %s maxin %d reports %d wall_us %d\n", classList(r.ret), r.maxIn, len(r.reports), r.wallNS/1000)
		v := check(r)
		for p, fs := range extra {
			v[p] = append(v[p], fs...)
		}
		props := []string{"C01", "C03", "C05", "C06", "C07", "C08", "C09", "C19", "C10"}
		for _, p := range props {
			if len(v[p]) == 0 {
				fmt.Fprintf(w, "O %s ok\n", p)
			} else {
				fmt.Fprintf(w, "O %s FAIL %s\n", p, strings.Join(v[p], " ;; "))
				stats["fail."+p]++
			}
		}
		fmt.Fprintln(w, "end")
	}

	// capacity cases (no trace: their jobs use per-job contexts, which the single-context model does not cover)
	if *replay == "" {
		baseG := countSchedGoroutines()
		ownHangs := 0
		orng := rand.New(rand.NewSource(*seed*7919 + 13))
		for _, oc := range genOwnCtx(*capacity, orng) {
			if ownHangs >= 3 {
				stats["skipped-after-hangs"]++
				continue
			}
			fails, info, otrace := runOwnCtx(oc)
			if info == "timeout" {
				ownHangs++
				fmt.Fprintf(w, "cap %d %s capseed=%d capcount=%d\n", oc.Idx, info, *seed, *capacity)
				fmt.Fprintf(w, "O C05 FAIL %s\n", strings.Join(fails, " ;; "))
				stats["fail.C05"]++
				continue
			}
			fmt.Fprintf(w, "cap %d %s capseed=%d capcount=%d\n", oc.Idx, info, *seed, *capacity)
			if len(fails) == 0 {
				fmt.Fprintf(w, "O C08 ok\n")
			} else {
				fmt.Fprintf(w, "O C08 FAIL %s\n", strings.Join(fails, " ;; "))
				stats["fail.C08"]++
			}
			if l, d := waitQuiescent(baseG); l > 0 {
				fmt.Fprintf(w, "O C06 FAIL per-job-context case %d: %d scheduler goroutine(s) never terminate: %s\n", oc.Idx, l, strings.ReplaceAll(d, "\n", " | "))
				stats["fail.C06"]++
				baseG = countSchedGoroutines()
			}
			stats["ownctx"]++
			if len(otrace) > 0 {
				// the same execution as a trace for the replay through the model (per-job contexts:
				// Cfg.ctxOf); the oracle verdicts of this case are the O lines above
				fmt.Fprintf(w, "scn %d N=%d coe=1 emit=0 late=0 extcancel=-1 perturb=0 seed=0 spin=0 jobs=%d block=-1\n", oc.Idx, oc.N, len(oc.Deps))
				for j, d := range oc.Deps {
					k := "ok"
					if oc.Kind[j] == "fail" || oc.Kind[j] == "cancelfail" {
						k = "fail"
					}
					fmt.Fprintf(w, "job %d %s", j, k)
					for _, x := range d {
						fmt.Fprintf(w, " %d", x)
					}
					fmt.Fprintln(w)
				}
				for _, l := range otrace {
					fmt.Fprintln(w, "T", l)
				}
				fmt.Fprintln(w, "end")
			}
		}
		if *capacity > 0 {
			type se struct {
				n, jobs       int
				period, takes time.Duration
				coe           bool
			}
			cases := []se{{2, 5, time.Millisecond, 3 * time.Millisecond, false}, {1, 4, 2 * time.Millisecond, 2 * time.Millisecond, true}}
			if *capacity > 100 {
				cases = append(cases, se{4, 12, time.Millisecond, 5 * time.Millisecond, true}, se{3, 6, 100 * time.Millisecond, 150 * time.Millisecond, false})
			}
			for i, c := range cases {
				fails := runSlowEmitter(c.n, c.jobs, c.period, c.takes, c.coe)
				fmt.Fprintf(w, "cap %d slowemitter N=%d jobs=%d capseed=%d capcount=%d\n", 300000+i, c.n, c.jobs, *seed, *capacity)
				if len(fails) == 0 {
					fmt.Fprintf(w, "O C05 ok\n")
				} else {
					fmt.Fprintf(w, "O C05 FAIL %s\n", strings.Join(fails, " ;; "))
					stats["fail.C05"]++
				}
				stats["slowemitter"]++
			}
			// an emitter that exits the loop goroutine (the emitter is user code, too)
			for i, c := range []struct {
				n, jobs int
				k       int64
				coe     bool
			}{{2, 12, 2, false}, {1, 8, 1, true}, {3, 20, 5, true}} {
				if atomic.LoadInt32(&hangs) >= 3 {
					break
				}
				fails := runExitingEmitter(c.n, c.jobs, c.k, c.coe)
				fmt.Fprintf(w, "cap %d exitemitter N=%d jobs=%d k=%d capseed=%d capcount=%d\n", 400000+i, c.n, c.jobs, c.k, *seed, *capacity)
				if len(fails) == 0 {
					fmt.Fprintf(w, "O C05 ok\n")
				} else {
					fmt.Fprintf(w, "O C05 FAIL %s\n", strings.Join(fails, " ;; "))
					stats["fail.C05"]++
				}
				if l, d := waitQuiescent(baseG); l > 0 {
					fmt.Fprintf(w, "O C06 FAIL exiting emitter case %d: %d scheduler goroutine(s) never terminate: %s\n", 400000+i, l, strings.ReplaceAll(d, "\n", " | "))
					stats["fail.C06"]++
					baseG = countSchedGoroutines()
				}
				stats["exitemitter"]++
			}
			// a pool of 100 workers, all busy, one failure
			if atomic.LoadInt32(&hangs) < 3 {
				fails := runBigPoolFailFast(100)
				fmt.Fprintf(w, "cap %d bigpool N=100 capseed=%d capcount=%d\n", 700000, *seed, *capacity)
				if len(fails) == 0 {
					fmt.Fprintf(w, "O C05 ok\n")
				} else {
					fmt.Fprintf(w, "O C05 FAIL %s\n", strings.Join(fails, " ;; "))
					stats["fail.C05"]++
				}
				if l, d := waitQuiescent(baseG); l > 0 {
					fmt.Fprintf(w, "O C06 FAIL big pool: %d goroutine(s) started by the scheduler never terminate after a fail-fast exit with 100 busy workers: %s\n", l, strings.ReplaceAll(d, "\n", " | "))
					stats["fail.C06"]++
					baseG = countSchedGoroutines()
				}
				stats["bigpool"]++
			}
			// reports stop once Wait has returned — also for a scheduler that never got a job
			for i, c := range [][2]int{{2, 0}, {1, 0}, {3, 1}, {2, 5}} {
				var fails []string
				for rep := 0; rep < 100 && len(fails) == 0; rep++ {
					fails = runReportsStop(c[0], c[1])
				}
				fmt.Fprintf(w, "cap %d reportsstop N=%d jobs=%d capseed=%d capcount=%d\n", 800000+i, c[0], c[1], *seed, *capacity)
				if len(fails) == 0 {
					fmt.Fprintf(w, "O C19 ok\n")
				} else {
					fmt.Fprintf(w, "O C19 FAIL %s\n", strings.Join(fails, " ;; "))
					stats["fail.C19"]++
				}
				stats["reportsstop"]++
			}
			baseG = countSchedGoroutines()
			// schedulers inside the jobs of a scheduler, many at once
			for i, c := range [][2]int{{64, 64}, {200, 400}} {
				if atomic.LoadInt32(&hangs) >= 3 {
					break
				}
				fails := runNested(c[0], c[1])
				fmt.Fprintf(w, "cap %d nested outerN=%d outerJobs=%d capseed=%d capcount=%d\n", 600000+i, c[0], c[1], *seed, *capacity)
				if len(fails) == 0 {
					fmt.Fprintf(w, "O C05 ok\n")
				} else {
					fmt.Fprintf(w, "O C05 FAIL %s\n", strings.Join(fails, " ;; "))
					stats["fail.C05"]++
				}
				if l, d := waitQuiescent(baseG); l > 0 && len(fails) == 0 {
					fmt.Fprintf(w, "O C06 FAIL nested case %d: %d scheduler goroutine(s) never terminate: %s\n", 600000+i, l, strings.ReplaceAll(d, "\n", " | "))
					stats["fail.C06"]++
				}
				baseG = countSchedGoroutines()
				stats["nested"]++
			}
			// deadline contexts expiring while functions that ignore them are running
			for i, c := range []struct {
				n, jobs     int
				coe, shared bool
			}{{2, 6, false, true}, {2, 6, true, false}, {1, 4, true, true}, {3, 9, false, false}} {
				if atomic.LoadInt32(&hangs) >= 3 {
					break
				}
				fails := runDeadlineCtx(c.n, c.jobs, c.coe, c.shared)
				fmt.Fprintf(w, "cap %d deadlinectx N=%d jobs=%d coe=%v shared=%v capseed=%d capcount=%d\n", 500000+i, c.n, c.jobs, c.coe, c.shared, *seed, *capacity)
				if len(fails) == 0 {
					fmt.Fprintf(w, "O C05 ok\n")
				} else {
					fmt.Fprintf(w, "O C05 FAIL %s\n", strings.Join(fails, " ;; "))
					stats["fail.C05"]++
				}
				if l, d := waitQuiescent(baseG); l > 0 {
					fmt.Fprintf(w, "O C06 FAIL deadline-context case %d: %d goroutine(s) started by the scheduler never terminate: %s\n", 500000+i, l, strings.ReplaceAll(d, "\n", " | "))
					stats["fail.C06"]++
					baseG = countSchedGoroutines()
				}
				stats["deadlinectx"]++
			}
		}
		if *capacity > 0 {
			fans := []int{1<<16 + 1000}
			if *capacity > 100 {
				fans = append(fans, 1<<16, 1<<17+3)
			}
			for i, fan := range fans {
				fails := runBigFan(fan, 2+i)
				fmt.Fprintf(w, "cap %d bigfan fan=%d capseed=%d capcount=%d\n", 200000+i, fan, *seed, *capacity)
				if len(fails) == 0 {
					fmt.Fprintf(w, "O C01 ok\n")
				} else {
					fmt.Fprintf(w, "O C01 FAIL %s\n", strings.Join(fails, " ;; "))
					stats["fail.C01"]++
				}
				stats["bigfan"]++
			}
		}
		for _, cc := range genCapacity(*capacity, rng) {
			if atomic.LoadInt32(&hangs) >= 3 || atomic.LoadInt32(&leakBatches) >= 2 {
				stats["skipped-after-hangs"]++
				continue
			}
			fails, info := runCapacity(cc)
			fmt.Fprintf(w, "cap %d %s kills=%s capseed=%d capcount=%d\n", cc.Idx, info, strings.Join(cc.Kills, ","), *seed, *capacity)
			if len(fails) == 0 {
				fmt.Fprintf(w, "O C03 ok\n")
			} else {
				fmt.Fprintf(w, "O C03 FAIL %s\n", strings.Join(fails, " ;; "))
				stats["fail.C03"]++
			}
			if l, d := waitQuiescent(baseG); l > 0 {
				fmt.Fprintf(w, "O C06 FAIL capacity case %d: %d scheduler goroutine(s) never terminate: %s\n", cc.Idx, l, strings.ReplaceAll(d, "\n", " | "))
				stats["fail.C06"]++
				baseG = countSchedGoroutines()
			}
			stats["capacity"]++
		}
		// The default limit is max(GOMAXPROCS, 4) whatever the number of CPUs: the same capacity cases with
		// the default limit and GOMAXPROCS above runtime.NumCPU() (as under a CPU quota or an explicit setting).
		if *capacity > 0 && atomic.LoadInt32(&hangs) < 3 {
			old := runtime.GOMAXPROCS(runtime.NumCPU() + 5)
			for i, kills := range [][]string{nil, {"goexit", "goexit", "fail"}} {
				cc := &capacityCase{Idx: 900000 + i, N: 0, Kills: kills, Extra: 10*i + 8000*(1-i)}
				fails, info := runCapacity(cc)
				fmt.Fprintf(w, "cap %d %s gomaxprocs=%d numcpu=%d kills=%s capseed=%d capcount=%d\n", cc.Idx, info, runtime.GOMAXPROCS(0), runtime.NumCPU(), strings.Join(cc.Kills, ","), *seed, *capacity)
				if len(fails) == 0 {
					fmt.Fprintf(w, "O C03 ok\n")
				} else {
					fmt.Fprintf(w, "O C03 FAIL default limit with GOMAXPROCS=%d on %d CPUs: %s\n", runtime.GOMAXPROCS(0), runtime.NumCPU(), strings.Join(fails, " ;; "))
					stats["fail.C03"]++
				}
				if l, d := waitQuiescent(baseG); l > 0 {
					fmt.Fprintf(w, "O C06 FAIL capacity case %d: %d scheduler goroutine(s) never terminate: %s\n", cc.Idx, l, strings.ReplaceAll(d, "\n", " | "))
					stats["fail.C06"]++
					baseG = countSchedGoroutines()
				}
				stats["capacity"]++
			}
			runtime.GOMAXPROCS(old)
		}
	}

	for lo := 0; lo < len(scs); lo += *batch {
		hi := lo + *batch
		if hi > len(scs) {
			hi = len(scs)
		}
		results := make([]*result, hi-lo)
		var wg sync.WaitGroup
		sem := make(chan struct{}, *par)
		for i := lo; i < hi; i++ {
			wg.Add(1)
			sem <- struct{}{}
			go func(i int) {
				defer wg.Done()
				defer func() { <-sem }()
				results[i-lo] = runScenario(scs[i])
			}(i)
		}
		wg.Wait()
		// C06: all scheduler goroutines of this batch must terminate.
		leaked, dump := waitQuiescent(base)
		extras := make([]verdicts, hi-lo)
		if leaked > 0 {
			stats["leak.batches"]++
			atomic.AddInt32(&leakBatches, 1)
			// pinpoint: re-run suspicious scenarios of the batch one at a time, within a budget
			base2 := countSchedGoroutines()
			found := false
			deadline := time.Now().Add(25 * time.Second)
			if stats["leak.batches"] > 3 {
				deadline = time.Now() // enough replays collected; attribute at batch level
			}
			order := make([]int, 0, hi-lo)
			for i := lo; i < hi; i++ { // scenarios with a failure, exit or cancellation first
				if scs[i].nontrivialOutcome() {
					order = append(order, i)
				}
			}
			for i := lo; i < hi; i++ {
				if !scs[i].nontrivialOutcome() {
					order = append(order, i)
				}
			}
			for _, i := range order {
				if found || time.Now().After(deadline) {
					break
				}
				for rep := 0; rep < 2 && !found; rep++ {
					c := *scs[i]
					c.Seed += int64(rep)
					r := runScenario(&c)
					if l, d := waitQuiescentFor(base2, 400*time.Millisecond); l > 0 {
						extras[i-lo] = verdicts{"C06": {fmt.Sprintf("%d scheduler goroutine(s) never terminate after Wait returned: %s", l, strings.ReplaceAll(d, "\n", " | "))}}
						results[i-lo] = r
						base2 += l
						found = true
					}
				}
			}
			if !found {
				// attribute to the batch's first scenario, flagged as batch-level
				extras[0] = verdicts{"C06": {fmt.Sprintf("batch-level: %d scheduler goroutine(s) never terminate (scenarios %d..%d; not reproduced singly): %s", leaked, lo, hi-1, strings.ReplaceAll(dump, "\n", " | "))}}
			}
			base = countSchedGoroutines()
		}
		for i, r := range results {
			k := r.sc.key()
			if !distinct[k] {
				distinct[k] = true
				if r.sc.nontrivial() {
					nontrivial++
				}
			}
			stats[fmt.Sprintf("N=%d", bucket(r.sc.N))]++
			stats[fmt.Sprintf("jobs=%d", bucket(len(r.sc.Deps)))]++
			if r.sc.Coe {
				stats["coe"]++
			}
			if r.sc.Late {
				stats["late"]++
			}
			if r.sc.Emit {
				stats["emit"]++
			}
			if r.sc.ExtCancel >= 0 {
				stats["extcancel"]++
			}
			for _, o := range r.sc.Out {
				stats["out."+o.String()]++
			}
			emitResult(r, extras[i])
		}
	}
	fmt.Fprintf(w, "summary scenarios=%d distinct=%d distinct_nontrivial=%d", len(scs), len(distinct), nontrivial)
	keys := make([]string, 0, len(stats))
	for k := range stats {
		keys = append(keys, k)
	}
	sort.Strings(keys)
	for _, k := range keys {
		fmt.Fprintf(w, " %s=%d", k, stats[k])
	}
	fmt.Fprintln(w)
}

func bucket(n int) int {
	switch {
	case n <= 4:
		return n
	case n <= 8:
		return 8
	case n <= 16:
		return 16
	case n <= 32:
		return 32
	}
	return 64
}

func classList(err error) string {
	if err == nil {
		return "nil"
	}
	var out []string
	for _, e := range multierr.Errors(err) {
		out = append(out, classOf(e))
	}
	return strings.Join(out, ",")
}

// waitQuiescent polls until no goroutine beyond base has scheduler frames;
// reports a leak only if two consecutive dumps 100ms apart agree after 2s.
func waitQuiescent(base int) (int, string) { return waitQuiescentFor(base, 2*time.Second) }

func waitQuiescentFor(base int, patience time.Duration) (int, string) {
	deadline := time.Now().Add(patience)
	for {
		n := countSchedGoroutines()
		if n <= base {
			return 0, ""
		}
		if time.Now().After(deadline) {
			d1 := schedFrames()
			time.Sleep(150 * time.Millisecond)
			d2 := schedFrames()
			if d1 == d2 && countSchedGoroutines() > base {
				return countSchedGoroutines() - base, d2
			}
			if countSchedGoroutines() <= base {
				return 0, ""
			}
			deadline = time.Now().Add(1 * time.Second)
		}
		time.Sleep(200 * time.Microsecond)
	}
}
