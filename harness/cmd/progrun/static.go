package main

import (
	"fmt"
	"go/ast"
	"go/parser"
	"go/token"
	"os"
	"reflect"
	"regexp"
	"sort"
	"strconv"
	"strings"
)

func parseGo(path string, src []byte) (*ast.File, error) {
	fset := token.NewFileSet()
	return parser.ParseFile(fset, path, src, parser.SkipObjectResolution)
}

// cffName returns the local name of the go.uber.org/cff import.
func cffName(f *ast.File) string {
	for _, im := range f.Imports {
		p, _ := strconv.Unquote(im.Path.Value)
		if p == "go.uber.org/cff" {
			if im.Name != nil {
				return im.Name.Name
			}
			return "cff"
		}
	}
	return ""
}

// directivesLeft counts cff.<Directive> call expressions.
func directivesLeft(f *ast.File, dirs map[string]bool) int {
	name := cffName(f)
	if name == "" {
		return 0
	}
	n := 0
	ast.Inspect(f, func(nd ast.Node) bool {
		if ce, ok := nd.(*ast.CallExpr); ok {
			if sel, ok := ce.Fun.(*ast.SelectorExpr); ok {
				if id, ok := sel.X.(*ast.Ident); ok && id.Name == name && dirs[sel.Sel.Name] {
					n++
				}
			}
		}
		return true
	})
	return n
}

var (
	posType     = reflect.TypeOf(token.NoPos)
	skipFields  = map[string]bool{"Doc": true, "Comment": true, "Comments": true, "Imports": true, "Unresolved": true, "Scope": true, "Obj": true, "GoVersion": true}
	placeholder = "PLACEHOLDER"
)

// dump writes a position- and comment-free rendering of an AST.
func dump(w *strings.Builder, v reflect.Value, isPH func(ast.Node) bool, depth int) {
	switch v.Kind() {
	case reflect.Interface:
		if v.IsNil() {
			w.WriteString("nil\n")
			return
		}
		dump(w, v.Elem(), isPH, depth)
	case reflect.Ptr:
		if v.IsNil() {
			w.WriteString("nil\n")
			return
		}
		if n, ok := v.Interface().(ast.Node); ok && isPH != nil && isPH(n) {
			w.WriteString(placeholder + "\n")
			return
		}
		if gd, ok := v.Interface().(*ast.GenDecl); ok && gd.Tok == token.IMPORT {
			w.WriteString("import\n")
			return
		}
		dump(w, v.Elem(), isPH, depth)
	case reflect.Struct:
		t := v.Type()
		w.WriteString(t.Name() + "{\n")
		for i := 0; i < t.NumField(); i++ {
			f := t.Field(i)
			if skipFields[f.Name] || f.Type == posType {
				continue
			}
			w.WriteString(strings.Repeat(" ", depth+1) + f.Name + ": ")
			dump(w, v.Field(i), isPH, depth+1)
		}
		w.WriteString(strings.Repeat(" ", depth) + "}\n")
	case reflect.Slice:
		w.WriteString("[\n")
		for i := 0; i < v.Len(); i++ {
			el := v.Index(i)
			if gd, ok := el.Interface().(*ast.GenDecl); ok && gd.Tok == token.IMPORT {
				continue
			}
			w.WriteString(strings.Repeat(" ", depth+1))
			dump(w, el, isPH, depth+1)
		}
		w.WriteString(strings.Repeat(" ", depth) + "]\n")
	default:
		fmt.Fprintf(w, "%v\n", v.Interface())
	}
}

func isDirectiveCall(name string) func(ast.Node) bool {
	return func(n ast.Node) bool {
		ce, ok := n.(*ast.CallExpr)
		if !ok {
			return false
		}
		sel, ok := ce.Fun.(*ast.SelectorExpr)
		if !ok {
			return false
		}
		id, ok := sel.X.(*ast.Ident)
		return ok && id.Name == name && (sel.Sel.Name == "Flow" || sel.Sel.Name == "Parallel")
	}
}

// isGeneratedCall recognises `func() (err error) {...}()`.
func isGeneratedCall(n ast.Node) bool {
	ce, ok := n.(*ast.CallExpr)
	if !ok || len(ce.Args) != 0 {
		return false
	}
	fl, ok := ce.Fun.(*ast.FuncLit)
	if !ok || fl.Type.Params == nil || len(fl.Type.Params.List) != 0 {
		return false
	}
	r := fl.Type.Results
	if r == nil || len(r.List) != 1 || len(r.List[0].Names) != 1 || r.List[0].Names[0].Name != "err" {
		return false
	}
	id, ok := r.List[0].Type.(*ast.Ident)
	return ok && id.Name == "error"
}

// importsDropped returns the import specs (name and path) of the source file that the generated
// file does not have: cff may add imports, it must not remove any (a blank import is there for its
// side effects).
func importsDropped(src, gen *ast.File) []string {
	have := map[string]bool{}
	key := func(im *ast.ImportSpec) string {
		n := ""
		if im.Name != nil {
			n = im.Name.Name
		}
		return n + " " + im.Path.Value
	}
	for _, im := range gen.Imports {
		have[key(im)] = true
	}
	var out []string
	for _, im := range src.Imports {
		if !have[key(im)] {
			out = append(out, strings.TrimSpace(key(im)))
		}
	}
	return out
}

// astDiff compares the source and the generated file after replacing the
// directive call / generated closure call by a placeholder and ignoring
// imports, comments and positions.
func astDiff(srcPath string, src []byte, gen *ast.File) string {
	sf, err := parseGo(srcPath, src)
	if err != nil {
		return "source-unparsed"
	}
	var a, b strings.Builder
	dump(&a, reflect.ValueOf(sf), isDirectiveCall(cffName(sf)), 0)
	dump(&b, reflect.ValueOf(gen), isGeneratedCall, 0)
	if a.String() == b.String() {
		if !strings.Contains(a.String(), placeholder) {
			return "no-directive-found"
		}
		if d := importsDropped(sf, gen); len(d) > 0 {
			return "import-dropped:" + squash(strings.Join(d, ","))
		}
		return "ok"
	}
	la, lb := strings.Split(a.String(), "\n"), strings.Split(b.String(), "\n")
	for i := 0; i < len(la) && i < len(lb); i++ {
		if la[i] != lb[i] {
			return fmt.Sprintf("line%d:%s<>%s", i, squash(la[i]), squash(lb[i]))
		}
	}
	return fmt.Sprintf("length:%d<>%d", len(la), len(lb))
}

func squash(s string) string {
	s = strings.Join(strings.Fields(s), "_")
	if len(s) > 40 {
		s = s[:40]
	}
	if s == "" {
		s = "empty"
	}
	return s
}

// sameIgnoringComments compares two generated files structurally.
func sameIgnoringComments(pa, pb string) string {
	da, err1 := os.ReadFile(pa)
	db, err2 := os.ReadFile(pb)
	if err1 != nil || err2 != nil {
		return "na"
	}
	fa, err1 := parseGo(pa, da)
	fb, err2 := parseGo(pb, db)
	if err1 != nil || err2 != nil {
		return "0"
	}
	var a, b strings.Builder
	dump(&a, reflect.ValueOf(fa), nil, 0)
	dump(&b, reflect.ValueOf(fb), nil, 0)
	if a.String() == b.String() {
		return "1"
	}
	return "0"
}

var rePrologueName = regexp.MustCompile(`^_\d+_\d+$`)

// hygiene inspects every generated closure of the file: the hoisted user expressions
// (`_<line>_<col> := <expr>`) must be the first statements of the closure, so that nothing the
// generator declares — whatever its name — is in scope while a user expression is evaluated (the
// named result `err` is the one exception, recorded as finding F6).  Returns "ok" or
// "inscope:<names>", the generated identifiers declared before the last hoisted expression.
func hygiene(gen *ast.File) string {
	bad := map[string]bool{}
	ast.Inspect(gen, func(n ast.Node) bool {
		if !isGeneratedCall(n) {
			return true
		}
		body := n.(*ast.CallExpr).Fun.(*ast.FuncLit).Body
		last := -1
		isPro := func(st ast.Stmt) bool {
			as, ok := st.(*ast.AssignStmt)
			if !ok || as.Tok != token.DEFINE || len(as.Lhs) != 1 {
				return false
			}
			id, ok := as.Lhs[0].(*ast.Ident)
			return ok && rePrologueName.MatchString(id.Name)
		}
		for i, st := range body.List {
			if isPro(st) {
				last = i
			}
		}
		for i := 0; i < last; i++ {
			st := body.List[i]
			if isPro(st) {
				continue
			}
			switch x := st.(type) {
			case *ast.AssignStmt:
				if x.Tok == token.DEFINE {
					for _, l := range x.Lhs {
						if id, ok := l.(*ast.Ident); ok && id.Name != "_" {
							bad[id.Name] = true
						}
					}
				}
			case *ast.DeclStmt:
				if gd, ok := x.Decl.(*ast.GenDecl); ok {
					for _, sp := range gd.Specs {
						switch y := sp.(type) {
						case *ast.ValueSpec:
							for _, id := range y.Names {
								bad[id.Name] = true
							}
						case *ast.TypeSpec:
							bad[y.Name.Name] = true
						}
					}
				}
			default:
				// any other statement between hoisted expressions is generated code running
				// before all user expressions were evaluated
				bad["stmt@"+strconv.Itoa(i)] = true
			}
		}
		return true
	})
	if len(bad) == 0 {
		return "ok"
	}
	var names []string
	for k := range bad {
		names = append(names, k)
	}
	sort.Strings(names)
	return "inscope:" + strings.Join(names, ",")
}

var reJobVar = regexp.MustCompile(`^(task|pred)\d+$`)

// sharedFields inspects every generated closure for fields of the generated task / predicate
// records that are plainly assigned inside a job closure (code that runs on a scheduler worker) and
// read in one of the closure's deferred functions (code that runs on the caller's goroutine when the
// directive returns — also when it returns early, while jobs are still running).  Such a field is a
// data race of the generated code with itself; the records' `ran` flags are atomics updated through
// method calls and do not count.  Returns "ok" or "shared:<fields>".
func sharedFields(gen *ast.File) string {
	bad := map[string]bool{}
	ast.Inspect(gen, func(n ast.Node) bool {
		if !isGeneratedCall(n) {
			return true
		}
		body := n.(*ast.CallExpr).Fun.(*ast.FuncLit).Body
		deferred := map[*ast.FuncLit]bool{}
		epilogue := map[string]bool{}
		for _, st := range body.List {
			ds, ok := st.(*ast.DeferStmt)
			if !ok {
				continue
			}
			fl, ok := ds.Call.Fun.(*ast.FuncLit)
			if !ok {
				continue
			}
			deferred[fl] = true
			ast.Inspect(fl.Body, func(m ast.Node) bool {
				if sel, ok := m.(*ast.SelectorExpr); ok {
					if _, ok := sel.X.(*ast.Ident); ok {
						epilogue[sel.Sel.Name] = true
					}
				}
				return true
			})
		}
		written := map[string]bool{}
		var walk func(n ast.Node, inJob bool)
		walk = func(n ast.Node, inJob bool) {
			ast.Inspect(n, func(m ast.Node) bool {
				switch x := m.(type) {
				case *ast.FuncLit:
					if deferred[x] {
						return false
					}
					if !inJob {
						walk(x.Body, true)
						return false
					}
				case *ast.AssignStmt:
					if inJob {
						for _, l := range x.Lhs {
							if sel, ok := l.(*ast.SelectorExpr); ok {
								if id, ok := sel.X.(*ast.Ident); ok && reJobVar.MatchString(id.Name) {
									written[sel.Sel.Name] = true
								}
							}
						}
					}
				case *ast.IncDecStmt:
					if inJob {
						if sel, ok := x.X.(*ast.SelectorExpr); ok {
							if id, ok := sel.X.(*ast.Ident); ok && reJobVar.MatchString(id.Name) {
								written[sel.Sel.Name] = true
							}
						}
					}
				}
				return true
			})
		}
		walk(body, false)
		for f := range written {
			if epilogue[f] {
				bad[f] = true
			}
		}
		return true
	})
	if len(bad) == 0 {
		return "ok"
	}
	var names []string
	for k := range bad {
		names = append(names, k)
	}
	sort.Strings(names)
	return "shared:" + strings.Join(names, ",")
}
