package main

import (
	"go/ast"
	"go/parser"
	"go/token"
	"path"
	"regexp"
	"sort"
	"strconv"
	"strings"
)

// Structural observation of the job graph of a generated Flow (the `GD`
// line): every `<x>.Enqueue(ctx, <cff>.Job{...})` call of the generated
// closure in source order, the job variable its result is assigned to and the
// job variables named in its `Dependencies` literal, all mapped to the task
// ids of the program spec.
//
// Identity of a generated name:
//   - `taskN`: the `// <file>:<line>:<col>` comment that the template writes
//     above `taskN := new(` is the position of the task's function expression;
//     the emitter's LineK table maps that line to the task id K  ->  `tK`.
//   - `predN`: the comment above `predN := new(` is the position of the
//     `cff.Predicate(` call; the emitter's PredLineK table maps that line to
//     the id K of the task the predicate gates  ->  `pK`.  The position
//     comment, not "the task that lists predN.job", is the primary source: it
//     stays valid when the generator forgets to list the predicate anywhere,
//     which is exactly the defect this observation is meant to expose.  Only
//     when the comment cannot be resolved, and exactly one task job lists
//     `predN.job`, that task's id is used.
//
// Whatever cannot be resolved is printed as `?`; nothing is dropped.

type depJob struct {
	name string   // generated variable (taskN / predN), "" if the result is not assigned to `<name>.job`
	deps []string // generated variables in the Dependencies literal, "" for an entry of another shape
}

var (
	rePosComment = regexp.MustCompile(`^//\s+(\S+):(\d+):(\d+)\s*$`)
	reTaskVar    = regexp.MustCompile(`^task\d+$`)
	rePredVar    = regexp.MustCompile(`^pred\d+$`)
)

// outermostGenerated returns the generated closure calls that are not nested
// in another generated closure, in source order.
func outermostGenerated(f *ast.File) []*ast.CallExpr {
	var out []*ast.CallExpr
	ast.Inspect(f, func(n ast.Node) bool {
		if n == nil {
			return true
		}
		// the auxiliary directive some program files carry next to the program's own one
		// (func extraP<pid>) is not part of the program's job structure
		if fd, ok := n.(*ast.FuncDecl); ok && strings.HasPrefix(fd.Name.Name, "extraP") {
			return false
		}
		if vs, ok := n.(*ast.ValueSpec); ok && len(vs.Names) == 1 && strings.HasPrefix(vs.Names[0].Name, "extraP") {
			return false
		}
		if isGeneratedCall(n) {
			out = append(out, n.(*ast.CallExpr))
			return false
		}
		return true
	})
	return out
}

// jobVar recognises `<name>.job`.
func jobVar(e ast.Expr) string {
	sel, ok := e.(*ast.SelectorExpr)
	if !ok || sel.Sel.Name != "job" {
		return ""
	}
	id, ok := sel.X.(*ast.Ident)
	if !ok {
		return ""
	}
	return id.Name
}

// enqueueJob recognises `<x>.Enqueue(<ctx>, <cff>.Job{...})` and returns the
// composite literal.
func enqueueJob(n ast.Node, cff string) *ast.CompositeLit {
	ce, ok := n.(*ast.CallExpr)
	if !ok || len(ce.Args) != 2 {
		return nil
	}
	sel, ok := ce.Fun.(*ast.SelectorExpr)
	if !ok || sel.Sel.Name != "Enqueue" {
		return nil
	}
	cl, ok := ce.Args[1].(*ast.CompositeLit)
	if !ok {
		return nil
	}
	ts, ok := cl.Type.(*ast.SelectorExpr)
	if !ok || ts.Sel.Name != "Job" {
		return nil
	}
	if id, ok := ts.X.(*ast.Ident); !ok || id.Name != cff {
		return nil
	}
	return cl
}

// walkShallow visits the nodes of a closure body without entering function
// literals (task bodies, user function literals and whatever they contain).
func walkShallow(body *ast.BlockStmt, visit func(ast.Node)) {
	ast.Inspect(body, func(n ast.Node) bool {
		if n == nil {
			return true
		}
		if _, ok := n.(*ast.FuncLit); ok {
			return false
		}
		visit(n)
		return true
	})
}

// extractDeps parses the generated file (with comments) and renders the GD
// payload: space-separated `<job>:<dep>,<dep>` entries in enqueue order, or
// `-` if the closure holds no Enqueue call.
func extractDeps(genPath string, genBytes []byte, base string, lineK, predLineK map[int]int) string {
	fset := token.NewFileSet()
	f, err := parser.ParseFile(fset, genPath, genBytes, parser.ParseComments|parser.SkipObjectResolution)
	if err != nil {
		return "-"
	}
	cff := cffName(f)
	if cff == "" {
		cff = "cff"
	}
	closures := outermostGenerated(f)
	if len(closures) == 0 {
		return "-"
	}

	// position comments of the whole file, by offset
	type posComment struct {
		pos  token.Pos
		file string
		line int
	}
	var pcs []posComment
	for _, cg := range f.Comments {
		for _, c := range cg.List {
			if m := rePosComment.FindStringSubmatch(c.Text); m != nil {
				l, _ := strconv.Atoi(m[2])
				pcs = append(pcs, posComment{c.Pos(), m[1], l})
			}
		}
	}
	sort.Slice(pcs, func(i, j int) bool { return pcs[i].pos < pcs[j].pos })

	var jobs []depJob
	type newStmt struct {
		pos  token.Pos
		name string
	}
	var news []newStmt
	for _, c := range closures {
		body := c.Fun.(*ast.FuncLit).Body
		lhsOf := map[*ast.CallExpr]ast.Expr{}
		walkShallow(body, func(n ast.Node) {
			switch x := n.(type) {
			case *ast.AssignStmt:
				if len(x.Lhs) == len(x.Rhs) {
					for i, r := range x.Rhs {
						if ce, ok := r.(*ast.CallExpr); ok {
							lhsOf[ce] = x.Lhs[i]
							// `<name> := new(...)`
							if id, ok := ce.Fun.(*ast.Ident); ok && id.Name == "new" && x.Tok == token.DEFINE {
								if l, ok := x.Lhs[i].(*ast.Ident); ok && (reTaskVar.MatchString(l.Name) || rePredVar.MatchString(l.Name)) {
									news = append(news, newStmt{x.Pos(), l.Name})
								}
							}
						}
					}
				}
			case *ast.CallExpr:
				cl := enqueueJob(x, cff)
				if cl == nil {
					return
				}
				j := depJob{}
				if l, ok := lhsOf[x]; ok {
					j.name = jobVar(l)
				}
				for _, el := range cl.Elts {
					kv, ok := el.(*ast.KeyValueExpr)
					if !ok {
						continue
					}
					if k, ok := kv.Key.(*ast.Ident); !ok || k.Name != "Dependencies" {
						continue
					}
					dl, ok := kv.Value.(*ast.CompositeLit)
					if !ok {
						j.deps = append(j.deps, "") // not a literal: unknown content
						continue
					}
					for _, d := range dl.Elts {
						j.deps = append(j.deps, jobVar(d))
					}
				}
				jobs = append(jobs, j)
			}
		})
	}
	if len(jobs) == 0 {
		return "-"
	}

	// generated name -> source line, through the position comment between the
	// previous `x := new(` of a job and this one.
	sort.Slice(news, func(i, j int) bool { return news[i].pos < news[j].pos })
	lineOf := map[string]int{}
	dup := map[string]bool{}
	for i, ns := range news {
		lo := token.NoPos
		if i > 0 {
			lo = news[i-1].pos
		}
		line := -1
		for _, pc := range pcs {
			if pc.pos > lo && pc.pos < ns.pos && path.Base(pc.file) == base+".go" {
				line = pc.line // the last one wins
			}
		}
		if _, seen := lineOf[ns.name]; seen {
			dup[ns.name] = true
		}
		lineOf[ns.name] = line
	}

	ident := map[string]string{}
	resolve := func(name string) string {
		if name == "" || dup[name] {
			return "?"
		}
		if s, ok := ident[name]; ok {
			return s
		}
		return "?"
	}
	for name, line := range lineOf {
		if dup[name] {
			continue
		}
		switch {
		case reTaskVar.MatchString(name):
			if k, ok := lineK[line]; ok {
				ident[name] = "t" + strconv.Itoa(k)
			}
		case rePredVar.MatchString(name):
			if k, ok := predLineK[line]; ok {
				ident[name] = "p" + strconv.Itoa(k)
			}
		}
	}
	// fallback for predicates without a usable comment: the one task listing it
	for _, j := range jobs {
		if !rePredVar.MatchString(j.name) || dup[j.name] {
			continue
		}
		if _, ok := ident[j.name]; ok {
			continue
		}
		var users []string
		for _, u := range jobs {
			if !reTaskVar.MatchString(u.name) {
				continue
			}
			for _, d := range u.deps {
				if d == j.name {
					users = append(users, u.name)
					break
				}
			}
		}
		if len(users) == 1 {
			if s, ok := ident[users[0]]; ok && strings.HasPrefix(s, "t") {
				ident[j.name] = "p" + s[1:]
			}
		}
	}

	var out []string
	for _, j := range jobs {
		var ds []string
		for _, d := range j.deps {
			ds = append(ds, resolve(d))
		}
		out = append(out, resolve(j.name)+":"+strings.Join(ds, ","))
	}
	return strings.Join(out, " ")
}
