// Command progrun is the differential harness for cff-generated code: it
// draws random cff.Flow / cff.Parallel programs from abstract specs, runs
// the real cff generator on them, builds and executes the generated code
// under many failure scenarios, and writes specs, verdicts and observations
// as a line protocol (see PROTOCOL.md), together with the verdicts of a
// built-in Go reference oracle ("X" lines).
package main

import (
	"bufio"
	"flag"
	"fmt"
	"os"
	"path/filepath"
	"runtime"
	"sort"
	"strings"
	"time"

	"go.uber.org/cff/verifh/internal/proggen"
	"go.uber.org/cff/verifh/internal/progoracle"
	ps "go.uber.org/cff/verifh/internal/progspec"
	"go.uber.org/cff/verifh/internal/progsrc"
)

type config struct {
	seed      int64
	programs  int
	out       string
	flowsOnly bool
	parOnly   bool
	keep      bool
	replay    string
	repo      string
	noKnown   bool
	knownPer  int
	batchSize int
	jobs      int
	verbose   bool
	race      bool
}

// progState is everything progrun learns about one program.
type progState struct {
	P     *ps.Program
	Files *progsrc.Files
	Batch *batch
	Known bool

	variant string // base | sm | ai | aism

	// A line
	Accept     bool
	Exit       int
	Diag       []string
	ToolPanic  bool
	FileNamed  bool
	GenWritten bool
	Stderr     string

	// G line
	HaveG         bool
	Parses        bool
	Typechecks    bool
	BuildErr      string
	DirLeft       int
	AstDiff       string
	Hygiene       string
	Shared        string
	TagsRun       string // package run with an extra -tags value: 1 same bytes, 0 different, nooutput
	Deterministic bool
	SourceMapSame string
	Deps          string // GD line payload (flow programs whose generated file parses)

	Runnable bool
	obs      map[int][]string // sid -> observation lines
	nCalls   int

	// modifier mode (programs with modsubset=1)
	ModGen      bool   // cff -genmode=modifier wrote a file
	ModCompiles bool   // ... and it compiles
	ModErr      string // why not
	modObs      map[int][]string
}

type batch struct {
	Name  string
	Progs []*progState
	Known bool
}

func main() {
	var c config
	flag.Int64Var(&c.seed, "seed", 1, "random seed")
	flag.IntVar(&c.programs, "programs", 120, "number of main-stream programs")
	flag.StringVar(&c.out, "out", "", "output protocol file (required)")
	flag.BoolVar(&c.flowsOnly, "flows-only", false, "generate only flow programs")
	flag.BoolVar(&c.parOnly, "par-only", false, "generate only parallel programs")
	flag.BoolVar(&c.keep, "keep", false, "keep the scratch directory")
	flag.StringVar(&c.replay, "replay", "", "re-run the programs and scenarios of a previously written file")
	flag.StringVar(&c.repo, "repo", "/repo", "cff checkout to test")
	flag.BoolVar(&c.noKnown, "no-known", false, "skip the known-defect streams")
	flag.IntVar(&c.knownPer, "known-per", 1, "programs per known-defect class")
	flag.IntVar(&c.batchSize, "batch", 60, "programs per batch package")
	flag.IntVar(&c.jobs, "jobs", runtime.NumCPU(), "parallel subprocesses")
	flag.BoolVar(&c.verbose, "v", false, "verbose progress on stderr")
	flag.BoolVar(&c.race, "race", false, "build the runners with the race detector (a report is a crash observation)")
	flag.Parse()
	if c.out == "" {
		fmt.Fprintln(os.Stderr, "progrun: -out is required")
		os.Exit(2)
	}
	repo, err := filepath.Abs(c.repo)
	if err != nil {
		fatal(err)
	}
	c.repo = repo
	if err := run(&c); err != nil {
		fatal(err)
	}
}

func fatal(err error) {
	fmt.Fprintln(os.Stderr, "progrun:", err)
	os.Exit(1)
}

func run(c *config) error {
	t0 := time.Now()
	progress := func(format string, a ...interface{}) {
		if c.verbose {
			fmt.Fprintf(os.Stderr, "[%6.1fs] %s\n", time.Since(t0).Seconds(), fmt.Sprintf(format, a...))
		}
	}
	scratch, err := os.MkdirTemp("/tmp", "progrun-")
	if err != nil {
		return err
	}
	if c.keep {
		fmt.Fprintln(os.Stderr, "progrun: scratch directory", scratch)
	} else {
		defer os.RemoveAll(scratch)
	}

	// 1. programs
	var progs []*ps.Program
	if c.replay != "" {
		data, err := os.ReadFile(c.replay)
		if err != nil {
			return err
		}
		progs, err = ps.ParseFile(strings.Split(string(data), "\n"))
		if err != nil {
			return err
		}
	} else {
		progs = generate(c)
	}
	states := make([]*progState, len(progs))
	for i, p := range progs {
		states[i] = &progState{P: p, Known: strings.HasPrefix(p.Stream, "known:"), obs: map[int][]string{}, modObs: map[int][]string{}}
	}
	batches := makeBatches(c, states)
	progress("%d programs in %d packages", len(states), len(batches))

	// 2. pipeline
	pl := &pipeline{c: c, scratch: scratch, sem: make(chan struct{}, c.jobs), progress: progress}
	if err := pl.buildCff(); err != nil {
		return err
	}
	progress("cff built")
	if err := pl.writeModule(batches); err != nil {
		return err
	}
	progress("module written")
	if err := pl.runCff(batches); err != nil {
		return err
	}
	progress("cff runs done")
	pl.staticChecks(batches)
	progress("static checks done")

	// 3. scenarios (new runs only; a replay carries them)
	if c.replay == "" {
		g := proggen.New(c.seed*7919 + 13)
		for _, st := range states {
			if st.Accept {
				st.P.Scenarios = g.Scenarios(st.P)
			}
		}
	}
	for _, st := range states {
		if proggen.NeedsCur(st.P) {
			for _, sc := range st.P.Scenarios {
				sc.Execs = 1
			}
		}
	}
	pl.buildAndRun(batches)
	progress("scenarios executed")

	// 4. output + oracle
	return writeOutput(c, states, time.Since(t0))
}

// generate draws the programs of a fresh run.
func generate(c *config) []*ps.Program {
	g := proggen.New(c.seed)
	var progs []*ps.Program
	mutIdx, parMutIdx := 0, 0
	for pid := 1; pid <= c.programs; pid++ {
		isPar := g.R.Intn(100) < 30
		if c.flowsOnly {
			isPar = false
		}
		if c.parOnly {
			isPar = true
		}
		var p *ps.Program
		switch {
		case isPar && g.R.Intn(100) < 22:
			kinds := []string{"coe-end", "slice-unassignable", "map-unassignable"}
			p = g.MutatedParallelKind(pid, kinds[parMutIdx%len(kinds)])
			parMutIdx++
		case isPar:
			p = g.ParallelProgram(pid)
		case g.R.Intn(100) < 35:
			kind := proggen.MutKinds[mutIdx%len(proggen.MutKinds)]
			mutIdx++
			p = g.MutatedFlow(pid, kind)
		case g.R.Intn(100) < 22:
			p = g.PlainFlow(pid)
		default:
			p = g.WellFormedFlow(pid)
		}
		progs = append(progs, p)
	}
	if !c.noKnown {
		progs = append(progs, g.KnownPrograms(9001, c.knownPer)...)
	}
	return progs
}

// makeBatches groups main-stream programs into packages of batchSize and
// gives every known-stream program a package of its own.
func makeBatches(c *config, states []*progState) []*batch {
	var out []*batch
	var cur *batch
	n := 0
	for _, st := range states {
		if st.Known {
			b := &batch{Name: fmt.Sprintf("k%04d", st.P.PID), Known: true, Progs: []*progState{st}}
			st.Batch = b
			out = append(out, b)
			continue
		}
		if cur == nil || len(cur.Progs) >= c.batchSize {
			cur = &batch{Name: fmt.Sprintf("b%03d", n)}
			n++
			out = append(out, cur)
		}
		cur.Progs = append(cur.Progs, st)
		st.Batch = cur
	}
	return out
}

// ---------------------------------------------------------------------
// Output.

func b2i(b bool) int {
	if b {
		return 1
	}
	return 0
}

func writeOutput(c *config, states []*progState, elapsed time.Duration) error {
	f, err := os.Create(c.out)
	if err != nil {
		return err
	}
	defer f.Close()
	w := bufio.NewWriterSize(f, 1<<20)
	defer w.Flush()

	emit := func(format string, a ...interface{}) { fmt.Fprintf(w, format+"\n", a...) }
	fmt.Fprintf(w, "progrun version=1 seed=%d programs=%d repo=%s defaultconc=%d replay=%d\n",
		c.seed, c.programs, c.repo, progoracle.DefaultConc, b2i(c.replay != ""))
	for _, t := range ps.Types {
		emit("T %d shape=%s home=%s comparable=%d flowvalue=%d", t.ID, t.Shape, t.Home, b2i(t.Comparable), b2i(isFlowType(t.ID)))
	}

	nX, nXK := 0, 0
	xByProp := map[string]int{}
	report := func(st *progState, sid string, ms []progoracle.Mismatch) {
		for _, m := range ms {
			tag := "X"
			if st.Known {
				tag = "XK"
				nXK++
			} else {
				nX++
				xByProp[m.Prop]++
			}
			line := fmt.Sprintf("%s %d %s %s %s", tag, st.P.PID, sid, m.Prop, m.Msg)
			emit("%s", line)
			if tag == "X" {
				fmt.Println(line)
			}
		}
	}

	streams := map[string]int{}
	accept, reject, scenarios, calls := 0, 0, 0, 0
	modProgs, modScen := 0, 0
	forms, shapes, opts, diags := map[string]int{}, map[string]int{}, map[string]int{}, map[string]int{}
	for _, st := range states {
		p := st.P
		for _, l := range p.SpecLines() {
			emit("%s", l)
		}
		streams[p.Stream]++
		if p.ModSub {
			modProgs++
		}
		coverage(p, forms, shapes, opts)
		diag := "-"
		if len(st.Diag) > 0 {
			diag = strings.Join(st.Diag, ",")
		}
		for _, d := range st.Diag {
			if !st.Known {
				diags[d]++
			}
		}
		verdict := "reject"
		if st.Accept {
			verdict = "accept"
			accept++
		} else {
			reject++
		}
		emit("A %d %s exit=%d diag=%s toolpanic=%d file-named-in-diag=%d genfile-written=%d",
			p.PID, verdict, st.Exit, diag, b2i(st.ToolPanic), b2i(st.FileNamed), b2i(st.GenWritten))
		report(st, "-", checkAccept(st))
		if st.HaveG {
			mc := "na"
			if p.ModSub {
				mc = fmt.Sprint(b2i(st.ModCompiles))
			}
			emit("G %d parses=%d typechecks=%d directives_left=%d astdiff=%s deterministic=%d sourcemap_same=%s modifier_compiles=%s hygiene=%s shared=%s tagsrun=%s",
				p.PID, b2i(st.Parses), b2i(st.Typechecks), st.DirLeft, st.AstDiff, b2i(st.Deterministic), st.SourceMapSame, mc, orNA(st.Hygiene), orNA(st.Shared), orNA(st.TagsRun))
			if p.Kind == "flow" && st.Parses {
				emit("GD %d %s", p.PID, st.Deps)
			}
			report(st, "-", checkStatic(st))
		}
		if !st.Runnable {
			continue
		}
		for _, sc := range p.Scenarios {
			emit("%s", sc.Line(p.PID))
			lines := st.obs[sc.SID]
			for _, l := range lines {
				emit("O %d %d %s", p.PID, sc.SID, l)
			}
			o := progoracle.ParseObs(lines)
			var mms []progoracle.Mismatch
			if p.ModSub && sc.Cancel == "none" {
				modScen++
				if !st.ModCompiles {
					emit("O %d %d modifier ret=na results=na calls=na compiled=0", p.PID, sc.SID)
				} else {
					mo := progoracle.ParseObs(st.modObs[sc.SID])
					r, rs, cs := progoracle.ModifierLine(sc, o, mo)
					emit("O %d %d modifier ret=%s results=%s calls=%s compiled=1", p.PID, sc.SID, r, rs, cs)
					if r != "same" || rs != "same" || cs != "same" {
						msg := fmt.Sprintf("ret=%s_results=%s_calls=%s", r, rs, cs)
						if mo.Crash != "" {
							msg += "_" + strings.Join(strings.Fields(mo.Crash), "_")
						}
						mms = append(mms, progoracle.Mismatch{Prop: "modifier", Msg: msg})
					}
					mms = append(mms, progoracle.CheckModifier(p, sc, mo)...)
				}
			}
			emit("E %d %d", p.PID, sc.SID)
			scenarios++
			calls += len(o.Calls)
			var ms []progoracle.Mismatch
			if p.Kind == "flow" {
				ms = progoracle.CheckFlow(p, sc, o)
			} else {
				ms = progoracle.CheckPar(p, sc, o)
			}
			report(st, fmt.Sprint(sc.SID), append(ms, mms...))
		}
	}

	var sk []string
	for s := range streams {
		sk = append(sk, s)
	}
	sort.Strings(sk)
	var ss []string
	for _, s := range sk {
		ss = append(ss, fmt.Sprintf("%s:%d", s, streams[s]))
	}
	summary := fmt.Sprintf("summary programs=%d streams=%s accept=%d reject=%d scenarios=%d calls=%d X=%d XK=%d xprops=%s forms=%s shapes=%s opts=%s diags=%s seconds=%.1f modifier=%d/%d",
		len(states), strings.Join(ss, ","), accept, reject, scenarios, calls, nX, nXK,
		mapStr(xByProp), mapStr(forms), mapStr(shapes), mapStr(opts), mapStr(diags), elapsed.Seconds(), modProgs, modScen)
	emit("%s", summary)
	fmt.Println(summary)
	return nil
}

func mapStr(m map[string]int) string {
	if len(m) == 0 {
		return "-"
	}
	var ks []string
	for k := range m {
		ks = append(ks, k)
	}
	sort.Strings(ks)
	var out []string
	for _, k := range ks {
		out = append(out, fmt.Sprintf("%s:%d", k, m[k]))
	}
	return strings.Join(out, ",")
}

func coverage(p *ps.Program, forms, shapes, opts map[string]int) {
	ty := func(xs []int) {
		for _, x := range xs {
			shapes[ps.Types[x].Shape]++
		}
	}
	opts[p.Kind]++
	if p.Kind == "flow" {
		ty(p.Params)
		ty(p.Results)
		for _, t := range p.Tasks {
			forms[t.Form]++
			ty(t.Ins)
			ty(t.Outs)
			ty(t.PIns)
			if t.Pred {
				forms["pred-"+t.PForm]++
				opts["pred"]++
			}
			if t.FB {
				opts["fallback"]++
			}
			if t.Invoke {
				opts["invoke"]++
			}
			if t.Instr {
				opts["instr"]++
			}
			if len(t.Outs) > 1 {
				opts["multi-output"]++
			}
		}
	} else {
		for _, t := range p.PTasks {
			forms[t.Form]++
			if t.Instr {
				opts["instr"]++
			}
		}
		if len(p.Groups) > 0 {
			opts["tasks-group"]++
		}
		for _, s := range p.Slices {
			forms["slice-"+s.Form]++
			ty([]int{s.Elem})
			opts["slice"]++
			opts[fmt.Sprintf("len%d", s.Len)]++
			if s.End {
				opts["slice-end"]++
			}
			if s.Named {
				opts["slice-named"]++
			}
			if !s.Idx {
				opts["slice-noidx"]++
			}
		}
		for _, m := range p.Maps {
			forms["map-"+m.Form]++
			ty([]int{m.Key, m.Val})
			opts["map"]++
			opts[fmt.Sprintf("len%d", m.Len)]++
			if m.End {
				opts["map-end"]++
			}
		}
		if p.COE != "" {
			opts["coe-"+p.COE]++
		}
	}
	if p.Conc != 0 {
		opts["conc"]++
	}
	if p.Emitters > 0 {
		opts[fmt.Sprintf("emitters%d", p.Emitters)]++
	}
	if p.InstrDir {
		opts["instrdir"]++
	}
	if p.AutoInstr {
		opts["autoinstr"]++
	}
	if p.Mode == "source-map" {
		opts["source-map"]++
	}
	if p.Wrap {
		opts["wrap"]++
	}
	if p.Generic {
		opts["generic"]++
	}
	if p.Quirk != "" {
		opts["quirk-"+p.Quirk]++
	}
	if p.ModSub {
		opts["modsubset"]++
	}
	for _, sl := range p.Slices {
		if sl.Elem != sl.Param {
			opts["slice-elem-ne-param"]++
		}
	}
	for _, m := range p.Maps {
		if m.Key != m.KParam || m.Val != m.VParam {
			opts["map-elem-ne-param"]++
		}
	}
	if p.Site != "" && p.Site != "assign" {
		opts["site-"+p.Site]++
	}
	if p.TyAlias {
		opts["tyalias"]++
	}
}

// checkAccept is the accept part of the oracle.
func checkAccept(st *progState) []progoracle.Mismatch {
	var out []progoracle.Mismatch
	add := func(prop, format string, a ...interface{}) {
		out = append(out, progoracle.Mismatch{Prop: prop, Msg: strings.Join(strings.Fields(fmt.Sprintf(format, a...)), "_")})
	}
	want, classes := progoracle.WellFormed(st.P)
	if st.ToolPanic {
		add("toolpanic", "cff panicked")
	}
	if want != st.Accept {
		if want {
			add("accept", "well-formed program refused: %s", firstLine(st.Stderr))
		} else {
			add("accept", "ill-formed program accepted (expected one of %v)", classes)
		}
		return out
	}
	if st.Accept {
		if st.Exit != 0 {
			add("accept", "accepted but exit=%d", st.Exit)
		}
		if !st.GenWritten {
			add("accept", "accepted alone but the package run wrote no generated file")
		}
		return out
	}
	if st.Exit == 0 {
		add("accept", "refused but exit=0")
	}
	if !st.FileNamed {
		add("accept", "refused but no diagnostic names the file")
	}
	if st.GenWritten {
		add("accept", "refused but a generated file was written")
	}
	hit := false
	for _, d := range st.Diag {
		for _, cl := range classes {
			if d == cl {
				hit = true
			}
		}
	}
	if !hit {
		add("diag", "diagnostics %v contain none of the expected classes %v", st.Diag, classes)
	}
	return out
}

func checkStatic(st *progState) []progoracle.Mismatch {
	var out []progoracle.Mismatch
	add := func(format string, a ...interface{}) {
		out = append(out, progoracle.Mismatch{Prop: "static", Msg: strings.Join(strings.Fields(fmt.Sprintf(format, a...)), "_")})
	}
	if !st.Parses {
		add("generated file does not parse")
		return out
	}
	if !st.Typechecks {
		add("generated code does not type-check: %s", st.BuildErr)
	}
	if st.DirLeft != 0 {
		add("%d directive calls left in the generated file", st.DirLeft)
	}
	if st.AstDiff != "ok" {
		add("astdiff %s", st.AstDiff)
	}
	if st.Hygiene != "" && st.Hygiene != "ok" {
		add("hygiene %s", st.Hygiene)
	}
	if !st.Deterministic {
		add("generated file differs between runs")
	}
	if st.P.ModSub && !st.ModCompiles {
		add("modifier mode: %s", st.ModErr)
	}
	if st.SourceMapSame == "0" {
		add("source-map output differs from base output beyond comments")
	}
	return out
}

func firstLine(s string) string {
	for _, l := range strings.Split(s, "\n") {
		if strings.TrimSpace(l) != "" && !strings.HasPrefix(l, "Processed ") {
			if len(l) > 200 {
				l = l[:200]
			}
			return l
		}
	}
	return ""
}

func isFlowType(id int) bool {
	for _, x := range ps.FlowTypes {
		if x == id {
			return true
		}
	}
	return false
}

func orNA(s string) string {
	if s == "" {
		return "na"
	}
	return s
}
