package main

import (
	"bytes"
	"fmt"
	"go/build/constraint"
	"math/rand"
	"sort"
	"strings"

	"go.uber.org/cff/internal"
)

// ------------------------------------------------------------ expressions

var btTags = []string{"cff", "a", "b"}

// enumExprs returns all constraint expressions over btTags with exactly
// 1..maxN AST nodes (tag = 1 node, !x = 1+|x|, x&&y / x||y = 1+|x|+|y|),
// indexed by size. The order is deterministic.
func enumExprs(maxN int) [][]constraint.Expr {
	by := make([][]constraint.Expr, maxN+1)
	for n := 1; n <= maxN; n++ {
		if n == 1 {
			for _, t := range btTags {
				by[1] = append(by[1], &constraint.TagExpr{Tag: t})
			}
			continue
		}
		for _, x := range by[n-1] {
			by[n] = append(by[n], &constraint.NotExpr{X: x})
		}
		for l := 1; l <= n-2; l++ {
			r := n - 1 - l
			for _, x := range by[l] {
				for _, y := range by[r] {
					by[n] = append(by[n], &constraint.AndExpr{X: x, Y: y})
				}
			}
		}
		for l := 1; l <= n-2; l++ {
			r := n - 1 - l
			for _, x := range by[l] {
				for _, y := range by[r] {
					by[n] = append(by[n], &constraint.OrExpr{X: x, Y: y})
				}
			}
		}
	}
	return by
}

// randExpr builds a random expression with at most maxN nodes.
func randExpr(r *rand.Rand, maxN int, tags []string) constraint.Expr {
	if maxN <= 1 {
		return &constraint.TagExpr{Tag: tags[r.Intn(len(tags))]}
	}
	switch k := r.Intn(10); {
	case k < 2:
		return &constraint.TagExpr{Tag: tags[r.Intn(len(tags))]}
	case k < 4:
		return &constraint.NotExpr{X: randExpr(r, maxN-1, tags)}
	default:
		if maxN < 3 {
			return &constraint.NotExpr{X: randExpr(r, maxN-1, tags)}
		}
		l := 1 + r.Intn(maxN-2)
		x, y := randExpr(r, l, tags), randExpr(r, maxN-1-l, tags)
		if k < 7 {
			return &constraint.AndExpr{X: x, Y: y}
		}
		return &constraint.OrExpr{X: x, Y: y}
	}
}

// render prints e in //go:build syntax so that constraint.Parse gives back
// exactly the same tree: !(!x) instead of the unparsable !!x that
// Expr.String produces, and explicit parentheses around a right operand of
// the same operator (the parser is left-associative).
func render(e constraint.Expr) string {
	switch e := e.(type) {
	case *constraint.TagExpr:
		return e.Tag
	case *constraint.NotExpr:
		if t, ok := e.X.(*constraint.TagExpr); ok {
			return "!" + t.Tag
		}
		return "!(" + render(e.X) + ")"
	case *constraint.AndExpr:
		x, y := render(e.X), render(e.Y)
		if _, ok := e.X.(*constraint.OrExpr); ok {
			x = "(" + x + ")"
		}
		switch e.Y.(type) {
		case *constraint.OrExpr, *constraint.AndExpr:
			y = "(" + y + ")"
		}
		return x + " && " + y
	case *constraint.OrExpr:
		x, y := render(e.X), render(e.Y)
		if _, ok := e.Y.(*constraint.OrExpr); ok {
			y = "(" + y + ")"
		}
		return x + " || " + y
	}
	panic("unknown expr")
}

// prefix appends the prefix-form tokens of e.
func prefixToks(e constraint.Expr, toks []string) []string {
	switch e := e.(type) {
	case *constraint.TagExpr:
		return append(toks, "t:"+e.Tag)
	case *constraint.NotExpr:
		return prefixToks(e.X, append(toks, "!"))
	case *constraint.AndExpr:
		return prefixToks(e.Y, prefixToks(e.X, append(toks, "&")))
	case *constraint.OrExpr:
		return prefixToks(e.Y, prefixToks(e.X, append(toks, "|")))
	}
	panic("unknown expr")
}

func prefixForm(e constraint.Expr) string {
	return strings.Join(prefixToks(e, nil), ",")
}

func collectTags(e constraint.Expr, set map[string]bool) {
	switch e := e.(type) {
	case *constraint.TagExpr:
		set[e.Tag] = true
	case *constraint.NotExpr:
		collectTags(e.X, set)
	case *constraint.AndExpr:
		collectTags(e.X, set)
		collectTags(e.Y, set)
	case *constraint.OrExpr:
		collectTags(e.X, set)
		collectTags(e.Y, set)
	}
}

// ------------------------------------------------------------ line analysis

const (
	lkOther = iota // not shaped like a constraint line
	lkExpr         // IsGoBuild/IsPlusBuild and Parse succeeded
	lkBad          // IsGoBuild/IsPlusBuild but Parse failed
)

type btLine struct {
	text string
	kind int
	expr constraint.Expr
}

// splitLines splits at '\n'; a final empty piece (text ends in '\n', or is
// empty) is not a line. '\r' is NOT treated specially.
func splitLines(bs []byte) []string {
	if len(bs) == 0 {
		return nil
	}
	parts := strings.Split(string(bs), "\n")
	if parts[len(parts)-1] == "" {
		parts = parts[:len(parts)-1]
	}
	return parts
}

func analyse(bs []byte) []btLine {
	var res []btLine
	for _, l := range splitLines(bs) {
		bl := btLine{text: l}
		if constraint.IsGoBuild(l) || constraint.IsPlusBuild(l) {
			e, err := constraint.Parse(l)
			if err != nil {
				bl.kind = lkBad
			} else {
				bl.kind = lkExpr
				bl.expr = e
			}
		}
		res = append(res, bl)
	}
	return res
}

type btSummary struct {
	exprs  []string // prefix forms / ERR, in order
	shape  string   // one letter per line: g (//go:build), p (// +build), o (any other line)
	parsed []constraint.Expr
	others []string
	bads   []string
}

func summarise(ls []btLine) btSummary {
	var s btSummary
	for _, l := range ls {
		switch {
		case l.kind == lkOther:
			s.shape += "o"
		case constraint.IsGoBuild(l.text):
			s.shape += "g"
		default:
			s.shape += "p"
		}
		switch l.kind {
		case lkOther:
			s.others = append(s.others, l.text)
		case lkExpr:
			s.exprs = append(s.exprs, prefixForm(l.expr))
			s.parsed = append(s.parsed, l.expr)
		case lkBad:
			s.exprs = append(s.exprs, "ERR")
			s.bads = append(s.bads, l.text)
		}
	}
	return s
}

func dash(s string) string {
	if s == "" {
		return "-"
	}
	return s
}

func sameStrings(a, b []string) bool {
	if len(a) != len(b) {
		return false
	}
	for i := range a {
		if a[i] != b[i] {
			return false
		}
	}
	return true
}

// btCase feeds one header to the real function, prints the BT line and runs
// the tool's own truth-table sanity check.
func btCase(o *out, id string, header []byte) {
	var buf bytes.Buffer
	err := internal.VerifWriteInvertedCffTag(&buf, header)
	in := summarise(analyse(header))
	res := summarise(analyse(buf.Bytes()))

	otherSame := sameStrings(in.others, res.others)
	badSame := sameStrings(in.bads, res.bads)
	o.add("BT %s in=%s out=%s other_in=%d other_out=%d other_same=%d bad_in=%d bad_out=%d bad_same=%d in_lines=%s out_lines=%s",
		id, joinOrDash(in.exprs, ";"), joinOrDash(res.exprs, ";"),
		len(in.others), len(res.others), b2i(otherSame),
		len(in.bads), len(res.bads), b2i(badSame),
		dash(in.shape), dash(res.shape))

	// ---- sanity check (not part of the protocol's verdict)
	if err != nil {
		o.add("X BT %s write error: %v", id, err)
		return
	}
	if !otherSame {
		o.add("X BT %s non-constraint lines changed", id)
	}
	outExprs := res.parsed
	if !badSame {
		// Constraint-shaped output lines that go/build/constraint rejects
		// and that are not verbatim copies of rejected input lines.
		remaining := map[string]int{}
		for _, b := range in.bads {
			remaining[b]++
		}
		var fresh []string
		for _, b := range res.bads {
			if remaining[b] > 0 {
				remaining[b]--
			} else {
				fresh = append(fresh, b)
			}
		}
		for _, n := range remaining {
			if n > 0 {
				o.add("X BT %s malformed constraint lines changed or dropped header=%q output=%q", id, header, buf.String())
				return
			}
		}
		nested := false
		for _, e := range in.parsed {
			if hasNestedNot(e) {
				nested = true
			}
		}
		for _, b := range fresh {
			e, ok := lenientGoBuild(b)
			if !ok {
				o.add("X BT %s output line is not even leniently parsable: %q header=%q", id, b, header)
				return
			}
			outExprs = append(outExprs, e)
		}
		if nested {
			// Known defect class: the input negates a negation, "!(!x)", and the
			// function prints it with Expr.String as "!!x", which the go
			// command rejects. Reported as a note; the semantic check goes
			// on with a lenient reading of the line.
			o.add("N BT %s unparsable_out=%d header=%q output=%q", id, len(fresh), header, buf.String())
		} else {
			o.add("X BT %s unparsable output without nested negation in the input header=%q output=%q", id, header, buf.String())
		}
	}
	tagset := map[string]bool{"cff": true}
	for _, e := range in.parsed {
		collectTags(e, tagset)
	}
	for _, e := range outExprs {
		collectTags(e, tagset)
	}
	var tags []string
	for t := range tagset {
		tags = append(tags, t)
	}
	sort.Strings(tags)
	if len(tags) > 12 {
		o.add("X BT %s too many tags for the truth table", id)
		return
	}
	conj := func(es []constraint.Expr, val map[string]bool) bool {
		for _, e := range es {
			if !e.Eval(func(t string) bool { return val[t] }) {
				return false
			}
		}
		return true
	}
	for m := 0; m < 1<<len(tags); m++ {
		val := map[string]bool{}
		for i, t := range tags {
			val[t] = m&(1<<i) != 0
		}
		flipped := map[string]bool{}
		for k, v := range val {
			flipped[k] = v
		}
		flipped["cff"] = !val["cff"]
		if conj(outExprs, val) != conj(in.parsed, flipped) {
			o.add("X BT %s truth table differs at %v header=%q output=%q", id, val, header, buf.String())
			return
		}
	}
}

func hasNestedNot(e constraint.Expr) bool {
	switch e := e.(type) {
	case *constraint.NotExpr:
		if _, ok := e.X.(*constraint.NotExpr); ok {
			return true
		}
		return hasNestedNot(e.X)
	case *constraint.AndExpr:
		return hasNestedNot(e.X) || hasNestedNot(e.Y)
	case *constraint.OrExpr:
		return hasNestedNot(e.X) || hasNestedNot(e.Y)
	}
	return false
}

// lenientGoBuild parses a //go:build line like go/build/constraint does,
// except that it accepts "!!x". Used only by the sanity check.
func lenientGoBuild(line string) (constraint.Expr, bool) {
	const pfx = "//go:build"
	if !strings.HasPrefix(line, pfx) {
		return nil, false
	}
	var toks []string
	rest := line[len(pfx):]
	for i := 0; i < len(rest); {
		c := rest[i]
		switch {
		case c == ' ' || c == '\t':
			i++
		case c == '(' || c == ')' || c == '!':
			toks = append(toks, string(c))
			i++
		case strings.HasPrefix(rest[i:], "&&") || strings.HasPrefix(rest[i:], "||"):
			toks = append(toks, rest[i:i+2])
			i += 2
		default:
			j := i
			for j < len(rest) && (rest[j] == '_' || rest[j] == '.' || rest[j] >= '0' && rest[j] <= '9' ||
				rest[j] >= 'a' && rest[j] <= 'z' || rest[j] >= 'A' && rest[j] <= 'Z') {
				j++
			}
			if j == i {
				return nil, false
			}
			toks = append(toks, "t:"+rest[i:j])
			i = j
		}
	}
	pos := 0
	peek := func() string {
		if pos < len(toks) {
			return toks[pos]
		}
		return ""
	}
	var parseOr func() (constraint.Expr, bool)
	var parseNot func() (constraint.Expr, bool)
	parseNot = func() (constraint.Expr, bool) {
		t := peek()
		switch {
		case t == "!":
			pos++
			x, ok := parseNot()
			if !ok {
				return nil, false
			}
			return &constraint.NotExpr{X: x}, true
		case t == "(":
			pos++
			x, ok := parseOr()
			if !ok || peek() != ")" {
				return nil, false
			}
			pos++
			return x, true
		case strings.HasPrefix(t, "t:"):
			pos++
			return &constraint.TagExpr{Tag: t[2:]}, true
		}
		return nil, false
	}
	parseAnd := func() (constraint.Expr, bool) {
		x, ok := parseNot()
		for ok && peek() == "&&" {
			pos++
			var y constraint.Expr
			if y, ok = parseNot(); ok {
				x = &constraint.AndExpr{X: x, Y: y}
			}
		}
		return x, ok
	}
	parseOr = func() (constraint.Expr, bool) {
		x, ok := parseAnd()
		for ok && peek() == "||" {
			pos++
			var y constraint.Expr
			if y, ok = parseAnd(); ok {
				x = &constraint.OrExpr{X: x, Y: y}
			}
		}
		return x, ok
	}
	e, ok := parseOr()
	if !ok || pos != len(toks) {
		return nil, false
	}
	return e, true
}

// ------------------------------------------------------------ section

func runBT(cfg *config, o *out) error {
	maxN := 5
	nHeaders := 320
	if cfg.thorough {
		maxN = 7
		nHeaders = 3000
	}
	by := enumExprs(maxN)
	k := 0
	for n := 1; n <= maxN; n++ {
		for _, e := range by[n] {
			k++
			text := render(e)
			// The enumeration is only exhaustive if the rendering is faithful.
			if back, err := constraint.Parse("//go:build " + text); err != nil || prefixForm(back) != prefixForm(e) {
				o.add("X BT g%d harness rendering not faithful: %q (%v)", k, text, err)
				continue
			}
			btCase(o, fmt.Sprintf("g%d", k), []byte("//go:build "+text+"\n"))
			if lines, err := constraint.PlusBuildLines(e); err == nil {
				btCase(o, fmt.Sprintf("p%d", k), []byte(strings.Join(lines, "\n")+"\n"))
			}
		}
	}

	r := cfg.subRand("BT")
	for i := 1; i <= nHeaders; i++ {
		btCase(o, fmt.Sprintf("h%d", i), randHeader(r))
	}
	return nil
}

var btOrdinary = []string{
	"// Copyright (c) 2022 Uber Technologies, Inc.",
	"// Package x does things.",
	"//",
	"/*",
	" * a block comment line",
	"*/",
	"/* one-line block */",
	"//go:generate cff ./...",
	"// go:build cff",
	"//go:buildx cff",
	"// +buildx cff",
	"//nolint:all",
	"// cff && !cff",
	"\t// indented comment",
	"//  +build is mentioned here: no",
}

var btMalformed = []string{
	"//go:build &&",
	"//go:build !!a",
	"//go:build (cff",
	"//go:build cff &&",
	"//go:build",
}

var btHandPlus = []string{
	"// +build cff",
	"//+build cff",
	"// +build !cff",
	"// +build cff,!a b",
	"// +build a,b cff,!b",
	"// +build cff a",
	"// +build !a,!cff",
	"//  +build   cff   b",
	"// +build a",
}

// randHeader builds the bytes before a package clause: 1-3 constraint items
// of mixed syntax interleaved with ordinary comment lines, blank lines and
// (sometimes) a malformed constraint line.
func randHeader(r *rand.Rand) []byte {
	var items [][]string // each item is a group of consecutive lines
	nc := 1 + r.Intn(3)
	for i := 0; i < nc; i++ {
		switch r.Intn(4) {
		case 0: // //go:build, faithful rendering
			items = append(items, []string{"//go:build " + render(randExpr(r, 1+r.Intn(7), btTags))})
		case 1: // //go:build, as gofmt-style String() prints it (may contain "!!")
			s := randExpr(r, 1+r.Intn(7), btTags).String()
			if _, err := constraint.Parse("//go:build " + s); err != nil {
				s = render(randExpr(r, 1+r.Intn(5), btTags))
			}
			items = append(items, []string{"//go:build " + s})
		case 2: // // +build lines derived from an expression
			e := randExpr(r, 1+r.Intn(6), btTags)
			if lines, err := constraint.PlusBuildLines(e); err == nil {
				items = append(items, lines)
			} else {
				items = append(items, []string{btHandPlus[r.Intn(len(btHandPlus))]})
			}
		default:
			items = append(items, []string{btHandPlus[r.Intn(len(btHandPlus))]})
		}
	}
	if r.Intn(4) == 0 {
		items = append(items, []string{btMalformed[r.Intn(len(btMalformed))]})
	}
	no := r.Intn(5)
	for i := 0; i < no; i++ {
		items = append(items, []string{btOrdinary[r.Intn(len(btOrdinary))]})
	}
	nb := r.Intn(4)
	for i := 0; i < nb; i++ {
		blank := ""
		if r.Intn(5) == 0 {
			blank = []string{" ", "\t", "  \t"}[r.Intn(3)]
		}
		items = append(items, []string{blank})
	}
	r.Shuffle(len(items), func(i, j int) { items[i], items[j] = items[j], items[i] })
	var lines []string
	for _, it := range items {
		lines = append(lines, it...)
	}
	s := strings.Join(lines, "\n")
	if r.Intn(8) != 0 {
		s += "\n" // usually the header ends with a newline
	}
	return []byte(s)
}
