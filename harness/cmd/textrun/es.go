package main

import (
	"context"
	"errors"
	"fmt"
	"math/rand"
	"reflect"
	"strings"
	"time"

	"go.uber.org/cff"
)

// ------------------------------------------------------------ recording leaf

// esExpect holds the argument values of the event being sent, so that every
// recording sub-emitter can check that it received exactly those.
type esExpect struct {
	ctx   context.Context
	err   error
	pv    interface{}
	dur   time.Duration
	state cff.SchedulerState
	fi    *cff.FlowInfo
	ti    *cff.TaskInfo
	di    *cff.DirectiveInfo
	pi    *cff.ParallelInfo
	si    *cff.SchedulerInfo
}

type esDrive struct {
	exp    esExpect
	argsOK bool
}

type recLeaf struct {
	id    int
	drive *esDrive
	// got[k] is the time-ordered list of events received by the k-th
	// sub-emitter of every family (k-th FlowInit call, k-th TaskInit call, ...).
	got   [][]string
	inits map[string]int
}

func (l *recLeaf) reset(d *esDrive) {
	l.drive = d
	l.got = nil
	l.inits = map[string]int{}
}

func (l *recLeaf) initSub(family string, ok bool) *recSub {
	k := l.inits[family]
	l.inits[family] = k + 1
	for len(l.got) <= k {
		l.got = append(l.got, nil)
	}
	l.got[k] = append(l.got[k], family+"Init")
	if !ok {
		l.drive.argsOK = false
	}
	return &recSub{leaf: l, k: k}
}

func (l *recLeaf) FlowInit(i *cff.FlowInfo) cff.FlowEmitter {
	return l.initSub("Flow", i == l.drive.exp.fi)
}

func (l *recLeaf) TaskInit(t *cff.TaskInfo, d *cff.DirectiveInfo) cff.TaskEmitter {
	return l.initSub("Task", t == l.drive.exp.ti && d == l.drive.exp.di)
}

func (l *recLeaf) ParallelInit(i *cff.ParallelInfo) cff.ParallelEmitter {
	return l.initSub("Parallel", i == l.drive.exp.pi)
}

func (l *recLeaf) SchedulerInit(i *cff.SchedulerInfo) cff.SchedulerEmitter {
	return l.initSub("Scheduler", i == l.drive.exp.si)
}

type recSub struct {
	leaf *recLeaf
	k    int
}

func (s *recSub) ev(name string, ok bool) {
	s.leaf.got[s.k] = append(s.leaf.got[s.k], name)
	if !ok {
		s.leaf.drive.argsOK = false
	}
}

func (s *recSub) x() *esExpect { return &s.leaf.drive.exp }

func (s *recSub) FlowSuccess(c context.Context) { s.ev("FlowSuccess", c == s.x().ctx) }
func (s *recSub) FlowError(c context.Context, e error) {
	s.ev("FlowError", c == s.x().ctx && e == s.x().err)
}
func (s *recSub) FlowDone(c context.Context, d time.Duration) {
	s.ev("FlowDone", c == s.x().ctx && d == s.x().dur)
}
func (s *recSub) ParallelSuccess(c context.Context) { s.ev("ParallelSuccess", c == s.x().ctx) }
func (s *recSub) ParallelError(c context.Context, e error) {
	s.ev("ParallelError", c == s.x().ctx && e == s.x().err)
}
func (s *recSub) ParallelDone(c context.Context, d time.Duration) {
	s.ev("ParallelDone", c == s.x().ctx && d == s.x().dur)
}
func (s *recSub) TaskSuccess(c context.Context) { s.ev("TaskSuccess", c == s.x().ctx) }
func (s *recSub) TaskError(c context.Context, e error) {
	s.ev("TaskError", c == s.x().ctx && e == s.x().err)
}
func (s *recSub) TaskErrorRecovered(c context.Context, e error) {
	s.ev("TaskErrorRecovered", c == s.x().ctx && e == s.x().err)
}
func (s *recSub) TaskSkipped(c context.Context, e error) {
	s.ev("TaskSkipped", c == s.x().ctx && e == s.x().err)
}
func (s *recSub) TaskPanic(c context.Context, pv interface{}) {
	s.ev("TaskPanic", c == s.x().ctx && pv == s.x().pv)
}
func (s *recSub) TaskPanicRecovered(c context.Context, pv interface{}) {
	s.ev("TaskPanicRecovered", c == s.x().ctx && pv == s.x().pv)
}
func (s *recSub) TaskDone(c context.Context, d time.Duration) {
	s.ev("TaskDone", c == s.x().ctx && d == s.x().dur)
}
func (s *recSub) EmitScheduler(st cff.SchedulerState) { s.ev("SchedState", st == s.x().state) }

// ------------------------------------------------------------ trees

type esNode struct {
	leaf     int // >0: leaf id; 0: stack
	children []*esNode
	built    cff.Emitter // the Go value built for this node (for sharing between stacks)
}

func randTree(r *rand.Rand, depth int, nLeaves int) *esNode {
	if depth <= 0 || (depth < 4 && r.Intn(5) < 2) {
		return &esNode{leaf: 1 + r.Intn(nLeaves)}
	}
	n := &esNode{}
	nc := r.Intn(5)
	for i := 0; i < nc; i++ {
		n.children = append(n.children, randTree(r, depth-1, nLeaves))
	}
	return n
}

func (n *esNode) prefix(toks []string) []string {
	if n.leaf > 0 {
		return append(toks, fmt.Sprintf("L%d", n.leaf))
	}
	toks = append(toks, fmt.Sprintf("S%d", len(n.children)))
	for _, c := range n.children {
		toks = c.prefix(toks)
	}
	return toks
}

func (n *esNode) leavesInOrder(acc []int) []int {
	if n.leaf > 0 {
		return append(acc, n.leaf)
	}
	for _, c := range n.children {
		acc = c.leavesInOrder(acc)
	}
	return acc
}

func (n *esNode) build(leaves map[int]*recLeaf) cff.Emitter {
	if n.leaf > 0 {
		return leaves[n.leaf]
	}
	var es []cff.Emitter
	for _, c := range n.children {
		es = append(es, c.build(leaves))
	}
	n.built = cff.EmitterStack(es...)
	return n.built
}

// stackNodes lists the stack (non-leaf) nodes below and including n.
func (n *esNode) stackNodes(acc []*esNode) []*esNode {
	if n.leaf > 0 {
		return acc
	}
	acc = append(acc, n)
	for _, c := range n.children {
		acc = c.stackNodes(acc)
	}
	return acc
}

// ------------------------------------------------------------ driving

type esCtxKey struct{}

// driveRoot sends the four phases to root and returns the sent event names.
func driveRoot(r *rand.Rand, root cff.Emitter, d *esDrive) (sent []string) {
	pick := func(names []string, min, max int) []string {
		n := min + r.Intn(max-min+1)
		var res []string
		for i := 0; i < n; i++ {
			res = append(res, names[r.Intn(len(names))])
		}
		return res
	}
	newArgs := func() {
		d.exp.ctx = context.WithValue(context.Background(), esCtxKey{}, r.Int())
		d.exp.err = errors.New(fmt.Sprint("err", r.Int()))
		d.exp.pv = fmt.Sprint("panic", r.Int())
		d.exp.dur = time.Duration(r.Int63n(1e9))
		d.exp.state = cff.SchedulerState{Pending: r.Intn(9), Ready: r.Intn(9), Waiting: r.Intn(9), IdleWorkers: r.Intn(9), Concurrency: 1 + r.Intn(9)}
	}

	// Flow
	d.exp.fi = &cff.FlowInfo{Name: "f", File: "f.go", Line: 1, Column: 2}
	newArgs()
	sent = append(sent, "FlowInit")
	fe := root.FlowInit(d.exp.fi)
	for _, ev := range pick([]string{"FlowSuccess", "FlowError", "FlowDone"}, 1, 4) {
		newArgs()
		sent = append(sent, ev)
		switch ev {
		case "FlowSuccess":
			fe.FlowSuccess(d.exp.ctx)
		case "FlowError":
			fe.FlowError(d.exp.ctx, d.exp.err)
		case "FlowDone":
			fe.FlowDone(d.exp.ctx, d.exp.dur)
		}
	}

	// Task: every task event at least once, in random order, plus repeats.
	d.exp.ti = &cff.TaskInfo{Name: "t", File: "f.go", Line: 3, Column: 4}
	d.exp.di = &cff.DirectiveInfo{Name: "f", Directive: cff.FlowDirective, File: "f.go", Line: 1, Column: 2}
	newArgs()
	sent = append(sent, "TaskInit")
	te := root.TaskInit(d.exp.ti, d.exp.di)
	taskEvs := []string{"TaskSuccess", "TaskError", "TaskErrorRecovered", "TaskPanic", "TaskPanicRecovered", "TaskSkipped", "TaskDone"}
	seq := append([]string(nil), taskEvs...)
	seq = append(seq, pick(taskEvs, 0, 3)...)
	r.Shuffle(len(seq), func(i, j int) { seq[i], seq[j] = seq[j], seq[i] })
	for _, ev := range seq {
		newArgs()
		sent = append(sent, ev)
		switch ev {
		case "TaskSuccess":
			te.TaskSuccess(d.exp.ctx)
		case "TaskError":
			te.TaskError(d.exp.ctx, d.exp.err)
		case "TaskErrorRecovered":
			te.TaskErrorRecovered(d.exp.ctx, d.exp.err)
		case "TaskPanic":
			te.TaskPanic(d.exp.ctx, d.exp.pv)
		case "TaskPanicRecovered":
			te.TaskPanicRecovered(d.exp.ctx, d.exp.pv)
		case "TaskSkipped":
			te.TaskSkipped(d.exp.ctx, d.exp.err)
		case "TaskDone":
			te.TaskDone(d.exp.ctx, d.exp.dur)
		}
	}

	// Parallel
	d.exp.pi = &cff.ParallelInfo{Name: "p", File: "f.go", Line: 5, Column: 6}
	newArgs()
	sent = append(sent, "ParallelInit")
	pe := root.ParallelInit(d.exp.pi)
	for _, ev := range pick([]string{"ParallelSuccess", "ParallelError", "ParallelDone"}, 1, 4) {
		newArgs()
		sent = append(sent, ev)
		switch ev {
		case "ParallelSuccess":
			pe.ParallelSuccess(d.exp.ctx)
		case "ParallelError":
			pe.ParallelError(d.exp.ctx, d.exp.err)
		case "ParallelDone":
			pe.ParallelDone(d.exp.ctx, d.exp.dur)
		}
	}

	// Scheduler
	d.exp.si = &cff.SchedulerInfo{Name: "f", Directive: cff.FlowDirective, File: "f.go", Line: 1, Column: 2}
	newArgs()
	sent = append(sent, "SchedulerInit")
	se := root.SchedulerInit(d.exp.si)
	ns := 1 + r.Intn(3)
	for i := 0; i < ns; i++ {
		newArgs()
		sent = append(sent, "SchedState")
		se.EmitScheduler(d.exp.state)
	}
	return sent
}

func runES(cfg *config, o *out) error {
	n := 400
	if cfg.thorough {
		n = 4000
	}
	const nLeaves = 4
	r := cfg.subRand("ES")

	leaves := map[int]*recLeaf{}
	for i := 1; i <= nLeaves; i++ {
		leaves[i] = &recLeaf{id: i}
	}

	outsider := &recLeaf{id: 5}
	leaves[5] = outsider
	for id := 1; id <= n; id++ {
		tree := randTree(r, 4, nLeaves)
		if id <= 3 { // make sure the degenerate roots are always present
			tree = []*esNode{{}, {leaf: 1}, {children: []*esNode{{leaf: 2}}}}[id-1]
		}
		d := &esDrive{argsOK: true}
		for _, l := range leaves {
			l.reset(d)
		}
		root := tree.build(leaves)
		// Sibling stacks: other stacks derived from the SAME Go values of sub-stacks of this tree,
		// built after the root. They are never driven; combining must have value semantics, so
		// they must not change what the root delivers (and the outsider must receive nothing).
		siblings := 0
		if id > 3 {
			for _, sn := range tree.stackNodes(nil) {
				if sn.built == nil || r.Intn(2) == 0 {
					continue
				}
				_ = cff.EmitterStack(sn.built, outsider)
				_ = cff.EmitterStack(outsider, sn.built)
				if r.Intn(2) == 0 {
					_ = cff.EmitterStack(sn.built, outsider, outsider)
				}
				siblings++
			}
		}
		var sent []string
		panicked := ""
		func() {
			defer func() {
				if p := recover(); p != nil {
					panicked = fmt.Sprint(p)
				}
			}()
			sent = driveRoot(r, root, d)
		}()

		var sb strings.Builder
		fmt.Fprintf(&sb, "ES %d tree=%s sent=%s", id, strings.Join(tree.prefix(nil), ","), joinOrDash(sent, ","))
		occ := map[int]int{}
		ok := panicked == ""
		for _, lid := range tree.leavesInOrder(nil) {
			occ[lid]++
			k := occ[lid]
			var got []string
			if k <= len(leaves[lid].got) {
				got = leaves[lid].got[k-1]
			}
			fmt.Fprintf(&sb, " leaf %d#%d got=%s", lid, k, joinOrDash(got, ","))
			if !sameStrings(got, sent) {
				ok = false
			}
		}
		// Sub-emitters that exist beyond the tree's occurrences (would mean
		// an emitter was initialised more often than it occurs).
		for lid := 1; lid <= nLeaves+1; lid++ {
			for k := occ[lid] + 1; k <= len(leaves[lid].got); k++ {
				fmt.Fprintf(&sb, " leaf %d#%d got=%s", lid, k, joinOrDash(leaves[lid].got[k-1], ","))
				ok = false
			}
		}
		fmt.Fprintf(&sb, " args=%d siblings=%d", b2i(d.argsOK), siblings)
		o.add("%s", sb.String())
		if panicked != "" {
			o.add("X ES %d panic: %s", id, panicked)
		} else if !ok || !d.argsOK {
			o.add("X ES %d fan-out differs from sent sequence", id)
		}
	}

	// ES0: EmitterStack() behaves as a no-op.
	nop := func() (ok bool) {
		defer func() {
			if recover() != nil {
				ok = false
			}
		}()
		e := cff.EmitterStack()
		if e == nil || reflect.TypeOf(e) != reflect.TypeOf(cff.NopEmitter()) {
			return false
		}
		d := &esDrive{argsOK: true}
		driveRoot(rand.New(rand.NewSource(1)), e, d)
		return true
	}()
	o.add("ES0 nop=%d", b2i(nop))
	if !nop {
		o.add("X ES0 EmitterStack() is not a no-op emitter")
	}

	// ES1: EmitterStack(e) returns e itself.
	l := &recLeaf{id: 99}
	same := cff.EmitterStack(l) == cff.Emitter(l)
	o.add("ES1 same=%d", b2i(same))
	if !same {
		o.add("X ES1 EmitterStack(e) != e")
	}
	return nil
}
