package main

import (
	"bytes"
	"crypto/sha256"
	"encoding/hex"
	"fmt"
	"io"
	"io/fs"
	"os"
	"os/exec"
	"path/filepath"
	"runtime"
	"sort"
	"strings"
	"sync"
)

// childTmp is the TMPDIR of all child processes (inside the scratch dir).
var childTmp string

// goEnv is the environment for every child process: offline, local toolchain.
func goEnv() []string {
	drop := map[string]bool{"GOFLAGS": true, "GOPROXY": true, "GOSUMDB": true, "GOTOOLCHAIN": true, "GOWORK": true, "TMPDIR": childTmp != ""}
	var env []string
	for _, kv := range os.Environ() {
		if i := strings.IndexByte(kv, '='); i > 0 && drop[kv[:i]] {
			continue
		}
		env = append(env, kv)
	}
	env = append(env, "GOFLAGS=-mod=mod", "GOPROXY=off", "GOSUMDB=off", "GOTOOLCHAIN=local", "GOWORK=off")
	if childTmp != "" {
		// cff drops a "*.go" file into the temp dir when its output does not
		// parse; keep that inside the scratch directory.
		env = append(env, "TMPDIR="+childTmp)
	}
	return env
}

// runIn runs a command in dir and returns its exit status and combined output.
// Exit status -1 means the process could not be started or was killed.
func runIn(dir string, name string, args ...string) (int, string) {
	return runEnv(nil, dir, name, args...)
}

// runCff runs the cff binary. Many cff processes run side by side, each
// loading and type-checking its package and all dependencies from source; the
// Go runtime knobs below only keep them from fighting over the CPUs (they
// do not influence what cff computes).
func runCff(dir string, bin string, args ...string) (int, string) {
	return runCffTmp("", dir, bin, args...)
}

// runCffTmp is runCff with a private TMPDIR (when tmp is not empty).
func runCffTmp(tmp string, dir string, bin string, args ...string) (int, string) {
	extra := []string{"GOGC=400", "GOMAXPROCS=2"}
	if tmp != "" {
		extra = append(extra, "TMPDIR="+tmp)
	}
	if v := os.Getenv("TEXTRUN_CFFENV"); v != "" {
		extra = strings.Fields(v)
	}
	return runEnv(extra, dir, bin, args...)
}

func runEnv(extra []string, dir string, name string, args ...string) (int, string) {
	cmd := exec.Command(name, args...)
	cmd.Dir = dir
	cmd.Env = append(goEnv(), extra...)
	var buf bytes.Buffer
	cmd.Stdout = &buf
	cmd.Stderr = &buf
	err := cmd.Run()
	if err == nil {
		return 0, buf.String()
	}
	if ee, ok := err.(*exec.ExitError); ok && ee.ExitCode() >= 0 {
		return ee.ExitCode(), buf.String()
	}
	return -1, buf.String() + err.Error()
}

// snapshot maps every regular file below root (slash-separated relative
// path) to the sha256 of its content; directories map to "dir".
func snapshot(root string) (map[string]string, error) {
	snap := map[string]string{}
	err := filepath.WalkDir(root, func(p string, d fs.DirEntry, err error) error {
		if err != nil {
			return err
		}
		rel, _ := filepath.Rel(root, p)
		rel = filepath.ToSlash(rel)
		if rel == "." {
			return nil
		}
		if d.IsDir() {
			snap[rel] = "dir"
			return nil
		}
		bs, err := os.ReadFile(p)
		if err != nil {
			return err
		}
		sum := sha256.Sum256(bs)
		snap[rel] = hex.EncodeToString(sum[:])
		return nil
	})
	return snap, err
}

func diffSnap(before, after map[string]string) (created, modified, deleted []string) {
	for p, h := range after {
		if old, ok := before[p]; !ok {
			created = append(created, p)
		} else if old != h {
			modified = append(modified, p)
		}
	}
	for p := range before {
		if _, ok := after[p]; !ok {
			deleted = append(deleted, p)
		}
	}
	sort.Strings(created)
	sort.Strings(modified)
	sort.Strings(deleted)
	return
}

// copyTree copies src to dst (dst must not exist), skipping entries for which
// skip returns true.
func copyTree(src, dst string, skip func(rel string, d fs.DirEntry) bool) error {
	return filepath.WalkDir(src, func(p string, d fs.DirEntry, err error) error {
		if err != nil {
			return err
		}
		rel, _ := filepath.Rel(src, p)
		if rel != "." && skip != nil && skip(filepath.ToSlash(rel), d) {
			if d.IsDir() {
				return filepath.SkipDir
			}
			return nil
		}
		target := filepath.Join(dst, rel)
		if d.IsDir() {
			return os.MkdirAll(target, 0o755)
		}
		if !d.Type().IsRegular() {
			return nil
		}
		in, err := os.Open(p)
		if err != nil {
			return err
		}
		defer in.Close()
		outf, err := os.OpenFile(target, os.O_CREATE|os.O_WRONLY|os.O_TRUNC, 0o644)
		if err != nil {
			return err
		}
		if _, err := io.Copy(outf, in); err != nil {
			outf.Close()
			return err
		}
		return outf.Close()
	})
}

func writeFiles(root string, files map[string]string) error {
	for rel, content := range files {
		p := filepath.Join(root, filepath.FromSlash(rel))
		if err := os.MkdirAll(filepath.Dir(p), 0o755); err != nil {
			return err
		}
		if err := os.WriteFile(p, []byte(content), 0o644); err != nil {
			return err
		}
	}
	return nil
}

var (
	cffOnce sync.Once
	cffBin  string
	cffErr  error
)

// buildCff builds the cff command of cfg.repo through a scratch module, so
// that nothing (not even go.sum) is ever written inside the repo.
func buildCff(cfg *config) (string, error) {
	cffOnce.Do(func() {
		dir := filepath.Join(cfg.scratch, "cffbuild")
		if cffErr = os.MkdirAll(dir, 0o755); cffErr != nil {
			return
		}
		if cffErr = writeScratchGoMod(cfg, dir, "example.com/cffbuild"); cffErr != nil {
			return
		}
		bin := filepath.Join(cfg.scratch, "bin", "cff")
		if st, outp := runIn(dir, "go", "build", "-o", bin, "go.uber.org/cff/cmd/cff"); st != 0 {
			cffErr = fmt.Errorf("building cff from %s failed (%d): %s", cfg.repo, st, outp)
			return
		}
		cffBin = bin
	})
	return cffBin, cffErr
}

// writeScratchGoMod writes go.mod (require cff, replace => repo) and the
// repo's go.sum into dir.
func writeScratchGoMod(cfg *config, dir, module string) error {
	gomod := fmt.Sprintf("module %s\n\ngo 1.19\n\nrequire go.uber.org/cff v0.0.0\n\nrequire go.uber.org/multierr v1.11.0 // indirect\n\nreplace go.uber.org/cff => %s\n", module, cfg.repo)
	if err := os.WriteFile(filepath.Join(dir, "go.mod"), []byte(gomod), 0o644); err != nil {
		return err
	}
	sum, err := os.ReadFile(filepath.Join(cfg.repo, "go.sum"))
	if err != nil {
		return err
	}
	return os.WriteFile(filepath.Join(dir, "go.sum"), sum, 0o644)
}

// maxWorkers bounds the number of concurrent child processes (-j; 0 = 1.5 x number of CPUs).
var maxWorkers int

// parallelDo runs fn(i) for i in [0,n) on a bounded worker pool.
func parallelDo(n int, fn func(i int)) {
	workers := maxWorkers
	if workers <= 0 {
		workers = runtime.NumCPU() * 3 / 2 // the children are limited to GOMAXPROCS=2 and partly wait on "go list"
	}
	if workers > n {
		workers = n
	}
	if workers < 1 {
		workers = 1
	}
	var wg sync.WaitGroup
	ch := make(chan int)
	for w := 0; w < workers; w++ {
		wg.Add(1)
		go func() {
			defer wg.Done()
			for i := range ch {
				fn(i)
			}
		}()
	}
	for i := 0; i < n; i++ {
		ch <- i
	}
	close(ch)
	wg.Wait()
}
