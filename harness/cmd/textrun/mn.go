package main

import (
	"fmt"
	"go/ast"
	"go/parser"
	"go/token"
	"os"
	"path/filepath"
	"regexp"
	"sort"
	"strings"
)

// Section MN: the names of the package-level functions that -genmode=modifier generates.
//
// One package whose cff files have names chosen so that every lossy way of pasting
// (file name, line, column) into an identifier shows: names with characters that are not
// identifier characters, names that differ only by an underscore, and names where one is the
// other plus digits with directives placed so that the digits of the line number complete it
// (stage.go:115 / stage1.go:15).  Observed: the exit status, whether the output builds, and for
// every directive and option call of every file the name of the function generated for it.
//
//   MN file=<name> kind=<Flow|Task|Results|Params|Concurrency> line=<l> col=<c> name=<identifier or ->
//   MNB exit=<cff exit> builds=<0|1> files=<n>
//
// The Lean side computes the name with Text.modName (Text/ModName.lean, proved injective) and
// compares.

func mnSource(fn string, pad int) string {
	var sb strings.Builder
	sb.WriteString("//go:build cff\n\npackage p\n\nimport (\n\t\"context\"\n\n\t\"go.uber.org/cff\"\n)\n\n")
	for i := 0; i < pad; i++ {
		sb.WriteString("//\n")
	}
	fmt.Fprintf(&sb, "func %s(ctx context.Context, in int) (uint8, error) {\n\tvar out uint8\n", fn)
	sb.WriteString("\terr := cff.Flow(ctx,\n\t\tcff.Concurrency(2),\n\t\tcff.Params(in),\n\t\tcff.Results(&out),\n\t\tcff.Task(func(i int) (int64, error) { return int64(i) + 1, nil }),\n\t\tcff.Task(func(i int64) uint8 { return uint8(i) * 2 }),\n\t)\n\treturn out, err\n}\n")
	return sb.String()
}

var reCffFn = regexp.MustCompile(`^_cff(Flow|Task|Results|Params|Concurrency)`)

func runMN(cfg *config, o *out) error {
	bin, err := buildCff(cfg)
	if err != nil {
		return err
	}
	root := filepath.Join(cfg.scratch, "mn")
	if err := os.MkdirAll(root, 0o755); err != nil {
		return err
	}
	if err := writeScratchGoMod(cfg, root, "example.com/mn"); err != nil {
		return err
	}
	// the directive starts at line 11+pad+3; pads are chosen so that stage.go has it at line 115
	// and stage1.go at line 15, file1.go at 112 and file11.go at 12
	type mf struct {
		name string
		pad  int
	}
	files := []mf{
		{"stage.go", 115 - 13}, {"stage1.go", 15 - 13},
		{"file1.go", 112 - 13}, {"file11.go", 13 - 13},
		{"a_b.go", 5}, {"ab.go", 5}, {"a__b.go", 5},
		{"my-file.go", 1}, {"a.b.go", 2}, {"x-1.go", 3}, {"x_2d_1.go", 3},
		{"UPPER.go", 0}, {"tr_.go", 4}, {"tr.go", 4},
	}
	srcs := map[string]string{"p/doc.go": "// Package p is a scratch package.\npackage p\n"}
	for i, f := range files {
		srcs["p/"+f.name] = mnSource(fmt.Sprintf("Run%d", i), f.pad)
	}
	if err := writeFiles(root, srcs); err != nil {
		return err
	}
	exit, outp := runCff(root, bin, "-genmode", "modifier", "./p")
	builds := 0
	if exit == 0 {
		if st, _ := runIn(root, "go", "build", "./p"); st == 0 {
			builds = 1
		}
	}
	var lines []string
	for _, f := range files {
		fset := token.NewFileSet()
		sf, err := parser.ParseFile(fset, filepath.Join(root, "p", f.name), nil, 0)
		if err != nil {
			return err
		}
		// names the generated file calls, by position in the list of cff calls of the source
		genName := strings.TrimSuffix(f.name, ".go") + "_gen.go"
		var got []string
		if gf, err := parser.ParseFile(token.NewFileSet(), filepath.Join(root, "p", genName), nil, 0); err == nil {
			ast.Inspect(gf, func(n ast.Node) bool {
				if fd, ok := n.(*ast.FuncDecl); ok {
					// calls inside the user function, in source order
					if !strings.HasPrefix(fd.Name.Name, "_cff") {
						ast.Inspect(fd, func(m ast.Node) bool {
							if ce, ok := m.(*ast.CallExpr); ok {
								if id, ok := ce.Fun.(*ast.Ident); ok && reCffFn.MatchString(id.Name) {
									got = append(got, id.Name)
								}
							}
							return true
						})
					}
					return false
				}
				return true
			})
		}
		i := 0
		ast.Inspect(sf, func(n ast.Node) bool {
			ce, ok := n.(*ast.CallExpr)
			if !ok {
				return true
			}
			sel, ok := ce.Fun.(*ast.SelectorExpr)
			if !ok {
				return true
			}
			if id, ok := sel.X.(*ast.Ident); !ok || id.Name != "cff" {
				return true
			}
			pos := fset.Position(ce.Pos())
			name := "-"
			if i < len(got) {
				name = got[i]
			}
			i++
			lines = append(lines, fmt.Sprintf("MN file=%s kind=%s line=%d col=%d name=%s", f.name, sel.Sel.Name, pos.Line, pos.Column, name))
			return true
		})
	}
	sort.Strings(lines)
	for _, l := range lines {
		o.add("%s", l)
	}
	o.add("MNB exit=%d builds=%d files=%d", exit, builds, len(files))
	if exit != 0 || builds != 1 {
		o.add("N MN cff -genmode=modifier exit=%d builds=%d output=%q", exit, builds, strings.ReplaceAll(squashOut(outp), cfg.scratch, "$SCRATCH"))
	}
	return nil
}

func squashOut(s string) string {
	s = strings.Join(strings.Fields(s), " ")
	if len(s) > 400 {
		s = s[:400]
	}
	return s
}
