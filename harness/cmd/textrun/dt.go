package main

import (
	"bytes"
	"fmt"
	"go/ast"
	"go/build/constraint"
	"go/parser"
	"go/printer"
	"go/scanner"
	"go/token"
	"io/fs"
	"os"
	"path"
	"path/filepath"
	"regexp"
	"sort"
	"strings"
)

// dtModule is one scratch copy of a corpus module.
type dtModule struct {
	name     string // "tests" or "examples": prefix of the DT package names
	pristine string // directory with the checked-in generated files removed
	snap     map[string]string
	pkgs     []*dtPkg
}

type dtPkg struct {
	mod   *dtModule
	dir   string   // module-relative directory, "." for the module root
	files []string // base names of cff-tagged sources, sorted
}

func (p *dtPkg) name() string {
	if p.dir == "." {
		return p.mod.name
	}
	return p.mod.name + "/" + p.dir
}

func (p *dtPkg) pattern() string {
	if p.dir == "." {
		return "."
	}
	return "./" + p.dir
}

func isGenName(base string) bool {
	return strings.HasSuffix(base, "_gen.go") || strings.HasSuffix(base, "_gen_test.go")
}

// hasCffConstraint reports whether the file has, before its package clause,
// a build constraint line mentioning the cff tag.
func hasCffConstraint(file string) bool {
	fset := token.NewFileSet()
	f, err := parser.ParseFile(fset, file, nil, parser.PackageClauseOnly|parser.ParseComments)
	if err != nil {
		return false
	}
	for _, g := range f.Comments {
		if g.Pos() >= f.Package {
			break
		}
		for _, c := range g.List {
			e, err := constraint.Parse(c.Text)
			if err != nil {
				continue
			}
			tags := map[string]bool{}
			collectTags(e, tags)
			if tags["cff"] {
				return true
			}
		}
	}
	return false
}

var replaceRe = regexp.MustCompile(`(?m)^replace go\.uber\.org/cff => .*$`)

func prepareModule(cfg *config, name, src string) (*dtModule, error) {
	m := &dtModule{name: name, pristine: filepath.Join(cfg.scratch, "dt", name+"-pristine")}
	err := copyTree(src, m.pristine, func(rel string, d fs.DirEntry) bool {
		return !d.IsDir() && isGenName(path.Base(rel))
	})
	if err != nil {
		return nil, err
	}
	gomodPath := filepath.Join(m.pristine, "go.mod")
	gomod, err := os.ReadFile(gomodPath)
	if err != nil {
		return nil, err
	}
	if !replaceRe.Match(gomod) {
		return nil, fmt.Errorf("%s: no replace directive for go.uber.org/cff", gomodPath)
	}
	gomod = replaceRe.ReplaceAll(gomod, []byte("replace go.uber.org/cff => "+cfg.repo))
	if err := os.WriteFile(gomodPath, gomod, 0o644); err != nil {
		return nil, err
	}
	// Settle go.mod/go.sum (GOFLAGS=-mod=mod lets the go command rewrite
	// them) so that later snapshots show only what cff does. Errors of
	// individual packages do not matter here.
	runIn(m.pristine, "go", "list", "-e", "-tags", "cff", "-test", "-deps", "./...")
	runIn(m.pristine, "go", "list", "-e", "-tags", "cff,v2", "-test", "-deps", "./...")

	byDir := map[string][]string{}
	err = filepath.WalkDir(m.pristine, func(p string, d fs.DirEntry, err error) error {
		if err != nil {
			return err
		}
		if d.IsDir() || !strings.HasSuffix(p, ".go") {
			return nil
		}
		if hasCffConstraint(p) {
			rel, _ := filepath.Rel(m.pristine, filepath.Dir(p))
			byDir[filepath.ToSlash(rel)] = append(byDir[filepath.ToSlash(rel)], filepath.Base(p))
		}
		return nil
	})
	if err != nil {
		return nil, err
	}
	var dirs []string
	for d := range byDir {
		dirs = append(dirs, d)
	}
	sort.Strings(dirs)
	for _, d := range dirs {
		sort.Strings(byDir[d])
		m.pkgs = append(m.pkgs, &dtPkg{mod: m, dir: d, files: byDir[d]})
	}
	m.snap, err = snapshot(m.pristine)
	return m, err
}

// dtJob is one cff process in one clean copy.
type dtJob struct {
	pkg   *dtPkg
	mode  string // base | source-map
	alone string // "" or the base name passed as -file=
	pre   string // "" or a generation mode cff is run with first, in the same directory
	// result
	exit              int
	output            string
	created           map[string][]byte // module-relative path -> content
	createdNames      []string
	modified, deleted []string
	err               error
}

func (j *dtJob) run(bin string, dir string) {
	defer os.RemoveAll(dir)
	if j.err = copyTree(j.pkg.mod.pristine, dir, nil); j.err != nil {
		return
	}
	if j.pre != "" {
		// an earlier run in the same directory (other mode): what this run writes must not depend on it
		var pargs []string
		if j.pre != "base" {
			pargs = append(pargs, "-genmode="+j.pre)
		}
		runCff(dir, bin, append(pargs, j.pkg.pattern())...)
	}
	var args []string
	if j.mode != "base" {
		args = append(args, "-genmode="+j.mode)
	}
	if j.alone != "" {
		args = append(args, "-file="+j.alone)
	}
	args = append(args, j.pkg.pattern())
	j.exit, j.output = runCff(dir, bin, args...)
	after, err := snapshot(dir)
	if err != nil {
		j.err = err
		return
	}
	j.createdNames, j.modified, j.deleted = diffSnap(j.pkg.mod.snap, after)
	j.created = map[string][]byte{}
	for _, n := range j.createdNames {
		if after[n] == "dir" {
			j.created[n] = nil
			continue
		}
		bs, err := os.ReadFile(filepath.Join(dir, filepath.FromSlash(n)))
		if err != nil {
			j.err = err
			return
		}
		j.created[n] = bs
	}
}

func sameCreated(a, b *dtJob) bool {
	if len(a.created) != len(b.created) || a.exit != b.exit {
		return false
	}
	for n, bs := range a.created {
		other, ok := b.created[n]
		if !ok || !bytes.Equal(bs, other) {
			return false
		}
	}
	return true
}

// tokenStream returns the Go tokens of src without comments. Automatically
// inserted semicolons are kept (they are part of the token stream the parser
// sees) but their literal is normalised.
func tokenStream(src []byte) ([]string, error) {
	fset := token.NewFileSet()
	f := fset.AddFile("x.go", -1, len(src))
	var s scanner.Scanner
	var errs []string
	s.Init(f, src, func(pos token.Position, msg string) { errs = append(errs, msg) }, 0)
	var toks []string
	for {
		_, tok, lit := s.Scan()
		if tok == token.EOF {
			break
		}
		if tok == token.SEMICOLON {
			lit = ";"
		}
		toks = append(toks, tok.String()+" "+lit)
	}
	if len(errs) > 0 {
		return nil, fmt.Errorf("scan: %s", strings.Join(errs, "; "))
	}
	return toks, nil
}

// printNoComments parses src without comments, erases all position
// information that stems from the layout (so that removed comment lines
// cannot show up as blank lines) and prints it with go/printer.
func printNoComments(src []byte) (string, error) {
	fset := token.NewFileSet()
	f, err := parser.ParseFile(fset, "x.go", src, 0)
	if err != nil {
		return "", err
	}
	var buf bytes.Buffer
	if err := (&printer.Config{Mode: printer.UseSpaces | printer.TabIndent, Tabwidth: 8}).Fprint(&buf, fset, f); err != nil {
		return "", err
	}
	// Blank lines are layout, not code: a dropped "//line" comment line leaves one behind.
	var lines []string
	for _, l := range strings.Split(buf.String(), "\n") {
		if strings.TrimSpace(l) != "" {
			lines = append(lines, l)
		}
	}
	return strings.Join(lines, "\n"), nil
}

var _ = ast.Inspect

func sameModuloComments(a, b []byte) (bool, string) {
	pa, errA := printNoComments(a)
	pb, errB := printNoComments(b)
	if errA != nil || errB != nil {
		return false, fmt.Sprintf("parse: %v / %v", errA, errB)
	}
	ta, errA := tokenStream(a)
	tb, errB := tokenStream(b)
	if errA != nil || errB != nil {
		return false, fmt.Sprintf("scan: %v / %v", errA, errB)
	}
	tokSame := sameStrings(ta, tb)
	if pa == pb && tokSame {
		return true, ""
	}
	if tokSame {
		// Same tokens, but go/printer lays them out differently: report as same code.
		return true, "layout"
	}
	return false, "tokens differ"
}

func runDT(cfg *config, o *out) error {
	bin, err := buildCff(cfg)
	if err != nil {
		return err
	}
	R := 3
	if cfg.thorough {
		R = 5
	}
	var mods []*dtModule
	for _, m := range []struct{ name, src string }{
		{"tests", filepath.Join(cfg.repo, "internal", "tests")},
		{"examples", filepath.Join(cfg.repo, "examples")},
	} {
		mod, err := prepareModule(cfg, m.name, m.src)
		if err != nil {
			return fmt.Errorf("preparing %s: %v", m.name, err)
		}
		mods = append(mods, mod)
	}

	modes := []string{"base", "source-map"}
	type group struct {
		pkg   *dtPkg
		mode  string
		whole []*dtJob
		alone []*dtJob
		seq   *dtJob
	}
	var groups []*group
	var jobs []*dtJob
	for _, m := range mods {
		for _, p := range m.pkgs {
			for _, mode := range modes {
				g := &group{pkg: p, mode: mode}
				for r := 0; r < R; r++ {
					j := &dtJob{pkg: p, mode: mode}
					g.whole = append(g.whole, j)
					jobs = append(jobs, j)
				}
				for _, f := range p.files {
					j := &dtJob{pkg: p, mode: mode, alone: f}
					g.alone = append(g.alone, j)
					jobs = append(jobs, j)
				}
				other := "base"
				if mode == "base" {
					other = "source-map"
				}
				g.seq = &dtJob{pkg: p, mode: mode, pre: other}
				jobs = append(jobs, g.seq)
				groups = append(groups, g)
			}
		}
	}
	parallelDo(len(jobs), func(i int) {
		jobs[i].run(bin, filepath.Join(cfg.scratch, "dt", fmt.Sprintf("run%04d", i)))
	})
	for _, j := range jobs {
		if j.err != nil {
			return fmt.Errorf("%s mode=%s alone=%q: %v", j.pkg.name(), j.mode, j.alone, j.err)
		}
	}

	first := map[string]*dtJob{} // pkg name + mode -> run 1
	for _, g := range groups {
		p := g.pkg
		w0 := g.whole[0]
		first[p.name()+" "+g.mode] = w0

		// Only the default output files of this package's cff-tagged sources
		// may appear, and nothing else may change.
		allowed := map[string]bool{}
		for _, f := range p.files {
			allowed[path.Join(p.dir, gfExpected(f))] = true
		}
		untouched := true
		var offending []string
		for _, j := range append(append([]*dtJob{}, g.whole...), g.alone...) {
			if len(j.modified) != 0 || len(j.deleted) != 0 {
				untouched = false
				offending = append(offending, j.modified...)
				offending = append(offending, j.deleted...)
			}
			for _, n := range j.createdNames {
				if !allowed[n] {
					untouched = false
					offending = append(offending, n)
				}
			}
		}

		exitsSame := true
		for _, j := range g.whole[1:] {
			if j.exit != w0.exit {
				exitsSame = false
			}
		}
		identical, aloneIdentical := "-", "-"
		if w0.exit == 0 && exitsSame {
			id := true
			for _, j := range g.whole[1:] {
				if !sameCreated(w0, j) {
					id = false
				}
			}
			identical = fmt.Sprint(b2i(id))

			// Every file alone: exactly the whole run's output for that file.
			al := true
			union := map[string]bool{}
			for _, j := range g.alone {
				want := path.Join(p.dir, gfExpected(j.alone))
				if j.exit != 0 {
					al = false
				}
				for n, bs := range j.created {
					union[n] = true
					if n != want || !bytes.Equal(bs, w0.created[n]) {
						al = false
					}
				}
				if _, inWhole := w0.created[want]; inWhole && j.created[want] == nil {
					al = false
				}
			}
			if len(union) != len(w0.created) {
				al = false
			}
			aloneIdentical = fmt.Sprint(b2i(al))
		} else if !exitsSame {
			identical = "0"
		}
		seqIdentical := "-"
		if w0.exit == 0 && g.seq != nil {
			seqIdentical = fmt.Sprint(b2i(g.seq.exit == 0 && sameCreated(w0, g.seq)))
		}
		o.add("DT %s mode=%s runs=%d identical=%s alone_identical=%s seq_identical=%s files=%d others_untouched=%d exit=%d",
			p.name(), g.mode, R, identical, aloneIdentical, seqIdentical, len(w0.created), b2i(untouched), w0.exit)
		if seqIdentical == "0" {
			o.add("X DT %s mode=%s seq_identical=0 (a run in the other mode in the same directory changed what this run writes)", p.name(), g.mode)
		}
		if identical == "0" || aloneIdentical == "0" || !untouched {
			sort.Strings(offending)
			o.add("X DT %s mode=%s identical=%s alone_identical=%s others_untouched=%d offending=%s",
				p.name(), g.mode, identical, aloneIdentical, b2i(untouched), joinOrDash(offending, ","))
		}
		if w0.exit != 0 {
			o.add("N DT %s mode=%s exit=%d output=%q", p.name(), g.mode, w0.exit, strings.ReplaceAll(w0.output, cfg.scratch, "$SCRATCH"))
		}
	}

	// SM: base vs source-map, file by file.
	for _, m := range mods {
		for _, p := range m.pkgs {
			b, s := first[p.name()+" base"], first[p.name()+" source-map"]
			if b == nil || s == nil || b.exit != 0 || s.exit != 0 {
				continue
			}
			names := map[string]bool{}
			for n := range b.created {
				names[n] = true
			}
			for n := range s.created {
				names[n] = true
			}
			var sorted []string
			for n := range names {
				sorted = append(sorted, n)
			}
			sort.Strings(sorted)
			for _, n := range sorted {
				same, why := false, "missing in one mode"
				if b.created[n] != nil && s.created[n] != nil {
					same, why = sameModuloComments(b.created[n], s.created[n])
				}
				o.add("SM %s file=%s same_modulo_comments=%d", p.name(), path.Base(n), b2i(same))
				if !same {
					o.add("X SM %s file=%s %s", p.name(), path.Base(n), why)
				} else if why != "" {
					o.add("N SM %s file=%s %s", p.name(), path.Base(n), why)
				}
			}
		}
	}
	return nil
}
