package main

import (
	"path/filepath"
	"sort"
	"strings"

	"go.uber.org/cff/internal"
)

var (
	alAliasPool = []string{"context", "cff", "time", "debug", "_time", "__time", "foo", "bar"}
	alPathPool  = []string{
		"context", "time", "runtime/debug", "go.uber.org/cff",
		"example.com/a/time", "example.com/b/time", "example.com/foo", "example.com/x/foo",
	}
	// Package names that differ from the last path element (the generator
	// passes pkg.Name() for types from other packages).
	alOtherNames = []string{"foo", "bar", "time", "debug", "cff", "v2", "_time"}
)

func runAL(cfg *config, o *out) error {
	n := 600
	if cfg.thorough {
		n = 6000
	}
	r := cfg.subRand("AL")
	for id := 1; id <= n; id++ {
		// initial alias set
		na := r.Intn(5)
		perm := r.Perm(len(alAliasPool))
		var initial []string
		aliases := map[string]struct{}{}
		for _, i := range perm[:na] {
			initial = append(initial, alAliasPool[i])
			aliases[alAliasPool[i]] = struct{}{}
		}
		sort.Strings(initial)

		addImports := map[string]string{}
		nc := 1 + r.Intn(8)
		var calls, rets []string
		for c := 0; c < nc; c++ {
			path := alPathPool[r.Intn(len(alPathPool))]
			alias := filepath.Base(path)
			if r.Intn(5) == 0 {
				alias = alOtherNames[r.Intn(len(alOtherNames))]
			}
			ret := internal.VerifPrintImportAlias(path, alias, addImports, aliases)
			calls = append(calls, path+"="+alias)
			rets = append(rets, ret)
		}

		var paths []string
		for p := range addImports {
			paths = append(paths, p)
		}
		sort.Strings(paths)
		var add []string
		for _, p := range paths {
			name := addImports[p]
			if name == "" {
				name = "."
			}
			add = append(add, p+"="+name)
		}
		var final []string
		for a := range aliases {
			final = append(final, a)
		}
		sort.Strings(final)

		o.add("AL %d aliases=%s calls=%s ret=%s add=%s final_aliases=%s",
			id, joinOrDash(initial, ","), strings.Join(calls, ";"), strings.Join(rets, ","),
			joinOrDash(add, ";"), joinOrDash(final, ","))

		// ---- sanity: names returned for distinct paths are pairwise distinct
		// and none collides with an initial alias.
		byPath := map[string]string{}
		for i, c := range calls {
			p := c[:strings.IndexByte(c, '=')]
			if prev, ok := byPath[p]; ok && prev != rets[i] {
				o.add("X AL %d path %s got two names %s,%s", id, p, prev, rets[i])
			}
			byPath[p] = rets[i]
		}
		seen := map[string]string{}
		var ps []string
		for p := range byPath {
			ps = append(ps, p)
		}
		sort.Strings(ps)
		for _, p := range ps {
			nm := byPath[p]
			if q, ok := seen[nm]; ok {
				o.add("X AL %d name %s used for %s and %s", id, nm, q, p)
			}
			seen[nm] = p
			for _, a := range initial {
				if a == nm {
					o.add("X AL %d name %s for %s collides with initial alias", id, nm, p)
				}
			}
		}
	}
	return nil
}
