// textrun exercises the text-level functions of the cff code generator
// (build-constraint inversion, import-alias synthesis, EmitterStack fan-out,
// output file naming, determinism of generation) and writes one exact,
// machine-parsable line per case. A Lean program compares these lines with
// formal models; the tool itself decides nothing in the protocol lines.
// Lines starting with "X " are the tool's own sanity alarms.
//
// The exact formats are in /verif/harness/TEXT_PROTOCOL.md.
//
// Every random choice derives from -seed. Build with -tags verif.
package main

import (
	"bufio"
	"flag"
	"fmt"
	"math/rand"
	"os"
	"os/signal"
	"path/filepath"
	"strings"
	"syscall"
	"time"
)

// out collects the protocol lines of one section.
type out struct {
	lines []string
	x     int // number of X lines
	notes int // number of N lines
}

func (o *out) add(format string, a ...any) {
	s := fmt.Sprintf(format, a...)
	if strings.ContainsAny(s, "\n\r") {
		s = strings.NewReplacer("\n", "\\n", "\r", "\\r").Replace(s)
	}
	if strings.HasPrefix(s, "X ") {
		o.x++
	}
	if strings.HasPrefix(s, "N ") {
		o.notes++
	}
	o.lines = append(o.lines, s)
}

func (o *out) count(prefix string) int {
	n := 0
	for _, l := range o.lines {
		if strings.HasPrefix(l, prefix+" ") {
			n++
		}
	}
	return n
}

type config struct {
	seed     int64
	thorough bool
	repo     string
	scratch  string // root of all scratch dirs; removed before exit
	sections map[string]bool
}

// subRand derives an independent, reproducible stream for one section.
func (c *config) subRand(section string) *rand.Rand {
	h := c.seed
	for _, b := range []byte(section) {
		h = h*1099511628211 + int64(b)
	}
	return rand.New(rand.NewSource(h))
}

func main() {
	var (
		seed   = flag.Int64("seed", 1, "seed for every random choice")
		tier   = flag.String("tier", "quick", "quick|thorough")
		outp   = flag.String("out", "", "output file (required)")
		repo   = flag.String("repo", "/repo", "cff source tree used for the cff binary and the scratch modules' replace")
		only   = flag.String("sections", "BT,AL,ES,GF,DT,MN", "comma-separated subset of sections to run")
		jobs   = flag.Int("j", 0, "number of concurrent cff processes (0 = 1.5 x number of CPUs)")
		keepit = flag.Bool("keep", false, "keep the scratch directory (debugging)")
	)
	flag.Parse()
	if *outp == "" || (*tier != "quick" && *tier != "thorough") {
		fmt.Fprintln(os.Stderr, "usage: textrun -seed S -tier quick|thorough -out FILE [-repo DIR] [-sections BT,AL,ES,GF,DT,MN]")
		os.Exit(2)
	}
	maxWorkers = *jobs
	absRepo, err := filepath.Abs(*repo)
	if err != nil {
		fatal(err)
	}
	cfg := &config{seed: *seed, thorough: *tier == "thorough", repo: absRepo, sections: map[string]bool{}}
	for _, s := range strings.Split(*only, ",") {
		cfg.sections[strings.TrimSpace(s)] = true
	}

	scratch, err := os.MkdirTemp("/tmp", "textrun-")
	if err != nil {
		fatal(err)
	}
	cfg.scratch = scratch
	childTmp = filepath.Join(scratch, "tmp")
	if err := os.MkdirAll(childTmp, 0o755); err != nil {
		os.RemoveAll(scratch)
		fatal(err)
	}
	cleanup := func() {
		if !*keepit {
			// Module-cache style read-only files never end up here, but be safe.
			filepath.Walk(scratch, func(p string, fi os.FileInfo, err error) error {
				if err == nil && fi.IsDir() {
					os.Chmod(p, 0o755)
				}
				return nil
			})
			os.RemoveAll(scratch)
		}
	}
	defer cleanup()
	sigc := make(chan os.Signal, 1)
	signal.Notify(sigc, os.Interrupt, syscall.SIGTERM)
	go func() {
		<-sigc
		cleanup()
		os.Exit(130)
	}()

	type section struct {
		name string
		run  func(*config, *out) error
	}
	all := []section{
		{"BT", runBT}, {"AL", runAL}, {"ES", runES}, {"GF", runGF}, {"DT", runDT}, {"MN", runMN},
	}

	var total out
	start := time.Now()
	var body []string
	for _, s := range all {
		if !cfg.sections[s.name] {
			continue
		}
		t0 := time.Now()
		var o out
		if err := s.run(cfg, &o); err != nil {
			// Infrastructure failure (not a verdict): make it loud and parsable.
			o.add("X %s infrastructure error: %v", s.name, err)
		}
		fmt.Fprintf(os.Stderr, "textrun: section %s: %d lines, %d X, %d N, %.1fs\n",
			s.name, len(o.lines), o.x, o.notes, time.Since(t0).Seconds())
		body = append(body, o.lines...)
		total.x += o.x
		total.notes += o.notes
		total.lines = append(total.lines, o.lines...)
	}

	f, err := os.Create(*outp)
	if err != nil {
		cleanup()
		fatal(err)
	}
	w := bufio.NewWriter(f)
	fmt.Fprintf(w, "TEXTRUN v1 seed=%d tier=%s\n", *seed, *tier)
	for _, l := range body {
		fmt.Fprintln(w, l)
	}
	fmt.Fprintf(w, "END bt=%d al=%d es=%d gf=%d fs=%d dt=%d sm=%d n=%d x=%d\n",
		total.count("BT"), total.count("AL"), total.count("ES"), total.count("GF"),
		total.count("FS"), total.count("DT"), total.count("SM"), total.notes, total.x)
	if err := w.Flush(); err != nil {
		cleanup()
		fatal(err)
	}
	if err := f.Close(); err != nil {
		cleanup()
		fatal(err)
	}
	fmt.Fprintf(os.Stderr, "textrun: done in %.1fs, %d lines, %d X lines, %d N lines\n",
		time.Since(start).Seconds(), len(body)+2, total.x, total.notes)
}

func fatal(err error) {
	fmt.Fprintln(os.Stderr, "textrun:", err)
	os.Exit(1)
}

func b2i(b bool) int {
	if b {
		return 1
	}
	return 0
}

func joinOrDash(ss []string, sep string) string {
	if len(ss) == 0 {
		return "-"
	}
	return strings.Join(ss, sep)
}
