package main

import (
	"fmt"
	"os"
	"path"
	"path/filepath"
	"sort"
	"strings"
)

// gfSource returns a Go source file for package pkg. With tagged it carries
// the cff build constraint; with flow it contains one trivial cff.Flow in a
// function named fn.
func gfSource(pkg, fn string, tagged, flow bool) string {
	var sb strings.Builder
	if tagged {
		sb.WriteString("//go:build cff\n\n")
	}
	fmt.Fprintf(&sb, "package %s\n\n", pkg)
	if !flow {
		fmt.Fprintf(&sb, "// %s does nothing.\nfunc %s() int { return 1 }\n", fn, fn)
		return sb.String()
	}
	fmt.Fprintf(&sb, `import (
	"context"

	"go.uber.org/cff"
)

// %[1]s runs one trivial flow.
func %[1]s(ctx context.Context) (int, error) {
	var out int
	err := cff.Flow(ctx,
		cff.Results(&out),
		cff.Task(func() int { return 1 }),
	)
	return out, err
}
`, fn)
	return sb.String()
}

type gfFile struct {
	name   string // base name inside package dir p/
	pkg    string // package clause ("p" or "p_test")
	flow   bool   // contains a cff.Flow
	tagged bool
	genhdr bool // starts with a "Code generated … DO NOT EDIT." header (output of another generator)
}

type gfCase struct {
	id     string
	files  []gfFile
	mkdirs []string // extra directories to create (module-relative)
	flags  []string
	prerun bool // run cff once (no flags) before the snapshot
	single bool // one cff-tagged flow file: produces a GF line
	// result
	exit                       int
	tmpLeft                    int // entries cff left behind in its TMPDIR
	output                     string
	created, modified, deleted []string
	err                        error
}

// gfExpected is the harness's own reading of genFilename, used only for X lines.
func gfExpected(name string) string {
	if strings.HasSuffix(name, "_test.go") {
		return strings.TrimSuffix(name, "_test.go") + "_gen_test.go"
	}
	return strings.TrimSuffix(name, filepath.Ext(name)) + "_gen.go"
}

func gfCases() []*gfCase {
	var cases []*gfCase
	singles := []string{
		"foo.go", "foo_test.go", "a.b.go", "x_test_y.go", "my_gen.go", "t_test_test.go", "UPPER.go",
		"foo_gen_test.go", "test.go", "x.go.go", "a.b_test.go", "impl_linux.go", "impl_linux_test.go",
		"gen.go", "a_gen_test_b.go",
	}
	for _, n := range singles {
		cases = append(cases, &gfCase{
			id:     "single:" + n,
			single: true,
			files:  []gfFile{{name: n, pkg: "p", flow: true, tagged: true}},
		})
	}
	// external test package
	cases = append(cases, &gfCase{
		id: "single:ext_test.go", single: true,
		files: []gfFile{{name: "ext_test.go", pkg: "p_test", flow: true, tagged: true}},
	})
	// cff-tagged file without any directive: nothing is generated
	cases = append(cases, &gfCase{
		id: "single:plain.go", single: true,
		files: []gfFile{{name: "plain.go", pkg: "p", flow: false, tagged: true}},
	})

	multi := func() []gfFile {
		return []gfFile{
			{name: "foo.go", pkg: "p", flow: true, tagged: true},
			{name: "foo_test.go", pkg: "p", flow: true, tagged: true},
			{name: "a.b.go", pkg: "p", flow: true, tagged: true},
			{name: "UPPER.go", pkg: "p", flow: true, tagged: true},
			{name: "plain.go", pkg: "p", flow: false, tagged: true},
			{name: "untagged.go", pkg: "p", flow: false, tagged: false},
			// files of the package that merely look like outputs of its directive-less files
			// (other generators use the same naming): never cff's to touch
			{name: "plain_gen.go", pkg: "p", flow: false, tagged: false},
			{name: "untagged_gen.go", pkg: "p", flow: false, tagged: false},
			{name: "untagged_gen_test.go", pkg: "p", flow: false, tagged: false},
			// output of another generator (stringer-style header), sorting before every cff file
			{name: "aaa_string.go", pkg: "p", flow: false, tagged: false, genhdr: true},
		}
	}
	add := func(id string, c gfCase) {
		c.id = id
		if c.files == nil {
			c.files = multi()
		}
		cases = append(cases, &c)
	}
	add("multi", gfCase{})
	add("pkgs", gfCase{})
	add("multi:rerun", gfCase{prerun: true})
	add("file:one", gfCase{flags: []string{"-file=foo.go"}})
	add("file:two", gfCase{flags: []string{"-file=foo.go", "-file=a.b.go"}})
	add("file:test", gfCase{flags: []string{"-file=foo_test.go"}})
	add("file:plain", gfCase{flags: []string{"-file=plain.go"}})
	add("file:missing", gfCase{flags: []string{"-file=nonexistent.go"}})
	add("file:withdir", gfCase{flags: []string{"-file=p/foo.go"}})
	add("file:dup", gfCase{flags: []string{"-file=foo.go", "-file=foo.go"}})
	add("out:subdir", gfCase{flags: []string{"-file=foo.go=out/custom_name.go"}, mkdirs: []string{"out"}})
	add("out:samedir", gfCase{flags: []string{"-file=foo_test.go=p/foo_custom_test.go"}})
	add("out:mixed", gfCase{flags: []string{"-file=foo.go=p/zz.go", "-file=a.b.go"}})
	add("out:root", gfCase{flags: []string{"-file=UPPER.go=lower.go"}})
	add("out:two", gfCase{flags: []string{"-file=foo.go=p/x1.go", "-file=a.b.go=p/y1.go"}})
	add("out:lastdefault", gfCase{flags: []string{"-file=foo.go=p/x2.go", "-file=a.b.go=p/y2.go", "-file=UPPER.go"}})
	add("out:firstdefault", gfCase{flags: []string{"-file=foo.go", "-file=a.b.go=p/y3.go"}})
	// An input whose default output name is another input of the package.
	add("collide", gfCase{files: []gfFile{
		{name: "foo.go", pkg: "p", flow: true, tagged: true},
		{name: "foo_gen.go", pkg: "p", flow: true, tagged: true},
	}})
	return cases
}

func fnName(file string) string {
	var sb strings.Builder
	sb.WriteString("Fn")
	for _, r := range file {
		if (r >= 'a' && r <= 'z') || (r >= 'A' && r <= 'Z') || (r >= '0' && r <= '9') {
			sb.WriteRune(r)
		} else {
			sb.WriteRune('_')
		}
	}
	return sb.String()
}

func runGF(cfg *config, o *out) error {
	bin, err := buildCff(cfg)
	if err != nil {
		return err
	}
	base := filepath.Join(cfg.scratch, "gf")

	// Template module: settle go.mod/go.sum once so that the snapshots of
	// the cases only show what cff itself does.
	tmpl := filepath.Join(base, "template")
	if err := os.MkdirAll(tmpl, 0o755); err != nil {
		return err
	}
	if err := writeScratchGoMod(cfg, tmpl, "example.com/gf"); err != nil {
		return err
	}
	if err := writeFiles(tmpl, map[string]string{
		"p/doc.go":         "// Package p is a scratch package.\npackage p\n",
		"p/w.go":           gfSource("p", "W", true, true),
		"p/w_test.go":      gfSource("p", "WT", true, true),
		"p/we_test.go":     gfSource("p_test", "WE", true, true),
		"p/wplain.go":      gfSource("p", "WP", false, false),
		"p/wplain_test.go": "package p\n\nimport \"testing\"\n\nfunc TestW(t *testing.T) {}\n",
	}); err != nil {
		return err
	}
	if st, outp := runIn(tmpl, "go", "list", "-tags", "cff", "-test", "-deps", "./..."); st != 0 {
		return fmt.Errorf("warming the GF template module failed (%d): %s", st, outp)
	}
	gomod, err := os.ReadFile(filepath.Join(tmpl, "go.mod"))
	if err != nil {
		return err
	}
	gosum, err := os.ReadFile(filepath.Join(tmpl, "go.sum"))
	if err != nil {
		return err
	}

	cases := gfCases()
	parallelDo(len(cases), func(i int) {
		c := cases[i]
		root := filepath.Join(base, fmt.Sprintf("case%02d", i))
		files := map[string]string{
			"go.mod":   string(gomod),
			"go.sum":   string(gosum),
			"p/doc.go": "// Package p is a scratch package.\npackage p\n",
		}
		for _, f := range c.files {
			files["p/"+f.name] = gfSource(f.pkg, fnName(f.name), f.tagged, f.flow)
			if f.genhdr {
				files["p/"+f.name] = "// Code generated by \"stringer -type=Color\"; DO NOT EDIT.\n\n" + files["p/"+f.name]
			}
		}
		if c.id == "pkgs" {
			// a second package whose cff file has the same base name as one of package p
			files["q/doc.go"] = "// Package q is a scratch package.\npackage q\n"
			files["q/foo.go"] = gfSource("q", "FnQ", true, true)
		}
		if c.err = writeFiles(root, files); c.err != nil {
			return
		}
		for _, d := range c.mkdirs {
			if c.err = os.MkdirAll(filepath.Join(root, d), 0o755); c.err != nil {
				return
			}
		}
		if c.prerun {
			if st, outp := runCff(root, bin, "./p"); st != 0 {
				c.err = fmt.Errorf("prerun failed (%d): %s", st, outp)
				return
			}
		}
		before, err := snapshot(root)
		if err != nil {
			c.err = err
			return
		}
		pattern := "./p"
		if c.id == "pkgs" {
			pattern = "./..."
		}
		args := append(append([]string{}, c.flags...), pattern)
		tmp := filepath.Join(childTmp, fmt.Sprintf("gf%02d", i))
		if c.err = os.MkdirAll(tmp, 0o755); c.err != nil {
			return
		}
		c.exit, c.output = runCffTmp(tmp, root, bin, args...)
		if left, err := os.ReadDir(tmp); err == nil {
			c.tmpLeft = len(left)
		}
		after, err := snapshot(root)
		if err != nil {
			c.err = err
			return
		}
		c.created, c.modified, c.deleted = diffSnap(before, after)
	})

	var gfLines, fsLines, xLines []string
	for _, c := range cases {
		if c.err != nil {
			return fmt.Errorf("case %s: %v", c.id, c.err)
		}
		var inputs []string
		for _, f := range c.files {
			if f.tagged {
				inputs = append(inputs, f.name)
			}
		}
		sort.Strings(inputs)
		fsLines = append(fsLines, fmt.Sprintf("FS %s pkg=p inputs=%s flags=%s exit=%d created=%s modified=%s deleted=%s tmp=%d",
			c.id, joinOrDash(inputs, ","), joinOrDash(c.flags, ";"), c.exit,
			joinOrDash(c.created, ","), joinOrDash(c.modified, ","), joinOrDash(c.deleted, ","), c.tmpLeft))

		if len(c.modified) != 0 || len(c.deleted) != 0 || c.tmpLeft != 0 {
			// cff changed or removed a file that existed before, or left a
			// file in the temp dir: worth a note, whatever the model says.
			xLines = append(xLines, fmt.Sprintf("N FS %s exit=%d modified=%s deleted=%s tmp=%d",
				c.id, c.exit, joinOrDash(c.modified, ","), joinOrDash(c.deleted, ","), c.tmpLeft))
		}
		if c.id == "pkgs" {
			// every cff file of every package matched by the pattern gets its output, whatever its base name
			have := map[string]bool{}
			for _, f := range c.created {
				have[f] = true
			}
			for _, want := range []string{"p/foo_gen.go", "q/foo_gen.go"} {
				if !have[want] || c.exit != 0 {
					xLines = append(xLines, fmt.Sprintf("X GF pkgs: cff ./... exit=%d did not write %s (created %v)", c.exit, want, c.created))
				}
			}
		}
		if c.single {
			in := c.files[0]
			got := "none"
			switch {
			case len(c.created) == 1 && path.Dir(c.created[0]) == "p":
				got = path.Base(c.created[0])
			case len(c.created) != 0:
				got = strings.Join(c.created, ",")
			}
			gfLines = append(gfLines, fmt.Sprintf("GF %s -> %s", in.name, got))
			want := "none"
			if in.flow {
				want = gfExpected(in.name)
			}
			if got != want || c.exit != 0 || len(c.modified) != 0 || len(c.deleted) != 0 {
				xLines = append(xLines, fmt.Sprintf("X GF %s expected %s got %s exit=%d modified=%v deleted=%v output=%q",
					in.name, want, got, c.exit, c.modified, c.deleted, strings.ReplaceAll(c.output, cfg.scratch, "$SCRATCH")))
			}
		}
	}
	for _, l := range gfLines {
		o.add("%s", l)
	}
	for _, l := range fsLines {
		o.add("%s", l)
	}
	for _, l := range xLines {
		o.add("%s", l)
	}
	return nil
}
