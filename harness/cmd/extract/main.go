// Command extract regenerates per-site syntactic facts about the cff
// repository and writes them as Lean data (CffVerif/Extracted/Facts.lean).
//
//	extract -repo /repo -out <dir>
//
// The facts are re-checked by the `decide` obligations of
// CffVerif/Tie/Facts.lean on every run. The extractor is conservative:
// whatever it does not recognise is emitted as an explicit "unknown" entry
// carrying the source text, so that the Lean obligation fails instead of
// silently passing. Output is sorted and carries no line numbers.
//
// tmplstruct.go adds structural facts about the Go text inside the templates
// (func literals, returns, order of the safety-relevant statements).
//
// maporder.go classifies every map-iteration site by the PATTERN of its loop
// body and context (set / count / append-then-sort / unknown), so that the
// C17 obligation does not depend on where a loop lives.
//
// Only the standard library is used (go/ast, go/parser, go/types with an
// in-process source importer, text/template/parse); no `go list`, no network.
package main

import (
	"bytes"
	"flag"
	"fmt"
	"go/ast"
	"go/build"
	"go/parser"
	"go/printer"
	"go/token"
	"go/types"
	"os"
	"os/exec"
	"path/filepath"
	"regexp"
	"sort"
	"strconv"
	"strings"
	"text/template/parse"
	"unicode"
)

// ---------------------------------------------------------------------------
// Fact records
// ---------------------------------------------------------------------------

type exprSite struct{ file, action, wrapper, kind string }
type mapRange struct{ file, fn, expr, kind, pattern, detail string }
type smWrite struct {
	file, fn, literal  string
	isComment, guarded bool
}
type pair struct{ a, b string }
type triple struct{ a, b, c string }

type facts struct {
	exprSites        []exprSite
	exprFields       []pair // (struct, field) of type ast.Expr / []ast.Expr / ast.Node
	templateRoots    []triple
	hardcodedPkgRefs []pair
	mapRangeSites    []mapRange
	randomSources    []triple
	sourceMapWrites  []smWrite
	directiveNames   []string
	directiveTable   []string
	chanCaps         []pair
	schedFieldInits  []pair
	dispatchGuard    []string
	typeErrors       []string
	structure        structFacts
	wiring           wiringFacts
	own              ownFacts // ownership.go
	modKinds         []string // modkinds.go
}

// ---------------------------------------------------------------------------
// Repository access (every file read is recorded)
// ---------------------------------------------------------------------------

type repo struct {
	root string
	read map[string]bool
	fset *token.FileSet
}

func (r *repo) readFile(rel string) ([]byte, error) {
	bs, err := os.ReadFile(filepath.Join(r.root, rel))
	if err == nil {
		r.read[filepath.ToSlash(rel)] = true
	}
	return bs, err
}

// goFiles lists the non-test .go files directly inside rel, sorted.
func (r *repo) goFiles(rel string) []string {
	ents, err := os.ReadDir(filepath.Join(r.root, rel))
	if err != nil {
		return nil
	}
	var out []string
	for _, e := range ents {
		n := e.Name()
		if e.IsDir() || !strings.HasSuffix(n, ".go") || strings.HasSuffix(n, "_test.go") {
			continue
		}
		out = append(out, filepath.ToSlash(filepath.Join(rel, n)))
	}
	sort.Strings(out)
	return out
}

type srcFile struct {
	rel string
	ast *ast.File
}

// parseGo parses a repository file; with objects=true identifiers are
// resolved to their file-local declarations (needed by the syntactic
// fallback).
func (r *repo) parseGo(rel string) (*srcFile, error) {
	bs, err := r.readFile(rel)
	if err != nil {
		return nil, err
	}
	f, err := parser.ParseFile(r.fset, filepath.Join(r.root, rel), bs, parser.ParseComments)
	if err != nil {
		return nil, err
	}
	return &srcFile{rel: rel, ast: f}, nil
}

func (r *repo) text(n ast.Node) string {
	var b bytes.Buffer
	if err := printer.Fprint(&b, r.fset, n); err != nil {
		return fmt.Sprintf("<unprintable %T>", n)
	}
	return oneLine(b.String())
}

// oneLine collapses runs of whitespace so that facts do not change when
// code is merely re-indented.
func oneLine(s string) string { return strings.Join(strings.Fields(s), " ") }

// funcName renders the name of a function declaration; methods are
// rendered as Recv.Name without the pointer star.
func funcName(fd *ast.FuncDecl) string {
	if fd.Recv == nil || len(fd.Recv.List) == 0 {
		return fd.Name.Name
	}
	t := fd.Recv.List[0].Type
	for {
		switch x := t.(type) {
		case *ast.StarExpr:
			t = x.X
			continue
		case *ast.ParenExpr:
			t = x.X
			continue
		case *ast.IndexExpr:
			t = x.X
			continue
		case *ast.IndexListExpr:
			t = x.X
			continue
		}
		break
	}
	if id, ok := t.(*ast.Ident); ok {
		return id.Name + "." + fd.Name.Name
	}
	return "?." + fd.Name.Name
}

// enclosing returns the name of the top-level declaration containing pos.
func enclosing(f *ast.File, pos token.Pos) string {
	for _, d := range f.Decls {
		if d.Pos() <= pos && pos < d.End() {
			switch x := d.(type) {
			case *ast.FuncDecl:
				return funcName(x)
			case *ast.GenDecl:
				for _, s := range x.Specs {
					if vs, ok := s.(*ast.ValueSpec); ok && vs.Pos() <= pos && pos < vs.End() && len(vs.Names) > 0 {
						return x.Tok.String() + " " + vs.Names[0].Name
					}
				}
				return x.Tok.String()
			}
		}
	}
	return ""
}

// ---------------------------------------------------------------------------
// In-process source importer (no `go list`)
// ---------------------------------------------------------------------------

type srcImporter struct {
	fset    *token.FileSet
	ctx     build.Context
	goroot  string
	mods    []pair // (module path, dir), longest path first
	pkgs    map[string]*types.Package
	loading map[string]bool
	errs    map[string]bool
}

func goEnv() (goroot, modcache string) {
	out, err := exec.Command("go", "env", "GOROOT", "GOMODCACHE").Output()
	if err == nil {
		l := strings.Split(strings.TrimSpace(string(out)), "\n")
		if len(l) == 2 {
			return strings.TrimSpace(l[0]), strings.TrimSpace(l[1])
		}
	}
	goroot = build.Default.GOROOT
	modcache = os.Getenv("GOMODCACHE")
	if modcache == "" {
		gp := build.Default.GOPATH
		if i := strings.IndexRune(gp, filepath.ListSeparator); i >= 0 {
			gp = gp[:i]
		}
		modcache = filepath.Join(gp, "pkg", "mod")
	}
	return
}

func escapeModPath(p string) string {
	var b strings.Builder
	for _, r := range p {
		if unicode.IsUpper(r) {
			b.WriteByte('!')
			b.WriteRune(unicode.ToLower(r))
		} else {
			b.WriteRune(r)
		}
	}
	return b.String()
}

var (
	reModule  = regexp.MustCompile(`(?m)^module\s+(\S+)`)
	reRequire = regexp.MustCompile(`(?m)^\s*(?:require\s+)?([A-Za-z0-9][\w.\-/~]*\.[\w.\-/~]+)\s+(v[\w.\-+]+)`)
)

func newImporter(r *repo) *srcImporter {
	goroot, modcache := goEnv()
	im := &srcImporter{
		fset:    token.NewFileSet(), // dependencies do not share the repo's file set
		ctx:     build.Default,
		goroot:  goroot,
		pkgs:    map[string]*types.Package{},
		loading: map[string]bool{},
		errs:    map[string]bool{},
	}
	im.ctx.GOROOT = goroot
	im.ctx.CgoEnabled = false
	if bs, err := r.readFile("go.mod"); err == nil {
		if m := reModule.FindSubmatch(bs); m != nil {
			im.mods = append(im.mods, pair{string(m[1]), r.root})
		}
		for _, m := range reRequire.FindAllSubmatch(bs, -1) {
			p, v := string(m[1]), string(m[2])
			im.mods = append(im.mods, pair{p, filepath.Join(modcache, filepath.FromSlash(escapeModPath(p))+"@"+v)})
		}
	}
	sort.Slice(im.mods, func(i, j int) bool { return len(im.mods[i].a) > len(im.mods[j].a) })
	return im
}

func (im *srcImporter) dirFor(path string) (string, bool) {
	first := path
	if i := strings.Index(path, "/"); i >= 0 {
		first = path[:i]
	}
	if !strings.Contains(first, ".") {
		d := filepath.Join(im.goroot, "src", filepath.FromSlash(path))
		if st, err := os.Stat(d); err == nil && st.IsDir() {
			return d, true
		}
	}
	for _, m := range im.mods {
		if path == m.a || strings.HasPrefix(path, m.a+"/") {
			return filepath.Join(m.b, filepath.FromSlash(strings.TrimPrefix(path, m.a))), true
		}
	}
	// packages vendored into the standard library
	d := filepath.Join(im.goroot, "src", "vendor", filepath.FromSlash(path))
	if st, err := os.Stat(d); err == nil && st.IsDir() {
		return d, true
	}
	return "", false
}

func (im *srcImporter) Import(path string) (*types.Package, error) {
	return im.ImportFrom(path, "", 0)
}

func (im *srcImporter) ImportFrom(path, _ string, _ types.ImportMode) (*types.Package, error) {
	if path == "unsafe" {
		return types.Unsafe, nil
	}
	if p, ok := im.pkgs[path]; ok {
		if p == nil {
			return nil, fmt.Errorf("import %q failed earlier", path)
		}
		return p, nil
	}
	if im.loading[path] {
		return nil, fmt.Errorf("import cycle through %q", path)
	}
	dir, ok := im.dirFor(path)
	if !ok {
		im.pkgs[path] = nil
		im.errs["cannot locate package "+path] = true
		return nil, fmt.Errorf("cannot locate package %q", path)
	}
	bp, err := im.ctx.ImportDir(dir, 0)
	if err != nil && len(bp.GoFiles) == 0 {
		im.pkgs[path] = nil
		im.errs["cannot list package "+path] = true
		return nil, err
	}
	im.loading[path] = true
	defer delete(im.loading, path)
	var files []*ast.File
	for _, name := range bp.GoFiles {
		f, err := parser.ParseFile(im.fset, filepath.Join(dir, name), nil, parser.SkipObjectResolution)
		if err != nil {
			im.errs["parse error in dependency "+path] = true
			continue
		}
		files = append(files, f)
	}
	conf := types.Config{
		Importer:         im,
		IgnoreFuncBodies: true,
		FakeImportC:      true,
		Error:            func(error) {}, // dependencies: best effort
	}
	p, _ := conf.Check(path, im.fset, files, nil)
	im.pkgs[path] = p
	if p == nil {
		return nil, fmt.Errorf("type-checking %q failed", path)
	}
	return p, nil
}

// ---------------------------------------------------------------------------
// Go packages under analysis
// ---------------------------------------------------------------------------

type goPkg struct {
	dir   string
	files []*srcFile
	info  *types.Info
	// struct field declarations of the package, by field name (syntactic
	// fallback): name -> list of type expressions
	fieldTypes map[string][]ast.Expr
}

func (r *repo) loadPkg(dir string, im *srcImporter, fx *facts) *goPkg {
	p := &goPkg{dir: dir, fieldTypes: map[string][]ast.Expr{}}
	for _, rel := range r.goFiles(dir) {
		sf, err := r.parseGo(rel)
		if err != nil {
			fx.typeErrors = append(fx.typeErrors, "unknown: parse "+rel+": "+oneLine(err.Error()))
			continue
		}
		p.files = append(p.files, sf)
	}
	var asts []*ast.File
	for _, sf := range p.files {
		asts = append(asts, sf.ast)
		ast.Inspect(sf.ast, func(n ast.Node) bool {
			if st, ok := n.(*ast.StructType); ok && st.Fields != nil {
				for _, f := range st.Fields.List {
					for _, nm := range f.Names {
						p.fieldTypes[nm.Name] = append(p.fieldTypes[nm.Name], f.Type)
					}
				}
			}
			return true
		})
	}
	p.info = &types.Info{
		Types:      map[ast.Expr]types.TypeAndValue{},
		Uses:       map[*ast.Ident]types.Object{},
		Defs:       map[*ast.Ident]types.Object{},
		Selections: map[*ast.SelectorExpr]*types.Selection{},
	}
	seen := map[string]bool{}
	conf := types.Config{
		Importer:    im,
		FakeImportC: true,
		Error: func(err error) {
			msg := err.Error()
			if te, ok := err.(types.Error); ok {
				pos := te.Fset.Position(te.Pos)
				rel, _ := filepath.Rel(r.root, pos.Filename)
				msg = filepath.ToSlash(rel) + ": " + te.Msg
			}
			if !seen[msg] {
				seen[msg] = true
				fx.typeErrors = append(fx.typeErrors, oneLine(msg))
			}
		},
	}
	conf.Check(dir, r.fset, asts, p.info) // partial information is still used on error
	return p
}

// ---------------------------------------------------------------------------
// 3. map ranges, 4. random sources
// ---------------------------------------------------------------------------

type mapness int

const (
	mapUnknown mapness = iota
	isMap
	notMap
)

func typeMapness(t types.Type) mapness {
	if t == nil {
		return mapUnknown
	}
	if b, ok := t.(*types.Basic); ok && b.Kind() == types.Invalid {
		return mapUnknown
	}
	switch u := t.Underlying().(type) {
	case *types.Map:
		return isMap
	case *types.Basic:
		if u.Kind() == types.Invalid {
			return mapUnknown
		}
		return notMap
	case *types.Interface:
		// a type parameter may range over a map
		if _, ok := t.(*types.TypeParam); ok {
			return mapUnknown
		}
		return notMap
	default:
		return notMap
	}
}

func typeExprMapness(e ast.Expr) mapness {
	switch x := e.(type) {
	case *ast.MapType:
		return isMap
	case *ast.ArrayType, *ast.ChanType, *ast.Ellipsis:
		return notMap
	case *ast.ParenExpr:
		return typeExprMapness(x.X)
	case *ast.Ident:
		if x.Name == "string" || x.Name == "int" {
			return notMap
		}
	}
	return mapUnknown
}

func valueExprMapness(e ast.Expr) mapness {
	switch x := e.(type) {
	case *ast.CompositeLit:
		if x.Type != nil {
			return typeExprMapness(x.Type)
		}
	case *ast.CallExpr:
		if id, ok := x.Fun.(*ast.Ident); ok && id.Name == "make" && len(x.Args) > 0 {
			return typeExprMapness(x.Args[0])
		}
		if id, ok := x.Fun.(*ast.Ident); ok && id.Name == "append" && len(x.Args) > 0 {
			return notMap
		}
	case *ast.SliceExpr:
		return notMap
	case *ast.BasicLit:
		return notMap
	case *ast.ParenExpr:
		return valueExprMapness(x.X)
	}
	return mapUnknown
}

// syntacticMapness resolves the operand of a range statement without type
// information: by the declaration of the identifier in the same file, or by
// the (package-unique) declaration of the selected struct field.
func (p *goPkg) syntacticMapness(e ast.Expr) mapness {
	switch x := e.(type) {
	case *ast.ParenExpr:
		return p.syntacticMapness(x.X)
	case *ast.SliceExpr, *ast.BasicLit:
		return notMap
	case *ast.CompositeLit, *ast.CallExpr:
		return valueExprMapness(e)
	case *ast.Ident:
		if x.Obj == nil {
			return mapUnknown
		}
		switch d := x.Obj.Decl.(type) {
		case *ast.Field:
			return typeExprMapness(d.Type)
		case *ast.ValueSpec:
			if d.Type != nil {
				return typeExprMapness(d.Type)
			}
			for i, n := range d.Names {
				if n.Name == x.Name && len(d.Values) == len(d.Names) {
					return valueExprMapness(d.Values[i])
				}
			}
		case *ast.AssignStmt:
			if len(d.Lhs) == len(d.Rhs) {
				for i, l := range d.Lhs {
					if id, ok := l.(*ast.Ident); ok && id.Name == x.Name {
						return valueExprMapness(d.Rhs[i])
					}
				}
			}
		}
	case *ast.SelectorExpr:
		ts := p.fieldTypes[x.Sel.Name]
		if len(ts) == 0 {
			return mapUnknown
		}
		m := typeExprMapness(ts[0])
		for _, t := range ts[1:] {
			if typeExprMapness(t) != m {
				return mapUnknown
			}
		}
		return m
	}
	return mapUnknown
}

var (
	iterMethods = map[string]bool{"Keys": true, "Iterate": true, "Range": true}
	iterTypes   = map[string]bool{"golang.org/x/tools/go/types/typeutil.Map": true, "sync.Map": true}
	randPkgs    = map[string]bool{"math/rand": true, "math/rand/v2": true, "crypto/rand": true}
	randFuncs   = map[string]bool{"time.Now": true, "os.Getpid": true}
)

func namedTypeName(t types.Type) (string, bool) {
	for {
		if p, ok := t.(*types.Pointer); ok {
			t = p.Elem()
			continue
		}
		break
	}
	t = types.Unalias(t)
	n, ok := t.(*types.Named)
	if !ok || n.Obj() == nil {
		return "", false
	}
	if n.Obj().Pkg() == nil {
		return n.Obj().Name(), true
	}
	return n.Obj().Pkg().Path() + "." + n.Obj().Name(), true
}

func (r *repo) scanGoPkg(p *goPkg, fx *facts) {
	for _, sf := range p.files {
		// import table of the file: local name -> path
		imports := map[string]string{}
		for _, is := range sf.ast.Imports {
			path, _ := strconv.Unquote(is.Path.Value)
			name := path[strings.LastIndex(path, "/")+1:]
			if name == "v2" {
				name = "rand"
			}
			if is.Name != nil {
				name = is.Name.Name
			}
			imports[name] = path
		}
		// calls, so that a selector that is the callee is reported with its call
		callOf := map[ast.Expr]*ast.CallExpr{}
		ast.Inspect(sf.ast, func(n ast.Node) bool {
			if c, ok := n.(*ast.CallExpr); ok {
				callOf[ast.Unparen(c.Fun)] = c
			}
			return true
		})
		seenRand := map[token.Pos]bool{}
		// order-sensitivity of the iteration sites (maporder.go)
		oc := &orderCtx{r: r, p: p, imports: imports, parents: parentMap(sf.ast)}
		ast.Inspect(sf.ast, func(n ast.Node) bool {
			switch x := n.(type) {
			case *ast.RangeStmt:
				m := mapUnknown
				if tv, ok := p.info.Types[x.X]; ok {
					m = typeMapness(tv.Type)
				}
				if m == mapUnknown {
					m = p.syntacticMapness(x.X)
				}
				switch m {
				case isMap:
					pat, det := oc.classifyRange(x, false)
					fx.mapRangeSites = append(fx.mapRangeSites, mapRange{sf.rel, enclosing(sf.ast, x.Pos()), r.text(x.X), "range", pat, det})
				case mapUnknown:
					// classified as if it were a map: a loop that fits a
					// pattern is harmless whatever it ranges over
					pat, det := oc.classifyRange(x, false)
					fx.mapRangeSites = append(fx.mapRangeSites, mapRange{sf.rel, enclosing(sf.ast, x.Pos()), "unknown: " + r.text(x.X), "unknown", pat, det})
				}
			case *ast.SelectorExpr:
				// (a) iteration methods of typeutil.Map / sync.Map
				if iterMethods[x.Sel.Name] {
					var node ast.Node = x
					if c := callOf[x]; c != nil {
						node = c
					}
					if sel := p.info.Selections[x]; sel != nil {
						if name, ok := namedTypeName(sel.Recv()); ok {
							if iterTypes[name] {
								pat, det := oc.classifyKeysCall(node)
								fx.mapRangeSites = append(fx.mapRangeSites, mapRange{sf.rel, enclosing(sf.ast, x.Pos()), r.text(node), "call", pat, det})
							}
						} else if typeMapness(sel.Recv()) == mapUnknown {
							fx.mapRangeSites = append(fx.mapRangeSites, mapRange{sf.rel, enclosing(sf.ast, x.Pos()), "unknown: " + r.text(node), "unknown", "unknown:" + r.text(node), "receiver type not resolved"})
						}
					} else if _, isPkg := p.info.Uses[x.Sel]; !isPkg {
						// neither a resolved method/field selection nor a
						// resolved qualified identifier: receiver type unknown
						fx.mapRangeSites = append(fx.mapRangeSites, mapRange{sf.rel, enclosing(sf.ast, x.Pos()), "unknown: " + r.text(node), "unknown", "unknown:" + r.text(node), "receiver type not resolved"})
					}
				}
				// (b) random / time / pid sources
				hit := false
				if obj, ok := p.info.Uses[x.Sel].(*types.Func); ok && obj.Pkg() != nil {
					if randPkgs[obj.Pkg().Path()] {
						hit = true
					} else if sig, ok := obj.Type().(*types.Signature); ok && sig.Recv() == nil && randFuncs[obj.Pkg().Path()+"."+obj.Name()] {
						hit = true
					}
				}
				if id, ok := x.X.(*ast.Ident); ok && !hit {
					if path, ok := imports[id.Name]; ok {
						if _, isPkgName := p.info.Uses[id].(*types.PkgName); isPkgName || p.info.Uses[id] == nil {
							if randFuncs[path+"."+x.Sel.Name] {
								hit = true
							} else if randPkgs[path] && callOf[x] != nil {
								// a call through the package name (excludes
								// type references such as rand.Source)
								hit = true
							}
						}
					}
				}
				if hit && !seenRand[x.Sel.Pos()] {
					seenRand[x.Sel.Pos()] = true
					var node ast.Node = x
					if c := callOf[x]; c != nil {
						node = c
					}
					fx.randomSources = append(fx.randomSources, triple{sf.rel, enclosing(sf.ast, x.Pos()), r.text(node)})
				}
			}
			return true
		})
	}
}

// ---------------------------------------------------------------------------
// 1. expression sites in templates, 2. hard-coded package references
// ---------------------------------------------------------------------------

var genFuncNames = []string{"type", "typeName", "typeHash", "predHash", "isPredicate", "expr", "rawExpr", "lineDir", "magic", "quote", "import"}

var builtinFuncNames = []string{"and", "call", "html", "index", "slice", "js", "len", "not", "or", "print", "printf", "println", "urlquery", "eq", "ge", "gt", "le", "lt", "ne"}

// functions whose result is (part of) their argument
var passThrough = map[string]bool{"index": true, "slice": true, "and": true, "or": true}

var rePkgRef = regexp.MustCompile(`\b(time|context|fmt|runtime|debug|sync|atomic|cff|strconv|errors)\.[A-Z]\w*`)

type dkind int

const (
	dUnset dkind = iota
	dNot
	dUser
	dUnknown
)

type dot struct {
	k   dkind
	via string // direct | withDot | rangeElem
}

func join(a, b dot) dot {
	switch {
	case a.k == dUnset:
		return b
	case b.k == dUnset:
		return a
	case a.k == b.k:
		if a.via == b.via {
			return a
		}
		return dot{a.k, "withDot"}
	default:
		return dot{dUnknown, "withDot"}
	}
}

// tmplExec is one ExecuteTemplate call of the generator: the patterns of
// the template set, the name of the root template and what its data is.
type tmplExec struct {
	patterns []string
	root     string
	data     dot
	dataText string
	linked   bool // the receiver was assigned from ParseFS(<embedded templates>, ...) in the same function
}

type tmplTree struct {
	file string // relative to internal/templates
	tree *parse.Tree
}

type tmplAnalysis struct {
	userFields map[string]bool
	set        map[string]tmplTree
	entry      map[string]dot
	changed    bool
	emit       bool
	sites      map[string]exprSite // keyed by position+result: de-duplicates shared templates
}

func (a *tmplAnalysis) isUserField(names []string) bool {
	return len(names) > 0 && a.userFields[names[len(names)-1]]
}

// evalArg classifies the value denoted by an operand.
func (a *tmplAnalysis) evalArg(n parse.Node, d dot, root dot, vars map[string]dot) dot {
	switch x := n.(type) {
	case *parse.FieldNode:
		if a.isUserField(x.Ident) {
			return dot{dUser, "direct"}
		}
		return dot{dNot, ""}
	case *parse.ChainNode:
		if a.isUserField(x.Field) {
			return dot{dUser, "direct"}
		}
		return dot{dNot, ""}
	case *parse.VariableNode:
		if len(x.Ident) > 1 {
			if a.isUserField(x.Ident[1:]) {
				return dot{dUser, "direct"}
			}
			return dot{dNot, ""}
		}
		if x.Ident[0] == "$" {
			return root
		}
		if v, ok := vars[x.Ident[0]]; ok {
			return v
		}
		return dot{dUnknown, "direct"}
	case *parse.DotNode:
		return d
	case *parse.PipeNode:
		return a.evalPipe(x, d, root, vars)
	case *parse.IdentifierNode, *parse.StringNode, *parse.NumberNode, *parse.BoolNode, *parse.NilNode:
		return dot{dNot, ""}
	}
	return dot{dUnknown, "direct"}
}

func (a *tmplAnalysis) evalCmd(c *parse.CommandNode, piped *dot, d dot, root dot, vars map[string]dot) dot {
	if len(c.Args) == 0 {
		return dot{dNot, ""}
	}
	if id, ok := c.Args[0].(*parse.IdentifierNode); ok {
		if !passThrough[id.Ident] {
			return dot{dNot, ""} // generator functions return strings / bools
		}
		res := dot{dNot, ""}
		for _, arg := range c.Args[1:] {
			if v := a.evalArg(arg, d, root, vars); v.k != dNot {
				res = v
			}
		}
		if piped != nil && piped.k != dNot {
			res = *piped
		}
		return res
	}
	return a.evalArg(c.Args[0], d, root, vars)
}

func (a *tmplAnalysis) evalPipe(p *parse.PipeNode, d dot, root dot, vars map[string]dot) dot {
	if p == nil {
		return dot{dNot, ""}
	}
	var cur *dot
	for _, c := range p.Cmds {
		v := a.evalCmd(c, cur, d, root, vars)
		cur = &v
	}
	if cur == nil {
		return dot{dNot, ""}
	}
	return *cur
}

func (a *tmplAnalysis) site(t tmplTree, act *parse.ActionNode, arg parse.Node, wrapper string, v dot) {
	if !a.emit {
		return
	}
	kind := v.via
	if kind == "" {
		kind = "direct"
	}
	if v.k == dUnknown {
		wrapper = "unknown"
	}
	s := exprSite{file: t.file, action: oneLine(act.String()), wrapper: wrapper, kind: kind}
	key := fmt.Sprintf("%s\x00%d\x00%d\x00%s\x00%s", t.file, act.Position(), arg.Position(), wrapper, kind)
	a.sites[key] = s
}

// printSites reports every operand of a printing pipeline that is a user
// expression (or that cannot be classified).
func (a *tmplAnalysis) printSites(t tmplTree, act *parse.ActionNode, p *parse.PipeNode, d dot, root dot, vars map[string]dot) {
	for i, c := range p.Cmds {
		for j, arg := range c.Args {
			if sub, ok := arg.(*parse.PipeNode); ok {
				a.printSites(t, act, sub, d, root, vars)
				continue
			}
			if _, ok := arg.(*parse.IdentifierNode); ok {
				continue
			}
			v := a.evalArg(arg, d, root, vars)
			if v.k != dUser && v.k != dUnknown {
				continue
			}
			wrapper := ""
			switch {
			case j > 0:
				if id, ok := c.Args[0].(*parse.IdentifierNode); ok {
					wrapper = id.Ident
				} else {
					wrapper = "method:" + c.Args[0].String()
				}
			case len(c.Args) > 1:
				wrapper = "method:" + arg.String() // the operand itself is called with arguments
			case i+1 < len(p.Cmds):
				if id, ok := p.Cmds[i+1].Args[0].(*parse.IdentifierNode); ok {
					wrapper = id.Ident
				} else {
					wrapper = "method:" + p.Cmds[i+1].Args[0].String()
				}
			}
			a.site(t, act, arg, wrapper, v)
		}
	}
}

func (a *tmplAnalysis) declare(p *parse.PipeNode, vars map[string]dot, vals ...dot) {
	// vals are aligned with the END of the declaration list (range: [key,] elem)
	off := len(p.Decl) - len(vals)
	for i, dv := range p.Decl {
		name := dv.Ident[0]
		v := dot{dNot, ""}
		if i-off >= 0 && i-off < len(vals) {
			v = vals[i-off]
		}
		if old, ok := vars[name]; ok && p.IsAssign {
			v = join(old, v)
		}
		vars[name] = v
	}
}

func (a *tmplAnalysis) walk(t tmplTree, n parse.Node, d dot, root dot, vars map[string]dot) {
	switch x := n.(type) {
	case nil:
	case *parse.ListNode:
		if x == nil {
			return
		}
		for _, c := range x.Nodes {
			a.walk(t, c, d, root, vars)
		}
	case *parse.ActionNode:
		if len(x.Pipe.Decl) > 0 {
			a.declare(x.Pipe, vars, a.evalPipe(x.Pipe, d, root, vars))
			return
		}
		a.printSites(t, x, x.Pipe, d, root, vars)
	case *parse.IfNode:
		a.walk(t, x.List, d, root, vars)
		a.walk(t, x.ElseList, d, root, vars)
	case *parse.WithNode:
		v := a.evalPipe(x.Pipe, d, root, vars)
		if v.k == dUser || v.k == dUnknown {
			v.via = "withDot"
		}
		a.declare(x.Pipe, vars, v)
		a.walk(t, x.List, v, root, vars)
		a.walk(t, x.ElseList, d, root, vars)
	case *parse.RangeNode:
		v := a.evalPipe(x.Pipe, d, root, vars)
		if v.k == dUser || v.k == dUnknown {
			v.via = "rangeElem"
		}
		a.declare(x.Pipe, vars, v)
		a.walk(t, x.List, v, root, vars)
		a.walk(t, x.ElseList, d, root, vars)
	case *parse.TemplateNode:
		v := a.evalPipe(x.Pipe, d, root, vars)
		if v.k == dUser || v.k == dUnknown {
			v.via = "withDot" // the value is dot itself in the invoked template
		}
		old := a.entry[x.Name]
		nv := join(old, v)
		if nv != old {
			a.entry[x.Name] = nv
			a.changed = true
		}
	}
}

func (a *tmplAnalysis) walkTree(name string) {
	t := a.set[name]
	if t.tree == nil || t.tree.Root == nil {
		return
	}
	e := a.entry[name]
	if e.k == dUnset {
		e = dot{dUnknown, "withDot"} // never invoked from a known place
	}
	a.walk(t, t.tree.Root, e, e, map[string]dot{})
}

// goTemplateModel extracts, from the generator's Go source, (F) the struct
// fields holding user expressions, the names registered in FuncMaps, and
// the ExecuteTemplate calls with their template sets.
func (r *repo) goTemplateModel(p *goPkg, fx *facts) (userFields map[string]bool, funcNames map[string]bool, execs []tmplExec) {
	userFields = map[string]bool{}
	funcNames = map[string]bool{}
	consts := map[string]string{}
	funcResult := map[string]ast.Expr{} // function name -> sole result type
	structs := map[string]bool{}
	embedFS := map[string]bool{} // package-level variables of type embed.FS

	isExprType := func(e ast.Expr) bool {
		if at, ok := e.(*ast.ArrayType); ok {
			e = at.Elt
		}
		if se, ok := e.(*ast.SelectorExpr); ok {
			if id, ok := se.X.(*ast.Ident); ok && id.Name == "ast" && (se.Sel.Name == "Expr" || se.Sel.Name == "Node") {
				return true
			}
		}
		return false
	}

	for _, sf := range p.files {
		for _, d := range sf.ast.Decls {
			switch x := d.(type) {
			case *ast.FuncDecl:
				if x.Recv == nil && x.Type.Results != nil && len(x.Type.Results.List) == 1 && len(x.Type.Results.List[0].Names) <= 1 {
					funcResult[x.Name.Name] = x.Type.Results.List[0].Type
				}
			case *ast.GenDecl:
				for _, s := range x.Specs {
					switch s := s.(type) {
					case *ast.ValueSpec:
						if x.Tok == token.VAR {
							if se, ok := s.Type.(*ast.SelectorExpr); ok && se.Sel.Name == "FS" {
								if id, ok := se.X.(*ast.Ident); ok && id.Name == "embed" {
									for _, n := range s.Names {
										embedFS[n.Name] = true
									}
								}
							}
						}
						if x.Tok != token.CONST {
							continue
						}
						for i, n := range s.Names {
							if i < len(s.Values) {
								if bl, ok := s.Values[i].(*ast.BasicLit); ok && bl.Kind == token.STRING {
									if v, err := strconv.Unquote(bl.Value); err == nil {
										consts[n.Name] = v
									}
								}
							}
						}
					case *ast.TypeSpec:
						st, ok := s.Type.(*ast.StructType)
						if !ok {
							continue
						}
						structs[s.Name.Name] = true
						for _, f := range st.Fields.List {
							if !isExprType(f.Type) {
								continue
							}
							if len(f.Names) == 0 { // embedded ast.Node / ast.Expr
								name := f.Type.(*ast.SelectorExpr).Sel.Name
								userFields[name] = true
								fx.exprFields = append(fx.exprFields, pair{s.Name.Name, name})
							}
							for _, n := range f.Names {
								userFields[n.Name] = true
								fx.exprFields = append(fx.exprFields, pair{s.Name.Name, n.Name})
							}
						}
					}
				}
			}
		}
	}

	strArg := func(e ast.Expr) (string, bool) {
		switch x := e.(type) {
		case *ast.Ident:
			v, ok := consts[x.Name]
			return v, ok
		case *ast.BasicLit:
			if x.Kind == token.STRING {
				v, err := strconv.Unquote(x.Value)
				return v, err == nil
			}
		}
		return "", false
	}

	for _, sf := range p.files {
		// FuncMap keys
		ast.Inspect(sf.ast, func(n ast.Node) bool {
			cl, ok := n.(*ast.CompositeLit)
			if !ok {
				return true
			}
			if se, ok := cl.Type.(*ast.SelectorExpr); ok && se.Sel.Name == "FuncMap" {
				for _, el := range cl.Elts {
					if kv, ok := el.(*ast.KeyValueExpr); ok {
						if k, ok := strArg(kv.Key); ok {
							funcNames[k] = true
						}
					}
				}
			}
			return true
		})
		// ParseFS / ExecuteTemplate per function
		for _, d := range sf.ast.Decls {
			fd, ok := d.(*ast.FuncDecl)
			if !ok || fd.Body == nil {
				continue
			}
			sets := map[string][]string{} // variable -> patterns
			ast.Inspect(fd.Body, func(n ast.Node) bool {
				as, ok := n.(*ast.AssignStmt)
				if !ok || len(as.Rhs) != 1 || len(as.Lhs) == 0 {
					return true
				}
				call, ok := as.Rhs[0].(*ast.CallExpr)
				if !ok {
					return true
				}
				se, ok := call.Fun.(*ast.SelectorExpr)
				if !ok || se.Sel.Name != "ParseFS" || len(call.Args) < 2 {
					return true
				}
				// only template sets read from this package's embedded
				// templates/ directory; other sets (modifier mode) are foreign
				if fsID, ok := call.Args[0].(*ast.Ident); !ok || !embedFS[fsID.Name] {
					return true
				}
				id, ok := as.Lhs[0].(*ast.Ident)
				if !ok {
					return true
				}
				var pats []string
				for _, arg := range call.Args[1:] {
					if v, ok := strArg(arg); ok {
						pats = append(pats, v)
					} else {
						pats = append(pats, "unknown: "+r.text(arg))
					}
				}
				sets[id.Name] = pats
				return true
			})
			ast.Inspect(fd.Body, func(n ast.Node) bool {
				call, ok := n.(*ast.CallExpr)
				if !ok {
					return true
				}
				se, ok := call.Fun.(*ast.SelectorExpr)
				if !ok || se.Sel.Name != "ExecuteTemplate" || len(call.Args) != 3 {
					return true
				}
				ex := tmplExec{dataText: r.text(call.Args[2]), data: dot{dUnknown, "withDot"}}
				if id, ok := se.X.(*ast.Ident); ok {
					ex.patterns, ex.linked = sets[id.Name]
				}
				if v, ok := strArg(call.Args[1]); ok {
					ex.root = v
				} else {
					ex.root = "unknown: " + r.text(call.Args[1])
				}
				switch dx := call.Args[2].(type) {
				case *ast.CompositeLit:
					if id, ok := dx.Type.(*ast.Ident); ok && structs[id.Name] {
						ex.data = dot{dNot, ""}
					}
				case *ast.UnaryExpr:
					if cl, ok := dx.X.(*ast.CompositeLit); ok && dx.Op == token.AND {
						if id, ok := cl.Type.(*ast.Ident); ok && structs[id.Name] {
							ex.data = dot{dNot, ""}
						}
					}
				case *ast.CallExpr:
					if id, ok := dx.Fun.(*ast.Ident); ok {
						if rt, ok := funcResult[id.Name]; ok && isExprType(rt) {
							ex.data = dot{dUser, "withDot"}
						}
					}
				}
				execs = append(execs, ex)
				return true
			})
		}
	}
	return
}

func dataKindText(d dot) string {
	switch d.k {
	case dNot:
		return "struct"
	case dUser:
		return "userExprs"
	}
	return "unknown"
}

func (r *repo) scanTemplates(p *goPkg, fx *facts) {
	userFields, funcNames, execs := r.goTemplateModel(p, fx)
	funcs := map[string]any{}
	for _, n := range genFuncNames {
		funcs[n] = true
	}
	for n := range funcNames {
		funcs[n] = true
	}
	for _, n := range builtinFuncNames {
		funcs[n] = true
	}

	const tdir = "internal/templates"
	// all template files
	var all []string
	filepath.WalkDir(filepath.Join(r.root, tdir), func(path string, d os.DirEntry, err error) error {
		if err == nil && !d.IsDir() {
			rel, _ := filepath.Rel(filepath.Join(r.root, tdir), path)
			all = append(all, filepath.ToSlash(rel))
		}
		return nil
	})
	sort.Strings(all)

	parsed := map[string]map[string]*parse.Tree{}
	for _, rel := range all {
		bs, err := r.readFile(tdir + "/" + rel)
		if err != nil {
			fx.exprSites = append(fx.exprSites, exprSite{rel, "unknown: unreadable: " + oneLine(err.Error()), "unknown", "unknown"})
			continue
		}
		trees, err := parse.Parse(filepath.Base(rel), string(bs), "", "", funcs)
		if err != nil {
			fx.exprSites = append(fx.exprSites, exprSite{rel, "unknown: parse error: " + oneLine(err.Error()), "unknown", "unknown"})
			continue
		}
		parsed[rel] = trees
		// 2. hard-coded package references in text nodes
		names := make([]string, 0, len(trees))
		for n := range trees {
			names = append(names, n)
		}
		sort.Strings(names)
		for _, n := range names {
			if trees[n].Root == nil {
				continue
			}
			walkText(trees[n].Root, func(text string) {
				for _, m := range rePkgRef.FindAllString(text, -1) {
					fx.hardcodedPkgRefs = append(fx.hardcodedPkgRefs, pair{rel, m})
				}
			})
		}
	}

	covered := map[string]bool{}
	sites := map[string]exprSite{}
	analyse := func(files []string, root string, data dot) {
		a := &tmplAnalysis{userFields: userFields, set: map[string]tmplTree{}, entry: map[string]dot{}, sites: sites}
		for _, rel := range files {
			covered[rel] = true
			names := make([]string, 0, len(parsed[rel]))
			for n := range parsed[rel] {
				names = append(names, n)
			}
			sort.Strings(names)
			for _, n := range names {
				tr := parsed[rel][n]
				if old, ok := a.set[n]; ok && (tr.Root == nil || len(tr.Root.Nodes) == 0) && old.tree != nil {
					continue // an empty redefinition does not replace a template
				}
				a.set[n] = tmplTree{file: rel, tree: tr}
			}
		}
		if root != "" {
			a.entry[root] = data
		}
		names := make([]string, 0, len(a.set))
		for n := range a.set {
			names = append(names, n)
		}
		sort.Strings(names)
		for iter := 0; iter < 20; iter++ {
			a.changed = false
			for _, n := range names {
				if a.entry[n].k != dUnset {
					a.walkTree(n)
				}
			}
			if !a.changed {
				break
			}
		}
		a.emit = true
		for _, n := range names {
			a.walkTree(n)
		}
	}

	for _, ex := range execs {
		if !ex.linked {
			// Not a set of internal/templates (e.g. modifier mode). Templates of
			// internal/templates left uncovered are analysed below with an
			// unknown dot, so nothing is lost by skipping this call.
			fx.templateRoots = append(fx.templateRoots, triple{"foreign", ex.root, dataKindText(ex.data) + ": " + ex.dataText})
			continue
		}
		var files []string
		ok := len(ex.patterns) > 0
		for _, pat := range ex.patterns {
			if strings.HasPrefix(pat, "unknown: ") || !strings.HasPrefix(pat, "templates/") {
				ok = false
				continue
			}
			for _, rel := range all {
				if m, _ := filepath.Match(strings.TrimPrefix(pat, "templates/"), rel); m {
					files = append(files, rel)
				}
			}
		}
		fx.templateRoots = append(fx.templateRoots, triple{strings.Join(ex.patterns, " "), ex.root, dataKindText(ex.data) + ": " + ex.dataText})
		if !ok {
			fx.exprSites = append(fx.exprSites, exprSite{"", "unknown: template set of ExecuteTemplate(" + ex.root + ") not resolved", "unknown", "unknown"})
			continue
		}
		analyse(files, ex.root, ex.data)
	}
	// templates not covered by any resolved ExecuteTemplate call are analysed
	// on their own, with an unknown dot
	for _, rel := range all {
		if !covered[rel] && parsed[rel] != nil {
			analyse([]string{rel}, "", dot{})
		}
	}
	for _, s := range sites {
		fx.exprSites = append(fx.exprSites, s)
	}
}

func walkText(n parse.Node, f func(string)) {
	switch x := n.(type) {
	case *parse.ListNode:
		if x == nil {
			return
		}
		for _, c := range x.Nodes {
			walkText(c, f)
		}
	case *parse.TextNode:
		f(string(x.Text))
	case *parse.IfNode:
		walkText(x.List, f)
		walkText(x.ElseList, f)
	case *parse.WithNode:
		walkText(x.List, f)
		walkText(x.ElseList, f)
	case *parse.RangeNode:
		walkText(x.List, f)
		walkText(x.ElseList, f)
	}
}

// ---------------------------------------------------------------------------
// 5. source-map writes
// ---------------------------------------------------------------------------

type interval struct{ lo, hi token.Pos }

func mentions(e ast.Expr, name string) bool {
	found := false
	ast.Inspect(e, func(n ast.Node) bool {
		if se, ok := n.(*ast.SelectorExpr); ok && se.Sel.Name == name {
			found = true
		}
		if id, ok := n.(*ast.Ident); ok && id.Name == name {
			found = true
		}
		return true
	})
	return found
}

// guardPolarity classifies a condition: +1 holds only in source-map mode,
// -1 holds only outside it, 0 does not mention the flag, 2 unrecognised.
func guardPolarity(e ast.Expr) int {
	e = ast.Unparen(e)
	if !mentions(e, "sourceMapped") {
		return 0
	}
	switch x := e.(type) {
	case *ast.SelectorExpr:
		if x.Sel.Name == "sourceMapped" {
			return 1
		}
	case *ast.Ident:
		if x.Name == "sourceMapped" {
			return 1
		}
	case *ast.UnaryExpr:
		if x.Op == token.NOT && guardPolarity(x.X) == 1 {
			return -1
		}
	case *ast.BinaryExpr:
		if x.Op == token.LAND {
			l, r := guardPolarity(x.X), guardPolarity(x.Y)
			if (l == 1 && (r == 0 || r == 1)) || (l == 0 && r == 1) {
				return 1
			}
		}
	}
	return 2
}

func terminates(b *ast.BlockStmt) bool {
	if b == nil || len(b.List) == 0 {
		return false
	}
	switch x := b.List[len(b.List)-1].(type) {
	case *ast.ReturnStmt:
		return true
	case *ast.ExprStmt:
		if c, ok := x.X.(*ast.CallExpr); ok {
			if id, ok := c.Fun.(*ast.Ident); ok && id.Name == "panic" {
				return true
			}
		}
	}
	return false
}

func (r *repo) scanSourceMap(p *goPkg, fx *facts) {
	for _, sf := range p.files {
		base := filepath.Base(sf.rel)
		if !strings.HasPrefix(base, "gen") {
			continue
		}
		var guarded []interval
		inGuard := func(pos token.Pos) bool {
			for _, iv := range guarded {
				if iv.lo <= pos && pos < iv.hi {
					return true
				}
			}
			return false
		}
		add := func(n ast.Node, lit string, isLit bool) {
			w := smWrite{file: sf.rel, fn: enclosing(sf.ast, n.Pos()), literal: lit, guarded: inGuard(n.Pos())}
			if isLit {
				t := strings.TrimLeft(lit, " \t\r\n")
				w.isComment = strings.HasPrefix(t, "//") || strings.HasPrefix(t, "/*")
			}
			fx.sourceMapWrites = append(fx.sourceMapWrites, w)
		}

		// pass 1: guarded regions
		var visitBlock func(list []ast.Stmt, end token.Pos)
		visitBlock = func(list []ast.Stmt, end token.Pos) {
			for _, s := range list {
				is, ok := s.(*ast.IfStmt)
				if !ok {
					continue
				}
				switch guardPolarity(is.Cond) {
				case 1:
					guarded = append(guarded, interval{is.Body.Pos(), is.Body.End()})
				case -1:
					if is.Else != nil {
						guarded = append(guarded, interval{is.Else.Pos(), is.Else.End()})
					}
					if terminates(is.Body) {
						guarded = append(guarded, interval{is.End(), end})
					}
				case 2:
					add(is, "unknown: if "+r.text(is.Cond), false)
				}
			}
		}
		ast.Inspect(sf.ast, func(n ast.Node) bool {
			switch x := n.(type) {
			case *ast.BlockStmt:
				visitBlock(x.List, x.End())
			case *ast.CaseClause:
				visitBlock(x.Body, x.End())
			case *ast.CommClause:
				visitBlock(x.Body, x.End())
			}
			return true
		})

		// pass 2: writes inside guarded regions
		recorded := map[token.Pos]bool{}
		litOf := func(n ast.Node, e ast.Expr) {
			e = ast.Unparen(e)
			if c, ok := e.(*ast.CallExpr); ok && len(c.Args) == 1 { // []byte("...") / string("...")
				if _, isArr := c.Fun.(*ast.ArrayType); isArr {
					e = ast.Unparen(c.Args[0])
				} else if id, ok := c.Fun.(*ast.Ident); ok && id.Name == "string" {
					e = ast.Unparen(c.Args[0])
				}
			}
			// a literal, a constant, or a concatenation: its constant value, or its
			// leading constant part (`"//line " + name + ":1\n"` starts like
			// `"//line %v:1\n"` does).  A concatenation whose first operand is not
			// constant is unknown.
			if v, _, ok := stringPrefix(e, p.info, recorded); ok {
				add(n, v, true)
				return
			}
			add(n, "unknown: "+r.text(n), false)
		}
		var stack []ast.Node
		ast.Inspect(sf.ast, func(n ast.Node) bool {
			if n == nil {
				stack = stack[:len(stack)-1]
				return true
			}
			stack = append(stack, n)
			switch x := n.(type) {
			case *ast.CallExpr:
				if !inGuard(x.Pos()) {
					return true
				}
				se, ok := x.Fun.(*ast.SelectorExpr)
				if !ok {
					return true
				}
				pkg := ""
				if id, ok := se.X.(*ast.Ident); ok {
					pkg = id.Name
				}
				switch {
				case pkg == "fmt" && (se.Sel.Name == "Fprintf" || se.Sel.Name == "Fprint" || se.Sel.Name == "Fprintln"):
					if len(x.Args) >= 2 {
						litOf(x, x.Args[1])
					} else {
						add(x, "unknown: "+r.text(x), false)
					}
				case pkg == "io" && se.Sel.Name == "WriteString":
					if len(x.Args) == 2 {
						litOf(x, x.Args[1])
					} else {
						add(x, "unknown: "+r.text(x), false)
					}
				case pkg == "fmt" || pkg == "io" || pkg == "os" || pkg == "filepath" || pkg == "strconv":
					// other package functions do not write generated output
				case se.Sel.Name == "Write" || se.Sel.Name == "WriteString" || se.Sel.Name == "WriteByte" || se.Sel.Name == "WriteRune":
					if len(x.Args) == 1 {
						litOf(x, x.Args[0])
					} else {
						add(x, "unknown: "+r.text(x), false)
					}
				}
			case *ast.ReturnStmt:
				if !inGuard(x.Pos()) {
					return true
				}
				// only functions returning exactly one string (template funcs)
				var ft *ast.FuncType
				for i := len(stack) - 1; i >= 0 && ft == nil; i-- {
					switch f := stack[i].(type) {
					case *ast.FuncDecl:
						ft = f.Type
					case *ast.FuncLit:
						ft = f.Type
					}
				}
				if ft == nil || ft.Results == nil || len(ft.Results.List) != 1 || len(ft.Results.List[0].Names) > 1 {
					return true
				}
				if id, ok := ft.Results.List[0].Type.(*ast.Ident); !ok || id.Name != "string" {
					return true
				}
				if len(x.Results) != 1 {
					add(x, "unknown: "+r.text(x), false)
					return true
				}
				res := ast.Unparen(x.Results[0])
				if c, ok := res.(*ast.CallExpr); ok {
					if se, ok := c.Fun.(*ast.SelectorExpr); ok {
						if id, ok := se.X.(*ast.Ident); ok && id.Name == "fmt" && strings.HasPrefix(se.Sel.Name, "Sprint") && len(c.Args) > 0 {
							litOf(x, c.Args[0])
							return true
						}
					}
				}
				litOf(x, res)
			}
			return true
		})

		// pass 3: every other literal spelling a line directive
		ast.Inspect(sf.ast, func(n ast.Node) bool {
			bl, ok := n.(*ast.BasicLit)
			if !ok || bl.Kind != token.STRING || recorded[bl.Pos()] {
				return true
			}
			v, err := strconv.Unquote(bl.Value)
			if err != nil {
				return true
			}
			if strings.Contains(v, "/*line") || strings.Contains(v, "//line") {
				add(bl, v, true)
			}
			return true
		})
	}
}

// ---------------------------------------------------------------------------
// 6. directives
// ---------------------------------------------------------------------------

func (r *repo) scanDirectives(internal *goPkg, fx *facts) {
	// stubs of the root package
	for _, rel := range r.goFiles(".") {
		sf, err := r.parseGo(rel)
		if err != nil {
			fx.directiveNames = append(fx.directiveNames, "unknown: parse "+rel)
			continue
		}
		// string constants naming the "not processed with cff" message
		msgConsts := map[string]bool{}
		for _, d := range sf.ast.Decls {
			if gd, ok := d.(*ast.GenDecl); ok && gd.Tok == token.CONST {
				for _, s := range gd.Specs {
					vs := s.(*ast.ValueSpec)
					for i, n := range vs.Names {
						if i < len(vs.Values) {
							if bl, ok := vs.Values[i].(*ast.BasicLit); ok && bl.Kind == token.STRING {
								if v, err := strconv.Unquote(bl.Value); err == nil && strings.Contains(v, "without processing it with cff") {
									msgConsts[n.Name] = true
								}
							}
						}
					}
				}
			}
		}
		for _, d := range sf.ast.Decls {
			fd, ok := d.(*ast.FuncDecl)
			if !ok || fd.Recv != nil || fd.Body == nil || len(fd.Body.List) != 1 {
				continue
			}
			es, ok := fd.Body.List[0].(*ast.ExprStmt)
			if !ok {
				continue
			}
			call, ok := es.X.(*ast.CallExpr)
			if !ok {
				continue
			}
			if id, ok := call.Fun.(*ast.Ident); !ok || id.Name != "panic" || len(call.Args) != 1 {
				continue
			}
			// a function whose whole body is one panic: a stub
			if id, ok := call.Args[0].(*ast.Ident); ok && msgConsts[id.Name] {
				fx.directiveNames = append(fx.directiveNames, fd.Name.Name)
			} else {
				fx.directiveNames = append(fx.directiveNames, "unknown: "+fd.Name.Name+" "+r.text(call))
			}
		}
	}
	// the table of the compiler
	found := false
	for _, sf := range internal.files {
		for _, d := range sf.ast.Decls {
			gd, ok := d.(*ast.GenDecl)
			if !ok || gd.Tok != token.VAR {
				continue
			}
			for _, s := range gd.Specs {
				vs := s.(*ast.ValueSpec)
				for i, n := range vs.Names {
					if n.Name != "_codegenDirectives" {
						continue
					}
					found = true
					if i >= len(vs.Values) {
						fx.directiveTable = append(fx.directiveTable, "unknown: _codegenDirectives has no initialiser")
						continue
					}
					cl, ok := vs.Values[i].(*ast.CompositeLit)
					if !ok {
						fx.directiveTable = append(fx.directiveTable, "unknown: "+r.text(vs.Values[i]))
						continue
					}
					for _, el := range cl.Elts {
						kv, ok := el.(*ast.KeyValueExpr)
						if !ok {
							fx.directiveTable = append(fx.directiveTable, "unknown: "+r.text(el))
							continue
						}
						if bl, ok := kv.Key.(*ast.BasicLit); ok && bl.Kind == token.STRING {
							if v, err := strconv.Unquote(bl.Value); err == nil {
								fx.directiveTable = append(fx.directiveTable, v)
								continue
							}
						}
						fx.directiveTable = append(fx.directiveTable, "unknown: "+r.text(kv.Key))
					}
				}
			}
		}
	}
	if !found {
		fx.directiveTable = append(fx.directiveTable, "unknown: var _codegenDirectives not found in internal/*.go")
	}
}

// ---------------------------------------------------------------------------
// 7. channel capacities, 8. dispatch guard
// ---------------------------------------------------------------------------

func isMakeChan(e ast.Expr) (*ast.CallExpr, bool) {
	c, ok := e.(*ast.CallExpr)
	if !ok || len(c.Args) == 0 {
		return nil, false
	}
	if id, ok := c.Fun.(*ast.Ident); !ok || id.Name != "make" {
		return nil, false
	}
	_, ok = c.Args[0].(*ast.ChanType)
	return c, ok
}

func (r *repo) scanScheduler(fx *facts) {
	const rel = "scheduler/scheduler.go"
	sf, err := r.parseGo(rel)
	if err != nil {
		fx.chanCaps = append(fx.chanCaps, pair{"unknown: " + oneLine(err.Error()), "unknown"})
		fx.dispatchGuard = append(fx.dispatchGuard, "unknown: "+oneLine(err.Error()))
		return
	}
	capOf := func(c *ast.CallExpr) string {
		switch len(c.Args) {
		case 1:
			return "0"
		case 2:
			return r.text(c.Args[1])
		}
		return "unknown: " + r.text(c)
	}
	named := map[*ast.CallExpr]bool{}
	ast.Inspect(sf.ast, func(n ast.Node) bool {
		switch x := n.(type) {
		case *ast.AssignStmt:
			if len(x.Lhs) == len(x.Rhs) {
				for i, rhs := range x.Rhs {
					if c, ok := isMakeChan(rhs); ok {
						named[c] = true
						fx.chanCaps = append(fx.chanCaps, pair{r.text(x.Lhs[i]), capOf(c)})
					}
				}
			}
		case *ast.ValueSpec:
			if len(x.Names) == len(x.Values) {
				for i, v := range x.Values {
					if c, ok := isMakeChan(v); ok {
						named[c] = true
						fx.chanCaps = append(fx.chanCaps, pair{x.Names[i].Name, capOf(c)})
					}
				}
			}
		case *ast.KeyValueExpr:
			if c, ok := isMakeChan(x.Value); ok {
				named[c] = true
				fx.chanCaps = append(fx.chanCaps, pair{r.text(x.Key), capOf(c)})
			}
		case *ast.CompositeLit:
			// the fields the Scheduler is constructed with
			t := x.Type
			if id, ok := t.(*ast.Ident); ok && id.Name == "Scheduler" {
				for _, el := range x.Elts {
					if kv, ok := el.(*ast.KeyValueExpr); ok {
						fx.schedFieldInits = append(fx.schedFieldInits, pair{r.text(kv.Key), r.text(kv.Value)})
					} else {
						fx.schedFieldInits = append(fx.schedFieldInits, pair{"unknown", r.text(el)})
					}
				}
			}
		}
		return true
	})
	ast.Inspect(sf.ast, func(n ast.Node) bool {
		if c, ok := n.(*ast.CallExpr); ok {
			if mc, ok := isMakeChan(c); ok && !named[mc] {
				fx.chanCaps = append(fx.chanCaps, pair{"unknown: " + r.text(c), capOf(mc)})
			}
		}
		return true
	})

	// dispatch guard: the select arm(s) that send, and the `if` that decides
	// whether the channel sent on is nil.
	sends := 0
	written := r.fieldsWrittenIn("scheduler")
	for _, d := range sf.ast.Decls {
		fd, ok := d.(*ast.FuncDecl)
		if !ok || fd.Body == nil {
			continue
		}
		// hoisted locals (`c := s.concurrency`, never re-bound, field never written)
		// are printed as the expression they stand for
		hoists := stableHoists(written, fd, scanLocalDefs(fd))
		condText := func(e ast.Expr) string { return r.text(substExpr(e, hoists)) }
		// innermost enclosing block list for every select statement
		var stack []ast.Node
		ast.Inspect(fd.Body, func(n ast.Node) bool {
			if n == nil {
				stack = stack[:len(stack)-1]
				return true
			}
			stack = append(stack, n)
			sel, ok := n.(*ast.SelectStmt)
			if !ok {
				return true
			}
			for _, cc := range sel.Body.List {
				comm := cc.(*ast.CommClause)
				send, ok := comm.Comm.(*ast.SendStmt)
				if !ok {
					continue
				}
				sends++
				id, ok := send.Chan.(*ast.Ident)
				if !ok {
					fx.dispatchGuard = append(fx.dispatchGuard, "unknown: send on "+r.text(send.Chan)+" is not guarded through a local channel variable: "+r.text(send))
					continue
				}
				// the statements preceding the select in its block
				var block *ast.BlockStmt
				for i := len(stack) - 2; i >= 0; i-- {
					if b, ok := stack[i].(*ast.BlockStmt); ok {
						block = b
						break
					}
				}
				found := false
				if block != nil {
					for _, s := range block.List {
						if s.Pos() >= sel.Pos() {
							break
						}
						is, ok := s.(*ast.IfStmt)
						if !ok {
							continue
						}
						if assignsNil(is.Body, id.Name) {
							found = true
							fx.dispatchGuard = append(fx.dispatchGuard, "!("+condText(is.Cond)+")")
						} else if eb, ok := is.Else.(*ast.BlockStmt); ok && assignsNil(eb, id.Name) {
							found = true
							fx.dispatchGuard = append(fx.dispatchGuard, condText(is.Cond))
						} else if is.Else != nil && mentions2(is.Else, id.Name) {
							found = true
							fx.dispatchGuard = append(fx.dispatchGuard, "unknown: "+r.text(is))
						}
					}
				}
				if !found {
					fx.dispatchGuard = append(fx.dispatchGuard, "unknown: no `if` sets "+id.Name+" to nil before: "+r.text(send))
				}
			}
			return true
		})
	}
	if sends == 0 {
		fx.dispatchGuard = append(fx.dispatchGuard, "unknown: no select arm sends on a channel in "+rel)
	}
}

func assignsNil(b *ast.BlockStmt, name string) bool {
	if b == nil {
		return false
	}
	for _, s := range b.List {
		as, ok := s.(*ast.AssignStmt)
		if !ok || len(as.Lhs) != 1 || len(as.Rhs) != 1 {
			continue
		}
		l, ok1 := as.Lhs[0].(*ast.Ident)
		rr, ok2 := as.Rhs[0].(*ast.Ident)
		if ok1 && ok2 && l.Name == name && rr.Name == "nil" {
			return true
		}
	}
	return false
}

func mentions2(n ast.Node, name string) bool {
	found := false
	ast.Inspect(n, func(n ast.Node) bool {
		if id, ok := n.(*ast.Ident); ok && id.Name == name {
			found = true
		}
		return true
	})
	return found
}

// ---------------------------------------------------------------------------
// Lean output
// ---------------------------------------------------------------------------

func leanStr(s string) string {
	var b strings.Builder
	b.WriteByte('"')
	for _, r := range s {
		switch {
		case r == '\\':
			b.WriteString(`\\`)
		case r == '"':
			b.WriteString(`\"`)
		case r == '\n':
			b.WriteString(`\n`)
		case r == '\t':
			b.WriteString(`\t`)
		case r == '\r':
			b.WriteString(`\r`)
		case r < 0x20 || r == 0x7f:
			fmt.Fprintf(&b, `\x%02x`, r)
		default:
			b.WriteRune(r)
		}
	}
	b.WriteByte('"')
	return b.String()
}

func leanBool(v bool) string {
	if v {
		return "true"
	}
	return "false"
}

func writeList(b *strings.Builder, name, typ string, items []string) {
	fmt.Fprintf(b, "def %s : List %s := [", name, typ)
	for i, it := range items {
		if i > 0 {
			b.WriteString(",")
		}
		b.WriteString("\n  " + it)
	}
	if len(items) > 0 {
		b.WriteString("\n")
	}
	b.WriteString("]\n\n")
}

func sortedStrings(in []string) []string {
	out := append([]string(nil), in...)
	sort.Strings(out)
	return out
}

func pairs(in []pair) []string {
	var out []string
	for _, p := range in {
		out = append(out, "("+leanStr(p.a)+", "+leanStr(p.b)+")")
	}
	sort.Strings(out)
	return out
}

func triples(in []triple) []string {
	var out []string
	for _, p := range in {
		out = append(out, "("+leanStr(p.a)+", "+leanStr(p.b)+", "+leanStr(p.c)+")")
	}
	sort.Strings(out)
	return out
}

func uniq(in []string) []string {
	var out []string
	for i, s := range in {
		if i == 0 || s != in[i-1] {
			out = append(out, s)
		}
	}
	return out
}

func render(fx *facts, read []string) string {
	var b strings.Builder
	b.WriteString("/-\n  GENERATED by harness/cmd/extract from the cff repository source.\n  Do not edit: this file is regenerated on every run and re-checked by the\n  obligations of CffVerif/Tie/Facts.lean. Data only; no proofs here.\n-/\nimport CffVerif.Extracted.Types\n\nnamespace Extracted\n\n")

	var items []string
	for _, s := range fx.exprSites {
		items = append(items, fmt.Sprintf("{ file := %s, action := %s, wrapper := %s, kind := %s }", leanStr(s.file), leanStr(s.action), leanStr(s.wrapper), leanStr(s.kind)))
	}
	sort.Strings(items)
	b.WriteString("/-- Template actions printing a user expression, with the function they are printed through. -/\n")
	writeList(&b, "exprSites", "ExprSite", items)

	b.WriteString("/-- (struct, field) pairs of package internal whose type is ast.Expr, []ast.Expr or ast.Node. -/\n")
	writeList(&b, "exprFields", "(String × String)", uniq(pairs(fx.exprFields)))

	b.WriteString("/-- ExecuteTemplate calls of the generator: (template set patterns, root template, data). -/\n")
	writeList(&b, "templateRoots", "(String × String × String)", uniq(triples(fx.templateRoots)))

	b.WriteString("/-- Package-qualified identifiers spelled out in template text. -/\n")
	writeList(&b, "hardcodedPkgRefs", "(String × String)", pairs(fx.hardcodedPkgRefs))

	items = nil
	for _, s := range fx.mapRangeSites {
		items = append(items, fmt.Sprintf("{ file := %s, func := %s, expr := %s, kind := %s,\n    pattern := %s, detail := %s }", leanStr(s.file), leanStr(s.fn), leanStr(s.expr), leanStr(s.kind), leanStr(s.pattern), leanStr(s.detail)))
	}
	sort.Strings(items)
	b.WriteString("/-- Iterations over maps (range statements; Keys/Iterate/Range of typeutil.Map and sync.Map). -/\n")
	writeList(&b, "mapRangeSites", "MapRange", items)

	b.WriteString("/-- References to math/rand, crypto/rand, time.Now, os.Getpid: (file, function, text). -/\n")
	writeList(&b, "randomSources", "(String × String × String)", triples(fx.randomSources))

	items = nil
	for _, s := range fx.sourceMapWrites {
		items = append(items, fmt.Sprintf("{ file := %s, func := %s, literal := %s, isComment := %s, guarded := %s }", leanStr(s.file), leanStr(s.fn), leanStr(s.literal), leanBool(s.isComment), leanBool(s.guarded)))
	}
	sort.Strings(items)
	b.WriteString("/-- Output written only in source-map mode, and every literal spelling a line directive. -/\n")
	writeList(&b, "sourceMapWrites", "SMWrite", items)

	var q []string
	for _, s := range sortedStrings(fx.directiveNames) {
		q = append(q, leanStr(s))
	}
	b.WriteString("/-- Functions of the root package whose body is the \"not processed with cff\" panic. -/\n")
	writeList(&b, "directiveNames", "String", q)
	q = nil
	for _, s := range sortedStrings(fx.directiveTable) {
		q = append(q, leanStr(s))
	}
	b.WriteString("/-- Keys of internal._codegenDirectives, the table the compiler recognises directives with. -/\n")
	writeList(&b, "directiveTable", "String", q)

	b.WriteString("/-- make(chan ...) in scheduler/scheduler.go: (name, capacity). -/\n")
	writeList(&b, "chanCaps", "(String × String)", pairs(fx.chanCaps))
	b.WriteString("/-- Field initialisers of the &Scheduler{...} literal. -/\n")
	writeList(&b, "schedFieldInits", "(String × String)", pairs(fx.schedFieldInits))
	q = nil
	for _, s := range sortedStrings(fx.dispatchGuard) {
		q = append(q, leanStr(s))
	}
	b.WriteString("/-- Condition(s) under which the scheduler loop's select may send on the ready channel. -/\n")
	writeList(&b, "dispatchGuard", "String", q)

	renderWiring(&b, &fx.wiring)

	renderStruct(&b, &fx.structure)
	renderOwnership(&b, &fx.own)
	renderModifierKinds(&b, fx.modKinds)

	q = nil
	for _, s := range uniq(sortedStrings(fx.typeErrors)) {
		q = append(q, leanStr(s))
	}
	b.WriteString("/-- Problems met while parsing / type-checking the analysed packages (informational: every\n    operand left unresolved because of them is an `unknown` entry above). -/\n")
	writeList(&b, "typeErrors", "String", q)

	q = nil
	for _, s := range read {
		q = append(q, leanStr(s))
	}
	b.WriteString("/-- Repository files read by the extractor. -/\n")
	writeList(&b, "repoFilesRead", "String", q)

	b.WriteString("end Extracted\n")
	return b.String()
}

// ---------------------------------------------------------------------------

func main() {
	repoDir := flag.String("repo", "/repo", "root of the cff repository")
	outDir := flag.String("out", ".", "directory to write Facts.lean into")
	flag.Parse()

	root, err := filepath.Abs(*repoDir)
	if err != nil {
		fmt.Fprintln(os.Stderr, "extract:", err)
		os.Exit(2)
	}
	if _, err := os.Stat(filepath.Join(root, "go.mod")); err != nil {
		fmt.Fprintln(os.Stderr, "extract: not a repository root:", err)
		os.Exit(2)
	}
	r := &repo{root: root, read: map[string]bool{}, fset: token.NewFileSet()}
	fx := &facts{}
	im := newImporter(r)

	var internal *goPkg
	for _, dir := range []string{"internal", "internal/modifier", "internal/pkg", "cmd/cff"} {
		p := r.loadPkg(dir, im, fx)
		if dir == "internal" {
			internal = p
		}
		r.scanGoPkg(p, fx)
	}
	r.scanOwnership(im, fx)
	fx.modKinds = r.scanModifierKinds()
	for e := range im.errs {
		fx.typeErrors = append(fx.typeErrors, e)
	}
	r.scanTemplates(internal, fx)
	r.scanSourceMap(internal, fx)
	r.scanDirectives(internal, fx)
	r.scanScheduler(fx)
	r.scanSchedulerWiring(&fx.wiring)
	r.scanTemplateStructure(&fx.structure)

	var read []string
	for f := range r.read {
		read = append(read, f)
	}
	sort.Strings(read)

	if err := os.MkdirAll(*outDir, 0o755); err != nil {
		fmt.Fprintln(os.Stderr, "extract:", err)
		os.Exit(2)
	}
	out := filepath.Join(*outDir, "Facts.lean")
	if err := os.WriteFile(out, []byte(render(fx, read)), 0o644); err != nil {
		fmt.Fprintln(os.Stderr, "extract:", err)
		os.Exit(2)
	}
	fmt.Printf("extract: wrote %s (exprSites=%d hardcodedPkgRefs=%d mapRangeSites=%d randomSources=%d sourceMapWrites=%d directiveNames=%d directiveTable=%d chanCaps=%d dispatchGuard=%d typeErrors=%d filesRead=%d)\n",
		out, len(fx.exprSites), len(fx.hardcodedPkgRefs), len(fx.mapRangeSites), len(fx.randomSources), len(fx.sourceMapWrites),
		len(fx.directiveNames), len(fx.directiveTable), len(fx.chanCaps), len(fx.dispatchGuard), len(uniq(sortedStrings(fx.typeErrors))), len(read))
	wf := &fx.wiring
	fmt.Printf("extract: scheduler wiring: loopSelectArms=%d loopRoles=%d loopAfterFor=%d loopExitConds=%d resultArmShape=%d enqueueArmShape=%d workerShape=%d waitShape=%d enqueueShape=%d wiringUnknown=%d\n",
		len(wf.arms), len(wf.roles), len(wf.afterFor), len(wf.exitConds), len(wf.resultArm), len(wf.enqueueArm), len(wf.worker), len(wf.wait), len(wf.enqueue), wf.unknowns())
	st := &fx.structure
	fmt.Printf("extract: template structure: tmplFuncLits=%d topLevelReturns=%d rootOrder=%d taskBodyOrder=%d loopVarCopies=%d loopVarUses=%d endJobDeps=%d elemJobCollect=%d waitStmts=%d tmplStructUnknown=%d\n",
		len(st.funcLits), len(st.topReturns), len(st.rootOrder), len(st.taskBodyOrder), len(st.loopVarCopies), len(st.loopVarUses), len(st.endJobDeps), len(st.elemJobCollect), len(st.waitStmts), len(uniq(pairs(st.unknown))))
	ow := &fx.own
	fmt.Printf("extract: ownership: fieldAccesses=%d fieldTypes=%d structInits=%d loopCounterTypes=%d goroutineRoots=%d fnThreads=%d emitterAdapter=%d\n",
		len(ow.fieldAccesses), len(ow.fieldTypes), len(ow.structInits), len(ow.loopCounterTypes), len(ow.goroutineRoots), len(ow.fnThreads), len(ow.emitterAdapter))
}
