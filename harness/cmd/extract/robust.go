// robust.go: helpers that make the syntactic recognisers insensitive to
// behaviour-preserving spellings of the same code.
//
//   - hoisted locals: `c := s.concurrency` assigned once and never again stands
//     for its defining expression wherever `c` is read, provided the expression
//     is STABLE (a field chain on the receiver / a parameter whose fields are
//     never written in the file);
//   - local closures: `f := func(p T) { ... }` assigned once and called as a
//     statement `f(x)` stands for its body with p renamed to x;
//   - a receive loop `for { v, ok := <-ch; if !ok { break }; ... }` is
//     `for v := range ch { ... }`;
//   - `if !c { A } else { B }` is `if c { B } else { A }`;
//   - a string concatenation is represented by its constant value, or by its
//     leading constant part.
//
// Nothing here accepts a construct whose behaviour differs: whatever does not
// fit the narrow side conditions is left alone and becomes an `unknown:` marker
// in the caller, exactly as before.
package main

import (
	"bytes"
	"go/ast"
	"go/build"
	"go/constant"
	"go/parser"
	"go/printer"
	"go/token"
	"go/types"
	"path/filepath"
	"strconv"
)

// ---------------------------------------------------------------------------
// single-assignment locals
// ---------------------------------------------------------------------------

// localDefs describes the bindings of one function, BY NAME.
type localDefs struct {
	decls    map[string]int          // declarations: parameters, results, receiver, `:=`, var specs, range `:=`
	assigns  map[string]int          // other writes: `=`, `op=`, `++`, range `=`, `&x`
	declPos  map[string]token.Pos    // position of the (last) declaration
	value    map[string]ast.Expr     // declared once with a value of its own (x := e / var x = e), never written again
	closures map[string]*ast.FuncLit // subset of value whose e is a func literal
}

// one: exactly one variable of that name exists in the function and it is never
// written after its declaration.
func (ld *localDefs) constant(name string) bool { return ld.decls[name] == 1 && ld.assigns[name] == 0 }

// scanLocalDefs counts the bindings of fd.  Counting by name is conservative:
// a shadowed name has two declarations and is never resolved.  Every left-hand
// side of a `:=` counts as a declaration (also the ones Go merely assigns).
func scanLocalDefs(fd *ast.FuncDecl) *localDefs {
	ld := &localDefs{decls: map[string]int{}, assigns: map[string]int{}, declPos: map[string]token.Pos{}, value: map[string]ast.Expr{}, closures: map[string]*ast.FuncLit{}}
	if fd == nil || fd.Body == nil {
		return ld
	}
	cand := map[string]ast.Expr{}
	decl := func(e ast.Expr, val ast.Expr) {
		id, ok := e.(*ast.Ident)
		if !ok || id.Name == "_" {
			return
		}
		ld.decls[id.Name]++
		ld.declPos[id.Name] = id.Pos()
		if val != nil {
			cand[id.Name] = val
		}
	}
	assign := func(e ast.Expr) {
		if id, ok := ast.Unparen(e).(*ast.Ident); ok && id.Name != "_" {
			ld.assigns[id.Name]++
		}
	}
	fields := func(fl *ast.FieldList) {
		if fl == nil {
			return
		}
		for _, f := range fl.List {
			for _, n := range f.Names {
				decl(n, nil)
			}
		}
	}
	fields(fd.Recv)
	fields(fd.Type.Params)
	fields(fd.Type.Results)
	ast.Inspect(fd.Body, func(n ast.Node) bool {
		switch x := n.(type) {
		case *ast.FuncLit:
			fields(x.Type.Params)
			fields(x.Type.Results)
		case *ast.AssignStmt:
			for i, l := range x.Lhs {
				switch {
				case x.Tok == token.DEFINE && len(x.Lhs) == len(x.Rhs):
					decl(l, x.Rhs[i])
				case x.Tok == token.DEFINE:
					decl(l, nil)
				default:
					assign(l)
				}
			}
		case *ast.IncDecStmt:
			assign(x.X)
		case *ast.RangeStmt:
			for _, l := range []ast.Expr{x.Key, x.Value} {
				if l == nil {
					continue
				}
				if x.Tok == token.DEFINE {
					decl(l, nil)
				} else {
					assign(l)
				}
			}
		case *ast.ValueSpec:
			for i, nme := range x.Names {
				if len(x.Values) == len(x.Names) {
					decl(nme, x.Values[i])
				} else {
					decl(nme, nil)
				}
			}
		case *ast.UnaryExpr:
			if x.Op == token.AND {
				assign(x.X) // aliased: may change behind our back
			}
		case *ast.TypeSwitchStmt:
			if as, ok := x.Assign.(*ast.AssignStmt); ok {
				for _, l := range as.Lhs {
					decl(l, nil)
				}
			}
		}
		return true
	})
	for name, v := range cand {
		if !ld.constant(name) {
			continue
		}
		ld.value[name] = v
		if fl, ok := ast.Unparen(v).(*ast.FuncLit); ok {
			ld.closures[name] = fl
		}
	}
	return ld
}

// fieldsWritten lists the field names that are assigned, incremented or have
// their address taken anywhere in the file (`x.f = `, `x.f++`, `&x.f`, also
// through an index: `x.f[i] = `).
func fieldsWritten(f *ast.File, out map[string]bool) {
	mark := func(e ast.Expr) {
		for {
			switch x := ast.Unparen(e).(type) {
			case *ast.SelectorExpr:
				out[x.Sel.Name] = true
				return
			case *ast.IndexExpr:
				e = x.X
				continue
			case *ast.StarExpr:
				e = x.X
				continue
			}
			return
		}
	}
	ast.Inspect(f, func(n ast.Node) bool {
		switch x := n.(type) {
		case *ast.AssignStmt:
			for _, l := range x.Lhs {
				mark(l)
			}
		case *ast.IncDecStmt:
			mark(x.X)
		case *ast.UnaryExpr:
			if x.Op == token.AND {
				mark(x.X)
			}
		case *ast.RangeStmt:
			if x.Tok == token.ASSIGN {
				if x.Key != nil {
					mark(x.Key)
				}
				if x.Value != nil {
					mark(x.Value)
				}
			}
		}
		return true
	})
}

// fieldsWrittenIn: fieldsWritten over every non-test file of the package in
// dir that is built by default (the same files the ownership scan looks at).  A
// file that does not parse makes every field count as written.
func (r *repo) fieldsWrittenIn(dir string) func(string) bool {
	out := map[string]bool{}
	all := false
	for _, rel := range r.goFiles(dir) {
		if ok, err := build.Default.MatchFile(filepath.Join(r.root, dir), filepath.Base(rel)); err != nil || !ok {
			continue
		}
		sf, err := r.parseGo(rel)
		if err != nil {
			all = true
			continue
		}
		fieldsWritten(sf.ast, out)
	}
	return func(name string) bool { return all || out[name] }
}

// stableHoists returns the single-assignment locals of fd whose value is a
// field chain `p.f.g` rooted at the receiver or a parameter of fd that is
// itself never re-bound, all of whose fields are never written in the package
// (`written`): such a local equals its defining expression for as long as it lives.
func stableHoists(written func(string) bool, fd *ast.FuncDecl, ld *localDefs) map[string]ast.Expr {
	out := map[string]ast.Expr{}
	if fd == nil {
		return out
	}
	roots := map[string]bool{}
	add := func(fl *ast.FieldList) {
		if fl == nil {
			return
		}
		for _, f := range fl.List {
			for _, n := range f.Names {
				if ld.constant(n.Name) {
					roots[n.Name] = true
				}
			}
		}
	}
	add(fd.Recv)
	add(fd.Type.Params)
	for name, v := range ld.value {
		e := ast.Unparen(v)
		ok := false
		for {
			se, isSel := e.(*ast.SelectorExpr)
			if !isSel {
				break
			}
			if written(se.Sel.Name) {
				ok = false
				break
			}
			if id, isID := ast.Unparen(se.X).(*ast.Ident); isID {
				ok = roots[id.Name]
				break
			}
			e = ast.Unparen(se.X)
		}
		if ok {
			out[name] = v
		}
	}
	return out
}

// substExpr returns e with every free identifier named in m replaced by its
// expression (deep copy of the spine; untouched sub-trees are shared).  Node
// kinds it does not descend into are returned as they are, so a hoisted local
// hidden in one of them simply stays spelled by its name.
func substExpr(e ast.Expr, m map[string]ast.Expr) ast.Expr {
	if len(m) == 0 || e == nil {
		return e
	}
	list := func(l []ast.Expr) []ast.Expr {
		if l == nil {
			return nil
		}
		out := make([]ast.Expr, len(l))
		for i, x := range l {
			out[i] = substExpr(x, m)
		}
		return out
	}
	switch x := e.(type) {
	case *ast.Ident:
		if v, ok := m[x.Name]; ok {
			switch ast.Unparen(v).(type) {
			case *ast.Ident, *ast.SelectorExpr, *ast.BasicLit, *ast.CallExpr, *ast.IndexExpr:
				return ast.Unparen(v)
			}
			return &ast.ParenExpr{X: v}
		}
		return x
	case *ast.ParenExpr:
		c := *x
		c.X = substExpr(x.X, m)
		return &c
	case *ast.BinaryExpr:
		c := *x
		c.X, c.Y = substExpr(x.X, m), substExpr(x.Y, m)
		return &c
	case *ast.UnaryExpr:
		c := *x
		c.X = substExpr(x.X, m)
		return &c
	case *ast.StarExpr:
		c := *x
		c.X = substExpr(x.X, m)
		return &c
	case *ast.SelectorExpr:
		c := *x
		c.X = substExpr(x.X, m)
		return &c
	case *ast.CallExpr:
		c := *x
		c.Fun, c.Args = substExpr(x.Fun, m), list(x.Args)
		return &c
	case *ast.IndexExpr:
		c := *x
		c.X, c.Index = substExpr(x.X, m), substExpr(x.Index, m)
		return &c
	case *ast.TypeAssertExpr:
		c := *x
		c.X = substExpr(x.X, m)
		return &c
	}
	return e
}

// ---------------------------------------------------------------------------
// conditions
// ---------------------------------------------------------------------------

// negateCond returns the negation of a condition in its simplest spelling:
// `!x` -> `x`, `a == b` <-> `a != b`, `a < b` <-> `a >= b`, `a > b` <-> `a <= b`;
// anything else becomes `!(e)`.
func negateCond(e ast.Expr) ast.Expr {
	switch x := ast.Unparen(e).(type) {
	case *ast.UnaryExpr:
		if x.Op == token.NOT {
			return ast.Unparen(x.X)
		}
	case *ast.BinaryExpr:
		flip := map[token.Token]token.Token{
			token.EQL: token.NEQ, token.NEQ: token.EQL,
			token.LSS: token.GEQ, token.GEQ: token.LSS,
			token.GTR: token.LEQ, token.LEQ: token.GTR,
		}
		if op, ok := flip[x.Op]; ok {
			c := *x
			c.Op = op
			return &c
		}
	case *ast.Ident:
		return &ast.UnaryExpr{Op: token.NOT, X: x}
	}
	return &ast.UnaryExpr{Op: token.NOT, X: &ast.ParenExpr{X: e}}
}

// isNegative: the condition is spelled as a negation (`!x`, `a != b`).
func isNegative(e ast.Expr) bool {
	switch x := ast.Unparen(e).(type) {
	case *ast.UnaryExpr:
		return x.Op == token.NOT
	case *ast.BinaryExpr:
		return x.Op == token.NEQ
	}
	return false
}

// ---------------------------------------------------------------------------
// receive loops
// ---------------------------------------------------------------------------

// chanLoop is a loop that receives from a channel until the channel is closed.
type chanLoop struct {
	key  ast.Expr // the variable bound to the received value; nil when it is discarded
	ch   ast.Expr
	body []ast.Stmt // the statements run per received value
}

// asChanLoop recognises
//
//	for [k :=] range ch { body }
//	for { k, ok := <-ch; if !ok { break }; body }
//	for { if _, ok := <-ch; !ok { break }; body }
//
// (the channel-ness of `ch` in the first form is the caller's business).  In
// the explicit forms the loop has no init / condition / post, the two-value
// receive is the first statement (hooks aside), the test of `ok` follows at
// once and does nothing but an unlabelled `break`, and `ok` is not used again.
func asChanLoop(s ast.Stmt, clean func([]ast.Stmt) []ast.Stmt) (chanLoop, bool) {
	switch x := s.(type) {
	case *ast.RangeStmt:
		if x.Value != nil || (x.Key != nil && x.Tok != token.DEFINE) {
			return chanLoop{}, false
		}
		key := x.Key
		if id, ok := key.(*ast.Ident); ok && id.Name == "_" {
			key = nil
		}
		return chanLoop{key: key, ch: x.X, body: x.Body.List}, true
	case *ast.ForStmt:
		if x.Init != nil || x.Cond != nil || x.Post != nil {
			return chanLoop{}, false
		}
		body := clean(x.Body.List)
		if len(body) == 0 {
			return chanLoop{}, false
		}
		recv2 := func(st ast.Stmt) (k ast.Expr, okName string, ch ast.Expr, ok bool) {
			as, isAs := st.(*ast.AssignStmt)
			if !isAs || as.Tok != token.DEFINE || len(as.Lhs) != 2 || len(as.Rhs) != 1 {
				return nil, "", nil, false
			}
			ue, isRecv := ast.Unparen(as.Rhs[0]).(*ast.UnaryExpr)
			if !isRecv || ue.Op != token.ARROW {
				return nil, "", nil, false
			}
			kid, ok1 := as.Lhs[0].(*ast.Ident)
			oid, ok2 := as.Lhs[1].(*ast.Ident)
			if !ok1 || !ok2 || oid.Name == "_" {
				return nil, "", nil, false
			}
			k = kid
			if kid.Name == "_" {
				k = nil
			}
			return k, oid.Name, ue.X, true
		}
		breaksOnNot := func(is *ast.IfStmt, okName string) bool {
			if is.Else != nil {
				return false
			}
			ue, ok := ast.Unparen(is.Cond).(*ast.UnaryExpr)
			if !ok || ue.Op != token.NOT {
				return false
			}
			if id, ok := ast.Unparen(ue.X).(*ast.Ident); !ok || id.Name != okName {
				return false
			}
			b := clean(is.Body.List)
			if len(b) != 1 {
				return false
			}
			br, ok := b[0].(*ast.BranchStmt)
			return ok && br.Tok == token.BREAK && br.Label == nil
		}
		usesName := func(list []ast.Stmt, name string) bool {
			found := false
			for _, st := range list {
				ast.Inspect(st, func(n ast.Node) bool {
					if id, ok := n.(*ast.Ident); ok && id.Name == name {
						found = true
					}
					return true
				})
			}
			return found
		}
		// for { if k, ok := <-ch; !ok { break }; body }: k is scoped to the if
		if is, ok := body[0].(*ast.IfStmt); ok && is.Init != nil {
			if k, okName, ch, ok := recv2(is.Init); ok && k == nil && breaksOnNot(is, okName) {
				return chanLoop{key: nil, ch: ch, body: body[1:]}, true
			}
			return chanLoop{}, false
		}
		// for { k, ok := <-ch; if !ok { break }; body }
		if len(body) >= 2 {
			if k, okName, ch, ok := recv2(body[0]); ok {
				if is, isIf := body[1].(*ast.IfStmt); isIf && is.Init == nil && breaksOnNot(is, okName) && !usesName(body[2:], okName) {
					return chanLoop{key: k, ch: ch, body: body[2:]}, true
				}
			}
		}
	}
	return chanLoop{}, false
}

// ---------------------------------------------------------------------------
// local closures called as statements
// ---------------------------------------------------------------------------

// inlineClosureCall returns the statements `f(a1, ..., an)` stands for when f
// is a single-assignment local closure: a fresh copy of the closure's body with
// each parameter renamed to the identifier passed for it.  Conditions:
// the closure has no results, every argument is a plain identifier (or the
// closure has no parameters), the body contains no `return` (a return would
// leave the closure, not the caller), no `defer`, no `recover`, no nested func
// literal, writes neither a parameter nor a variable passed as an argument, and
// every free name of the body is declared at most once in the enclosing
// function, before the closure (so the name means the same variable at the call
// site as at the definition).
func (r *repo) inlineClosureCall(s ast.Stmt, ld *localDefs) ([]ast.Stmt, bool) {
	if ld == nil {
		return nil, false
	}
	es, ok := s.(*ast.ExprStmt)
	if !ok {
		return nil, false
	}
	call, ok := es.X.(*ast.CallExpr)
	if !ok || call.Ellipsis.IsValid() {
		return nil, false
	}
	id, ok := call.Fun.(*ast.Ident)
	if !ok {
		return nil, false
	}
	fl := ld.closures[id.Name]
	if fl == nil || (fl.Type.Results != nil && len(fl.Type.Results.List) > 0) {
		return nil, false
	}
	var params []string
	if fl.Type.Params != nil {
		for _, f := range fl.Type.Params.List {
			if len(f.Names) == 0 {
				return nil, false
			}
			if _, variadic := f.Type.(*ast.Ellipsis); variadic {
				return nil, false
			}
			for _, n := range f.Names {
				params = append(params, n.Name)
			}
		}
	}
	if len(params) != len(call.Args) {
		return nil, false
	}
	ren := map[string]string{}
	for i, a := range call.Args {
		aid, ok := a.(*ast.Ident)
		if !ok {
			return nil, false
		}
		if params[i] != "_" {
			ren[params[i]] = aid.Name
		}
	}
	// a fresh copy: print and re-parse
	src := "func() " + r.textRaw(fl.Body)
	e, err := parser.ParseExprFrom(r.fset, "", src, 0)
	if err != nil {
		return nil, false
	}
	cp, ok := e.(*ast.FuncLit)
	if !ok {
		return nil, false
	}
	// names bound inside the copy (they shadow parameters / outer names from there on; keep it
	// simple: a parameter or argument name bound again inside the body blocks the inlining)
	inner := map[string]bool{}
	bad := false
	ast.Inspect(cp.Body, func(n ast.Node) bool {
		switch x := n.(type) {
		case *ast.ReturnStmt, *ast.DeferStmt:
			bad = true
		case *ast.CallExpr:
			if fid, ok := x.Fun.(*ast.Ident); ok && fid.Name == "recover" {
				bad = true
			}
		case *ast.AssignStmt:
			if x.Tok == token.DEFINE {
				for _, l := range x.Lhs {
					if lid, ok := l.(*ast.Ident); ok {
						inner[lid.Name] = true
					}
				}
			}
		case *ast.RangeStmt:
			if x.Tok == token.DEFINE {
				for _, l := range []ast.Expr{x.Key, x.Value} {
					if lid, ok := l.(*ast.Ident); ok {
						inner[lid.Name] = true
					}
				}
			}
		case *ast.ValueSpec:
			for _, n := range x.Names {
				inner[n.Name] = true
			}
		case *ast.FuncLit:
			bad = true // nested literals: parameters would need scoping; not worth it
		}
		return true
	})
	if bad {
		return nil, false
	}
	// a parameter is a COPY of the argument: the renaming is only right when
	// neither is written inside the body (nor has its address taken)
	assigned := map[string]bool{}
	ast.Inspect(cp.Body, func(n ast.Node) bool {
		mark := func(e ast.Expr) {
			if lid, ok := ast.Unparen(e).(*ast.Ident); ok {
				assigned[lid.Name] = true
			}
		}
		switch x := n.(type) {
		case *ast.AssignStmt:
			for _, l := range x.Lhs {
				mark(l)
			}
		case *ast.IncDecStmt:
			mark(x.X)
		case *ast.RangeStmt:
			if x.Key != nil {
				mark(x.Key)
			}
			if x.Value != nil {
				mark(x.Value)
			}
		case *ast.UnaryExpr:
			if x.Op == token.AND {
				mark(x.X)
			}
		}
		return true
	})
	for p, a := range ren {
		if inner[p] || inner[a] || assigned[p] || assigned[a] {
			return nil, false
		}
	}
	// free names of the body must mean the same thing at the call site
	isSel := map[*ast.Ident]bool{}
	isKey := map[*ast.Ident]bool{}
	ast.Inspect(cp.Body, func(n ast.Node) bool {
		switch x := n.(type) {
		case *ast.SelectorExpr:
			isSel[x.Sel] = true
		case *ast.KeyValueExpr:
			if kid, ok := x.Key.(*ast.Ident); ok {
				isKey[kid] = true
			}
		}
		return true
	})
	ast.Inspect(cp.Body, func(n ast.Node) bool {
		x, ok := n.(*ast.Ident)
		if !ok || isSel[x] || isKey[x] {
			return true
		}
		if to, isParam := ren[x.Name]; isParam {
			x.Name = to
			return true
		}
		if inner[x.Name] {
			return true
		}
		if ld.decls[x.Name] > 1 {
			bad = true // two variables of that name: which one is meant depends on the place
		}
		if ld.decls[x.Name] == 1 && ld.declPos[x.Name] > fl.Pos() {
			bad = true // declared after the closure: the closure means something else by that name
		}
		return true
	})
	if bad {
		return nil, false
	}
	return cp.Body.List, true
}

// textRaw prints a node with gofmt layout but without collapsing white space
// (used to re-parse).
func (r *repo) textRaw(n ast.Node) string {
	var b bytes.Buffer
	if err := printer.Fprint(&b, r.fset, n); err != nil {
		return ""
	}
	return b.String()
}

// ---------------------------------------------------------------------------
// string concatenations
// ---------------------------------------------------------------------------

// stringPrefix evaluates a string-valued expression as far as it is constant:
// the whole value when the expression is a constant (literal, named constant,
// concatenation of constants; `info` may be nil), else the concatenation of the
// leading constant operands of a `+` chain.  whole tells which; ok is false
// when not even the first operand is constant.  lits receives the positions of
// the literals consumed.
func stringPrefix(e ast.Expr, info *types.Info, lits map[token.Pos]bool) (val string, whole, ok bool) {
	constOf := func(x ast.Expr) (string, bool) {
		x = ast.Unparen(x)
		if info != nil {
			if tv, found := info.Types[x]; found && tv.Value != nil && tv.Value.Kind() == constant.String {
				return constant.StringVal(tv.Value), true
			}
		}
		if bl, isLit := x.(*ast.BasicLit); isLit && bl.Kind == token.STRING {
			if v, err := strconv.Unquote(bl.Value); err == nil {
				return v, true
			}
		}
		return "", false
	}
	markLits := func(x ast.Expr) {
		if lits == nil {
			return
		}
		ast.Inspect(x, func(n ast.Node) bool {
			if bl, isLit := n.(*ast.BasicLit); isLit && bl.Kind == token.STRING {
				lits[bl.Pos()] = true
			}
			return true
		})
	}
	// operands of the + chain, left to right
	var ops []ast.Expr
	var flat func(x ast.Expr)
	flat = func(x ast.Expr) {
		x = ast.Unparen(x)
		if be, isBin := x.(*ast.BinaryExpr); isBin && be.Op == token.ADD {
			flat(be.X)
			flat(be.Y)
			return
		}
		ops = append(ops, x)
	}
	flat(e)
	whole = true
	for i, op := range ops {
		v, isConst := constOf(op)
		if !isConst {
			whole = false
			if i == 0 {
				return "", false, false
			}
			break
		}
		markLits(op)
		val += v
	}
	return val, whole, true
}
