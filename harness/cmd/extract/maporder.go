package main

// Classification of map-iteration sites by PATTERN (C17).
//
// Go randomises the iteration order of maps. A site is harmless when the
// order cannot be observed after the loop. Instead of pinning each site by
// (file, function, operand) and reviewing it by hand, the loop body and its
// context are matched against a few shapes whose order-insensitivity is
// evident:
//
//	set                      the body only stores into / deletes from maps and
//	                         accumulates commutatively into integer variables
//	count                    the body only accumulates commutatively into
//	                         integer variables
//	append-then-sort:<s>     the body only appends to the local slice s, and the
//	                         first statement after the loop that mentions s
//	                         sorts it
//	unknown:<statement>      anything else; the text is the first statement
//	                         that does not fit
//
// The classifier is conservative: whatever it does not recognise makes the
// site "unknown", so that the Lean obligation fails and the site is looked at.
// The rules are spelled out at classifyRange. They are syntactic; two names
// for one map (aliasing) are beyond their reach.

import (
	"go/ast"
	"go/token"
	"go/types"
	"strings"
)

// purePkgFuncs are side-effect-free functions that may be called in the
// conditions, indices and stored values of a loop body (by
// types.Func.FullName, or import path + "." + name when type information is
// missing).
var purePkgFuncs = map[string]bool{
	"strings.HasPrefix":  true,
	"strings.HasSuffix":  true,
	"strings.Contains":   true,
	"strings.EqualFold":  true,
	"strings.TrimPrefix": true,
	"strings.TrimSuffix": true,
	"strings.TrimSpace":  true,
	"strings.ToLower":    true,
	"strings.ToUpper":    true,
	"path.Base":          true,
	"path/filepath.Base": true,
	"strconv.Itoa":       true,
	"strconv.Quote":      true,
}

// pureMethods are side-effect-free methods, by types.Func.FullName.
var pureMethods = map[string]bool{
	"(go/token.Pos).IsValid": true,
	"(go/ast.Node).Pos":      true,
	"(go/ast.Node).End":      true,
}

// pureLocalFuncs are side-effect-free predicates declared in the package under
// analysis, by name.
var pureLocalFuncs = map[string]bool{
	"isPackagePathEquivalent": true,
}

var basicTypeNames = map[string]bool{
	"string": true, "int": true, "int8": true, "int16": true, "int32": true, "int64": true,
	"uint": true, "uint8": true, "uint16": true, "uint32": true, "uint64": true, "uintptr": true,
	"byte": true, "rune": true, "float32": true, "float64": true, "bool": true,
}

// orderCtx is what the classifier needs to know about the file of a site.
type orderCtx struct {
	r       *repo
	p       *goPkg
	imports map[string]string // local name -> import path
	parents map[ast.Node]ast.Node
}

func parentMap(f *ast.File) map[ast.Node]ast.Node {
	parents := map[ast.Node]ast.Node{}
	var stack []ast.Node
	ast.Inspect(f, func(n ast.Node) bool {
		if n == nil {
			stack = stack[:len(stack)-1]
			return true
		}
		if len(stack) > 0 {
			parents[n] = stack[len(stack)-1]
		}
		stack = append(stack, n)
		return true
	})
	return parents
}

func clipText(s string) string {
	const max = 120 // the Lean obligations evaluate these strings in the kernel
	rs := []rune(s)
	if len(rs) > max {
		return string(rs[:max]) + " ..."
	}
	return s
}

func (c *orderCtx) unknown(n ast.Node, why string) (string, string) {
	return "unknown:" + clipText(c.r.text(n)), why
}

// isBuiltin reports whether id is the predeclared function name (not
// shadowed).
func (c *orderCtx) isBuiltin(e ast.Expr, name string) bool {
	id, ok := ast.Unparen(e).(*ast.Ident)
	if !ok || id.Name != name {
		return false
	}
	if obj := c.p.info.Uses[id]; obj != nil {
		_, ok := obj.(*types.Builtin)
		return ok
	}
	return id.Obj == nil
}

// pkgFuncName resolves pkg.Name to "import/path.Name" (qualified identifiers
// only).
func (c *orderCtx) pkgFuncName(sel *ast.SelectorExpr) (string, bool) {
	id, ok := sel.X.(*ast.Ident)
	if !ok {
		return "", false
	}
	if obj := c.p.info.Uses[id]; obj != nil {
		if pn, ok := obj.(*types.PkgName); ok {
			return pn.Imported().Path() + "." + sel.Sel.Name, true
		}
		return "", false
	}
	if id.Obj == nil {
		if path, ok := c.imports[id.Name]; ok {
			return path + "." + sel.Sel.Name, true
		}
	}
	return "", false
}

func (c *orderCtx) isConversion(call *ast.CallExpr) bool {
	if len(call.Args) != 1 {
		return false
	}
	fun := ast.Unparen(call.Fun)
	if tv, ok := c.p.info.Types[fun]; ok {
		return tv.IsType()
	}
	switch x := fun.(type) {
	case *ast.ArrayType, *ast.MapType, *ast.InterfaceType, *ast.StarExpr:
		return true
	case *ast.Ident:
		return x.Obj == nil && basicTypeNames[x.Name]
	}
	return false
}

// pureCall reports whether the callee of call is on the allow-list; the
// arguments and the receiver are checked by the caller.
func (c *orderCtx) pureCall(call *ast.CallExpr) bool {
	if c.isConversion(call) || c.isBuiltin(call.Fun, "len") || c.isBuiltin(call.Fun, "cap") {
		return true
	}
	switch fun := ast.Unparen(call.Fun).(type) {
	case *ast.Ident:
		if obj, ok := c.p.info.Uses[fun].(*types.Func); ok {
			sig, _ := obj.Type().(*types.Signature)
			return sig != nil && sig.Recv() == nil && obj.Parent() != nil &&
				obj.Parent().Parent() == types.Universe && pureLocalFuncs[obj.Name()]
		}
		if c.p.info.Uses[fun] == nil && fun.Obj != nil {
			if fd, ok := fun.Obj.Decl.(*ast.FuncDecl); ok && fd.Recv == nil {
				return pureLocalFuncs[fun.Name]
			}
		}
	case *ast.SelectorExpr:
		if name, ok := c.pkgFuncName(fun); ok {
			return purePkgFuncs[name]
		}
		if obj, ok := c.p.info.Uses[fun.Sel].(*types.Func); ok {
			if pureMethods[obj.FullName()] {
				return true
			}
			// Pos/End of the syntax node types of go/ast
			if obj.Pkg() != nil && obj.Pkg().Path() == "go/ast" && (obj.Name() == "Pos" || obj.Name() == "End") {
				return true
			}
		}
	}
	return false
}

// isPure: e has no side effect and its value depends only on the variables it
// mentions: identifiers, literals, field selections, index expressions (map
// lookups), operators, conversions, len/cap and allow-listed calls.
func (c *orderCtx) isPure(e ast.Expr) bool {
	switch x := e.(type) {
	case nil:
		return true
	case *ast.Ident, *ast.BasicLit:
		return true
	case *ast.ParenExpr:
		return c.isPure(x.X)
	case *ast.SelectorExpr:
		return c.isPure(x.X)
	case *ast.IndexExpr:
		return c.isPure(x.X) && c.isPure(x.Index)
	case *ast.SliceExpr:
		return c.isPure(x.X) && c.isPure(x.Low) && c.isPure(x.High) && c.isPure(x.Max)
	case *ast.StarExpr:
		return c.isPure(x.X)
	case *ast.UnaryExpr:
		return x.Op != token.ARROW && c.isPure(x.X)
	case *ast.BinaryExpr:
		return c.isPure(x.X) && c.isPure(x.Y)
	case *ast.KeyValueExpr:
		return c.isPure(x.Key) && c.isPure(x.Value)
	case *ast.TypeAssertExpr:
		return x.Type != nil && c.isPure(x.X)
	case *ast.CompositeLit:
		for _, el := range x.Elts {
			if !c.isPure(el) {
				return false
			}
		}
		return true
	case *ast.CallExpr:
		if !c.pureCall(x) {
			return false
		}
		if sel, ok := ast.Unparen(x.Fun).(*ast.SelectorExpr); ok {
			if _, isPkg := c.pkgFuncName(sel); !isPkg && !c.isPure(sel.X) {
				return false
			}
		}
		for _, a := range x.Args {
			if !c.isPure(a) {
				return false
			}
		}
		return true
	}
	return false
}

// chainText renders an identifier or a selector chain rooted at an identifier
// (a.b.c); ok=false for anything else.
func chainText(e ast.Expr) (string, bool) {
	switch x := ast.Unparen(e).(type) {
	case *ast.Ident:
		return x.Name, true
	case *ast.SelectorExpr:
		if s, ok := chainText(x.X); ok {
			return s + "." + x.Sel.Name, true
		}
	}
	return "", false
}

// chains lists the maximal identifier / selector chains read by n. The callee
// of a method or package call contributes its receiver only.
func chains(n ast.Node) []string {
	var out []string
	var visit func(n ast.Node)
	visit = func(n ast.Node) {
		ast.Inspect(n, func(m ast.Node) bool {
			switch x := m.(type) {
			case *ast.CallExpr:
				if sel, ok := ast.Unparen(x.Fun).(*ast.SelectorExpr); ok {
					visit(sel.X)
				} else {
					visit(x.Fun)
				}
				for _, a := range x.Args {
					visit(a)
				}
				return false
			case *ast.SelectorExpr:
				if s, ok := chainText(x); ok {
					out = append(out, s)
					return false
				}
			case *ast.Ident:
				out = append(out, x.Name)
			case *ast.KeyValueExpr:
				// field names of struct literals are not reads
				visit(x.Value)
				if _, isIdent := x.Key.(*ast.Ident); !isIdent {
					visit(x.Key)
				}
				return false
			}
			return true
		})
	}
	visit(n)
	return out
}

// overlaps: the chain a denotes the variable t, a part of it, or something t
// is a part of.
func overlaps(a, t string) bool {
	return a == t || strings.HasPrefix(a, t+".") || strings.HasPrefix(t, a+".")
}

func mentionsChain(n ast.Node, target string) bool {
	for _, ch := range chains(n) {
		if overlaps(ch, target) {
			return true
		}
	}
	return false
}

type leafKind int

const (
	leafStore  leafKind = iota // m[i] = v
	leafDelete                 // delete(m, i)
	leafCount                  // n++, n += e
	leafAppend                 // s = append(s, e...)
)

type leaf struct {
	kind   leafKind
	stmt   ast.Stmt
	target string   // chain text of the map / counter / slice
	texpr  ast.Expr // the map / counter / slice expression
	idx    ast.Expr // index (store, delete)
	rhs    ast.Expr // stored value (store)
}

type readAt struct {
	e    ast.Node
	stmt ast.Node
}

type bodyScan struct {
	c      *orderCtx
	leaves []leaf
	reads  []readAt
	bad    ast.Node // first statement that does not fit
	why    string
}

func (b *bodyScan) fail(n ast.Node, why string) bool {
	if b.bad == nil {
		b.bad, b.why = n, why
	}
	return false
}

func (b *bodyScan) read(e ast.Expr, at ast.Node) bool {
	if e == nil {
		return true
	}
	if !b.c.isPure(e) {
		return b.fail(at, "expression with a possible side effect: "+clipText(b.c.r.text(e)))
	}
	b.reads = append(b.reads, readAt{e, at})
	return true
}

var commutativeOps = map[token.Token]bool{
	token.ADD_ASSIGN: true, token.SUB_ASSIGN: true, token.MUL_ASSIGN: true,
	token.OR_ASSIGN: true, token.AND_ASSIGN: true, token.XOR_ASSIGN: true,
}

func (b *bodyScan) stmts(list []ast.Stmt) bool {
	for _, s := range list {
		if !b.stmt(s) {
			return false
		}
	}
	return true
}

func (b *bodyScan) stmt(s ast.Stmt) bool {
	c := b.c
	switch x := s.(type) {
	case *ast.EmptyStmt:
		return true
	case *ast.BlockStmt:
		return b.stmts(x.List)
	case *ast.BranchStmt:
		if x.Tok == token.CONTINUE && x.Label == nil {
			return true
		}
		return b.fail(s, "leaves the loop early")
	case *ast.IfStmt:
		if x.Init != nil {
			// only `v, ok := <pure>`
			as, ok := x.Init.(*ast.AssignStmt)
			if !ok || as.Tok != token.DEFINE {
				return b.fail(s, "if with an init statement that is not a short variable declaration")
			}
			for _, l := range as.Lhs {
				if _, ok := l.(*ast.Ident); !ok {
					return b.fail(s, "if with an init statement that is not a short variable declaration")
				}
			}
			for _, r := range as.Rhs {
				if !b.read(r, s) {
					return false
				}
			}
		}
		if !b.read(x.Cond, s) || !b.stmts(x.Body.List) {
			return false
		}
		if x.Else != nil {
			return b.stmt(x.Else)
		}
		return true
	case *ast.IncDecStmt:
		t, ok := chainText(x.X)
		if !ok {
			return b.fail(s, "increment of something that is not a variable")
		}
		b.leaves = append(b.leaves, leaf{kind: leafCount, stmt: s, target: t, texpr: x.X})
		return true
	case *ast.ExprStmt:
		if call, ok := x.X.(*ast.CallExpr); ok && c.isBuiltin(call.Fun, "delete") && len(call.Args) == 2 {
			t, ok := chainText(call.Args[0])
			if !ok {
				return b.fail(s, "delete from something that is not a variable")
			}
			if !b.read(call.Args[1], s) {
				return false
			}
			b.leaves = append(b.leaves, leaf{kind: leafDelete, stmt: s, target: t, texpr: call.Args[0], idx: call.Args[1]})
			return true
		}
		return b.fail(s, "call whose effect is not known")
	case *ast.AssignStmt:
		if x.Tok == token.DEFINE {
			// body-local temporaries: x := <pure>
			for _, l := range x.Lhs {
				if _, ok := l.(*ast.Ident); !ok {
					return b.fail(s, "not a short variable declaration of identifiers")
				}
			}
			for _, r := range x.Rhs {
				if !b.read(r, s) {
					return false
				}
			}
			return true
		}
		if len(x.Lhs) != 1 || len(x.Rhs) != 1 {
			return b.fail(s, "multiple assignment")
		}
		lhs, rhs := ast.Unparen(x.Lhs[0]), x.Rhs[0]
		if commutativeOps[x.Tok] {
			t, ok := chainText(lhs)
			if !ok {
				return b.fail(s, "accumulates into something that is not a variable")
			}
			if !b.read(rhs, s) {
				return false
			}
			b.leaves = append(b.leaves, leaf{kind: leafCount, stmt: s, target: t, texpr: lhs})
			return true
		}
		if x.Tok != token.ASSIGN {
			return b.fail(s, "assignment operator that is not commutative")
		}
		if ix, ok := lhs.(*ast.IndexExpr); ok {
			t, ok := chainText(ix.X)
			if !ok {
				return b.fail(s, "stores into something that is not a variable")
			}
			if !b.read(ix.Index, s) || !b.read(rhs, s) {
				return false
			}
			b.leaves = append(b.leaves, leaf{kind: leafStore, stmt: s, target: t, texpr: ix.X, idx: ix.Index, rhs: rhs})
			return true
		}
		if id, ok := lhs.(*ast.Ident); ok {
			if call, ok := rhs.(*ast.CallExpr); ok && c.isBuiltin(call.Fun, "append") && len(call.Args) >= 1 {
				if a0, ok := ast.Unparen(call.Args[0]).(*ast.Ident); ok && a0.Name == id.Name {
					for _, a := range call.Args[1:] {
						if !b.read(a, s) {
							return false
						}
					}
					b.leaves = append(b.leaves, leaf{kind: leafAppend, stmt: s, target: id.Name, texpr: id})
					return true
				}
			}
		}
		return b.fail(s, "assignment to a variable that outlives the iteration")
	}
	return b.fail(s, "statement whose effect is not known")
}

// isConstValue: the value does not depend on anything (struct{}{}, literals,
// true/false/nil).
func isConstValue(e ast.Expr) bool {
	switch x := ast.Unparen(e).(type) {
	case *ast.BasicLit:
		return true
	case *ast.CompositeLit:
		return len(x.Elts) == 0
	case *ast.Ident:
		return x.Obj == nil && (x.Name == "true" || x.Name == "false" || x.Name == "nil")
	}
	return false
}

func (c *orderCtx) isIntegerVar(e ast.Expr) bool {
	tv, ok := c.p.info.Types[e]
	if !ok || tv.Type == nil {
		if id, isIdent := e.(*ast.Ident); isIdent {
			if obj := c.p.info.Uses[id]; obj != nil {
				tv.Type = obj.Type()
			}
		}
	}
	if tv.Type == nil {
		return false
	}
	b, ok := tv.Type.Underlying().(*types.Basic)
	return ok && b.Info()&types.IsInteger != 0
}

func (c *orderCtx) isMapVar(e ast.Expr) bool {
	m := mapUnknown
	if tv, ok := c.p.info.Types[e]; ok {
		m = typeMapness(tv.Type)
	}
	if m == mapUnknown {
		m = c.p.syntacticMapness(e)
	}
	return m == isMap
}

// classifyRange classifies the loop rs, which iterates over a map (or, with
// overKeys, directly over the slice returned by Keys() of a typeutil.Map).
//
// Rules (all of them must hold, otherwise the site is "unknown"):
//
//  1. The iteration variables are declared by the loop (`:=`), so that they
//     do not survive it.
//  2. Every statement of the body is, possibly under `if`s without side
//     effects (see isPure) and next to `continue`s and body-local `x := <pure>`:
//     a store `m[i] = v`, a `delete(m, i)`, an accumulation `n++` / `n op= e`
//     with a commutative and associative op on an integer n, or an append
//     `s = append(s, e...)`. No break, return, goto, no other call.
//  3. Nothing the body reads (conditions, indices, values, the operand of the
//     range itself) overlaps with something the body writes. So the effect of
//     one iteration does not depend on the iterations before it.
//     Exception: a map whose every write is keyed by the loop's own key may
//     be the operand of the range (`for k := range m { delete(m, k) }`).
//  4. Writes to one map do not conflict between iterations: either every
//     write is keyed by the loop's own key (distinct per iteration), or all are
//     stores of one and the same constant, or all are deletes.
//  5. Appends go to ONE local slice, and are not mixed with stores or
//     counters; the slice is sorted before it is used again (sortAfter).
func (c *orderCtx) classifyRange(rs *ast.RangeStmt, overKeys bool) (pattern, detail string) {
	// 1. iteration variables
	distinct := map[string]bool{}
	for i, kv := range []ast.Expr{rs.Key, rs.Value} {
		if kv == nil {
			continue
		}
		id, ok := kv.(*ast.Ident)
		if !ok || (id.Name != "_" && rs.Tok != token.DEFINE) {
			return "unknown:" + clipText("for "+c.r.text(kv)+" = range "+c.r.text(rs.X)), "iteration variable survives the loop"
		}
		// map keys are distinct per iteration; so are index and element of Keys()
		if id.Name != "_" && (i == 0 || overKeys) {
			distinct[id.Name] = true
		}
	}

	// 2. statements
	b := &bodyScan{c: c}
	if !b.stmts(rs.Body.List) {
		return c.unknown(b.bad, b.why)
	}
	b.reads = append(b.reads, readAt{rs.X, nil})

	keyed := func(l leaf) bool {
		if l.kind != leafStore && l.kind != leafDelete {
			return false
		}
		id, ok := ast.Unparen(l.idx).(*ast.Ident)
		return ok && distinct[id.Name]
	}
	allKeyed := map[string]bool{}
	for _, l := range b.leaves {
		if _, seen := allKeyed[l.target]; !seen {
			allKeyed[l.target] = true
		}
		if !keyed(l) {
			allKeyed[l.target] = false
		}
	}

	// 3. reads do not overlap with writes
	for _, l := range b.leaves {
		for _, rd := range b.reads {
			if !mentionsChain(rd.e, l.target) {
				continue
			}
			if rd.stmt == nil {
				if allKeyed[l.target] {
					continue
				}
				return c.unknown(l.stmt, "writes to the operand of the range under a key that is not the loop's")
			}
			return c.unknown(rd.stmt, "reads "+l.target+", which the loop writes")
		}
	}

	nAppend, nStore := 0, 0
	for _, l := range b.leaves {
		switch l.kind {
		case leafAppend:
			nAppend++
		case leafStore, leafDelete:
			nStore++
		}
	}

	// 5. appends
	if nAppend > 0 {
		slice := ""
		var sliceID *ast.Ident
		for _, l := range b.leaves {
			if l.kind != leafAppend {
				return c.unknown(l.stmt, "appends mixed with other writes")
			}
			if slice == "" {
				slice, sliceID = l.target, l.texpr.(*ast.Ident)
			} else if l.target != slice {
				return c.unknown(l.stmt, "appends to more than one slice")
			}
		}
		return c.sortAfter(rs, sliceID)
	}

	// 4. stores, deletes, counters
	first := map[string]leaf{}
	for _, l := range b.leaves {
		switch l.kind {
		case leafCount:
			if !c.isIntegerVar(l.texpr) {
				return c.unknown(l.stmt, "accumulates into a variable that is not known to be an integer")
			}
		case leafStore, leafDelete:
			if !c.isMapVar(l.texpr) {
				return c.unknown(l.stmt, "stores into a variable that is not known to be a map")
			}
			if allKeyed[l.target] {
				continue
			}
			if l.kind == leafStore && !isConstValue(l.rhs) {
				return c.unknown(l.stmt, "stores a value under a key that is not the loop's: the last writer wins")
			}
			f, seen := first[l.target]
			if !seen {
				first[l.target] = l
				continue
			}
			if f.kind != l.kind || (l.kind == leafStore && c.r.text(f.rhs) != c.r.text(l.rhs)) {
				return c.unknown(l.stmt, "different writes to "+l.target+" under keys that are not the loop's")
			}
		}
	}
	if nStore == 0 && len(b.leaves) > 0 {
		return "count", ""
	}
	return "set", ""
}

func (c *orderCtx) sameVar(id *ast.Ident, ref *ast.Ident) bool {
	if id.Name != ref.Name {
		return false
	}
	objOf := func(x *ast.Ident) types.Object {
		if o := c.p.info.Uses[x]; o != nil {
			return o
		}
		return c.p.info.Defs[x]
	}
	a, b := objOf(id), objOf(ref)
	if a != nil && b != nil {
		return a == b
	}
	return true // same name, not resolved: assume the same variable
}

func (c *orderCtx) mentionsVar(n ast.Node, ref *ast.Ident) bool {
	found := false
	ast.Inspect(n, func(m ast.Node) bool {
		if id, ok := m.(*ast.Ident); ok && c.sameVar(id, ref) {
			found = true
		}
		return !found
	})
	return found
}

func contains(outer, inner ast.Node) bool {
	return outer.Pos() <= inner.Pos() && inner.End() <= outer.End()
}

// renamed renders n with every occurrence of the variable ref spelled `_s`,
// so that renaming the slice does not change the fact.
func (c *orderCtx) renamed(n ast.Node, ref *ast.Ident) string {
	var ids []*ast.Ident
	ast.Inspect(n, func(m ast.Node) bool {
		if id, ok := m.(*ast.Ident); ok && id != ref && c.sameVar(id, ref) {
			ids = append(ids, id)
		}
		return true
	})
	old := ref.Name
	for _, id := range ids {
		id.Name = "_s"
	}
	s := c.r.text(n)
	for _, id := range ids {
		id.Name = old
	}
	return s
}

// sortCall recognises a call that sorts the slice ref in place. detail is ""
// for the natural order of the element type, else the text of the comparison.
func (c *orderCtx) sortCall(s ast.Stmt, ref *ast.Ident) (detail string, less ast.Node, ok bool) {
	es, isExpr := s.(*ast.ExprStmt)
	if !isExpr {
		return "", nil, false
	}
	call, isCall := es.X.(*ast.CallExpr)
	if !isCall || len(call.Args) == 0 {
		return "", nil, false
	}
	sel, isSel := ast.Unparen(call.Fun).(*ast.SelectorExpr)
	if !isSel {
		return "", nil, false
	}
	name, isPkg := c.pkgFuncName(sel)
	if !isPkg {
		return "", nil, false
	}
	isRef := func(e ast.Expr) bool {
		id, ok := ast.Unparen(e).(*ast.Ident)
		return ok && c.sameVar(id, ref)
	}
	switch name {
	case "sort.Strings", "sort.Ints", "slices.Sort", "golang.org/x/exp/slices.Sort":
		if len(call.Args) == 1 && isRef(call.Args[0]) {
			return "", nil, true
		}
	case "sort.Slice", "sort.SliceStable", "slices.SortFunc", "slices.SortStableFunc",
		"golang.org/x/exp/slices.SortFunc", "golang.org/x/exp/slices.SortStableFunc":
		if len(call.Args) == 2 && isRef(call.Args[0]) {
			return c.renamed(call.Args[1], ref), call.Args[1], true
		}
	case "sort.Sort", "sort.Stable":
		// sort.Sort(byName(s))
		if len(call.Args) == 1 {
			if conv, ok := ast.Unparen(call.Args[0]).(*ast.CallExpr); ok && len(conv.Args) == 1 && isRef(conv.Args[0]) {
				return c.renamed(call.Args[0], ref), nil, true
			}
		}
	}
	return "", nil, false
}

// sortAfter checks the context of a loop that only appends to the slice ref:
//
//   - ref is a variable of the enclosing function declaration (a package
//     variable could be read by anything called before the sort);
//   - its address is not taken and no function literal captures it, except the
//     literals the loop is inside of and the comparison of the sort;
//   - the loop is a statement of a block, and the first statement after it in
//     that block that mentions ref is a call sorting it.
func (c *orderCtx) sortAfter(rs *ast.RangeStmt, ref *ast.Ident) (pattern, detail string) {
	// enclosing function declaration
	var fd *ast.FuncDecl
	for n := ast.Node(rs); n != nil; n = c.parents[n] {
		if d, ok := n.(*ast.FuncDecl); ok {
			fd = d
			break
		}
	}
	if fd == nil || fd.Body == nil {
		return c.unknown(rs.Body, "append loop outside a function declaration")
	}
	declPos := token.NoPos
	if obj := c.p.info.Uses[ref]; obj != nil {
		declPos = obj.Pos()
	} else if ref.Obj != nil {
		if d, ok := ref.Obj.Decl.(ast.Node); ok {
			declPos = d.Pos()
		}
	}
	if !declPos.IsValid() || declPos < fd.Pos() || declPos >= fd.End() {
		return c.unknown(rs.Body, ref.Name+" is not a variable of the enclosing function")
	}

	// following statements of the same block
	var list []ast.Stmt
	switch par := c.parents[rs].(type) {
	case *ast.BlockStmt:
		list = par.List
	case *ast.CaseClause:
		list = par.Body
	case *ast.CommClause:
		list = par.Body
	default:
		return c.unknown(rs.Body, "append loop that is not a statement of a block")
	}
	at := -1
	for i, s := range list {
		if s == ast.Stmt(rs) {
			at = i
		}
	}
	if at < 0 {
		return c.unknown(rs.Body, "append loop that is not a statement of a block")
	}
	var sortStmt ast.Stmt
	var less ast.Node
	for _, s := range list[at+1:] {
		if !c.mentionsVar(s, ref) {
			continue
		}
		d, l, ok := c.sortCall(s, ref)
		if !ok {
			return c.unknown(s, ref.Name+" is used before it is sorted")
		}
		sortStmt, less, detail = s, l, d
		break
	}
	if sortStmt == nil {
		return c.unknown(rs, ref.Name+" is not sorted in the block of the loop")
	}

	// no alias, no capture
	var bad ast.Node
	ast.Inspect(fd.Body, func(n ast.Node) bool {
		if bad != nil {
			return false
		}
		switch x := n.(type) {
		case *ast.UnaryExpr:
			if id, ok := ast.Unparen(x.X).(*ast.Ident); ok && x.Op == token.AND && c.sameVar(id, ref) {
				bad = x
			}
		case *ast.FuncLit:
			if contains(x, rs) || (less != nil && ast.Node(x) == less) {
				return true
			}
			if c.mentionsVar(x, ref) {
				bad = x
			}
			return false
		}
		return true
	})
	if bad != nil {
		return c.unknown(bad, ref.Name+" is aliased or captured by a function literal")
	}
	return "append-then-sort:" + ref.Name, detail
}

// classifyKeysCall classifies a Keys/Iterate/Range call of a typeutil.Map or
// sync.Map: pattern "keys-call"; detail is "range:<pattern>" (with
// ";less=<comparison>" appended for a custom sort) when the call is directly
// the operand of a range statement, which is then classified like a range over
// a map ("range:unknown:<statement>" when it fits no pattern), else "unknown".
func (c *orderCtx) classifyKeysCall(call ast.Node) (pattern, detail string) {
	if rs, ok := c.parents[call].(*ast.RangeStmt); ok && ast.Node(rs.X) == call {
		p, d := c.classifyRange(rs, true)
		if strings.HasPrefix(p, "append-then-sort:") && d != "" {
			return "keys-call", "range:" + p + ";less=" + d
		}
		return "keys-call", "range:" + p
	}
	return "keys-call", "unknown"
}
