// Ownership and type facts about the scheduler (package scheduler, and the
// emitter adapter of the root package).  They tie the hand-written ownership
// model (CffVerif/Sched/Own.lean, property C12) and the unbounded counters of
// the scheduler model (C01, C19) to the source.
//
// What is looked at: every non-test file of package scheduler that is built
// without the "verif" tag.  The verification hooks are treated as absent:
//   - files named verif_*.go are type-checked (the package does not compile
//     without them) but contribute no facts, and everything they declare is
//     invisible (fields of a type declared there, calls of a function
//     declared there, a statement assigning only from such calls);
//   - `if verifOn { ... }` blocks are skipped.
//
// Function contexts.  Every access is attributed to a CONTEXT: the enclosing
// top-level function or method (`Recv.Name`, as funcName prints it) followed,
// for every func literal on the way, by
//
//	:defer  the literal is the operand of `defer` and called on the spot,
//	:go     the literal is started by `go`,
//	:lit    anything else.
//
// Package-level variable initialisers are the context `init`.
//
// Threads.  A context runs on a THREAD (a kind of goroutine) named after its
// root: `caller` for everything reachable from an exported function or method
// (the goroutine of the user of the package), `init`, and, for every `go`
// statement, the context started (`worker`, `Scheduler.run`, `Config.New:go`).
// A context is reached from a root through static calls of package-level
// functions / methods, through `:defer` literals and through literals that
// are called on the spot; a `go` statement reaches nothing (it is a root).  A
// func literal that is stored or passed on, and a package function used as a
// value, run nobody knows where: they get a thread `unknown: ...`.
package main

import (
	"fmt"
	"go/ast"
	"go/build"
	"go/token"
	"go/types"
	"path/filepath"
	"sort"
	"strings"
)

type fieldAccess struct{ strct, field, kind, fn, arm, detail string }

type ownFacts struct {
	fieldAccesses    []fieldAccess
	fieldTypes       []triple // (struct, field, type)
	structInits      []triple // (struct, field, value) of composite literals
	loopCounterTypes []triple // (context, local, type)
	goroutineRoots   []pair   // (context of the go statement, context started)
	fnThreads        map[string][]string
	emitterAdapter   []string
}

const (
	ownSchedDir  = "scheduler"
	ownRootSched = "scheduler.go"
)

func isVerifFile(rel string) bool {
	return strings.HasPrefix(filepath.Base(rel), "verif_")
}

// ownScan is the state of one walk over package scheduler.
type ownScan struct {
	r    *repo
	info *types.Info
	pkg  *types.Package
	out  *ownFacts

	fieldOwner map[*types.Var]string // field -> declaring struct
	tracked    map[types.Object]bool // type names of the structs above

	written  map[*ast.SelectorExpr]bool // field selectors that are assigned to
	alsoRead map[*ast.SelectorExpr]bool // ... by `op=` / `++` / element or sub-field writes
	escaped  map[*ast.SelectorExpr]string
	callFun  map[*ast.Ident]bool     // identifiers in call position
	litVars  map[types.Object]string // local variable holding a func literal -> the literal's context

	calls     map[string]map[string]bool // context -> contexts it runs on its own goroutine
	ctxs      map[string]bool
	exported  map[string]bool
	goRoots   map[string]bool
	unknownTh map[string][]string
}

type walkCtx struct {
	fn   string
	arm  string
	decl ast.Node // enclosing top-level declaration (alias resolution)
	body bool     // inside a function body (locals are recorded)
}

func (r *repo) scanOwnership(im *srcImporter, fx *facts) {
	o := &fx.own
	o.fnThreads = map[string][]string{}
	r.scanSchedulerOwnership(im, fx)
	r.scanRootSchedulerFile(o)
}

// ---------------------------------------------------------------------------
// package scheduler
// ---------------------------------------------------------------------------

func (r *repo) scanSchedulerOwnership(im *srcImporter, fx *facts) {
	o := &fx.own
	unknown := func(msg string) {
		o.fieldAccesses = append(o.fieldAccesses, fieldAccess{"unknown: " + msg, "", "unknown", "", "", ""})
		o.goroutineRoots = append(o.goroutineRoots, pair{"unknown: " + msg, ""})
	}
	var files []*srcFile
	var asts []*ast.File
	for _, rel := range r.goFiles(ownSchedDir) {
		ok, err := build.Default.MatchFile(filepath.Join(r.root, ownSchedDir), filepath.Base(rel))
		if err != nil || !ok {
			continue // excluded by its build constraint (verif_on.go)
		}
		sf, err := r.parseGo(rel)
		if err != nil {
			unknown("parse " + rel + ": " + oneLine(err.Error()))
			continue
		}
		files = append(files, sf)
		asts = append(asts, sf.ast)
	}
	if len(files) == 0 {
		unknown("no files in " + ownSchedDir)
		return
	}
	info := &types.Info{
		Types:      map[ast.Expr]types.TypeAndValue{},
		Uses:       map[*ast.Ident]types.Object{},
		Defs:       map[*ast.Ident]types.Object{},
		Selections: map[*ast.SelectorExpr]*types.Selection{},
	}
	seen := map[string]bool{}
	conf := types.Config{
		Importer:    im,
		FakeImportC: true,
		Error: func(err error) {
			msg := err.Error()
			if te, ok := err.(types.Error); ok {
				pos := te.Fset.Position(te.Pos)
				rel, _ := filepath.Rel(r.root, pos.Filename)
				msg = filepath.ToSlash(rel) + ": " + te.Msg
			}
			if !seen[msg] {
				seen[msg] = true
				fx.typeErrors = append(fx.typeErrors, oneLine(msg))
			}
		},
	}
	pkg, _ := conf.Check(ownSchedDir, r.fset, asts, info)
	if pkg == nil {
		unknown("type-checking " + ownSchedDir + " failed")
		return
	}
	s := &ownScan{
		r: r, info: info, pkg: pkg, out: o,
		fieldOwner: map[*types.Var]string{},
		tracked:    map[types.Object]bool{},
		written:    map[*ast.SelectorExpr]bool{},
		alsoRead:   map[*ast.SelectorExpr]bool{},
		escaped:    map[*ast.SelectorExpr]string{},
		callFun:    map[*ast.Ident]bool{},
		litVars:    map[types.Object]string{},
		calls:      map[string]map[string]bool{},
		ctxs:       map[string]bool{},
		exported:   map[string]bool{},
		goRoots:    map[string]bool{},
		unknownTh:  map[string][]string{},
	}

	// 1. the structs of the package and the types of their fields
	for _, sf := range files {
		if isVerifFile(sf.rel) {
			continue
		}
		for _, d := range sf.ast.Decls {
			gd, ok := d.(*ast.GenDecl)
			if !ok || gd.Tok != token.TYPE {
				continue
			}
			for _, sp := range gd.Specs {
				ts := sp.(*ast.TypeSpec)
				obj := info.Defs[ts.Name]
				if obj == nil {
					continue
				}
				st, ok := obj.Type().Underlying().(*types.Struct)
				if !ok {
					continue
				}
				if _, isLit := ts.Type.(*ast.StructType); !isLit {
					continue // defined in terms of another type: its fields belong to that one
				}
				s.tracked[obj] = true
				for i := 0; i < st.NumFields(); i++ {
					f := st.Field(i)
					if s.declaredInVerif(typeObj(f.Type())) {
						continue // hook state
					}
					s.fieldOwner[f] = ts.Name.Name
					o.fieldTypes = append(o.fieldTypes, triple{ts.Name.Name, f.Name(), s.typeText(f.Type())})
				}
			}
		}
	}

	// 2. accesses, go statements, locals, calls
	for _, sf := range files {
		if isVerifFile(sf.rel) {
			continue
		}
		for _, d := range sf.ast.Decls {
			switch x := d.(type) {
			case *ast.FuncDecl:
				name := funcName(x)
				s.ctxs[name] = true
				if x.Name.IsExported() && (x.Recv == nil || ast.IsExported(strings.SplitN(name, ".", 2)[0])) {
					s.exported[name] = true
				}
				if x.Body != nil {
					s.walk(x.Body, walkCtx{fn: name, decl: x, body: true})
				}
			case *ast.GenDecl:
				if x.Tok == token.VAR {
					s.ctxs["init"] = true
					s.walk(x, walkCtx{fn: "init", decl: x})
				}
			}
		}
	}

	// 3. threads
	s.computeThreads()

	// 4. the ticker
	s.scanTickers(files)
}

func typeObj(t types.Type) types.Object {
	for {
		switch x := t.(type) {
		case *types.Pointer:
			t = x.Elem()
			continue
		case *types.Named:
			return x.Obj()
		case *types.Alias:
			return x.Obj()
		}
		return nil
	}
}

func (s *ownScan) declaredInVerif(obj types.Object) bool {
	if obj == nil || obj.Pkg() != s.pkg || !obj.Pos().IsValid() {
		return false
	}
	return isVerifFile(s.r.fset.Position(obj.Pos()).Filename)
}

func (s *ownScan) qualifier(p *types.Package) string {
	if p == s.pkg {
		return ""
	}
	return p.Name()
}

// typeText prints a type; a named type that is not a struct or interface also
// shows what it is made of (`time.Duration (int64)`), so that an integer hidden
// behind a name is seen.
func (s *ownScan) typeText(t types.Type) string {
	txt := types.TypeString(t, s.qualifier)
	switch t.(type) {
	case *types.Named, *types.Alias:
		if b, ok := t.Underlying().(*types.Basic); ok {
			txt += " (" + b.Name() + ")"
		}
	}
	return txt
}

func isIntegerType(t types.Type) bool {
	b, ok := t.Underlying().(*types.Basic)
	return ok && b.Info()&types.IsInteger != 0
}

func unparen(e ast.Expr) ast.Expr {
	for {
		p, ok := e.(*ast.ParenExpr)
		if !ok {
			return e
		}
		e = p.X
	}
}

// fieldOf returns the (struct, field) a selector denotes, if it selects a
// field of one of the package's structs.
func (s *ownScan) fieldOf(sel *ast.SelectorExpr) (string, string, bool) {
	sl := s.info.Selections[sel]
	if sl == nil || sl.Kind() != types.FieldVal {
		return "", "", false
	}
	v, ok := sl.Obj().(*types.Var)
	if !ok {
		return "", "", false
	}
	owner, ok := s.fieldOwner[v]
	return owner, v.Name(), ok
}

func (s *ownScan) isVerifOn(e ast.Expr) bool {
	id, ok := unparen(e).(*ast.Ident)
	if !ok {
		return false
	}
	if obj := s.info.Uses[id]; obj != nil {
		return s.declaredInVerif(obj) && id.Name == "verifOn"
	}
	return id.Name == "verifOn"
}

// verifCall: a call of a function or method declared in a verif file.
func (s *ownScan) verifCall(e ast.Expr) bool {
	c, ok := unparen(e).(*ast.CallExpr)
	if !ok {
		return false
	}
	f := s.staticCallee(c)
	return f != nil && s.declaredInVerif(f)
}

func (s *ownScan) staticCallee(c *ast.CallExpr) *types.Func {
	switch f := unparen(c.Fun).(type) {
	case *ast.Ident:
		fn, _ := s.info.Uses[f].(*types.Func)
		return fn
	case *ast.SelectorExpr:
		fn, _ := s.info.Uses[f.Sel].(*types.Func)
		return fn
	}
	return nil
}

// declName renders a package-level function or method of the package the way
// funcName does.
func (s *ownScan) declName(f *types.Func) (string, bool) {
	if f == nil || f.Pkg() != s.pkg {
		return "", false
	}
	sig, _ := f.Type().(*types.Signature)
	if sig != nil && sig.Recv() != nil {
		if obj := typeObj(sig.Recv().Type()); obj != nil {
			if _, isIface := obj.Type().Underlying().(*types.Interface); isIface {
				return "", false
			}
			return obj.Name() + "." + f.Name(), true
		}
		return "", false
	}
	if f.Parent() != s.pkg.Scope() {
		return "", false
	}
	return f.Name(), true
}

func (s *ownScan) edge(from, to string) {
	if s.calls[from] == nil {
		s.calls[from] = map[string]bool{}
	}
	s.calls[from][to] = true
}

// pointsToTracked: the struct a value of type t gives shared access to.
func (s *ownScan) pointsToTracked(t types.Type, depth int) (string, bool) {
	if t == nil || depth > 4 {
		return "", false
	}
	switch x := t.(type) {
	case *types.Pointer:
		if n, ok := x.Elem().(*types.Named); ok && s.tracked[n.Obj()] {
			return n.Obj().Name(), true
		}
		return s.pointsToTracked(x.Elem(), depth+1)
	case *types.Slice:
		return s.pointsToTracked(x.Elem(), depth+1)
	case *types.Array:
		return s.pointsToTracked(x.Elem(), depth+1)
	case *types.Chan:
		return s.pointsToTracked(x.Elem(), depth+1)
	case *types.Map:
		if n, ok := s.pointsToTracked(x.Key(), depth+1); ok {
			return n, true
		}
		return s.pointsToTracked(x.Elem(), depth+1)
	}
	return "", false
}

func (s *ownScan) emit(c walkCtx, strct, field, kind, detail string) {
	s.out.fieldAccesses = append(s.out.fieldAccesses, fieldAccess{strct, field, kind, c.fn, c.arm, detail})
}

// markWrite records the field selectors an assignment to lhs writes.
func (s *ownScan) markWrite(lhs ast.Expr, readToo bool) {
	e := unparen(lhs)
	first := true
	for {
		switch x := e.(type) {
		case *ast.SelectorExpr:
			if _, _, ok := s.fieldOf(x); ok {
				s.written[x] = true
				if readToo || !first {
					s.alsoRead[x] = true
				}
			}
			// writing a field of a struct VALUE stored in a field writes that field too
			if tv, ok := s.info.Types[x.X]; ok {
				if _, isPtr := tv.Type.Underlying().(*types.Pointer); isPtr {
					return
				}
			}
			first = false
			e = unparen(x.X)
		case *ast.IndexExpr:
			// x.f[i] = v: an element of the slice / array / map held by the field
			first = false
			e = unparen(x.X)
		default:
			return
		}
	}
}

func (s *ownScan) markEscape(e ast.Expr, why string) {
	e = unparen(e)
	for {
		switch x := e.(type) {
		case *ast.SelectorExpr:
			if _, _, ok := s.fieldOf(x); ok {
				s.escaped[x] = why
			}
			return
		case *ast.IndexExpr:
			e = unparen(x.X)
		default:
			return
		}
	}
}

func (s *ownScan) walk(n ast.Node, c walkCtx) {
	if n == nil {
		return
	}
	ast.Inspect(n, func(n ast.Node) bool {
		switch x := n.(type) {
		case *ast.IfStmt:
			if s.isVerifOn(x.Cond) {
				if x.Else != nil {
					s.walk(x.Else, c)
				}
				return false
			}
		case *ast.AssignStmt:
			allVerif := len(x.Rhs) > 0
			for _, rhs := range x.Rhs {
				if !s.verifCall(rhs) {
					allVerif = false
				}
			}
			if allVerif {
				return false
			}
			for _, l := range x.Lhs {
				s.markWrite(l, x.Tok != token.ASSIGN && x.Tok != token.DEFINE)
			}
			if s.localClosures(x.Lhs, x.Rhs, c) {
				return false
			}
		case *ast.ValueSpec:
			var lhs []ast.Expr
			for _, id := range x.Names {
				lhs = append(lhs, id)
			}
			if c.body && s.localClosures(lhs, x.Values, c) {
				return false
			}
		case *ast.ExprStmt:
			if s.verifCall(x.X) {
				return false
			}
		case *ast.IncDecStmt:
			s.markWrite(x.X, true)
		case *ast.RangeStmt:
			if x.Tok == token.ASSIGN {
				if x.Key != nil {
					s.markWrite(x.Key, false)
				}
				if x.Value != nil {
					s.markWrite(x.Value, false)
				}
			}
		case *ast.UnaryExpr:
			if x.Op == token.AND {
				if _, isLit := unparen(x.X).(*ast.CompositeLit); !isLit {
					s.markEscape(x.X, "&")
					if id, ok := unparen(x.X).(*ast.Ident); ok {
						if tv, ok := s.info.Types[id]; ok {
							if nm, ok := tv.Type.(*types.Named); ok && s.tracked[nm.Obj()] {
								s.emit(c, nm.Obj().Name(), "*", "escape", "&")
							}
						}
					}
				}
			}
		case *ast.SliceExpr:
			// re-slicing a field yields a writable alias of what the field holds
			if tv, ok := s.info.Types[x.X]; ok {
				switch tv.Type.Underlying().(type) {
				case *types.Slice, *types.Array, *types.Pointer:
					s.markEscape(x.X, "reslice")
				}
			}
		case *ast.DeferStmt:
			if lit, ok := unparen(x.Call.Fun).(*ast.FuncLit); ok {
				s.walkLit(lit, c, ":defer", true)
				for _, a := range x.Call.Args {
					s.walk(a, c)
				}
				return false
			}
		case *ast.GoStmt:
			s.goStmt(x, c)
			return false
		case *ast.CallExpr:
			if lit, ok := unparen(x.Fun).(*ast.FuncLit); ok {
				s.walkLit(lit, c, ":lit", true)
				for _, a := range x.Args {
					s.walk(a, c)
				}
				return false
			}
			s.call(x, c)
		case *ast.FuncLit:
			s.walkLit(x, c, ":lit", false)
			return false
		case *ast.SelectStmt:
			for _, cl := range x.Body.List {
				cc := cl.(*ast.CommClause)
				if cc.Comm != nil {
					s.walk(cc.Comm, c)
				}
				ac := c
				ac.arm = s.armText(cc.Comm, c)
				for _, st := range cc.Body {
					s.walk(st, ac)
				}
			}
			return false
		case *ast.CompositeLit:
			s.compositeLit(x, c)
		case *ast.SelectorExpr:
			if strct, field, ok := s.fieldOf(x); ok {
				switch {
				case s.written[x]:
					s.emit(c, strct, field, "write", "")
					if s.alsoRead[x] {
						s.emit(c, strct, field, "read", "")
					}
				case s.escaped[x] != "":
					s.emit(c, strct, field, "escape", s.escaped[x])
				default:
					s.emit(c, strct, field, "read", "")
				}
			}
		case *ast.Ident:
			if obj := s.info.Defs[x]; obj != nil && c.body {
				if v, ok := obj.(*types.Var); ok && !v.IsField() && x.Name != "_" && isIntegerType(v.Type()) {
					s.out.loopCounterTypes = append(s.out.loopCounterTypes, triple{c.fn, x.Name, s.typeText(v.Type())})
				}
			}
			if lc, ok := s.litVars[s.info.Uses[x]]; ok && !s.callFun[x] {
				s.unknownTh[lc] = append(s.unknownTh[lc], "unknown: closure "+x.Name+" used as a value in "+c.fn)
			}
			if f, ok := s.info.Uses[x].(*types.Func); ok && !s.callFun[x] {
				if name, ok := s.declName(f); ok && !s.declaredInVerif(f) {
					s.unknownTh[name] = append(s.unknownTh[name], "unknown: used as a value in "+c.fn)
				}
			}
		}
		return true
	})
}

// localClosures handles `f := func(...) {...}` (every right-hand side a func
// literal, every left-hand side a local variable): the literal is the context
// `<fn>:lit`, and it runs wherever `f` is CALLED (an edge is added at each call);
// any other use of `f` makes its thread unknown.
func (s *ownScan) localClosures(lhs []ast.Expr, rhs []ast.Expr, c walkCtx) bool {
	if len(lhs) != len(rhs) || len(rhs) == 0 {
		return false
	}
	var objs []types.Object
	for i := range rhs {
		if _, ok := unparen(rhs[i]).(*ast.FuncLit); !ok {
			return false
		}
		id, ok := unparen(lhs[i]).(*ast.Ident)
		if !ok {
			return false
		}
		obj := s.info.Defs[id]
		if obj == nil {
			obj = s.info.Uses[id]
		}
		v, ok := obj.(*types.Var)
		if !ok || v.IsField() || v.Parent() == s.pkg.Scope() {
			return false
		}
		objs = append(objs, obj)
	}
	name := c.fn + ":lit"
	s.ctxs[name] = true
	for i, obj := range objs {
		s.litVars[obj] = name
		s.walk(unparen(rhs[i]).(*ast.FuncLit).Body, walkCtx{fn: name, decl: c.decl, body: true})
	}
	return true
}

// walkLit walks a func literal as its own context.  sameGoroutine: the literal
// is called where it stands (defer, or call on the spot).
func (s *ownScan) walkLit(lit *ast.FuncLit, c walkCtx, suffix string, sameGoroutine bool) {
	name := c.fn + suffix
	s.ctxs[name] = true
	if sameGoroutine {
		s.edge(c.fn, name)
	} else if suffix != ":go" {
		s.unknownTh[name] = append(s.unknownTh[name], "unknown: func literal stored or passed on in "+c.fn)
	}
	s.walk(lit.Body, walkCtx{fn: name, decl: c.decl, body: true})
}

func (s *ownScan) noteCallFun(fun ast.Expr) {
	switch f := unparen(fun).(type) {
	case *ast.Ident:
		s.callFun[f] = true
	case *ast.SelectorExpr:
		s.callFun[f.Sel] = true
	}
}

func (s *ownScan) goStmt(g *ast.GoStmt, c walkCtx) {
	call := g.Call
	if lit, ok := unparen(call.Fun).(*ast.FuncLit); ok {
		name := c.fn + ":go"
		s.out.goroutineRoots = append(s.out.goroutineRoots, pair{c.fn, name})
		s.goRoots[name] = true
		s.walkLit(lit, c, ":go", false)
	} else {
		s.noteCallFun(call.Fun)
		f := s.staticCallee(call)
		if name, ok := s.declName(f); ok {
			s.out.goroutineRoots = append(s.out.goroutineRoots, pair{c.fn, name})
			s.goRoots[name] = true
		} else if f != nil {
			s.out.goroutineRoots = append(s.out.goroutineRoots, pair{c.fn, "extern: " + f.FullName()})
		} else {
			s.out.goroutineRoots = append(s.out.goroutineRoots, pair{c.fn, "dynamic: " + s.r.text(call.Fun)})
		}
		s.escapeArgs(call, c, "go ")
		s.walk(call.Fun, c)
	}
	for _, a := range call.Args {
		s.walk(a, c)
	}
}

func (s *ownScan) call(x *ast.CallExpr, c walkCtx) {
	s.noteCallFun(x.Fun)
	if id, ok := unparen(x.Fun).(*ast.Ident); ok {
		if lc, ok := s.litVars[s.info.Uses[id]]; ok {
			s.edge(c.fn, lc) // a local closure called here runs on this goroutine
			return
		}
	}
	if tv, ok := s.info.Types[x.Fun]; ok && tv.IsType() {
		return // conversion
	}
	if id, ok := unparen(x.Fun).(*ast.Ident); ok {
		if _, isBuiltin := s.info.Uses[id].(*types.Builtin); isBuiltin {
			return
		}
	}
	f := s.staticCallee(x)
	if f != nil && s.declaredInVerif(f) {
		return
	}
	if name, ok := s.declName(f); ok {
		s.edge(c.fn, name)
		return
	}
	// interface method `Emit` of the package's Emitter: where the emitter is called
	if f != nil && f.Pkg() == s.pkg && f.Name() == "Emit" {
		s.out.emitterAdapter = append(s.out.emitterAdapter, "emitIn:"+c.fn)
	}
	s.escapeArgs(x, c, "")
}

// escapeArgs: (a pointer to) one of the package's structs handed to code
// outside the package.
func (s *ownScan) escapeArgs(x *ast.CallExpr, c walkCtx, prefix string) {
	f := s.staticCallee(x)
	if _, ok := s.declName(f); ok {
		return
	}
	callee := "dynamic: " + s.r.text(x.Fun)
	if f != nil {
		callee = f.FullName()
	}
	for _, a := range x.Args {
		if tv, ok := s.info.Types[a]; ok {
			if strct, ok := s.pointsToTracked(tv.Type, 0); ok {
				s.emit(c, strct, "*", "escape", prefix+callee)
			}
		}
	}
}

func (s *ownScan) compositeLit(x *ast.CompositeLit, c walkCtx) {
	tv, ok := s.info.Types[x]
	if !ok {
		return
	}
	nm, ok := tv.Type.(*types.Named)
	if !ok || !s.tracked[nm.Obj()] {
		return
	}
	st, ok := nm.Underlying().(*types.Struct)
	if !ok {
		return
	}
	name := nm.Obj().Name()
	for i, el := range x.Elts {
		var fv *types.Var
		val := el
		if kv, ok := el.(*ast.KeyValueExpr); ok {
			if id, ok := kv.Key.(*ast.Ident); ok {
				fv, _ = s.info.Uses[id].(*types.Var)
			}
			val = kv.Value
		} else if i < st.NumFields() {
			fv = st.Field(i)
		}
		if fv == nil {
			s.emit(c, name, "unknown: "+s.r.text(el), "init", "")
			continue
		}
		if _, ok := s.fieldOwner[fv]; !ok {
			continue
		}
		s.emit(c, name, fv.Name(), "init", "")
		s.out.structInits = append(s.out.structInits, triple{name, fv.Name(), s.valueText(val)})
	}
}

// valueText prints an initialiser without the names of locals where that is
// easy: a field of a parameter / local as `Struct.field`, a parameter as
// `param:<type>`.
func (s *ownScan) valueText(e ast.Expr) string {
	switch x := unparen(e).(type) {
	case *ast.SelectorExpr:
		if _, isIdent := unparen(x.X).(*ast.Ident); isIdent {
			if strct, field, ok := s.fieldOf(x); ok {
				return strct + "." + field
			}
		}
	case *ast.Ident:
		if v, ok := s.info.Uses[x].(*types.Var); ok && !v.IsField() && v.Parent() != nil && v.Parent() != s.pkg.Scope() {
			if s.isParam(v) {
				return "param:" + s.typeText(v.Type())
			}
		}
	}
	return s.r.text(e)
}

func (s *ownScan) isParam(v *types.Var) bool {
	// a parameter's scope is the function scope: its parent's parent is the file / package scope
	// for declarations; simpler and exact: look for the variable among the signature tuples.
	for _, obj := range s.info.Defs {
		f, ok := obj.(*types.Func)
		if !ok {
			continue
		}
		sig := f.Type().(*types.Signature)
		for i := 0; i < sig.Params().Len(); i++ {
			if sig.Params().At(i) == v {
				return true
			}
		}
	}
	return false
}

// armText names the select arm: `recv:<chan>`, `send:<chan>`, `default`.
func (s *ownScan) armText(comm ast.Stmt, c walkCtx) string {
	recv := func(e ast.Expr) (string, bool) {
		u, ok := unparen(e).(*ast.UnaryExpr)
		if !ok || u.Op != token.ARROW {
			return "", false
		}
		return "recv:" + s.chanName(u.X, c, 0), true
	}
	switch x := comm.(type) {
	case nil:
		return "default"
	case *ast.SendStmt:
		return "send:" + s.chanName(x.Chan, c, 0)
	case *ast.ExprStmt:
		if t, ok := recv(x.X); ok {
			return t
		}
	case *ast.AssignStmt:
		if len(x.Rhs) == 1 {
			if t, ok := recv(x.Rhs[0]); ok {
				return t
			}
		}
	}
	return "unknown: " + s.r.text(comm)
}

// chanName names a channel independently of the names of locals: a struct
// field as `Struct.field` (`time.Ticker.C`), a call by its callee, a local
// that is only ever assigned one field (or nil) as that field.
func (s *ownScan) chanName(e ast.Expr, c walkCtx, depth int) string {
	switch x := unparen(e).(type) {
	case *ast.SelectorExpr:
		if sl := s.info.Selections[x]; sl != nil && sl.Kind() == types.FieldVal {
			if strct, field, ok := s.fieldOf(x); ok {
				return strct + "." + field
			}
			if obj := typeObj(sl.Recv()); obj != nil {
				q := obj.Name()
				if obj.Pkg() != nil && obj.Pkg() != s.pkg {
					q = obj.Pkg().Name() + "." + q
				}
				return q + "." + sl.Obj().Name()
			}
		}
	case *ast.CallExpr:
		if f := s.staticCallee(x); f != nil {
			return "call:" + f.FullName()
		}
	case *ast.Ident:
		obj := s.info.Uses[x]
		if obj == nil {
			obj = s.info.Defs[x]
		}
		if v, ok := obj.(*types.Var); ok && depth < 3 && c.decl != nil {
			var srcs []string
			add := func(rhs ast.Expr) {
				if id, ok := unparen(rhs).(*ast.Ident); ok && id.Name == "nil" {
					return
				}
				srcs = append(srcs, s.chanName(rhs, c, depth+1))
			}
			ast.Inspect(c.decl, func(n ast.Node) bool {
				switch a := n.(type) {
				case *ast.AssignStmt:
					if len(a.Lhs) == len(a.Rhs) {
						for i, l := range a.Lhs {
							if id, ok := unparen(l).(*ast.Ident); ok && (s.info.Uses[id] == v || s.info.Defs[id] == v) {
								add(a.Rhs[i])
							}
						}
					}
				case *ast.ValueSpec:
					if len(a.Names) == len(a.Values) {
						for i, id := range a.Names {
							if s.info.Defs[id] == v {
								add(a.Values[i])
							}
						}
					}
				}
				return true
			})
			srcs = uniq(sortedStrings(srcs))
			if len(srcs) == 1 && !strings.HasPrefix(srcs[0], "local:") && !strings.HasPrefix(srcs[0], "expr:") {
				return srcs[0]
			}
			return "local:" + x.Name
		}
	}
	return "expr:" + s.r.text(e)
}

func (s *ownScan) computeThreads() {
	type root struct{ thread, start string }
	var roots []root
	for name := range s.exported {
		roots = append(roots, root{"caller", name})
	}
	if s.ctxs["init"] {
		roots = append(roots, root{"init", "init"})
	}
	for name := range s.goRoots {
		roots = append(roots, root{name, name})
	}
	th := map[string]map[string]bool{}
	for _, rt := range roots {
		seen := map[string]bool{}
		todo := []string{rt.start}
		for len(todo) > 0 {
			x := todo[len(todo)-1]
			todo = todo[:len(todo)-1]
			if seen[x] {
				continue
			}
			seen[x] = true
			if th[x] == nil {
				th[x] = map[string]bool{}
			}
			th[x][rt.thread] = true
			for y := range s.calls[x] {
				todo = append(todo, y)
			}
		}
	}
	for name := range s.ctxs {
		var l []string
		for t := range th[name] {
			l = append(l, t)
		}
		l = append(l, s.unknownTh[name]...)
		s.out.fnThreads[name] = uniq(sortedStrings(l))
	}
	// a context reached by nothing keeps the empty list: dead code, or reached in a way
	// the call graph does not see; obligations treat the empty list as unknown.

	// where the emitter is called, by thread
	var em []string
	for _, m := range s.out.emitterAdapter {
		if strings.HasPrefix(m, "emitIn:") {
			em = append(em, "emitOn:"+strings.Join(s.out.fnThreads[strings.TrimPrefix(m, "emitIn:")], ","))
		} else {
			em = append(em, m)
		}
	}
	s.out.emitterAdapter = em
}

// scanTickers: every creation of a ticker / timer in the package and the `if`
// conditions it lies under.
func (s *ownScan) scanTickers(files []*srcFile) {
	found := 0
	for _, sf := range files {
		if isVerifFile(sf.rel) {
			continue
		}
		var stack []ast.Node
		ast.Inspect(sf.ast, func(n ast.Node) bool {
			if n == nil {
				stack = stack[:len(stack)-1]
				return true
			}
			stack = append(stack, n)
			call, ok := n.(*ast.CallExpr)
			if !ok {
				return true
			}
			f := s.staticCallee(call)
			if f == nil || f.Pkg() == nil || f.Pkg().Path() != "time" {
				return true
			}
			switch f.Name() {
			case "NewTicker", "Tick", "NewTimer", "After", "AfterFunc":
			default:
				return true
			}
			found++
			// enclosing if statements whose BODY contains the call
			var conds []string
			emitterGuard := false
			for i := len(stack) - 2; i >= 0; i-- {
				is, ok := stack[i].(*ast.IfStmt)
				if !ok {
					if _, isFn := stack[i].(*ast.FuncDecl); isFn {
						break
					}
					continue
				}
				if s.isVerifOn(is.Cond) {
					return true
				}
				if stack[i+1] != ast.Node(is.Body) {
					conds = append(conds, "else of "+s.r.text(is.Cond))
					continue
				}
				conds = append(conds, s.r.text(is.Cond))
				if s.isEmitterNonNil(is.Cond) {
					emitterGuard = true
				}
			}
			if emitterGuard {
				s.out.emitterAdapter = append(s.out.emitterAdapter, "tickerOnlyIfEmitter", "tickerCond:"+strings.Join(conds, " && "))
			} else {
				s.out.emitterAdapter = append(s.out.emitterAdapter, "unknown: "+f.FullName()+" under ["+strings.Join(conds, " && ")+"] is not guarded by a non-nil emitter")
			}
			return true
		})
	}
	if found == 0 {
		s.out.emitterAdapter = append(s.out.emitterAdapter, "noTicker")
	}
}

// isEmitterNonNil: `x != nil` (possibly a conjunct of &&) with x of the
// package's interface type Emitter.
func (s *ownScan) isEmitterNonNil(e ast.Expr) bool {
	switch x := unparen(e).(type) {
	case *ast.BinaryExpr:
		switch x.Op {
		case token.LAND:
			return s.isEmitterNonNil(x.X) || s.isEmitterNonNil(x.Y)
		case token.NEQ:
			a, b := unparen(x.X), unparen(x.Y)
			if id, ok := a.(*ast.Ident); ok && id.Name == "nil" {
				a, b = b, a
			}
			if id, ok := b.(*ast.Ident); !ok || id.Name != "nil" {
				return false
			}
			tv, ok := s.info.Types[a]
			if !ok {
				return false
			}
			obj := typeObj(tv.Type)
			if obj == nil || obj.Pkg() != s.pkg || obj.Name() != "Emitter" {
				return false
			}
			_, isIface := tv.Type.Underlying().(*types.Interface)
			return isIface
		}
	}
	return false
}

// ---------------------------------------------------------------------------
// root package: scheduler.go (emitter adapter), go statements
// ---------------------------------------------------------------------------

func (r *repo) scanRootSchedulerFile(o *ownFacts) {
	// go statements of the root package (syntactic; the runtime half of the
	// library apart from package scheduler)
	for _, rel := range r.goFiles(".") {
		sf, err := r.parseGo(rel)
		if err != nil {
			o.goroutineRoots = append(o.goroutineRoots, pair{"unknown: parse " + rel + ": " + oneLine(err.Error()), ""})
			continue
		}
		ast.Inspect(sf.ast, func(n ast.Node) bool {
			if g, ok := n.(*ast.GoStmt); ok {
				started := "dynamic: " + r.text(g.Call.Fun)
				if _, isLit := g.Call.Fun.(*ast.FuncLit); isLit {
					started = "func literal"
				}
				o.goroutineRoots = append(o.goroutineRoots, pair{"cff/" + enclosing(sf.ast, g.Pos()), started})
			}
			return true
		})
	}

	sf, err := r.parseGo(ownRootSched)
	if err != nil {
		o.emitterAdapter = append(o.emitterAdapter, "unknown: parse "+ownRootSched+": "+oneLine(err.Error()))
		return
	}
	// the adapter: the function of the file returning scheduler.Emitter
	var adapters []*ast.FuncDecl
	for _, d := range sf.ast.Decls {
		fd, ok := d.(*ast.FuncDecl)
		if !ok || fd.Body == nil || fd.Recv != nil || fd.Type.Results == nil || len(fd.Type.Results.List) != 1 {
			continue
		}
		if r.text(fd.Type.Results.List[0].Type) == "scheduler.Emitter" {
			adapters = append(adapters, fd)
		}
	}
	if len(adapters) != 1 {
		o.emitterAdapter = append(o.emitterAdapter, fmt.Sprintf("unknown: %d functions of %s return scheduler.Emitter", len(adapters), ownRootSched))
		return
	}
	ad := adapters[0]
	param := ""
	if ps := ad.Type.Params.List; len(ps) == 1 && len(ps[0].Names) == 1 {
		param = ps[0].Names[0].Name
	}
	if param == "" {
		o.emitterAdapter = append(o.emitterAdapter, "unknown: adapter signature "+r.text(ad.Type))
		return
	}
	o.emitterAdapter = append(o.emitterAdapter, adapterMarkers(r, ad, param)...)

	// the scheduler is configured with the adapted emitter
	adapted := 0
	ast.Inspect(sf.ast, func(n ast.Node) bool {
		cl, ok := n.(*ast.CompositeLit)
		if !ok || cl.Type == nil || r.text(cl.Type) != "scheduler.Config" {
			return true
		}
		for _, el := range cl.Elts {
			kv, ok := el.(*ast.KeyValueExpr)
			if !ok || r.text(kv.Key) != "Emitter" {
				continue
			}
			if c, ok := kv.Value.(*ast.CallExpr); ok {
				if id, ok := c.Fun.(*ast.Ident); ok && id.Name == ad.Name.Name {
					adapted++
					continue
				}
			}
			o.emitterAdapter = append(o.emitterAdapter, "unknown: scheduler.Config.Emitter is "+r.text(kv.Value))
		}
		return true
	})
	if adapted > 0 {
		o.emitterAdapter = append(o.emitterAdapter, "configEmitterAdapted")
	}
}

func isReturnNil(body []ast.Stmt) bool {
	if len(body) != 1 {
		return false
	}
	rs, ok := body[0].(*ast.ReturnStmt)
	if !ok || len(rs.Results) != 1 {
		return false
	}
	id, ok := rs.Results[0].(*ast.Ident)
	return ok && id.Name == "nil"
}

// adapterMarkers reads the leading statements of the adapter: `if` statements
// and type switches over the parameter whose branch is `return nil`.
func adapterMarkers(r *repo, ad *ast.FuncDecl, param string) []string {
	var out []string
	typeMarker := func(t ast.Expr) string {
		switch r.text(t) {
		case "nil":
			return "nilForNil"
		case "*nopEmitter":
			return "nilForNop"
		}
		return "nilFor:" + r.text(t)
	}
	isParam := func(e ast.Expr) bool {
		id, ok := unparen(e).(*ast.Ident)
		return ok && id.Name == param
	}
	var disjuncts func(e ast.Expr) []ast.Expr
	disjuncts = func(e ast.Expr) []ast.Expr {
		if b, ok := unparen(e).(*ast.BinaryExpr); ok && b.Op == token.LOR {
			return append(disjuncts(b.X), disjuncts(b.Y)...)
		}
		return []ast.Expr{unparen(e)}
	}
	for _, st := range ad.Body.List {
		switch x := st.(type) {
		case *ast.IfStmt:
			if !isReturnNil(x.Body.List) || x.Else != nil {
				out = append(out, "unknown: "+r.text(x.Cond))
				continue
			}
			// `_, ok := e.(*T)` in the init statement
			okVar, okType := "", ast.Expr(nil)
			if as, ok := x.Init.(*ast.AssignStmt); ok && len(as.Lhs) == 2 && len(as.Rhs) == 1 {
				if ta, ok := as.Rhs[0].(*ast.TypeAssertExpr); ok && isParam(ta.X) && ta.Type != nil {
					if id, ok := as.Lhs[1].(*ast.Ident); ok {
						okVar, okType = id.Name, ta.Type
					}
				}
			} else if x.Init != nil {
				out = append(out, "unknown: "+r.text(x.Init))
			}
			for _, d := range disjuncts(x.Cond) {
				if b, ok := d.(*ast.BinaryExpr); ok && b.Op == token.EQL {
					if (isParam(b.X) && r.text(b.Y) == "nil") || (isParam(b.Y) && r.text(b.X) == "nil") {
						out = append(out, "nilForNil")
						continue
					}
				}
				if id, ok := d.(*ast.Ident); ok && okVar != "" && id.Name == okVar {
					out = append(out, typeMarker(okType))
					continue
				}
				out = append(out, "nilFor:"+r.text(d))
			}
		case *ast.TypeSwitchStmt:
			var subject ast.Expr
			switch a := x.Assign.(type) {
			case *ast.ExprStmt:
				if ta, ok := a.X.(*ast.TypeAssertExpr); ok {
					subject = ta.X
				}
			case *ast.AssignStmt:
				if len(a.Rhs) == 1 {
					if ta, ok := a.Rhs[0].(*ast.TypeAssertExpr); ok {
						subject = ta.X
					}
				}
			}
			if subject == nil || !isParam(subject) || x.Init != nil {
				out = append(out, "unknown: "+r.text(x.Assign))
				continue
			}
			for _, cl := range x.Body.List {
				cc := cl.(*ast.CaseClause)
				if !isReturnNil(cc.Body) {
					continue
				}
				if cc.List == nil {
					out = append(out, "nilFor:default")
				}
				for _, t := range cc.List {
					out = append(out, typeMarker(t))
				}
			}
		case *ast.ReturnStmt:
			if isReturnNil([]ast.Stmt{x}) {
				out = append(out, "nilFor:everything")
			}
		default:
			out = append(out, "unknown: "+r.text(st))
		}
	}
	return out
}

// ---------------------------------------------------------------------------
// rendering
// ---------------------------------------------------------------------------

func renderOwnership(b *strings.Builder, o *ownFacts) {
	var items []string
	for _, a := range o.fieldAccesses {
		items = append(items, fmt.Sprintf("{ struct := %s, field := %s, kind := %s, fn := %s, arm := %s, detail := %s }",
			leanStr(a.strct), leanStr(a.field), leanStr(a.kind), leanStr(a.fn), leanStr(a.arm), leanStr(a.detail)))
	}
	b.WriteString("/-- Reads, writes, initialisations and escapes of the fields of the structs of package\n    scheduler (see `FieldAccess`); verification hooks treated as absent. -/\n")
	writeList(b, "fieldAccesses", "FieldAccess", uniq(sortedStrings(items)))

	b.WriteString("/-- (struct, field, type) of the structs of package scheduler. -/\n")
	writeList(b, "fieldTypes", "(String × String × String)", uniq(triples(o.fieldTypes)))

	b.WriteString("/-- (struct, field, value) of the composite literals of those structs. -/\n")
	writeList(b, "structInits", "(String × String × String)", uniq(triples(o.structInits)))

	b.WriteString("/-- Integer-typed local variables of package scheduler: (context, name, type). -/\n")
	writeList(b, "loopCounterTypes", "(String × String × String)", uniq(triples(o.loopCounterTypes)))

	b.WriteString("/-- `go` statements of package scheduler and of the root package (`cff/<function>`):\n    (context of the statement, context started). -/\n")
	writeList(b, "goroutineRoots", "(String × String)", pairs(o.goroutineRoots))

	items = nil
	var names []string
	for n := range o.fnThreads {
		names = append(names, n)
	}
	sort.Strings(names)
	for _, n := range names {
		var q []string
		for _, t := range o.fnThreads[n] {
			q = append(q, leanStr(t))
		}
		items = append(items, "("+leanStr(n)+", ["+strings.Join(q, ", ")+"])")
	}
	b.WriteString("/-- The threads (kinds of goroutine, named after their root) every function context of\n    package scheduler may run on. -/\n")
	writeList(b, "fnThreads", "(String × List String)", items)

	var q []string
	for _, m := range uniq(sortedStrings(o.emitterAdapter)) {
		q = append(q, leanStr(m))
	}
	b.WriteString("/-- Markers about the scheduler's emitter: the adapter of the root package, the ticker,\n    the thread calling `Emit`. -/\n")
	writeList(b, "emitterAdapter", "String", q)
}
