// Structural facts about the Go text inside cff's templates.
//
// Safety mechanisms of the generated code that exist only as template text
// (a recover in every job closure, no return between NewScheduler and Wait,
// the predicate gate before the user call, ...) are extracted here so that the
// Lean obligations of CffVerif/Tie/Facts.lean fail when an edit removes one.
//
// Method. Each template tree (the file's own template and every {{define}}) is
// FLATTENED: text nodes verbatim, in document order; every printing action is
// replaced by a placeholder identifier (_A<n>_), every {{template}} include by
// _T<n>_; both branches of {{if}}/{{with}}/{{range}} are present, each byte
// remembering the stack of template branches ("guards") it lies under. The
// flattened text is tokenised with go/scanner and examined with a small
// bracket-aware scanner; it is never parsed as a Go file. Whatever is not
// recognised becomes an `unknown: ...` entry (tmplStructUnknown, or a mark
// whose name starts with `unknown`).
//
// Equivalent spellings: a {{define}} whose text contains a func literal, a
// `defer`, a `go` or a `recover()` is EXPANDED where it is included (tdef), so a
// mechanism factored into a shared define is seen in every closure using it, and
// such a define is not reported a second time on its own.  The two branches of an
// {{if}}..{{else}} are alternatives: the token after the first is the one after
// the second (succ / pred), and a mark present in both is present (mergeComplementary).
// A loop-variable copy may be spelled `x := x` or pairwise `x, y := x, y`.
package main

import (
	"fmt"
	"go/scanner"
	"go/token"
	"os"
	"path/filepath"
	"regexp"
	"sort"
	"strconv"
	"strings"
	"text/template/parse"
)

// ---------------------------------------------------------------------------
// Fact records
// ---------------------------------------------------------------------------

// tmplFn is one func literal found in the flattened text of a template.
type tmplFn struct {
	file        string
	index       int
	depth       int
	parent      int // index of the enclosing literal, -1 for none
	guards      []string
	isDeferred  bool
	hasRecover  bool
	isJobBody   bool
	conditional bool
}

// mark is an occurrence of a recognised construct, with the template
// branches it lies under (relative to the construct it is reported for).
type mark struct {
	guards []string
	name   string
}

type markList struct {
	file  string
	index int // literal index (taskBodyOrder), unused otherwise
	marks []mark
}

type structFacts struct {
	funcLits       []tmplFn
	topReturns     []pair
	rootOrder      []markList
	taskBodyOrder  []markList
	loopVarCopies  []markList
	loopVarUses    []markList
	endJobDeps     []pair
	elemJobCollect []pair
	waitStmts      []pair
	unknown        []pair
}

// ---------------------------------------------------------------------------
// Flattening
// ---------------------------------------------------------------------------

type tseg struct {
	start  int // offset in the flattened text
	text   string
	src    int    // offset in the template source (text nodes), -1 for placeholders
	srcOf  string // the template source `src` points into (an inlined {{define}} may live in another file)
	guards []string
	node   parse.Node
}

// tdef is one template tree of a template set, before flattening.
type tdef struct {
	file, dir, name string // display name of the file, set directory, template name
	isDefine        bool   // a {{define}}, not the template of a file
	tree            *parse.Tree
	src             string
	// structural: the define's own text contains a func literal, a `defer`, a `go`
	// or a `recover()`, directly or through a define it includes.  Such a define is
	// EXPANDED IN PLACE wherever it is included, so that a mechanism (the recover
	// defer of a job closure, ...) is seen in the closure it protects whether it is
	// spelled there or factored into a shared define.
	structural bool
	used       bool // expanded at least once
	includes   []string
}

type tdefSet map[string]map[string]*tdef // dir -> template name -> tree

func (s tdefSet) resolve(dir, name string) *tdef {
	if t := s[dir][name]; t != nil {
		return t
	}
	if dir != "modifier" {
		return s["shared"][name]
	}
	return nil
}

type tbranch struct {
	guard      string
	start, end int // byte range in the flattened text
}

// altPair: the two alternatives of one {{if}} / {{with}} / {{range}} ... {{else}},
// as byte ranges of the flattened text [thenStart, elseStart) and [elseStart,
// elseEnd).  Both are present in the flattened text, one after the other; in
// any real output at most one is, so the token FOLLOWING the first alternative
// is the one after the second, and the token PRECEDING the second is the one
// before the first (see succ / pred).
type altPair struct{ thenStart, elseStart, elseEnd int }

type ttok struct {
	off    int
	tok    token.Token
	lit    string
	guards []string
	auto   bool // automatically inserted semicolon
}

type tlit struct {
	index          int
	funcTok        int
	lparen, rparen int // parameter list
	resLo, resHi   int // result tokens [resLo, resHi)
	lbrace, rbrace int
	parent         int
	depth          int
	isDeferred     bool
	hasRecover     bool
	isJobBody      bool
	recoverGuards  []string
}

type flatTree struct {
	file string // display name: path relative to internal/templates (modifier/... for modifier mode), plus {define}
	dir  string // template set directory, used to resolve includes
	name string // template name
	src  string

	def    *tdef   // the tree this was flattened from
	defs   tdefSet // when set, structural defines are expanded in place
	curSrc string  // source of the tree being walked (changes inside an expanded define)
	inl    []string

	flat     []byte
	segs     []tseg
	segOf    []int32
	branches []tbranch
	alts     []altPair
	altToks  [][4]int // per altPair: first/last token of the first alternative, first/last of the second (-1: none)
	ph       map[string]parse.Node
	nph      int

	toks   []ttok
	match  []int // matching bracket, -1
	lits   []*tlit
	fnOf   []int // innermost literal whose body contains the token, -1
	base   []string
	broken bool

	unknown []string
}

func (ft *flatTree) unk(format string, args ...any) {
	ft.unknown = append(ft.unknown, "unknown: "+oneLine(fmt.Sprintf(format, args...)))
}

func (ft *flatTree) emit(text string, src int, guards []string, node parse.Node) {
	if text == "" {
		return
	}
	ft.segs = append(ft.segs, tseg{start: len(ft.flat), text: text, src: src, srcOf: ft.curSrc, guards: guards, node: node})
	idx := int32(len(ft.segs) - 1)
	ft.flat = append(ft.flat, text...)
	for k := 0; k < len(text); k++ {
		ft.segOf = append(ft.segOf, idx)
	}
}

func (ft *flatTree) placeholder(prefix string, guards []string, node parse.Node) {
	name := fmt.Sprintf("_%s%d_", prefix, ft.nph)
	ft.nph++
	ft.ph[name] = node
	ft.emit(name, -1, guards, node)
}

func with(guards []string, g string) []string {
	out := make([]string, 0, len(guards)+1)
	out = append(out, guards...)
	return append(out, g)
}

func (ft *flatTree) branch(guards []string, g string, l *parse.ListNode) {
	if l == nil {
		return
	}
	start := len(ft.flat)
	ft.walk(l, with(guards, g))
	ft.branches = append(ft.branches, tbranch{guard: strings.Join(with(guards, g), "; "), start: start, end: len(ft.flat)})
}

// alternatives flattens both branches of a conditional.  When both exist, a
// space keeps the last token of the first from running into the first token of
// the second (`{{if a -}} x := x {{- else -}} y := y {{- end}}` is never `x := xy
// := y` in any output), and the pair is recorded.
func (ft *flatTree) alternatives(guards []string, g1 string, l1 *parse.ListNode, g2 string, l2 *parse.ListNode) {
	thenStart := len(ft.flat)
	ft.branch(guards, g1, l1)
	if l1 == nil || l2 == nil {
		ft.branch(guards, g2, l2)
		return
	}
	ft.emit(" ", -1, guards, nil)
	elseStart := len(ft.flat)
	ft.branch(guards, g2, l2)
	ft.alts = append(ft.alts, altPair{thenStart: thenStart, elseStart: elseStart, elseEnd: len(ft.flat)})
}

func pipeText(p *parse.PipeNode) string {
	if p == nil {
		return ""
	}
	return oneLine(p.String())
}

func (ft *flatTree) walk(n parse.Node, guards []string) {
	switch x := n.(type) {
	case nil:
	case *parse.ListNode:
		if x == nil {
			return
		}
		for _, c := range x.Nodes {
			ft.walk(c, guards)
		}
	case *parse.TextNode:
		pos := int(x.Pos)
		if pos < 0 || pos+len(x.Text) > len(ft.curSrc) || ft.curSrc[pos:pos+len(x.Text)] != string(x.Text) {
			ft.unk("text node at offset %d does not match the template source", pos)
			pos = -1
		}
		ft.emit(string(x.Text), pos, guards, nil)
	case *parse.ActionNode:
		if len(x.Pipe.Decl) > 0 {
			return // {{ $x := ... }} prints nothing
		}
		ft.placeholder("A", guards, x)
	case *parse.TemplateNode:
		if d := ft.expandable(x.Name); d != nil {
			// a structural define: its text stands here (see tdef.structural)
			d.used = true
			saved := ft.curSrc
			ft.curSrc = d.src
			ft.inl = append(ft.inl, x.Name)
			ft.walk(d.tree.Root, guards)
			ft.inl = ft.inl[:len(ft.inl)-1]
			ft.curSrc = saved
			return
		}
		ft.placeholder("T", guards, x)
	case *parse.IfNode:
		p := pipeText(x.Pipe)
		ft.alternatives(guards, "if "+p, x.List, "unless "+p, x.ElseList)
	case *parse.WithNode:
		p := pipeText(x.Pipe)
		ft.alternatives(guards, "with "+p, x.List, "without "+p, x.ElseList)
	case *parse.RangeNode:
		p := pipeText(x.Pipe)
		ft.alternatives(guards, "range "+p, x.List, "norange "+p, x.ElseList)
	case *parse.CommentNode:
	default:
		// {{break}}, {{continue}} and anything newer change what is emitted
		ft.unk("template node %T not handled: %s", n, n.String())
	}
}

// expandable: the define an include of `name` is replaced by, nil when the
// include stays a placeholder (not a define, not structural, not resolved, or
// already being expanded: recursion).
func (ft *flatTree) expandable(name string) *tdef {
	if ft.defs == nil {
		return nil
	}
	d := ft.defs.resolve(ft.dir, name)
	if d == nil || !d.isDefine || !d.structural || d.tree == nil || d.tree.Root == nil || len(ft.inl) >= 8 {
		return nil
	}
	for _, n := range ft.inl {
		if n == name {
			return nil
		}
	}
	if ft.def == d {
		return nil
	}
	return d
}

var rePlaceholder = regexp.MustCompile(`_[AT][0-9]+_`)

// srcText renders a token the way it is spelled in the template source:
// placeholders are replaced by the action they stand for.
func (ft *flatTree) srcText(t ttok) string {
	s := t.lit
	if s == "" {
		s = t.tok.String()
	}
	return rePlaceholder.ReplaceAllStringFunc(s, func(p string) string {
		if n, ok := ft.ph[p]; ok {
			return oneLine(n.String())
		}
		return p
	})
}

// render prints a token range: tokens separated by one space, except
// around brackets, dots and before separators.
func (ft *flatTree) render(lo, hi int) string {
	var b strings.Builder
	var prev token.Token
	first := true
	for i := lo; i < hi && i < len(ft.toks); i++ {
		t := ft.toks[i]
		if t.auto {
			continue
		}
		space := !first
		switch t.tok {
		case token.RPAREN, token.RBRACK, token.COMMA, token.SEMICOLON, token.PERIOD, token.LBRACK:
			space = false
		case token.LPAREN:
			space = prev.IsKeyword() && prev != token.FUNC
		}
		switch prev {
		case token.LPAREN, token.LBRACK, token.PERIOD, token.NOT:
			space = false
		case token.MUL, token.AND:
			if i-2 < lo || !(ft.toks[i-2].tok == token.IDENT || ft.toks[i-2].tok == token.RPAREN || ft.toks[i-2].tok.IsLiteral()) {
				space = false // unary
			}
		}
		if space {
			b.WriteByte(' ')
		}
		b.WriteString(ft.srcText(t))
		prev = t.tok
		first = false
	}
	return b.String()
}

func clip(s string) string {
	if len(s) > 160 {
		return s[:160] + "..."
	}
	return s
}

// renderGuarded prints a token range, prefixing every run of tokens lying
// under the same (relative) guards with `[g1; g2] `.
func (ft *flatTree) renderGuarded(lo, hi int, base []string) string {
	var parts []string
	i := lo
	for i < hi {
		g := strings.Join(relGuards(ft.toks[i].guards, base), "; ")
		j := i
		for j < hi && strings.Join(relGuards(ft.toks[j].guards, base), "; ") == g {
			j++
		}
		txt := ft.render(i, j)
		if txt != "" {
			if g != "" {
				txt = "[" + g + "] " + txt
			}
			parts = append(parts, txt)
		}
		i = j
	}
	return strings.Join(parts, " ")
}

func relGuards(g, base []string) []string {
	if len(g) >= len(base) {
		ok := true
		for i := range base {
			if g[i] != base[i] {
				ok = false
				break
			}
		}
		if ok {
			return append([]string{}, g[len(base):]...)
		}
	}
	return append([]string{"outside " + strings.Join(base, "; ")}, g...)
}

// ---------------------------------------------------------------------------
// Tokens, brackets, func literals
// ---------------------------------------------------------------------------

func (ft *flatTree) tokenize() {
	fset := token.NewFileSet()
	f := fset.AddFile(ft.file, -1, len(ft.flat))
	var s scanner.Scanner
	s.Init(f, ft.flat, func(pos token.Position, msg string) {
		ft.unk("go/scanner on the flattened text: %s (near %q)", msg, ft.near(pos.Offset))
		ft.broken = true
	}, 0)
	for {
		pos, tok, lit := s.Scan()
		if tok == token.EOF {
			break
		}
		off := f.Offset(pos)
		ft.toks = append(ft.toks, ttok{off: off, tok: tok, lit: lit, guards: ft.guardsAt(off), auto: tok == token.SEMICOLON && lit != ";"})
	}
	// tokens of the alternatives
	for _, a := range ft.alts {
		r := [4]int{-1, -1, -1, -1}
		for i, t := range ft.toks {
			switch {
			case t.off >= a.thenStart && t.off < a.elseStart:
				if r[0] < 0 {
					r[0] = i
				}
				r[1] = i
			case t.off >= a.elseStart && t.off < a.elseEnd:
				if r[2] < 0 {
					r[2] = i
				}
				r[3] = i
			}
		}
		ft.altToks = append(ft.altToks, r)
	}
	// brackets
	ft.match = make([]int, len(ft.toks))
	for i := range ft.match {
		ft.match[i] = -1
	}
	var stack []int
	closes := map[token.Token]token.Token{token.RPAREN: token.LPAREN, token.RBRACE: token.LBRACE, token.RBRACK: token.LBRACK}
	for i, t := range ft.toks {
		switch t.tok {
		case token.LPAREN, token.LBRACE, token.LBRACK:
			stack = append(stack, i)
		case token.RPAREN, token.RBRACE, token.RBRACK:
			if len(stack) == 0 || ft.toks[stack[len(stack)-1]].tok != closes[t.tok] {
				ft.unk("unbalanced %q in the flattened text (near %q)", t.tok.String(), ft.near(t.off))
				ft.broken = true
				return
			}
			o := stack[len(stack)-1]
			stack = stack[:len(stack)-1]
			ft.match[o], ft.match[i] = i, o
		}
	}
	if len(stack) > 0 {
		t := ft.toks[stack[len(stack)-1]]
		ft.unk("unclosed %q in the flattened text (near %q)", t.tok.String(), ft.near(t.off))
		ft.broken = true
		return
	}
	// every template branch must be balanced in braces on its own: otherwise
	// "both branches present" misrepresents the nesting of func literals
	for _, br := range ft.branches {
		depth := 0
		for _, t := range ft.toks {
			if t.off < br.start || t.off >= br.end {
				continue
			}
			switch t.tok {
			case token.LBRACE:
				depth++
			case token.RBRACE:
				depth--
			}
			if depth < 0 {
				break
			}
		}
		if depth != 0 {
			ft.unk("template branch [%s] is not balanced in braces", br.guard)
			ft.broken = true
		}
	}
}

func (ft *flatTree) guardsAt(off int) []string {
	if len(ft.segOf) == 0 {
		return nil
	}
	if off >= len(ft.segOf) {
		off = len(ft.segOf) - 1
	}
	return ft.segs[ft.segOf[off]].guards
}

type phOcc struct {
	node   parse.Node
	guards []string
}

// placeholders lists the placeholders glued into token t, each with the
// guards of its own position (a token may span several template branches).
func (ft *flatTree) placeholders(t ttok) []phOcc {
	var out []phOcc
	for _, loc := range rePlaceholder.FindAllStringIndex(t.lit, -1) {
		if n, ok := ft.ph[t.lit[loc[0]:loc[1]]]; ok {
			out = append(out, phOcc{node: n, guards: ft.guardsAt(t.off + loc[0])})
		}
	}
	return out
}

func (ft *flatTree) near(off int) string {
	lo, hi := off-20, off+30
	if lo < 0 {
		lo = 0
	}
	if hi > len(ft.flat) {
		hi = len(ft.flat)
	}
	if lo > hi {
		lo = hi
	}
	return oneLine(rePlaceholder.ReplaceAllStringFunc(string(ft.flat[lo:hi]), func(p string) string {
		if n, ok := ft.ph[p]; ok {
			return oneLine(n.String())
		}
		return p
	}))
}

func (ft *flatTree) is(i int, tok token.Token) bool {
	return i >= 0 && i < len(ft.toks) && ft.toks[i].tok == tok
}

func (ft *flatTree) isIdent(i int, name string) bool {
	return ft.is(i, token.IDENT) && ft.toks[i].lit == name
}

// succ is the token that follows token i in an output: leaving the first
// alternative of a conditional skips the second.
func (ft *flatTree) succ(i int) int {
	j := i + 1
	for again := true; again; {
		again = false
		for _, r := range ft.altToks {
			if r[0] >= 0 && r[2] >= 0 && r[0] <= i && i <= r[1] && j == r[2] {
				j, again = r[3]+1, true
			}
		}
	}
	return j
}

// pred is the token that precedes token i in an output: entering the second
// alternative of a conditional skips the first.
func (ft *flatTree) pred(i int) int {
	j := i - 1
	for again := true; again; {
		again = false
		for _, r := range ft.altToks {
			if r[0] >= 0 && r[2] >= 0 && r[2] <= i && i <= r[3] && j == r[1] {
				j, again = r[0]-1, true
			}
		}
	}
	return j
}

// next / prev skip automatically inserted semicolons.
func (ft *flatTree) next(i int) int {
	i++
	for i < len(ft.toks) && ft.toks[i].auto {
		i++
	}
	return i
}

// skipType returns the index after the type starting at token j. `func`
// keywords met on the way are func TYPES; they are recorded in isType so
// that they are not taken for literals.
func (ft *flatTree) skipType(j int, isType map[int]bool) int {
	n := len(ft.toks)
	for j < n {
		switch ft.toks[j].tok {
		case token.IDENT, token.PERIOD, token.MUL, token.INT, token.MAP, token.CHAN, token.ARROW, token.ELLIPSIS:
			j++
		case token.LBRACK:
			j = ft.match[j] + 1
		case token.LPAREN: // parenthesised result list
			return ft.match[j] + 1
		case token.FUNC:
			isType[j] = true
			if !ft.is(j+1, token.LPAREN) {
				return j + 1
			}
			return ft.skipType(ft.match[j+1]+1, isType)
		case token.INTERFACE, token.STRUCT:
			if ft.is(j+1, token.LBRACE) {
				j = ft.match[j+1] + 1
			} else {
				j++
			}
		default:
			return j
		}
	}
	return j
}

func (ft *flatTree) findLits() {
	n := len(ft.toks)
	isType := map[int]bool{}
	for i := 0; i < n; i++ {
		if ft.toks[i].tok != token.FUNC || isType[i] {
			continue
		}
		lp := i + 1
		decl := false
		switch {
		case ft.is(i+1, token.IDENT) && ft.is(i+2, token.LPAREN):
			decl, lp = true, i+2 // function declaration
		case ft.is(i+1, token.LPAREN) && ft.is(ft.match[i+1]+1, token.IDENT) && ft.is(ft.match[i+1]+2, token.LPAREN) && !ft.is(i-1, token.DEFER):
			decl, lp = true, ft.match[i+1]+2 // method declaration
		case !ft.is(i+1, token.LPAREN):
			ft.unk("`func` not followed by a parameter list (near %q)", ft.near(ft.toks[i].off))
			continue
		}
		rp := ft.match[lp]
		// func types among the parameters
		for k := lp + 1; k < rp; k++ {
			if ft.toks[k].tok == token.FUNC && !isType[k] {
				ft.skipType(k, isType)
			}
		}
		resLo := rp + 1
		j := ft.skipType(resLo, isType)
		if decl {
			continue // the body of a declaration is not a literal
		}
		if !ft.is(j, token.LBRACE) {
			continue // a func type
		}
		l := &tlit{index: len(ft.lits), funcTok: i, lparen: lp, rparen: rp, resLo: resLo, resHi: j, lbrace: j, rbrace: ft.match[j], parent: -1}
		ft.lits = append(ft.lits, l)
	}
	// nesting
	ft.fnOf = make([]int, n)
	for i := range ft.fnOf {
		ft.fnOf[i] = -1
	}
	for _, l := range ft.lits { // in order of their func token: inner literals come later
		for k := l.lbrace + 1; k < l.rbrace; k++ {
			ft.fnOf[k] = l.index
		}
	}
	for _, l := range ft.lits {
		l.parent = ft.fnOf[l.funcTok]
		if l.parent >= 0 {
			l.depth = ft.lits[l.parent].depth + 1
		}
		l.isDeferred = ft.is(l.funcTok-1, token.DEFER) && ft.is(l.rbrace+1, token.LPAREN) && ft.is(l.rbrace+2, token.RPAREN)
		// recover() at the literal's own level
		for k := l.lbrace + 1; k < l.rbrace; k++ {
			if ft.fnOf[k] == l.index && ft.isIdent(k, "recover") && ft.is(k+1, token.LPAREN) && ft.is(k+2, token.RPAREN) && !ft.is(k-1, token.PERIOD) {
				if !l.hasRecover {
					l.hasRecover = true
					l.recoverGuards = relGuards(ft.toks[k].guards, ft.toks[l.funcTok].guards)
				}
			}
		}
		// func(ctx <context>.Context) (err error)
		if l.rparen-l.lparen-1 == 4 && ft.isIdent(l.lparen+1, "ctx") && ft.is(l.lparen+2, token.IDENT) && ft.is(l.lparen+3, token.PERIOD) && ft.isIdent(l.lparen+4, "Context") {
			pkg := ft.toks[l.lparen+2].lit
			okPkg := pkg == "context"
			if node, isPh := ft.ph[pkg]; isPh {
				// the variable the template binds to `import "context"`
				okPkg = oneLine(node.String()) == "{{$context}}"
			}
			l.isJobBody = okPkg && l.resHi-l.resLo == 4 && ft.is(l.resLo, token.LPAREN) && ft.isIdent(l.resLo+1, "err") && ft.isIdent(l.resLo+2, "error") && ft.is(l.resLo+3, token.RPAREN)
		}
	}
}

// baseGuards: in a root template, guards are reported relative to the
// statement creating the scheduler; elsewhere relative to the template.
func (ft *flatTree) findBase() {
	for i := range ft.toks {
		if ft.fnOf[i] == -1 && ft.isIdent(i, "NewScheduler") && ft.is(i+1, token.LPAREN) {
			ft.base = ft.toks[i].guards
			return
		}
	}
}

func (ft *flatTree) litBase(l *tlit) []string {
	if l.parent >= 0 {
		return ft.toks[ft.lits[l.parent].funcTok].guards
	}
	return ft.base
}

// ---------------------------------------------------------------------------
// Marks
// ---------------------------------------------------------------------------

func (ft *flatTree) stmtStart(i int) bool {
	p := ft.pred(i)
	if p < 0 {
		return true
	}
	switch ft.toks[p].tok {
	case token.SEMICOLON, token.LBRACE, token.RBRACE:
		return true
	}
	return false
}

// isResultsCopy: `*( ... ) = ` at the start of a statement.
func (ft *flatTree) isResultsCopy(i int) bool {
	return ft.is(i, token.MUL) && ft.stmtStart(i) && ft.is(i+1, token.LPAREN) && ft.is(ft.match[i+1]+1, token.ASSIGN)
}

func (ft *flatTree) methodCall(i int, names ...string) bool {
	if !ft.is(i, token.IDENT) || !ft.is(i-1, token.PERIOD) || !ft.is(i+1, token.LPAREN) {
		return false
	}
	for _, n := range names {
		if ft.toks[i].lit == n {
			return true
		}
	}
	return false
}

// ranStore: X.ran.Store(true) starting at token i; returns the index after it.
func (ft *flatTree) ranStore(i int) (int, bool) {
	if ft.is(i, token.IDENT) && ft.is(i+1, token.PERIOD) && ft.isIdent(i+2, "ran") && ft.is(i+3, token.PERIOD) && ft.isIdent(i+4, "Store") &&
		ft.is(i+5, token.LPAREN) && ft.isIdent(i+6, "true") && ft.is(i+7, token.RPAREN) {
		return i + 8, true
	}
	return i, false
}

// classifyDefer names the defer statement starting at token i and returns
// the index of the first token after it.
func (ft *flatTree) classifyDefer(i int) (string, int) {
	if ft.is(i+1, token.FUNC) {
		var l *tlit
		for _, c := range ft.lits {
			if c.funcTok == i+1 {
				l = c
			}
		}
		if l != nil && l.isDeferred {
			cats := map[string]bool{}
			for k := l.lbrace + 1; k < l.rbrace; k++ {
				switch {
				case ft.isIdent(k, "recover") && ft.is(k+1, token.LPAREN) && !ft.is(k-1, token.PERIOD):
					cats["recover"] = true
				case ft.methodCall(k, "FlowDone", "ParallelDone"):
					cats["Done"] = true
				case ft.methodCall(k, "TaskDone"):
					cats["TaskDone"] = true
				case ft.methodCall(k, "TaskSkipped"):
					cats["Skipped"] = true
				case ft.isResultsCopy(k):
					cats["ResultsCopy"] = true
				case ft.methodCall(k, "Wait", "Enqueue", "FlowSuccess", "ParallelSuccess", "FlowError", "ParallelError"):
					cats[ft.toks[k].lit] = true
				}
			}
			var cs []string
			for c := range cats {
				cs = append(cs, c)
			}
			sort.Strings(cs)
			if len(cs) == 1 && (cs[0] == "recover" || cs[0] == "Done" || cs[0] == "TaskDone" || cs[0] == "Skipped") {
				return "defer:" + cs[0], l.rbrace + 3
			}
			return "unknown: defer doing [" + strings.Join(cs, " ") + "]: " + clip(ft.render(i, l.rbrace+3)), l.rbrace + 3
		}
	}
	if end, ok := ft.ranStore(i + 1); ok {
		return "defer:ranStore", end
	}
	j := i + 1
	for j < len(ft.toks) && !(ft.toks[j].tok == token.SEMICOLON && ft.fnOf[j] == ft.fnOf[i]) {
		j++
	}
	return "unknown: " + clip(ft.render(i, j)), j
}

func isUserCallAction(n parse.Node) bool {
	s := oneLine(n.String())
	return s == "{{expr .Function.Node}}" || s == "{{expr .Node}}"
}

// collectMarks lists the recognised constructs among the tokens of [lo, hi)
// that lie directly in literal `level` (-1: outside every literal).
func (ft *flatTree) collectMarks(lo, hi, level int, base []string, root bool) []mark {
	var out []mark
	lastCall := -10
	add := func(i int, name string) {
		out = append(out, mark{guards: relGuards(ft.toks[i].guards, base), name: name})
	}
	for i := lo; i < hi; {
		if ft.fnOf[i] != level {
			i++
			continue
		}
		t := ft.toks[i]
		switch {
		case t.tok == token.DEFER:
			name, end := ft.classifyDefer(i)
			add(i, name)
			if end <= i {
				end = i + 1
			}
			i = end
			continue
		case t.tok == token.IF && ft.stmtStart(i) && ft.is(i+1, token.NOT):
			lb := i + 1
			for lb < hi && !ft.is(lb, token.LBRACE) {
				lb++
			}
			if lb < hi {
				var body []string
				for k := lb + 1; k < ft.match[lb]; k++ {
					if !ft.toks[k].auto {
						body = append(body, ft.toks[k].tok.String()+":"+ft.toks[k].lit)
					}
				}
				b := strings.Join(body, " ")
				if (b == "return:return IDENT:nil" || b == "return:return") && !ft.is(ft.match[lb]+1, token.ELSE) {
					add(i, "gate")
					i = ft.match[lb] + 1
					continue
				}
			}
		case t.tok == token.RETURN:
			add(i, "return")
		case ft.isResultsCopy(i):
			add(i, "ResultsCopy")
		case t.tok == token.IDENT:
			switch {
			case t.lit == "NewScheduler" && ft.is(i+1, token.LPAREN):
				add(i, "NewScheduler")
			case ft.methodCall(i, "Wait"):
				add(i, "Wait")
			case ft.methodCall(i, "FlowError", "ParallelError"):
				add(i, "Error")
			case ft.methodCall(i, "FlowSuccess", "ParallelSuccess"):
				add(i, "Success")
			case ft.methodCall(i, "FlowDone", "ParallelDone"):
				add(i, "unknown: Done event outside a defer")
			case ft.methodCall(i, "TaskPanicRecovered", "TaskErrorRecovered"):
				add(i, "fallback")
			case ft.methodCall(i, "TaskError"):
				add(i, "TaskError")
			case ft.methodCall(i, "TaskSuccess"):
				add(i, "TaskSuccess")
			case ft.methodCall(i, "TaskSkipped"):
				add(i, "unknown: TaskSkipped outside a defer")
			case ft.methodCall(i, "TaskDone"):
				add(i, "unknown: TaskDone outside a defer")
			case t.lit == "recover" && ft.is(i+1, token.LPAREN) && !ft.is(i-1, token.PERIOD):
				add(i, "unknown: recover() outside a deferred literal")
			default:
				if end, ok := ft.ranStore(i); ok && ft.stmtStart(i) {
					add(i, "ranStore")
					i = end
					continue
				}
				for _, p := range ft.placeholders(t) {
					name := ""
					switch n := p.node.(type) {
					case *parse.TemplateNode:
						if root {
							name = "include:" + n.Name
						} else if strings.HasPrefix(n.Name, "call") {
							name = "call"
						}
					case *parse.ActionNode:
						if !root && isUserCallAction(n) {
							name = "call"
						}
					}
					if name == "" {
						continue
					}
					m := mark{guards: relGuards(p.guards, base), name: name}
					// the callee expression and its argument list are one call
					if name == "call" && lastCall == i && len(out) > 0 && markKey(out[len(out)-1]) == markKey(m) {
						continue
					}
					if name == "call" {
						lastCall = i
					}
					out = append(out, m)
				}
			}
		}
		i++
	}
	return out
}

// ---------------------------------------------------------------------------
// Per-file analyses
// ---------------------------------------------------------------------------

func (ft *flatTree) sourceLine(t ttok) string {
	if t.off >= len(ft.segOf) {
		return "unknown: no source position"
	}
	sg := ft.segs[ft.segOf[t.off]]
	if sg.src < 0 {
		return "unknown: no source position"
	}
	src := sg.srcOf
	p := sg.src + (t.off - sg.start)
	if p > len(src) {
		return "unknown: no source position"
	}
	lo := strings.LastIndexByte(src[:p], '\n') + 1
	hi := strings.IndexByte(src[p:], '\n')
	if hi < 0 {
		hi = len(src)
	} else {
		hi += p
	}
	return strings.TrimSpace(src[lo:hi])
}

type tmplSet map[string]map[string]*flatTree // dir -> template name -> tree

func (s tmplSet) resolve(dir, name string) *flatTree {
	if t := s[dir][name]; t != nil {
		return t
	}
	if dir != "modifier" {
		return s["shared"][name]
	}
	return nil
}

// identUses lists the uses of the identifiers `vars` among the tokens
// [lo, hi), following {{template}} includes.
func (ft *flatTree) identUses(set tmplSet, lo, hi int, base, prefix []string, vars map[string]bool, seen map[string]bool, out *[]mark, unk *[]string) {
	for i := lo; i < hi; i++ {
		t := ft.toks[i]
		if t.tok != token.IDENT {
			continue
		}
		g := append(append([]string{}, prefix...), relGuards(t.guards, base)...)
		if vars[t.lit] {
			*out = append(*out, mark{guards: g, name: t.lit})
			continue
		}
		for _, p := range ft.placeholders(t) {
			n, ok := p.node.(*parse.TemplateNode)
			if !ok {
				continue
			}
			g := append(append([]string{}, prefix...), relGuards(p.guards, base)...)
			sub := set.resolve(ft.dir, n.Name)
			if sub == nil || sub.broken {
				*unk = append(*unk, "unknown: include of "+strconv.Quote(n.Name)+" not resolved")
				continue
			}
			key := sub.file + "\x00" + strings.Join(g, ";")
			if seen[key] {
				continue
			}
			seen[key] = true
			sub.identUses(set, 0, len(sub.toks), nil, g, vars, seen, out, unk)
		}
	}
}

// mergeComplementary: a mark present under both branches of the same template
// conditional (`... ; if P` and `... ; unless P`, or with / without) is present
// whenever the conditional is reached: the two are replaced by one mark under the
// common guards (at the place of the first), repeatedly.
func mergeComplementary(in []mark) []mark {
	out := append([]mark(nil), in...)
	compl := func(a, b string) bool {
		for _, p := range [][2]string{{"if ", "unless "}, {"with ", "without "}} {
			if strings.HasPrefix(a, p[0]) && strings.HasPrefix(b, p[1]) && a[len(p[0]):] == b[len(p[1]):] {
				return true
			}
		}
		return false
	}
	for again := true; again; {
		again = false
	search:
		for i := range out {
			for j := range out {
				a, b := out[i], out[j]
				if i == j || a.name != b.name || len(a.guards) != len(b.guards) || len(a.guards) == 0 {
					continue
				}
				n := len(a.guards) - 1
				if strings.Join(a.guards[:n], "\x00") != strings.Join(b.guards[:n], "\x00") || !compl(a.guards[n], b.guards[n]) {
					continue
				}
				lo, hi := i, j
				if lo > hi {
					lo, hi = hi, lo
				}
				out[lo] = mark{guards: append([]string{}, a.guards[:n]...), name: a.name}
				out = append(out[:hi], out[hi+1:]...)
				again = true
				break search
			}
		}
	}
	return dedupMarks(out)
}

func markKey(m mark) string { return strings.Join(m.guards, "\x00") + "\x01" + m.name }

func dedupMarks(in []mark) []mark {
	var out []mark
	seen := map[string]bool{}
	for _, m := range in {
		k := strings.Join(m.guards, "\x00") + "\x01" + m.name
		if !seen[k] {
			seen[k] = true
			out = append(out, m)
		}
	}
	return out
}

// loopFacts: M6 and M7 for slice.go.tmpl / map.go.tmpl.
func (ft *flatTree) loopFacts(set tmplSet, sf *structFacts) {
	unk := func(format string, args ...any) {
		sf.unknown = append(sf.unknown, pair{ft.file, "unknown: " + oneLine(fmt.Sprintf(format, args...))})
	}
	forTok := -1
	for i := range ft.toks {
		if ft.fnOf[i] == -1 && ft.toks[i].tok == token.FOR {
			if forTok >= 0 {
				unk("more than one `for` statement outside the job closures")
				return
			}
			forTok = i
		}
	}
	if forTok < 0 {
		unk("no `for` statement found")
		return
	}
	lb := forTok
	for lb < len(ft.toks) && !ft.is(lb, token.LBRACE) {
		lb++
	}
	if lb >= len(ft.toks) {
		unk("`for` statement without a block")
		return
	}
	rb := ft.match[lb]
	vars := map[string]bool{}
	def, rng := -1, false
	for k := forTok + 1; k < lb; k++ {
		if ft.toks[k].tok == token.DEFINE && def < 0 {
			def = k
		}
		if ft.toks[k].tok == token.RANGE {
			rng = true
		}
	}
	if def < 0 || !rng {
		unk("loop header not of the form `for x, y := range z`: %s", ft.render(forTok, lb))
		return
	}
	for k := forTok + 1; k < def; k++ {
		if ft.toks[k].tok == token.IDENT && ft.toks[k].lit != "_" && !rePlaceholder.MatchString(ft.toks[k].lit) {
			vars[ft.toks[k].lit] = true
		}
	}
	base := ft.toks[forTok].guards

	// the element job: the job closure created in the loop body
	var elem *tlit
	for _, l := range ft.lits {
		if l.parent == -1 && l.funcTok > lb && l.funcTok < rb && l.isJobBody {
			if elem != nil {
				unk("more than one job closure in the loop body")
				return
			}
			elem = l
		}
	}
	if elem == nil {
		unk("no job closure in the loop body")
		return
	}
	// copies: `x := x`, or pairwise in a tuple `x, y := x, y`
	var copies []mark
	for k := lb + 1; k < elem.funcTok; k++ {
		if ft.fnOf[k] != -1 || !ft.stmtStart(k) || !ft.is(k, token.IDENT) {
			continue
		}
		// a1, ..., an := b1, ..., bn ;
		var lhs, rhs []int
		j := k
		for ft.is(j, token.IDENT) {
			lhs = append(lhs, j)
			if !ft.is(ft.succ(j), token.COMMA) {
				break
			}
			j = ft.succ(ft.succ(j))
		}
		def := ft.succ(j)
		if !ft.is(def, token.DEFINE) {
			continue
		}
		j = ft.succ(def)
		for ft.is(j, token.IDENT) {
			rhs = append(rhs, j)
			if !ft.is(ft.succ(j), token.COMMA) {
				break
			}
			j = ft.succ(ft.succ(j))
		}
		if len(lhs) != len(rhs) || !ft.is(ft.succ(j), token.SEMICOLON) {
			continue
		}
		for i := range lhs {
			if ft.toks[lhs[i]].lit != ft.toks[rhs[i]].lit || ft.toks[lhs[i]].lit == "_" {
				continue
			}
			g := relGuards(ft.toks[lhs[i]].guards, base)
			// the copy is as conditional as its most conditional token
			for _, kk := range []int{def, rhs[i]} {
				if g2 := relGuards(ft.toks[kk].guards, base); len(g2) > len(g) {
					g = g2
				}
			}
			copies = append(copies, mark{guards: g, name: ft.toks[lhs[i]].lit})
		}
	}
	copies = mergeComplementary(copies)
	var uses []mark
	var unks []string
	ft.identUses(set, elem.lbrace+1, elem.rbrace, base, nil, vars, map[string]bool{}, &uses, &unks)
	for _, u := range unks {
		sf.unknown = append(sf.unknown, pair{ft.file, u})
	}
	sf.loopVarCopies = append(sf.loopVarCopies, markList{file: ft.file, marks: copies})
	sf.loopVarUses = append(sf.loopVarUses, markList{file: ft.file, marks: dedupMarks(uses)})

	// Enqueue calls outside the literals
	ends := 0
	for i := range ft.toks {
		if ft.fnOf[i] != -1 || !ft.methodCall(i, "Enqueue") {
			continue
		}
		lp := i + 1
		rp := ft.match[lp]
		inLoop := i > lb && i < rb
		var inline *tlit
		for _, l := range ft.lits {
			if l.parent == -1 && l.funcTok > lp && l.funcTok < rp {
				inline = l
			}
		}
		if inLoop {
			// how the scheduled job of the element is collected
			s := i
			for s > lb+1 && !ft.stmtStart(s) {
				s--
			}
			e := i
			if ft.is(i-1, token.PERIOD) && ft.is(i-2, token.IDENT) {
				e = i - 2
			}
			sf.elemJobCollect = append(sf.elemJobCollect, pair{ft.file, ft.renderGuarded(s, e, base)})
			continue
		}
		if inline == nil || !inline.isJobBody {
			unk("Enqueue outside the loop without an inline job closure: %s", clip(ft.render(i, rp+1)))
			continue
		}
		ends++
		cb := lp
		for cb < rp && !ft.is(cb, token.LBRACE) {
			cb++
		}
		if cb >= rp || cb > inline.funcTok {
			unk("End job: no Job{...} literal found: %s", clip(ft.render(i, rp+1)))
			continue
		}
		deps := "none"
		depth := 0
		for k := cb + 1; k < ft.match[cb]; k++ {
			switch ft.toks[k].tok {
			case token.LPAREN, token.LBRACE, token.LBRACK:
				depth++
			case token.RPAREN, token.RBRACE, token.RBRACK:
				depth--
			}
			if depth == 0 && ft.isIdent(k, "Dependencies") && ft.is(k+1, token.COLON) {
				v := k + 2
				d := 0
				e := v
				for e < ft.match[cb] {
					switch ft.toks[e].tok {
					case token.LPAREN, token.LBRACE, token.LBRACK:
						d++
					case token.RPAREN, token.RBRACE, token.RBRACK:
						d--
					}
					if d == 0 && ft.toks[e].tok == token.COMMA {
						break
					}
					e++
				}
				g := relGuards(ft.toks[k].guards, ft.toks[i].guards)
				deps = ft.render(v, e)
				if len(g) > 0 {
					deps = "[" + strings.Join(g, "; ") + "] " + deps
				}
			}
		}
		sf.endJobDeps = append(sf.endJobDeps, pair{ft.file, deps})
	}
	if ends == 0 {
		sf.endJobDeps = append(sf.endJobDeps, pair{ft.file, "unknown: no End job found"})
	}
}

// ---------------------------------------------------------------------------
// Driver
// ---------------------------------------------------------------------------

// walkIncludes calls f with the name of every {{template}} include of a tree.
func walkIncludes(n parse.Node, f func(string)) {
	switch x := n.(type) {
	case *parse.ListNode:
		if x == nil {
			return
		}
		for _, c := range x.Nodes {
			walkIncludes(c, f)
		}
	case *parse.TemplateNode:
		f(x.Name)
	case *parse.IfNode:
		walkIncludes(x.List, f)
		walkIncludes(x.ElseList, f)
	case *parse.WithNode:
		walkIncludes(x.List, f)
		walkIncludes(x.ElseList, f)
	case *parse.RangeNode:
		walkIncludes(x.List, f)
		walkIncludes(x.ElseList, f)
	}
}

var reUndefinedFunc = regexp.MustCompile(`function "([^"]+)" not defined`)

// parseLenient parses a template file; functions the template calls are
// declared as they are met (their definitions are irrelevant here).
func parseLenient(name, text string, funcs map[string]any) (map[string]*parse.Tree, error) {
	for try := 0; try < 100; try++ {
		trees, err := parse.Parse(name, text, "", "", funcs)
		if err == nil {
			return trees, nil
		}
		m := reUndefinedFunc.FindStringSubmatch(err.Error())
		if m == nil {
			return nil, err
		}
		funcs[m[1]] = true
	}
	return nil, fmt.Errorf("too many undefined functions in %s", name)
}

func (r *repo) scanTemplateStructure(sf *structFacts) {
	type tfile struct{ rel, display, dir string }
	var files []tfile
	for _, root := range []struct{ dir, prefix string }{{"internal/templates", ""}, {"internal/modifier/templates", "modifier/"}} {
		var found []string
		filepath.WalkDir(filepath.Join(r.root, root.dir), func(path string, d os.DirEntry, err error) error {
			if err == nil && !d.IsDir() && strings.HasSuffix(path, ".tmpl") {
				rel, _ := filepath.Rel(filepath.Join(r.root, root.dir), path)
				found = append(found, filepath.ToSlash(rel))
			}
			return nil
		})
		sort.Strings(found)
		if len(found) == 0 {
			sf.unknown = append(sf.unknown, pair{root.dir, "unknown: no template files found"})
		}
		for _, rel := range found {
			dir := "modifier"
			if root.prefix == "" {
				dir = filepath.ToSlash(filepath.Dir(rel))
			}
			files = append(files, tfile{rel: root.dir + "/" + rel, display: root.prefix + rel, dir: dir})
		}
	}

	funcs := map[string]any{}
	for _, n := range builtinFuncNames {
		funcs[n] = true
	}
	// 1. parse every file; the trees of a set, by directory and name
	defs := tdefSet{}
	var order []*tdef
	for _, f := range files {
		bs, err := r.readFile(f.rel)
		if err != nil {
			sf.unknown = append(sf.unknown, pair{f.display, "unknown: unreadable: " + oneLine(err.Error())})
			continue
		}
		base := filepath.Base(f.rel)
		trees, err := parseLenient(base, string(bs), funcs)
		if err != nil {
			sf.unknown = append(sf.unknown, pair{f.display, "unknown: parse error: " + oneLine(err.Error())})
			continue
		}
		names := make([]string, 0, len(trees))
		for n := range trees {
			names = append(names, n)
		}
		sort.Strings(names)
		for _, n := range names {
			tr := trees[n]
			if tr == nil || tr.Root == nil {
				continue
			}
			d := &tdef{file: f.display, dir: f.dir, name: n, isDefine: n != base, tree: tr, src: string(bs)}
			if d.isDefine {
				d.file = f.display + "{" + n + "}"
			}
			if defs[f.dir] == nil {
				defs[f.dir] = map[string]*tdef{}
			}
			if old := defs[f.dir][n]; old != nil {
				sf.unknown = append(sf.unknown, pair{d.file, "unknown: template " + strconv.Quote(n) + " also defined in " + old.file})
			}
			defs[f.dir][n] = d
			order = append(order, d)
		}
	}
	flatten := func(d *tdef, expand bool) *flatTree {
		ft := &flatTree{file: d.file, dir: d.dir, name: d.name, src: d.src, curSrc: d.src, def: d, ph: map[string]parse.Node{}}
		if expand {
			ft.defs = defs
		}
		ft.walk(d.tree.Root, nil)
		ft.tokenize()
		if !ft.broken {
			ft.findLits()
			ft.findBase()
		}
		return ft
	}
	// 2. which defines are structural: by their own text, then through includes
	for _, d := range order {
		walkIncludes(d.tree.Root, func(name string) { d.includes = append(d.includes, name) })
		if !d.isDefine {
			continue
		}
		ft := flatten(d, false)
		if ft.broken {
			continue // reported below, on its own
		}
		d.structural = len(ft.lits) > 0
		for i, t := range ft.toks {
			if t.tok == token.DEFER || t.tok == token.GO ||
				(ft.isIdent(i, "recover") && ft.is(i+1, token.LPAREN) && !ft.is(i-1, token.PERIOD)) {
				d.structural = true
			}
		}
	}
	for changed := true; changed; {
		changed = false
		for _, d := range order {
			if !d.isDefine || d.structural {
				continue
			}
			for _, n := range d.includes {
				if sub := defs.resolve(d.dir, n); sub != nil && sub.isDefine && sub.structural {
					d.structural, changed = true, true
				}
			}
		}
	}
	// 3. flatten, structural defines expanded in place
	set := tmplSet{}
	var all []*flatTree
	for _, d := range order {
		ft := flatten(d, true)
		if set[d.dir] == nil {
			set[d.dir] = map[string]*flatTree{}
		}
		set[d.dir][d.name] = ft
		all = append(all, ft)
	}
	// a structural define that was expanded somewhere is accounted for at every
	// place it is included in; one that is included nowhere is reported on its own
	{
		var kept []*flatTree
		for _, ft := range all {
			if ft.def.isDefine && ft.def.structural && ft.def.used {
				for _, u := range ft.unknown {
					sf.unknown = append(sf.unknown, pair{ft.file, u})
				}
				continue
			}
			kept = append(kept, ft)
		}
		all = kept
	}

	isRoot := map[string]bool{"flow/flow.go.tmpl": true, "parallel/parallel.go.tmpl": true, "modifier/flow.go.tmpl": true}
	isLoop := map[string]bool{"parallel/slice.go.tmpl": true, "parallel/map.go.tmpl": true}
	seenRoot, seenLoop := map[string]bool{}, map[string]bool{}

	for _, ft := range all {
		for _, u := range ft.unknown {
			sf.unknown = append(sf.unknown, pair{ft.file, u})
		}
		if ft.broken {
			continue
		}
		for _, l := range ft.lits {
			g := relGuards(ft.toks[l.funcTok].guards, ft.litBase(l))
			sf.funcLits = append(sf.funcLits, tmplFn{
				file: ft.file, index: l.index, depth: l.depth, parent: l.parent, guards: g,
				isDeferred: l.isDeferred, hasRecover: l.hasRecover, isJobBody: l.isJobBody,
				conditional: len(g) > 0 || len(l.recoverGuards) > 0,
			})
			if l.isJobBody {
				sf.taskBodyOrder = append(sf.taskBodyOrder, markList{file: ft.file, index: l.index,
					marks: ft.collectMarks(l.lbrace+1, l.rbrace, l.index, ft.toks[l.funcTok].guards, false)})
			}
		}
		for i, t := range ft.toks {
			if t.tok == token.RETURN && ft.fnOf[i] == -1 {
				sf.topReturns = append(sf.topReturns, pair{ft.file, ft.sourceLine(t)})
			}
		}
		if isRoot[ft.file] {
			seenRoot[ft.file] = true
			if ft.base == nil {
				found := false
				for i := range ft.toks {
					if ft.isIdent(i, "NewScheduler") {
						found = true
					}
				}
				if !found {
					sf.unknown = append(sf.unknown, pair{ft.file, "unknown: root template does not call NewScheduler outside the literals"})
				}
			}
			sf.rootOrder = append(sf.rootOrder, markList{file: ft.file, marks: ft.collectMarks(0, len(ft.toks), -1, ft.base, true)})
			for i := range ft.toks {
				if ft.fnOf[i] == -1 && ft.methodCall(i, "Wait") {
					s := i
					for s > 0 && !ft.stmtStart(s) {
						s--
					}
					e := i
					for e < len(ft.toks) && !ft.is(e, token.LBRACE) && !(ft.toks[e].auto) {
						e++
					}
					sf.waitStmts = append(sf.waitStmts, pair{ft.file, ft.renderGuarded(s, e, ft.base)})
				}
			}
		}
		if isLoop[ft.file] {
			seenLoop[ft.file] = true
			ft.loopFacts(set, sf)
		}
	}
	for f := range isRoot {
		if !seenRoot[f] {
			sf.unknown = append(sf.unknown, pair{f, "unknown: root template not found or not analysable"})
		}
	}
	for f := range isLoop {
		if !seenLoop[f] {
			sf.unknown = append(sf.unknown, pair{f, "unknown: template not found or not analysable"})
		}
	}
}

// ---------------------------------------------------------------------------
// Lean output
// ---------------------------------------------------------------------------

func leanStrList(l []string) string {
	q := make([]string, len(l))
	for i, s := range l {
		q[i] = leanStr(s)
	}
	return "[" + strings.Join(q, ", ") + "]"
}

func leanMark(m mark) string {
	return "{ guards := " + leanStrList(m.guards) + ", name := " + leanStr(m.name) + " }"
}

func leanMarks(ms []mark) string {
	if len(ms) == 0 {
		return "[]"
	}
	var b strings.Builder
	b.WriteString("[")
	for i, m := range ms {
		if i > 0 {
			b.WriteString(",")
		}
		b.WriteString("\n      " + leanMark(m))
	}
	b.WriteString(" ]")
	return b.String()
}

func sortMarkLists(in []markList) []markList {
	out := append([]markList(nil), in...)
	sort.SliceStable(out, func(i, j int) bool {
		if out[i].file != out[j].file {
			return out[i].file < out[j].file
		}
		return out[i].index < out[j].index
	})
	return out
}

func renderStruct(b *strings.Builder, sf *structFacts) {
	lits := append([]tmplFn(nil), sf.funcLits...)
	sort.SliceStable(lits, func(i, j int) bool {
		if lits[i].file != lits[j].file {
			return lits[i].file < lits[j].file
		}
		return lits[i].index < lits[j].index
	})
	var items []string
	for _, l := range lits {
		parent := "none"
		if l.parent >= 0 {
			parent = fmt.Sprintf("some %d", l.parent)
		}
		items = append(items, fmt.Sprintf("{ file := %s, index := %d, depth := %d, parent := %s, guards := %s,\n    isDeferred := %s, hasRecover := %s, isJobBody := %s, conditional := %s }",
			leanStr(l.file), l.index, l.depth, parent, leanStrList(l.guards),
			leanBool(l.isDeferred), leanBool(l.hasRecover), leanBool(l.isJobBody), leanBool(l.conditional)))
	}
	b.WriteString("/-- Func literals in the flattened text of every template (see `TmplFn`). -/\n")
	writeList(b, "tmplFuncLits", "TmplFn", items)

	b.WriteString("/-- `return` statements outside every func literal: (template, trimmed source line). -/\n")
	writeList(b, "topLevelReturns", "(String × String)", pairs(sf.topReturns))

	items = nil
	for _, ml := range sortMarkLists(sf.rootOrder) {
		items = append(items, "("+leanStr(ml.file)+", "+leanMarks(ml.marks)+")")
	}
	b.WriteString("/-- Root templates: the recognised constructs outside the func literals, in document order;\n    guards are relative to the statement calling NewScheduler. -/\n")
	writeList(b, "rootOrder", "(String × List Mark)", items)

	b.WriteString("/-- The statement(s) of the root templates calling `sched.Wait`, up to the opening brace. -/\n")
	writeList(b, "waitStmts", "(String × String)", pairs(sf.waitStmts))

	items = nil
	for _, ml := range sortMarkLists(sf.taskBodyOrder) {
		items = append(items, "("+leanStr(ml.file)+", "+strconv.Itoa(ml.index)+", "+leanMarks(ml.marks)+")")
	}
	b.WriteString("/-- Job closures (template, index in `tmplFuncLits`): the recognised constructs directly in\n    their body, in document order; guards are relative to the closure. -/\n")
	writeList(b, "taskBodyOrder", "(String × Nat × List Mark)", items)

	items = nil
	for _, ml := range sortMarkLists(sf.loopVarCopies) {
		items = append(items, "("+leanStr(ml.file)+", "+leanMarks(ml.marks)+")")
	}
	b.WriteString("/-- slice/map: the `x := x` copies of loop variables in the loop body before the job closure\n    (`name` is the variable); guards are relative to the `for` statement. -/\n")
	writeList(b, "loopVarCopies", "(String × List Mark)", items)

	items = nil
	for _, ml := range sortMarkLists(sf.loopVarUses) {
		items = append(items, "("+leanStr(ml.file)+", "+leanMarks(ml.marks)+")")
	}
	b.WriteString("/-- slice/map: the uses of loop variables inside the job closure of the loop body, includes\n    followed; guards are relative to the `for` statement. -/\n")
	writeList(b, "loopVarUses", "(String × List Mark)", items)

	b.WriteString("/-- slice/map: the Dependencies expression of the End job (`none` when the field is absent). -/\n")
	writeList(b, "endJobDeps", "(String × String)", pairs(sf.endJobDeps))

	b.WriteString("/-- slice/map: what the scheduled job of an element is assigned to (the statement text before\n    `sched.Enqueue` in the loop body). -/\n")
	writeList(b, "elemJobCollect", "(String × String)", pairs(sf.elemJobCollect))

	b.WriteString("/-- Template text the structural scanner did not recognise: (template, reason). -/\n")
	writeList(b, "tmplStructUnknown", "(String × String)", uniq(pairs(sf.unknown)))
}
