// schedwiring.go: facts pinning the WIRING of scheduler/scheduler.go, i.e. the
// mechanisms the flags of the Lean model's `Sched.Wiring` stand for (dispatch
// gate, drain on exit, worker respawn, the worker's context / invalid checks,
// Wait's context arm, the late-enqueue `dep.done` branch, the sentinel
// filter), plus the shape of the Scheduler Loop's select.
//
// Everything here is syntactic (go/ast only).  The code is recognised by its
// STRUCTURE, not by the names of its locals: the roles of the loop's locals
// (`pending`, `ongoing`, `waiting`, the ready queue, the two channel locals)
// are resolved from where they are incremented / sent on, and reported in
// `loopRoles`, so that renaming a local or switching the ready queue from
// container/list to a slice does not change the markers.  Statements guarded
// by `if verifOn { ... }` and assignments from `verif*()` calls are the
// verification hooks and are treated as absent.
//
// Equivalent spellings are recognised as the same code (robust.go): a local
// closure called as a statement is read as its body, at the call (`clean`,
// `walkStmts`); a local bound once to a field of the receiver that nobody writes
// is printed as that field (`text`); `for { v, ok := <-ch; if !ok { break }; ... }`
// is `for v := range ch { ... }` (`asChanLoop`: the worker's loop and the drain);
// an if/else is read with its condition in the positive (`positiveIfElse`); a
// deferred function that is one `if !clean { ... }` is the guard `if clean {
// return }` followed by the body; `e := j.ctx.Err()` bound once ahead of the
// worker's chain of tests is read as the chain's own `if e := j.ctx.Err(); ...`.
//
// Markers are `name` or `name:detail` (detail = gofmt-printed source text).
// Whatever is not recognised becomes an `unknown:<text>` marker, so that the
// pin-down obligations of CffVerif/Tie/Facts.lean fail instead of passing.
package main

import (
	"fmt"
	"go/ast"
	"go/token"
	"sort"
	"strings"
)

type selArm struct {
	kind, comm, ch string
	nilable        bool
	disabledWhen   []string
}

type wiringFacts struct {
	arms       []selArm
	roles      []pair
	afterFor   []string
	exitConds  []string
	resultArm  []string
	enqueueArm []string
	worker     []string
	wait       []string
	enqueue    []string
}

// ---------------------------------------------------------------------------
// hooks
// ---------------------------------------------------------------------------

func isIdent(e ast.Expr, name string) bool {
	id, ok := e.(*ast.Ident)
	return ok && id.Name == name
}

// isHook: `if verifOn { ... }` (no else), or `x := verifSomething(...)`.
func isHook(s ast.Stmt) bool {
	switch x := s.(type) {
	case *ast.IfStmt:
		return x.Init == nil && x.Else == nil && isIdent(x.Cond, "verifOn")
	case *ast.AssignStmt:
		if len(x.Rhs) == 1 {
			if c, ok := x.Rhs[0].(*ast.CallExpr); ok {
				if id, ok := c.Fun.(*ast.Ident); ok && strings.HasPrefix(id.Name, "verif") {
					return true
				}
			}
		}
	case *ast.EmptyStmt:
		return true
	}
	return false
}

// dropHooks drops the hook statements.
func dropHooks(list []ast.Stmt) []ast.Stmt {
	var out []ast.Stmt
	for _, s := range list {
		if !isHook(s) {
			out = append(out, s)
		}
	}
	return out
}

// clean drops the hook statements and replaces a call of a local closure
// (`release(job)` with `release := func(j *ScheduledJob) { ... }` bound once in
// the function being scanned) by the closure's body, parameters renamed to the
// arguments: the statements are recognised where they RUN, not where they are
// spelled.  A closure that cannot be inlined (see inlineClosureCall) stays a call
// statement, which no recogniser accepts.
func (w *wscan) clean(list []ast.Stmt) []ast.Stmt {
	return w.cleanDepth(list, 0)
}

func (w *wscan) cleanDepth(list []ast.Stmt, depth int) []ast.Stmt {
	var out []ast.Stmt
	for _, s := range list {
		if isHook(s) || w.isResolvedDef(s) {
			continue
		}
		if depth < 4 {
			if body, ok := w.r.inlineClosureCall(s, w.ld); ok {
				out = append(out, w.cleanDepth(body, depth+1)...)
				continue
			}
		}
		out = append(out, s)
	}
	return out
}

// isResolvedDef: the statement does nothing but bind a local that is resolved
// wherever it is used: `f := func(...) {...}` of a single-assignment closure
// (its body is looked at where f is called; any other use of f leaves a statement
// no recogniser accepts), or `c := s.field` of a stable hoist (text prints c as
// s.field).
func (w *wscan) isResolvedDef(s ast.Stmt) bool {
	if w.ld == nil {
		return false
	}
	var names []*ast.Ident
	var vals []ast.Expr
	switch x := s.(type) {
	case *ast.AssignStmt:
		if x.Tok != token.DEFINE || len(x.Lhs) != len(x.Rhs) {
			return false
		}
		for i, l := range x.Lhs {
			id, ok := l.(*ast.Ident)
			if !ok {
				return false
			}
			names, vals = append(names, id), append(vals, x.Rhs[i])
		}
	case *ast.DeclStmt:
		gd, ok := x.Decl.(*ast.GenDecl)
		if !ok || gd.Tok != token.VAR {
			return false
		}
		for _, sp := range gd.Specs {
			vs := sp.(*ast.ValueSpec)
			if len(vs.Values) != len(vs.Names) {
				return false
			}
			names, vals = append(names, vs.Names...), append(vals, vs.Values...)
		}
	default:
		return false
	}
	if len(names) == 0 {
		return false
	}
	for i, id := range names {
		if fl, ok := w.ld.closures[id.Name]; ok && ast.Unparen(vals[i]) == ast.Expr(fl) {
			continue
		}
		if v, ok := w.hoists[id.Name]; ok && v == vals[i] {
			continue
		}
		return false
	}
	return true
}

func (w *wscan) cleanBlock(b *ast.BlockStmt) []ast.Stmt {
	if b == nil {
		return nil
	}
	return w.clean(b.List)
}

// enter makes fd the function being scanned: its single-assignment locals are
// resolved from here on (closures by clean, hoisted field reads by text).
func (w *wscan) enter(fd *ast.FuncDecl) {
	w.ld = scanLocalDefs(fd)
	w.hoists = stableHoists(w.written, fd, w.ld)
}

// ---------------------------------------------------------------------------
// small recognisers
// ---------------------------------------------------------------------------

type wscan struct {
	r  *repo
	wf *wiringFacts

	// the function being scanned (see enter)
	file    *ast.File
	written func(string) bool // fields written somewhere in package scheduler
	ld      *localDefs
	hoists  map[string]ast.Expr

	// roles of the loop's locals ("" = not found)
	ongoingVar, pendingVar, waitingVar, readyVar string
	// fields of ScheduledJob as used by the result arm ("" = not found)
	doneField, errField, invalidField, consumersField, remainingField string
	// channels
	finishedChan string // the channel Wait waits on
	readySrc     string // what the local sent on in the loop is initialised from
	enqueueSrc   string // what the local received from (2-value) is initialised from
	recvName     string // name of the receiver of the loop method
}

// text prints a node; in an expression, a hoisted local (`c := s.concurrency`,
// bound once, the field never written) is printed as the expression it stands
// for, so that markers do not depend on whether a field is read through a local.
func (w *wscan) text(n ast.Node) string {
	if e, ok := n.(ast.Expr); ok && e != nil {
		n = substExpr(e, w.hoists)
	}
	return w.r.text(n)
}

func unk(s string) string { return "unknown:" + s }

// selOn matches `<base>.<field>` with base a bare identifier named base (any
// when base == ""); returns the field name.
func selOn(e ast.Expr, base string) (string, bool) {
	se, ok := e.(*ast.SelectorExpr)
	if !ok {
		return "", false
	}
	id, ok := se.X.(*ast.Ident)
	if !ok || (base != "" && id.Name != base) {
		return "", false
	}
	return se.Sel.Name, true
}

func identName(e ast.Expr) string {
	if id, ok := e.(*ast.Ident); ok {
		return id.Name
	}
	return ""
}

// incDec matches `x++` / `x--`.
func incDec(s ast.Stmt, tok token.Token) (ast.Expr, bool) {
	ids, ok := s.(*ast.IncDecStmt)
	if !ok || ids.Tok != tok {
		return nil, false
	}
	return ids.X, true
}

// assign1 matches a single `lhs = rhs` / `lhs := rhs`.
func assign1(s ast.Stmt, tok token.Token) (lhs, rhs ast.Expr, ok bool) {
	as, ok := s.(*ast.AssignStmt)
	if !ok || as.Tok != tok || len(as.Lhs) != 1 || len(as.Rhs) != 1 {
		return nil, nil, false
	}
	return as.Lhs[0], as.Rhs[0], true
}

// pushTo matches `R.PushBack(v)` and `R = append(R, v)`; returns R.
func pushTo(s ast.Stmt, v string) (string, bool) {
	switch x := s.(type) {
	case *ast.ExprStmt:
		c, ok := x.X.(*ast.CallExpr)
		if !ok || len(c.Args) != 1 || !isIdent(c.Args[0], v) {
			return "", false
		}
		if f, ok := selOn(c.Fun, ""); ok && f == "PushBack" {
			return identName(c.Fun.(*ast.SelectorExpr).X), true
		}
	case *ast.AssignStmt:
		lhs, rhs, ok := assign1(s, token.ASSIGN)
		if !ok {
			return "", false
		}
		c, ok := rhs.(*ast.CallExpr)
		if !ok || !isIdent(c.Fun, "append") || len(c.Args) != 2 || c.Ellipsis.IsValid() {
			return "", false
		}
		R := identName(lhs)
		if R != "" && isIdent(c.Args[0], R) && isIdent(c.Args[1], v) {
			return R, true
		}
	}
	return "", false
}

// cmpNil matches `<x> != nil` (op NEQ) / `<x> == nil` (op EQL).
func cmpNil(e ast.Expr, op token.Token) (ast.Expr, bool) {
	be, ok := e.(*ast.BinaryExpr)
	if !ok || be.Op != op || !isIdent(be.Y, "nil") {
		return nil, false
	}
	return be.X, true
}

func (w *wscan) condText(is *ast.IfStmt) string {
	if is.Init != nil {
		return w.text(is.Init) + "; " + w.text(is.Cond)
	}
	return w.text(is.Cond)
}

// recvOf matches `<-x`.
func recvOf(e ast.Expr) (ast.Expr, bool) {
	ue, ok := e.(*ast.UnaryExpr)
	if !ok || ue.Op != token.ARROW {
		return nil, false
	}
	return ue.X, true
}

// commInfo classifies the communication of a select arm.
func commInfo(cc *ast.CommClause) (kind string, ch ast.Expr, lhs []ast.Expr) {
	switch c := cc.Comm.(type) {
	case nil:
		return "default", nil, nil
	case *ast.SendStmt:
		return "send", c.Chan, nil
	case *ast.ExprStmt:
		if x, ok := recvOf(c.X); ok {
			return "recv", x, nil
		}
	case *ast.AssignStmt:
		if len(c.Rhs) == 1 {
			if x, ok := recvOf(c.Rhs[0]); ok {
				switch len(c.Lhs) {
				case 1:
					return "recvVal", x, c.Lhs
				case 2:
					return "recvOk", x, c.Lhs
				}
			}
		}
	}
	return "unknown", nil, nil
}

// ---------------------------------------------------------------------------
// statement walker with the path of enclosing conditions
// ---------------------------------------------------------------------------

type pathElem struct {
	kind string // "if", "else", "case", "arm", "for", "func"
	text string
	arm  *ast.CommClause
}

func pathText(p []pathElem) string {
	var parts []string
	for _, e := range p {
		switch e.kind {
		case "if":
			parts = append(parts, "("+e.text+")")
		case "else":
			parts = append(parts, "!("+e.text+")")
		case "case":
			parts = append(parts, "case["+e.text+"]")
		case "arm":
			parts = append(parts, "arm["+e.text+"]")
		case "for":
			if e.text != "" {
				parts = append(parts, "for["+e.text+"]")
			}
		case "func":
			parts = append(parts, "func["+e.text+"]")
		}
	}
	if len(parts) == 0 {
		return "true"
	}
	return strings.Join(parts, " && ")
}

// walkStmts calls fn for every statement (compound ones included, before their
// children) with the path of conditions it lies under.  Bodies of func
// literals that are called, deferred or started on the spot are entered.
func (w *wscan) walkStmts(list []ast.Stmt, path []pathElem, fn func(s ast.Stmt, path []pathElem)) {
	ext := func(e pathElem) []pathElem {
		return append(append([]pathElem(nil), path...), e)
	}
	for _, s := range list {
		if isHook(s) {
			continue
		}
		if body, ok := w.r.inlineClosureCall(s, w.ld); ok && len(path) < 24 {
			// a local closure called here: its statements run here
			w.walkStmts(body, path, fn)
			continue
		}
		fn(s, path)
		switch x := s.(type) {
		case *ast.BlockStmt:
			w.walkStmts(x.List, path, fn)
		case *ast.LabeledStmt:
			w.walkStmts([]ast.Stmt{x.Stmt}, path, fn)
		case *ast.IfStmt:
			c := w.condText(x)
			if x.Init != nil {
				fn(x.Init, path)
			}
			w.walkStmts(x.Body.List, ext(pathElem{kind: "if", text: c}), fn)
			if x.Else != nil {
				w.walkStmts([]ast.Stmt{x.Else}, ext(pathElem{kind: "else", text: c}), fn)
			}
		case *ast.ForStmt:
			t := ""
			if x.Init != nil || x.Cond != nil || x.Post != nil {
				var ps []string
				for _, n := range []ast.Node{x.Init, x.Cond, x.Post} {
					switch v := n.(type) {
					case ast.Stmt:
						if v != nil {
							ps = append(ps, w.text(v))
							continue
						}
					case ast.Expr:
						if v != nil {
							ps = append(ps, w.text(v))
							continue
						}
					}
					ps = append(ps, "")
				}
				t = strings.Join(ps, "; ")
			}
			if x.Init != nil {
				fn(x.Init, path)
			}
			if x.Post != nil {
				fn(x.Post, ext(pathElem{kind: "for", text: t}))
			}
			w.walkStmts(x.Body.List, ext(pathElem{kind: "for", text: t}), fn)
		case *ast.RangeStmt:
			w.walkStmts(x.Body.List, ext(pathElem{kind: "for", text: "range " + w.text(x.X)}), fn)
		case *ast.SwitchStmt:
			hd := ""
			if x.Init != nil {
				fn(x.Init, path)
				hd = w.text(x.Init) + "; "
			}
			if x.Tag != nil {
				hd += w.text(x.Tag) + " "
			}
			for _, c := range x.Body.List {
				cc := c.(*ast.CaseClause)
				t := "default"
				if cc.List != nil {
					var es []string
					for _, e := range cc.List {
						es = append(es, w.text(e))
					}
					t = strings.Join(es, ", ")
				}
				w.walkStmts(cc.Body, ext(pathElem{kind: "case", text: hd + t}), fn)
			}
		case *ast.TypeSwitchStmt:
			for _, c := range x.Body.List {
				cc := c.(*ast.CaseClause)
				w.walkStmts(cc.Body, ext(pathElem{kind: "case", text: "type switch"}), fn)
			}
		case *ast.SelectStmt:
			for _, c := range x.Body.List {
				cc := c.(*ast.CommClause)
				t := "default"
				if cc.Comm != nil {
					t = w.text(cc.Comm)
				}
				w.walkStmts(cc.Body, ext(pathElem{kind: "arm", text: t, arm: cc}), fn)
			}
		case *ast.DeferStmt:
			if fl, ok := x.Call.Fun.(*ast.FuncLit); ok {
				w.walkStmts(fl.Body.List, ext(pathElem{kind: "func", text: "defer"}), fn)
			}
		case *ast.GoStmt:
			if fl, ok := x.Call.Fun.(*ast.FuncLit); ok {
				w.walkStmts(fl.Body.List, ext(pathElem{kind: "func", text: "go"}), fn)
			}
		case *ast.ExprStmt:
			if c, ok := x.X.(*ast.CallExpr); ok {
				if fl, ok := c.Fun.(*ast.FuncLit); ok {
					w.walkStmts(fl.Body.List, ext(pathElem{kind: "func", text: "call"}), fn)
				}
			}
		}
	}
}

// ---------------------------------------------------------------------------
// nil-ability of a local channel variable
// ---------------------------------------------------------------------------

type chanLocal struct {
	local    bool   // declared in the function (body or parameter)
	initText string // initial value ("" when none)
	entries  []string
}

func paramNames(fd *ast.FuncDecl) map[string]bool {
	out := map[string]bool{}
	if fd.Type.Params != nil {
		for _, f := range fd.Type.Params.List {
			for _, n := range f.Names {
				out[n.Name] = true
			}
		}
	}
	return out
}

// chanLocalInfo collects, for the identifier `name` of function fd, how it can
// be nil: see `Extracted.SelArm.disabledWhen`.
func (w *wscan) chanLocalInfo(fd *ast.FuncDecl, name string) chanLocal {
	var cl chanLocal
	params := paramNames(fd)
	if params[name] {
		cl.local = true
	}
	nilInit := false
	var nilIf, setIf, other []string
	declare := func(val ast.Expr, path []pathElem) {
		cl.local = true
		switch {
		case val == nil || isIdent(val, "nil"):
			nilInit = true
		default:
			cl.initText = w.text(val)
			if id, ok := val.(*ast.Ident); ok {
				other = append(other, "alias:"+id.Name)
			}
		}
	}
	w.walkStmts(fd.Body.List, nil, func(s ast.Stmt, path []pathElem) {
		switch x := s.(type) {
		case *ast.DeclStmt:
			gd, ok := x.Decl.(*ast.GenDecl)
			if !ok || gd.Tok != token.VAR {
				return
			}
			for _, sp := range gd.Specs {
				vs := sp.(*ast.ValueSpec)
				for i, n := range vs.Names {
					if n.Name != name {
						continue
					}
					switch {
					case len(vs.Values) == 0:
						declare(nil, path)
					case len(vs.Values) == len(vs.Names):
						declare(vs.Values[i], path)
					default:
						cl.local = true
						other = append(other, unk(w.text(x)))
					}
				}
			}
		case *ast.AssignStmt:
			for i, l := range x.Lhs {
				if !isIdent(l, name) {
					continue
				}
				if len(x.Lhs) != len(x.Rhs) || (x.Tok != token.ASSIGN && x.Tok != token.DEFINE) {
					cl.local = cl.local || x.Tok == token.DEFINE
					other = append(other, unk(w.text(x)))
					continue
				}
				if x.Tok == token.DEFINE {
					declare(x.Rhs[i], path)
					continue
				}
				if isIdent(x.Rhs[i], "nil") {
					nilIf = append(nilIf, w.nilWhen(path))
				} else {
					setIf = append(setIf, pathText(dropMainFor(path))+"\x00"+w.text(x.Rhs[i]))
				}
			}
		case *ast.RangeStmt:
			if isIdent(x.Key, name) || isIdent(x.Value, name) {
				cl.local = true
				other = append(other, unk("range variable: "+w.text(x.X)))
			}
		}
	})
	if nilInit {
		if len(setIf) == 0 {
			cl.entries = append(cl.entries, "nil-always")
		}
		for _, s := range setIf {
			cl.entries = append(cl.entries, "nil-unless:"+strings.SplitN(s, "\x00", 2)[0])
		}
	} else {
		for _, s := range setIf {
			p := strings.SplitN(s, "\x00", 2)
			cl.entries = append(cl.entries, "set-if:"+p[0]+":"+p[1])
		}
	}
	cl.entries = append(cl.entries, other...)
	cl.entries = append(cl.entries, nilIf...)
	return cl
}

// positiveIfElse returns condition, then-branch and else-branch of an if/else
// with the condition in its positive spelling: `if a != b { A } else { B }` is
// returned as (a == b, B, A), `if !c { A } else { B }` as (c, B, A).
func (w *wscan) positiveIfElse(is *ast.IfStmt, els *ast.BlockStmt) (ast.Expr, []ast.Stmt, []ast.Stmt) {
	th, el := w.cleanBlock(is.Body), w.cleanBlock(els)
	if isNegative(is.Cond) {
		return negateCond(is.Cond), el, th
	}
	return is.Cond, th, el
}

// dropMainFor removes the condition-less `for { }` elements (they do not
// restrict anything).
func dropMainFor(path []pathElem) []pathElem {
	var out []pathElem
	for _, e := range path {
		if e.kind == "for" && e.text == "" {
			continue
		}
		out = append(out, e)
	}
	return out
}

// nilWhen renders the circumstances of an `x = nil`: `closed:<ch>` when it is
// exactly `case v, ok := <-ch: if !ok { x = nil }`, else `nil-if:<path>`.
func (w *wscan) nilWhen(path []pathElem) string {
	p := dropMainFor(path)
	if len(p) == 2 && p[0].kind == "arm" && p[1].kind == "if" {
		if kind, ch, lhs := commInfo(p[0].arm); kind == "recvOk" {
			if ok := identName(lhs[1]); ok != "" && ok != "_" && p[1].text == "!"+ok {
				return "closed:" + w.text(ch)
			}
		}
	}
	return "nil-if:" + pathText(p)
}

// ---------------------------------------------------------------------------
// the Scheduler Loop
// ---------------------------------------------------------------------------

// findLoop returns the function whose body has, at top level, a `for` whose
// body has, at top level, a `select` with a sending arm.
func findLoop(f *ast.File) (*ast.FuncDecl, *ast.ForStmt, *ast.SelectStmt, int) {
	for _, d := range f.Decls {
		fd, ok := d.(*ast.FuncDecl)
		if !ok || fd.Body == nil {
			continue
		}
		for i, s := range fd.Body.List {
			fs, ok := s.(*ast.ForStmt)
			if !ok {
				continue
			}
			for _, t := range fs.Body.List {
				sel, ok := t.(*ast.SelectStmt)
				if !ok {
					continue
				}
				for _, c := range sel.Body.List {
					if _, ok := c.(*ast.CommClause).Comm.(*ast.SendStmt); ok {
						return fd, fs, sel, i
					}
				}
			}
		}
	}
	return nil, nil, nil, 0
}

func (w *wscan) scanLoop(f *ast.File) {
	wf := w.wf
	fd, fs, sel, forIdx := findLoop(f)
	if fd == nil {
		m := unk("no function with a top-level `for { select { case ch <- v: ... } }` in scheduler/scheduler.go")
		wf.arms = append(wf.arms, selArm{kind: "unknown", comm: m})
		wf.afterFor = append(wf.afterFor, m)
		wf.exitConds = append(wf.exitConds, m)
		wf.resultArm = append(wf.resultArm, m)
		wf.enqueueArm = append(wf.enqueueArm, m)
		return
	}
	w.enter(fd)
	wf.roles = append(wf.roles, pair{"loopFunc", funcName(fd)})
	if fd.Recv != nil && len(fd.Recv.List) == 1 && len(fd.Recv.List[0].Names) == 1 {
		w.recvName = fd.Recv.List[0].Names[0].Name
	}

	// 1. the arms
	byKind := map[string][]*ast.CommClause{}
	for _, c := range sel.Body.List {
		cc := c.(*ast.CommClause)
		kind, ch, _ := commInfo(cc)
		a := selArm{kind: kind, comm: "default"}
		if cc.Comm != nil {
			a.comm = w.text(cc.Comm)
		}
		if kind == "unknown" {
			a.comm = unk(a.comm)
		}
		if ch != nil {
			a.ch = w.text(ch)
			if id, ok := ch.(*ast.Ident); ok {
				cl := w.chanLocalInfo(fd, id.Name)
				a.nilable = cl.local && len(cl.entries) > 0
				a.disabledWhen = cl.entries
				switch kind {
				case "send":
					w.readySrc = cl.initText
				case "recvOk":
					w.enqueueSrc = cl.initText
				}
			} else {
				switch kind {
				case "send":
					w.readySrc = a.ch
				case "recvOk":
					w.enqueueSrc = a.ch
				}
			}
		}
		byKind[kind] = append(byKind[kind], cc)
		wf.arms = append(wf.arms, a)
	}
	one := func(kind string, into *[]string) *ast.CommClause {
		l := byKind[kind]
		if len(l) == 0 {
			*into = append(*into, unk("the select has no "+kind+" arm"))
			return nil
		}
		for _, extra := range l[1:] {
			*into = append(*into, unk("another "+kind+" arm: "+w.text(extra.Comm)))
		}
		return l[0]
	}
	var scratch []string
	sendArm := one("send", &scratch)
	enqArm := one("recvOk", &wf.enqueueArm)
	resArm := one("recvVal", &wf.resultArm)

	// roles of the locals
	if sendArm != nil {
		for _, s := range w.clean(sendArm.Body) {
			if x, ok := incDec(s, token.INC); ok && identName(x) != "" && w.ongoingVar == "" {
				w.ongoingVar = identName(x)
			}
		}
		_, ch, _ := commInfo(sendArm)
		wf.roles = append(wf.roles, pair{"readyChan", w.text(ch)})
	}
	if enqArm != nil {
		_, ch, lhs := commInfo(enqArm)
		wf.roles = append(wf.roles, pair{"enqueueChan", w.text(ch)})
		jobVar := identName(lhs[0])
		for _, s := range w.clean(enqArm.Body) {
			if x, ok := incDec(s, token.INC); ok && identName(x) != "" && w.pendingVar == "" {
				w.pendingVar = identName(x)
			}
			if is, ok := s.(*ast.IfStmt); ok && is.Else != nil {
				eb, ok := is.Else.(*ast.BlockStmt)
				if !ok {
					continue
				}
				_, th, el := w.positiveIfElse(is, eb)
				if len(th) == 1 && len(el) == 1 {
					if R, ok := pushTo(th[0], jobVar); ok {
						if x, ok := incDec(el[0], token.INC); ok && identName(x) != "" {
							w.readyVar, w.waitingVar = R, identName(x)
						}
					}
				}
			}
		}
	}
	if resArm != nil {
		_, ch, _ := commInfo(resArm)
		wf.roles = append(wf.roles, pair{"resultChan", w.text(ch)})
	}
	wf.roles = append(wf.roles,
		pair{"ongoing", w.ongoingVar}, pair{"pending", w.pendingVar}, pair{"waiting", w.waitingVar},
		pair{"ready", w.readyVar}, pair{"readySrc", w.readySrc}, pair{"enqueueSrc", w.enqueueSrc})

	// 4. 5. the arm bodies (result arm first: it fixes the field names)
	if resArm != nil {
		w.scanResultArm(resArm)
	}
	if enqArm != nil {
		w.scanEnqueueArm(enqArm)
	}

	// 3. exits of the loop
	w.scanExits(fs)

	// 2. what runs when the function exits
	w.scanAfterFor(fd, forIdx)
}

func armKindOf(path []pathElem) string {
	for _, e := range path {
		if e.kind == "arm" {
			k, _, _ := commInfo(e.arm)
			return k
		}
	}
	return "loop"
}

// dropArms removes the select-arm elements (the arm is named by the prefix of
// the exit condition).
func dropArms(path []pathElem) []pathElem {
	var out []pathElem
	for _, e := range path {
		if e.kind != "arm" {
			out = append(out, e)
		}
	}
	return out
}

// scanExits: every statement leaving the for-loop, with the conditions it lies
// under, as `<arm kind or "loop">:<conjunction>`.
func (w *wscan) scanExits(fs *ast.ForStmt) {
	wf := w.wf
	if fs.Cond != nil {
		wf.exitConds = append(wf.exitConds, "loop:!("+w.text(fs.Cond)+")")
	}
	// breakable nesting depth is derived from the path: an unlabelled break
	// leaves the innermost for/switch/select, so it leaves OUR loop only when
	// none of those encloses it.
	w.walkStmts(fs.Body.List, nil, func(s ast.Stmt, path []pathElem) {
		inner := false
		for _, e := range path {
			if e.kind == "arm" || e.kind == "case" || e.kind == "for" {
				inner = true
			}
			if e.kind == "func" {
				return // a return inside a func literal does not leave the loop
			}
		}
		switch x := s.(type) {
		case *ast.ReturnStmt:
			wf.exitConds = append(wf.exitConds, armKindOf(path)+":"+pathText(dropArms(path)))
		case *ast.BranchStmt:
			switch x.Tok {
			case token.BREAK:
				if x.Label != nil {
					// a labelled break: conservatively an exit unless the label is known to be inner
					wf.exitConds = append(wf.exitConds, unk("labelled "+w.text(x)+" under "+pathText(path)))
				} else if !inner {
					wf.exitConds = append(wf.exitConds, armKindOf(path)+":"+pathText(dropArms(path)))
				}
			case token.GOTO:
				wf.exitConds = append(wf.exitConds, unk(w.text(x)+" under "+pathText(path)))
			}
		case *ast.ExprStmt:
			if c, ok := x.X.(*ast.CallExpr); ok {
				if isIdent(c.Fun, "panic") {
					wf.exitConds = append(wf.exitConds, unk("panic under "+pathText(path)))
				}
				if f, ok := selOn(c.Fun, "runtime"); ok && f == "Goexit" {
					wf.exitConds = append(wf.exitConds, unk("Goexit under "+pathText(path)))
				}
			}
		}
	})
	if len(wf.exitConds) == 0 {
		wf.exitConds = append(wf.exitConds, unk("the loop has no exit"))
	}
}

// exitStmt recognises one statement executed when the loop function exits.
func (w *wscan) exitStmt(s ast.Stmt) []string {
	closeMark := func(c *ast.CallExpr) (string, bool) {
		if !isIdent(c.Fun, "close") || len(c.Args) != 1 {
			return "", false
		}
		t := w.text(c.Args[0])
		switch {
		case w.readySrc != "" && t == w.readySrc:
			return "closeReady:" + t, true
		case w.finishedChan != "" && t == w.finishedChan:
			return "closeFinished:" + t, true
		}
		return unk(w.text(c)), true
	}
	switch x := s.(type) {
	case *ast.RangeStmt, *ast.ForStmt:
		// for range ch {}  /  for { if _, ok := <-ch; !ok { break } }
		if cl, ok := asChanLoop(s, w.clean); ok && cl.key == nil && len(w.clean(cl.body)) == 0 {
			return []string{"drain:" + w.text(cl.ch)}
		}
	case *ast.ExprStmt:
		if c, ok := x.X.(*ast.CallExpr); ok {
			if m, ok := closeMark(c); ok {
				return []string{m}
			}
		}
	case *ast.DeferStmt:
		c := x.Call
		if m, ok := closeMark(c); ok {
			return []string{m}
		}
		if fl, ok := c.Fun.(*ast.FuncLit); ok && len(c.Args) == 0 {
			var out []string
			for _, t := range w.clean(fl.Body.List) {
				out = append(out, w.exitStmt(t)...)
			}
			return out
		}
		if f, ok := selOn(c.Fun, ""); ok && f == "Stop" && len(c.Args) == 0 {
			return []string{"stopTicker:" + w.text(c.Fun.(*ast.SelectorExpr).X)}
		}
	case *ast.ReturnStmt:
		if len(x.Results) == 0 {
			return nil
		}
	}
	return []string{unk(w.text(s))}
}

func condMark(m, cond string) string {
	if strings.HasPrefix(m, "unknown:") {
		return m
	}
	name := m
	if i := strings.Index(m, ":"); i >= 0 {
		name = m[:i]
	}
	return "cond-" + name + ":" + cond
}

func (w *wscan) scanAfterFor(fd *ast.FuncDecl, forIdx int) {
	wf := w.wf
	// statements after the loop, in order
	for _, s := range w.clean(fd.Body.List[forIdx+1:]) {
		if _, ok := s.(*ast.DeferStmt); ok {
			wf.afterFor = append(wf.afterFor, unk("defer after the loop: "+w.text(s)))
			continue
		}
		wf.afterFor = append(wf.afterFor, w.exitStmt(s)...)
	}
	// deferred calls, registered before the loop; run in reverse
	var regs [][]string
	var collect func(list []ast.Stmt, cond string)
	collect = func(list []ast.Stmt, cond string) {
		for _, s := range w.clean(list) {
			switch x := s.(type) {
			case *ast.DeferStmt:
				ms := w.exitStmt(x)
				if cond != "" {
					for i := range ms {
						ms[i] = condMark(ms[i], cond)
					}
				}
				regs = append(regs, ms)
			case *ast.IfStmt:
				c := "(" + w.condText(x) + ")"
				if cond != "" {
					c = cond + " && " + c
				}
				collect(x.Body.List, c)
				if x.Else != nil {
					ec := "!(" + w.condText(x) + ")"
					if cond != "" {
						ec = cond + " && " + ec
					}
					if eb, ok := x.Else.(*ast.BlockStmt); ok {
						collect(eb.List, ec)
					} else {
						collect([]ast.Stmt{x.Else}, ec)
					}
				}
			case *ast.BlockStmt:
				collect(x.List, cond)
			}
		}
	}
	collect(fd.Body.List[:forIdx], "")
	for i := len(regs) - 1; i >= 0; i-- {
		wf.afterFor = append(wf.afterFor, regs[i]...)
	}
	// a defer inside the loop body would run at exit too
	w.walkStmts(fd.Body.List[forIdx:forIdx+1], nil, func(s ast.Stmt, path []pathElem) {
		if _, ok := s.(*ast.DeferStmt); ok {
			wf.afterFor = append(wf.afterFor, unk("defer inside the loop: "+w.text(s)))
		}
	})
}

// ---------------------------------------------------------------------------
// result arm
// ---------------------------------------------------------------------------

// rangeOverField matches `for _, v := range <base>.<field> { ... }`.
func rangeOverField(s ast.Stmt, base string) (rs *ast.RangeStmt, field, v string, ok bool) {
	rs, ok = s.(*ast.RangeStmt)
	if !ok || rs.Tok != token.DEFINE || !isIdent(rs.Key, "_") || rs.Value == nil {
		return nil, "", "", false
	}
	field, ok = selOn(rs.X, base)
	if !ok {
		return nil, "", "", false
	}
	v = identName(rs.Value)
	return rs, field, v, v != ""
}

func (w *wscan) scanResultArm(cc *ast.CommClause) {
	out := &w.wf.resultArm
	add := func(m string) { *out = append(*out, m) }
	_, _, lhs := commInfo(cc)
	resVar := identName(lhs[0])
	jobVar := ""
	errStore := "" // the scheduler-level error the fail-fast exit records into

	isAppendErr := func(s ast.Stmt, errVar string) (string, bool) {
		l, r, ok := assign1(s, token.ASSIGN)
		if !ok {
			return "", false
		}
		c, ok := r.(*ast.CallExpr)
		if !ok || len(c.Args) != 2 {
			return "", false
		}
		if f, ok := selOn(c.Fun, "multierr"); !ok || f != "Append" {
			return "", false
		}
		if w.text(c.Args[0]) != w.text(l) || !isIdent(c.Args[1], errVar) {
			return "", false
		}
		return w.text(l), true
	}

	errBranch := func(is *ast.IfStmt, errVar string) {
		add("errBranch:" + w.condText(is))
		for _, s := range w.cleanBlock(is.Body) {
			// job.err = err
			if l, r, ok := assign1(s, token.ASSIGN); ok && isIdent(r, errVar) {
				if f, ok := selOn(l, jobVar); ok && jobVar != "" {
					w.errField = f
					add("setErr:" + w.text(s))
					continue
				}
			}
			if is2, ok := s.(*ast.IfStmt); ok && is2.Init == nil && is2.Else == nil {
				body := w.cleanBlock(is2.Body)
				// if !coe { s.err = err; return }
				if len(body) == 2 {
					l, r, ok1 := assign1(body[0], token.ASSIGN)
					ret, ok2 := body[1].(*ast.ReturnStmt)
					if ok1 && ok2 && len(ret.Results) == 0 && isIdent(r, errVar) {
						if _, ok := selOn(l, w.recvName); ok && w.recvName != "" {
							errStore = w.text(l)
							add("errRecordFailFast:" + w.text(is2.Cond))
							continue
						}
					}
				}
				// if <filter> { s.err = multierr.Append(s.err, err) }
				if len(body) == 1 {
					if st, ok := isAppendErr(body[0], errVar); ok {
						if errStore != "" && st != errStore {
							add(unk("appends to " + st + " but the fail-fast exit records into " + errStore + ": " + w.text(s)))
						} else {
							add("sentinelFilter:" + w.text(is2.Cond))
						}
						continue
					}
				}
			}
			if st, ok := isAppendErr(s, errVar); ok {
				add("appendErr:" + st)
				continue
			}
			// for _, c := range job.consumers { c.invalid = true }
			if rs, field, v, ok := rangeOverField(s, jobVar); ok && jobVar != "" {
				body := w.cleanBlock(rs.Body)
				if len(body) == 1 {
					if l, r, ok := assign1(body[0], token.ASSIGN); ok && isIdent(r, "true") {
						if f, ok := selOn(l, v); ok {
							w.invalidField = f
							if w.consumersField == "" {
								w.consumersField = field
							} else if w.consumersField != field {
								add(unk("marks " + field + ", not " + w.consumersField + ": " + w.text(s)))
								continue
							}
							add("markInvalid:" + w.text(rs.X) + " " + w.text(body[0]))
							continue
						}
					}
				}
			}
			add(unk(w.text(s)))
		}
		if is.Else != nil {
			add(unk("else of the error branch: " + w.text(is.Else)))
		}
		add("errBranchEnd")
	}

	for _, s := range w.clean(cc.Body) {
		// job := res.Job
		if l, r, ok := assign1(s, token.DEFINE); ok && jobVar == "" {
			if _, ok := selOn(r, resVar); ok && identName(l) != "" {
				jobVar = identName(l)
				add("bindJob:" + w.text(s))
				continue
			}
		}
		// job.done = true
		if l, r, ok := assign1(s, token.ASSIGN); ok && isIdent(r, "true") && jobVar != "" {
			if f, ok := selOn(l, jobVar); ok && w.doneField == "" {
				w.doneField = f
				add("setDone:" + w.text(s))
				continue
			}
		}
		if x, ok := incDec(s, token.DEC); ok {
			switch n := identName(x); {
			case n != "" && n == w.pendingVar:
				add("pendingDec")
				continue
			case n != "" && n == w.ongoingVar:
				add("ongoingDec")
				continue
			}
		}
		if is, ok := s.(*ast.IfStmt); ok {
			// if err := res.Err; err != nil { ... }   /   if res.Err != nil { ... }
			if x, ok := cmpNil(is.Cond, token.NEQ); ok {
				errVar := ""
				if is.Init != nil {
					if l, r, ok := assign1(is.Init, token.DEFINE); ok && isIdent(x, identName(l)) {
						if _, ok := selOn(r, resVar); ok {
							errVar = identName(l)
						}
					}
				}
				if errVar != "" {
					errBranch(is, errVar)
					continue
				}
			}
		}
		// notify
		if rs, field, v, ok := rangeOverField(s, jobVar); ok && jobVar != "" {
			body := w.cleanBlock(rs.Body)
			if len(body) == 2 {
				x, ok1 := incDec(body[0], token.DEC)
				is, ok2 := body[1].(*ast.IfStmt)
				if ok1 && ok2 && is.Init == nil && is.Else == nil {
					rem, ok3 := selOn(x, v)
					be, ok4 := is.Cond.(*ast.BinaryExpr)
					if ok3 && ok4 && be.Op == token.EQL && w.text(be.X) == w.text(x) && w.text(be.Y) == "0" {
						decW, pushed, bad := false, false, false
						for _, t := range w.cleanBlock(is.Body) {
							if y, ok := incDec(t, token.DEC); ok && identName(y) == w.waitingVar && w.waitingVar != "" && !decW {
								decW = true
							} else if R, ok := pushTo(t, v); ok && R == w.readyVar && w.readyVar != "" && !pushed {
								pushed = true
							} else {
								bad = true
							}
						}
						if decW && pushed && !bad {
							w.remainingField = rem
							if w.consumersField != "" && w.consumersField != field {
								add(unk("notifies " + field + ", but marks " + w.consumersField + " invalid: " + w.text(s)))
							} else {
								w.consumersField = field
								add("notify:" + w.text(rs.X))
							}
							continue
						}
					}
				}
			}
		}
		add(unk(w.text(s)))
	}
}

// ---------------------------------------------------------------------------
// enqueue arm
// ---------------------------------------------------------------------------

func (w *wscan) scanEnqueueArm(cc *ast.CommClause) {
	out := &w.wf.enqueueArm
	add := func(m string) { *out = append(*out, m) }
	_, ch, lhs := commInfo(cc)
	jobVar, okVar := identName(lhs[0]), identName(lhs[1])
	remText := ""
	pendingSeen := false

	depLoop := func(rs *ast.RangeStmt, dep string) {
		add("forDeps:" + w.text(rs.X))
		for _, s := range w.cleanBlock(rs.Body) {
			if is, ok := s.(*ast.IfStmt); ok && is.Init == nil && is.Else == nil {
				if f, ok := selOn(is.Cond, dep); ok {
					body := w.cleanBlock(is.Body)
					last, isCont := ast.Stmt(nil), false
					if len(body) > 0 {
						last = body[len(body)-1]
						if b, ok := last.(*ast.BranchStmt); ok && b.Tok == token.CONTINUE && b.Label == nil {
							isCont = true
						}
					}
					if isCont {
						if w.doneField != "" && f != w.doneField {
							add(unk("late-enqueue check reads ." + f + " but the result arm sets ." + w.doneField + ": " + w.text(is.Cond)))
						} else {
							add("depDoneCheck:" + w.text(is.Cond))
						}
						for _, t := range body[:len(body)-1] {
							if is2, ok := t.(*ast.IfStmt); ok && is2.Init == nil && is2.Else == nil {
								if x, ok := cmpNil(is2.Cond, token.NEQ); ok {
									ef, ok1 := selOn(x, dep)
									b2 := w.cleanBlock(is2.Body)
									if ok1 && len(b2) == 1 {
										if l, r, ok := assign1(b2[0], token.ASSIGN); ok && isIdent(r, "true") {
											if inv, ok := selOn(l, jobVar); ok {
												switch {
												case w.errField != "" && ef != w.errField:
													add(unk("reads ." + ef + " but the result arm records the error in ." + w.errField + ": " + w.text(t)))
												case w.invalidField != "" && inv != w.invalidField:
													add(unk("sets ." + inv + " but the result arm invalidates through ." + w.invalidField + ": " + w.text(t)))
												default:
													add("depErrInvalidates:" + w.text(is2.Cond) + " => " + w.text(b2[0]))
												}
												continue
											}
										}
									}
								}
							}
							add(unk(w.text(t)))
						}
						add("depSkip")
						continue
					}
				}
			}
			// dep.consumers = append(dep.consumers, job)
			if l, r, ok := assign1(s, token.ASSIGN); ok {
				if f, ok := selOn(l, dep); ok {
					if c, ok := r.(*ast.CallExpr); ok && isIdent(c.Fun, "append") && len(c.Args) == 2 &&
						w.text(c.Args[0]) == w.text(l) && isIdent(c.Args[1], jobVar) && !c.Ellipsis.IsValid() {
						if w.consumersField != "" && f != w.consumersField {
							add(unk("registers in ." + f + " but the result arm notifies ." + w.consumersField + ": " + w.text(s)))
						} else {
							add("addConsumer:" + w.text(s))
						}
						continue
					}
				}
			}
			// job.remaining++
			if x, ok := incDec(s, token.INC); ok {
				if f, ok := selOn(x, jobVar); ok {
					if w.remainingField != "" && f != w.remainingField {
						add(unk("counts in ." + f + " but the result arm decrements ." + w.remainingField + ": " + w.text(s)))
					} else {
						remText = w.text(x)
						add("remainingInc:" + remText)
					}
					continue
				}
			}
			add(unk(w.text(s)))
		}
		add("endDeps")
	}

	for _, s := range w.clean(cc.Body) {
		if is, ok := s.(*ast.IfStmt); ok && is.Init == nil {
			// if !ok { ch = nil; break }
			if is.Else == nil && okVar != "" && w.text(is.Cond) == "!"+okVar {
				body := w.cleanBlock(is.Body)
				if len(body) == 2 {
					l, r, ok1 := assign1(body[0], token.ASSIGN)
					b, ok2 := body[1].(*ast.BranchStmt)
					if ok1 && ok2 && b.Tok == token.BREAK && b.Label == nil && isIdent(r, "nil") {
						if w.text(l) == w.text(ch) && identName(ch) != "" {
							add("closedSetsNil:" + w.text(body[0]))
						} else {
							add(unk("on close sets " + w.text(l) + " to nil, but the arm receives from " + w.text(ch)))
						}
						continue
					}
				}
			}
			// if job.remaining == 0 { push } else { waiting++ }
			if eb, ok := is.Else.(*ast.BlockStmt); ok {
				cond, th, el := w.positiveIfElse(is, eb)
				if len(th) == 1 && len(el) == 1 {
					R, ok1 := pushTo(th[0], jobVar)
					x, ok2 := incDec(el[0], token.INC)
					if ok1 && ok2 && R == w.readyVar && identName(x) == w.waitingVar && w.waitingVar != "" {
						if remText != "" && w.text(cond) == remText+" == 0" {
							add("readyIfZero:" + w.text(cond))
							add("waitingInc")
						} else {
							add(unk("readiness test is not `" + remText + " == 0`: " + w.text(cond)))
						}
						continue
					}
				}
			}
		}
		if rs, _, dep, ok := rangeOverField(s, jobVar); ok {
			depLoop(rs, dep)
			continue
		}
		if x, ok := incDec(s, token.INC); ok && identName(x) == w.pendingVar && w.pendingVar != "" && !pendingSeen {
			pendingSeen = true
			add("pendingInc")
			continue
		}
		add(unk(w.text(s)))
	}
}

// ---------------------------------------------------------------------------
// worker
// ---------------------------------------------------------------------------

// findWorker: the function started with `go f(...)` by the constructor (a
// method named New), else the function named worker.
func findWorker(f *ast.File) *ast.FuncDecl {
	byName := map[string]*ast.FuncDecl{}
	for _, d := range f.Decls {
		if fd, ok := d.(*ast.FuncDecl); ok && fd.Recv == nil && fd.Body != nil {
			byName[fd.Name.Name] = fd
		}
	}
	var names []string
	for _, d := range f.Decls {
		fd, ok := d.(*ast.FuncDecl)
		if !ok || fd.Body == nil || fd.Name.Name != "New" {
			continue
		}
		ast.Inspect(fd.Body, func(n ast.Node) bool {
			if g, ok := n.(*ast.GoStmt); ok {
				if id, ok := g.Call.Fun.(*ast.Ident); ok && byName[id.Name] != nil {
					names = append(names, id.Name)
				}
			}
			return true
		})
	}
	sort.Strings(names)
	if len(names) > 0 {
		return byName[names[0]]
	}
	return byName["worker"]
}

type branch struct {
	head string // init + condition as text ("" for else / default)
	init ast.Stmt
	cond ast.Expr
	body []ast.Stmt
}

// branchesOf flattens an if / else-if / else chain, or a tagless switch, into
// its branches in evaluation order.
func (w *wscan) branchesOf(s ast.Stmt) ([]branch, bool) {
	switch x := s.(type) {
	case *ast.IfStmt:
		var out []branch
		for cur := x; ; {
			out = append(out, branch{head: w.condText(cur), init: cur.Init, cond: cur.Cond, body: cur.Body.List})
			switch e := cur.Else.(type) {
			case nil:
				return out, true
			case *ast.IfStmt:
				cur = e
				continue
			case *ast.BlockStmt:
				out = append(out, branch{body: e.List})
				return out, true
			}
			return nil, false
		}
	case *ast.SwitchStmt:
		if x.Tag != nil {
			return nil, false
		}
		var out []branch
		var def *branch
		for i, c := range x.Body.List {
			cc := c.(*ast.CaseClause)
			for _, t := range cc.Body {
				if b, ok := t.(*ast.BranchStmt); ok && b.Tok == token.FALLTHROUGH {
					return nil, false
				}
			}
			if cc.List == nil {
				if i != len(x.Body.List)-1 {
					return nil, false // default not last: keep it simple
				}
				def = &branch{body: cc.Body}
				continue
			}
			if len(cc.List) != 1 {
				return nil, false
			}
			b := branch{head: w.text(cc.List[0]), cond: cc.List[0], body: cc.Body}
			if i == 0 && x.Init != nil {
				b.init = x.Init
				b.head = w.text(x.Init) + "; " + b.head
			}
			out = append(out, b)
		}
		if x.Init != nil && (len(out) == 0 || out[0].init == nil) {
			return nil, false
		}
		if def != nil {
			out = append(out, *def)
		}
		return out, true
	}
	return nil, false
}

// ctxErrCall: e is `<j>.ctx.Err()` or `ctx.Err()`.
func ctxErrCall(e ast.Expr, j string) bool {
	c, ok := e.(*ast.CallExpr)
	if !ok || len(c.Args) != 0 {
		return false
	}
	se, ok := c.Fun.(*ast.SelectorExpr)
	if !ok || se.Sel.Name != "Err" {
		return false
	}
	if f, ok := selOn(se.X, j); ok && f == "ctx" {
		return true
	}
	return false
}

func (w *wscan) scanWorker(f *ast.File) {
	out := &w.wf.worker
	add := func(m string) { *out = append(*out, m) }
	fd := findWorker(f)
	if fd == nil {
		add(unk("no worker function (started with `go` by New, or named worker)"))
		return
	}
	w.enter(fd)
	w.wf.roles = append(w.wf.roles, pair{"workerFunc", fd.Name.Name})
	var params []string
	readyP, doneP := "", ""
	for _, fl := range fd.Type.Params.List {
		for _, n := range fl.Names {
			params = append(params, n.Name)
			if ct, ok := fl.Type.(*ast.ChanType); ok {
				switch {
				case ct.Dir == ast.RECV && readyP == "":
					readyP = n.Name
				case ct.Dir == ast.SEND && doneP == "":
					doneP = n.Name
				}
			}
		}
	}
	if readyP == "" || doneP == "" {
		add(unk("worker parameters are not (<-chan job, chan<- result): " + w.text(fd.Type)))
	}
	guardVar := ""

	isRespawn := func(s ast.Stmt) (bool, bool) {
		g, ok := s.(*ast.GoStmt)
		if !ok {
			return false, false
		}
		if !isIdent(g.Call.Fun, fd.Name.Name) || len(g.Call.Args) != len(params) {
			return true, false
		}
		for i, a := range g.Call.Args {
			if !isIdent(a, params[i]) {
				return true, false
			}
		}
		return true, true
	}

	var deferred func(list []ast.Stmt, cond string)
	deferred = func(list []ast.Stmt, cond string) {
		mark := func(m string) {
			if cond != "" {
				m = condMark(m, cond)
			}
			add(m)
		}
		stmts := w.clean(list)
		for i, s := range stmts {
			if is, ok := s.(*ast.IfStmt); ok && is.Init == nil {
				body := w.cleanBlock(is.Body)
				if len(body) == 1 && is.Else == nil && i == 0 && cond == "" && guardVar == "" && identName(is.Cond) != "" {
					if r, ok := body[0].(*ast.ReturnStmt); ok && len(r.Results) == 0 {
						guardVar = identName(is.Cond)
						add("deferGuard:" + w.text(is.Cond))
						continue
					}
				}
				// the same guard the other way round: the whole deferred function is
				// `if !clean { ... }`
				if is.Else == nil && i == 0 && len(stmts) == 1 && cond == "" && guardVar == "" && isNegative(is.Cond) && identName(negateCond(is.Cond)) != "" {
					guardVar = identName(negateCond(is.Cond))
					add("deferGuard:" + guardVar)
					deferred(is.Body.List, "")
					continue
				}
				if is.Else == nil {
					c := "(" + w.text(is.Cond) + ")"
					if cond != "" {
						c = cond + " && " + c
					}
					deferred(is.Body.List, c)
					continue
				}
			}
			if ss, ok := s.(*ast.SendStmt); ok && isIdent(ss.Chan, doneP) && doneP != "" {
				mark("deferPost:" + w.text(ss.Value))
				continue
			}
			if isGo, ok := isRespawn(s); isGo {
				if ok {
					mark("respawn")
				} else {
					add(unk(w.text(s)))
				}
				continue
			}
			add(unk(w.text(s)))
		}
	}

	loopBody := func(cl chanLoop) {
		j := identName(cl.key)
		resVar := ""
		// `e := j.ctx.Err()` bound once, ahead of the chain that tests it: the chain is
		// read as if it had the binding in its header (`if e := j.ctx.Err(); e != nil`)
		ctxHoist := map[string]ast.Stmt{}
		for _, s := range w.clean(cl.body) {
			if l, r, ok := assign1(s, token.DEFINE); ok && identName(l) != "" && ctxErrCall(r, j) && w.ld.constant(identName(l)) {
				ctxHoist[identName(l)] = s
				continue
			}
			// res := jobResult{Job: j}
			if l, r, ok := assign1(s, token.DEFINE); ok && resVar == "" {
				if _, ok := r.(*ast.CompositeLit); ok && identName(l) != "" {
					resVar = identName(l)
					add("mkResult:" + w.text(s))
					continue
				}
			}
			// currentJob = j / currentJob = nil
			if l, r, ok := assign1(s, token.ASSIGN); ok && identName(l) != "" {
				switch {
				case isIdent(r, j):
					add("setCurrent:" + w.text(s))
					continue
				case isIdent(r, "nil"):
					add("clearCurrent:" + w.text(s))
					continue
				}
			}
			if ss, ok := s.(*ast.SendStmt); ok && isIdent(ss.Chan, doneP) && doneP != "" && isIdent(ss.Value, resVar) {
				add("post:" + w.text(s))
				continue
			}
			if brs, ok := w.branchesOf(s); ok {
				recognised := true
				var ms []string
				for bi, b := range brs {
					body := w.clean(b.body)
					var l, r ast.Expr
					one := false
					if len(body) == 1 {
						l, r, one = assign1(body[0], token.ASSIGN)
						if one {
							if _, ok := selOn(l, resVar); !ok || resVar == "" {
								one = false
							}
						}
					}
					switch {
					case b.cond == nil: // else / default
						if c, ok := r.(*ast.CallExpr); one && ok && len(c.Args) == 1 {
							if f, ok := selOn(c.Fun, j); ok && f == "run" {
								ms = append(ms, "run:"+w.text(body[0]))
								continue
							}
						}
						recognised = false
					default:
						// context check
						if x, ok := cmpNil(b.cond, token.NEQ); ok {
							errVar := ""
							head := b.head
							if b.init != nil {
								if il, ir, ok := assign1(b.init, token.DEFINE); ok && ctxErrCall(ir, j) && isIdent(x, identName(il)) {
									errVar = identName(il)
								}
							} else if ctxErrCall(x, j) {
								errVar = "\x00"
							} else if def, ok := ctxHoist[identName(x)]; ok && bi == 0 {
								errVar = identName(x)
								head = w.text(def) + "; " + head
							}
							if errVar != "" {
								ms = append(ms, "ctxCheck:"+head)
								if one && (isIdent(r, errVar) || (errVar == "\x00" && ctxErrCall(r, j))) {
									ms = append(ms, "ctxSkip:"+w.text(body[0]))
								} else {
									ms = append(ms, unk("body of the context check: "+w.r.text(&ast.BlockStmt{List: body})))
								}
								continue
							}
						}
						// invalid check
						if f, ok := selOn(b.cond, j); ok && b.init == nil {
							if w.invalidField != "" && f != w.invalidField {
								ms = append(ms, unk("worker reads ."+f+" but the loop invalidates through ."+w.invalidField))
							} else {
								ms = append(ms, "invalidCheck:"+b.head)
							}
							if one && isIdent(r, "errJobInvalid") {
								ms = append(ms, "invalidSkip:"+w.text(body[0]))
							} else {
								ms = append(ms, unk("body of the invalid check: "+w.r.text(&ast.BlockStmt{List: body})))
							}
							continue
						}
						recognised = false
					}
				}
				if recognised {
					for _, m := range ms {
						add(m)
					}
					continue
				}
			}
			// an unguarded run
			if l, r, ok := assign1(s, token.ASSIGN); ok {
				if _, ok := selOn(l, resVar); ok {
					if c, ok := r.(*ast.CallExpr); ok {
						if f, ok := selOn(c.Fun, j); ok && f == "run" {
							add("runUnguarded:" + w.text(s))
							continue
						}
					}
				}
			}
			add(unk(w.text(s)))
		}
	}

	for _, s := range w.clean(fd.Body.List) {
		switch x := s.(type) {
		case *ast.DeclStmt:
			if gd, ok := x.Decl.(*ast.GenDecl); ok && gd.Tok == token.VAR {
				plain := true
				for _, sp := range gd.Specs {
					if len(sp.(*ast.ValueSpec).Values) != 0 {
						plain = false
					}
				}
				if plain {
					continue
				}
			}
		case *ast.DeferStmt:
			if fl, ok := x.Call.Fun.(*ast.FuncLit); ok && len(x.Call.Args) == 0 {
				add("defer")
				deferred(fl.Body.List, "")
				add("endDefer")
				continue
			}
		case *ast.RangeStmt, *ast.ForStmt:
			// for j := range readyc { ... }  /  for { j, ok := <-readyc; if !ok { break }; ... }
			if cl, ok := asChanLoop(s, w.clean); ok && identName(cl.key) != "" && isIdent(cl.ch, readyP) && readyP != "" {
				add("rangeReady:" + w.text(cl.key) + " := range " + w.text(cl.ch))
				loopBody(cl)
				add("endRange")
				continue
			}
		case *ast.AssignStmt:
			if l, r, ok := assign1(s, token.ASSIGN); ok && isIdent(r, "true") && guardVar != "" && isIdent(l, guardVar) {
				add("markCleanExit:" + w.text(s))
				continue
			}
		}
		add(unk(w.text(s)))
	}
}

// ---------------------------------------------------------------------------
// Wait and Enqueue
// ---------------------------------------------------------------------------

func findMethod(f *ast.File, name string) *ast.FuncDecl {
	for _, d := range f.Decls {
		if fd, ok := d.(*ast.FuncDecl); ok && fd.Body != nil && funcName(fd) == name {
			return fd
		}
	}
	return nil
}

// ctxParam: the name of the parameter of type context.Context.
func ctxParam(fd *ast.FuncDecl) string {
	for _, fl := range fd.Type.Params.List {
		if f, ok := selOn(fl.Type, "context"); ok && f == "Context" && len(fl.Names) == 1 {
			return fl.Names[0].Name
		}
	}
	return ""
}

// returnsOf summarises an arm body: `returns:<e>`, `returns:<a> ?: <b>` for
// `v := a; if v == nil { v = b }; return v`, and `unknown:` for anything else.
func (w *wscan) returnsOf(list []ast.Stmt) []string {
	body := w.clean(list)
	if len(body) == 1 {
		if r, ok := body[0].(*ast.ReturnStmt); ok && len(r.Results) == 1 {
			return []string{"returns:" + w.text(r.Results[0])}
		}
	}
	if len(body) == 3 {
		l, a, ok1 := assign1(body[0], token.DEFINE)
		is, ok2 := body[1].(*ast.IfStmt)
		r, ok3 := body[2].(*ast.ReturnStmt)
		if ok1 && ok2 && ok3 && identName(l) != "" && is.Init == nil && is.Else == nil && len(r.Results) == 1 && isIdent(r.Results[0], identName(l)) {
			if x, ok := cmpNil(is.Cond, token.EQL); ok && isIdent(x, identName(l)) {
				ib := w.cleanBlock(is.Body)
				if len(ib) == 1 {
					if l2, b, ok := assign1(ib[0], token.ASSIGN); ok && isIdent(l2, identName(l)) {
						return []string{"returns:" + w.text(a) + " ?: " + w.text(b)}
					}
				}
			}
		}
	}
	var out []string
	for _, s := range body {
		if r, ok := s.(*ast.ReturnStmt); ok && len(r.Results) == 1 {
			out = append(out, "returns:"+w.text(r.Results[0]))
		} else {
			out = append(out, unk(w.text(s)))
		}
	}
	if len(out) == 0 {
		out = append(out, unk("empty arm"))
	}
	return out
}

func (w *wscan) scanWait(f *ast.File) {
	out := &w.wf.wait
	add := func(m string) { *out = append(*out, m) }
	fd := findMethod(f, "Scheduler.Wait")
	if fd == nil {
		add(unk("no method Scheduler.Wait"))
		return
	}
	w.enter(fd)
	ctx := ctxParam(fd)
	isDone := func(e ast.Expr) bool {
		c, ok := e.(*ast.CallExpr)
		if !ok || len(c.Args) != 0 {
			return false
		}
		f, ok := selOn(c.Fun, ctx)
		return ok && ctx != "" && f == "Done"
	}
	for _, s := range w.clean(fd.Body.List) {
		switch x := s.(type) {
		case *ast.ExprStmt:
			if c, ok := x.X.(*ast.CallExpr); ok && isIdent(c.Fun, "close") && len(c.Args) == 1 {
				add("closeEnqueue:" + w.text(c.Args[0]))
				continue
			}
			if ch, ok := recvOf(x.X); ok && !isDone(ch) {
				w.finishedChan = w.text(ch)
				add("finished:" + w.text(ch))
				continue
			}
		case *ast.SelectStmt:
			add("select")
			for _, c := range x.Body.List {
				cc := c.(*ast.CommClause)
				kind, ch, _ := commInfo(cc)
				switch {
				case kind == "recv" && isDone(ch):
					add("ctxDone:" + w.text(ch))
				case kind == "recv":
					if w.finishedChan == "" {
						w.finishedChan = w.text(ch)
						add("finished:" + w.text(ch))
					} else {
						add(unk("another receive arm: " + w.text(cc.Comm)))
					}
				case kind == "default":
					add(unk("default arm"))
				default:
					add(unk("arm: " + w.text(cc.Comm)))
				}
				for _, m := range w.returnsOf(cc.Body) {
					add(m)
				}
			}
			add("endSelect")
			continue
		case *ast.ReturnStmt:
			if len(x.Results) == 1 {
				add("returns:" + w.text(x.Results[0]))
				continue
			}
		}
		add(unk(w.text(s)))
	}
}

func (w *wscan) scanEnqueue(f *ast.File) {
	out := &w.wf.enqueue
	add := func(m string) { *out = append(*out, m) }
	fd := findMethod(f, "Scheduler.Enqueue")
	if fd == nil {
		add(unk("no method Scheduler.Enqueue"))
		return
	}
	w.enter(fd)
	for _, s := range w.clean(fd.Body.List) {
		switch x := s.(type) {
		case *ast.AssignStmt:
			if l, r, ok := assign1(s, token.DEFINE); ok && identName(l) != "" {
				if ue, ok := r.(*ast.UnaryExpr); ok && ue.Op == token.AND {
					if cl, ok := ue.X.(*ast.CompositeLit); ok && isIdent(cl.Type, "ScheduledJob") {
						var es []string
						for _, e := range cl.Elts {
							es = append(es, w.text(e))
						}
						add("mkJob:" + identName(l) + " := {" + strings.Join(es, ", ") + "}")
						continue
					}
				}
			}
		case *ast.SendStmt:
			add("send:" + w.text(x))
			continue
		case *ast.SelectStmt:
			add("selectAroundSend")
			for _, c := range x.Body.List {
				cc := c.(*ast.CommClause)
				switch kind, _, _ := commInfo(cc); kind {
				case "send":
					add("send:" + w.text(cc.Comm))
				case "default":
					add("arm:default")
				default:
					add("arm:" + w.text(cc.Comm))
				}
				for _, t := range w.clean(cc.Body) {
					add("armBody:" + w.text(t))
				}
			}
			add("endSelect")
			continue
		case *ast.ReturnStmt:
			if len(x.Results) == 1 {
				add("returns:" + w.text(x.Results[0]))
				continue
			}
		}
		add(unk(w.text(s)))
	}
}

// ---------------------------------------------------------------------------

func (r *repo) scanSchedulerWiring(wf *wiringFacts) {
	const rel = "scheduler/scheduler.go"
	sf, err := r.parseGo(rel)
	if err != nil {
		m := unk(oneLine(err.Error()))
		wf.arms = append(wf.arms, selArm{kind: "unknown", comm: m})
		for _, l := range []*[]string{&wf.afterFor, &wf.exitConds, &wf.resultArm, &wf.enqueueArm, &wf.worker, &wf.wait, &wf.enqueue} {
			*l = append(*l, m)
		}
		return
	}
	w := &wscan{r: r, wf: wf, file: sf.ast, written: r.fieldsWrittenIn("scheduler")}
	w.scanWait(sf.ast) // fixes the finished channel
	w.scanLoop(sf.ast) // fixes the field names
	w.scanWorker(sf.ast)
	w.scanEnqueue(sf.ast)
}

func renderWiring(b *strings.Builder, wf *wiringFacts) {
	strs := func(l []string) []string {
		q := make([]string, len(l))
		for i, s := range l {
			q[i] = leanStr(s)
		}
		return q
	}
	var items []string
	for _, a := range wf.arms {
		items = append(items, fmt.Sprintf("{ kind := %s, comm := %s, chan := %s,\n    chanIsLocalNilable := %s, disabledWhen := %s }",
			leanStr(a.kind), leanStr(a.comm), leanStr(a.ch), leanBool(a.nilable), leanStrList(a.disabledWhen)))
	}
	b.WriteString("/-- The arms of the Scheduler Loop's select, in source order (see `SelArm`). -/\n")
	writeList(b, "loopSelectArms", "SelArm", items)
	b.WriteString("/-- Roles of the Scheduler Loop's locals, resolved from the structure of the arms: (role, source text). -/\n")
	writeList(b, "loopRoles", "(String × String)", pairs(wf.roles))
	b.WriteString("/-- What runs when the Scheduler Loop's function exits, in execution order: statements after the\n    `for`, then the deferred calls in reverse order of registration. -/\n")
	writeList(b, "loopAfterFor", "String", strs(wf.afterFor))
	b.WriteString("/-- Every way out of the Scheduler Loop's `for`: `<arm kind or loop>:<conditions it lies under>`. -/\n")
	writeList(b, "loopExitConds", "String", strs(wf.exitConds))
	b.WriteString("/-- Body of the result arm (`res := <-donec`), as ordered markers. -/\n")
	writeList(b, "resultArmShape", "String", strs(wf.resultArm))
	b.WriteString("/-- Body of the enqueue arm (`job, ok := <-enqueuec`), as ordered markers. -/\n")
	writeList(b, "enqueueArmShape", "String", strs(wf.enqueueArm))
	b.WriteString("/-- Body of the worker function, as ordered markers. -/\n")
	writeList(b, "workerShape", "String", strs(wf.worker))
	b.WriteString("/-- Body of (*Scheduler).Wait, as ordered markers. -/\n")
	writeList(b, "waitShape", "String", strs(wf.wait))
	b.WriteString("/-- Body of (*Scheduler).Enqueue, as ordered markers. -/\n")
	writeList(b, "enqueueShape", "String", strs(wf.enqueue))
}

// unknowns counts the `unknown` markers of the wiring facts.
func (wf *wiringFacts) unknowns() int {
	n := 0
	for _, a := range wf.arms {
		if a.kind == "unknown" {
			n++
		}
		for _, d := range a.disabledWhen {
			if strings.HasPrefix(d, "unknown:") {
				n++
			}
		}
	}
	for _, l := range [][]string{wf.afterFor, wf.exitConds, wf.resultArm, wf.enqueueArm, wf.worker, wf.wait, wf.enqueue} {
		for _, m := range l {
			if strings.HasPrefix(m, "unknown:") {
				n++
			}
		}
	}
	return n
}
