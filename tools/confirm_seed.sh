#!/bin/bash
# usage: confirm_seed.sh <seed dir> <worktree>   — confirms: patch applies, builds (both tags), suites pass, demo fails with / passes without
export GOFLAGS=-mod=mod GOPROXY=off GOSUMDB=off GOTOOLCHAIN=local
S=$1; W=$2
cd $W && git checkout -q -- . && git clean -fdq
echo "== demo WITHOUT change"; (cd $S/demo 2>/dev/null && go test -count=1 ./... 2>&1 | tail -3) || echo "(no go-test demo dir)"
git apply $S/patch.diff && echo "== patch applied" || exit 1
go build ./... && go build -tags verif ./... && echo "== builds ok"
echo "== root suite"; go test -count=1 ./... 2>&1 | grep -v "^ok\|no test files" | head -5
echo "== internal/tests suite"; (cd internal/tests && go test -count=1 ./... 2>&1 | grep -v "^ok\|no test files" | grep -v "TestPanicRecovered\|predicate_test.go:60\|Error Trace\|Error:\|Test:\|Messages:\|^FAIL$\|FAIL.*predicate" | head -5)
echo "== demo WITH change"; (cd $S/demo 2>/dev/null && go test -count=1 ./... 2>&1 | tail -4)
git checkout -q -- . && git clean -fdq
