#!/bin/bash
# usage: confirm_seed.sh <seed dir> <worktree>
# confirms: patch applies, builds (both tags), suites pass, demo fails with / passes without the change.
# The demo is either a Go test module (demo/go.mod, run with go test) or a script demo/run.sh <worktree> (exit 0 = property holds).
export GOFLAGS=-mod=mod GOPROXY=off GOSUMDB=off GOTOOLCHAIN=local
S=$(cd $1 && pwd); W=$2
demo() {
  if [ -x $S/demo/run.sh ] || [ -f $S/demo/run.sh ]; then (cd $S/demo && bash ./run.sh $W 2>&1 | tail -6; echo "demo exit=${PIPESTATUS[0]}")
  elif [ -d $S/demo ]; then (cd $S/demo && go test -count=1 ./... 2>&1 | tail -4)
  else echo "(no demo)"; fi
}
cd $W && git checkout -q -- . && git clean -fdq
echo "== demo WITHOUT change"; demo
git apply $S/patch.diff && echo "== patch applied" || exit 1
go build ./... && go build -tags verif ./... && echo "== builds ok"
echo "== root suite"; go test -vet=off -count=1 ./... 2>&1 | grep -v "^ok\|no test files" | head -5
echo "== internal/tests suite"; (cd internal/tests && go test -vet=off -count=1 ./... 2>&1 | grep -v "^ok\|no test files" | grep -v "TestPanicRecovered\|predicate_test.go:60\|Error Trace\|Error:\|Test:\|Messages:\|^FAIL$\|FAIL.*predicate" | head -5)
echo "== demo WITH change"; demo
git checkout -q -- . && git clean -fdq
