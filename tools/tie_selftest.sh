#!/usr/bin/env bash
# Demonstrates that the extracted-facts tie bites.
#
# For each seeded edit, applied to a scratch COPY of the repository (never to
# the repository itself), the extractor is re-run on the copy and the Lean
# obligations of CffVerif/Tie/Facts.lean are re-built against the regenerated
# CffVerif/Extracted/Facts.lean.  A seeded edit must make the build FAIL in
# the expected theorem; a harmless edit must leave every obligation true.
#
# usage: selftest.sh            (REPO=/repo by default)
set -u
export GOFLAGS=-mod=mod GOPROXY=off GOSUMDB=off GOTOOLCHAIN=local

HERE="$(cd "$(dirname "$0")" && pwd)"
REPO="${REPO:-/repo}"
COPY="$HERE/repo-copy"
LEAN="$HERE/lean-selftest"        # scratch copy of the Lean project (the sample Facts.lean is not touched)
BIN="$HERE/bin/extract"
TIE="CffVerif/Tie/Facts.lean"
fail=0

cleanup() { rm -rf "$COPY" "$LEAN"; }
trap cleanup EXIT

( cd "$HERE" && go build -o "$BIN" ./extract ) || { echo "cannot build extractor"; exit 2; }
rm -rf "$LEAN"; cp -r "$HERE/lean" "$LEAN"

fresh() { rm -rf "$COPY"; cp -r "$REPO" "$COPY"; }

# sub FILE OLD NEW : replace the first occurrence of OLD by NEW; fail if absent
sub() {
  python3 - "$COPY/$1" "$2" "$3" <<'EOF'
import sys
p, old, new = sys.argv[1:4]
s = open(p).read()
if old not in s:
    sys.exit("selftest: pattern not found in %s: %r" % (p, old))
open(p, "w").write(s.replace(old, new, 1))
EOF
}

# run the extractor on the copy and build the obligations; prints the names of
# the theorems that fail, one per line, into $LEAN/failed
check() {
  "$BIN" -repo "$COPY" -out "$LEAN/CffVerif/Extracted" >"$LEAN/extract.log" 2>&1 || { echo "  extractor failed"; cat "$LEAN/extract.log"; return 2; }
  ( cd "$LEAN" && lake build CffVerif.Tie.Facts >"$LEAN/build.log" 2>&1 ); rc=$?
  python3 - "$LEAN/build.log" "$LEAN/$TIE" >"$LEAN/failed" <<'EOF'
import re, sys
log = open(sys.argv[1]).read()
src = open(sys.argv[2]).read().split("\n")
names = []
for m in re.finditer(r"error: \S*Tie/Facts\.lean:(\d+):\d+:", log):
    line = int(m.group(1))
    for i in range(line - 1, -1, -1):
        t = re.match(r"theorem (\w+)", src[i])
        if t:
            if t.group(1) not in names:
                names.append(t.group(1))
            break
print("\n".join(names))
EOF
  return $rc
}

# expect_fail NAME THEOREM... : the build must fail, and each THEOREM must be among the failing ones
expect_fail() {
  name="$1"; shift
  check; rc=$?
  failed="$(tr '\n' ' ' <"$LEAN/failed")"
  if [ $rc -eq 0 ]; then
    echo "MISSED  $name: all obligations still build"; fail=1; return
  fi
  if [ $rc -eq 2 ]; then echo "ERROR   $name"; fail=1; return; fi
  for t in "$@"; do
    if ! grep -qx "$t" "$LEAN/failed"; then
      echo "MISSED  $name: expected $t to fail; failing: $failed"; fail=1; return
    fi
  done
  echo "CAUGHT  $name: lake build fails in: $failed"
}

expect_pass() {
  name="$1"
  check; rc=$?
  if [ $rc -ne 0 ]; then
    echo "FALSE ALARM  $name: failing: $(tr '\n' ' ' <"$LEAN/failed")"; grep -m5 "error" "$LEAN/build.log"; fail=1; return
  fi
  if cmp -s "$LEAN/CffVerif/Extracted/Facts.lean" "$HERE/lean/CffVerif/Extracted/Facts.lean"; then
    echo "PASS    $name: all obligations build; Facts.lean identical to the checked-in sample"
  else
    echo "PASS    $name: all obligations build (Facts.lean differs from the sample)"
  fi
}

echo "== baseline (unmodified copy)"
fresh
expect_pass "baseline"

echo "== (i) a user expression printed bare instead of through expr"
fresh
sub internal/templates/flow/task.go.tmpl '{{ expr .Function.Node }}' '{{ .Function.Node }}'
expect_fail "(i) bare {{ .Function.Node }} in flow/task.go.tmpl" exprSites_wrapped

echo "== (i-b) a user expression printed through printf, via a with-dot"
fresh
sub internal/templates/flow/flow.go.tmpl 'Concurrency: {{ expr . }},' 'Concurrency: {{ . | printf "%v" }},'
expect_fail "(i-b) {{ . | printf }} inside with .Concurrency" exprSites_wrapped

echo "== (i-c) a bare dot the extractor cannot track (template invoked from nowhere known)"
fresh
printf '{{ define "orphan" }}{{ . }}{{ end }}\n' >>"$COPY/internal/templates/shared/emitter.go.tmpl"
expect_fail "(i-c) untracked {{ . }} -> wrapper unknown" exprSites_wrapped

echo "== (ii) package referenced by a hard-coded name in template text"
fresh
sub internal/templates/flow/flow.go.tmpl 'startTime := {{ import "time" }}.Now()' 'startTime := time.Now()'
expect_fail "(ii) time.Now() in template text" no_hardcoded_pkg_refs

echo "== (iii) a new range over a map in internal/gen.go"
fresh
sub internal/gen.go '	sort.Strings(newImports)' '	for k := range aliases {
		newImports = append(newImports, k)
	}
	sort.Strings(newImports)'
expect_fail "(iii) for k := range aliases in GenerateFile" mapRanges_order_insensitive mapRanges_order_insensitive

echo "== (iii-b) a second range over an already classified map in the same function"
fresh
sub internal/gen.go '	sort.Strings(newImports)' '	for imp := range addImports {
		fmt.Fprintln(&buff, imp)
	}
	sort.Strings(newImports)'
expect_fail "(iii-b) second loop over addImports" mapRanges_order_insensitive

echo "== (iii-c) a new time.Now() in the generator"
fresh
sub internal/gen.go '	var buff bytes.Buffer' '	var buff bytes.Buffer
	fmt.Fprintf(&buff, "// generated at %v\n", time.Now())'
sub internal/gen.go '	"text/template"' '	"text/template"
	"time"'
expect_fail "(iii-c) time.Now() in GenerateFile" random_sources_known

echo "== (iv) a non-comment written in source-map mode only"
fresh
sub internal/gen.go '		fmt.Fprintf(&buff, "//line %v:1\n", filepath.Base(posFile.Name()))' '		fmt.Fprintf(&buff, "//line %v:1\n", filepath.Base(posFile.Name()))
		buff.WriteString("var _ = 0\n")'
expect_fail "(iv) buff.WriteString(\"var _ = 0\") under if g.sourceMapped" sourcemap_writes_are_comments sourcemap_writes_start_comment

echo "== (iv-b) a non-literal written in source-map mode only"
fresh
sub internal/gen.go '		fmt.Fprintf(w, "/*line %v:%d*/", filepath.Base(f.PosInfo.File), endPos.Line-1)' '		fmt.Fprintf(w, "/*line %v:%d*/", filepath.Base(f.PosInfo.File), endPos.Line-1)
		w.Write(b.Bytes())'
expect_fail "(iv-b) w.Write(b.Bytes()) under if g.sourceMapped" sourcemap_writes_are_comments

echo "== (v) capacity of the result channel changed"
fresh
sub scheduler/scheduler.go 'make(chan jobResult, c.Concurrency)' 'make(chan jobResult, c.Concurrency-1)'
expect_fail "(v) make(chan jobResult, c.Concurrency-1)" chan_caps

echo "== (v-b) dispatch gate removed"
fresh
sub scheduler/scheduler.go 'if ready.Len() > 0 && ongoing < s.concurrency {' 'if ready.Len() > 0 {'
expect_fail "(v-b) dispatch no longer gated on ongoing" dispatch_guarded dispatch_guard_exact

echo "== (v-c) dispatch gate off by one"
fresh
sub scheduler/scheduler.go 'ongoing < s.concurrency {' 'ongoing <= s.concurrency {'
expect_fail "(v-c) ongoing <= s.concurrency" dispatch_guard_exact

echo "== (vi) a directive stub the compiler's table does not know"
fresh
cat >>"$COPY/cff.go" <<'EOF'

// Retry is a new directive.
func Retry(n int) TaskOption {
	panic(_noGenMsg)
}
EOF
expect_fail "(vi) cff.Retry stub without table entry" directive_names_agree

echo "== harmless edits"
fresh
# rename a local variable of the generator
python3 - "$COPY/internal/gen.go" <<'EOF'
import re, sys
p = sys.argv[1]
s = open(p).read()
assert "lastOff" in s
open(p, "w").write(re.sub(r"\blastOff\b", "lastOffset", s))
EOF
# comments in Go and template sources, white space inside an action, re-indented code
sub internal/gen.go 'func (g *generator) GenerateFile(f *file) error {' '// GenerateFile writes the generated file. (comment added by selftest)
func (g *generator) GenerateFile(f *file) error {'
sub scheduler/scheduler.go '		if ready.Len() > 0 && ongoing < s.concurrency {' '		// a harmless comment
		if ready.Len() > 0 &&
			ongoing < s.concurrency {'
sub internal/templates/flow/task.go.tmpl '{{ expr .Function.Node }}' '{{- /* harmless */ -}}{{   expr    .Function.Node   }}'
sub internal/templates/flow/flow.go.tmpl '	flowEmitter.FlowSuccess(ctx)' '	// succeeded
	flowEmitter.FlowSuccess(ctx)'
expect_pass "renamed local variable, added comments, re-spaced an action, re-wrapped a condition"

cleanup
if [ $fail -eq 0 ]; then echo "SELFTEST OK"; else echo "SELFTEST FAILED"; fi
exit $fail
