#!/bin/bash
# Re-runs every quick check on the unchanged /repo tree so that the committed evidence files come from it.
cd /verif
[ -z "$(git -C /repo status --porcelain)" ] || { echo "/repo is dirty"; exit 2; }
rc=0
for p in $(python3 -c "import json;print(' '.join(c['property_id'] for c in json.load(open('MANIFEST.json'))['checks']))"); do
  s=$(date +%s); out=$(VERIF_SEED=1 ./check $p --tier quick 2>&1); e=$?
  echo "$p exit=$e $(( $(date +%s)-s ))s $(echo "$out" | grep -c VIOLATION) viol"
  [ $e -eq 0 ] || { rc=1; echo "$out" | tail -3; }
done
exit $rc
