#!/usr/bin/env bash
# Self-test of the structural template facts (tmplFuncLits, rootOrder, ...):
# each safety-removing edit of a template must make the intended Lean
# obligation of CffVerif/Tie/Facts.lean fail to build; harmless edits must
# leave every obligation true and the extracted facts unchanged.
#
# Works on scratch copies only (of the repository and of the Lean project);
# /repo is never written to. Everything is deleted on exit.
#
#   REPO=/repo P=/tmp/P23 ./selftest.sh
set -u
REPO=${REPO:-/repo}
P=${P:-/tmp/P23}
export GOFLAGS=-mod=mod GOPROXY=off GOSUMDB=off GOTOOLCHAIN=local

SCRATCH=$(mktemp -d /tmp/P23-selftest.XXXXXX)
trap 'rm -rf "$SCRATCH"' EXIT

echo "== building the extractor"
(cd "$P/harness" && cp "$REPO/go.sum" . && go build -o "$SCRATCH/extract" ./cmd/extract) || { echo "FAIL: extractor does not build"; exit 2; }

# scratch Lean project (keeps the build cache, so only three modules rebuild)
rsync -a "$P/lean/" "$SCRATCH/lean/"
LEANDIR="$SCRATCH/lean"
TIE="$LEANDIR/CffVerif/Tie/Facts.lean"

# One snapshot of the repository is taken at the start (SNAPSHOT=head takes
# the committed state with `git archive` instead of the working tree); every
# case starts from a copy of that snapshot.
mkdir -p "$SCRATCH/pristine"
if [ "${SNAPSHOT:-worktree}" = head ]; then
  git -C "$REPO" archive HEAD | tar -x -C "$SCRATCH/pristine"
else
  rsync -a --exclude .git "$REPO/" "$SCRATCH/pristine/"
fi
fresh_repo() { # fresh_repo <dir>
  rm -rf "$1"
  rsync -a "$SCRATCH/pristine/" "$1/"
}

# run_case <name> : extract from $SCRATCH/repo, build the obligations.
# Sets FAILED to the sorted list of failing theorems ("" when the build passes).
run_case() {
  local name=$1
  "$SCRATCH/extract" -repo "$SCRATCH/repo" -out "$LEANDIR/CffVerif/Extracted" >"$SCRATCH/$name.extract.log" 2>&1 || { echo "extractor failed on $name"; cat "$SCRATCH/$name.extract.log"; FAILED="<extractor failed>"; return; }
  cp "$LEANDIR/CffVerif/Extracted/Facts.lean" "$SCRATCH/$name.Facts.lean"
  (cd "$LEANDIR" && lake build CffVerif.Tie.Facts) >"$SCRATCH/$name.build.log" 2>&1
  local rc=$?
  FAILED=$(python3 - "$TIE" "$SCRATCH/$name.build.log" <<'EOF'
import re, sys
src = open(sys.argv[1]).read().split("\n")
thm = {}
cur = None
for i, l in enumerate(src, 1):
    m = re.match(r"theorem\s+(\w+)", l)
    if m:
        cur = m.group(1)
    thm[i] = cur
names = set()
for l in open(sys.argv[2]):
    m = re.search(r"error: .*Tie/Facts\.lean:(\d+):\d+", l)
    if m:
        names.add(thm.get(int(m.group(1))) or "?")
print(" ".join(sorted(names)))
EOF
)
  if [ $rc -ne 0 ] && [ -z "$FAILED" ]; then
    FAILED="<build failed outside Tie/Facts.lean>"
    tail -20 "$SCRATCH/$name.build.log"
  fi
}

# edit <python code operating on dict-like helper>: applies an edit to a template
edit() { # edit <relative template path> <python expression body using s>
  python3 - "$SCRATCH/repo/internal/templates/$1" "$2" <<'EOF'
import sys
path, code = sys.argv[1], sys.argv[2]
s = open(path).read()
env = {"s": s}
def cut(s, a, b):
    """remove and return the text from marker a up to and including marker b"""
    i = s.index(a); j = s.index(b, i) + len(b)
    return s[:i] + s[j:], s[i:j]
env["cut"] = cut
exec(code, env)
assert env["s"] != s, "edit did not change " + path
open(path, "w").write(env["s"])
EOF
}

PASS=0
FAIL=0
report() { # report <ok|bad> <text>
  if [ "$1" = ok ]; then PASS=$((PASS+1)); echo "  PASS  $2"; else FAIL=$((FAIL+1)); echo "  FAIL  $2"; fi
}

# expect_fail <name> <theorem that must fail>...
expect_fail() {
  local name=$1; shift
  run_case "$name"
  local ok=ok
  for t in "$@"; do
    case " $FAILED " in *" $t "*) ;; *) ok=bad;; esac
  done
  report $ok "$name: expected to fail: $*"
  echo "        failing obligations: ${FAILED:-<none>}"
  grep -A3 "def tmplStructUnknown" "$SCRATCH/$name.Facts.lean" | grep '"' | sed 's/^/        unknown entry: /'
}

# expect_pass <name>: build passes and the facts equal the baseline's
expect_pass() {
  local name=$1
  run_case "$name"
  if [ -z "$FAILED" ] && cmp -s "$SCRATCH/$name.Facts.lean" "$SCRATCH/baseline.Facts.lean"; then
    report ok "$name: all obligations hold, facts identical to the baseline"
  else
    report bad "$name: failing obligations: ${FAILED:-<none>}; facts $(cmp -s "$SCRATCH/$name.Facts.lean" "$SCRATCH/baseline.Facts.lean" && echo identical || echo DIFFER)"
    diff "$SCRATCH/baseline.Facts.lean" "$SCRATCH/$name.Facts.lean" | head -20
  fi
}

echo "== baseline (unmodified copy)"
fresh_repo "$SCRATCH/repo"
run_case baseline
if [ -z "$FAILED" ]; then report ok "baseline: all obligations hold"; else report bad "baseline: failing: $FAILED"; fi
grep "template structure" "$SCRATCH/baseline.extract.log" | sed 's/^/        /'

echo "== (1) delete the recover block from the job body of parallel/map.go.tmpl"
fresh_repo "$SCRATCH/repo"
edit parallel/map.go.tmpl '
s, removed = cut(s, "\t\tdefer func() {\n\t\t\trecovered := recover()", "\t\t}()\n")
assert "panicError" in removed
'
expect_fail m1_no_recover job_bodies_recover job_bodies_recover_before_call

echo "== (2) insert a return into the range loop of parallel/slice.go.tmpl, outside the job closure"
fresh_repo "$SCRATCH/repo"
edit parallel/slice.go.tmpl '
s = s.replace("\tval := val\n", "\tval := val\n\tif err := ctx.Err(); err != nil { return err }\n", 1)
'
expect_fail m2_return_in_loop no_return_in_subtemplates

echo "== (2b) insert a return between NewScheduler and Wait in parallel/parallel.go.tmpl"
fresh_repo "$SCRATCH/repo"
edit parallel/parallel.go.tmpl '
s = s.replace("\tvar tasks []*", "\tif err := ctx.Err(); err != nil { return err }\n\tvar tasks []*", 1)
'
expect_fail m2b_return_in_root no_return_between_new_and_wait

echo "== (3) move the predicate gate of flow/task.go.tmpl after the call"
fresh_repo "$SCRATCH/repo"
edit flow/task.go.tmpl '
s, gate = cut(s, "\t{{ if .Predicate }}\n\t\tif !p{{ predHash .Predicate }} {", "\t{{ end }}\n")
assert "return nil" in gate
call = "{{ expr .Function.Node }}{{ template \"callTaskArgs\" . }}\n"
i = s.index(call) + len(call)
s = s[:i] + "\n" + gate + s[i:]
'
expect_fail m3_gate_after_call predicate_gate_before_call

echo "== (4) move the Results copy of flow/flow.go.tmpl before sched.Wait"
fresh_repo "$SCRATCH/repo"
edit flow/flow.go.tmpl '
s, copy = cut(s, "\t{{ range .Outputs }}\n\t\t*(", "\t{{- end }}\n")
i = s.index("\tif err := sched.Wait(ctx)")
s = s[:i] + copy + "\n" + s[i:]
'
expect_fail m4_copy_before_wait results_copy_after_wait_check

echo "== (4b) put the Results copy of flow/flow.go.tmpl into a defer"
fresh_repo "$SCRATCH/repo"
edit flow/flow.go.tmpl '
s, copy = cut(s, "\t{{ range .Outputs }}\n\t\t*(", "\t{{- end }}\n")
i = s.index("\tif err := sched.Wait(ctx)")
s = s[:i] + "\tdefer func() {\n" + copy + "\n\t}()\n" + s[i:]
'
expect_fail m4b_copy_in_defer results_copy_after_wait_check

echo "== (5) swap the two root defers of flow/flow.go.tmpl"
fresh_repo "$SCRATCH/repo"
edit flow/flow.go.tmpl '
s, done = cut(s, "\tdefer func() { flowEmitter.FlowDone(", "}()\n")
sweep_end = "\t\t}\n\t}()\n"
i = s.index(sweep_end, s.index("TaskSkipped")) + len(sweep_end)
s = s[:i] + done + s[i:]
'
expect_fail m5_defers_swapped root_defers_order

echo "== (6) wrap idx := idx of parallel/slice.go.tmpl in a further template conditional"
fresh_repo "$SCRATCH/repo"
edit parallel/slice.go.tmpl '
s = s.replace("\tidx := idx\n", "\t{{ if .SliceEndFn }}idx := idx{{ end }}\n", 1)
'
expect_fail m6_idx_copy_conditional loop_vars_copied

echo "== (6b) wrap val := val of parallel/slice.go.tmpl in a template conditional"
fresh_repo "$SCRATCH/repo"
edit parallel/slice.go.tmpl '
s = s.replace("\tval := val\n", "\t{{ if .HasIndexParameter }}val := val{{ end }}\n", 1)
'
expect_fail m6b_val_copy_conditional loop_vars_copied

echo "== (7) drop Dependencies from the SliceEnd job"
fresh_repo "$SCRATCH/repo"
edit parallel/slice.go.tmpl '
s = s.replace("\t\tDependencies: {{ $t }}Jobs,\n", "", 1)
'
expect_fail m7_no_dependencies end_job_depends_on_elements

echo "== harmless (a): comments (Go and template) added"
fresh_repo "$SCRATCH/repo"
edit parallel/map.go.tmpl '
s = s.replace("\tkey := key\n", "\t// copy the loop variables: return early? no.\n\tkey := key\n", 1)
s = s.replace("\t\t\trecovered := recover()\n", "\t\t\t{{- /* the panic becomes the error of the job */}}\n\t\t\trecovered := recover() // defer func() { return }\n", 1)
'
edit flow/flow.go.tmpl '
s = s.replace("\tvar tasks []*", "\t/* return nil */\n\tvar tasks []*", 1)
'
edit flow/task.go.tmpl '
s = s.replace("\tdefer {{ $t }}.ran.Store(true)\n", "\t// the task counts as run from here on\n\tdefer {{ $t }}.ran.Store(true)\n", 1)
'
expect_pass harmless_comments

echo "== harmless (b): locals renamed inside job bodies"
fresh_repo "$SCRATCH/repo"
edit parallel/task.go.tmpl '
s = s.replace("taskEmitter", "te").replace("startTime", "t0")
'
edit flow/task.go.tmpl '
s = s.replace("taskEmitter", "tEmit").replace("startTime", "began").replace("stacktrace", "trace")
'
edit flow/predicate.go.tmpl '
s = s.replace("recovered", "rec")
'
expect_pass harmless_rename

echo "== harmless (c): re-indentation"
fresh_repo "$SCRATCH/repo"
python3 - "$SCRATCH/repo/internal" <<'EOF'
import os, re, sys
n = 0
for d, _, fs in os.walk(sys.argv[1]):
    for f in fs:
        if f.endswith(".tmpl"):
            p = os.path.join(d, f)
            s = open(p).read()
            t = "\n".join(re.sub(r"^[ \t]+", lambda m: "  " * len(m.group(0).replace("    ", "\t")), l).rstrip() for l in s.split("\n"))
            if t != s:
                n += 1
            open(p, "w").write(t)
assert n > 10, n
EOF
expect_pass harmless_reindent

echo "== summary: $PASS passed, $FAIL failed"
[ $FAIL -eq 0 ]
