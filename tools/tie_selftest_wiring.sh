#!/usr/bin/env bash
# Self-test of the scheduler-wiring facts (harness/cmd/extract/schedwiring.go)
# and their obligations (lean/CffVerif/Tie/Facts.lean).
#
# For every case a scratch copy of /repo's HEAD is made (never /repo itself), the
# change is applied, the extractor is run on the copy and CffVerif.Tie.Facts is
# built in a scratch Lean project holding only the three files it needs.
#   break cases: at least one obligation must fail to build;
#   hold  cases: every obligation must still build.
# Everything is deleted afterwards.
#
#   ./selftest.sh            run all cases (JOBS=n parallel builds, default 7)
#   ./selftest.sh NAME...    run only the named cases
set -u
ROOT=/tmp/P27
SEEDED=/verif/seeded
JOBS=${JOBS:-7}
export GOFLAGS=-mod=mod GOPROXY=off GOSUMDB=off GOTOOLCHAIN=local

WORK=$(mktemp -d "$ROOT/selftest.XXXXXX")
trap 'rm -rf "$WORK"' EXIT

# One snapshot of the committed state of /repo (read-only: `git archive`), so
# that the cases do not see edits other people make to the /repo working tree
# while the test runs.
mkdir -p "$WORK/snapshot"
git -C /repo archive HEAD | tar -x -C "$WORK/snapshot" || { echo "selftest: cannot snapshot /repo"; exit 2; }

( cd "$ROOT/harness" && cp "$WORK/snapshot/go.sum" . && go build -o "$WORK/extract" ./cmd/extract ) || { echo "selftest: extractor does not build"; exit 2; }

# ---- hand-made edits (python: exact replacement, fails loudly if the text moved) ----
edit() { # file, python body using s
  python3 - "$1" <<EOF
import sys
p = sys.argv[1]
s = open(p).read()
def rep(old, new):
    global s
    assert s.count(old) == 1, "selftest edit: text not found exactly once: " + old[:60]
    s = s.replace(old, new)
$2
open(p, 'w').write(s)
EOF
}

hand_no_drain() {
  edit "$1/scheduler/scheduler.go" '
rep("""	defer func() {
		for range s.enqueuec {
		}
	}()
""", "")'
}

hand_swap_checks() {
  edit "$1/scheduler/scheduler.go" '
rep("""		if err := j.ctx.Err(); err != nil {
			// Don'"'"'t run if context already cancelled.
			res.Err = err
			if verifOn {
				verifWorker(verifWID, "skipctx", j, err)
			}
		} else if j.invalid {
			// Don'"'"'t run if marked as invalid.
			res.Err = errJobInvalid
			if verifOn {
				verifWorker(verifWID, "skipinvalid", j, nil)
			}
		} else {""", """		if j.invalid {
			// Don'"'"'t run if marked as invalid.
			res.Err = errJobInvalid
			if verifOn {
				verifWorker(verifWID, "skipinvalid", j, nil)
			}
		} else if err := j.ctx.Err(); err != nil {
			// Don'"'"'t run if context already cancelled.
			res.Err = err
			if verifOn {
				verifWorker(verifWID, "skipctx", j, err)
			}
		} else {""")'
}

hand_no_dep_done() {
  edit "$1/scheduler/scheduler.go" '
rep("""				if dep.done {
					if dep.err != nil {
						job.invalid = true
					}
					continue
				}
""", "")'
}

# harmless: rename locals of run and worker (the markers must not depend on them;
# `ongoing`, `ready`, `readyc`, `emitter`, `ctx` are spelled by older obligations and stay)
hand_rename_locals() {
  python3 - "$1/scheduler/scheduler.go" <<'EOF'
import re, sys
p = sys.argv[1]
s = open(p).read()
def within(start, end, subs):
    global s
    a, b = s.index(start), s.index(end)
    body = s[a:b]
    for old, new in subs:
        body, n = re.subn(old, new, body)
        assert n > 0, "selftest rename: nothing matches " + old
    s = s[:a] + body + s[b:]
within('func (s *Scheduler) run(', '// Wait waits for all scheduled jobs', [
    (r'\bpending\b', 'inflight'), (r'(?<![.\w])enqueuec\b', 'inc'), (r'\bjob\b', 'sj'),
    (r'\bwaiting\b', 'blocked'), (r'\bconsumer\b', 'cons'), (r'\bdep\b', 'd'), (r'\bres\b', 'r')])
within('func worker(', '// Scheduler schedules jobs', [
    (r'\bj\b', 'jb'), (r'\bcurrentJob\b', 'cur'), (r'\bexitCleanly\b', 'clean'), (r'\bres\b', 'out')])
open(p, 'w').write(s)
EOF
  gofmt -w "$1/scheduler/scheduler.go"
}

# name | expectation | how
CASES=(
  "baseline|hold|none"
  "C09-3|break|patch:$SEEDED/C09-3/patch.diff"
  "C05-2|break|patch:$SEEDED/C05-2/patch.diff"
  "C06-3|break|patch:$SEEDED/C06-3/patch.diff"
  "C08-2|break|patch:$SEEDED/C08-2/patch.diff"
  "C08-3|break|patch:$SEEDED/C08-3/patch.diff"
  "C03-1|break|patch:$SEEDED/C03-1/patch.diff"
  "C09-1|break|patch:$SEEDED/C09-1/patch.diff"
  "hand-no-drain|break|hand:hand_no_drain"
  "hand-swap-ctx-invalid|break|hand:hand_swap_checks"
  "hand-no-dep-done|break|hand:hand_no_dep_done"
  "H1-h1|hold|patch:$SEEDED/harmless/H1/h1.diff"
  "H1-h2|hold|patch:$SEEDED/harmless/H1/h2.diff"
  "H1-h3|hold|patch:$SEEDED/harmless/H1/h3.diff"
  "hand-rename-locals|hold|hand:hand_rename_locals"
)

run_case() {
  local name=$1 expect=$2 how=$3
  local d="$WORK/$name" log="$WORK/$name.log" res="$WORK/$name.res"
  mkdir -p "$d"
  cp -a "$WORK/snapshot" "$d/repo"
  case "$how" in
    none) ;;
    patch:*)
      local IFS=,
      for p in ${how#patch:}; do
        ( cd "$d/repo" && git apply "$p" ) >>"$log" 2>&1 || { echo "$name|ERROR|patch does not apply: $p" >"$res"; return; }
      done ;;
    hand:*)
      "${how#hand:}" "$d/repo" >>"$log" 2>&1 || { echo "$name|ERROR|hand edit failed (see log)" >"$res"; cat "$log"; return; } ;;
  esac
  if [ -n "$(gofmt -l "$d/repo/scheduler/scheduler.go" 2>&1)" ]; then
    echo "$name|ERROR|edited scheduler.go is not gofmt-clean / does not parse" >"$res"; return
  fi
  ( cd "$d/repo" && go build ./scheduler/ ) >>"$log" 2>&1 || { echo "$name|ERROR|edited scheduler does not compile" >"$res"; return; }
  # scratch Lean project: only what CffVerif.Tie.Facts needs
  local L="$d/lean"
  mkdir -p "$L/CffVerif/Extracted" "$L/CffVerif/Tie"
  cp "$ROOT/lean/lakefile.toml" "$ROOT/lean/lean-toolchain" "$ROOT/lean/lake-manifest.json" "$L/"
  cp "$ROOT/lean/CffVerif/Extracted/Types.lean" "$L/CffVerif/Extracted/"
  cp "$ROOT/lean/CffVerif/Tie/Facts.lean" "$L/CffVerif/Tie/"
  "$WORK/extract" -repo "$d/repo" -out "$L/CffVerif/Extracted" >>"$log" 2>&1 || { echo "$name|ERROR|extractor failed" >"$res"; return; }
  local unknown
  unknown=$(grep -c '"unknown:[^ ]' "$L/CffVerif/Extracted/Facts.lean")
  ( cd "$L" && lake build CffVerif.Tie.Facts ) >"$d/build.log" 2>&1
  local rc=$?
  # names of the theorems that failed: nearest `theorem` above each error line
  local failed
  failed=$(grep -oE 'Facts\.lean:[0-9]+:[0-9]+' "$d/build.log" | cut -d: -f2 | sort -nu | while read -r ln; do
      awk -v n="$ln" 'NR<=n && /^theorem /{t=$2} END{print t}' "$L/CffVerif/Tie/Facts.lean"
    done | sort -u | tr '\n' ' ')
  local verdict
  if [ "$expect" = break ]; then
    if [ $rc -ne 0 ] && [ -n "$failed" ]; then verdict=PASS; else verdict=FAIL; fi
  else
    if [ $rc -eq 0 ]; then verdict=PASS; else verdict=FAIL; fi
  fi
  echo "$name|$verdict|expect=$expect unknownMarkers=$unknown broken: ${failed:-none}" >"$res"
  grep -n '"unknown:[^ ]' "$L/CffVerif/Extracted/Facts.lean" | sed 's/^/    /' >"$WORK/$name.unknown"
  [ "${KEEP:-0}" = 1 ] && cp "$d/build.log" "$ROOT/last-$name.build.log"; rm -rf "$d"
}

want=("$@")
running=0
for c in "${CASES[@]}"; do
  IFS='|' read -r name expect how <<<"$c"
  if [ ${#want[@]} -gt 0 ]; then
    keep=0; for w in "${want[@]}"; do [ "$w" = "$name" ] && keep=1; done
    [ $keep = 1 ] || continue
  fi
  run_case "$name" "$expect" "$how" &
  running=$((running+1))
  if [ $running -ge "$JOBS" ]; then wait -n; running=$((running-1)); fi
done
wait

echo "== selftest results =="
bad=0
for c in "${CASES[@]}"; do
  IFS='|' read -r name expect how <<<"$c"
  [ -f "$WORK/$name.res" ] || continue
  IFS='|' read -r n verdict detail <"$WORK/$name.res"
  printf '%-24s %-5s %s\n' "$n" "$verdict" "$detail"
  if [ "${VERBOSE:-0}" = 1 ] && [ -s "$WORK/$name.unknown" ]; then cat "$WORK/$name.unknown"; fi
  [ "$verdict" = PASS ] || bad=$((bad+1))
done
if [ $bad -eq 0 ]; then echo "selftest: all cases as expected"; else echo "selftest: $bad case(s) NOT as expected"; fi
exit $bad
