#!/usr/bin/env bash
# Acceptance test of the refactoring-robust extractor (P35).
#
# Every case is run on its own scratch copy of /repo's HEAD (`git archive`; /repo
# itself is never touched) and its own scratch copy of the Lean project; the
# extractor (built from /verif/harness) is run on the copy and
# CffVerif.Tie.Facts is built against the regenerated Extracted/Facts.lean.
# All scratch copies are deleted at the end.
#
#   (1) harmless : the 24 patches seeded/harmless/H{1..8}/h{1,2,3}.diff and the
#                  harmless hand-made edits must leave EVERY obligation true;
#   (2) seeded   : every patch seeded/C*-*/patch.diff that breaks >= 1 obligation
#                  with the unmodified extractor (baseline_kills.txt) must still
#                  break >= 1 obligation (not necessarily the same ones);
#   (3) hand-made: the edits of tie_selftest*.sh (ported to handmade/*) and the
#                  near-misses of the generalised recognisers must break >= 1.
#
# usage: selftest.sh [harmless] [seeded] [handmade]      (default: all three)
#        JOBS=n  cases run in parallel (default 8)
set -u
export GOFLAGS=-mod=mod GOPROXY=off GOSUMDB=off GOTOOLCHAIN=local
HERE=/verif
SCRATCH=${SCRATCH:-/tmp}
JOBS=${JOBS:-8}
BASELINE="$HERE/tools/tie_handmade/baseline_kills.txt"
what="${*:-harmless seeded handmade}"

W="$(mktemp -d "$SCRATCH/tie-selftest.XXXXXX")"
trap 'rm -rf "$W"' EXIT
export W HERE

echo "== building the extractor"
( cd "$HERE/harness" && cp /repo/go.sum . && go build -o "$W/extract" ./cmd/extract ) || { echo "selftest: the extractor does not build"; exit 2; }

echo "== preparing the Lean project (a copy of $HERE/lean with its build cache)"
cp -a "$HERE/lean" "$W/lean"
( cd "$W/lean" && lake build CffVerif.Sched.HB CffVerif.Extracted.Types >"$W/lean-prep.log" 2>&1 ) || { echo "selftest: the Lean project does not build"; tail -20 "$W/lean-prep.log"; exit 2; }

# one case: NAME PATCH   (PATCH: a .diff, an executable edit script run with the copy as cwd, or -)
run_case() {
  local name="$1" patchf="$2"
  local S="$W/case.$name"
  mkdir -p "$S/repo" "$W/out"
  git -C /repo archive HEAD | tar -x -C "$S/repo" || { echo "$name: ERROR archive" >"$W/out/$name"; rm -rf "$S"; return; }
  if [ "$patchf" != "-" ]; then
    if [ "${patchf##*.}" = diff ]; then
      ( cd "$S/repo" && patch -p1 -s --no-backup-if-mismatch <"$patchf" ) >"$S/patch.log" 2>&1 || { echo "$name: ERROR patch-does-not-apply" >"$W/out/$name"; rm -rf "$S"; return; }
    else
      ( cd "$S/repo" && "$patchf" ) >"$S/patch.log" 2>&1 || { echo "$name: ERROR edit-failed $(tr '\n' ' ' <"$S/patch.log" | cut -c1-200)" >"$W/out/$name"; rm -rf "$S"; return; }
    fi
  fi
  cp -a "$W/lean" "$S/lean"
  "$W/extract" -repo "$S/repo" -out "$S/lean/CffVerif/Extracted" >"$S/extract.log" 2>&1 || { echo "$name: ERROR extractor $(tail -1 "$S/extract.log")" >"$W/out/$name"; rm -rf "$S"; return; }
  ( cd "$S/lean" && lake build CffVerif.Tie.Facts >"$S/build.log" 2>&1 ); local rc=$?
  local failed
  failed="$(python3 - "$S/build.log" "$S/lean/CffVerif/Tie/Facts.lean" <<'EOF'
import re, sys
log = open(sys.argv[1]).read()
src = open(sys.argv[2]).read().split("\n")
names, other = [], False
for m in re.finditer(r"error: (\S*?):(\d+):\d+:", log):
    if not m.group(1).endswith("Tie/Facts.lean"):
        other = True
        continue
    for i in range(int(m.group(2)) - 1, -1, -1):
        t = re.match(r"theorem (\w+)", src[i])
        if t:
            if t.group(1) not in names:
                names.append(t.group(1))
            break
if other:
    names.append("ERROR-outside-Tie/Facts.lean")
print(" ".join(names))
EOF
)"
  if [ $rc -ne 0 ] && [ -z "$failed" ]; then failed="ERROR build-failed-without-theorem"; fi
  echo "$name: $failed" >"$W/out/$name"
  rm -rf "$S"
}
export -f run_case

: >"$W/list"
echo "base -" >>"$W/list"
case " $what " in *" harmless "*)
  for h in 1 2 3 4 5 6 7 8; do for k in 1 2 3; do echo "H$h-h$k $HERE/seeded/harmless/H$h/h$k.diff" >>"$W/list"; done; done
  for f in "$HERE"/tools/tie_handmade/harmless-*; do echo "hand-$(basename "$f") $f" >>"$W/list"; done ;;
esac
case " $what " in *" seeded "*)
  for d in "$HERE"/seeded/C*-*; do echo "$(basename "$d") $d/patch.diff" >>"$W/list"; done ;;
esac
case " $what " in *" handmade "*)
  for f in "$HERE"/tools/tie_handmade/*; do
    b="$(basename "$f")"
    case "$b" in _lib.py|__pycache__|harmless-*) continue ;; esac
    echo "hand-$b $f" >>"$W/list"
  done ;;
esac
n=$(wc -l <"$W/list")
echo "== running $n cases, $JOBS at a time"
xargs -P "$JOBS" -L 1 bash -c 'run_case "$1" "$2"' _ <"$W/list"

echo
echo "== results"
printf '%-34s %-8s %-7s %s\n' case expected verdict "obligations broken (before -> now)"
bad=0
while read -r name _; do
  now="$(sed "s/^$name: //" "$W/out/$name" 2>/dev/null || echo "ERROR no-result")"
  before=""
  case "$name" in
    base|H?-h?|hand-harmless-*) expect=hold ;;
    hand-*) expect=break ;;
    *)
      before="$(grep "^$name: " "$BASELINE" | sed "s/^$name: //")"
      if [ -n "$before" ]; then expect=break; else expect=any; fi ;;
  esac
  verdict=ok
  case "$now" in ERROR*) verdict=ERROR ;; esac
  if [ $verdict = ok ]; then
    case $expect in
      hold)  [ -z "$now" ] || verdict=FALSE-ALARM ;;
      break) [ -n "$now" ] || verdict=MISSED ;;
    esac
  fi
  [ $verdict = ok ] || bad=$((bad+1))
  if [ -n "$before" ] || [ $expect = any ]; then
    printf '%-34s %-8s %-7s %s\n' "$name" $expect $verdict "[${before:-}] -> [${now:-}]"
  else
    printf '%-34s %-8s %-7s %s\n' "$name" $expect $verdict "[${now:-}]"
  fi
done <"$W/list"
echo
if [ $bad -eq 0 ]; then echo "== selftest: all $n cases as expected"; else echo "== selftest: $bad of $n cases NOT as expected"; fi
[ $bad -eq 0 ]
