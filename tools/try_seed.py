#!/usr/bin/env python3
"""Apply a seeded patch to /repo, run the quick checks, report which raise a VIOLATION, undo the patch."""
import json, subprocess, sys, os, time
patch = sys.argv[1]
props = sys.argv[2:] or [c["property_id"] for c in json.load(open("/verif/MANIFEST.json"))["checks"]]
assert subprocess.run(["git", "-C", "/repo", "status", "--porcelain"], capture_output=True, text=True).stdout.strip() == "", "repo dirty"
subprocess.run(["git", "-C", "/repo", "apply", patch], check=True)
res = {}
import shutil, tempfile
# evidence files are rewritten by every run: keep the ones of the unchanged tree
ev_backup = tempfile.mkdtemp(prefix="verif-evidence-")
shutil.copytree("/verif/evidence", ev_backup, dirs_exist_ok=True)
try:
    for p in props:
        t0 = time.time()
        q = subprocess.run(["./check", p], cwd="/verif", capture_output=True, text=True)
        lines = [l for l in q.stdout.splitlines() if l.startswith("VIOLATION")]
        res[p] = (q.returncode, lines[:2], round(time.time() - t0, 1), (q.stderr or "")[-300:] if q.returncode == 2 else "")
finally:
    subprocess.run(["git", "-C", "/repo", "checkout", "--", "."], check=True)
    shutil.copytree(ev_backup, "/verif/evidence", dirs_exist_ok=True)
    shutil.rmtree(ev_backup, ignore_errors=True)
for p, (rc, lines, dt, err) in res.items():
    print(p, "exit=%d" % rc, "%.0fs" % dt, *(lines or []), err)
print("CAUGHT-BY:", " ".join(p for p, r in res.items() if r[0] == 1))
