#!/bin/bash
# P28 self-test: the ownership obligations (block `-- ==== P28 ownership ====` of
# CffVerif/Tie/Facts.lean) must FAIL on the seeded defects / hand-made edits below
# and must HOLD on the clean tree and on the harmless refactorings.
#
# Works on scratch copies only (of /repo and of the Lean project); everything is
# deleted afterwards.  /repo and /tmp/P28/lean are not modified.
set -u
export GOFLAGS=-mod=mod GOPROXY=off GOSUMDB=off GOTOOLCHAIN=local
BASE=/tmp/P28
REPO=/repo
SEEDED=/verif/seeded
T=$(mktemp -d /tmp/P28/selftest.XXXXXX)
trap 'rm -rf "$T"' EXIT

(cd $BASE/harness && cp $REPO/go.sum . && go build -o "$T/extract" ./cmd/extract) || { echo "FATAL: extractor does not build"; exit 2; }
cp -a $BASE/lean "$T/lean"

pass=0; fail=0
report() { # verdict text
  if [ "$1" = ok ]; then pass=$((pass+1)); else fail=$((fail+1)); fi
  printf '%-4s %s\n' "$1" "$2"
}

# run <name> <expect: break|hold> <command editing the tree in $PWD>
run() {
  local name=$1 expect=$2; shift 2
  # the COMMITTED tree of /repo (its working tree may be in use by others)
  rm -rf "$T/repo"; mkdir "$T/repo"; git -C $REPO archive HEAD | tar -x -C "$T/repo"
  if ! (cd "$T/repo" && "$@") > "$T/edit.log" 2>&1; then
    report FAIL "$name: the edit did not apply: $(tr '\n' ' ' < "$T/edit.log" | cut -c1-200)"; return
  fi
  if ! "$T/extract" -repo "$T/repo" -out "$T/lean/CffVerif/Extracted" > "$T/extract.log" 2>&1; then
    report FAIL "$name: extractor failed: $(tail -1 "$T/extract.log")"; return
  fi
  (cd "$T/lean" && lake build CffVerif.Tie.Facts) > "$T/lake.log" 2>&1
  local rc=$?
  # names of the theorems whose `decide` failed
  local broken
  broken=$(grep -o 'error: [^ ]*Tie/Facts.lean:[0-9]*' "$T/lake.log" | sed 's/.*://' | sort -un | while read -r l; do
      awk -v L="$l" 'NR<=L && /^theorem /{n=$2} END{print n}' "$T/lean/CffVerif/Tie/Facts.lean"; done | sort -u | tr '\n' ' ')
  local own
  own=$(for b in $broken; do case $b in own_*) printf '%s ' "$b";; esac; done)
  if [ "$expect" = break ]; then
    if [ $rc -ne 0 ] && [ -n "$own" ]; then report ok "$name: breaks: $broken"
    else report FAIL "$name: expected a broken P28 obligation; rc=$rc broken=[$broken]"; fi
  else
    if [ $rc -eq 0 ]; then report ok "$name: all obligations hold"
    else report FAIL "$name: expected to hold; broken=[$broken]"; fi
  fi
}

patchit() { patch -p1 --no-backup-if-mismatch -s < "$1"; }
pyedit() { python3 -c "$1"; }

S=scheduler/scheduler.go

run "clean tree" hold true

# --- seeded defects -------------------------------------------------------
run "C01-3 (remaining uint16)"            break patchit $SEEDED/C01-3/patch.diff
run "C12-2 (Enqueue filters deps in place)" break patchit $SEEDED/C12-2/patch.diff
if grep -q '^+++ b/scheduler' $SEEDED/C12-1/patch.diff; then
  run "C12-1 (Wait reads s.err in ctx arm)" break patchit $SEEDED/C12-1/patch.diff
else
  echo "skip C12-1: does not touch the scheduler"
fi
run "C03-2 (go in emitter adapter)"       break patchit $SEEDED/C03-2/patch.diff
run "C19-2 (emitter goroutine)"           break patchit $SEEDED/C19-2/patch.diff

# --- hand-made edits ------------------------------------------------------
run "hand: worker writes j.done = true" break pyedit '
import re
p="'$S'"; s=open(p).read()
assert s.count("\t\tcurrentJob = j\n")==1
s=s.replace("\t\tcurrentJob = j\n","\t\tcurrentJob = j\n\t\tj.done = true\n")
open(p,"w").write(s)'

run "hand: Wait reads s.err before the select" break pyedit '
p="'$S'"; s=open(p).read()
k="\tclose(s.enqueuec) // disallow new Enqueues\n"
assert s.count(k)==1
s=s.replace(k,k+"\tif s.err != nil {\n\t\treturn s.err\n\t}\n")
open(p,"w").write(s)'

run "hand: extra go func(){...}() in run" break pyedit '
p="'$S'"; s=open(p).read()
k="\tenqueuec := s.enqueuec\n"
assert s.count(k)==1
s=s.replace(k,k+"\tgo func() {\n\t\t<-s.finishedc\n\t}()\n")
open(p,"w").write(s)'

run "hand: pending declared as int32" break pyedit '
p="'$S'"; s=open(p).read()
assert s.count("\tpending := 0\n")==1
s=s.replace("\tpending := 0\n","\tvar pending int32\n")
s=s.replace("Pending:     pending,","Pending:     int(pending),")
s=s.replace("Pending: pending,","Pending: int(pending),")
s=s.replace(", pending, ongoing,",", int(pending), ongoing,")
open(p,"w").write(s)'

run "hand: invalidation moved into Wait-called helper" break pyedit '
p="'$S'"; s=open(p).read()
k="\tclose(s.enqueuec) // disallow new Enqueues\n"
s=s.replace(k,k+"\tmarkAll(nil)\n")
s+="\nfunc markAll(js []*ScheduledJob) {\n\tfor _, j := range js {\n\t\tj.invalid = true\n\t}\n}\n"
open(p,"w").write(s)'

# --- harmless refactorings --------------------------------------------------
for d in $SEEDED/harmless/H1/h1.diff $SEEDED/harmless/H1/h2.diff $SEEDED/harmless/H1/h3.diff; do
  run "harmless H1/$(basename $d)" hold patchit $d
done
for d in $SEEDED/harmless/H2/*.diff; do
  if grep -q '^+++ b/scheduler' $d; then
    run "harmless H2/$(basename $d)" hold patchit $d
  else
    echo "skip harmless H2/$(basename $d): does not touch scheduler/ or scheduler.go"
  fi
done

run "hand (harmless): loop code moved into helpers called only by run" hold pyedit '
p="'$S'"; s=open(p).read()
old="""\t\t\tfor _, consumer := range job.consumers {
\t\t\t\tconsumer.remaining--
\t\t\t\tif consumer.remaining == 0 {
\t\t\t\t\twaiting--
\t\t\t\t\tready.PushBack(consumer)
\t\t\t\t}
\t\t\t}
"""
assert s.count(old)==1
s=s.replace(old,"""\t\t\tfor _, consumer := range job.consumers {
\t\t\t\tif release(consumer) {
\t\t\t\t\twaiting--
\t\t\t\t\tready.PushBack(consumer)
\t\t\t\t}
\t\t\t}
""")
s=s.replace("\tpending := 0\n","\tinflight := 0\n").replace("pending","inflight").replace("Pending:     inflight","Pending:     inflight")
s+="\nfunc release(c *ScheduledJob) bool {\n\tc.remaining--\n\treturn c.remaining == 0\n}\n"
open(p,"w").write(s)'

echo "selftest: $pass ok, $fail FAILED"
[ $fail -eq 0 ]
