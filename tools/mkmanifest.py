#!/usr/bin/env python3
"""Regenerates /verif/MANIFEST.json from the table below (kept in one place so that it stays valid)."""
import json, os
V = os.path.dirname(os.path.dirname(os.path.abspath(__file__)))
props = [json.loads(l)["id"] for l in open(os.path.join(V, "properties.jsonl"))]
thm = json.load(open(os.path.join(V, "theorems.json")))

S_NOTE = ("Trusted: Lean kernel; Go channel/select/goroutine semantics as encoded in Sched.step; job bodies atomic; "
          "harness, hooks, driver parser and verdict script. The model is tied to scheduler/scheduler.go by trace replay of "
          "every explored execution through the model's own executable definitions plus hook-free oracles on the real scheduler; "
          "for C05 C06 C19 additionally by facts regenerated from scheduler.go on every run (channel capacities, dispatch gate) re-checked by Lean decide.")

D_NOTE = ("Trusted: Lean kernel; the transcription of the templates into Gen.runTask/runPred and of compile.go into Gen.validate; "
          "go/types, gofmt, build/constraint and text/template as libraries; harness/cmd/progrun and textrun, Driver.lean parsers, verdict script. "
          "Tie: every generated program / text case of the run is executed on the real tool and compared with the models' executable definitions.")

CLAIMED = {
 # id: (technique, level text, design ref, note)
 "C01": ("Lean 4 proof (invariant induction over the scheduler LTS) + trace-replay correspondence", "Theorems over all DAGs/N/modes/interleavings of the model; correspondence and hook-free start/end-stamp oracle on the real scheduler for every explored scenario.", "3 C01", S_NOTE),
 "C03": ("Lean 4 proof (worker-slot invariant; work conservation by an explicit internal schedule) + trace-replay correspondence", "At most N running bodies in every reachable model state; a ready job gets started by loop/worker steps alone whenever a worker is free (C03_work_conserving); in-flight counter oracle and wiring checks on the real scheduler.", "3 C03", S_NOTE),
 "C05": ("Lean 4 proof (progress/measure over the scheduler LTS) + trace-replay correspondence", "Model-level progress; watchdog oracle with double-dump confirmation on the real scheduler.", "3 C05", S_NOTE),
 "C06": ("Lean 4 proof (gate invariant ongoing<=N) + trace-replay correspondence", "Outstanding results never exceed cap(donec) in the model, so no worker blocks after the loop left; goroutine-quiescence oracle on the real scheduler.", "3 C06", S_NOTE),
 "C07": ('Lean 4 proof (fail-fast error accounting of the scheduler; closure epilogue; Parallel composition) + trace-replay correspondence + differential oracle', "nil ⇒ every job ended ok exactly once; a non-nil error is one real failure (job error, Goexit, ctx); nothing downstream of a failure starts; the closure returns Wait's error unchanged and writes Results only after nil (C07_results_untouched); for generated Parallel code the returned entry is a real function's own entry (C07_par_error). Error-identity and invocation oracles on the real scheduler and on generated programs.", "3 C07", S_NOTE),
 "C08": ('Lean 4 proof (ContinueOnError accounting of the scheduler; Parallel composition) + trace-replay correspondence + differential oracle', 'error entries = the failing results the loop saw, no sentinel, every entry real; everything runnable ran; for generated Parallel code with ContinueOnError every task/element/entry function is called exactly once and the error has one entry per failing function (C08_par_errors, C08_par_functions_called). multierr decomposition oracle on the real scheduler and on generated programs.', "3 C08", S_NOTE),
 "C09": ("Lean 4 proof (no start after cancel; prompt return by an explicit workerEnd-free schedule) + trace-replay correspondence", "no started event after cancelled in any model log; from every cancelled state the caller finishes its Enqueues and returns without any running body ending (C09_prompt); structural cancellation oracles and receive-after-cancel trace rule on the real scheduler.", "3 C09", S_NOTE),
 "C02": ('Lean 4 proof (composition of the scheduler LTS with the generated job bodies: schedule independence and refinement of the reference execution; topological enqueue order; order/concurrency independence of the denotation) + differential oracle on generated programs', 'For every accepted flow, every worker count and every scheduler run whose logged outcomes are those of the bodies: each body that ended did what it does in the sequential reference execution and wrote the reference values (C02_schedule_independent); if the flow returns nil every job ran exactly once with the reference arguments and the Results copy writes the reference values (C02_flow_refines_ideal); every generated program of the run is executed under all/sampled outcome assignments, 64-way concurrently, and compared with the same reference execution.', "3 C02", D_NOTE),
 "C10": ('Lean 4 proof (job structure and bodies of generated Parallel code composed with the scheduler LTS) + differential oracle on generated programs', 'If Parallel returns nil the calls are a permutation of one call per task, element (i, s[i]), entry (k, m[k]) and End function (C10_calls_complete); an End function starts only after every element of its collection ended ok and never after a failure (C10_end_last, C10_end_never_after_failure); sizes nil,0,1,2,17,300 and collections-only all-empty directives executed on real generated code, expected calls computed from the same model definitions (parJobs, runPJob).', "3 C10", D_NOTE),
 "C14": ("Lean 4 proof (validation model accepts iff declaratively well-formed: BFS and memoised DFS sound and complete) + differential on accepted, mutated and unsupported-signature generated programs", "validateFlow p = [] <-> WellFormed p for every program of the model (no bound on tasks); the verdict and diagnostic category of the real cff for every well-formed and every mutated program (missing provider, duplicate provider, cycle at any distance/through predicates/unreachable, unused param/output, fallback without error, bad Invoke, unsupported predicate signature, FallbackWith arity, non-assignable element, instrument without emitter, ContinueOnError with End) is compared with the model's validate; accepted programs are additionally compiled and type-checked.", "3 C14", D_NOTE),
 "C15": ('Lean 4 proof (prologue is a sorted permutation; capture hygiene) + regenerated per-site facts (every user expression printed through the hoisting printer) + differential oracle (every argument slot wrapped in a logging call)', 'Each hoisted expression evaluated once in source order in the model; an expression keeps its meaning unless it mentions err or an earlier hoisted name; every template action printing a user expression goes through `expr` (Tie facts regenerated from /repo); evaluation order, goroutine and before-first-task observed on real generated code for every slot incl. method-value receivers; err capture is a recorded finding.', "3 C15", D_NOTE),
 "C20": ('Lean 4 proof (source-map adds only comments; magic markers) + regenerated per-site facts (source-map-only writes are comments) + comment-stripped comparison of base and source-map output; differential execution for modifier mode', 'Model-level equality of code tokens; every write guarded by sourceMapped is a comment (Tie facts regenerated from /repo); byte/token comparison of both modes for every generated program; base vs modifier builds executed on identical scenarios incl. types spelled two ways.', "3 C20", D_NOTE),
 "C04": ('Lean 4 proof (recover structure of Flow and Parallel job bodies; scheduler error accounting) + differential oracle on generated programs', 'No panic escapes a generated Flow task/predicate body or a Parallel task/element/entry/End body, and the job error is the PanicError of the panicking function, for every shape/scenario/store of the model (C04_no_escape, C04_par_no_escape, C04_panic_error); every function kind x panic value class executed on real generated code with crash isolation.', "3 C04", D_NOTE),
 "C11": ('Lean 4 proof (gate and fallback semantics of the task body; refinement of the reference execution) + differential oracle on generated programs', 'Gate, zero values on false predicate, fallback substitution on error/panic/predicate panic only, for every task of the model; by C02_flow_refines_ideal the real schedule calls exactly the functions the reference execution calls; all predicate x task outcome combinations on real generated code.', "3 C11", D_NOTE),
 "C13": ('Lean 4 proof (import-alias freshness; directive elimination by the walker) + regenerated per-site facts (decide) + differential oracle (go/types on every generated file, directive scan, exit status)', 'Partial: alias synthesis and the walker (no directive left unless directives are nested) proved; no hard-coded package reference in template text and directive tables agree (Tie facts regenerated from /repo); parse/type-check/no directive left/no tool panic decided per generated program incl. unsupported-signature inputs; nested directives and package-name shadowing are recorded findings.', "3 C13", D_NOTE),
 "C16": ('Lean 4 proof (constraint inversion, output naming, byte-level splice) + bounded-exhaustive differential against writeInvertedCffTag and the cff binary', "eval(rewrite e) sigma = eval e (flip cff sigma) for every expression/assignment; output naming injective and test-preserving; the splice keeps every byte outside the directive spans in order (C16_splice); real function compared on all expressions up to the tier's size, AST diff and directory snapshots on generated programs.", "3 C16", D_NOTE),
 "C17": ('Lean 4 proof (sorting is permutation-invariant; magic token never reaches the output) + regenerated per-site facts (map iterations and randomness sources classified) + repeated fresh-process generation compared byte for byte', 'Partial: the map-iteration sites that reach the output are sorted, proved order-independent; the set of map iterations and random/clock sources of the generator is re-extracted from /repo and must equal the reviewed table; other sources are searched by repeated runs, -file alone vs package, both modes.', "3 C17", D_NOTE),
 "C18": ('Lean 4 proof (EmitterStack fan-out law; one-invocation event protocol; closure epilogue) + differential oracle with recording emitters', 'Stack law for every nesting; exactly one outcome event and one TaskDone per invocation; exactly one FlowSuccess/FlowError then FlowDone, TaskSkipped exactly for the instrumented tasks that did not run (C18_directive_events, C18_skipped); per-emitter event sequences of real generated code checked for every scenario, the closing events against the same Gen.flowEnd.', "3 C18", D_NOTE),
 "C12": ('Lean 4 proof (ownership discipline of the scheduler model and of the generated closure variables) + race-detector runs of both harnesses', "Partial: only the loop writes loop state; invalid is written only before the hand-off; every hand-off is a channel operation of the model; closure variables have a single writer which is among the reader's Dependencies (C12_var_ownership). 'Therefore race-free' rests on the Go memory model; the race detector searches real executions of scheduler scenarios and generated programs.", "3 C12", S_NOTE),
 "C19": ("Lean 4 proof (counter invariants) + trace-replay correspondence", "report equalities/bounds in every reachable model state; every emitted report of the real scheduler checked against them and against the model's counters.", "3 C19", S_NOTE),
}
NA_REASON = "check not built yet in this session (see DESIGN.md section 3 for the planned model and theorems); no claim is made"

checks = []
for p in props:
    if p in CLAIMED and thm.get(p, {}).get('theorems'):
        tech, text, ref, note = CLAIMED[p]
        checks.append({
            "property_id": p,
            "quick_cmd": "./check %s --tier quick" % p,
            "thorough_cmd": "./check %s --tier thorough" % p,
            "evidence_file": "evidence/%s.json" % p,
            "replay_cmd_template": "./check %s --replay {path}" % p,
            "engine": "lean4+harness",
            "level_claimed": {"category": "proof", "text": text + " Theorems: " + (", ".join(thm.get(p, {}).get("theorems", [])) or "(none registered yet)"), "design_ref": ref},
            "level_note": note,
            "technique": tech,
        })
m = {
 "version": 1,
 "setup_cmd": "./check setup",
 "hooks": {"guard": "verif", "enable": "go build -tags verif (harness module replaces go.uber.org/cff => /repo)",
           "baseline_off_cmd": "cd /repo && for m in . ./internal/tests; do (cd $m && GOFLAGS=-mod=mod go test -json -vet=off -count=1 -timeout 25m ./...); done",
           "source_commits": ["b9a1210", "2254e93", "33e8576", "4c8d53f", "8f69b9f"], "add_only": True},
 "engines": [{"name": "lean4+harness", "path": "/verif/lean, /verif/harness, /verif/lib", "serves_properties": sorted(CLAIMED),
              "kind_free_text": "Lean 4 models and theorems; Go harness driving the real code; Lean driver replaying traces/observations through the models"}],
 "checks": checks,
 "not_applicable": [{"property_id": p, "reason": NA_REASON} for p in props if not (p in CLAIMED and thm.get(p, {}).get('theorems'))],
 "notes": "See DESIGN.md. known_findings.json lists recorded and fixed defects.",
}
json.dump(m, open(os.path.join(V, "MANIFEST.json"), "w"), indent=1)
print("claimed:", sorted(CLAIMED))
