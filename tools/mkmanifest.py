#!/usr/bin/env python3
"""Regenerates /verif/MANIFEST.json from the table below (kept in one place so that it stays valid)."""
import json, os
V = os.path.dirname(os.path.dirname(os.path.abspath(__file__)))
props = [json.loads(l)["id"] for l in open(os.path.join(V, "properties.jsonl"))]
thm = json.load(open(os.path.join(V, "theorems.json")))

S_NOTE = ("Trusted: Lean kernel; Go channel/select/goroutine semantics as encoded in Sched.step; job bodies atomic; "
          "harness, hooks, driver parser and verdict script. The model is tied to scheduler/scheduler.go by trace replay of "
          "every explored execution through the model's own executable definitions plus hook-free oracles on the real scheduler.")

CLAIMED = {
 # id: (technique, level text, design ref, note)
 "C01": ("Lean 4 proof (invariant induction over the scheduler LTS) + trace-replay correspondence", "Theorems over all DAGs/N/modes/interleavings of the model; correspondence and hook-free start/end-stamp oracle on the real scheduler for every explored scenario.", "3 C01", S_NOTE),
 "C03": ("Lean 4 proof (worker-slot invariant) + trace-replay correspondence", "At most N running bodies in every reachable model state; in-flight counter oracle and wiring checks on the real scheduler.", "3 C03", S_NOTE),
 "C05": ("Lean 4 proof (progress/measure over the scheduler LTS) + trace-replay correspondence", "Model-level progress; watchdog oracle with double-dump confirmation on the real scheduler.", "3 C05", S_NOTE),
 "C06": ("Lean 4 proof (gate invariant ongoing<=N) + trace-replay correspondence", "Outstanding results never exceed cap(donec) in the model, so no worker blocks after the loop left; goroutine-quiescence oracle on the real scheduler.", "3 C06", S_NOTE),
 "C07": ("Lean 4 proof (fail-fast error accounting) + trace-replay correspondence", "nil/err soundness on the model; error-identity and invocation oracles on the real scheduler.", "3 C07", S_NOTE),
 "C08": ("Lean 4 proof (ContinueOnError accounting) + trace-replay correspondence", "error multiset/no sentinel on the model; multierr decomposition oracle on the real scheduler.", "3 C08", S_NOTE),
 "C09": ("Lean 4 proof (no start after cancel) + trace-replay correspondence", "no started event after cancelled in any model log; structural cancellation oracles and receive-after-cancel trace rule on the real scheduler.", "3 C09", S_NOTE),
 "C19": ("Lean 4 proof (counter invariants) + trace-replay correspondence", "report equalities/bounds in every reachable model state; every emitted report of the real scheduler checked against them and against the model's counters.", "3 C19", S_NOTE),
}
NA_REASON = "check not built yet in this session (see DESIGN.md section 3 for the planned model and theorems); no claim is made"

checks = []
for p in props:
    if p in CLAIMED and thm.get(p, {}).get('theorems'):
        tech, text, ref, note = CLAIMED[p]
        checks.append({
            "property_id": p,
            "quick_cmd": "./check %s --tier quick" % p,
            "thorough_cmd": "./check %s --tier thorough" % p,
            "evidence_file": "evidence/%s.json" % p,
            "replay_cmd_template": "./check %s --replay {path}" % p,
            "engine": "lean4+harness",
            "level_claimed": {"category": "proof", "text": text + " Theorems: " + (", ".join(thm.get(p, {}).get("theorems", [])) or "(none registered yet)"), "design_ref": ref},
            "level_note": note,
            "technique": tech,
        })
m = {
 "version": 1,
 "setup_cmd": "./check setup",
 "hooks": {"guard": "verif", "enable": "go build -tags verif (harness module replaces go.uber.org/cff => /repo)",
           "baseline_off_cmd": "cd /repo && for m in . ./internal/tests; do (cd $m && GOFLAGS=-mod=mod go test -json -vet=off -count=1 -timeout 25m ./...); done",
           "source_commits": ["b9a1210", "2254e93"], "add_only": True},
 "engines": [{"name": "lean4+harness", "path": "/verif/lean, /verif/harness, /verif/lib", "serves_properties": sorted(CLAIMED),
              "kind_free_text": "Lean 4 models and theorems; Go harness driving the real code; Lean driver replaying traces/observations through the models"}],
 "checks": checks,
 "not_applicable": [{"property_id": p, "reason": NA_REASON} for p in props if not (p in CLAIMED and thm.get(p, {}).get('theorems'))],
 "notes": "See DESIGN.md. known_findings.json lists recorded and fixed defects.",
}
json.dump(m, open(os.path.join(V, "MANIFEST.json"), "w"), indent=1)
print("claimed:", sorted(CLAIMED))
