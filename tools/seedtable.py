#!/usr/bin/env python3
"""Regenerate the seeded-change table (DESIGN.md §0.6) from seeded/*/meta.json and seeded/NOTES.json."""
import json, glob, os, re
notes = json.load(open("/verif/seeded/NOTES.json"))
out = ["| seed | what it needs to manifest (abridged from meta.json) | caught with failing input by | no-failing-input-found by | first missed? → what was strengthened |",
       "|------|------|------|------|------|"]
n = missed = 0
for d in sorted(glob.glob("/verif/seeded/C*-*")):
    sid = os.path.basename(d)
    m = json.load(open(d + "/meta.json"))
    c = m.get("confirmed", {})
    needs = re.sub(r"\s+", " ", m.get("needs", "")).replace("|", "/")[:150]
    note = notes.get(sid, "")
    n += 1
    missed += note.startswith("**yes**")
    out.append("| %s | %s | %s | %s | %s |" % (sid, needs, " ".join(c.get("caught_with_failing_input", [])),
               " ".join(c.get("reported_no_failing_input_found", [])), note))
out.append("")
out.append("%d changes; %d were missed at first by every quick check and led to the strengthening in the last column." % (n, missed))
open("/verif/seeded/TABLE.md", "w").write("\n".join(out) + "\n")
print(n, missed)
s = open("/verif/DESIGN.md").read()
a = s.index("<!-- seedtable:begin -->") + len("<!-- seedtable:begin -->\n")
b = s.index("<!-- seedtable:end -->")
open("/verif/DESIGN.md", "w").write(s[:a] + "\n".join(out) + "\n" + s[b:])
