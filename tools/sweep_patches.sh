#!/bin/bash
# Usage: tools/sweep_patches.sh <jobs> <props...> -- <patch files...>
# Applies each patch to its own scratch worktree of /repo (under /tmp), runs the given quick checks against
# it (VERIF_REPO, evidence and replays redirected to the scratch area) and prints which checks raise a
# violation.  /repo and /verif/evidence are not touched.  Used for the behaviour-preserving patches.
jobs=$1; shift
props=()
while [ "$1" != "--" ]; do props+=("$1"); shift; done; shift
run_one() {
  patch=$1; shift
  id=$(echo "$patch" | md5sum | cut -c1-8)
  wt=/tmp/sweep-$id
  git -C /repo worktree add --detach $wt HEAD -q 2>/dev/null || { echo "$patch: worktree failed"; return; }
  if ! git -C $wt apply "$patch" 2>/dev/null; then echo "$patch: NOAPPLY"; git -C /repo worktree remove --force $wt; return; fi
  mkdir -p /tmp/sweep-out-$id
  res=""
  for p in "$@"; do
    out=$(cd /verif && VERIF_REPO=$wt VERIF_OUT=/tmp/sweep-out-$id ./check $p --tier quick 2>&1); e=$?
    if [ $e -ne 0 ]; then res="$res $p(exit=$e:$(echo "$out" | grep -m1 -o 'replay=[^ ]*' ))"; fi
  done
  echo "$patch: alarms:${res:- none}"
  git -C /repo worktree remove --force $wt
}
export -f run_one
trap 'kill 0' INT TERM
printf '%s\n' "$@" | xargs -P $jobs -I{} bash -c 'run_one "$@"' _ {} "${props[@]}"
