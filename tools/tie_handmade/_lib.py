# helpers for the hand-made edits: run with cwd = scratch copy of the repository
import re, sys
def sub(path, old, new):
    s = open(path).read()
    if old not in s:
        sys.exit("hand edit: pattern not found in %s: %r" % (path, old))
    open(path, "w").write(s.replace(old, new, 1))
def rep1(path, old, new):
    s = open(path).read()
    assert s.count(old) == 1, "hand edit: text not found exactly once in %s: %r" % (path, old[:60])
    open(path, "w").write(s.replace(old, new))
def cut(s, a, b):
    i = s.index(a); j = s.index(b, i) + len(b)
    return s[:i] + s[j:], s[i:j]
def tmpl(rel, code):
    path = "internal/templates/" + rel
    s = open(path).read()
    env = {"s": s, "cut": cut}
    exec(code, env)
    assert env["s"] != s, "edit did not change " + path
    open(path, "w").write(env["s"])
def append(path, text):
    open(path, "a").write(text)
