#!/usr/bin/env python3
"""record_seed.py <seed-src-dir> <id>  — copies a confirmed seeded change into /verif/seeded/<id>/ and records which checks catch it."""
import json, os, shutil, subprocess, sys
src, sid = sys.argv[1], sys.argv[2]
props = sys.argv[3:] or None
dst = "/verif/seeded/" + sid
if os.path.realpath(src) != os.path.realpath(dst):
    shutil.copytree(src, dst, dirs_exist_ok=True)
for junk in ("demo/cff", "demo/go.sum"):
    pass
args = ["python3", "/verif/tools/try_seed.py", os.path.join(src, "patch.diff")] + (props or [])
out = subprocess.run(args, capture_output=True, text=True, cwd="/verif").stdout
caught, nfi, quiet = [], [], []
for l in out.splitlines():
    t = l.split()
    if len(t) >= 2 and t[0].startswith("C") and t[1].startswith("exit="):
        if t[1] == "exit=1":
            (nfi if "no-failing-input-found" in l else caught).append(t[0])
        elif t[1] == "exit=0":
            quiet.append(t[0])
m = json.load(open(os.path.join(dst, "meta.json"))) if os.path.exists(os.path.join(dst, "meta.json")) else {}
m["confirmed"] = {"how": "tools/confirm_seed.sh in a scratch worktree: patch applies, builds with and without -tags verif, root and internal/tests suites pass (only the baseline's always-failing TestPanicRecovered fails), demo passes without and fails with the change",
                  "checks_run": "tools/try_seed.py: git -C /repo apply patch; ./check <id> --tier quick for each listed property; git -C /repo checkout -- .",
                  "caught_with_failing_input": caught, "reported_no_failing_input_found": nfi, "quiet": quiet}
json.dump(m, open(os.path.join(dst, "meta.json"), "w"), indent=1)
print(sid, "caught:", caught, "nfi:", nfi)
