/-
  G — where the jobs of a `cff.Parallel` sit in the enqueue order (`Gen.parJobs`): tasks first,
  then one block per slice, then one block per map; a block is the element jobs `(i, s[i])`
  (`(k, m[k])`) followed by the End job, whose dependencies are exactly the block's element jobs.
  Every job belongs to exactly one of these (`parJobs_cases`), and all dependencies point backwards
  (`parJobs_deps_before`).
-/
import CffVerif.Gen.ParBody

namespace Gen

/-- Number of jobs of one collection. -/
def collSize (c : Coll) : Nat := collN c + (if c.hasEnd then 1 else 0)

def collsSize : List Coll → Nat
  | [] => 0
  | c :: cs => collSize c + collsSize cs

inductive CollKind | slice | map
  deriving DecidableEq, Repr

def CollKind.colls : CollKind → Prog → List Coll
  | .slice, p => p.slices
  | .map, p => p.maps

def CollKind.mk : CollKind → Nat → Coll → List PJob
  | .slice => sliceJobs
  | .map => mapJobs

/-- Body of the job of element `i` of a collection: its own copy of `(i, s[i])` / `(k, m[k])`. -/
def elemBody : CollKind → Coll → Nat → PBody
  | .slice, c, i => .sliceElem c.id i (sliceElem c.id i)
  | .map, c, j => .mapElem c.id j (mapKey c.id j) (mapVal c.id j)

def endBody : CollKind → Coll → PBody
  | .slice, c => .sliceEnd c.id
  | .map, c => .mapEnd c.id

theorem mk_length (kd : CollKind) (base : Nat) (c : Coll) : (kd.mk base c).length = collSize c := by
  cases kd <;> simp only [CollKind.mk, sliceJobs, mapJobs, collSize] <;> split <;> simp

theorem mk_elem (kd : CollKind) (base : Nat) (c : Coll) (i : Nat) (hi : i < collN c) :
    (kd.mk base c)[i]? = some { body := elemBody kd c i } := by
  cases kd <;> simp only [CollKind.mk, sliceJobs, mapJobs, elemBody] <;>
    rw [List.getElem?_append_left (by simpa using hi)] <;> simp [hi]

theorem mk_end (kd : CollKind) (base : Nat) (c : Coll) (h : c.hasEnd = true) :
    (kd.mk base c)[collN c]? = some { body := endBody kd c, deps := (List.range (collN c)).map (base + ·) } := by
  cases kd <;> simp only [CollKind.mk, sliceJobs, mapJobs, endBody, h, if_true] <;>
    rw [List.getElem?_append_right (by simp)] <;> simp

/-- Every job of a block is an element job (no dependencies) or the End job. -/
theorem mk_cases (kd : CollKind) (base : Nat) (c : Coll) (i : Nat) (j : PJob) (h : (kd.mk base c)[i]? = some j) :
    (i < collN c ∧ j = { body := elemBody kd c i }) ∨
    (c.hasEnd = true ∧ i = collN c ∧ j = { body := endBody kd c, deps := (List.range (collN c)).map (base + ·) }) := by
  have hlt : i < collSize c := by rw [← mk_length kd base c]; exact (List.getElem?_eq_some_iff.mp h).1
  by_cases hi : i < collN c
  · rw [mk_elem kd base c i hi] at h; exact Or.inl ⟨hi, by simpa using h.symm⟩
  · have he : c.hasEnd = true := by
      unfold collSize at hlt; split at hlt
      · assumption
      · omega
    have hi' : i = collN c := by unfold collSize at hlt; simp [he] at hlt; omega
    subst hi'
    rw [mk_end kd base c he] at h
    exact Or.inr ⟨he, rfl, by simpa using h.symm⟩

theorem collsJobs_length (kd : CollKind) : ∀ (cs : List Coll) (base : Nat),
    (collsJobs kd.mk base cs).length = collsSize cs
  | [], _ => rfl
  | c :: cs, base => by
    simp only [collsJobs, List.length_append, collsSize, mk_length, collsJobs_length kd cs]

/-- The block of the `n`-th collection inside `collsJobs`. -/
theorem collsJobs_block (kd : CollKind) : ∀ (cs : List Coll) (base n : Nat) (c : Coll), cs[n]? = some c →
    ∀ i, i < collSize c →
    (collsJobs kd.mk base cs)[collsSize (cs.take n) + i]? = (kd.mk (base + collsSize (cs.take n)) c)[i]?
  | [], _, n, c, h, _, _ => by simp at h
  | c0 :: cs, base, 0, c, h, i, hi => by
    simp only [List.getElem?_cons_zero, Option.some.injEq] at h; subst h
    simp only [collsJobs, List.take_zero, collsSize, Nat.zero_add, Nat.add_zero]
    rw [List.getElem?_append_left (by rw [mk_length]; exact hi)]
  | c0 :: cs, base, n + 1, c, h, i, hi => by
    simp only [List.getElem?_cons_succ] at h
    have ih := collsJobs_block kd cs (base + (kd.mk base c0).length) n c h i hi
    simp only [collsJobs, List.take_succ_cons, collsSize]
    rw [List.getElem?_append_right (by rw [mk_length]; omega)]
    rw [mk_length] at ih ⊢
    have e1 : collSize c0 + collsSize (cs.take n) + i - collSize c0 = collsSize (cs.take n) + i := by omega
    have e2 : base + (collSize c0 + collsSize (cs.take n)) = base + collSize c0 + collsSize (cs.take n) := by omega
    rw [e1, ih, e2]

/-- Every position of `collsJobs` lies in the block of some collection. -/
theorem collsJobs_find : ∀ (cs : List Coll) (pos : Nat), pos < collsSize cs →
    ∃ n c i, cs[n]? = some c ∧ i < collSize c ∧ pos = collsSize (cs.take n) + i
  | [], pos, h => by simp [collsSize] at h
  | c0 :: cs, pos, h => by
    by_cases h0 : pos < collSize c0
    · exact ⟨0, c0, pos, by simp, h0, by simp [collsSize]⟩
    · have h' : pos - collSize c0 < collsSize cs := by simp only [collsSize] at h; omega
      obtain ⟨n, c, i, hn, hi, hp⟩ := collsJobs_find cs (pos - collSize c0) h'
      exact ⟨n + 1, c, i, by simpa using hn, hi, by simp only [List.take_succ_cons, collsSize]; omega⟩

theorem parJobs_eq (p : Prog) :
    parJobs p = (p.ptasks.map fun t => ({ body := .task t.k } : PJob)) ++
      collsJobs CollKind.slice.mk p.ptasks.length p.slices ++
      collsJobs CollKind.map.mk (p.ptasks.length + collsSize p.slices) p.maps := by
  simp only [parJobs, List.length_map, CollKind.mk]
  rw [show (collsJobs sliceJobs p.ptasks.length p.slices).length = collsSize p.slices from
    collsJobs_length .slice p.slices p.ptasks.length]

theorem parJobs_length (p : Prog) :
    (parJobs p).length = p.ptasks.length + collsSize p.slices + collsSize p.maps := by
  rw [parJobs_eq]; simp only [List.length_append, List.length_map, collsJobs_length]

/-- Position in `parJobs p` of the first job of the `n`-th slice / map. -/
def collBase (p : Prog) : CollKind → Nat → Nat
  | .slice, n => p.ptasks.length + collsSize (p.slices.take n)
  | .map, n => p.ptasks.length + collsSize p.slices + collsSize (p.maps.take n)

/-- `CollAt p kd c base`: `c` is one of the slices (maps) of `p`, and its jobs occupy the
    positions `base, base+1, …` of the enqueue order `parJobs p`. -/
def CollAt (p : Prog) (kd : CollKind) (c : Coll) (base : Nat) : Prop :=
  ∃ n, (kd.colls p)[n]? = some c ∧ base = collBase p kd n

theorem collsSize_take_lt {cs : List Coll} {n : Nat} {c : Coll} (h : cs[n]? = some c) {i : Nat}
    (hi : i < collSize c) : collsSize (cs.take n) + i < collsSize cs := by
  have hb := collsJobs_block .slice cs 0 n c h i hi
  have hx : (CollKind.slice.mk (0 + collsSize (cs.take n)) c)[i]? =
      some ((CollKind.slice.mk (0 + collsSize (cs.take n)) c)[i]'(by rw [mk_length]; exact hi)) :=
    List.getElem?_eq_getElem _
  rw [← hb] at hx
  have := (List.getElem?_eq_some_iff.mp hx).1
  rwa [collsJobs_length] at this

theorem parJobs_block (p : Prog) (kd : CollKind) (n : Nat) (c : Coll) (h : (kd.colls p)[n]? = some c)
    (i : Nat) (hi : i < collSize c) :
    (parJobs p)[collBase p kd n + i]? = (kd.mk (collBase p kd n) c)[i]? := by
  rw [parJobs_eq]
  cases kd with
  | slice =>
    simp only [CollKind.colls] at h
    have hlt := collsSize_take_lt h hi
    simp only [collBase]
    rw [List.getElem?_append_left (by simp [collsJobs_length]; omega),
      List.getElem?_append_right (by simp; omega)]
    simp only [List.length_map]
    rw [show p.ptasks.length + collsSize (p.slices.take n) + i - p.ptasks.length
          = collsSize (p.slices.take n) + i by omega]
    exact collsJobs_block .slice p.slices p.ptasks.length n c h i hi
  | map =>
    simp only [CollKind.colls] at h
    simp only [collBase]
    rw [List.getElem?_append_right (by simp [collsJobs_length]; omega)]
    simp only [List.length_append, List.length_map, collsJobs_length]
    rw [show p.ptasks.length + collsSize p.slices + collsSize (p.maps.take n) + i
            - (p.ptasks.length + collsSize p.slices) = collsSize (p.maps.take n) + i by omega]
    exact collsJobs_block .map p.maps (p.ptasks.length + collsSize p.slices) n c h i hi

/-- **C10 (elements).** The job of element `i` of a collection sits at `base + i`, carries its own
    copy of `(i, s[i])` (`(k, m[k])`) and has no dependency. -/
theorem CollAt.elem {p : Prog} {kd : CollKind} {c : Coll} {base : Nat} (h : CollAt p kd c base)
    (i : Nat) (hi : i < collN c) : (parJobs p)[base + i]? = some { body := elemBody kd c i } := by
  obtain ⟨n, hn, rfl⟩ := h
  rw [parJobs_block p kd n c hn i (by unfold collSize; omega), mk_elem kd _ c i hi]

/-- **C10 (End hook).** The End job of a collection sits right after its element jobs and names
    exactly these as dependencies (none for a nil or empty collection). -/
theorem CollAt.endJob {p : Prog} {kd : CollKind} {c : Coll} {base : Nat} (h : CollAt p kd c base)
    (he : c.hasEnd = true) :
    (parJobs p)[base + collN c]? =
      some { body := endBody kd c, deps := (List.range (collN c)).map (base + ·) } := by
  obtain ⟨n, hn, rfl⟩ := h
  rw [parJobs_block p kd n c hn (collN c) (by simp [collSize, he]), mk_end kd _ c he]

/-- Every slice and every map of the program has its block. -/
theorem collAt_exists (p : Prog) (kd : CollKind) (c : Coll) (hc : c ∈ kd.colls p) : ∃ base, CollAt p kd c base := by
  obtain ⟨n, hn⟩ := List.mem_iff_getElem?.mp hc
  exact ⟨_, n, hn, rfl⟩

/-- A task job: position = position in the directive, no dependency. -/
theorem parJobs_task (p : Prog) (pos : Nat) (t : PTask) (h : p.ptasks[pos]? = some t) :
    (parJobs p)[pos]? = some { body := .task t.k } := by
  have hlt : pos < p.ptasks.length := (List.getElem?_eq_some_iff.mp h).1
  rw [parJobs_eq, List.append_assoc, List.getElem?_append_left (by simpa using hlt)]
  simp [h]

/-- **Exhaustive description of the enqueue order.** Every job of `parJobs p` is a task job, the
    job of element `i` of some collection block, or the End job of some collection block. -/
theorem parJobs_cases (p : Prog) (pos : Nat) (j : PJob) (h : (parJobs p)[pos]? = some j) :
    (∃ t, p.ptasks[pos]? = some t ∧ j = { body := .task t.k }) ∨
    (∃ kd c base, CollAt p kd c base ∧
      ((∃ i, i < collN c ∧ pos = base + i ∧ j = { body := elemBody kd c i }) ∨
       (c.hasEnd = true ∧ pos = base + collN c ∧
          j = { body := endBody kd c, deps := (List.range (collN c)).map (base + ·) }))) := by
  have hlt : pos < (parJobs p).length := (List.getElem?_eq_some_iff.mp h).1
  rw [parJobs_length] at hlt
  by_cases h1 : pos < p.ptasks.length
  · left
    refine ⟨p.ptasks[pos], by simp, ?_⟩
    rw [parJobs_task p pos p.ptasks[pos] (by simp)] at h
    simpa using h.symm
  · right
    have key : ∀ kd n c i, (kd.colls p)[n]? = some c → i < collSize c → pos = collBase p kd n + i →
        ∃ kd c base, CollAt p kd c base ∧
          ((∃ i, i < collN c ∧ pos = base + i ∧ j = { body := elemBody kd c i }) ∨
           (c.hasEnd = true ∧ pos = base + collN c ∧
              j = { body := endBody kd c, deps := (List.range (collN c)).map (base + ·) })) := by
      intro kd n c i hn hi hp
      refine ⟨kd, c, collBase p kd n, ⟨n, hn, rfl⟩, ?_⟩
      rw [hp, parJobs_block p kd n c hn i hi] at h
      rcases mk_cases kd _ c i j h with ⟨h1, h2⟩ | ⟨h1, h2, h3⟩
      · exact Or.inl ⟨i, h1, hp, h2⟩
      · exact Or.inr ⟨h1, by rw [hp, h2], h3⟩
    by_cases h2 : pos < p.ptasks.length + collsSize p.slices
    · obtain ⟨n, c, i, hn, hi, hp⟩ := collsJobs_find p.slices (pos - p.ptasks.length) (by omega)
      exact key .slice n c i hn hi (by simp only [collBase]; omega)
    · obtain ⟨n, c, i, hn, hi, hp⟩ :=
        collsJobs_find p.maps (pos - (p.ptasks.length + collsSize p.slices)) (by omega)
      exact key .map n c i hn hi (by simp only [collBase]; omega)

/-- Every dependency of a Parallel job is a job enqueued before it (the scheduler's contract). -/
theorem parJobs_deps_before (p : Prog) (pos : Nat) (j : PJob) (h : (parJobs p)[pos]? = some j) :
    ∀ d ∈ j.deps, d < pos := by
  rcases parJobs_cases p pos j h with ⟨t, _, rfl⟩ | ⟨kd, c, base, _, ⟨i, _, _, rfl⟩ | ⟨_, hp, rfl⟩⟩
  · simp
  · simp
  · intro d hd
    simp only [List.mem_map, List.mem_range] at hd
    obtain ⟨x, hx, rfl⟩ := hd
    omega

/-- Jobs without dependencies: every task, every element, every entry (and the End job of an
    empty or nil collection). -/
theorem parJobs_nodeps (p : Prog) (pos : Nat) (j : PJob) (h : (parJobs p)[pos]? = some j) :
    j.deps = [] ∨ ∃ kd c base, CollAt p kd c base ∧ c.hasEnd = true ∧ pos = base + collN c ∧ j.body = endBody kd c := by
  rcases parJobs_cases p pos j h with ⟨t, _, rfl⟩ | ⟨kd, c, base, hat, ⟨i, _, _, rfl⟩ | ⟨he, hp, rfl⟩⟩
  · exact Or.inl rfl
  · exact Or.inl rfl
  · exact Or.inr ⟨kd, c, base, hat, he, hp, rfl⟩

/-- The dependency graph of a Parallel has depth one: a job that is depended upon (an element of a
    collection with an End function) has no dependency itself. -/
theorem parJobs_deps_nodeps (p : Prog) (pos : Nat) (j : PJob) (h : (parJobs p)[pos]? = some j) (d : Nat)
    (hd : d ∈ j.deps) : ∃ jd, (parJobs p)[d]? = some jd ∧ jd.deps = [] := by
  rcases parJobs_cases p pos j h with ⟨t, _, rfl⟩ | ⟨kd, c, base, hat, ⟨i, _, _, rfl⟩ | ⟨_, hp, rfl⟩⟩
  · simp at hd
  · simp at hd
  · simp only [List.mem_map, List.mem_range] at hd
    obtain ⟨x, hx, rfl⟩ := hd
    exact ⟨_, hat.elem x hx, rfl⟩

/-! ### the call lines of all jobs, spelled out -/

/-- The lines of one slice: `scall s i s[i]` for every index (none for nil/empty), then `secall s`. -/
def sliceLines (p : Prog) (c : Coll) : List String :=
  ((List.range (collN c)).map fun i =>
    s!"scall {c.id} {if (collOf p.slices c.id).idx then toString i else "-"} {sliceElem c.id i}") ++
  (if c.hasEnd then [s!"secall {c.id}"] else [])

def mapLines (c : Coll) : List String :=
  ((List.range (collN c)).map fun j => s!"mcall {c.id} {mapKey c.id j} {mapVal c.id j}") ++
  (if c.hasEnd then [s!"mecall {c.id}"] else [])

theorem collsJobs_map_flatMap {β : Type} (mk : Nat → Coll → List PJob) (f : PJob → β) (g : Coll → List β)
    (h : ∀ b c, (mk b c).map f = g c) : ∀ (cs : List Coll) (base : Nat),
    (collsJobs mk base cs).map f = cs.flatMap g
  | [], _ => rfl
  | c :: cs, base => by
    simp only [collsJobs, List.map_append, h, List.flatMap_cons, collsJobs_map_flatMap mk f g h cs]

/-- **C10 (what is to be called).** The call lines of the jobs of a Parallel, in enqueue order: one
    per task, one per element `(i, s[i])` of every slice, one per entry `(k, m[k])` of every map —
    none for nil or empty collections — and one per End function. -/
theorem parJobs_calls (p : Prog) :
    (parJobs p).map (fun j => pCall p j.body) =
      (p.ptasks.map fun t => s!"call {t.k}") ++ p.slices.flatMap (sliceLines p) ++ p.maps.flatMap mapLines := by
  have hs : ∀ b c, (sliceJobs b c).map (fun j => pCall p j.body) = sliceLines p c := by
    intro b c; unfold sliceJobs sliceLines
    rw [List.map_append, List.map_map]
    congr 1
    split <;> rfl
  have hm : ∀ b c, (mapJobs b c).map (fun j => pCall p j.body) = mapLines c := by
    intro b c; unfold mapJobs mapLines
    rw [List.map_append, List.map_map]
    congr 1
    split <;> rfl
  simp only [parJobs, List.map_append, List.map_map]
  rw [collsJobs_map_flatMap sliceJobs _ _ hs, collsJobs_map_flatMap mapJobs _ _ hm]
  rfl

/-- With distinct slice ids the index flag looked up for a body is the one of its own slice. -/
theorem collOf_self (cs : List Coll) (hd : cs.Pairwise (fun a b => a.id ≠ b.id)) (c : Coll) (hc : c ∈ cs) :
    collOf cs c.id = c := by
  unfold collOf
  induction cs with
  | nil => simp at hc
  | cons x xs ih =>
    rw [List.pairwise_cons] at hd
    rcases List.mem_cons.mp hc with rfl | hm
    · simp
    · have hne : (x.id == c.id) = false := by simpa using hd.1 c hm
      rw [List.find?_cons, hne]
      exact ih hd.2 hm

end Gen
