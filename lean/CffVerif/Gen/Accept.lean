/-
  C14 — what acceptance by `validateFlow` (the model of internal/compile.go's checks) implies.
-/
import CffVerif.Gen.Cycle

namespace Gen

theorem eraseDups_eq_nil {l : List String} (h : l.eraseDups = []) : l = [] := by
  cases l with
  | nil => rfl
  | cons a as => simp [List.eraseDups_cons] at h

theorem ite_singleton_nil {c : Prop} [Decidable c] {x : String} (h : (if c then [x] else []) = ([] : List String)) : ¬ c := by
  intro hc; simp [hc] at h

/-- The directly checked conditions of an accepted flow. -/
structure AcceptFacts (p : Prog) : Prop where
  paramsDistinct : p.params.eraseDups.length = p.params.length
  invokeIff : ∀ t ∈ p.tasks, (t.outs.isEmpty = true ↔ t.invoke = true)
  fallbackNeedsError : ∀ t ∈ p.tasks, t.fb = true → t.err = true
  invokeConstant : p.quirk ≠ "invokevar"
  emitterForInstrument : (p.instrDir = true ∨ p.tasks.any (·.instr) = true) → p.emitters ≠ 0
  oneProvider : crossUnique (funcs p) = true ∧ selfUnique (funcs p) = true
  outputsConsumed : ∀ f ∈ funcs p, ∀ o ∈ f.outs,
      p.results.contains o = true ∨ (funcs p).any (fun g => g.deps.contains o) = true ∨ (o ≥ 1000 ∧ o < 2000)
  noCycleFound : hasCycle p = false

theorem accept_facts (p : Prog) (h : validateFlow p = []) : AcceptFacts p := by
  unfold validateFlow at h
  simp only [] at h
  have h0 := eraseDups_eq_nil h
  simp only [List.append_eq_nil_iff] at h0
  obtain ⟨⟨⟨⟨⟨⟨⟨⟨h1, h2⟩, h3⟩, h4⟩, h5⟩, h6⟩, h7⟩, h8⟩, h9⟩ := h0
  refine ⟨?_, ?_, ?_, ?_, ?_, ?_, ?_, ?_⟩
  · have := ite_singleton_nil h1; simpa using this
  · intro t ht
    have := List.flatMap_eq_nil_iff.mp h2 t ht
    simp only [List.append_eq_nil_iff] at this
    obtain ⟨⟨a, b⟩, _⟩ := this
    have a' := ite_singleton_nil a
    have b' := ite_singleton_nil b
    cases he : t.outs.isEmpty <;> cases hi : t.invoke <;> simp_all
  · intro t ht hfb
    have := List.flatMap_eq_nil_iff.mp h2 t ht
    simp only [List.append_eq_nil_iff] at this
    have c' := ite_singleton_nil this.2
    cases he : t.err <;> simp_all
  · have := ite_singleton_nil h3; simpa using this
  · intro hi
    have := ite_singleton_nil h4
    intro he
    apply this
    simp only [Bool.and_eq_true, Bool.or_eq_true, beq_iff_eq]
    exact ⟨by rcases hi with hi | hi <;> simp [hi], he⟩
  · cases hc : (crossUnique (funcs p) && selfUnique (funcs p)) with
    | true => simpa using hc
    | false => simp [hc] at h5
  · intro f hf o ho
    have := ite_singleton_nil h6
    simp only [List.any_eq_true, not_exists, not_and, Bool.not_eq_true'] at this
    have hr := this f hf o ho
    cases h1 : p.results.contains o with
    | true => exact Or.inl rfl
    | false =>
      cases h2 : (funcs p).any (fun g => g.deps.contains o) with
      | true => exact Or.inr (Or.inl rfl)
      | false =>
        right; right
        have e1 : ¬ o ∈ p.results := by
          intro hm; have := List.contains_iff_mem.mpr hm; rw [h1] at this; simp at this
        have e2 : ∀ x ∈ funcs p, ¬ o ∈ x.deps := by
          intro x hx hm
          have : (funcs p).any (fun g => g.deps.contains o) = true :=
            List.any_eq_true.mpr ⟨x, hx, List.contains_iff_mem.mpr hm⟩
          rw [h2] at this; simp at this
        simp at hr
        exact hr e1 e2
  · cases hc : hasCycle p with
    | false => rfl
    | true => simp [hc] at h9

/-- **C14 (cycles).** A flow the validation accepts has an acyclic function graph. -/
theorem accept_acyclic (p : Prog) (h : validateFlow p = []) : Acyclic p :=
  let f := accept_facts p h
  acyclic_of_no_cycle p f.noCycleFound f.oneProvider.1

/-- **C02/C14.** For every accepted flow the generated jobs are enqueued dependencies-first. -/
theorem accept_jobs_ordered (p : Prog) (h : validateFlow p = []) :
    (∀ (pos : Nat) (j : Job), (genJobs p)[pos]? = some j → ∀ d ∈ j.deps, d < pos) ∧
    (genJobs p).length = (funcs p).length :=
  genJobs_deps_before p (accept_acyclic p h)

/-- Accepted Parallel directives: every Slice/Map has element types assignable to its function's
    parameters, ContinueOnError is not combined with End hooks, instrumentation has an emitter. -/
theorem accept_par_facts (p : Prog) (h : validatePar p = []) :
    (∀ c ∈ p.slices ++ p.maps, c.assignable = true) ∧
    ¬ (p.hasCoe = true ∧ (p.slices.any (·.hasEnd) || p.maps.any (·.hasEnd)) = true) := by
  unfold validatePar at h
  simp only [] at h
  have h0 := eraseDups_eq_nil h
  simp only [List.append_eq_nil_iff] at h0
  obtain ⟨⟨⟨h1, h2⟩, _⟩, _⟩ := h0
  refine ⟨?_, ?_⟩
  · intro c hc
    have := ite_singleton_nil h1
    simp only [List.any_eq_true, not_exists, not_and, Bool.not_eq_true'] at this
    have := this c hc
    simpa using this
  · have := ite_singleton_nil h2
    simpa using this

/-- Conversely a Slice/Map whose element types are not assignable is rejected. -/
theorem reject_unassignable (p : Prog) (c : Coll) (hc : c ∈ p.slices ++ p.maps) (hn : c.assignable = false) :
    validatePar p ≠ [] := by
  intro h
  have := (accept_par_facts p h).1 c hc
  simp [hn] at this

end Gen
