/-
  Parallel-level, schedule-universal corollaries (C01 order of calls, C03 concurrency bound,
  C05 termination and progress, C09 cancellation, C19 state reports, C06 quiescence, C18 events).

  The counterpart, for `cff.Parallel`, of the flow-level corollaries of `Gen/FlowCorollaries3.lean`.
  Every statement is about `ParRunH p sc c acts s`: a Parallel `p`, a scenario `sc`, a
  standard-wiring configuration `c` built from `parJobs p` (any `N ≥ 1`, either error mode —
  `cff.Parallel` supports ContinueOnError), ANY action list `acts` and the state `s` it reaches,
  with a log whose body outcomes are those of the generated bodies (`Consistent`).

  Helper lemmas first (scheduler facts: a worker is never blocked; after a normal exit of the loop
  every worker is idle; in ContinueOnError mode too a nil return means that every job ended ok),
  then the concrete runs, then the property theorems in the final section, then their application
  to the concrete runs.
-/
import CffVerif.Gen.FlowCorollaries3
import CffVerif.Gen.ParCompose
import CffVerif.Gen.ParEnd
import CffVerif.Gen.ParExamples

/-! ## Scheduler helpers -/

namespace Sched

/-- What "worker `w`, whose slot holds `x`, can take its next step in `s`" means, slot by slot:
    a worker that received a job can decide, a running body can end (with any outcome), a worker
    at `donec <- res` can post (`donec` is not full), and — once the loop has exited (`readyc`
    closed) — an idle worker can leave its `range readyc`. -/
def WorkerCanMove (c : Cfg) (s : State) (w : Nat) : W → Prop
  | .idle => s.loop.phase = .exited → (step c s (.workerExit w)).isSome = true
  | .holding _ => (step c s (.workerDecide w)).isSome = true
  | .running _ => ∀ o cancel, (step c s (.workerEnd w o cancel)).isSome = true
  | .posting _ _ => (step c s (.workerPost w)).isSome = true
  | .dying _ => (step c s (.workerDiePost w)).isSome = true
  | .exited => True

/-- **No worker is ever blocked.**  In every reachable state every worker goroutine that holds a
    job can take its own next step — in particular a worker at `donec <- res` is never blocked:
    `donec` has room (`C06_post_never_blocks`) —, and once the loop has exited an idle worker can
    exit. -/
theorem worker_can_move (c : Cfg) (hw : c.wiring = Wiring.std) (hwf : WfCfg c) (acts : List Act) (s : State)
    (hr : run c (init c) acts = some s) (w : Nat) (x : W) (hx : s.ws[w]? = some x) : WorkerCanMove c s w x := by
  have hroom : x.busy = true → s.donec.length < c.capDone := by
    intro hb
    have h1 := C06_post_never_blocks c hw hwf acts s hr
    have h2 := countP_pos_of hx hb
    rw [capDone_std hw]; omega
  cases x with
  | idle => intro hp; simp [step, hx, hp]
  | holding j =>
    simp only [WorkerCanMove, step, hx]
    split
    · rfl
    · split <;> rfl
  | running j => intro o cancel; cases o <;> simp [step, hx]
  | posting j r =>
    have := hroom (by simp [W.busy, W.job?])
    simp [WorkerCanMove, step, hx, this]
  | dying j =>
    have := hroom (by simp [W.busy, W.job?])
    simp [WorkerCanMove, step, hx, this]
  | exited => trivial

/-- **After a normal exit of the loop every worker is idle.**  If the loop has left its `for`
    because nothing is pending — always the case in ContinueOnError mode, and in fail-fast mode
    when no error was recorded — then no worker holds a job and `donec` is empty: every worker
    slot is `idle` (blocked in `range readyc`, which `loopClose` closes) or `exited`. -/
theorem idle_after_normal_exit (c : Cfg) (hw : c.wiring = Wiring.std) (hwf : WfCfg c) (acts : List Act) (s : State)
    (hr : run c (init c) acts = some s) (hp : s.loop.phase ≠ .select) (hnorm : c.coe = true ∨ s.loop.err = []) :
    s.donec = [] ∧ ∀ x ∈ s.ws, x = W.idle ∨ x = W.exited := by
  have R := reach2_run hw hwf acts s hr
  have hpend : s.loop.pending = 0 := by
    rcases R.i7.exitReason hp with ⟨hff, hne⟩ | ⟨h, _⟩
    · rcases hnorm with h | h
      · rw [h] at hff; cases hff
      · exact absurd h hne
    · exact h
  have h1 := R.r.i4.counts.eq
  have h2 := R.r.i4.counts.wait
  have h3 := R.r.i1.ongoing
  have hz : s.ws.countP W.busy + s.donec.length = 0 := by omega
  refine ⟨List.eq_nil_of_length_eq_zero (by omega), ?_⟩
  intro x hx
  have hb : x.busy = false := by
    cases hb : x.busy with
    | false => rfl
    | true => have := List.countP_pos_iff.mpr ⟨x, hx, hb⟩; omega
  cases x <;> simp [W.busy, W.job?] at hb ⊢

/-! ### a nil return means that every job ended without error — ContinueOnError mode too -/

/-- Frame of one step with respect to the caller: `callerRetFin` aside, a step logs no nil return,
    and it leaves the number of completed `Enqueue` calls alone unless `Wait` has not returned. -/
theorem step_nilret_frame {c : Cfg} (hw : c.wiring = Wiring.std) {s s' : State} {a : Act}
    (hs : step c s a = some s') :
    a = .callerRetFin ∨
    ((Ev.waitReturned [] ∈ s'.log → Ev.waitReturned [] ∈ s.log) ∧
     (s'.caller.sent = s.caller.sent ∨ s.caller.ret = none)) := by
  cases a with
  | callerSend => obtain ⟨_, h, _, _, rfl⟩ := inv_callerSend hs; exact Or.inr ⟨by simp, Or.inr h⟩
  | callerClose => obtain ⟨_, _, rfl⟩ := inv_callerClose hs; exact Or.inr ⟨id, Or.inl rfl⟩
  | callerRetCtx => obtain ⟨_, _, _, rfl⟩ := inv_callerRetCtx hw hs; exact Or.inr ⟨by simp, Or.inl rfl⟩
  | callerRetFin => exact Or.inl rfl
  | loopEnq => obtain ⟨_, _, _, _, _, rfl⟩ := inv_loopEnq hs; exact Or.inr ⟨by simp, Or.inl rfl⟩
  | loopEnqClosed => obtain ⟨_, _, _, _, rfl⟩ := inv_loopEnqClosed hs; exact Or.inr ⟨id, Or.inl rfl⟩
  | loopDispatch w => obtain ⟨_, _, _, _, _, rfl⟩ := inv_loopDispatch hs; exact Or.inr ⟨by simp, Or.inl rfl⟩
  | loopResult =>
    obtain ⟨j, r, rest, _, _, rfl⟩ := inv_loopResult hs
    refine Or.inr ⟨?_, Or.inl rfl⟩
    intro hm
    simp only [List.mem_append, List.mem_singleton, reduceCtorEq, or_false] at hm
    rcases hm with hm | hm
    · exact hm
    · split at hm
      · simp [invalidWrites] at hm
      · simp at hm
  | loopTick => obtain ⟨_, _, rfl⟩ := inv_loopTick hs; exact Or.inr ⟨by simp, Or.inl rfl⟩
  | loopDrain => obtain ⟨_, _, _, _, rfl⟩ := inv_loopDrain hw hs; exact Or.inr ⟨id, Or.inl rfl⟩
  | loopClose => obtain ⟨_, _, _, rfl⟩ := inv_loopClose hw hs; exact Or.inr ⟨by simp, Or.inl rfl⟩
  | workerDecide w =>
    obtain ⟨_, _, hc⟩ := inv_workerDecide hw hs
    rcases hc with ⟨_, rfl⟩ | ⟨_, _, rfl⟩ | ⟨_, _, rfl⟩ <;> exact Or.inr ⟨by simp, Or.inl rfl⟩
  | workerEnd w o cancel =>
    obtain ⟨j, _, rfl⟩ := inv_workerEnd hs
    refine Or.inr ⟨?_, Or.inl ?_⟩
    · intro hm
      simp only [setW_log] at hm
      rcases afterBody_log c s j o cancel with h | h <;> rw [h] at hm <;> simpa using hm
    · simp only [setW_caller]; exact congrArg CallerSt.sent (afterBody_frame c s j o cancel).2.2.2.2
  | workerPost w => obtain ⟨_, _, _, _, rfl⟩ := inv_workerPost hs; exact Or.inr ⟨id, Or.inl rfl⟩
  | workerDiePost w => obtain ⟨_, _, _, rfl⟩ := inv_workerDiePost hw hs; exact Or.inr ⟨id, Or.inl rfl⟩
  | workerExit w => obtain ⟨_, _, rfl⟩ := inv_workerExit hs; exact Or.inr ⟨id, Or.inl rfl⟩
  | cancel x => obtain ⟨_, _, rfl⟩ := inv_cancel hs; exact Or.inr ⟨by simp, Or.inl rfl⟩

/-- One step preserves the invariants behind the C07/C08 theorems (the step of `full_run`). -/
theorem full_step {c : Cfg} (hw : c.wiring = Wiring.std) (hwf : WfCfg c) {s s' : State} {a : Act}
    (hp : Reach2 c s ∧ Inv8 c s) (h : step c s a = some s') : Reach2 c s' ∧ Inv8 c s' := by
  have R := hp.1.r
  have hr2 : Reach2 c s' :=
    ⟨⟨inv1_step hw hwf R.i1 h, inv2_step hw hwf R.i1 R.i2 h, inv3_step hw hwf R.i1 R.i2 R.i3 h,
      inv4_step hw hwf R.i1 R.i4 h, inv5_step hw R.i5 h⟩, inv6_step hw hwf R hp.1.i6 h, inv7_step hw hwf R hp.1.i7 h⟩
  exact ⟨hr2, inv8_step hw hwf hp.1 hp.2 h⟩

/-- ContinueOnError: when the loop has left its `for` with an empty accumulated error, every
    submitted job ended without error.  (A result other than `ok` is an error entry — excluded —
    or the sentinel `invalid`, which needs a failed dependency: excluded by induction along the
    dependencies.) -/
theorem coe_exit_nil_all_ok {c : Cfg} (hwf : WfCfg c) (hc : c.coe = true) {s : State}
    (R : Reach2 c s) (h8 : Inv8 c s) (hp : s.loop.phase ≠ .select) (herr : s.loop.err = []) :
    ∀ j, j < s.caller.sent → Ev.ended j .ok ∈ s.log := by
  have hnoEntry : ∀ e ∈ s.log, e.errEntry = none := by
    have := R.i7.errCoe hc
    rw [herr] at this
    exact List.filterMap_eq_nil_iff.mp this.symm
  have hdone : ∀ j, j < s.caller.sent → (Loop.job s.loop j).done = true := by
    intro j hj
    rcases R.i7.exitReason hp with ⟨hff, _⟩ | ⟨hpend, hnil⟩
    · rw [hc] at hff; cases hff
    · have hlen := R.i7.nilAll hnil
      have hall : s.loop.jobs.countP Loop.undoneB = 0 := by
        have := R.r.i4.counts.pend; rw [hpend] at this; exact_mod_cast this.symm
      rw [countP_jobs_range, List.countP_eq_zero] at hall
      have := hall j (List.mem_range.mpr (by omega))
      simpa [Loop.undoneB, Loop.job] using this
  have hseenOk : ∀ j, j < s.caller.sent → Ev.resultSeen j .ok ∈ s.log := by
    intro j
    induction j using Nat.strongRecOn with
    | _ j ih =>
      intro hj
      obtain ⟨r, hseen⟩ := R.i6.doneSeen j (hdone j hj)
      have hne := hnoEntry _ hseen
      cases r with
      | ok => exact hseen
      | fail e => simp [Ev.errEntry, Res.isErr] at hne
      | exitErr => simp [Ev.errEntry, Res.isErr] at hne
      | ctxErr => simp [Ev.errEntry, Res.isErr] at hne
      | invalid =>
        exfalso
        rcases (R.i6.seenProd j _ hseen).1 with ⟨o, ho, _⟩ | ⟨h1, _⟩ | ⟨_, hsk⟩
        · cases o <;> simp [outcomeRes] at ho
        · cases h1
        · obtain ⟨d, hd, hf⟩ := h8.skippedInvalid j hsk
          have hdj : d < j := hwf.2 j d hd
          have hok := ih d hdj (by omega)
          obtain ⟨r', hr'⟩ := R.i6.doneSeen d (R.r.i2.failedDone d hf)
          have hfe := (R.i6.seenProd d r' hr').2.2
          have := eq_of_countP_le_one (R.i6.seenOnce d) hr' hok (by simp [Ev.isSeenOf]) (by simp [Ev.isSeenOf])
          simp at this; subst this
          rw [hf] at hfe; simp [Res.isErr] at hfe
  intro j hj
  rcases (R.i6.seenProd j _ (hseenOk j hj)).1 with ⟨o, ho, he⟩ | ⟨h1, _⟩ | ⟨h1, _⟩
  · cases o <;> simp [outcomeRes] at ho
    exact he
  · cases h1
  · cases h1

/-- **nil ⇒ complete, both error modes.**  If `Wait` returned nil, every submitted job ended
    without error — in fail-fast mode (`C07_nil_complete`) and in ContinueOnError mode. -/
theorem nil_complete (c : Cfg) (hw : c.wiring = Wiring.std) (hwf : WfCfg c) (acts : List Act) (s : State)
    (hr : run c (init c) acts = some s) (hnil : Ev.waitReturned [] ∈ s.log) (j : Nat) (hj : j < s.caller.sent) :
    Ev.ended j .ok ∈ s.log := by
  cases hc : c.coe with
  | false => exact (C07_nil_complete c hw hwf hc acts s hr hnil j hj).1
  | true =>
    have key : (Reach2 c s ∧ Inv8 c s) ∧
        (Ev.waitReturned [] ∈ s.log → ∀ j, j < s.caller.sent → Ev.ended j .ok ∈ s.log) := by
      refine run_induct (c := c)
        (fun s => (Reach2 c s ∧ Inv8 c s) ∧
          (Ev.waitReturned [] ∈ s.log → ∀ j, j < s.caller.sent → Ev.ended j .ok ∈ s.log)) ?_ acts _ _ ?_ hr
      · intro s a s' hp hs
        refine ⟨full_step hw hwf hp.1 hs, ?_⟩
        obtain ⟨es, hes⟩ := step_log_append hw hs
        rcases step_nilret_frame hw hs with rfl | ⟨hback, hsent⟩
        · obtain ⟨_, hret, hph, rfl⟩ := inv_callerRetFin hs
          intro hm j hj
          simp only [addLog_log, List.mem_append, List.mem_singleton, Ev.waitReturned.injEq] at hm
          rcases hm with hm | hm
          · have := hp.1.2.retLogged _ hm; rw [hret] at this; cases this
          · have herr : s.loop.err = [] := by
              unfold retVal at hm
              split at hm
              · next h => simpa using h
              · exact hm.symm
            have := coe_exit_nil_all_ok hwf hc hp.1.1 hp.1.2 (by rw [hph]; simp) herr j hj
            simp only [addLog_log]
            exact List.mem_append_left _ this
        · intro hm j hj
          have hm0 := hback hm
          rcases hsent with hsent | hnone
          · rw [hsent] at hj
            rw [hes]; exact List.mem_append_left _ (hp.2 hm0 j hj)
          · have := hp.1.2.retLogged _ hm0; rw [hnone] at this; cases this
      · exact ⟨⟨⟨⟨inv1_init c, inv2_init c, inv3_init c, inv4_init c, inv5_init c⟩, inv6_init c, inv7_init c⟩,
          inv8_init c⟩, by simp [init]⟩
    exact key.2 hnil j hj

end Sched

/-! ## Parallel-level helpers -/

namespace Gen

open Sched (Ev Outcome Res)

/-- The common hypotheses of the Parallel-level theorems: `s` is the state after an arbitrary run
    `acts` of the scheduler (standard wiring, at least one worker, either error mode) on the job
    list generated for the Parallel `p`, and the outcomes logged in `s.log` are those of the
    generated bodies in scenario `sc` (`ok` exactly when the body returns nil, `fail j` — the
    job's own error — otherwise, never Goexit).  (The counterpart of `RunH`; `ParCfg p c` already
    contains the wiring and the worker count: they are repeated for symmetry with `RunH`.) -/
structure ParRunH (p : Prog) (sc : Scenario) (c : Sched.Cfg) (acts : List Sched.Act) (s : Sched.State) : Prop where
  cfg : ParCfg p c
  wiring : c.wiring = Sched.Wiring.std
  workers : 1 ≤ c.N
  run : Sched.run c (Sched.init c) acts = some s
  cons : Consistent p sc s.log

section helpers
variable {p : Prog} {sc : Scenario} {c : Sched.Cfg} {acts : List Sched.Act} {s : Sched.State}

theorem ParRunH.wf (H : ParRunH p sc c acts s) : Sched.WfCfg c := wf_parCfg H.cfg

theorem ParRunH.len (H : ParRunH p sc c acts s) : c.deps.length = (parJobs p).length := by
  rw [H.cfg.deps]; simp

theorem ParRunH.sent_le (H : ParRunH p sc c acts s) : s.caller.sent ≤ (parJobs p).length := by
  have := Sched.P3.sent_le_run H.wiring acts s H.run
  rw [H.len] at this; exact this

/-- A job whose body started is a job of the Parallel. -/
theorem ParRunH.started_lt (H : ParRunH p sc c acts s) {j : Nat} (h : Ev.started j ∈ s.log) :
    j < (parJobs p).length := by
  have := Sched.started_lt_sent H.wiring H.wf acts s H.run j h
  have := H.sent_le
  omega

theorem ParRunH.ended_started (H : ParRunH p sc c acts s) {j : Nat} {o : Outcome} (h : Ev.ended j o ∈ s.log) :
    Ev.started j ∈ s.log :=
  (Sched.full_run H.wiring H.wf acts s H.run).1.i6.endedStarted j o h

/-- S-level C01 and "started before ended", at a run of the Parallel. -/
theorem ParRunH.dep_before (H : ParRunH p sc c acts s) {i j d : Nat} (hi : s.log[i]? = some (Ev.started j))
    (hd : d ∈ c.depsOf j) :
    ∃ k : Nat, k < i ∧ s.log[k]? = some (Ev.ended d Outcome.ok) ∧
      ∃ k' : Nat, k' < k ∧ s.log[k']? = some (Ev.started d) := by
  obtain ⟨k, hk, hk2⟩ := Sched.C01_deps_before_start c H.wiring H.wf acts s H.run i j hi d hd
  obtain ⟨_, _, k', hk', hk2'⟩ := Sched.ended_after_started c H.wiring H.wf acts s H.run k d _ hk2
  exact ⟨k, hk, hk2, k', hk', hk2'⟩

/-- What `Consistent` says about one `ended` event: the outcome is `ok` iff the function returns nil
    in the scenario, otherwise it is `fail j` and the body returns the function's own entry. -/
theorem ParRunH.ended_outcome (H : ParRunH p sc c acts s) {j : Nat} {o : Outcome} (h : Ev.ended j o ∈ s.log) :
    o = outcomeOf p sc j ∧ (o = Outcome.ok ↔ pOut sc (jobBody p j) = .ok) ∧
    (o ≠ Outcome.ok → o = Outcome.fail j ∧ (jobRes p sc j).ret = some (entryOf p sc (Res.fail j))) := by
  refine ⟨H.cons j o h, ?_, ?_⟩
  · constructor
    · rintro rfl; exact consistent_ok H.cons h
    · intro hok
      apply Classical.byContradiction
      intro hne
      exact (consistent_fail H.cons h hne).2 hok
  · intro hne
    obtain ⟨h1, h2⟩ := consistent_fail H.cons h hne
    refine ⟨h1, ?_⟩
    cases hret : (jobRes p sc j).ret with
    | none => exact absurd ((runPJob_ret p sc _).1.mp hret) h2
    | some x => simp [entryOf, hret]

theorem jobBody_eq {j : Nat} {job : PJob} (h : (parJobs p)[j]? = some job) : jobBody p j = job.body := by
  simp [jobBody, List.getD_eq_getElem?_getD, h]

/-! ### the jobs with dependencies are the End jobs -/

/-- A collection contributes a job with a non-empty dependency list iff it has an End function and
    at least one element. -/
def Coll.endWaits (col : Coll) : Bool := col.hasEnd && decide (0 < collN col)

theorem mk_countP_deps (kd : CollKind) (base : Nat) (col : Coll) :
    (kd.mk base col).countP (fun j => !j.deps.isEmpty) = if col.endWaits then 1 else 0 := by
  have hel : ∀ (f : Nat → PBody), ((List.range (collN col)).map fun i => ({ body := f i } : PJob)).countP
      (fun j => !j.deps.isEmpty) = 0 := by
    intro f
    rw [List.countP_eq_zero]
    intro j hj
    obtain ⟨i, _, rfl⟩ := List.mem_map.mp hj
    simp
  cases kd <;> simp only [CollKind.mk, sliceJobs, mapJobs, List.countP_append, hel, Coll.endWaits] <;>
    rcases Bool.eq_false_or_eq_true col.hasEnd with he | he <;>
    rcases Nat.eq_zero_or_pos (collN col) with hn | hn <;> simp [he, hn] <;> omega

theorem collsJobs_countP_deps (kd : CollKind) : ∀ (cs : List Coll) (base : Nat),
    (collsJobs kd.mk base cs).countP (fun j => !j.deps.isEmpty) = cs.countP Coll.endWaits
  | [], _ => rfl
  | col :: cs, base => by
    simp only [collsJobs, List.countP_append, mk_countP_deps, collsJobs_countP_deps kd cs, List.countP_cons]
    omega

/-- **The jobs with dependencies.**  The jobs of a Parallel that name a dependency are exactly the
    End jobs of the non-empty collections: one per slice / map with an End function and at least
    one element. -/
theorem parJobs_countP_deps (p : Prog) :
    (parJobs p).countP (fun j => !j.deps.isEmpty) = p.slices.countP Coll.endWaits + p.maps.countP Coll.endWaits := by
  rw [parJobs_eq]
  simp only [List.countP_append, collsJobs_countP_deps]
  have : (p.ptasks.map fun t => ({ body := .task t.k } : PJob)).countP (fun j => !j.deps.isEmpty) = 0 := by
    rw [List.countP_eq_zero]
    intro j hj
    obtain ⟨t, _, rfl⟩ := List.mem_map.mp hj
    simp
  omega

/-- Number of End jobs of a Parallel: slices and maps with an End function. -/
def endJobs (p : Prog) : Nat := p.slices.countP (·.hasEnd) + p.maps.countP (·.hasEnd)

theorem parJobs_countP_deps_le (p : Prog) : (parJobs p).countP (fun j => !j.deps.isEmpty) ≤ endJobs p := by
  rw [parJobs_countP_deps]
  have h : ∀ cs : List Coll, cs.countP Coll.endWaits ≤ cs.countP (·.hasEnd) := by
    intro cs
    apply List.countP_mono_left
    intro col _ h
    simp only [Coll.endWaits, Bool.and_eq_true] at h
    exact h.1
  have := h p.slices
  have := h p.maps
  unfold endJobs
  omega

theorem par_depsOf (H : ParRunH p sc c acts s) {j : Nat} (hj : j < (parJobs p).length) :
    c.depsOf j = ((parJobs p).getD j default).deps := by
  have : (parJobs p)[j]? = some ((parJobs p).getD j default) := by
    simp [List.getD_eq_getElem?_getD, List.getElem?_eq_getElem hj]
  exact H.cfg.depsOf this

/-- The number of submitted jobs that name a dependency is at most the number of jobs of the
    Parallel with a non-empty `Dependencies` list. -/
theorem par_withDeps_le (H : ParRunH p sc c acts s) {n : Nat} (hn : n ≤ (parJobs p).length) :
    (List.range n).countP (Sched.withDeps c) ≤ (parJobs p).countP (fun j => !j.deps.isEmpty) := by
  have h1 : (List.range n).countP (Sched.withDeps c) ≤ (List.range (parJobs p).length).countP (Sched.withDeps c) :=
    (List.range_sublist.mpr hn).countP_le
  have h2 : (List.range (parJobs p).length).countP (Sched.withDeps c) =
      (List.range (parJobs p).length).countP (fun j => !((parJobs p).getD j default).deps.isEmpty) := by
    apply List.countP_congr
    intro j hj
    have hjl : j < (parJobs p).length := List.mem_range.mp hj
    simp only [Sched.withDeps, par_depsOf H hjl]
  rw [h2, countP_range_getD (fun j : PJob => !j.deps.isEmpty) default (parJobs p)] at h1
  exact h1

/-! ### events of a Parallel task job -/

/-- The events the body of job `j` sends to a task emitter (task.go.tmpl): `parTaskEvents` for the
    job of an instrumented task; nothing for the other jobs (the bodies generated for slice
    elements, map entries and End functions have no emitter). -/
def parJobEvents (p : Prog) (sc : Scenario) (j : Nat) : List (String × String) :=
  match p.ptasks[j]? with
  | some t => if t.instr then parTaskEvents sc t else []
  | none => []

/-- The `ran` flags of the closure at the end of a run, read off the log: task `k` ran iff the body
    of its job ended (`defer ran.Store(true)` runs when the body returns or panics). -/
def parRan (p : Prog) (log : List Ev) (k : Nat) : Bool :=
  (Sched.endedIds log).any fun pos => (p.ptasks[pos]?).any (·.k == k)

theorem parRan_of_ended {log : List Ev} {pos : Nat} {t : PTask} {o : Outcome}
    (ht : p.ptasks[pos]? = some t) (h : Ev.ended pos o ∈ log) : parRan p log t.k = true := by
  unfold parRan
  rw [List.any_eq_true]
  exact ⟨pos, Sched.mem_endedIds.mpr ⟨o, h⟩, by simp [ht]⟩

end helpers

end Gen

/-! ## Concrete runs (for the non-vacuity applications at the end)

  All on `Gen.ParEx.p` (Gen/ParExamples.lean: one task, a two-element slice with an End function, a
  one-entry map; jobs 0 = task, 1, 2 = slice elements, 3 = SliceEnd — dependencies `[1, 2]` —,
  4 = map entry), configuration `ParEx.cfg coe` (two workers, one context):

  * the nil run `actsOk` (fail-fast) — `runOk`;
  * its first 16 actions (`actsMid`): all five jobs submitted, jobs 0 and 1 executing on the two
    workers (`runMid`), the remaining 23 actions being a tick-free continuation;
  * `actsMid` followed by the cancellation of the context (`actsCancel`), fail-fast, and a
    continuation `moreCancel` in which job 2 is still dispatched, is skipped, and `Wait` returns
    `[ctxErr]` — `runCancel`;
  * the same in ContinueOnError mode with the task panicking (`scFail`, continuation `moreCoe`):
    `Wait` returns `[fail 0, ctxErr, ctxErr, ctxErr]` — `runCoeCancel`;
  * the nil run followed by a cancellation (`actsNilCancel`);
  * the first 16 actions with the emitter switched on (`cfgE`) followed by a ticker action
    (`actsTick`): one state report;
  * fail-fast, the task fails while slice element 0 is still executing, the loop exits and `Wait`
    returns (`actsLeak`): the counter-example to "every worker is idle or exited once the loop has
    exited and `Wait` returned" (`run_C06_counterexample`); `flowLeak`: the same for a flow;
  * `pI`: the same Parallel with the task and the directive instrumented (same job list). -/

namespace Gen.ParEx

open Gen Sched

def actsMid : List Act := actsOk.take 16
def actsRest : List Act := actsOk.drop 16
def actsCancel : List Act := actsMid ++ [.cancel 0]
def moreCancel : List Act :=
  [.workerEnd 1 .ok false, .workerPost 1, .loopResult, .loopDispatch 1, .workerDecide 1, .workerPost 1,
   .loopResult, .loopClose, .callerRetFin]
def moreCoe : List Act :=
  [.workerEnd 0 (.fail 0) false, .workerEnd 1 .ok false, .workerPost 0, .workerPost 1, .loopResult, .loopResult,
   .loopDispatch 0, .workerDecide 0, .workerPost 0, .loopResult,
   .loopDispatch 0, .workerDecide 0, .workerPost 0, .loopResult,
   .loopDispatch 0, .workerDecide 0, .workerPost 0, .loopResult, .loopClose, .callerRetFin]
def actsNilCancel : List Act := actsOk ++ [.cancel 0]
def cfgE : Cfg := { cfg false with emit := true }
def actsTick : List Act := actsMid ++ [.loopTick]
def actsLeak : List Act :=
  actsMid ++ [.workerEnd 0 (.fail 0) false, .workerPost 0, .loopResult, .loopClose, .callerRetFin]
def pI : Prog := { p with ptasks := [{ k := 0, instr := true }], instrDir := true }

theorem cfg_flowCtx (coe : Bool) : FlowCtx (cfg coe) := ⟨fun j => by simp [Cfg.ctxOfJob, cfg]⟩
theorem cfgE_parCfg : ParCfg p cfgE := ⟨rfl, rfl, Nat.le_succ 1⟩
theorem parJobsI : parJobs pI = parJobs p := by decide
theorem parCfgI (coe : Bool) : ParCfg pI (cfg coe) := ⟨by rw [parJobsI]; rfl, rfl, Nat.le_succ 1⟩

/-- The slice of `p` and its block: jobs 1, 2 (elements) and 3 (End). -/
def sl : Coll := { id := 0, idx := true, len := some 2, hasEnd := true }
theorem sl_at : CollAt p .slice sl 1 := ⟨0, by decide, by decide⟩

/-- The nil run: `ParRunH`, nil returned, every job enqueued, the End job started. -/
theorem runOk_H : ∃ s, ParRunH p {} (cfg false) actsOk s ∧ Ev.waitReturned [] ∈ s.log ∧
    s.caller.sent = (parJobs p).length ∧ Ev.started 3 ∈ s.log ∧
    s.loop.phase = .exited ∧ s.ws = [.idle, .idle] ∧ s.loop.err = [] := by
  have h : ∃ s, run (cfg false) (init (cfg false)) actsOk = some s ∧ Consistent p {} s.log ∧
      Ev.waitReturned [] ∈ s.log ∧ s.caller.sent = (parJobs p).length ∧ Ev.started 3 ∈ s.log ∧
      s.loop.phase = .exited ∧ s.ws = [.idle, .idle] ∧ s.loop.err = [] := by decide
  obtain ⟨s, hr, hcons, h1⟩ := h
  exact ⟨s, ⟨parCfg false, rfl, by decide, hr, hcons⟩, h1⟩

/-- The state after 16 actions: both workers are inside a body (jobs 0 and 1), the caller has not
    returned; the rest of `actsOk` is a tick-free continuation. -/
theorem runMid_H : ∃ s, ParRunH p {} (cfg false) actsMid s ∧
    s.ws = [.running 0, .running 1] ∧ s.caller.ret = none ∧
    (∀ a ∈ actsRest, a.isTick = false) ∧ (∃ s', run (cfg false) s actsRest = some s' ∧ Final s' = false) ∧
    (∀ a ∈ actsMid, a.isTick = false) := by
  have h : ∃ s, run (cfg false) (init (cfg false)) actsMid = some s ∧ Consistent p {} s.log ∧
      s.ws = [.running 0, .running 1] ∧ s.caller.ret = none ∧
      (∀ a ∈ actsRest, a.isTick = false) ∧ (∃ s', run (cfg false) s actsRest = some s' ∧ Final s' = false) ∧
      (∀ a ∈ actsMid, a.isTick = false) := by decide
  obtain ⟨s, hr, hcons, h1⟩ := h
  exact ⟨s, ⟨parCfg false, rfl, by decide, hr, hcons⟩, h1⟩

/-- The cancelled run (fail-fast): after `actsCancel` the context is done and job 2 has not been
    started; the continuation `moreCancel` dispatches job 2 and makes `Wait` return `[ctxErr]`. -/
theorem runCancel_H : ∃ s s', ParRunH p {} (cfg false) actsCancel s ∧
    ParRunH p {} (cfg false) (actsCancel ++ moreCancel) s' ∧
    s.cancelledCtx (cfg false).waitCtx = true ∧ Ev.started 2 ∉ s.log ∧
    run (cfg false) s moreCancel = some s' ∧ Ev.dispatched 2 ∈ s'.log ∧ Ev.skipped 2 .ctx ∈ s'.log ∧
    Ev.waitReturned [Res.ctxErr] ∈ s'.log := by
  have h : ∃ s, run (cfg false) (init (cfg false)) actsCancel = some s ∧ Consistent p {} s.log ∧
      s.cancelledCtx (cfg false).waitCtx = true ∧ Ev.started 2 ∉ s.log ∧
      ∃ s', run (cfg false) s moreCancel = some s' ∧ Consistent p {} s'.log ∧
        Ev.dispatched 2 ∈ s'.log ∧ Ev.skipped 2 .ctx ∈ s'.log ∧ Ev.waitReturned [Res.ctxErr] ∈ s'.log := by
    decide
  obtain ⟨s, hr, hcons, h1, h2, s', hr', hcons', h3, h4, h5⟩ := h
  exact ⟨s, s', ⟨parCfg false, rfl, by decide, hr, hcons⟩,
    ⟨parCfg false, rfl, by decide, P3.run_append_some hr hr', hcons'⟩, h1, h2, hr', h3, h4, h5⟩

/-- The cancelled run in ContinueOnError mode, the task panicking: `Wait` returns the task's own
    error and one context error for each of the three jobs that were never started. -/
theorem runCoeCancel_H : ∃ s, ParRunH p scFail (cfg true) (actsCancel ++ moreCoe) s ∧
    Ev.waitReturned [Res.fail 0, Res.ctxErr, Res.ctxErr, Res.ctxErr] ∈ s.log ∧
    Ev.skipped 2 .ctx ∈ s.log ∧ Ev.skipped 3 .ctx ∈ s.log ∧ Ev.skipped 4 .ctx ∈ s.log := by
  have h : ∃ s, run (cfg true) (init (cfg true)) (actsCancel ++ moreCoe) = some s ∧ Consistent p scFail s.log ∧
      Ev.waitReturned [Res.fail 0, Res.ctxErr, Res.ctxErr, Res.ctxErr] ∈ s.log ∧
      Ev.skipped 2 .ctx ∈ s.log ∧ Ev.skipped 3 .ctx ∈ s.log ∧ Ev.skipped 4 .ctx ∈ s.log := by decide
  obtain ⟨s, hr, hcons, h1⟩ := h
  exact ⟨s, ⟨parCfg true, rfl, by decide, hr, hcons⟩, h1⟩

/-- The nil run followed by a cancellation of the context. -/
theorem runNilCancel_H : ∃ s, ParRunH p {} (cfg false) actsNilCancel s ∧ Ev.waitReturned [] ∈ s.log ∧
    Ev.cancelled (cfg false).waitCtx ∈ s.log := by
  have h : ∃ s, run (cfg false) (init (cfg false)) actsNilCancel = some s ∧ Consistent p {} s.log ∧
      Ev.waitReturned [] ∈ s.log ∧ Ev.cancelled (cfg false).waitCtx ∈ s.log := by decide
  obtain ⟨s, hr, hcons, h1⟩ := h
  exact ⟨s, ⟨parCfg false, rfl, by decide, hr, hcons⟩, h1⟩

/-- A run with a state report (emitter on): all five jobs submitted, two executing, two ready, the
    End job waiting. -/
theorem runTick_H : ∃ s, ParRunH p {} cfgE actsTick s ∧
    Ev.report { pending := 5, ready := 2, waiting := 1, idle := 0, concurrency := 2 } ∈ s.log := by
  have h : ∃ s, run cfgE (init cfgE) actsTick = some s ∧ Consistent p {} s.log ∧
      Ev.report { pending := 5, ready := 2, waiting := 1, idle := 0, concurrency := 2 } ∈ s.log := by decide
  obtain ⟨s, hr, hcons, h1⟩ := h
  exact ⟨s, ⟨cfgE_parCfg, rfl, by decide, hr, hcons⟩, h1⟩

/-- **Counter-example to the unrestricted C06 quiescence claim (Parallel).**  Fail-fast, two
    workers, the task (job 0) panics while slice element 0 (job 1) is still executing: the loop
    leaves its `for` at the first error and exits, `Wait` returns `[fail 0]` — and worker 1 is
    still inside the body of job 1: NOT every worker slot is idle or exited although the loop has
    exited and `Wait` has returned.  (That worker is not blocked: its body can end and it can post,
    `C06_par_quiescent_partial` clause 1.) -/
theorem run_C06_counterexample : ∃ s, ParRunH p scFail (cfg false) actsLeak s ∧
    s.loop.phase = .exited ∧ s.caller.ret = some [Res.fail 0] ∧ s.ws = [.idle, .running 1] ∧
    ¬ (∀ x ∈ s.ws, x = W.idle ∨ x = W.exited) := by
  have h : ∃ s, run (cfg false) (init (cfg false)) actsLeak = some s ∧ Consistent p scFail s.log ∧
      s.loop.phase = .exited ∧ s.caller.ret = some [Res.fail 0] ∧ s.ws = [.idle, .running 1] ∧
      ¬ (∀ x ∈ s.ws, x = W.idle ∨ x = W.exited) := by decide
  obtain ⟨s, hr, hcons, h1⟩ := h
  exact ⟨s, ⟨parCfg false, rfl, by decide, hr, hcons⟩, h1⟩

/-- The instrumented Parallel, ContinueOnError, the task panicking (run `actsFail` of
    Gen/ParExamples.lean): the task job ended with `fail 0`. -/
theorem runFailI_H : ∃ s, ParRunH pI scFail (cfg true) actsFail s ∧ Ev.ended 0 (Outcome.fail 0) ∈ s.log ∧
    Ev.waitReturned [Res.fail 2, Res.fail 0] ∈ s.log := by
  have h : ∃ s, run (cfg true) (init (cfg true)) actsFail = some s ∧ Consistent pI scFail s.log ∧
      Ev.ended 0 (Outcome.fail 0) ∈ s.log ∧ Ev.waitReturned [Res.fail 2, Res.fail 0] ∈ s.log := by decide
  obtain ⟨s, hr, hcons, h1⟩ := h
  exact ⟨s, ⟨parCfgI true, rfl, by decide, hr, hcons⟩, h1⟩

/-- The instrumented Parallel, the nil run. -/
theorem runOkI_H : ∃ s, ParRunH pI {} (cfg false) actsOk s ∧ Ev.waitReturned [] ∈ s.log ∧
    s.caller.sent = (parJobs pI).length ∧ Ev.ended 0 Outcome.ok ∈ s.log := by
  have h : ∃ s, run (cfg false) (init (cfg false)) actsOk = some s ∧ Consistent pI {} s.log ∧
      Ev.waitReturned [] ∈ s.log ∧ s.caller.sent = (parJobs pI).length ∧ Ev.ended 0 Outcome.ok ∈ s.log := by decide
  obtain ⟨s, hr, hcons, h1⟩ := h
  exact ⟨s, ⟨parCfgI false, rfl, by decide, hr, hcons⟩, h1⟩

end Gen.ParEx

namespace Gen.Example

open Gen Sched

/-- Fail-fast flow run in which task 0 (job 0) fails while the predicate of task 1 (job 1) is still
    executing; the loop exits and `Wait` returns. -/
def flowLeak : List Act :=
  actsMid ++ [.workerEnd 0 (.fail 7) false, .workerPost 0, .loopResult, .loopClose, .callerRetFin]

/-- **Counter-example to the unrestricted C06 quiescence claim (Flow).**  As
    `ParEx.run_C06_counterexample`: the loop has exited, `Wait` has returned `[fail 7]`, and
    worker 1 is still inside the body of job 1. -/
theorem flow_C06_counterexample : ∃ s, RunH prog scFail cfg flowLeak s ∧
    s.loop.phase = .exited ∧ s.caller.ret = some [Res.fail 7] ∧ s.ws = [.idle, .running 1] ∧
    ¬ (∀ x ∈ s.ws, x = W.idle ∨ x = W.exited) := by
  have h : ∃ s, run cfg (init cfg) flowLeak = some s ∧ (replay prog scFail s.log).2 = true ∧
      s.loop.phase = .exited ∧ s.caller.ret = some [Res.fail 7] ∧ s.ws = [.idle, .running 1] ∧
      ¬ (∀ x ∈ s.ws, x = W.idle ∨ x = W.exited) := by decide
  obtain ⟨s, hr, hcons, h1⟩ := h
  exact ⟨s, ⟨prog_accepted, prog_small, prog_ids, rfl, rfl, by decide, hr, hcons⟩, h1⟩

end Gen.Example

/-! ## Property theorems -/

namespace Gen

open Sched (Ev Outcome Res)

section props
variable {p : Prog} {sc : Scenario} {c : Sched.Cfg} {acts : List Sched.Act} {s : Sched.State}

/-! ### C01 — every function at most once; an End function only after all elements succeeded -/

/-- **C01, Parallel level, every schedule.**  Any run of the scheduler (any interleaving, worker
    count ≥ 1, either error mode, any cancellation) on the job list of a Parallel.

    1. Every job is started at most once — every task function, the slice (map) function on every
       element (entry), every End function is called at most once —, and only jobs of the
       Parallel are ever started.
    2. Task jobs have no dependency (position = position of the task in the directive).
    3. For every collection block (`CollAt p kd col base`: the slice / map `col` of `p`, whose jobs
       sit at `base, base+1, …`): the element jobs `base + x` (`x < collN col`) have no dependency;
       and if the collection has an End function, its End job `base + collN col` names exactly the
       element jobs of its own collection as dependencies, and whenever `started (base + collN col)`
       is the `i`-th event of the log, then for EVERY element `x` of the collection:
       `ended (base + x) ok` occurs at a position `k < i`, after `started (base + x)` (`k' < k`) —
       the whole call on element `x` precedes the call of the End function —, and the function
       returns nil on that element in the scenario. -/
theorem C01_par_every_schedule (H : ParRunH p sc c acts s) :
    (∀ j, s.log.count (Ev.started j) ≤ 1) ∧
    (∀ j, Ev.started j ∈ s.log → j < (parJobs p).length) ∧
    (∀ pos t, p.ptasks[pos]? = some t → c.depsOf pos = []) ∧
    (∀ kd col base, CollAt p kd col base →
      (∀ x, x < collN col → c.depsOf (base + x) = []) ∧
      (col.hasEnd = true →
        c.depsOf (base + collN col) = (List.range (collN col)).map (base + ·) ∧
        ∀ i : Nat, s.log[i]? = some (Ev.started (base + collN col)) →
          ∀ x, x < collN col →
            (∃ k : Nat, k < i ∧ s.log[k]? = some (Ev.ended (base + x) Outcome.ok) ∧
              ∃ k' : Nat, k' < k ∧ s.log[k']? = some (Ev.started (base + x))) ∧
            pOut sc (elemBody kd col x) = .ok)) := by
  refine ⟨Sched.C01_at_most_once c H.wiring H.wf acts s H.run, fun j h => H.started_lt h, ?_, ?_⟩
  · intro pos t ht
    rw [H.cfg.depsOf (parJobs_task p pos t ht)]
  · intro kd col base hat
    refine ⟨fun x hx => by rw [H.cfg.depsOf (hat.elem x hx)], ?_⟩
    intro hend
    have hdeps : c.depsOf (base + collN col) = (List.range (collN col)).map (base + ·) := by
      rw [H.cfg.depsOf (hat.endJob hend)]
    refine ⟨hdeps, ?_⟩
    intro i hi x hx
    have hd : base + x ∈ c.depsOf (base + collN col) := by
      rw [hdeps]; exact List.mem_map.mpr ⟨x, List.mem_range.mpr hx, rfl⟩
    obtain ⟨k, hk, hk2, k', hk', hk2'⟩ := H.dep_before hi hd
    refine ⟨⟨k, hk, hk2, k', hk', hk2'⟩, ?_⟩
    have := consistent_ok H.cons (List.mem_of_getElem? hk2)
    rwa [jobBody_eq (hat.elem x hx)] at this

/-! ### C03 — at most `N` functions of the Parallel execute at any instant -/

/-- **C03, Parallel level, every schedule.**  In every state reached by any run of the scheduler on
    the job list of a Parallel (`c.N` = the directive's concurrency, ≥ 1):

    * there are exactly `c.N` worker slots, at most `c.N` of them `running`;
    * the jobs whose bodies are executing (`started`, not yet `ended`: `Sched.BodyRunning`) are
      exactly the jobs sitting in a `running` slot `w < c.N`, and they are jobs of the Parallel;
    * hence any duplicate-free list of jobs whose bodies are executing has at most `c.N` elements.

    The bound is `c.N` whatever the number of jobs — in particular whatever the lengths of the
    slices and maps: a 3000-element slice runs at most `c.N` calls of its function at a time. -/
theorem C03_par_bound (H : ParRunH p sc c acts s) :
    s.ws.length = c.N ∧
    (s.ws.filter Sched.W.isRunning).length ≤ c.N ∧
    (∀ j, Sched.BodyRunning s.log j ↔ ∃ w : Nat, w < c.N ∧ s.ws[w]? = some (Sched.W.running j)) ∧
    (∀ j, Sched.BodyRunning s.log j → j < (parJobs p).length) ∧
    (∀ js : List Nat, js.Nodup → (∀ j ∈ js, Sched.BodyRunning s.log j) → js.length ≤ c.N) := by
  have hiff := Sched.bodyRunning_iff_slot c H.wiring H.wf acts s H.run
  have hN := Sched.C03_at_most_N_running c acts s H.run
  refine ⟨Sched.C03_worker_slots c acts s H.run, hN, hiff, fun j hj => H.started_lt hj.1, ?_⟩
  intro js hnd hall
  have hnd' : (js.map Sched.W.running).Nodup :=
    List.Pairwise.map _ (fun a b hab e => hab (Sched.W.running.inj e)) hnd
  have hsub : js.map Sched.W.running ⊆ s.ws.filter Sched.W.isRunning := by
    intro x hx
    obtain ⟨j, hj, rfl⟩ := List.mem_map.mp hx
    obtain ⟨w, _, hw⟩ := (hiff j).mp (hall j hj)
    exact List.mem_filter.mpr ⟨List.mem_of_getElem? hw, rfl⟩
  have := hnd'.length_le_of_subset hsub
  simp only [List.length_map] at this
  omega

/-! ### C05 — termination and progress -/

/-- **C05 termination, Parallel level.**  From every state reached by any run of the scheduler on
    the job list of a Parallel:

    * every non-tick action strictly decreases the natural number `Sched.mu c`;
    * every continuation that contains no ticker action has at most `Sched.mu c s` actions
      (`more.length + mu c s' ≤ mu c s`): the Parallel cannot keep working forever;
    * a tick-free run from the start has at most
      `mu c (init c) = 9·(number of jobs of the Parallel) + N + 8 + |ctxOf|` actions, where the
      number of jobs is `|tasks| + Σ (elements + End) over the slices and maps` (`parJobs_length`). -/
theorem C05_par_terminates (H : ParRunH p sc c acts s) :
    (∀ (more : List Sched.Act) (s' : Sched.State), (∀ a ∈ more, a.isTick = false) →
      Sched.run c s more = some s' → more.length + Sched.mu c s' ≤ Sched.mu c s) ∧
    (∀ (a : Sched.Act) (s' : Sched.State), Sched.step c s a = some s' → a ≠ Sched.Act.loopTick →
      Sched.mu c s' < Sched.mu c s) ∧
    ((∀ a ∈ acts, a.isTick = false) → acts.length + Sched.mu c s ≤ Sched.mu c (Sched.init c)) ∧
    Sched.mu c (Sched.init c) = 9 * (parJobs p).length + c.N + 8 + c.ctxOf.length ∧
    (parJobs p).length = p.ptasks.length + collsSize p.slices + collsSize p.maps := by
  refine ⟨Sched.C05_terminates c H.wiring H.wf acts s H.run,
    fun a s' hs ha => Sched.C05_measure c H.wiring H.wf acts s s' a H.run hs ha,
    fun hnt => Sched.C05_terminates c H.wiring H.wf [] (Sched.init c) rfl acts s hnt H.run, ?_,
    parJobs_length p⟩
  rw [mu_init, H.len]

/-- **C05 progress, Parallel level.**  In every state reached by any run of the scheduler on the
    job list of a Parallel in which the caller has not returned from `Wait` (more generally: that
    is not `Final`), some action other than the ticker is enabled; and if that action is the end of
    a body, that body is executing in a worker slot (the only thing the scheduler ever waits for is
    a user function that has not returned).  So the caller is never blocked forever in `Enqueue`
    or `Wait`. -/
theorem C05_par_progress (H : ParRunH p sc c acts s) (hnf : s.caller.ret = none ∨ Sched.Final s = false) :
    ∃ a, a ≠ Sched.Act.loopTick ∧ (Sched.step c s a).isSome = true ∧
      (a.isWorkerEnd = true →
        ∃ (w : Nat) (j : Nat), w < c.N ∧ s.ws[w]? = some (Sched.W.running j) ∧ Sched.BodyRunning s.log j ∧
          j < (parJobs p).length) := by
  have hf : Sched.Final s = false := by
    rcases hnf with h | h
    · simp [Sched.Final, h]
    · exact h
  obtain ⟨a, ha, hen⟩ := Sched.C05_progress c H.wiring H.wf acts s H.run hf
  refine ⟨a, ha, hen, ?_⟩
  intro hwe
  cases a with
  | workerEnd w o cancel =>
    obtain ⟨s', hs'⟩ := Option.isSome_iff_exists.mp hen
    obtain ⟨j, hj, _⟩ := Sched.inv_workerEnd hs'
    have hiff := Sched.bodyRunning_iff_slot c H.wiring H.wf acts s H.run j
    have hwN : w < c.N := by
      have := (List.getElem?_eq_some_iff.mp hj).1
      rwa [Sched.C03_worker_slots c acts s H.run] at this
    have hb := hiff.mpr ⟨w, hwN, hj⟩
    exact ⟨w, j, hwN, hj, hb, H.started_lt hb.1⟩
  | _ => simp [Sched.Act.isWorkerEnd] at hwe

/-! ### C09 — cancellation -/

/-- **C09, Parallel level, every schedule.**  Generated configuration in which every `Enqueue` and
    `Wait` receive the same context (`FlowCtx c`: what a generated Parallel does), any run.

    1. The state flag and the log agree.
    2. **No job starts after cancellation.**  If the context is done in `s`, then along every
       continuation `more` of the run, every `started` event of the reached log is one of `s.log`:
       no task, slice, map or End function is called any more.  Position-wise (3.): in every log,
       every `started j` precedes the `cancelled` event.
    4. **nil ⇒ not cancelled.**  `waitReturned []` precedes any `cancelled` event of the context.
    5. **What a non-nil error is made of (both modes).**  If `Wait` returned a non-nil `r`: in
       fail-fast mode `r` has exactly one entry; in both modes every entry `x` of `r` is
       * `fail j`, the own error of a job `j` of the Parallel whose body started and ended with it
         (`ended j (fail j)`): its function does not return nil in the scenario, and the entry is
         what the body returns (`err…` / `PanicError` entry, `entryOf`); or
       * the context's error: then the context was cancelled (`cancelled c.waitCtx ∈ s.log`), and
         every job that was skipped for it was never started and never ended —
       never the internal sentinel, never "job exited unexpectedly".  In ContinueOnError mode `r`
       is thus a list of real failures of started jobs and context errors of never-started jobs. -/
theorem C09_par_cancel (H : ParRunH p sc c acts s) (F : FlowCtx c) :
    (s.cancelledCtx c.waitCtx = true ↔ Ev.cancelled c.waitCtx ∈ s.log) ∧
    (s.cancelledCtx c.waitCtx = true →
      ∀ (more : List Sched.Act) (s' : Sched.State), Sched.run c s more = some s' →
        ∀ (k j : Nat), s'.log[k]? = some (Ev.started j) → s.log[k]? = some (Ev.started j)) ∧
    (∀ (i k j : Nat), s.log[i]? = some (Ev.cancelled c.waitCtx) → s.log[k]? = some (Ev.started j) → k < i) ∧
    (∀ (i k : Nat), s.log[i]? = some (Ev.cancelled c.waitCtx) → s.log[k]? = some (Ev.waitReturned []) → k < i) ∧
    (∀ r, Ev.waitReturned r ∈ s.log → r ≠ [] →
      (c.coe = false → ∃ x, r = [x]) ∧
      ∀ x ∈ r,
        (∃ j, x = Res.fail j ∧ j < (parJobs p).length ∧ Ev.started j ∈ s.log ∧
            Ev.ended j (Outcome.fail j) ∈ s.log ∧ pOut sc (jobBody p j) ≠ .ok ∧
            (jobRes p sc j).ret = some (entryOf p sc (Res.fail j))) ∨
        (x = Res.ctxErr ∧ Ev.cancelled c.waitCtx ∈ s.log ∧
          ∀ j, Ev.skipped j .ctx ∈ s.log → Ev.started j ∉ s.log ∧ ∀ o, Ev.ended j o ∉ s.log)) := by
  have hpos : ∀ (acts' : List Sched.Act) (u : Sched.State), Sched.run c (Sched.init c) acts' = some u →
      ∀ (i k j : Nat), u.log[i]? = some (Ev.cancelled c.waitCtx) → u.log[k]? = some (Ev.started j) → k < i := by
    intro acts' u hu i k j hi hk
    exact Sched.C09_no_start_after_cancel c H.wiring acts' u hu i k j (by rw [F.same j]; exact hi) hk
  have hlogflag : s.cancelledCtx c.waitCtx = true → Ev.cancelled c.waitCtx ∈ s.log :=
    (Sched.reach2_run H.wiring H.wf acts s H.run).i6.cancelLog _
  refine ⟨⟨hlogflag, ?_⟩, ?_, hpos acts s H.run, ?_, ?_⟩
  · intro hm
    have inv : Sched.CancelInv c s :=
      Sched.run_induct (c := c) (Sched.CancelInv c) (fun s a s' hp h => Sched.cancelInv_step H.wiring hp h)
        acts _ _ (Sched.cancelInv_init c) H.run
    exact inv.flag _ hm
  · intro hc more s' hr' k j hk
    obtain ⟨i, hi⟩ := List.mem_iff_getElem?.mp (hlogflag hc)
    have hil : i < s.log.length := (List.getElem?_eq_some_iff.mp hi).1
    obtain ⟨es, hes⟩ := Sched.run_log_append H.wiring more s s' hr'
    have hi' : s'.log[i]? = some (Ev.cancelled c.waitCtx) := by
      rw [hes, List.getElem?_append_left hil]; exact hi
    have hki := hpos (acts ++ more) s' (Sched.P3.run_append_some H.run hr') i k j hi' hk
    rw [hes, List.getElem?_append_left (by omega)] at hk
    exact hk
  · intro i k hi hk
    exact Sched.C09_nil_implies_not_cancelled c H.wiring acts s H.run i k hi hk
  · intro r hret hne
    refine ⟨?_, ?_⟩
    · intro hcoe
      rcases Sched.C07_error_real c H.wiring H.wf hcoe acts s H.run r hret with h | ⟨x, hx, _⟩
      · exact absurd h hne
      · exact ⟨x, hx⟩
    · intro x hx
      rcases Sched.C08_wait_entries_real c H.wiring H.wf acts s H.run r hret x hx with
        ⟨rfl, hcan⟩ | ⟨j, e, rfl, he⟩ | ⟨rfl, j, he⟩
      · right
        have hcan' : Ev.cancelled c.waitCtx ∈ s.log := by
          rcases hcan with h | ⟨j, _, h⟩
          · exact h
          · rw [F.same j] at h; exact h
        refine ⟨rfl, hcan', ?_⟩
        intro j hsk
        have hns := (Sched.C08_ctx_skip_own_context c H.wiring H.wf acts s H.run j hsk).2.2
        exact ⟨hns, fun o ho => hns (H.ended_started ho)⟩
      · left
        obtain ⟨h1, h2⟩ := H.ended_outcome he |>.2.2 (by simp)
        simp only [Outcome.fail.injEq] at h1
        subst h1
        have hst := H.ended_started he
        exact ⟨e, rfl, H.started_lt hst, hst, he, (consistent_fail H.cons he (by simp)).2, h2⟩
      · have := (consistent_fail H.cons he (by simp)).1
        simp at this

/-! ### C19 — state reports -/

/-- **C19, Parallel level, every schedule.**  Every state report emitted in any run of the
    scheduler on the job list of a Parallel satisfies the C19 consistency relation
    (`Sched.GoodReport`), where `submitted` — the number of `Enqueue` calls completed before the
    report — is at most the number of jobs of the Parallel; hence, in terms of the Parallel alone:
    `Pending ≤ |parJobs p|`, and `Waiting ≤` the number of jobs with a non-empty `Dependencies`
    list — these are exactly the End jobs of the non-empty collections (`parJobs_countP_deps`), at
    most the number of End jobs (`endJobs p`: slices and maps with an End function): only End jobs
    ever wait, however many elements the collections have. -/
theorem C19_par_reports (H : ParRunH p sc c acts s) (i : Nat) (st : Sched.Report)
    (hi : s.log[i]? = some (Ev.report st)) :
    Sched.GoodReport c ((s.log.take i).filterMap Sched.Ev.sentId).length st ∧
    ((s.log.take i).filterMap Sched.Ev.sentId).length ≤ (parJobs p).length ∧
    st.pending ≤ ((parJobs p).length : Int) ∧
    st.waiting ≤ (((parJobs p).countP (fun j => !j.deps.isEmpty) : Nat) : Int) ∧
    (parJobs p).countP (fun j => !j.deps.isEmpty) = p.slices.countP Coll.endWaits + p.maps.countP Coll.endWaits ∧
    st.waiting ≤ ((endJobs p : Nat) : Int) ∧
    st.concurrency = c.N ∧ 0 ≤ st.idle ∧ st.idle ≤ c.N := by
  have hg := Sched.C19_report_consistent c H.wiring H.wf acts s H.run i st hi
  have hsub : ((s.log.take i).filterMap Sched.Ev.sentId).length ≤ (parJobs p).length := by
    have h1 : ((s.log.take i).filterMap Sched.Ev.sentId).length ≤ (s.log.filterMap Sched.Ev.sentId).length :=
      ((List.take_sublist i s.log).filterMap _).length_le
    rw [(Sched.inv4_run H.wiring H.wf acts s H.run).2.sentLog, List.length_range] at h1
    have h2 := H.sent_le
    omega
  have hwd := par_withDeps_le H hsub
  have hle := parJobs_countP_deps_le p
  obtain ⟨x, hx0, hxN, _, hidle⟩ := hg.sum
  have hwl := hg.waitLe
  refine ⟨hg, hsub, ?_, ?_, parJobs_countP_deps p, ?_, hg.conc, hg.nonneg.2.2.2, by omega⟩
  · have := hg.pendLe; omega
  · omega
  · omega

/-! ### C06 — no goroutine is left behind -/

/-- **C06, Parallel level (partial: see the counter-example `ParEx.run_C06_counterexample`).**  In
    every state reached by any run of the scheduler on the job list of a Parallel:

    1. **a worker never blocks posting** (`C06_post_never_blocks`): busy workers plus results
       waiting in `donec` never exceed `c.N = cap(donec)`; so every worker goroutine can take its
       own next step (`Sched.WorkerCanMove`: decide, end the body, post the result — `donec` has
       room —, post after Goexit), and once the loop has exited an idle worker can exit;
    2. **no stuck goroutine** (`C06_no_stuck_goroutine`): if nothing but the ticker can happen,
       `Wait` has returned, the loop has exited and every worker has exited — with
       `C05_par_terminates`, every maximal execution ends there;
    3. once the loop has exited **normally** — ContinueOnError mode, or fail-fast mode with no
       recorded error — `donec` is empty and every worker slot is `idle` or `exited`.

    NOT true, and therefore not claimed: "once the loop has exited and `Wait` returned, every
    worker slot is idle or exited" in fail-fast mode after a failure — the loop leaves at the
    first error while the bodies of other jobs are still executing; these workers are not blocked
    (clause 1) and exit after their body returns (clause 2). -/
theorem C06_par_quiescent_partial (H : ParRunH p sc c acts s) :
    (s.ws.countP Sched.W.busy + s.donec.length ≤ c.N ∧
      ∀ (w : Nat) (x : Sched.W), s.ws[w]? = some x → Sched.WorkerCanMove c s w x) ∧
    ((∀ a, a ≠ Sched.Act.loopTick → Sched.step c s a = none) →
      s.caller.ret.isSome = true ∧ s.loop.phase = .exited ∧ ∀ x ∈ s.ws, x = Sched.W.exited) ∧
    (s.loop.phase = .exited → (c.coe = true ∨ s.loop.err = []) →
      s.donec = [] ∧ (∀ x ∈ s.ws, x = Sched.W.idle ∨ x = Sched.W.exited) ∧
      ∀ (w : Nat), s.ws[w]? = some Sched.W.idle → (Sched.step c s (.workerExit w)).isSome = true) := by
  refine ⟨⟨Sched.C06_post_never_blocks c H.wiring H.wf acts s H.run,
    Sched.worker_can_move c H.wiring H.wf acts s H.run⟩,
    Sched.C06_no_stuck_goroutine c H.wiring H.wf acts s H.run, ?_⟩
  intro hp hnorm
  obtain ⟨h1, h2⟩ := Sched.idle_after_normal_exit c H.wiring H.wf acts s H.run (by rw [hp]; simp) hnorm
  exact ⟨h1, h2, fun w hw => Sched.worker_can_move c H.wiring H.wf acts s H.run w _ hw hp⟩

/-- **C06, flow level (partial, as `C06_par_quiescent_partial`).**  The same three clauses for any
    run of the scheduler on the job list of an accepted flow. -/
theorem C06_flow_quiescent_partial {acts : List Sched.Act} (H : RunH p sc c acts s) :
    (s.ws.countP Sched.W.busy + s.donec.length ≤ c.N ∧
      ∀ (w : Nat) (x : Sched.W), s.ws[w]? = some x → Sched.WorkerCanMove c s w x) ∧
    ((∀ a, a ≠ Sched.Act.loopTick → Sched.step c s a = none) →
      s.caller.ret.isSome = true ∧ s.loop.phase = .exited ∧ ∀ x ∈ s.ws, x = Sched.W.exited) ∧
    (s.loop.phase = .exited → (c.coe = true ∨ s.loop.err = []) →
      s.donec = [] ∧ (∀ x ∈ s.ws, x = Sched.W.idle ∨ x = Sched.W.exited) ∧
      ∀ (w : Nat), s.ws[w]? = some Sched.W.idle → (Sched.step c s (.workerExit w)).isSome = true) := by
  refine ⟨⟨Sched.C06_post_never_blocks c H.wiring H.wf acts s H.run,
    Sched.worker_can_move c H.wiring H.wf acts s H.run⟩,
    Sched.C06_no_stuck_goroutine c H.wiring H.wf acts s H.run, ?_⟩
  intro hp hnorm
  obtain ⟨h1, h2⟩ := Sched.idle_after_normal_exit c H.wiring H.wf acts s H.run (by rw [hp]; simp) hnorm
  exact ⟨h1, h2, fun w hw => Sched.worker_can_move c H.wiring H.wf acts s H.run w _ hw hp⟩

/-! ### C18 — the events of a Parallel -/

/-- **C18, Parallel level, every schedule.**  Any run of the scheduler on the job list of a
    Parallel.

    1. **Task events.**  Let `t` be an instrumented task of the directive (`p.ptasks[pos]? = some t`,
       `t.instr`; its job is job `pos`) whose body ended in the run (`ended pos o ∈ s.log`).  The body
       ran exactly once (one `started`, one `ended` event), so its events were sent once; they are
       `parJobEvents p sc pos = parTaskEvents sc t`: exactly one outcome event followed by exactly
       one TaskDone, and the outcome event matches both the scenario and the outcome recorded in
       the log: TaskSuccess iff the body ended `ok` (iff the function returns nil); otherwise the
       body ended `fail pos`, the event is TaskError (the function returned an error) or TaskPanic
       (it panicked), and the event's payload is exactly the error entry the job returns to the
       scheduler (`(jobRes p sc pos).ret = some cls`) — what `Wait` reports for this job.
    2. Jobs other than task jobs send no task event.
    3. **Directive events.**  If `Wait` returned `r`, then for the rendering `wait` of `r` (one string
       per entry) and any `ran` flags the directive events of the closure's epilogue are: nothing
       if the directive is not instrumented; otherwise exactly one ParallelSuccess (iff `r` is nil)
       or ParallelError (carrying the returned error), then exactly one ParallelDone.
    4. **nil return (both error modes).**  If `Wait` returned nil and every job was enqueued, every
       job ended `ok`, every instrumented task ran (`parRan`), no TaskSkipped is sent, and the
       whole epilogue is `[ParallelSuccess, ParallelDone]` (nothing if not instrumented). -/
theorem C18_par_task_events_every_schedule (H : ParRunH p sc c acts s) :
    (∀ pos t, p.ptasks[pos]? = some t → t.instr = true → ∀ o, Ev.ended pos o ∈ s.log →
      s.log.count (Ev.started pos) = 1 ∧ s.log.countP (Ev.isEndedOf pos) = 1 ∧
      jobBody p pos = .task t.k ∧ parRan p s.log t.k = true ∧
      parJobEvents p sc pos = parTaskEvents sc t ∧
      ∃ kind cls, parTaskEvents sc t = [(kind, cls), ("TaskDone", "-")] ∧
        (kind = "TaskSuccess" ↔ sc.fnOut t.k = .ok) ∧ (kind = "TaskError" ↔ sc.fnOut t.k = .err) ∧
        (kind = "TaskPanic" ↔ sc.fnOut t.k = .panic) ∧
        (kind = "TaskSuccess" ↔ o = Outcome.ok) ∧
        (o ≠ Outcome.ok → o = Outcome.fail pos ∧ (kind = "TaskError" ∨ kind = "TaskPanic") ∧
          (jobRes p sc pos).ret = some cls)) ∧
    (∀ j, p.ptasks.length ≤ j → parJobEvents p sc j = []) ∧
    (∀ r, Ev.waitReturned r ∈ s.log → ∀ (wait : List String) (ran : Nat → Bool), wait.length = r.length →
      (parEnd p wait ran).filter DEv.isDirective =
        if p.instrDir then
          [if r.isEmpty then ("ParallelSuccess", -1, "-") else ("ParallelError", -1, retCls wait),
           ("ParallelDone", -1, "-")]
        else []) ∧
    (Ev.waitReturned [] ∈ s.log → s.caller.sent = (parJobs p).length →
      (∀ j, j < (parJobs p).length → Ev.ended j Outcome.ok ∈ s.log) ∧
      (∀ k ∈ instrPTasks p, parRan p s.log k = true) ∧
      (parEnd p [] (parRan p s.log)).filter (fun e => !DEv.isDirective e) = [] ∧
      parEnd p [] (parRan p s.log) =
        if p.instrDir then [("ParallelSuccess", -1, "-"), ("ParallelDone", -1, "-")] else []) := by
  refine ⟨?_, ?_, ?_, ?_⟩
  · intro pos t ht hin o hend
    have hjob := parJobs_task p pos t ht
    have hbody : jobBody p pos = .task t.k := jobBody_eq hjob
    obtain ⟨_, hiff, hfail⟩ := H.ended_outcome hend
    rw [hbody] at hiff
    have hone := Sched.C08_one_result_per_job c H.wiring H.wf acts s H.run pos
    have hst := H.ended_started hend
    have h1 : s.log.count (Ev.started pos) = 1 := by
      have := Sched.C01_at_most_once c H.wiring H.wf acts s H.run pos
      have : 0 < s.log.count (Ev.started pos) := List.count_pos_iff.mpr hst
      omega
    have h2 : s.log.countP (Ev.isEndedOf pos) = 1 := by
      have := hone.2.2.1
      have : 0 < s.log.countP (Ev.isEndedOf pos) :=
        List.countP_pos_iff.mpr ⟨_, hend, by simp [Sched.Ev.isEndedOf]⟩
      omega
    refine ⟨h1, h2, hbody, parRan_of_ended ht hend, by simp [parJobEvents, ht, hin], ?_⟩
    obtain ⟨kind, cls, hev, k1, k2, k3⟩ := parTaskEvents_shape sc t
    have hiff' : o = Outcome.ok ↔ sc.fnOut t.k = .ok := hiff
    refine ⟨kind, cls, hev, k1, k2, k3, k1.trans hiff'.symm, ?_⟩
    intro hne
    obtain ⟨ho, hret⟩ := hfail hne
    have hnok : sc.fnOut t.k ≠ .ok := fun h => hne (hiff'.mpr h)
    refine ⟨ho, ?_, ?_⟩
    · cases hf : sc.fnOut t.k with
      | ok => exact absurd hf hnok
      | err => exact Or.inl (k2.mpr hf)
      | panic => exact Or.inr (k3.mpr hf)
    · have hcls : (runPJob .std p sc (.task t.k)).ret = some cls := by
        have hev' := hev
        unfold parTaskEvents at hev'
        cases hf : sc.fnOut t.k with
        | ok => exact absurd hf hnok
        | err =>
          rw [hf] at hev'
          simp only [List.cons_append, List.nil_append, List.cons.injEq, Prod.mk.injEq, and_true] at hev'
          rw [(runPJob_ret p sc (.task t.k)).2.1 hf, ← hev'.2]; rfl
        | panic =>
          rw [hf] at hev'
          simp only [List.cons_append, List.nil_append, List.cons.injEq, Prod.mk.injEq, and_true] at hev'
          rw [(runPJob_ret p sc (.task t.k)).2.2 hf, ← hev'.2]; rfl
      unfold jobRes
      rw [hbody]; exact hcls
  · intro j hj
    simp [parJobEvents, List.getElem?_eq_none hj]
  · intro r _ wait ran hlen
    rw [parEnd_directive_events]
    have : wait.isEmpty = r.isEmpty := by
      cases wait <;> cases r <;> simp at hlen ⊢
    rw [this]
  · intro hnil hall
    have hok : ∀ j, j < (parJobs p).length → Ev.ended j Outcome.ok ∈ s.log := by
      intro j hj
      exact Sched.nil_complete c H.wiring H.wf acts s H.run hnil j (by rw [hall]; exact hj)
    have hran : ∀ k ∈ instrPTasks p, parRan p s.log k = true := by
      intro k hk
      unfold instrPTasks at hk
      obtain ⟨t, ht, rfl⟩ := List.mem_map.mp hk
      obtain ⟨pos, hpos⟩ := List.mem_iff_getElem?.mp (List.mem_filter.mp ht).1
      have hlt : pos < (parJobs p).length :=
        (List.getElem?_eq_some_iff.mp (parJobs_task p pos t hpos)).1
      exact parRan_of_ended hpos (hok pos hlt)
    have hsweep := parEnd_all_ran p [] (parRan p s.log) hran
    refine ⟨hok, hran, hsweep, ?_⟩
    have hfil : (instrPTasks p).filter (fun k => !parRan p s.log k) = [] := by
      rw [List.filter_eq_nil_iff]; intro k hk; simp [hran k hk]
    simp only [parEnd, hfil]
    cases p.instrDir <;> simp

end props

end Gen

/-! ### the property theorems applied to concrete runs (non-vacuity) -/

namespace Gen.ParEx

open Gen Sched

/-- `C01_par_every_schedule` on the nil run: the SliceEnd job 3 (= `1 + collN sl`) is started once,
    after the whole execution of both element jobs 1 and 2 (`started` < `ended ok` < `started 3`),
    and the slice function returns nil on both elements; the element jobs have no dependency. -/
theorem runOk_C01 : ∃ s, run (cfg false) (init (cfg false)) actsOk = some s ∧ s.log.count (Ev.started 3) ≤ 1 ∧
    (cfg false).depsOf 1 = [] ∧ (cfg false).depsOf 2 = [] ∧ (cfg false).depsOf 3 = [1, 2] ∧
    (∃ i k1 k1' k2 k2' : Nat, s.log[i]? = some (Ev.started 3) ∧
      k1 < i ∧ s.log[k1]? = some (Ev.ended 1 .ok) ∧ k1' < k1 ∧ s.log[k1']? = some (Ev.started 1) ∧
      k2 < i ∧ s.log[k2]? = some (Ev.ended 2 .ok) ∧ k2' < k2 ∧ s.log[k2']? = some (Ev.started 2)) ∧
    pOut {} (elemBody .slice sl 1) = .ok := by
  obtain ⟨s, H, _, _, hs3, _⟩ := runOk_H
  obtain ⟨i, hi⟩ := List.mem_iff_getElem?.mp hs3
  obtain ⟨h1, _, _, h4⟩ := C01_par_every_schedule H
  obtain ⟨hel, hend⟩ := h4 .slice sl 1 sl_at
  obtain ⟨hdeps, hord⟩ := hend rfl
  obtain ⟨⟨k1, a1, b1, k1', c1, d1⟩, _⟩ := hord i hi 0 (by decide)
  obtain ⟨⟨k2, a2, b2, k2', c2, d2⟩, hok⟩ := hord i hi 1 (by decide)
  exact ⟨s, H.run, h1 3, hel 0 (by decide), hel 1 (by decide), hdeps,
    ⟨i, k1, k1', k2, k2', hi, a1, b1, c1, d1, a2, b2, c2, d2⟩, hok⟩

/-- `C03_par_bound` on the mid-run state: the bodies of jobs 0 and 1 are executing — the bound
    `N = 2` is attained — and no third one is, although the Parallel has five jobs. -/
theorem runMid_C03 : ∃ s, run (cfg false) (init (cfg false)) actsMid = some s ∧
    BodyRunning s.log 0 ∧ BodyRunning s.log 1 ∧ [0, 1].length = (cfg false).N ∧ (parJobs p).length = 5 ∧
    ∀ j, BodyRunning s.log j → j = 0 ∨ j = 1 := by
  obtain ⟨s, H, hws, _⟩ := runMid_H
  obtain ⟨_, _, hiff, _, hbound⟩ := C03_par_bound H
  have b0 : BodyRunning s.log 0 := (hiff 0).mpr ⟨0, by decide, by rw [hws]; rfl⟩
  have b1 : BodyRunning s.log 1 := (hiff 1).mpr ⟨1, by decide, by rw [hws]; rfl⟩
  refine ⟨s, H.run, b0, b1, rfl, by decide, ?_⟩
  intro j hj
  by_cases h0 : j = 0
  · exact Or.inl h0
  · by_cases h1 : j = 1
    · exact Or.inr h1
    · exfalso
      have := hbound [j, 0, 1] (by simp [h0, h1]) (by
        intro x hx
        simp only [List.mem_cons, List.not_mem_nil, or_false] at hx
        rcases hx with rfl | rfl | rfl
        · exact hj
        · exact b0
        · exact b1)
      simp [cfg] at this

/-- `C05_par_terminates` / `C05_par_progress` on the mid-run state: the remaining 23 actions of the
    nil run are a tick-free continuation, bounded by the measure; the whole tick-free prefix is
    bounded by `mu (init) = 9·5 + 2 + 8 + 0 = 55`; and since the caller has not returned, something
    other than the ticker is enabled. -/
theorem runMid_C05 : ∃ s s', run (cfg false) (init (cfg false)) actsMid = some s ∧
    run (cfg false) s actsRest = some s' ∧
    actsRest.length = 23 ∧ 23 + mu (cfg false) s' ≤ mu (cfg false) s ∧ 16 + mu (cfg false) s ≤ 55 ∧
    ∃ a, a ≠ Act.loopTick ∧ (step (cfg false) s a).isSome = true := by
  obtain ⟨s, H, _, hret, hnt, ⟨s', hr', _⟩, hnt'⟩ := runMid_H
  obtain ⟨h1, _, h3, h4, _⟩ := C05_par_terminates H
  obtain ⟨a, ha, hen, _⟩ := C05_par_progress H (Or.inl hret)
  have hlen : actsRest.length = 23 := by decide
  have hlen' : actsMid.length = 16 := by decide
  have b1 := h1 actsRest s' hnt hr'
  have b2 := h3 hnt'
  have b3 : mu (cfg false) (init (cfg false)) = 55 := by rw [h4]; decide
  exact ⟨s, s', H.run, hr', hlen, by omega, by omega, a, ha, hen⟩

/-- `C09_par_cancel` on the cancelled runs.  Fail-fast: the context is done in `s`; in the
    continuation job 2 is dispatched to a worker but — clause 2 — not started; `Wait` returns
    `[ctxErr]`, and — clause 5 — that entry is the context's error, job 2 never started.
    ContinueOnError, the task panicking: `Wait` returns `[fail 0, ctxErr, ctxErr, ctxErr]`; the first
    entry is — clause 5 — the own error of job 0 (the `PanicError` entry `panic:0:str`), the others
    the context's error, and the three skipped jobs never started.  On the nil run followed by a
    cancellation — clause 4 — `Wait`'s nil return precedes the cancellation. -/
theorem runCancel_C09 :
    (∃ s s', run (cfg false) (init (cfg false)) actsCancel = some s ∧ run (cfg false) s moreCancel = some s' ∧
      Ev.cancelled (cfg false).waitCtx ∈ s.log ∧ Ev.dispatched 2 ∈ s'.log ∧ Ev.started 2 ∉ s'.log ∧
      Ev.waitReturned [Res.ctxErr] ∈ s'.log ∧ ∀ o, Ev.ended 2 o ∉ s'.log) ∧
    (∃ s, run (cfg true) (init (cfg true)) (actsCancel ++ moreCoe) = some s ∧
      Ev.waitReturned [Res.fail 0, Res.ctxErr, Res.ctxErr, Res.ctxErr] ∈ s.log ∧
      Ev.started 0 ∈ s.log ∧ Ev.ended 0 (Outcome.fail 0) ∈ s.log ∧
      (jobRes p scFail 0).ret = some "panic:0:str" ∧
      Ev.started 2 ∉ s.log ∧ Ev.started 3 ∉ s.log ∧ Ev.started 4 ∉ s.log) ∧
    (∃ s, run (cfg false) (init (cfg false)) actsNilCancel = some s ∧
      ∃ i k : Nat, s.log[i]? = some (Ev.cancelled (cfg false).waitCtx) ∧ s.log[k]? = some (Ev.waitReturned []) ∧ k < i) := by
  refine ⟨?_, ?_, ?_⟩
  · obtain ⟨s, s', H, H', hc, hns, hr', hd, hsk, hw⟩ := runCancel_H
    obtain ⟨h1, h2, _, _, _⟩ := C09_par_cancel H (cfg_flowCtx false)
    obtain ⟨_, _, _, _, h5⟩ := C09_par_cancel H' (cfg_flowCtx false)
    have hns' : Ev.started 2 ∉ s'.log := by
      intro hst
      obtain ⟨k, hk⟩ := List.mem_iff_getElem?.mp hst
      exact hns (List.mem_of_getElem? (h2 hc moreCancel s' hr' k 2 hk))
    refine ⟨s, s', H.run, hr', h1.mp hc, hd, hns', hw, ?_⟩
    rcases (h5 _ hw (by simp)).2 Res.ctxErr (by simp) with ⟨j, hj, _⟩ | ⟨_, _, hskip⟩
    · cases hj
    · exact (hskip 2 hsk).2
  · obtain ⟨s, H, hw, hs2, hs3, hs4⟩ := runCoeCancel_H
    obtain ⟨_, _, _, _, h5⟩ := C09_par_cancel H (cfg_flowCtx true)
    obtain ⟨_, hent⟩ := h5 _ hw (by simp)
    rcases hent (Res.fail 0) (by simp) with ⟨j, hj, _, hst, hend, _, hret⟩ | ⟨hx, _⟩
    · cases hj
      rcases hent Res.ctxErr (by simp) with ⟨j, hj, _⟩ | ⟨_, _, hskip⟩
      · cases hj
      · refine ⟨s, H.run, hw, hst, hend, ?_, (hskip 2 hs2).1, (hskip 3 hs3).1, (hskip 4 hs4).1⟩
        rw [hret]; decide
    · cases hx
  · obtain ⟨s, H, hnil, hcan⟩ := runNilCancel_H
    obtain ⟨_, _, _, h4, _⟩ := C09_par_cancel H (cfg_flowCtx false)
    obtain ⟨i, hi⟩ := List.mem_iff_getElem?.mp hcan
    obtain ⟨k, hk⟩ := List.mem_iff_getElem?.mp hnil
    exact ⟨s, H.run, i, k, hi, hk, h4 i k hi hk⟩

/-- `C19_par_reports` on the run with a ticker action: the report `{Pending 5, Ready 2, Waiting 1,
    Idle 0, Concurrency 2}` is consistent, and the Parallel-level bounds are attained: the Parallel
    has 5 jobs, exactly one of them (the SliceEnd job 3) with dependencies — `endJobs p = 1`. -/
theorem runTick_C19 : ∃ s st, run cfgE (init cfgE) actsTick = some s ∧ Ev.report st ∈ s.log ∧
    st.pending = 5 ∧ st.waiting = 1 ∧
    st.pending ≤ ((parJobs p).length : Int) ∧ (parJobs p).length = 5 ∧
    st.waiting ≤ ((endJobs p : Nat) : Int) ∧ endJobs p = 1 ∧
    (parJobs p).countP (fun j => !j.deps.isEmpty) = 1 ∧
    ∃ n, GoodReport cfgE n st ∧ n ≤ 5 := by
  obtain ⟨s, H, hm⟩ := runTick_H
  obtain ⟨i, hi⟩ := List.mem_iff_getElem?.mp hm
  obtain ⟨hg, hsub, hp, _, _, hwt, _⟩ := C19_par_reports H i _ hi
  have h5 : (parJobs p).length = 5 := by decide
  exact ⟨s, _, H.run, hm, rfl, rfl, hp, h5, hwt, by decide, by decide, _, hg, by omega⟩

/-- `C06_par_quiescent_partial` applied.  On the final state of the nil run (loop exited, no error):
    `donec` is empty, both workers are idle, and — clause 3 — each of them can exit.  On the state
    of the counter-example `run_C06_counterexample` (fail-fast, loop exited after the task's
    failure, `Wait` returned, worker 1 still inside the body of job 1) — clause 1 — that worker is
    not blocked: its body can end with any outcome. -/
theorem run_C06 :
    (∃ s, run (cfg false) (init (cfg false)) actsOk = some s ∧ s.loop.phase = .exited ∧ s.donec = [] ∧
      (∀ x ∈ s.ws, x = W.idle ∨ x = W.exited) ∧
      (step (cfg false) s (.workerExit 0)).isSome = true ∧ (step (cfg false) s (.workerExit 1)).isSome = true) ∧
    (∃ s, run (cfg false) (init (cfg false)) actsLeak = some s ∧ s.loop.phase = .exited ∧
      s.caller.ret.isSome = true ∧ s.ws[1]? = some (W.running 1) ∧
      ∀ o cancel, (step (cfg false) s (.workerEnd 1 o cancel)).isSome = true) := by
  refine ⟨?_, ?_⟩
  · obtain ⟨s, H, _, _, _, hp, hws, herr⟩ := runOk_H
    obtain ⟨_, _, h3⟩ := C06_par_quiescent_partial H
    obtain ⟨hd, hall, hex⟩ := h3 hp (Or.inr herr)
    exact ⟨s, H.run, hp, hd, hall, hex 0 (by rw [hws]; rfl), hex 1 (by rw [hws]; rfl)⟩
  · obtain ⟨s, H, hp, hret, hws, _⟩ := run_C06_counterexample
    obtain ⟨⟨_, hmove⟩, _, _⟩ := C06_par_quiescent_partial H
    have h1 : s.ws[1]? = some (W.running 1) := by rw [hws]; rfl
    exact ⟨s, H.run, hp, by rw [hret]; rfl, h1, hmove 1 _ h1⟩

/-- `C18_par_task_events_every_schedule` applied to the instrumented Parallel `pI`.
    ContinueOnError, the task panicking (`actsFail`): the task job 0 ended with `fail 0`, ran once,
    and its events are `[TaskPanic "panic:0:str", TaskDone]`, the payload being the entry the job
    returns; `Wait` returned a non-nil error, so the directive events are ParallelError, ParallelDone.
    The nil run: the task's events are `[TaskSuccess, TaskDone]`, every job ended `ok`, and the
    whole epilogue is `[ParallelSuccess, ParallelDone]` — no TaskSkipped. -/
theorem run_C18 :
    (∃ s, run (cfg true) (init (cfg true)) actsFail = some s ∧ s.log.count (Ev.started 0) = 1 ∧
      parJobEvents pI scFail 0 = [("TaskPanic", "panic:0:str"), ("TaskDone", "-")] ∧
      (jobRes pI scFail 0).ret = some "panic:0:str" ∧
      ∀ ran, (parEnd pI ["serr:0:1", "panic:0:str"] ran).filter DEv.isDirective =
        [("ParallelError", -1, retCls ["serr:0:1", "panic:0:str"]), ("ParallelDone", -1, "-")]) ∧
    (∃ s, run (cfg false) (init (cfg false)) actsOk = some s ∧
      parJobEvents pI {} 0 = [("TaskSuccess", "-"), ("TaskDone", "-")] ∧
      (∀ j, j < 5 → Ev.ended j Outcome.ok ∈ s.log) ∧
      parEnd pI [] (parRan pI s.log) = [("ParallelSuccess", -1, "-"), ("ParallelDone", -1, "-")]) := by
  have ht : pI.ptasks[0]? = some { k := 0, instr := true } := rfl
  refine ⟨?_, ?_⟩
  · obtain ⟨s, H, hend, hw⟩ := runFailI_H
    obtain ⟨h1, _, h3, _⟩ := C18_par_task_events_every_schedule H
    obtain ⟨hst, _, _, _, hev, kind, cls, hshape, _, _, kp, _, hfail⟩ := h1 0 _ ht rfl _ hend
    obtain ⟨_, hk, hret⟩ := hfail (by simp)
    have hkind : kind = "TaskPanic" := kp.mpr (by decide)
    have hcls : cls = "panic:0:str" := by
      have : (jobRes pI scFail 0).ret = some "panic:0:str" := by decide
      rw [this] at hret; exact (Option.some.inj hret).symm
    subst hkind; subst hcls
    refine ⟨s, H.run, hst, by rw [hev, hshape], hret, ?_⟩
    intro ran
    have := h3 _ hw ["serr:0:1", "panic:0:str"] ran rfl
    simpa [pI] using this
  · obtain ⟨s, H, hnil, hall, hend⟩ := runOkI_H
    obtain ⟨h1, _, _, h4⟩ := C18_par_task_events_every_schedule H
    obtain ⟨_, _, _, _, hev, kind, cls, hshape, ks, _, _, _, _⟩ := h1 0 _ ht rfl _ hend
    obtain ⟨hok, _, _, hepi⟩ := h4 hnil hall
    have h5 : (parJobs pI).length = 5 := by decide
    refine ⟨s, H.run, ?_, fun j hj => hok j (by omega), by simpa [pI] using hepi⟩
    rw [hev]; decide

end Gen.ParEx

namespace Gen.Example

open Gen Sched

/-- `C06_flow_quiescent_partial` applied.  On the final state of the nil run of the flow: every
    worker is idle and can exit.  On the state of `flow_C06_counterexample`: the worker that is still
    inside a body is not blocked. -/
theorem flow_C06 :
    (∃ s, run cfg (init cfg) acts = some s ∧ s.loop.phase = .exited ∧ s.donec = [] ∧
      (∀ x ∈ s.ws, x = W.idle ∨ x = W.exited) ∧ (step cfg s (.workerExit 0)).isSome = true) ∧
    (∃ s, run cfg (init cfg) flowLeak = some s ∧ s.loop.phase = .exited ∧ s.caller.ret.isSome = true ∧
      s.ws[1]? = some (W.running 1) ∧ ∀ o cancel, (step cfg s (.workerEnd 1 o cancel)).isSome = true) := by
  refine ⟨?_, ?_⟩
  · have h : ∃ s, run cfg (init cfg) acts = some s ∧ (replay prog sc s.log).2 = true ∧
        s.loop.phase = .exited ∧ s.loop.err = [] ∧ s.ws[0]? = some W.idle := by decide
    obtain ⟨s, hr, hcons, hp, herr, hw0⟩ := h
    have H : RunH prog sc cfg acts s := ⟨prog_accepted, prog_small, prog_ids, rfl, rfl, by decide, hr, hcons⟩
    obtain ⟨_, _, h3⟩ := C06_flow_quiescent_partial H
    obtain ⟨hd, hall, hex⟩ := h3 hp (Or.inr herr)
    exact ⟨s, hr, hp, hd, hall, hex 0 hw0⟩
  · obtain ⟨s, H, hp, hret, hws, _⟩ := flow_C06_counterexample
    obtain ⟨⟨_, hmove⟩, _, _⟩ := C06_flow_quiescent_partial H
    have h1 : s.ws[1]? = some (W.running 1) := by rw [hws]; rfl
    exact ⟨s, H.run, hp, by rw [hret]; rfl, h1, hmove 1 _ h1⟩

end Gen.Example
