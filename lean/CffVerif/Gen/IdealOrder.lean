/-
  The reference execution is itself the execution of a valid order: the jobs that `ideal` runs, in
  enqueue order.  (No acceptance hypothesis is needed for this direction.)  Together with
  `confluence` this makes `ideal`'s order the largest valid order: every valid order runs a subset
  of its jobs, with the same results.
-/
import CffVerif.Gen.Confluence

namespace Gen

/-- The jobs the reference execution runs, in enqueue order. -/
def idealOrderPre (p : Prog) (sc : Scenario) (m : Nat) : List Nat :=
  (List.range m).filter fun j => (idealRes p sc j).isSome

def idealOrder (p : Prog) (sc : Scenario) : List Nat := idealOrderPre p sc (genJobs p).length

theorem okAt_true {res : List (Option BodyRes)} {d : Nat} (h : okAt res d = true) :
    ∃ r, res.getD d none = some r ∧ r.ret = none ∧ d < res.length := by
  unfold okAt at h
  cases hr : res.getD d none with
  | none => rw [hr] at h; simp [okOpt] at h
  | some r =>
    rw [hr] at h
    refine ⟨r, rfl, by simpa [okOpt] using h, ?_⟩
    rcases Nat.lt_or_ge d res.length with hl | hl
    · exact hl
    · simp [List.getD_eq_getElem?_getD, List.getElem?_eq_none hl] at hr

theorem idealOrderPre_inv (p : Prog) (sc : Scenario) : ∀ m, m ≤ (genJobs p).length →
    ValidOrder p sc (idealOrderPre p sc m) ∧
    (execOrder p sc (idealOrderPre p sc m)).1 = (idealPre p sc m).1 ∧
    ∀ j r, (j, r) ∈ (execOrder p sc (idealOrderPre p sc m)).2 ↔ j < m ∧ idealRes p sc j = some r := by
  intro m
  induction m with
  | zero =>
    intro _
    refine ⟨validOrder_nil p sc, by simp [idealOrderPre, execOrder, idealPre_zero], ?_⟩
    intro j r
    simp [idealOrderPre, execOrder]
  | succ m ih =>
    intro hm
    have hml : m < (genJobs p).length := by omega
    obtain ⟨hv, hst, htr⟩ := ih (by omega)
    obtain ⟨s1, s2⟩ := ideal_step_spec p sc hml
    have hsplit : idealOrderPre p sc (m + 1) = idealOrderPre p sc m ++
        (if (idealRes p sc m).isSome then [m] else []) := by
      unfold idealOrderPre
      rw [List.range_succ, List.filter_append]
      congr 1
      by_cases h : (idealRes p sc m).isSome = true <;> simp [h]
    cases hr : (jobAt p m).deps.all (okAt (idealPre p sc m).2) with
    | true =>
      obtain ⟨hres, hstore⟩ := s1 hr
      have ho : idealOrderPre p sc (m + 1) = idealOrderPre p sc m ++ [m] := by
        rw [hsplit, hres]; rfl
      have hnot : m ∉ idealOrderPre p sc m := by
        intro h
        have := (List.mem_filter.mp h).1
        simp at this
      have hstep : StepOK p (execOrder p sc (idealOrderPre p sc m)).2 m := by
        refine ⟨hml, ?_⟩
        intro d hd
        obtain ⟨r, hg, hret, hdl⟩ := okAt_true (List.all_eq_true.mp hr d hd)
        rw [idealPre_length p sc m (by omega)] at hdl
        rw [idealRes_eq p sc hdl (by omega)] at hg
        exact ⟨r, (htr d r).mpr ⟨hdl, hg⟩, hret⟩
      rw [ho]
      refine ⟨validOrder_snoc.mpr ⟨hv, hnot, hstep⟩, ?_, ?_⟩
      · rw [execOrder_snoc]
        simp only [execStep, hst, hstore]
      · intro j r
        rw [execOrder_snoc]
        simp only [execStep, List.mem_append, List.mem_singleton, htr, hst]
        constructor
        · rintro (⟨h1, h2⟩ | h)
          · exact ⟨by omega, h2⟩
          · cases h; exact ⟨by omega, hres⟩
        · rintro ⟨h1, h2⟩
          by_cases hjm : j = m
          · subst hjm
            rw [hres] at h2
            cases h2
            exact Or.inr rfl
          · exact Or.inl ⟨by omega, h2⟩
    | false =>
      obtain ⟨hres, hstore⟩ := s2 hr
      have ho : idealOrderPre p sc (m + 1) = idealOrderPre p sc m := by
        rw [hsplit, hres]; simp
      rw [ho]
      refine ⟨hv, by rw [hst, hstore], ?_⟩
      intro j r
      rw [htr]
      constructor
      · rintro ⟨h1, h2⟩; exact ⟨by omega, h2⟩
      · rintro ⟨h1, h2⟩
        refine ⟨?_, h2⟩
        rcases Nat.lt_or_ge j m with h | h
        · exact h
        · have : j = m := by omega
          subst this; rw [hres] at h2; cases h2

/-- **`ideal` is the execution of a valid order** — the jobs it runs, in enqueue order: executing
    that order reproduces `ideal`'s store and exactly its recorded body results. -/
theorem ideal_is_valid_order (p : Prog) (sc : Scenario) :
    ValidOrder p sc (idealOrder p sc) ∧
    (execOrder p sc (idealOrder p sc)).1 = (ideal p sc).store ∧
    ∀ j r, (j, r) ∈ (execOrder p sc (idealOrder p sc)).2 ↔
      j < (genJobs p).length ∧ idealRes p sc j = some r := by
  obtain ⟨h1, h2, h3⟩ := idealOrderPre_inv p sc (genJobs p).length (Nat.le_refl _)
  refine ⟨h1, ?_, h3⟩
  rw [(ideal_eq p sc).1, ← idealPre_all]
  exact h2

/-- Every valid order of an accepted flow runs only jobs of `ideal`'s order. -/
theorem valid_order_subset_ideal (p : Prog) (sc : Scenario) (hacc : validateFlow p = []) (hs : SmallTypes p)
    (hd : DistinctIds p) (o : List Nat) (hv : ValidOrder p sc o) : ∀ j ∈ o, j ∈ idealOrder p sc := by
  intro j hj
  have hjl := hv.2.1 j hj
  have hmem : j ∈ (execOrder p sc o).2.map Prod.fst := by rw [execOrder_fst]; exact hj
  obtain ⟨⟨j', r⟩, hm, rfl⟩ := List.mem_map.mp hmem
  obtain ⟨ri, hri, _⟩ := (confluence p sc hacc hs hd o hv).1 j' r hm
  exact List.mem_filter.mpr ⟨List.mem_range.mpr hjl, by rw [hri]; rfl⟩

end Gen
