/-
  C — supported function signatures (internal/compile.go `compileFunction`): a task / predicate
  function may take a context.Context only as its first parameter, may return an error only as
  its last result, and may not be variadic.  `classifySig` transcribes the two loops; the harness
  feeds it the parameter/result kinds of `sig-shape` programs (`psig=`/`rsig=` on the meta line).
-/
namespace Gen

inductive PK | ctx | val deriving DecidableEq, Repr
inductive RK | err | val deriving DecidableEq, Repr

structure SigInfo where
  wantCtx : Bool
  nIns : Nat
  nOuts : Nat
  hasErr : Bool
  deriving DecidableEq, Repr

/-- the parameter loop: index, accumulated (wantCtx, nIns) -/
def paramLoop : Nat → List PK → Bool × Nat → Option (Bool × Nat)
  | _, [], acc => some acc
  | i, .val :: ps, (c, n) => paramLoop (i + 1) ps (c, n + 1)
  | i, .ctx :: ps, (_, n) => if i != 0 then none else paramLoop (i + 1) ps (true, n)

/-- the result loop: index, total length, accumulated (hasErr, nOuts) -/
def resultLoop (len : Nat) : Nat → List RK → Bool × Nat → Option (Bool × Nat)
  | _, [], acc => some acc
  | i, .val :: rs, (e, n) => resultLoop len (i + 1) rs (e, n + 1)
  | i, .err :: rs, (_, n) => if i != len - 1 then none else resultLoop len (i + 1) rs (true, n)

def classifySig (variadic : Bool) (ps : List PK) (rs : List RK) : Option SigInfo :=
  if variadic then none else
  match paramLoop 0 ps (false, 0) with
  | none => none
  | some (c, ni) =>
    match resultLoop rs.length 0 rs (false, 0) with
    | none => none
    | some (e, no) => some { wantCtx := c, nIns := ni, nOuts := no, hasErr := e }

/-! ### specification -/

theorem paramLoop_spec : ∀ (ps : List PK) (i : Nat) (acc : Bool × Nat),
    (paramLoop i ps acc).isSome = true ↔ ∀ j, j < ps.length → ps[j]? = some PK.ctx → i + j = 0 := by
  intro ps
  induction ps with
  | nil => intro i acc; simp [paramLoop]
  | cons p ps ih =>
    intro i acc
    obtain ⟨c, n⟩ := acc
    cases p with
    | val =>
      simp only [paramLoop]
      rw [ih]
      constructor
      · intro h j hj hc
        cases j with
        | zero => simp at hc
        | succ j => have := h j (by simpa using hj) (by simpa using hc); omega
      · intro h j hj hc
        have := h (j + 1) (by simpa using hj) (by simpa using hc); omega
    | ctx =>
      simp only [paramLoop]
      by_cases hi : i = 0
      · subst hi
        simp only [bne_self_eq_false, Bool.false_eq_true, if_false]
        rw [ih]
        constructor
        · intro h j hj hc
          cases j with
          | zero => rfl
          | succ j => have := h j (by simpa using hj) (by simpa using hc); omega
        · intro h j hj hc
          have := h (j + 1) (by simpa using hj) (by simpa using hc); omega
      · have : (i != 0) = true := by simpa using hi
        simp only [this, if_true, Option.isSome_none, Bool.false_eq_true, false_iff]
        intro h
        have := h 0 (by simp) (by simp)
        omega

theorem resultLoop_spec (len : Nat) : ∀ (rs : List RK) (i : Nat) (acc : Bool × Nat),
    (resultLoop len i rs acc).isSome = true ↔ ∀ j, j < rs.length → rs[j]? = some RK.err → i + j = len - 1 := by
  intro rs
  induction rs with
  | nil => intro i acc; simp [resultLoop]
  | cons r rs ih =>
    intro i acc
    obtain ⟨e, n⟩ := acc
    cases r with
    | val =>
      simp only [resultLoop]
      rw [ih]
      constructor
      · intro h j hj hc
        cases j with
        | zero => simp at hc
        | succ j => have := h j (by simpa using hj) (by simpa using hc); omega
      · intro h j hj hc
        have := h (j + 1) (by simpa using hj) (by simpa using hc); omega
    | err =>
      simp only [resultLoop]
      by_cases hi : i = len - 1
      · have : (i != len - 1) = false := by simpa using hi
        simp only [this, Bool.false_eq_true, if_false]
        rw [ih]
        constructor
        · intro h j hj hc
          cases j with
          | zero => simpa using hi
          | succ j => have := h j (by simpa using hj) (by simpa using hc); omega
        · intro h j hj hc
          have := h (j + 1) (by simpa using hj) (by simpa using hc); omega
      · have : (i != len - 1) = true := by simpa using hi
        simp only [this, if_true, Option.isSome_none, Bool.false_eq_true, false_iff]
        intro h
        have := h 0 (by simp) (by simp)
        omega

/-- **C14, supported signatures.** A function is accepted exactly when it is not variadic, a
    `context.Context` occurs only as its first parameter, and an `error` occurs only as its last result. -/
theorem classifySig_accepts_iff (variadic : Bool) (ps : List PK) (rs : List RK) :
    (classifySig variadic ps rs).isSome = true ↔
      variadic = false ∧ (∀ j, j < ps.length → ps[j]? = some PK.ctx → j = 0) ∧
      (∀ j, j < rs.length → rs[j]? = some RK.err → j = rs.length - 1) := by
  unfold classifySig
  cases variadic with
  | true => simp
  | false =>
    simp only [Bool.false_eq_true, if_false, true_and]
    have hp := paramLoop_spec ps 0 (false, 0)
    have hr := resultLoop_spec rs.length rs 0 (false, 0)
    simp only [Nat.zero_add] at hp hr
    cases h1 : paramLoop 0 ps (false, 0) with
    | none =>
      rw [h1] at hp
      simp only [Option.isSome_none, Bool.false_eq_true, false_iff] at hp ⊢
      intro h; exact hp h.1
    | some a =>
      obtain ⟨c, ni⟩ := a
      rw [h1] at hp
      simp only [Option.isSome_some, true_iff] at hp
      cases h2 : resultLoop rs.length 0 rs (false, 0) with
      | none =>
        rw [h2] at hr
        simp only [Option.isSome_none, Bool.false_eq_true, false_iff] at hr ⊢
        intro h; exact hr h.2
      | some b =>
        obtain ⟨e, no⟩ := b
        rw [h2] at hr
        simp only [Option.isSome_some, true_iff] at hr
        simp only [Option.isSome_some, true_iff]
        exact ⟨hp, hr⟩

/-- Parsing of the harness's shape strings (`c` ctx, `v` value, `e` error, trailing `V` variadic). -/
def parsePK (s : String) : Bool × List PK :=
  let cs := s.toList
  let variadic := cs.getLast? == some 'V'
  let cs := if variadic then cs.dropLast else cs
  (variadic, cs.map fun ch => if ch == 'c' then PK.ctx else PK.val)

def parseRK (s : String) : List RK := s.toList.map fun ch => if ch == 'e' then RK.err else RK.val

example : classifySig false [.ctx, .val, .val] [.val, .err] = some { wantCtx := true, nIns := 2, nOuts := 1, hasErr := true } ∧
          classifySig false [.val, .ctx] [.val] = none ∧ classifySig false [.val] [.err, .val] = none ∧
          classifySig true [.val] [.val] = none := by decide

end Gen
