/-
  C11_pred_deps: what the `Dependencies` lists of the generated jobs are, as a theorem about the
  model `genJobs` (Gen/Compile.lean).  The differential check `Gen.Check.checkDeps` compares the
  `Dependencies` literals that cff actually generated (the harness's `GD` line) with
  `Gen.Check.modelDeps p`, i.e. with `depIds p j` for every job `j` of `genJobs p`; the theorems
  below say what those identities are in terms of the program:

  * the task job of `t` depends on exactly the providers of `t`'s inputs, plus — iff `t` has a
    predicate — on the predicate job of `t`;
  * the predicate job of `t` depends on exactly the providers of the predicate's inputs;
  * `genJobs p` holds every function of the flow exactly once, and identities `(isPred, k)` name
    functions unambiguously when task ids are distinct (so comparing identities is comparing jobs).
-/
import CffVerif.Gen.Topo
import CffVerif.Gen.Check

namespace Gen

open Gen.Check (jid depIds modelDeps)

/-! ### providers -/

theorem providerOf_some {fs : List Fn} {τ : Ty} {i : Nat} (h : providerOf fs τ = some i) :
    i < fs.length ∧ τ ∈ (fs.getD i default).provides := by
  unfold providerOf at h
  have hm := List.mem_filter.mp (List.mem_of_getLast? h)
  exact ⟨List.mem_range.mp hm.1, by simpa using hm.2⟩

/-- With unique providers (`crossUnique`), the provider of a type is THE function providing it. -/
theorem providerOf_of_provides {fs : List Fn} (hu : crossUnique fs = true) {τ : Ty} {i : Nat}
    (hi : i < fs.length) (hτ : τ ∈ (fs.getD i default).provides) : providerOf fs τ = some i := by
  cases h : providerOf fs τ with
  | none =>
    exfalso
    unfold providerOf at h
    have hnil := List.getLast?_eq_none_iff.mp h
    have : i ∈ (List.range fs.length).filter fun i => (fs.getD i default).provides.contains τ :=
      List.mem_filter.mpr ⟨List.mem_range.mpr hi, by simpa using hτ⟩
    rw [hnil] at this
    simp at this
  | some l =>
    obtain ⟨hl, hlτ⟩ := providerOf_some h
    unfold crossUnique at hu
    have h1 := List.all_eq_true.mp hu l (List.mem_range.mpr hl)
    have h2 := List.all_eq_true.mp h1 i (List.mem_range.mpr hi)
    have hany : ((fs.getD l default).provides.any fun t => (fs.getD i default).provides.contains t) = true :=
      List.any_eq_true.mpr ⟨τ, hlτ, by simpa using hτ⟩
    rw [hany] at h2
    have : l = i := by simpa using h2
    rw [this]

theorem mem_dependsOn {fs : List Fn} {i d : Nat} :
    d ∈ dependsOn fs i ↔ ∃ τ ∈ (fs.getD i default).deps, providerOf fs τ = some d := by
  simp [dependsOn, List.mem_filterMap]

/-! ### the jobs of `genJobs` -/

theorem mem_genJobs {p : Prog} {j : Job} (hj : j ∈ genJobs p) :
    ∃ i ∈ toposort (funcs p),
      j = { fn := (funcs p).getD i default,
            deps := (dependsOn (funcs p) i).map fun d => (toposort (funcs p)).idxOf d } := by
  simp only [genJobs, List.mem_map] at hj
  obtain ⟨i, hi, rfl⟩ := hj
  exact ⟨i, hi, rfl⟩

/-- The job at the position of function `d` in the enqueue order is the job of function `d`. -/
theorem genJobs_at_idxOf {p : Prog} {d : Nat} (hd : d ∈ toposort (funcs p)) :
    ((genJobs p).getD ((toposort (funcs p)).idxOf d) default).fn = (funcs p).getD d default := by
  have hlt := List.idxOf_lt_length_of_mem hd
  have hget : (toposort (funcs p))[(toposort (funcs p)).idxOf d]? = some d := by
    rw [List.getElem?_eq_getElem hlt, List.getElem_idxOf hlt]
  simp only [genJobs, List.getD_eq_getElem?_getD, List.getElem?_map, hget, Option.map_some, Option.getD_some]

/-- Every element of the enqueue order is a function index. -/
theorem toposort_lt (p : Prog) (hac : Acyclic p) : ∀ x ∈ toposort (funcs p), x < (funcs p).length := by
  have hlen := (genJobs_deps_before p hac).2
  obtain ⟨rank, hrank, hbound⟩ := hac
  obtain ⟨_, hnd, hall⟩ := toposort_sound (funcs p) rank hrank hbound
  simp only [genJobs, List.length_map] at hlen
  -- the part of the order below `length` is a duplicate-free list with the elements of `range length`
  have hperm : ((toposort (funcs p)).filter fun x => decide (x < (funcs p).length)).Perm (List.range (funcs p).length) := by
    apply (List.perm_ext_iff_of_nodup (hnd.sublist List.filter_sublist) List.nodup_range).mpr
    intro a
    constructor
    · intro ha; exact List.mem_range.mpr (by simpa using (List.mem_filter.mp ha).2)
    · intro ha
      exact List.mem_filter.mpr ⟨hall a (List.mem_range.mp ha), by simpa using List.mem_range.mp ha⟩
  have hl : ((toposort (funcs p)).filter fun x => decide (x < (funcs p).length)).length = (toposort (funcs p)).length := by
    rw [hperm.length_eq, List.length_range, hlen]
  intro x hx
  simpa using List.length_filter_eq_length_iff.mp hl x hx

theorem toposort_perm (p : Prog) (hac : Acyclic p) : (toposort (funcs p)).Perm (List.range (funcs p).length) := by
  have hlt := toposort_lt p hac
  obtain ⟨rank, hrank, hbound⟩ := hac
  obtain ⟨_, hnd, hall⟩ := toposort_sound (funcs p) rank hrank hbound
  apply (List.perm_ext_iff_of_nodup hnd List.nodup_range).mpr
  intro a
  exact ⟨fun ha => List.mem_range.mpr (hlt a ha), fun ha => hall a (List.mem_range.mp ha)⟩

/-- **Each function once.**  The functions of the jobs of `genJobs p` are, up to order, the
    functions of the flow: every task once, every predicate once (part (a) of `checkDeps`). -/
theorem genJobs_fns_perm (p : Prog) (hac : Acyclic p) : ((genJobs p).map (·.fn)).Perm (funcs p) := by
  have hmap : (genJobs p).map (·.fn) = (toposort (funcs p)).map fun i => (funcs p).getD i default := by
    simp [genJobs, List.map_map, Function.comp_def]
  have hrange : ((List.range (funcs p).length).map fun i => (funcs p).getD i default) = funcs p := by
    apply List.ext_getElem
    · simp
    · intro i h1 h2
      simp [List.getD_eq_getElem?_getD, List.getElem?_eq_getElem h2]
  rw [hmap]
  have := (toposort_perm p hac).map fun i => (funcs p).getD i default
  rwa [hrange] at this

/-- **Dependencies of a generated job, in general.**  The identities a job of `genJobs p` lists as
    `Dependencies` are exactly the identities of the providers of its function's dependency types. -/
theorem genJobs_depIds (p : Prog) (hac : Acyclic p) (j : Job) (hj : j ∈ genJobs p) (x : Bool × Nat) :
    x ∈ depIds p j ↔
      ∃ τ ∈ j.fn.deps, ∃ i, providerOf (funcs p) τ = some i ∧ x = jid ((funcs p).getD i default) := by
  obtain ⟨rank, hrank, hbound⟩ := hac
  obtain ⟨hclosed, _, _⟩ := toposort_sound (funcs p) rank hrank hbound
  obtain ⟨i, hi, rfl⟩ := mem_genJobs hj
  simp only [depIds, List.map_map, List.mem_map, Function.comp_def]
  constructor
  · rintro ⟨d, hd, rfl⟩
    obtain ⟨τ, hτ, hp⟩ := mem_dependsOn.mp hd
    exact ⟨τ, hτ, d, hp, by rw [genJobs_at_idxOf (closed_mem hclosed hi d hd)]⟩
  · rintro ⟨τ, hτ, d, hp, rfl⟩
    have hd : d ∈ dependsOn (funcs p) i := mem_dependsOn.mpr ⟨τ, hτ, hp⟩
    exact ⟨d, hd, by rw [genJobs_at_idxOf (closed_mem hclosed hi d hd)]⟩

/-! ### tasks and predicates -/

theorem predFn_mem_funcs {p : Prog} {t : Task} (ht : t ∈ p.tasks) (hp : t.pred = true) : t.predFn ∈ funcs p := by
  simp only [funcs, List.mem_flatMap]
  exact ⟨t, ht, by simp [hp]⟩

/-- With unique providers the sentinel type of `t`'s predicate is provided by `t`'s predicate
    function (and nothing else). -/
theorem providerOf_prdTy {p : Prog} (hu : crossUnique (funcs p) = true) {t : Task} (ht : t ∈ p.tasks)
    (hp : t.pred = true) :
    ∃ i, providerOf (funcs p) (prdTy t.k) = some i ∧ (funcs p).getD i default = t.predFn := by
  obtain ⟨i, hi, hget⟩ := List.mem_iff_getElem.mp (predFn_mem_funcs ht hp)
  have hgd : (funcs p).getD i default = t.predFn := by
    simp [List.getD_eq_getElem?_getD, List.getElem?_eq_getElem hi, hget]
  refine ⟨i, providerOf_of_provides hu hi ?_, hgd⟩
  rw [hgd]
  simp [Task.predFn, Fn.provides]

/-- **C11_pred_deps.**  For an acyclic flow with unique providers, and a task `t` of it:

    * the job of `t`'s task function names as `Dependencies` exactly the provider functions of the
      types in `t.ins` (those that have a provider: the others come from `cff.Params`), and — if and
      only if `t` carries a `cff.Predicate` — the predicate job of `t`;
    * the job of `t`'s predicate names exactly the provider functions of the types in `t.pins`.

    Identities are `jid f = (f.isPred, f.k)`; `depIds p j` maps the positions in `j.deps` to the
    identities of the jobs enqueued at those positions.  This is the right-hand side of the
    comparison made by `Gen.Check.checkDeps` on the `Dependencies` literals cff generated. -/
theorem C11_pred_deps (p : Prog) (hac : Acyclic p) (hu : crossUnique (funcs p) = true)
    (t : Task) (ht : t ∈ p.tasks) (j : Job) (hj : j ∈ genJobs p) :
    (j.fn = t.fn → ∀ x, x ∈ depIds p j ↔
        (∃ τ ∈ t.ins, ∃ i, providerOf (funcs p) τ = some i ∧ x = jid ((funcs p).getD i default))
        ∨ (t.pred = true ∧ x = (true, t.k))) ∧
    (j.fn = t.predFn → ∀ x, x ∈ depIds p j ↔
        ∃ τ ∈ t.pins, ∃ i, providerOf (funcs p) τ = some i ∧ x = jid ((funcs p).getD i default)) := by
  refine ⟨?_, ?_⟩
  · intro hfn x
    rw [genJobs_depIds p hac j hj x, hfn]
    constructor
    · rintro ⟨τ, hτ, i, hpi, rfl⟩
      simp only [Task.fn, List.mem_append] at hτ
      rcases hτ with hτ | hτ
      · exact Or.inl ⟨τ, hτ, i, hpi, rfl⟩
      · right
        by_cases hp : t.pred = true
        · simp only [hp, if_true, List.mem_singleton] at hτ
          subst hτ
          obtain ⟨i', hpi', hg⟩ := providerOf_prdTy hu ht hp
          rw [hpi'] at hpi
          cases hpi
          exact ⟨hp, by rw [hg]; rfl⟩
        · simp [hp] at hτ
    · rintro (⟨τ, hτ, i, hpi, rfl⟩ | ⟨hp, rfl⟩)
      · exact ⟨τ, by simp [Task.fn, hτ], i, hpi, rfl⟩
      · obtain ⟨i, hpi, hg⟩ := providerOf_prdTy hu ht hp
        exact ⟨prdTy t.k, by simp [Task.fn, hp], i, hpi, by rw [hg]; rfl⟩
  · intro hfn x
    rw [genJobs_depIds p hac j hj x, hfn]
    rfl

/-- The same with the provider spelled out: under unique providers "the provider of τ" is any
    function of the flow that provides τ. -/
theorem providerOf_iff {fs : List Fn} (hu : crossUnique fs = true) (τ : Ty) (i : Nat) :
    providerOf fs τ = some i ↔ i < fs.length ∧ τ ∈ (fs.getD i default).provides :=
  ⟨providerOf_some, fun h => providerOf_of_provides hu h.1 h.2⟩

/-- Dependencies are enqueued first (C02, restated on identities): every identity in `depIds p j`
    belongs to a job at an earlier position (part (c) of `checkDeps`). -/
theorem depIds_before (p : Prog) (hac : Acyclic p) (pos : Nat) (j : Job) (hj : (genJobs p)[pos]? = some j) :
    ∀ x ∈ depIds p j, ∃ d, d < pos ∧ ∃ j', (genJobs p)[d]? = some j' ∧ x = jid j'.fn := by
  intro x hx
  simp only [depIds, List.mem_map] at hx
  obtain ⟨d, hd, rfl⟩ := hx
  have hlt := (genJobs_deps_before p hac).1 pos j hj d hd
  have hpos : pos < (genJobs p).length := (List.getElem?_eq_some_iff.mp hj).1
  have hdl : d < (genJobs p).length := by omega
  exact ⟨d, hlt, (genJobs p)[d], List.getElem?_eq_getElem hdl,
    by simp [List.getD_eq_getElem?_getD, List.getElem?_eq_getElem hdl]⟩

/-! ### identities name functions -/

theorem nodup_map_inj {α β : Type} (f : α → β) : ∀ (l : List α), (l.map f).Nodup →
    ∀ x ∈ l, ∀ y ∈ l, f x = f y → x = y := by
  intro l
  induction l with
  | nil => intro _ x hx; simp at hx
  | cons a l ih =>
    intro hnd x hx y hy hxy
    simp only [List.map_cons, List.nodup_cons, List.mem_map, not_exists, not_and] at hnd
    simp only [List.mem_cons] at hx hy
    rcases hx with rfl | hx <;> rcases hy with rfl | hy
    · rfl
    · exact absurd hxy.symm (hnd.1 y hy)
    · exact absurd hxy (hnd.1 x hx)
    · exact ih hnd.2 x hx y hy hxy

/-- With distinct task ids, the identity `(isPred, k)` determines the function of the flow: the
    `t<k>` / `p<k>` names of the `GD` line are unambiguous. -/
theorem jid_inj (p : Prog) (hk : (p.tasks.map (·.k)).Nodup) (f g : Fn) (hf : f ∈ funcs p) (hg : g ∈ funcs p)
    (h : jid f = jid g) : f = g := by
  simp only [funcs, List.mem_flatMap] at hf hg
  obtain ⟨t, ht, hft⟩ := hf
  obtain ⟨u, hu, hgu⟩ := hg
  have hfk : f.k = t.k ∧ (f.isPred = false → f = t.fn) ∧ (f.isPred = true → f = t.predFn) := by
    by_cases hp : t.pred = true
    · simp only [hp, if_true, List.mem_cons, List.not_mem_nil, or_false] at hft
      rcases hft with rfl | rfl <;> simp [Task.fn, Task.predFn]
    · have hp' : t.pred = false := by simpa using hp
      simp only [hp', Bool.false_eq_true, if_false, List.mem_singleton] at hft
      subst hft; simp [Task.fn]
  have hgk : g.k = u.k ∧ (g.isPred = false → g = u.fn) ∧ (g.isPred = true → g = u.predFn) := by
    by_cases hp : u.pred = true
    · simp only [hp, if_true, List.mem_cons, List.not_mem_nil, or_false] at hgu
      rcases hgu with rfl | rfl <;> simp [Task.fn, Task.predFn]
    · have hp' : u.pred = false := by simpa using hp
      simp only [hp', Bool.false_eq_true, if_false, List.mem_singleton] at hgu
      subst hgu; simp [Task.fn]
  simp only [jid, Prod.mk.injEq] at h
  have htu : t = u := nodup_map_inj (·.k) p.tasks hk t ht u hu (by rw [← hfk.1, ← hgk.1]; exact h.2)
  subst htu
  cases hb : f.isPred with
  | false => rw [hfk.2.1 hb, hgk.2.1 (by rw [← h.1]; exact hb)]
  | true => rw [hfk.2.2 hb, hgk.2.2 (by rw [← h.1]; exact hb)]

end Gen
