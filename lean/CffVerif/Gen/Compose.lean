/-
  Composition of S (the scheduler) and G (the generated job bodies), item 4: whatever schedule the
  scheduler follows, the bodies it runs compute what they compute in the sequential reference
  execution `ideal` ("schedule independence"); when `Wait` returns nil in fail-fast mode after all
  jobs were submitted, every job ran exactly once, exactly as in `ideal`, and the final store is
  `ideal`'s.
-/
import CffVerif.Gen.Confluence
import CffVerif.Gen.IdealInfo
import CffVerif.Gen.EndOrder

namespace Gen

open Sched (Ev Outcome)

/-! ### the scheduler configuration of a generated flow -/

theorem depsOf_cfg {p : Prog} {c : Sched.Cfg} (hdeps : c.deps = (genJobs p).map (·.deps)) {j : Nat}
    (hj : j < (genJobs p).length) : c.depsOf j = (jobAt p j).deps := by
  simp [Sched.Cfg.depsOf, hdeps, jobAt, List.getD_eq_getElem?_getD, List.getElem?_map,
    List.getElem?_eq_getElem hj]

/-- The configuration built from the generated job list is well-formed. -/
theorem wf_cfgOf (p : Prog) (hac : Acyclic p) (c : Sched.Cfg) (hdeps : c.deps = (genJobs p).map (·.deps))
    (hN : 1 ≤ c.N) : Sched.WfCfg c := by
  refine ⟨hN, ?_⟩
  intro j d hd
  by_cases hj : j < (genJobs p).length
  · rw [depsOf_cfg hdeps hj] at hd
    exact (genJobs_deps_before p hac).1 j _ (jobAt_eq hj) d hd
  · simp [Sched.Cfg.depsOf, hdeps, List.getD_eq_getElem?_getD, List.getElem?_map,
      List.getElem?_eq_none (Nat.le_of_not_lt hj)] at hd

/-! ### replaying a scheduler log on the store -/

/-- The consistency of a logged outcome with what the body does: `ok` iff the body returns nil,
    and never Goexit (generated bodies do not call `runtime.Goexit`). -/
def outcomeOK (o : Outcome) (r : BodyRes) : Bool :=
  (decide (o = Outcome.ok) == r.ret.isNone) && decide (o ≠ Outcome.goexit)

theorem outcomeOK_iff {o : Outcome} {r : BodyRes} :
    outcomeOK o r = true ↔ (o = Outcome.ok ↔ r.ret = none) ∧ o ≠ Outcome.goexit := by
  unfold outcomeOK
  cases hr : r.ret <;> cases o <;> simp

def replayStep (p : Prog) (sc : Scenario) (acc : Store × Bool) : Ev → Store × Bool
  | .ended j o =>
    ((runJob p sc (jobAt p j) acc.1).store, acc.2 && outcomeOK o (runJob p sc (jobAt p j) acc.1))
  | _ => acc

/-- Fold over the log: at each `ended j o` run the body of job `j` on the current store and check
    the logged outcome against it; all other events are ignored. -/
def replay (p : Prog) (sc : Scenario) (log : List Ev) : Store × Bool :=
  log.foldl (replayStep p sc) (start p, true)

def endedJob : Ev → Option Nat
  | .ended j _ => some j
  | _ => none

/-- The positions of the jobs whose bodies ended, in the order of their `ended` events. -/
def endedOrder (log : List Ev) : List Nat := log.filterMap endedJob

/-- What each replayed body did: (position, `BodyRes`) in the order of the `ended` events. -/
def replayTrace (p : Prog) (sc : Scenario) (log : List Ev) : List (Nat × BodyRes) :=
  (execOrder p sc (endedOrder log)).2

theorem endedJob_some {e : Ev} {j : Nat} (h : endedJob e = some j) : ∃ o, e = Ev.ended j o := by
  cases e <;> simp [endedJob] at h
  subst h; exact ⟨_, rfl⟩

theorem replayStep_other {p : Prog} {sc : Scenario} {acc : Store × Bool} {e : Ev} (h : endedJob e = none) :
    replayStep p sc acc e = acc := by
  cases e <;> simp [endedJob] at h <;> rfl

theorem replay_snoc (p : Prog) (sc : Scenario) (l : List Ev) (e : Ev) :
    replay p sc (l ++ [e]) = replayStep p sc (replay p sc l) e := by
  simp [replay, List.foldl_append]

theorem endedOrder_snoc_ended (l : List Ev) (j : Nat) (o : Outcome) :
    endedOrder (l ++ [Ev.ended j o]) = endedOrder l ++ [j] := by
  simp [endedOrder, List.filterMap_append, endedJob]

theorem endedOrder_snoc_other (l : List Ev) {e : Ev} (h : endedJob e = none) :
    endedOrder (l ++ [e]) = endedOrder l := by
  simp [endedOrder, List.filterMap_append, h]

theorem mem_endedOrder {l : List Ev} {j : Nat} : j ∈ endedOrder l ↔ ∃ o, Ev.ended j o ∈ l := by
  simp only [endedOrder, List.mem_filterMap]
  constructor
  · rintro ⟨e, he, h⟩
    obtain ⟨o, rfl⟩ := endedJob_some h
    exact ⟨o, he⟩
  · rintro ⟨o, h⟩
    exact ⟨_, h, rfl⟩

/-- The replayed store is the store of executing the bodies in the order of the `ended` events. -/
theorem replay_store (p : Prog) (sc : Scenario) : ∀ l, (replay p sc l).1 = (execOrder p sc (endedOrder l)).1 := by
  apply snoc_induction
  · rfl
  · intro l e ih
    rw [replay_snoc]
    cases h : endedJob e with
    | none => rw [replayStep_other h, endedOrder_snoc_other l h, ih]
    | some j =>
      obtain ⟨o, rfl⟩ := endedJob_some h
      rw [endedOrder_snoc_ended, execOrder_snoc]
      simp only [replayStep, execStep, ih]

theorem replay_flag_snoc {p : Prog} {sc : Scenario} {l : List Ev} {e : Ev}
    (h : (replay p sc (l ++ [e])).2 = true) :
    (replay p sc l).2 = true ∧
    ∀ j o, e = Ev.ended j o → outcomeOK o (runJob p sc (jobAt p j) (replay p sc l).1) = true := by
  rw [replay_snoc] at h
  cases he : endedJob e with
  | none =>
    rw [replayStep_other he] at h
    refine ⟨h, ?_⟩
    intro j o e'; subst e'; simp [endedJob] at he
  | some j =>
    obtain ⟨o, rfl⟩ := endedJob_some he
    simp only [replayStep, Bool.and_eq_true] at h
    refine ⟨h.1, ?_⟩
    intro j' o' e'
    cases e'
    exact h.2

/-! ### from a log to a valid order -/

/-- What we need from the log: each job ends at most once; an `ended j` event names an existing job
    and comes after `ended d ok` events for all of `j`'s dependencies. -/
structure GoodLog (p : Prog) (log : List Ev) : Prop where
  once : ∀ j, log.countP (Ev.isEndedOf j) ≤ 1
  deps : ∀ (i j : Nat) (o : Outcome), log[i]? = some (Ev.ended j o) →
    j < (genJobs p).length ∧
    ∀ d ∈ (jobAt p j).deps, ∃ k, k < i ∧ log[k]? = some (Ev.ended d Outcome.ok)

theorem goodLog_prefix {p : Prog} {l : List Ev} {e : Ev} (h : GoodLog p (l ++ [e])) : GoodLog p l := by
  refine ⟨?_, ?_⟩
  · intro j
    have := h.once j
    rw [List.countP_append] at this
    omega
  · intro i j o hi
    have hil : i < l.length := (List.getElem?_eq_some_iff.mp hi).1
    obtain ⟨h1, h2⟩ := h.deps i j o (by rw [List.getElem?_append_left hil]; exact hi)
    refine ⟨h1, ?_⟩
    intro d hd
    obtain ⟨k, hk, hk2⟩ := h2 d hd
    rw [List.getElem?_append_left (by omega)] at hk2
    exact ⟨k, hk, hk2⟩

/-- A good log whose replay is consistent yields a valid execution order, and every `ended` event
    has its trace entry, with the logged outcome matching what the body returned. -/
theorem valid_of_goodLog (p : Prog) (sc : Scenario) : ∀ log, GoodLog p log → (replay p sc log).2 = true →
    ValidOrder p sc (endedOrder log) ∧
    ∀ j o, Ev.ended j o ∈ log →
      ∃ r, (j, r) ∈ replayTrace p sc log ∧ (o = Outcome.ok ↔ r.ret = none) ∧ o ≠ Outcome.goexit := by
  apply snoc_induction
  · intro _ _
    exact ⟨validOrder_nil p sc, by simp⟩
  · intro l e ih hg hc
    obtain ⟨hcl, hce⟩ := replay_flag_snoc hc
    obtain ⟨ihv, ihe⟩ := ih (goodLog_prefix hg) hcl
    cases he : endedJob e with
    | none =>
      have ho := endedOrder_snoc_other l he
      unfold replayTrace
      rw [ho]
      refine ⟨ihv, ?_⟩
      intro j o hm
      rcases List.mem_append.mp hm with hm | hm
      · exact ihe j o hm
      · simp only [List.mem_singleton] at hm; subst hm; simp [endedJob] at he
    | some j =>
      obtain ⟨o, rfl⟩ := endedJob_some he
      have ho := endedOrder_snoc_ended l j o
      have hjnot : j ∉ endedOrder l := by
        intro hm
        obtain ⟨o', ho'⟩ := mem_endedOrder.mp hm
        have h1 : 0 < l.countP (Ev.isEndedOf j) :=
          List.countP_pos_iff.mpr ⟨_, ho', by simp [Sched.Ev.isEndedOf]⟩
        have h2 := hg.once j
        have h3 : [Ev.ended j o].countP (Ev.isEndedOf j) = 1 := by simp [Sched.Ev.isEndedOf]
        rw [List.countP_append, h3] at h2
        omega
      obtain ⟨hjl, hjd⟩ := hg.deps l.length j o (by simp)
      have hstep : StepOK p (execOrder p sc (endedOrder l)).2 j := by
        refine ⟨hjl, ?_⟩
        intro d hd
        obtain ⟨k, hk, hk2⟩ := hjd d hd
        rw [List.getElem?_append_left hk] at hk2
        obtain ⟨r, hr, hiff, _⟩ := ihe d Outcome.ok (List.mem_of_getElem? hk2)
        exact ⟨r, hr, hiff.mp rfl⟩
      have htr : replayTrace p sc (l ++ [Ev.ended j o]) = replayTrace p sc l ++
          [(j, runJob p sc (jobAt p j) (replay p sc l).1)] := by
        unfold replayTrace
        rw [ho, execOrder_snoc, replay_store]
        rfl
      refine ⟨by rw [ho]; exact validOrder_snoc.mpr ⟨ihv, hjnot, hstep⟩, ?_⟩
      intro j' o' hm
      rw [htr]
      rcases List.mem_append.mp hm with hm | hm
      · obtain ⟨r, hr, h2⟩ := ihe j' o' hm
        exact ⟨r, List.mem_append_left _ hr, h2⟩
      · simp only [List.mem_singleton] at hm
        cases hm
        have := outcomeOK_iff.mp (hce j o rfl)
        exact ⟨_, List.mem_append_right _ (by simp), this.1, this.2⟩

/-! ### the logs of the scheduler are good -/

theorem goodLog_of_run (p : Prog) (hac : Acyclic p) (c : Sched.Cfg) (hdeps : c.deps = (genJobs p).map (·.deps))
    (hw : c.wiring = Sched.Wiring.std) (hN : 1 ≤ c.N) (acts : List Sched.Act) (s : Sched.State)
    (hr : Sched.run c (Sched.init c) acts = some s) : GoodLog p s.log := by
  have hwf := wf_cfgOf p hac c hdeps hN
  have hlen : c.deps.length = (genJobs p).length := by rw [hdeps]; simp
  refine ⟨?_, ?_⟩
  · intro j
    exact (Sched.C08_one_result_per_job c hw hwf acts s hr j).2.2.1
  · intro i j o hi
    obtain ⟨_, hjl, k, hk, hk2⟩ := Sched.ended_after_started c hw hwf acts s hr i j o hi
    have hjn : j < (genJobs p).length := by omega
    refine ⟨hjn, ?_⟩
    intro d hd
    rw [← depsOf_cfg hdeps hjn] at hd
    obtain ⟨k', hk', hk2'⟩ := Sched.C01_deps_before_start c hw hwf acts s hr k j hk2 d hd
    exact ⟨k', by omega, hk2'⟩

/-! ### schedule independence -/

/-- **Schedule independence.**  For an accepted flow, any standard-wiring scheduler configuration
    built from its job list, and any run of the scheduler (any interleaving, any worker count,
    either error mode, cancellation …) whose logged outcomes are consistent with the generated
    bodies (`ok` exactly when the body returns nil, never Goexit):

    * every body that ended in this run did exactly what it does in the reference execution
      `ideal p sc` (same returned error, same call, same arguments, same events), and `ideal`
      runs that job, too;
    * the store after the run agrees with `ideal`'s final store on everything those bodies wrote;
    * everything else still has its initial value. -/
theorem schedule_independent (p : Prog) (sc : Scenario) (hacc : validateFlow p = []) (hs : SmallTypes p)
    (hd : DistinctIds p) (c : Sched.Cfg) (hdeps : c.deps = (genJobs p).map (·.deps))
    (hw : c.wiring = Sched.Wiring.std) (hN : 1 ≤ c.N) (acts : List Sched.Act) (s : Sched.State)
    (hr : Sched.run c (Sched.init c) acts = some s) (hcons : (replay p sc s.log).2 = true) :
    (∀ j o, Ev.ended j o ∈ s.log →
      ∃ job r ri, (genJobs p)[j]? = some job ∧ (j, r) ∈ replayTrace p sc s.log ∧
        idealRes p sc j = some ri ∧ SameRes r ri ∧ (o = Outcome.ok ↔ ri.ret = none) ∧ o ≠ Outcome.goexit) ∧
    (∀ j o, Ev.ended j o ∈ s.log → ∀ x ∈ writesAt p j,
      (replay p sc s.log).1.get x = (ideal p sc).store.get x) ∧
    (∀ x, (∀ j o, Ev.ended j o ∈ s.log → x ∉ writesAt p j) →
      (replay p sc s.log).1.get x = (start p).get x) := by
  have hg := goodLog_of_run p (accept_acyclic p hacc) c hdeps hw hN acts s hr
  obtain ⟨hv, he⟩ := valid_of_goodLog p sc s.log hg hcons
  obtain ⟨c1, c2, c3⟩ := confluence p sc hacc hs hd _ hv
  rw [replay_store]
  refine ⟨?_, ?_, ?_⟩
  · intro j o hm
    obtain ⟨r, hr', hiff, hne⟩ := he j o hm
    obtain ⟨ri, hri, hsame⟩ := c1 j r hr'
    have hjl : j < (genJobs p).length := hv.2.1 j (mem_endedOrder.mpr ⟨o, hm⟩)
    exact ⟨jobAt p j, r, ri, jobAt_eq hjl, hr', hri, hsame, by rw [← hsame.1]; exact hiff, hne⟩
  · intro j o hm x hx
    exact c2 j (mem_endedOrder.mpr ⟨o, hm⟩) x hx
  · intro x hx
    apply c3
    intro j hj
    obtain ⟨o, ho⟩ := mem_endedOrder.mp hj
    exact hx j o ho

/-- In the reference execution a variable that no job writes keeps its initial value. -/
theorem ideal_unwritten (p : Prog) (sc : Scenario) (x : Var)
    (h : ∀ k, k < (genJobs p).length → x ∉ writesAt p k) : (ideal p sc).store.get x = (start p).get x := by
  rw [(ideal_eq p sc).1, ← idealPre_all,
    idealPre_frame p sc x (m := 0) _ (Nat.zero_le _) (Nat.le_refl _) (fun k _ hk => h k hk), idealPre_zero]

/-- **The flow returned nil.**  Fail-fast mode, all jobs submitted, `Wait` returned nil: the store
    after the run *is* the reference store (so every Results target holds the reference value), and
    every job ended exactly once, having been started exactly once, with the same call, arguments,
    events and nil result as in the reference execution. -/
theorem flow_refines_ideal (p : Prog) (sc : Scenario) (hacc : validateFlow p = []) (hs : SmallTypes p)
    (hd : DistinctIds p) (c : Sched.Cfg) (hdeps : c.deps = (genJobs p).map (·.deps))
    (hw : c.wiring = Sched.Wiring.std) (hN : 1 ≤ c.N) (acts : List Sched.Act) (s : Sched.State)
    (hr : Sched.run c (Sched.init c) acts = some s) (hcons : (replay p sc s.log).2 = true)
    (hcoe : c.coe = false) (hnil : Ev.waitReturned [] ∈ s.log) (hall : s.caller.sent = (genJobs p).length) :
    (replay p sc s.log).1 = (ideal p sc).store ∧
    (∀ τ, (replay p sc s.log).1.val τ = (ideal p sc).store.val τ) ∧
    (∀ j, j < (genJobs p).length →
      s.log.countP (Ev.isEndedOf j) = 1 ∧ s.log.count (Ev.started j) = 1 ∧
      ∃ r ri, (j, r) ∈ replayTrace p sc s.log ∧ idealRes p sc j = some ri ∧ SameRes r ri ∧ ri.ret = none) := by
  have hwf := wf_cfgOf p (accept_acyclic p hacc) c hdeps hN
  obtain ⟨c1, c2, c3⟩ := schedule_independent p sc hacc hs hd c hdeps hw hN acts s hr hcons
  have hended : ∀ j, j < (genJobs p).length → Ev.ended j Outcome.ok ∈ s.log ∧ s.log.count (Ev.started j) = 1 :=
    fun j hj => Sched.C07_nil_complete c hw hwf hcoe acts s hr hnil j (by omega)
  have hstore : (replay p sc s.log).1 = (ideal p sc).store := by
    apply Store.ext_get
    intro x
    by_cases hx : ∃ j, j < (genJobs p).length ∧ x ∈ writesAt p j
    · obtain ⟨j, hj, hxj⟩ := hx
      exact c2 j _ (hended j hj).1 x hxj
    · have hno : ∀ k, k < (genJobs p).length → x ∉ writesAt p k := fun k hk hxk => hx ⟨k, hk, hxk⟩
      rw [ideal_unwritten p sc x hno]
      apply c3
      intro j o hm
      obtain ⟨_, _, _, hjob, _⟩ := c1 j o hm
      exact hno j (List.getElem?_eq_some_iff.mp hjob).1
  refine ⟨hstore, fun τ => by rw [hstore], ?_⟩
  intro j hj
  obtain ⟨hok, hst⟩ := hended j hj
  obtain ⟨_, r, ri, _, hr', hri, hsame, hiff, _⟩ := c1 j _ hok
  have h1 := (Sched.C08_one_result_per_job c hw hwf acts s hr j).2.2.1
  have h2 : 0 < s.log.countP (Ev.isEndedOf j) :=
    List.countP_pos_iff.mpr ⟨_, hok, by simp [Sched.Ev.isEndedOf]⟩
  exact ⟨by omega, hst, r, ri, hr', hri, hsame, hiff.mp rfl⟩

/-! ### in terms of `Ideal.info` -/

theorem InfoOK.congr {I : Ideal} {j : Job} {r ri : BodyRes} (hs : SameRes r ri) (h : InfoOK I j ri) :
    InfoOK I j r := by
  unfold InfoOK at h ⊢
  rw [hs.1, hs.2.1, hs.2.2.1]
  exact h

/-- Schedule independence, stated on the per-task summary of `ideal`: for every body that ended in
    the run, `(ideal p sc).info` says that the job ran, and called the user function (or the
    predicate) with exactly the arguments — and returned exactly the error — of this run. -/
theorem schedule_independent_info (p : Prog) (sc : Scenario) (hacc : validateFlow p = []) (hs : SmallTypes p)
    (hd : DistinctIds p) (c : Sched.Cfg) (hdeps : c.deps = (genJobs p).map (·.deps))
    (hw : c.wiring = Sched.Wiring.std) (hN : 1 ≤ c.N) (acts : List Sched.Act) (s : Sched.State)
    (hr : Sched.run c (Sched.init c) acts = some s) (hcons : (replay p sc s.log).2 = true) :
    ∀ j o, Ev.ended j o ∈ s.log →
      ∃ r, (j, r) ∈ replayTrace p sc s.log ∧ InfoOK (ideal p sc) (jobAt p j) r := by
  intro j o hm
  obtain ⟨job, r, ri, hjob, hr', hri, hsame, _⟩ :=
    (schedule_independent p sc hacc hs hd c hdeps hw hN acts s hr hcons).1 j o hm
  have hj : j < (genJobs p).length := (List.getElem?_eq_some_iff.mp hjob).1
  exact ⟨r, hr', ((ideal_info p sc hacc hs hd hj).1 ri hri).congr hsame⟩

/-- The flow returned nil, stated on the per-task summary of `ideal`: every task ran exactly as in
    the reference execution. -/
theorem flow_refines_ideal_info (p : Prog) (sc : Scenario) (hacc : validateFlow p = []) (hs : SmallTypes p)
    (hd : DistinctIds p) (c : Sched.Cfg) (hdeps : c.deps = (genJobs p).map (·.deps))
    (hw : c.wiring = Sched.Wiring.std) (hN : 1 ≤ c.N) (acts : List Sched.Act) (s : Sched.State)
    (hr : Sched.run c (Sched.init c) acts = some s) (hcons : (replay p sc s.log).2 = true)
    (hcoe : c.coe = false) (hnil : Ev.waitReturned [] ∈ s.log) (hall : s.caller.sent = (genJobs p).length) :
    ∀ j, j < (genJobs p).length →
      ∃ r, (j, r) ∈ replayTrace p sc s.log ∧ r.ret = none ∧ InfoOK (ideal p sc) (jobAt p j) r := by
  intro j hj
  obtain ⟨_, _, r, ri, hr', hri, hsame, hnone⟩ :=
    (flow_refines_ideal p sc hacc hs hd c hdeps hw hN acts s hr hcons hcoe hnil hall).2.2 j hj
  exact ⟨r, hr', hsame.1.trans hnone, ((ideal_info p sc hacc hs hd hj).1 ri hri).congr hsame⟩

end Gen
