/-
  C02 — the operational reference execution (`ideal`) of an accepted flow in which nothing fails
  computes the declarative denotation (`valueOf`):

    * `NoFailure p sc`      — no task function errs or panics, no predicate panics;
    * `ideal_eq_valueOf`    — the final store of `ideal p sc` holds `valueOf p sc fuel τ` in every
                              type variable `τ`, for every `fuel ≥ p.tasks.length + 1`;
    * `ideal_calls`         — every task whose predicate is true (or absent) is called by exactly
                              one job, once, with the arguments `t.ins.map (valueOf p sc fuel)`;
                              a task whose predicate is false is not called;
    * `idealAgreesWithDenote_true` — the driver's executable cross-check is a theorem.

  The development: (1) the bodies under `NoFailure`; (2) every job of `ideal` runs and returns nil;
  (3) the final store satisfies the dataflow equations; (4) the equations determine `valueOf`.
-/
import CffVerif.Gen.Compose
import CffVerif.Gen.Denote
import CffVerif.Gen.IdealInfo

namespace Gen

/-- Nothing fails: every task function of `p` returns normally in scenario `sc`, and no predicate
    panics (a predicate may return false). -/
def NoFailure (p : Prog) (sc : Scenario) : Prop :=
  ∀ t ∈ p.tasks, sc.fnOut t.k = .ok ∧ (t.pred = true → sc.predOut t.k ≠ .panic)

instance (p : Prog) (sc : Scenario) : Decidable (NoFailure p sc) := by
  unfold NoFailure; infer_instance

/-- The driver's `plain` test on a scenario implies `NoFailure` for every program. -/
theorem noFailure_of_plain (p : Prog) (sc : Scenario)
    (hfn : sc.fn.all (fun x => x.2 == .ok) = true) (hpred : sc.pred.all (fun x => x.2 != .panic) = true) :
    NoFailure p sc := by
  have lookup_mem : ∀ {β : Type} (l : List (Nat × β)) (k : Nat) (v : β), l.lookup k = some v → (k, v) ∈ l := by
    intro β l k v
    induction l with
    | nil => intro h; simp at h
    | cons a l ih =>
      obtain ⟨a1, a2⟩ := a
      intro h
      rw [List.lookup_cons] at h
      by_cases hk : k = a1
      · subst hk; simp at h; subst h; simp
      · have : (k == a1) = false := by simpa using hk
        rw [this] at h
        exact List.mem_cons_of_mem _ (ih h)
  intro t _
  refine ⟨?_, fun _ => ?_⟩
  · unfold Scenario.fnOut
    cases h : sc.fn.lookup t.k with
    | none => rfl
    | some v =>
      have := List.all_eq_true.mp hfn _ (lookup_mem _ _ _ h)
      simpa using this
  · unfold Scenario.predOut
    cases h : sc.pred.lookup t.k with
    | none => simp
    | some v =>
      have := List.all_eq_true.mp hpred _ (lookup_mem _ _ _ h)
      simpa using this

/-! ### 1. the bodies when nothing fails -/

theorem predOut_cases {sc : Scenario} {k : Nat} (h : sc.predOut k ≠ .panic) :
    (sc.predOut k = .t) ∨ (sc.predOut k = .f) := by
  cases hp : sc.predOut k <;> simp_all

theorem runPred_nf (t : Task) (sc : Scenario) (s : Store) (h : sc.predOut t.k ≠ .panic) :
    (runPred t sc s).ret = none ∧ (runPred t sc s).store.pPanic = s.pPanic ∧
    (runPred t sc s).store.p t.k = (sc.predOut t.k == .t) ∧
    (runPred t sc s).invoked = true ∧ (runPred t sc s).args = t.pins.map s.val := by
  unfold runPred
  rcases predOut_cases h with hp | hp <;> simp [hp]

/-- Assigning the outputs: each output type gets the value computed for its position. -/
theorem setVals_val_idx (ts : List Ty) : ∀ (s : Store) (f : Nat → Nat) (τ : Ty), ts.Nodup → τ ∈ ts →
    (s.setVals ts ((List.range ts.length).map f)).val τ = f (ts.idxOf τ) := by
  induction ts with
  | nil => intro s f τ _ h; simp at h
  | cons a ts ih =>
    intro s f τ hnd hm
    rw [List.nodup_cons] at hnd
    have hr : (List.range (a :: ts).length).map f = f 0 :: (List.range ts.length).map (fun i => f (i + 1)) := by
      rw [List.length_cons, List.range_succ_eq_map, List.map_cons, List.map_map]; rfl
    rw [hr]
    have hstep : s.setVals (a :: ts) (f 0 :: (List.range ts.length).map (fun i => f (i + 1)))
        = (s.setVal a (f 0)).setVals ts ((List.range ts.length).map (fun i => f (i + 1))) := rfl
    rw [hstep]
    by_cases hτ : τ = a
    · subst hτ
      rw [setVals_val_not_mem _ _ _ _ hnd.1]
      simp [Store.setVal]
    · have hm' : τ ∈ ts := by
        rcases List.mem_cons.mp hm with h | h
        · exact absurd h hτ
        · exact h
      rw [ih _ _ _ hnd.2 hm']
      have : (a :: ts).idxOf τ = ts.idxOf τ + 1 := by
        rw [List.idxOf_cons]
        have : (a == τ) = false := by simpa using fun e : a = τ => hτ e.symm
        rw [this]; rfl
      rw [this]

theorem runTask_nf (t : Task) (sc : Scenario) (s : Store) (hok : sc.fnOut t.k = .ok)
    (hpp : s.pPanic t.k = false) :
    (runTask .std t sc s).ret = none ∧ (runTask .std t sc s).store.pPanic = s.pPanic ∧
    ((t.pred && !s.p t.k) = true →
      (runTask .std t sc s).store.val = s.val ∧ (runTask .std t sc s).invoked = false) ∧
    ((t.pred && !s.p t.k) = false →
      (runTask .std t sc s).invoked = true ∧ (runTask .std t sc s).args = t.ins.map s.val ∧
      ∀ τ ∈ t.outs, t.outs.Nodup →
        (runTask .std t sc s).store.val τ = taskOut t.k (t.outs.idxOf τ) (t.ins.map s.val)) := by
  have hstore : (t.pred && !s.p t.k) = false → (runTask .std t sc s).store =
      ({ s with ran := fun x => if x == t.k then true else s.ran x } : Store).setVals t.outs
        ((List.range t.outs.length).map fun o => taskOut t.k o (t.ins.map s.val)) := by
    intro hg
    unfold runTask BodyFlags.std
    simp [hpp, hok, hg]
  refine ⟨?_, ?_, ?_, ?_⟩
  · unfold runTask BodyFlags.std
    cases hg : (t.pred && !s.p t.k) with
    | true => simp [hpp]
    | false => simp [hpp, hok]
  · cases hg : (t.pred && !s.p t.k) with
    | true => unfold runTask BodyFlags.std; simp [hpp, hg]
    | false => rw [hstore hg, setVals_pPanic]
  · intro hg
    unfold runTask BodyFlags.std
    simp [hpp, hg]
  · intro hg
    refine ⟨?_, ?_, ?_⟩
    · unfold runTask BodyFlags.std; simp [hpp, hok, hg]
    · unfold runTask BodyFlags.std; simp [hpp, hok, hg]
    · intro τ hτ hnd
      rw [hstore hg]
      exact setVals_val_idx t.outs _ (fun o => taskOut t.k o (t.ins.map s.val)) τ hnd hτ

/-! ### 2. jobs and tasks -/

/-- Every job of an acyclic flow is the task job or the predicate job of a listed task. -/
theorem job_task {p : Prog} (hac : Acyclic p) {j : Nat} (hj : j < (genJobs p).length) :
    ∃ t ∈ p.tasks, (jobAt p j).fn = t.fn ∨ (t.pred = true ∧ (jobAt p j).fn = t.predFn) := by
  obtain ⟨i, hti, hfi, _⟩ := jobAt_spec hj
  have hil : i < (funcs p).length := (toposort_facts p hac).2.2 i (List.mem_of_getElem? hti)
  rw [hfi]
  exact mem_funcs.mp (getD_mem hil)

/-- Every function of an acyclic flow has a job. -/
theorem fn_job {p : Prog} (hac : Acyclic p) {f : Fn} (hf : f ∈ funcs p) :
    ∃ j, j < (genJobs p).length ∧ (jobAt p j).fn = f := by
  obtain ⟨i, hi, rfl⟩ := exists_getD_of_mem hf
  obtain ⟨rank, hrank, hbound⟩ := hac
  obtain ⟨_, _, hall⟩ := toposort_sound (funcs p) rank hrank hbound
  obtain ⟨j, hj⟩ := List.mem_iff_getElem?.mp (hall i hi)
  have hjl : j < (genJobs p).length := by
    have := (List.getElem?_eq_some_iff.mp hj).1
    simpa [genJobs] using this
  refine ⟨j, hjl, ?_⟩
  obtain ⟨i', hi', hf', _⟩ := jobAt_spec hjl
  rw [hj] at hi'
  cases hi'
  exact hf'

theorem runJob_task {p : Prog} (hd : DistinctIds p) {t : Task} (ht : t ∈ p.tasks) (sc : Scenario)
    {jb : Job} (h : jb.fn = t.fn) (s : Store) : runJob p sc jb s = runTask .std t sc s := by
  unfold runJob
  rw [h]
  simp only [Task.fn, taskOf_eq hd ht]
  rfl

theorem runJob_pred {p : Prog} (hd : DistinctIds p) {t : Task} (ht : t ∈ p.tasks) (sc : Scenario)
    {jb : Job} (h : jb.fn = t.predFn) (s : Store) : runJob p sc jb s = runPred t sc s := by
  unfold runJob
  rw [h]
  simp only [Task.predFn, taskOf_eq hd ht]
  rfl

theorem writes_task {p : Prog} (hd : DistinctIds p) {t : Task} (ht : t ∈ p.tasks) {j : Nat}
    (h : (jobAt p j).fn = t.fn) : writesAt p j = taskWrites t ∧ readsAt p j = taskReads t := by
  simp only [writesAt, readsAt, Job.writes_eq, Job.reads_eq, h]
  exact fn_writes_task hd ht

theorem writes_pred {p : Prog} (hd : DistinctIds p) {t : Task} (ht : t ∈ p.tasks) {j : Nat}
    (h : (jobAt p j).fn = t.predFn) : writesAt p j = predWrites t ∧ readsAt p j = predReads t := by
  simp only [writesAt, readsAt, Job.writes_eq, Job.reads_eq, h]
  exact fn_writes_pred hd ht

/-- Under `NoFailure` a job body that starts with no recorded predicate panic returns nil and
    records none. -/
theorem runJob_nf {p : Prog} {sc : Scenario} (hac : Acyclic p) (hd : DistinctIds p) (hnf : NoFailure p sc)
    {j : Nat} (hj : j < (genJobs p).length) (s : Store) (hpp : ∀ k, s.pPanic k = false) :
    (runJob p sc (jobAt p j) s).ret = none ∧ ∀ k, (runJob p sc (jobAt p j) s).store.pPanic k = false := by
  obtain ⟨t, ht, h | ⟨hp, h⟩⟩ := job_task hac hj
  · rw [runJob_task hd ht sc h]
    obtain ⟨h1, h2, _⟩ := runTask_nf t sc s (hnf t ht).1 (hpp t.k)
    exact ⟨h1, fun k => by rw [h2]; exact hpp k⟩
  · rw [runJob_pred hd ht sc h]
    obtain ⟨h1, h2, _⟩ := runPred_nf t sc s ((hnf t ht).2 hp)
    exact ⟨h1, fun k => by rw [h2]; exact hpp k⟩

/-! ### 3. every job of the reference execution runs and returns nil -/

theorem ideal_all_run {p : Prog} {sc : Scenario} (D : Disc p) (hac : Acyclic p) (hd : DistinctIds p)
    (hnf : NoFailure p sc) : ∀ m, m ≤ (genJobs p).length →
    (∀ i, i < m → ∃ r, idealRes p sc i = some r ∧ r.ret = none) ∧
    (∀ k, (idealPre p sc m).1.pPanic k = false) := by
  intro m
  induction m with
  | zero =>
    intro _
    refine ⟨fun i h => by omega, fun k => ?_⟩
    rw [idealPre_zero]; rfl
  | succ m ih =>
    intro hm
    have hml : m < (genJobs p).length := by omega
    obtain ⟨ih1, ih2⟩ := ih (by omega)
    have hready : (jobAt p m).deps.all (okAt (idealPre p sc m).2) = true := by
      rw [List.all_eq_true]
      intro d hdm
      have hdlt : d < m := D.depsBefore m hml d hdm
      obtain ⟨r, hr, hret⟩ := ih1 d hdlt
      unfold okAt
      rw [idealRes_eq p sc hdlt (by omega), hr]
      simp [okOpt, hret]
    obtain ⟨hres, hstore⟩ := (ideal_step_spec p sc hml).1 hready
    obtain ⟨n1, n2⟩ := runJob_nf hac hd hnf hml (idealPre p sc m).1 ih2
    refine ⟨?_, ?_⟩
    · intro i hi
      by_cases him : i = m
      · subst him; exact ⟨_, hres, n1⟩
      · exact ih1 i (by omega)
    · intro k; rw [hstore]; exact n2 k

/-- What step `j` of the reference execution does when nothing fails. -/
theorem ideal_step_nf {p : Prog} {sc : Scenario} (D : Disc p) (hac : Acyclic p) (hd : DistinctIds p)
    (hnf : NoFailure p sc) {j : Nat} (hj : j < (genJobs p).length) :
    idealRes p sc j = some (runJob p sc (jobAt p j) (idealPre p sc j).1) ∧
    (idealPre p sc (j + 1)).1 = (runJob p sc (jobAt p j) (idealPre p sc j).1).store ∧
    (∀ k, (idealPre p sc j).1.pPanic k = false) := by
  obtain ⟨a1, a2⟩ := ideal_all_run D hac hd hnf j (by omega)
  have hready : (jobAt p j).deps.all (okAt (idealPre p sc j).2) = true := by
    rw [List.all_eq_true]
    intro d hdm
    have hdlt : d < j := D.depsBefore j hj d hdm
    obtain ⟨r, hr, hret⟩ := a1 d hdlt
    unfold okAt
    rw [idealRes_eq p sc hdlt (by omega), hr]
    simp [okOpt, hret]
  obtain ⟨hres, hstore⟩ := (ideal_step_spec p sc hj).1 hready
  exact ⟨hres, hstore, a2⟩

/-! ### 4. the final store -/

/-- A variable written by job `i` has, at the end, the value it has right after job `i`. -/
theorem final_written {p : Prog} (D : Disc p) (sc : Scenario) {i : Nat} (hi : i < (genJobs p).length)
    {x : Var} (hx : x ∈ writesAt p i) :
    (idealTr p sc).1.get x = (idealPre p sc (i + 1)).1.get x := by
  rw [← idealPre_all]
  apply idealPre_frame p sc x _ (by omega) (Nat.le_refl _)
  intro k hk1 hk2 hxk
  have := D.writesDisjoint i k x hi hk2 hx hxk
  omega

/-- A variable written by job `j` still has its initial value when job `j` starts. -/
theorem pre_own_writes {p : Prog} (D : Disc p) (sc : Scenario) {j : Nat} (hj : j < (genJobs p).length)
    {x : Var} (hx : x ∈ writesAt p j) : (idealPre p sc j).1.get x = (start p).get x := by
  have := idealPre_frame p sc x (m := 0) j (Nat.zero_le _) (by omega)
    (fun k _ hk hxk => by have := D.writesDisjoint k j x (by omega) hj hxk hx; omega)
  rw [this, idealPre_zero]

/-- A variable read by job `j` has, when job `j` starts, the value it has at the end. -/
theorem reads_final {p : Prog} (D : Disc p) (sc : Scenario) {j : Nat} (hj : j < (genJobs p).length)
    {x : Var} (hx : x ∈ readsAt p j) : (idealPre p sc j).1.get x = (idealTr p sc).1.get x := by
  rw [← idealPre_all]
  symm
  apply idealPre_frame p sc x _ (by omega) (Nat.le_refl _)
  intro k hk1 hk2 hxk
  have hdep := D.readDep k j x hk2 hj hx hxk
  have := D.depsBefore j hj k hdep
  omega

theorem start_val_not_param (p : Prog) {τ : Ty} (h : τ ∉ p.params) : (start p).val τ = 0 := by
  have : p.params.idxOf? τ = none := by
    rw [List.idxOf?, List.findIdx?_eq_none_iff]
    intro x hx
    simp only [beq_eq_false_iff_ne, ne_eq]
    intro e; subst e; exact h hx
  simp [start, this]

/-- The outputs of a task of an accepted flow are pairwise different. -/
theorem outs_nodup {p : Prog} (hf : AcceptFacts p) {t : Task} (ht : t ∈ p.tasks) : t.outs.Nodup := by
  have := selfUnique_iff.mp hf.oneProvider.2 t.fn (mem_funcs.mpr ⟨t, ht, Or.inl rfl⟩)
  unfold Fn.provides at this
  exact (List.nodup_append.mp this).1

/-- The gate variable of a predicated task ends up holding the predicate's result. -/
theorem final_pred {p : Prog} {sc : Scenario} (D : Disc p) (hac : Acyclic p) (hd : DistinctIds p)
    (hnf : NoFailure p sc) {t : Task} (ht : t ∈ p.tasks) (hp : t.pred = true) :
    (idealTr p sc).1.p t.k = (sc.predOut t.k == .t) := by
  obtain ⟨j, hj, hfn⟩ := fn_job hac (mem_funcs.mpr ⟨t, ht, Or.inr ⟨hp, rfl⟩⟩)
  have hx : Var.p t.k ∈ writesAt p j := by rw [(writes_pred hd ht hfn).1]; simp [predWrites]
  have h := final_written D sc hj hx
  obtain ⟨_, hst, _⟩ := ideal_step_nf D hac hd hnf hj
  rw [hst, runJob_pred hd ht sc hfn] at h
  have h' := toNat_inj h
  rw [h']
  exact (runPred_nf t sc _ ((hnf t ht).2 hp)).2.2.1

/-- **The dataflow equations.**  What the task job of `t` does in the reference execution, in
    terms of the final store: gated off (predicate false) it is not called and its outputs stay
    zero; otherwise it is called on the final values of its inputs and its outputs hold the results. -/
theorem task_job_spec {p : Prog} {sc : Scenario} (D : Disc p) (hf : AcceptFacts p) (hac : Acyclic p)
    (hd : DistinctIds p) (hnf : NoFailure p sc) {t : Task} (ht : t ∈ p.tasks) {j : Nat}
    (hj : j < (genJobs p).length) (hfn : (jobAt p j).fn = t.fn) :
    ∃ r, idealRes p sc j = some r ∧ r.ret = none ∧
      ((t.pred && sc.predOut t.k == .f) = true →
        r.invoked = false ∧ ∀ τ ∈ t.outs, (idealTr p sc).1.val τ = 0) ∧
      ((t.pred && sc.predOut t.k == .f) = false →
        r.invoked = true ∧ r.args = t.ins.map (idealTr p sc).1.val ∧
        ∀ τ ∈ t.outs, (idealTr p sc).1.val τ =
          taskOut t.k (t.outs.idxOf τ) (t.ins.map (idealTr p sc).1.val)) := by
  obtain ⟨hres, hst, hpp⟩ := ideal_step_nf D hac hd hnf hj
  obtain ⟨hw, hr⟩ := writes_task hd ht hfn
  rw [runJob_task hd ht sc hfn] at hres hst
  obtain ⟨n1, _, n3, n4⟩ := runTask_nf t sc (idealPre p sc j).1 (hnf t ht).1 (hpp t.k)
  -- the gate
  have hgate : (t.pred && !(idealPre p sc j).1.p t.k) = (t.pred && sc.predOut t.k == .f) := by
    cases hp : t.pred with
    | false => rfl
    | true =>
      have hx : Var.p t.k ∈ readsAt p j := by rw [hr]; simp [taskReads, hp]
      have h1 : (idealPre p sc j).1.p t.k = (idealTr p sc).1.p t.k := toNat_inj (reads_final D sc hj hx)
      rw [h1, final_pred D hac hd hnf ht hp]
      rcases predOut_cases ((hnf t ht).2 hp) with h | h <;> simp [h]
  -- the arguments
  have hargs : t.ins.map (idealPre p sc j).1.val = t.ins.map (idealTr p sc).1.val := by
    apply List.map_congr_left
    intro τ hτ
    have hx : Var.val τ ∈ readsAt p j := by rw [hr]; simp [taskReads, hτ]
    exact reads_final D sc hj hx
  -- the outputs
  have hout : ∀ τ ∈ t.outs, (idealTr p sc).1.val τ = (runTask .std t sc (idealPre p sc j).1).store.val τ := by
    intro τ hτ
    have hx : Var.val τ ∈ writesAt p j := by rw [hw]; simp [taskWrites, hτ]
    have := final_written D sc hj hx
    rw [hst] at this
    exact this
  rw [hgate] at n3 n4
  refine ⟨_, hres, n1, ?_, ?_⟩
  · intro hg
    obtain ⟨m1, m2⟩ := n3 hg
    refine ⟨m2, ?_⟩
    intro τ hτ
    have hx : Var.val τ ∈ writesAt p j := by rw [hw]; simp [taskWrites, hτ]
    rw [hout τ hτ, m1]
    have h0 : (idealPre p sc j).1.val τ = (start p).val τ := pre_own_writes D sc hj hx
    rw [h0]
    exact start_val_not_param p (fun hm => D.paramsNotWritten j τ hj hm hx)
  · intro hg
    obtain ⟨m1, m2, m3⟩ := n4 hg
    refine ⟨m1, by rw [m2, hargs], ?_⟩
    intro τ hτ
    rw [hout τ hτ, m3 τ hτ (outs_nodup hf ht), hargs]

/-- A type that no task provides keeps its initial value. -/
theorem final_unprovided {p : Prog} (sc : Scenario) (hac : Acyclic p) (hd : DistinctIds p) {τ : Ty}
    (h : ∀ t ∈ p.tasks, τ ∉ t.outs) : (idealTr p sc).1.val τ = (start p).val τ := by
  have := ideal_unwritten p sc (Var.val τ) (by
    intro k hk hx
    obtain ⟨t, ht, hfn | ⟨_, hfn⟩⟩ := job_task hac hk
    · rw [(writes_task hd ht hfn).1] at hx
      simp only [taskWrites, List.mem_append, List.mem_map, List.mem_singleton] at hx
      rcases hx with ⟨τ', hτ', e⟩ | e
      · cases e; exact h t ht hτ'
      · cases e
    · rw [(writes_pred hd ht hfn).1] at hx
      simp [predWrites] at hx)
  rw [(ideal_eq p sc).1] at this
  exact this

/-! ### 5. the denotation -/

/-- Acceptance gives `valueOf_perm`'s side condition. -/
theorem uniqueProviders_of_accept {p : Prog} (hf : AcceptFacts p) (hd : DistinctIds p) :
    UniqueProviders p.tasks := by
  intro τ t₁ h₁ t₂ h₂ c₁ c₂
  have m₁ : τ ∈ t₁.outs := List.contains_iff_mem.mp c₁
  have m₂ : τ ∈ t₂.outs := List.contains_iff_mem.mp c₂
  obtain ⟨i, hi, ei⟩ := exists_getD_of_mem (mem_funcs.mpr ⟨t₁, h₁, Or.inl rfl⟩)
  obtain ⟨j, hj, ej⟩ := exists_getD_of_mem (mem_funcs.mpr ⟨t₂, h₂, Or.inl rfl⟩)
  have hij : i = j := crossUnique_spec hf.oneProvider.1 hi hj (t := τ)
    (by rw [ei]; simp [Fn.provides, Task.fn, m₁]) (by rw [ej]; simp [Fn.provides, Task.fn, m₂])
  subst hij
  have : t₁.fn = t₂.fn := ei.symm.trans ej
  exact task_eq_of_k hd h₁ h₂ (congrArg Fn.k this)

theorem valueOf_unprovided (p : Prog) (sc : Scenario) (f : Nat) {τ : Ty}
    (h : ∀ t ∈ p.tasks, τ ∉ t.outs) : valueOf p sc (f + 1) τ = (start p).val τ := by
  have hn : providerTask p.tasks τ = none := by
    unfold providerTask
    apply List.find?_eq_none.mpr
    intro t ht hc
    exact h t ht (List.contains_iff_mem.mp hc)
  simp only [valueOf, start, hn]
  cases p.params.idxOf? τ <;> rfl

theorem valueOf_provided (p : Prog) (sc : Scenario) (f : Nat) (hu : UniqueProviders p.tasks)
    {t : Task} (ht : t ∈ p.tasks) {τ : Ty} (hτ : τ ∈ t.outs) (hnp : τ ∉ p.params) :
    valueOf p sc (f + 1) τ =
      if (t.pred && sc.predOut t.k == .f) = true then 0
      else taskOut t.k (t.outs.idxOf τ) (t.ins.map (valueOf p sc f)) := by
  have hpar : p.params.idxOf? τ = none := by
    rw [List.idxOf?, List.findIdx?_eq_none_iff]
    intro x hx
    simp only [beq_eq_false_iff_ne, ne_eq]
    intro e; subst e; exact hnp hx
  have hprov : providerTask p.tasks τ = some t := by
    unfold providerTask
    cases hfd : p.tasks.find? (·.outs.contains τ) with
    | none =>
      have := List.find?_eq_none.mp hfd t ht
      exact absurd (List.contains_iff_mem.mpr hτ) this
    | some t' =>
      have h1 := List.mem_of_find?_eq_some hfd
      have h2 := List.find?_some hfd
      rw [hu τ t' h1 t ht h2 (List.contains_iff_mem.mpr hτ)]
  simp only [valueOf, hpar, hprov]

/-- Number of task (non-predicate) jobs among the first `m` jobs. -/
def tcount (p : Prog) : Nat → Nat
  | 0 => 0
  | m + 1 => tcount p m + (if (jobAt p m).fn.isPred then 0 else 1)

theorem tcount_mono (p : Prog) {i j : Nat} (h : i ≤ j) : tcount p i ≤ tcount p j := by
  induction j with
  | zero => have : i = 0 := by omega
            subst this; exact Nat.le_refl _
  | succ j ih =>
    by_cases hij : i = j + 1
    · subst hij; exact Nat.le_refl _
    · have := ih (by omega)
      simp only [tcount]; omega

theorem tcount_eq_countP (p : Prog) : ∀ m, m ≤ (genJobs p).length →
    tcount p m = ((genJobs p).take m).countP (fun jb => !jb.fn.isPred) := by
  intro m
  induction m with
  | zero => intro _; simp [tcount]
  | succ m ih =>
    intro hm
    rw [List.take_add_one, jobAt_eq (by omega), List.countP_append, ← ih (by omega)]
    simp only [tcount, Option.toList_some, List.countP_singleton]
    cases (jobAt p m).fn.isPred <;> rfl

theorem countP_funcs (p : Prog) : (funcs p).countP (fun f => !f.isPred) = p.tasks.length := by
  unfold funcs
  induction p.tasks with
  | nil => rfl
  | cons t ts ih =>
    rw [List.flatMap_cons, List.countP_append, ih, List.length_cons]
    cases t.pred <;> simp [Task.fn, Task.predFn] <;> omega

theorem range_map_fn_getD (fs : List Fn) : (List.range fs.length).map (fun i => fs.getD i default) = fs := by
  apply List.ext_getElem
  · simp
  · intro i h1 h2
    simp [List.getD_eq_getElem?_getD, List.getElem?_eq_getElem h2]

/-- The job list has one task job per listed task. -/
theorem countP_genJobs (p : Prog) (hac : Acyclic p) :
    (genJobs p).countP (fun jb => !jb.fn.isPred) = p.tasks.length := by
  obtain ⟨hnd, _, hlt⟩ := toposort_facts p hac
  obtain ⟨rank, hrank, hbound⟩ := hac
  obtain ⟨_, _, hall⟩ := toposort_sound (funcs p) rank hrank hbound
  have hperm : (toposort (funcs p)).Perm (List.range (funcs p).length) := by
    apply (List.perm_ext_iff_of_nodup hnd List.nodup_range).mpr
    intro a
    exact ⟨fun ha => List.mem_range.mpr (hlt a ha), fun ha => hall a (List.mem_range.mp ha)⟩
  have h1 : (genJobs p).countP (fun jb => !jb.fn.isPred)
      = ((toposort (funcs p)).map (fun i => (funcs p).getD i default)).countP (fun f => !f.isPred) := by
    simp only [genJobs, List.countP_map]
    rfl
  rw [h1, (hperm.map _).countP_eq, range_map_fn_getD, countP_funcs]

theorem tcount_le (p : Prog) (hac : Acyclic p) {m : Nat} (hm : m ≤ (genJobs p).length) :
    tcount p m ≤ p.tasks.length := by
  rw [tcount_eq_countP p m hm, ← countP_genJobs p hac]
  exact (List.take_sublist m _).countP_le

/-- The link, per task job: the outputs of the task job at position `j` hold `valueOf` for every
    fuel exceeding the number of task jobs up to `j`. -/
theorem final_eq_valueOf_at {p : Prog} {sc : Scenario} (D : Disc p) (hf : AcceptFacts p) (hac : Acyclic p)
    (hd : DistinctIds p) (hnf : NoFailure p sc) : ∀ j, j < (genJobs p).length →
    ∀ t ∈ p.tasks, (jobAt p j).fn = t.fn → ∀ τ ∈ t.outs, ∀ fuel, tcount p (j + 1) + 1 ≤ fuel →
      (idealTr p sc).1.val τ = valueOf p sc fuel τ := by
  intro j
  induction j using Nat.strongRecOn with
  | _ j ih =>
    intro hj t ht hfn τ hτ fuel hfuel
    have hu := uniqueProviders_of_accept hf hd
    obtain ⟨hw, hr⟩ := writes_task hd ht hfn
    have hnotpred : (jobAt p j).fn.isPred = false := by rw [hfn]; rfl
    have htc : tcount p (j + 1) = tcount p j + 1 := by simp [tcount, hnotpred]
    obtain ⟨f, rfl⟩ : ∃ f, fuel = f + 1 := ⟨fuel - 1, by omega⟩
    have hxw : Var.val τ ∈ writesAt p j := by rw [hw]; simp [taskWrites, hτ]
    have hnp : τ ∉ p.params := fun hm => D.paramsNotWritten j τ hj hm hxw
    rw [valueOf_provided p sc f hu ht hτ hnp]
    obtain ⟨r, _, _, g1, g2⟩ := task_job_spec D hf hac hd hnf ht hj hfn
    cases hg : (t.pred && sc.predOut t.k == .f) with
    | true => simp only [if_true]; exact (g1 hg).2 τ hτ
    | false =>
      simp only [Bool.false_eq_true, if_false]
      rw [(g2 hg).2.2 τ hτ]
      congr 1
      apply List.map_congr_left
      intro τ' hτ'
      by_cases hprov : ∃ t' ∈ p.tasks, τ' ∈ t'.outs
      · obtain ⟨t', ht', hτo⟩ := hprov
        obtain ⟨i, hi, hfi⟩ := fn_job hac (mem_funcs.mpr ⟨t', ht', Or.inl rfl⟩)
        have hxr : Var.val τ' ∈ readsAt p j := by rw [hr]; simp [taskReads, hτ']
        have hxw' : Var.val τ' ∈ writesAt p i := by rw [(writes_task hd ht' hfi).1]; simp [taskWrites, hτo]
        have hij : i < j := D.depsBefore j hj i (D.readDep i j _ hi hj hxr hxw')
        have := tcount_mono p (show i + 1 ≤ j by omega)
        exact ih i hij hi t' ht' hfi τ' hτo f (by omega)
      · have hno : ∀ t' ∈ p.tasks, τ' ∉ t'.outs := fun t' ht' hm => hprov ⟨t', ht', hm⟩
        obtain ⟨f', rfl⟩ : ∃ f', f = f' + 1 := ⟨f - 1, by omega⟩
        rw [final_unprovided sc hac hd hno, valueOf_unprovided p sc f' hno]

/-! ### main theorems -/

/-- **`ideal_eq_valueOf`.**  For an accepted flow in which nothing fails, the reference execution
    ends with `valueOf p sc fuel τ` in the variable of *every* type `τ` (Params, task outputs — zero
    for a task whose predicate is false, and its consumers are called with that zero —, and the
    types nobody provides, which are zero on both sides), for every `fuel ≥ p.tasks.length + 1`;
    in particular for the driver's `p.tasks.length + 2`. -/
theorem ideal_eq_valueOf (p : Prog) (sc : Scenario) (hacc : validateFlow p = []) (hs : SmallTypes p)
    (hd : DistinctIds p) (hnf : NoFailure p sc) (fuel : Nat) (hfuel : p.tasks.length + 1 ≤ fuel) (τ : Ty) :
    (ideal p sc).store.val τ = valueOf p sc fuel τ := by
  have D := disc_of_accepted p hacc hs hd
  have hf := accept_facts p hacc
  have hac := accept_acyclic p hacc
  rw [(ideal_eq p sc).1]
  by_cases hprov : ∃ t ∈ p.tasks, τ ∈ t.outs
  · obtain ⟨t, ht, hτ⟩ := hprov
    obtain ⟨j, hj, hfn⟩ := fn_job hac (mem_funcs.mpr ⟨t, ht, Or.inl rfl⟩)
    have := tcount_le p hac (show j + 1 ≤ (genJobs p).length by omega)
    exact final_eq_valueOf_at D hf hac hd hnf j hj t ht hfn τ hτ fuel (by omega)
  · have hno : ∀ t ∈ p.tasks, τ ∉ t.outs := fun t ht hm => hprov ⟨t, ht, hm⟩
    obtain ⟨f, rfl⟩ : ∃ f, fuel = f + 1 := ⟨fuel - 1, by omega⟩
    rw [final_unprovided sc hac hd hno, valueOf_unprovided p sc f hno]

/-- **`ideal_calls`.**  In the reference execution of an accepted flow in which nothing fails, every
    listed task `t` has exactly one task job; that job runs (once — `idealRes` records the single
    run of its body) and returns nil; if `t` has no predicate or its predicate is true, the body
    calls the task function, with the arguments `t.ins.map (valueOf p sc fuel)`; if the predicate
    is false, the function is not called.  The same is recorded in the per-task summary
    `(ideal p sc).get t.k` that the differential-testing driver compares with the real run. -/
theorem ideal_calls (p : Prog) (sc : Scenario) (hacc : validateFlow p = []) (hs : SmallTypes p)
    (hd : DistinctIds p) (hnf : NoFailure p sc) (fuel : Nat) (hfuel : p.tasks.length + 1 ≤ fuel)
    (t : Task) (ht : t ∈ p.tasks) :
    ∃ j, j < (genJobs p).length ∧ (jobAt p j).fn = t.fn ∧
      (∀ j', j' < (genJobs p).length → (jobAt p j').fn.isPred = false → (jobAt p j').fn.k = t.k → j' = j) ∧
      ∃ r, idealRes p sc j = some r ∧ r.ret = none ∧
        ((ideal p sc).get t.k).jobRan = true ∧ ((ideal p sc).get t.k).fail = none ∧
        ((t.pred && sc.predOut t.k == .f) = true →
          r.invoked = false ∧ ((ideal p sc).get t.k).fnCalled = false) ∧
        ((t.pred && sc.predOut t.k == .f) = false →
          r.invoked = true ∧ r.args = t.ins.map (valueOf p sc fuel) ∧
          ((ideal p sc).get t.k).fnCalled = true ∧
          ((ideal p sc).get t.k).fnArgs = t.ins.map (valueOf p sc fuel)) := by
  have D := disc_of_accepted p hacc hs hd
  have hf := accept_facts p hacc
  have hac := accept_acyclic p hacc
  obtain ⟨j, hj, hfn⟩ := fn_job hac (mem_funcs.mpr ⟨t, ht, Or.inl rfl⟩)
  have hnp : (jobAt p j).fn.isPred = false := by rw [hfn]; rfl
  have hk : (jobAt p j).fn.k = t.k := by rw [hfn]; rfl
  refine ⟨j, hj, hfn, ?_, ?_⟩
  · intro j' hj' h1 h2
    exact job_key_unique D hj' hj (h1.trans hnp.symm) (h2.trans hk.symm)
  · obtain ⟨r, hres, hret, g1, g2⟩ := task_job_spec D hf hac hd hnf ht hj hfn
    have hinfo := (ideal_info p sc hacc hs hd hj).1 r hres
    unfold InfoOK at hinfo
    rw [if_neg (by rw [hnp]; simp), hk] at hinfo
    obtain ⟨i1, i2, i3, i4⟩ := hinfo
    have hargs : t.ins.map (idealTr p sc).1.val = t.ins.map (valueOf p sc fuel) := by
      apply List.map_congr_left
      intro τ _
      rw [← (ideal_eq p sc).1]
      exact ideal_eq_valueOf p sc hacc hs hd hnf fuel hfuel τ
    refine ⟨r, hres, hret, i1, by rw [i4, hret], ?_, ?_⟩
    · intro hg
      exact ⟨(g1 hg).1, by rw [i2, (g1 hg).1]⟩
    · intro hg
      obtain ⟨m1, m2, _⟩ := g2 hg
      exact ⟨m1, by rw [m2, hargs], by rw [i2, m1], by rw [i3, m2, hargs]⟩

/-- The predicate of every predicated task is evaluated by exactly one job, which runs, with the
    arguments `t.pins.map (valueOf p sc fuel)`. -/
theorem ideal_pred_calls (p : Prog) (sc : Scenario) (hacc : validateFlow p = []) (hs : SmallTypes p)
    (hd : DistinctIds p) (hnf : NoFailure p sc) (fuel : Nat) (hfuel : p.tasks.length + 1 ≤ fuel)
    (t : Task) (ht : t ∈ p.tasks) (hp : t.pred = true) :
    ∃ j, j < (genJobs p).length ∧ (jobAt p j).fn = t.predFn ∧
      (∀ j', j' < (genJobs p).length → (jobAt p j').fn.isPred = true → (jobAt p j').fn.k = t.k → j' = j) ∧
      ∃ r, idealRes p sc j = some r ∧ r.ret = none ∧ r.invoked = true ∧
        r.args = t.pins.map (valueOf p sc fuel) ∧
        ((ideal p sc).get t.k).predCalled = true ∧
        ((ideal p sc).get t.k).predArgs = t.pins.map (valueOf p sc fuel) := by
  have D := disc_of_accepted p hacc hs hd
  have hac := accept_acyclic p hacc
  obtain ⟨j, hj, hfn⟩ := fn_job hac (mem_funcs.mpr ⟨t, ht, Or.inr ⟨hp, rfl⟩⟩)
  have hip : (jobAt p j).fn.isPred = true := by rw [hfn]; rfl
  have hk : (jobAt p j).fn.k = t.k := by rw [hfn]; rfl
  refine ⟨j, hj, hfn, ?_, ?_⟩
  · intro j' hj' h1 h2
    exact job_key_unique D hj' hj (h1.trans hip.symm) (h2.trans hk.symm)
  · obtain ⟨hres, _, _⟩ := ideal_step_nf D hac hd hnf hj
    rw [runJob_pred hd ht sc hfn] at hres
    obtain ⟨n1, _, _, n4, n5⟩ := runPred_nf t sc (idealPre p sc j).1 ((hnf t ht).2 hp)
    have hinfo := (ideal_info p sc hacc hs hd hj).1 _ hres
    unfold InfoOK at hinfo
    rw [if_pos hip, hk] at hinfo
    have hargs : t.pins.map (idealPre p sc j).1.val = t.pins.map (valueOf p sc fuel) := by
      apply List.map_congr_left
      intro τ hτ
      have hx : Var.val τ ∈ readsAt p j := by rw [(writes_pred hd ht hfn).2]; simp [predReads, hτ]
      have h1 : (idealPre p sc j).1.val τ = (idealTr p sc).1.val τ := reads_final D sc hj hx
      rw [h1, ← (ideal_eq p sc).1]
      exact ideal_eq_valueOf p sc hacc hs hd hnf fuel hfuel τ
    exact ⟨_, hres, n1, n4, by rw [n5, hargs], hinfo.1, by rw [hinfo.2, n5, hargs]⟩

/-- **`idealAgreesWithDenote_true`.**  The driver's executable cross-check (reference execution
    versus `valueOf` on every Results type, fuel `p.tasks.length + 2`) holds for every accepted flow
    and every scenario in which nothing fails. -/
theorem idealAgreesWithDenote_true (p : Prog) (sc : Scenario) (hacc : validateFlow p = []) (hs : SmallTypes p)
    (hd : DistinctIds p) (hnf : NoFailure p sc) : idealAgreesWithDenote p sc = true := by
  unfold idealAgreesWithDenote
  simp only [List.all_eq_true, beq_iff_eq]
  intro τ _
  exact ideal_eq_valueOf p sc hacc hs hd hnf _ (by omega) τ

/-- The same, with the driver's own test on the scenario (`plain`) as the hypothesis. -/
theorem idealAgreesWithDenote_of_plain (p : Prog) (sc : Scenario) (hacc : validateFlow p = [])
    (hs : SmallTypes p) (hd : DistinctIds p)
    (hfn : sc.fn.all (fun x => x.2 == .ok) = true) (hpred : sc.pred.all (fun x => x.2 != .panic) = true) :
    idealAgreesWithDenote p sc = true :=
  idealAgreesWithDenote_true p sc hacc hs hd (noFailure_of_plain p sc hfn hpred)

end Gen
