/-
  Differential oracle for generated code (tie mechanism C): compares the observations written by
  harness/cmd/progrun with the models `Gen.validate`, `Gen.ideal` (built from `Gen.runTask` /
  `Gen.runPred`), and the Parallel rules.  Returns divergences as (kind, detail).
-/
import CffVerif.Gen.Flow
import CffVerif.Gen.FlowRun
import CffVerif.Gen.ParBody
import CffVerif.Gen.ParEnd

namespace Gen.Check

open Gen

abbrev Div := String × String

structure Event where
  kind : String
  k : Int            -- -1 = directive-level
  cls : String
  deriving Repr, DecidableEq, Inhabited

structure Obs where
  hasRet : Bool := false
  ret : List String := []
  calls : List (String × List String) := []
  results : List (Nat × String) := []
  ev : List (Nat × Event) := []
  evalorder : List Nat := []
  evalinfo : List String := []
  stamps : List (String × List Nat × Nat × Nat) := []
  maxin : Option Nat := none
  gids : Option Nat := none
  oncaller : Option Nat := none
  ctxseen : Option Nat := none
  evnames : Option Nat := none
  quiesced : Option Nat := none
  execsAgree : Option Nat := none
  crash : Option String := none
  modifier : Option (List String) := none   -- fields of the `modifier` line (base vs modifier-mode run)
  deriving Repr, Inhabited

def Obs.addLine (o : Obs) (f : List String) : Obs :=
  match f with
  | "ret" :: r :: _ => { o with hasRet := true, ret := if r == "nil" then [] else r.splitOn "," }
  | "call" :: rest => { o with calls := o.calls ++ [("call", rest)] }
  | "pcall" :: rest => { o with calls := o.calls ++ [("pcall", rest)] }
  | "scall" :: rest => { o with calls := o.calls ++ [("scall", rest)] }
  | "secall" :: rest => { o with calls := o.calls ++ [("secall", rest)] }
  | "mcall" :: rest => { o with calls := o.calls ++ [("mcall", rest)] }
  | "mecall" :: rest => { o with calls := o.calls ++ [("mecall", rest)] }
  | ["result", i, v] => { o with results := o.results ++ [((i.toNat?).getD 0, v)] }
  | ["ev", n, kind, k, cls] =>
    { o with ev := o.ev ++ [((n.toNat?).getD 0, { kind, k := if k == "-" then -1 else (k.toInt?).getD (-2), cls })] }
  | "evalorder" :: rest => { o with evalorder := rest.filterMap String.toNat? }
  | "evalinfo" :: rest => { o with evalinfo := rest }
  | "stamp" :: kind :: rest =>
    let nums := rest.filterMap String.toNat?
    if nums.length ≥ 2 then
      { o with stamps := o.stamps ++ [(kind, nums.take (nums.length - 2), nums.getD (nums.length - 2) 0, nums.getD (nums.length - 1) 0)] }
    else o
  | ["maxin", n] => { o with maxin := n.toNat? }
  | ["gids", n] => { o with gids := n.toNat? }
  | ["oncaller", n] => { o with oncaller := n.toNat? }
  | ["ctxseen", n] => { o with ctxseen := n.toNat? }
  | ["evnames", n] => { o with evnames := n.toNat? }
  | ["quiesced", n] => { o with quiesced := n.toNat? }
  | ["execs-agree", n] => { o with execsAgree := n.toNat? }
  | "crash" :: rest => { o with crash := some (" ".intercalate rest) }
  | "modifier" :: rest => { o with modifier := some rest }
  | _ => o

def sortS (l : List String) : List String := l.mergeSort (fun a b => decide (a ≤ b))
def joinNat (k : Nat) (args : List Nat) : String := " ".intercalate ((k :: args).map toString)

/-! ### events (per emitter) -/

structure EvTask where
  k : Nat
  called : Bool
  outcome : String
  cls : String
  predPanic : Bool := false
  predKind : String := ""
  predClass : String := ""
  predExact : Bool := false

def retClass (ret : List String) : String := if ret.isEmpty then "nil" else "+".intercalate (sortS ret)

def outcomes : List String := ["TaskSuccess", "TaskError", "TaskErrorRecovered", "TaskPanic", "TaskPanicRecovered"]

def checkEvents (emitters : Nat) (dirInstr : Bool) (pref : String) (ret : List String) (stragglers : Bool)
    (tasks : List EvTask) (o : Obs) : List Div :=
  let rc := retClass ret
  let evsOf := fun (n : Nat) => (o.ev.filter (·.1 == n)).map (·.2)
  let count := fun (evs : List Event) (kind : String) (k : Int) => (evs.filter fun e => e.kind == kind && e.k == k).length
  let countC := fun (evs : List Event) (kind : String) (k : Int) (c : String) =>
    (evs.filter fun e => e.kind == kind && e.k == k && e.cls == c).length
  let firstIdx := fun (evs : List Event) (kind : String) (k : Int) => evs.findIdx? fun e => e.kind == kind && e.k == k
  let perEmitter := (List.range 4).flatMap fun n =>
    let evs := evsOf n
    if n ≥ emitters then
      (if evs.isEmpty then [] else [("events", s!"emitter {n} received {evs.length} events but is not installed")])
    else
      let exact := fun (k : Int) (kind cls : String) (want : Nat) =>
        let got := count evs kind k
        if got != want then [("events", s!"emitter {n} task {k}: {got} x {kind} want {want}")]
        else if want > 0 && countC evs kind k cls != want then [("events", s!"emitter {n} task {k}: {kind} class want {cls}")]
        else []
      let atMost1 := fun (k : Int) (kind cls : String) =>
        let got := count evs kind k
        if got > 1 then [("events", s!"emitter {n} task {k}: {got} x {kind} want at most 1")]
        else if got == 1 && countC evs kind k cls != 1 then [("events", s!"emitter {n} task {k}: {kind} class want {cls}")]
        else []
      let foreign := evs.flatMap fun e =>
        (if e.cls.startsWith "other:" then [("events", s!"emitter {n}: {e.kind} carries unclassified {e.cls}")] else []) ++
        (if e.k ≥ 0 then (if tasks.any (fun t => (t.k : Int) == e.k) then [] else [("events", s!"emitter {n}: {e.kind} for task {e.k} which is not instrumented")])
         else if e.k != -1 then [("events", s!"emitter {n}: {e.kind} for an unknown task")]
         else if !dirInstr then [("events", s!"emitter {n}: {e.kind} but the directive is not instrumented")] else [])
      let perTask := tasks.flatMap fun t =>
        let k : Int := t.k
        if t.called then
          (outcomes.flatMap fun kind => if kind == t.outcome then exact k kind t.cls 1 else exact k kind "" 0) ++
          exact k "TaskDone" "-" 1 ++
          (match firstIdx evs "TaskDone" k, firstIdx evs t.outcome k with
           | some d, some oc => if d < oc then [("events", s!"emitter {n} task {k}: TaskDone before {t.outcome}")] else []
           | _, _ => []) ++
          (if stragglers then atMost1 k "TaskSkipped" rc else exact k "TaskSkipped" "" 0)
        else
          (outcomes.flatMap fun kind =>
            if t.predPanic && kind == t.predKind then
              (if t.predExact then exact k kind t.predClass 1 else atMost1 k kind t.predClass)
            else exact k kind "" 0) ++
          exact k "TaskDone" "" 0 ++ exact k "TaskSkipped" rc 1
      let dir :=
        if !dirInstr then [] else
          let succ := pref ++ "Success"
          let fail := pref ++ "Error"
          let done := pref ++ "Done"
          (if ret.isEmpty then exact (-1) succ "-" 1 ++ exact (-1) fail "" 0
           else exact (-1) succ "" 0 ++ exact (-1) fail rc 1) ++
          exact (-1) done "-" 1 ++
          (let oi := match firstIdx evs succ (-1) with
                     | some i => i
                     | none => (firstIdx evs fail (-1)).getD 0
           match firstIdx evs done (-1) with
           | some di =>
             (if di < oi then [("events", s!"emitter {n}: {done} before the directive outcome event")] else []) ++
             (if ret.isEmpty && di + 1 != evs.length then [("events", s!"emitter {n}: {done} is not the last event")] else []) ++
             (tasks.flatMap fun t =>
               match firstIdx evs "TaskSkipped" t.k with
               | some si => if si < oi || si > di then [("events", s!"emitter {n} task {t.k}: TaskSkipped outside the final sweep")] else []
               | none => [])
           | none => [])
      foreign ++ perTask ++ dir
  let multisets := (List.range emitters).map fun n => sortS ((evsOf n).map fun e => s!"{e.kind}/{e.k}/{e.cls}")
  let agree := match multisets with
    | [] => []
    | m0 :: rest => if rest.all (· == m0) then [] else [("events", "emitters saw different multisets of events")]
  perEmitter ++ agree

/-! ### checks common to Flow and Parallel -/

def numSlots (p : Prog) : Nat :=
  1 + (p.order.map fun tok =>
    let parts := tok.splitOn ":"
    let name := parts.getD 0 ""
    let id := ((parts.getD 1 "0").toNat?).getD 0
    if name == "params" then p.params.length
    else if name == "results" then p.results.length
    else if name == "conc" then 1
    else if name == "coe" then (if p.coe == "expr0" || p.coe == "expr1" then 1 else 0)
    else if name == "instr" then 1
    else if name == "emitter" then 1
    else if name == "task" then
      let t := taskOf p id
      1 + (if t.fb then t.outs.length else 0) + (if t.pred then 1 else 0) + (if t.instr then 1 else 0)
    else if name == "ptask" then
      1 + (if ((p.ptasks.find? (·.k == id)).map (·.instr)).getD false then 1 else 0)
    else if name == "ptasks" then (p.ptasks.filter (·.group == some id)).length
    else if name == "slice" then 2 + (if ((p.slices.find? (·.id == id)).map (·.hasEnd)).getD false then 1 else 0)
    else if name == "map" then 2 + (if ((p.maps.find? (·.id == id)).map (·.hasEnd)).getD false then 1 else 0)
    else 0).sum

def checkCommon (p : Prog) (sc : Scenario) (defaultConc : Nat) (o : Obs) : List Div :=
  let want := if p.wrap then numSlots p else 0
  (if o.evalorder != List.range want then [("evalorder", s!"evaluation order {o.evalorder} want 0..{want}-1")] else []) ++
  (["beforefirststart", "count_ok"].flatMap fun k =>
    if o.evalinfo.contains (k ++ "=1") then [] else [("evalorder", s!"evalinfo {k} is not 1")]) ++
  -- an argument expression evaluated by another goroutine than the caller's runs beside the user functions
  -- (ownership: C12) and outside the prologue (C15)
  (if o.evalinfo.contains "samegoroutine=1" then []
   else [("evalgoroutine", "a directive argument was evaluated on a goroutine other than the one calling the directive")]) ++
  (let bound := match p.conc with
     | some _ => sc.conc.getD defaultConc
     | none => defaultConc
   (match o.maxin with
    | some m => if m > bound then [("maxin", s!"{m} functions in flight, bound {bound}")] else []
    | none => [("maxin", "missing")]) ++
   -- goroutines that ran user functions, argument expressions or emitter callbacks during one execution:
   -- the caller, at most `bound` workers (generated bodies never Goexit, so no respawn) and the loop
   (match o.gids with
    | some g => if g > bound + 2 then [("gids", s!"{g} distinct goroutines ran user code or emitter callbacks, bound {bound}+2")] else []
    | none => [("gids", "missing")])) ++
   -- user functions (tasks, predicates, element and End functions) run on worker goroutines only: a function
   -- executing on the goroutine that called the directive runs beside the N bodies the workers may be running
   (match o.oncaller with
    | some 0 => []
    | some n => [("oncaller", s!"{n} user function call(s) ran on the goroutine that called the directive")]
    | none => [("oncaller", "missing")]) ++
  (if o.ctxseen != some 1 then [("ctxseen", "a function did not see the directive's context")] else []) ++
  (if o.evnames != some 1 then [("events", "an emitter was initialised with an unexpected name")] else []) ++
  (if o.quiesced != some 1 then [("quiesce", "goroutines still alive after the directive returned")] else []) ++
  (if sc.execs > 1 && o.execsAgree != some 1 then [("agree", s!"the {sc.execs} concurrent executions disagree")] else [])

/-! ### Flow -/

def checkFlow (p : Prog) (sc : Scenario) (defaultConc : Nat) (o : Obs) : List Div :=
  match o.crash with
  | some c => [("crash", c)]
  | none =>
  if !o.hasRet then [("crash", "no observation")] else
  let id := ideal p sc
  let fails := p.tasks.filterMap fun t => (id.get t.k).fail
  let cancelK := sc.cancelIn
  let cancelActive := match cancelK with
    | some k => (id.get k).fnCalled
    | none => false
  let before := sc.cancel == "before"
  let obsCall := fun (k : Nat) => (o.calls.filter fun c => c.1 == "call" && c.2.head? == some (toString k)).map (" ".intercalate ·.2)
  let obsPCall := fun (k : Nat) => (o.calls.filter fun c => c.1 == "pcall" && c.2.head? == some (toString k)).map (" ".intercalate ·.2)
  let ks := p.tasks.map (·.k)
  let stray := o.calls.flatMap fun c =>
    if c.1 != "call" && c.1 != "pcall" then [("calls", s!"unexpected {c.1} line in a flow")]
    else match c.2.head?.bind String.toNat? with
      | some k => if ks.contains k then [] else [("calls", s!"call of unknown task {k}")]
      | none => [("calls", "unparsable call line")]
  let subset := ks.flatMap fun k =>
    let f := id.get k
    let c := obsCall k
    let pc := obsPCall k
    (if c.length > 1 then [("calls", s!"task {k} called {c.length} times")] else []) ++
    (match c.head? with
     | some l => if before then [("cancel", s!"task {k} called although the context was done before the directive started")]
                 else if !f.fnCalled then [("calls", s!"task {k} must not be called")]
                 else if l != joinNat k f.fnArgs then [("args", s!"task {k} called with [{l}] want [{joinNat k f.fnArgs}]")] else []
     | none => []) ++
    (if pc.length > 1 then [("calls", s!"predicate {k} called {pc.length} times")] else []) ++
    (match pc.head? with
     | some l => if before then [("cancel", s!"predicate {k} called although the context was done before the directive started")]
                 else if !f.predCalled then [("calls", s!"predicate {k} must not be called")]
                 else if l != joinNat k f.predArgs then [("args", s!"predicate {k} called with [{l}] want [{joinNat k f.predArgs}]")] else []
     | none => [])
  let cancelDeps := match cancelK with
    | some ck =>
      if !cancelActive then [] else
      p.tasks.flatMap fun t =>
        (if (ancestors p t.k).contains ck && !(obsCall t.k).isEmpty
          then [("cancel", s!"task {t.k} started although it depends on task {ck} which cancelled the context")] else []) ++
        (if t.pred && !(obsPCall t.k).isEmpty && t.pins.any (fun ty => ((p.tasks.filter (fun u => u.outs.contains ty)).any fun u => u.k == ck || (ancestors p u.k).contains ck))
          then [("cancel", s!"predicate {t.k} started although it depends on task {ck} which cancelled the context")] else [])
    | none => []
  let mustCallJob := fun (k : Nat) =>
    let f := id.get k
    (if f.predCalled && (obsPCall k).isEmpty then [("calls", s!"predicate {k} must be called")] else []) ++
    (if f.fnCalled && (obsCall k).isEmpty then [("calls", s!"task {k} must be called")] else [])
  let unset := (List.range p.results.length).flatMap fun i =>
    if (o.results.lookup i) != some "unset" then [("results", s!"result {i} = {o.results.lookup i} want unset")] else []
  let main :=
    if before then
      (if o.ret != ["ctx"] then [("cancel.ret", s!"cancel=before: ret {o.ret} want [ctx]")] else []) ++ unset
    else if fails.isEmpty && !cancelActive then
      (if !o.ret.isEmpty then [("ret", s!"ret {o.ret} want nil")] else []) ++
      ks.flatMap mustCallJob ++
      ((List.range p.results.length).flatMap fun i =>
        let want := toString (id.store.val (p.results.getD i 0))
        if (o.results.lookup i) != some want then [("results", s!"result {i} = {o.results.lookup i} want {want}")] else [])
    else
      let allowed := fails ++ (if cancelActive then ["ctx"] else [])
      (match o.ret with
       | [e] =>
         if !allowed.contains e then [("ret", s!"ret [{e}] not among possible failures {allowed}")]
         else
           let rep := if e == "ctx" then cancelK else (p.tasks.find? fun t => (id.get t.k).fail == some e).map (·.k)
           match rep with
           | some r =>
             (ancestors p r).flatMap mustCallJob ++
             (if (id.get r).failIsPred && e != "ctx" then
                (if (obsPCall r).isEmpty then [("calls", s!"predicate {r} must be called")] else [])
              else mustCallJob r)
           | none => []
       | _ => [(if cancelActive then "cancel.ret" else "ret", s!"ret {o.ret} want exactly one entry of {allowed}")]) ++ unset
  let events :=
    if p.emitters == 0 && o.ev.isEmpty then [] else
      let tasks := (p.tasks.filter (p.taskInstrumented ·)).map fun t =>
        let called := !(obsCall t.k).isEmpty
        let (oc, cls) := match sc.fnOut t.k with
          | .err => (if t.fb then "TaskErrorRecovered" else "TaskError", s!"err:{t.k}")
          | .panic => (if t.fb then "TaskPanicRecovered" else "TaskPanic", s!"panic:{t.k}:{sc.vclass 't' t.k 0}")
          | .ok => ("TaskSuccess", "-")
        let pp := t.pred && sc.predOut t.k == .panic && !(obsPCall t.k).isEmpty
        let pcls := s!"ppanic:{t.k}:{sc.vclass 'p' t.k 0}"
        ({ k := t.k, called, outcome := oc, cls, predPanic := pp,
           predKind := if t.fb then "TaskPanicRecovered" else "TaskPanic", predClass := pcls,
           predExact := o.ret.isEmpty || o.ret == [pcls] } : EvTask)
      checkEvents p.emitters p.instrDir "Flow" o.ret (!o.ret.isEmpty) tasks o
  -- The closing events of every installed emitter are the model's epilogue `Gen.flowEnd`
  -- (Gen/FlowRun.lean — the definition the C07/C18 epilogue theorems are about): exactly, sweep
  -- included, when the flow returned nil (no job is still running then); at directive level always.
  let closing :=
    if p.emitters == 0 || before then [] else
      (List.range p.emitters).flatMap fun n =>
        let got : List DEv := ((o.ev.filter (·.1 == n)).map (·.2)).filterMap fun e =>
          if e.k == -1 || e.kind == "TaskSkipped" then some (e.kind, e.k, e.cls) else none
        if o.ret.isEmpty && fails.isEmpty && !cancelActive then
          let want := (flowEnd p [] id.store).events
          if got != want then [("events", s!"emitter {n}: closing events {got} want {want}")] else []
        else
          let want := (flowEnd p o.ret id.store).events.filter DEv.isDirective
          if got.filter DEv.isDirective != want then
            [("events", s!"emitter {n}: directive events {got.filter DEv.isDirective} want {want}")] else []
  -- dependencies end before dependents start
  let stampOf := fun (kind : String) (k : Nat) => o.stamps.find? fun s => s.1 == kind && s.2.1.head? == some k
  let provTasks := fun (tys : List Ty) => tys.filterMap fun ty => (p.tasks.find? (·.outs.contains ty)).map (·.k)
  let order := p.tasks.flatMap fun t =>
    (match stampOf "call" t.k with
     | some s =>
       ((provTasks t.ins).flatMap fun d =>
         match stampOf "call" d with
         | some ds => if !(ds.2.2.2 < s.2.2.1) then [("order", s!"task {t.k} started before its dependency {d} ended")] else []
         | none => []) ++
       (match stampOf "pcall" t.k with
        | some ps => if !(ps.2.2.2 < s.2.2.1) then [("order", s!"task {t.k} started before its predicate ended")] else []
        | none => [])
     | none => []) ++
    (match stampOf "pcall" t.k with
     | some s =>
       (provTasks t.pins).flatMap fun d =>
         match stampOf "call" d with
         | some ds => if !(ds.2.2.2 < s.2.2.1) then [("order", s!"predicate {t.k} started before its dependency {d} ended")] else []
         | none => []
     | none => [])
  stray ++ subset ++ cancelDeps ++ main ++ events ++ closing ++ order ++ checkCommon p sc defaultConc o


/-! ### Parallel -/

def collLen (c : Coll) : Nat := c.len.getD 0

def checkPar (p : Prog) (sc : Scenario) (defaultConc : Nat) (o : Obs) : List Div :=
  match o.crash with
  | some c => [("crash", c)]
  | none =>
  if !o.hasRet then [("crash", "no observation")] else
  -- The expected calls and error entries come from the model of the generated Parallel code:
  -- the job list `parJobs` (Gen/Parallel.lean) and the body semantics `runPJob` (Gen/ParBody.lean),
  -- the definitions the C04/C08/C10 theorems are about.
  let jobs := parJobs p
  let res := jobs.map fun j => runPJob .std p sc j.body
  let okAt := fun (d : Nat) => ((res.getD d default).ret).isNone
  let zipped := jobs.zip res
  -- ideal: every function whose dependencies succeed runs
  let ideal : List (String × Option String) :=
    zipped.filterMap fun (j, r) => if j.deps.all okAt then some (r.call, r.ret) else none
  let never : List String := zipped.filterMap fun (j, r) => if j.deps.all okAt then none else some r.call
  let endDeps : List (String × List String) :=
    zipped.filterMap fun (j, r) => if j.deps.isEmpty then none else some (r.call, j.deps.map fun d => (res.getD d default).call)
  let C := sortS (ideal.filterMap (·.2))
  let obsLines := o.calls.map fun c => " ".intercalate (c.1 :: c.2)
  let before := sc.cancel == "before"
  let cancelK := sc.cancelIn
  let coe := p.coeTrue
  let idealLines := ideal.map (·.1)
  let callDivs := obsLines.eraseDups.flatMap fun line =>
    let n := (obsLines.filter (· == line)).length
    if before then [("cancel", s!"cancel=before: [{line}] must not be called")]
    else if never.contains line then [("calls", s!"[{line}] called although an element of its collection failed")]
    else if !idealLines.contains line then [("calls", s!"unexpected call [{line}]")]
    else if n > 1 then [("calls", s!"[{line}] called {n} times")] else []
  let must := fun (line : String) => if obsLines.contains line then [] else [("calls", s!"[{line}] must be called")]
  let retDivs :=
    if before then
      (if o.ret.isEmpty then [("cancel.ret", "cancel=before: ret nil")] else []) ++
      (o.ret.flatMap fun e => if e != "ctx" then [("ret", s!"cancel=before: ret entry {e} want ctx")] else []) ++
      (if !coe && o.ret.length > 1 then [("ret", s!"fail-fast: {o.ret.length} entries")] else [])
    else if let some (cs, ci) := sc.cancelSl then
      -- an element of slice `cs` cancels the context: whatever else happens, a context error in the result means
      -- the cancellation happened, and then the End function of that slice — which depends on the element that
      -- cancelled — must not have been started
      ((o.ret.filter (· != "ctx")).eraseDups.flatMap fun e =>
        (if !C.contains e then [("ret", s!"ret entry {e} is not a possible failure {C}")] else [])) ++
      (if !coe && o.ret.length > 1 then [("ret", s!"fail-fast: {o.ret.length} entries")] else []) ++
      (if o.ret.contains "ctx" && obsLines.contains s!"secall {cs}" then
        [("cancel", s!"SliceEnd of slice {cs} started although element {ci}, which it depends on, cancelled the context")] else []) ++
      (if C.isEmpty && o.ret.isEmpty && obsLines.any (fun l => l.startsWith s!"scall {cs} ") && (idealLines.filter (·.startsWith s!"scall {cs} ")).length == (obsLines.filter (·.startsWith s!"scall {cs} ")).length
        then [("cancel", s!"cancel=sl:{cs}:{ci}: every element of the slice was called, one of them cancelled the context, and the directive returned nil")] else [])
    else match cancelK with
    | some ck =>
      (if o.ret.isEmpty then [("cancel.ret", s!"cancel=in:{ck}: ret nil")] else []) ++
      ((o.ret.filter (· != "ctx")).eraseDups.flatMap fun e =>
        (if !C.contains e then [("ret", s!"ret entry {e} is not a possible failure {C}")] else []) ++
        (if (o.ret.filter (· == e)).length > (C.filter (· == e)).length then [("ret", s!"ret entry {e} reported twice")] else [])) ++
      (if !coe && o.ret.length > 1 then [("ret", s!"fail-fast: {o.ret.length} entries")] else []) ++
      (if o.ret.contains "ctx" then must s!"call {ck}" else [])
    | none =>
      if C.isEmpty then
        (if !o.ret.isEmpty then [("ret", s!"ret {o.ret} want nil")] else []) ++ idealLines.flatMap must
      else if coe then
        (if sortS o.ret != C then [("ret", s!"ContinueOnError: ret {sortS o.ret} want {C}")] else []) ++ idealLines.flatMap must
      else
        match o.ret with
        | [e] =>
          if !C.contains e then [("ret", s!"ret [{e}] not among possible failures {C}")]
          else (ideal.filter (·.2 == some e)).flatMap fun (line, _) =>
            must line ++ ((endDeps.lookup line).getD []).flatMap must
        | _ => [("ret", s!"fail-fast: ret {o.ret} want exactly one entry of {C}")]
  let unclassified := o.ret.flatMap fun e => if e.startsWith "other:" then [("ret", s!"unclassified entry {e}")] else []
  let events :=
    if p.emitters == 0 && o.ev.isEmpty then [] else
      let tasks := (p.ptasks.filter (·.instr)).map fun t =>
        -- the outcome event of one invocation comes from the model of the task body (Gen.parTaskEvents)
        let (oc, cls) := (parTaskEvents sc t).headD ("TaskSuccess", "-")
        ({ k := t.k, called := obsLines.contains s!"call {t.k}", outcome := oc, cls } : EvTask)
      checkEvents p.emitters p.instrDir "Parallel" o.ret (!o.ret.isEmpty && (!coe || sc.cancel != "none")) tasks o
  -- closing events of every installed emitter against the model's epilogue `Gen.parEnd`
  let closing :=
    if p.emitters == 0 || before then [] else
      (List.range p.emitters).flatMap fun n =>
        let got : List DEv := ((o.ev.filter (·.1 == n)).map (·.2)).filterMap fun e =>
          if e.k == -1 || e.kind == "TaskSkipped" then some (e.kind, e.k, e.cls) else none
        if o.ret.isEmpty && C.isEmpty && cancelK.isNone then
          let want := parEnd p [] (fun _ => true)
          if got != want then [("events", s!"emitter {n}: closing events {got} want {want}")] else []
        else
          let want := (parEnd p o.ret (fun _ => true)).filter DEv.isDirective
          if got.filter DEv.isDirective != want then
            [("events", s!"emitter {n}: directive events {got.filter DEv.isDirective} want {want}")] else []
  -- End hooks start after all their elements ended
  let order := o.stamps.flatMap fun (kind, ids, start, _) =>
    if kind == "secall" || kind == "mecall" then
      let ek := if kind == "secall" then "scall" else "mcall"
      let maxEnd := ((o.stamps.filter fun s => s.1 == ek && s.2.1.head? == ids.head?).map (·.2.2.2)).foldl max 0
      if start < maxEnd then [("order", s!"{kind} {ids} started before all its elements ended")] else []
    else []
  callDivs ++ retDivs ++ unclassified ++ events ++ closing ++ order ++ checkCommon p sc defaultConc o

/-! ### accept verdict and static checks -/

def checkAccept (p : Prog) (toks : List String) : List Div :=
  -- A <pid> <accept|reject> exit= diag= toolpanic= file-named-in-diag= genfile-written=
  let verdict := toks.getD 2 "?"
  let diags := validate p
  let rest := toks.drop 3
  let obsDiag := let d := (kv rest "diag").getD "-"; if d == "-" then [] else d.splitOn ","
  (if kvB rest "toolpanic" then [("toolpanic", s!"pid {p.pid}")] else []) ++
  (if diags.isEmpty then
     (if verdict != "accept" then [("accept", s!"pid {p.pid}: model accepts, cff rejects ({obsDiag})")] else [])
   else
     (if verdict != "reject" then [("accept", s!"pid {p.pid}: model rejects {diags}, cff accepts")]
      else
        (if (kv rest "exit") == some "0" then [("diag", s!"pid {p.pid}: rejected with exit status 0")] else []) ++
        (if !kvB rest "file-named-in-diag" then [("diag", s!"pid {p.pid}: no diagnostic names the file")] else []) ++
        (if kvB rest "genfile-written" then [("diag", s!"pid {p.pid}: output written for a rejected file")] else []) ++
        (if !obsDiag.any (diags.contains ·) then [("diag", s!"pid {p.pid}: diagnostics {obsDiag}, model expects one of {diags}")] else [])))

def checkStatic (p : Prog) (toks : List String) : List Div :=
  -- G <pid> parses= typechecks= directives_left= astdiff= deterministic= sourcemap_same=
  let rest := toks.drop 2
  (if !kvB rest "parses" then [("static.parses", s!"pid {p.pid}")] else []) ++
  (if !kvB rest "typechecks" then [("static.typechecks", s!"pid {p.pid}")] else []) ++
  (if (kv rest "directives_left") != some "0" then [("static.directives", s!"pid {p.pid}: {kv rest "directives_left"} directive calls left")] else []) ++
  (if (kv rest "astdiff") != some "ok" then [("static.astdiff", s!"pid {p.pid}: {kv rest "astdiff"}")] else []) ++
  -- the hoisted user expressions come first in the generated closure: no generated declaration is in scope
  -- while they are evaluated (Text/Hygiene.lean); "na" = file not parsed
  (match kv rest "hygiene" with
   | some "ok" | some "na" => []
   | some h => [("static.hygiene", s!"pid {p.pid}: {h}")]
   | none => [("static.hygiene", s!"pid {p.pid}: missing")]) ++
  -- no field of a generated task record is plainly written by a job closure and read by a deferred function
  -- of the directive's closure (ownership: the caller may run the deferred functions while jobs still run)
  (match kv rest "shared" with
   | some "ok" | some "na" => []
   | some h => [("static.shared", s!"pid {p.pid}: {h}")]
   | none => [("static.shared", s!"pid {p.pid}: missing")]) ++
  -- the same package generated with an additional user-supplied build tag (`-tags verifextra`): the cff tag
  -- still applies, so the output is there and is the same
  (match kv rest "tagsrun" with
   | some "1" | some "na" => []
   | some h => [("static.tagsrun", s!"pid {p.pid}: a run with an extra -tags value gave {h}")]
   | none => [("static.tagsrun", s!"pid {p.pid}: missing")]) ++
  (if !kvB rest "deterministic" then [("static.deterministic", s!"pid {p.pid}")] else []) ++
  (if (kv rest "sourcemap_same") == some "0" then [("static.sourcemap", s!"pid {p.pid}")] else []) ++
  (if (kv rest "modifier_compiles") == some "0" then [("modifier", s!"pid {p.pid}: modifier-mode output does not compile")] else [])

/-- C20: modifier-mode code returns the same error, results and calls as base-mode code. -/
def checkModifier (o : Obs) : List Div :=
  match o.modifier with
  | none => []
  | some f =>
    if kv f "ret" == some "same" && kv f "results" == some "same" && kv f "calls" == some "same" && kv f "compiled" == some "1"
    then [] else [("modifier", " ".intercalate f)]

def checkScenario (p : Prog) (sc : Scenario) (defaultConc : Nat) (o : Obs) : List Div :=
  (match p.kind with
   | .flow => checkFlow p sc defaultConc o
   | .par => checkPar p sc defaultConc o) ++ checkModifier o

/-! ### structure of the generated job graph (`GD` line, C11)

  `GD <pid> <job>:<dep>,<dep> ...` lists, in the order of the generated `sched.Enqueue` calls, every
  job (`t<k>` = job of task k, `p<k>` = job of the predicate of task k, `?` = the harness could not
  attribute the generated name) with the jobs its `Dependencies` literal names.  It is compared
  with `genJobs p`; what `genJobs p` lists is characterised by `Gen.C11_pred_deps`
  (Gen/DepsThms.lean).  The comparison is structural, hence independent of any schedule. -/

/-- Identity of a job of the flow graph: (is a predicate job, id of the task). -/
def jid (f : Fn) : Bool × Nat := (f.isPred, f.k)

/-- The identities of the jobs that job `j` of `genJobs p` names as `Dependencies`. -/
def depIds (p : Prog) (j : Job) : List (Bool × Nat) :=
  j.deps.map fun d => jid ((genJobs p).getD d default).fn

/-- The model's job graph: every job of `genJobs p` with the identities of its dependencies. -/
def modelDeps (p : Prog) : List ((Bool × Nat) × List (Bool × Nat)) :=
  (genJobs p).map fun j => (jid j.fn, depIds p j)

def parseJid (s : String) : Option (Bool × Nat) :=
  if s.startsWith "t" then ((s.drop 1).toNat?).map fun k => (false, k)
  else if s.startsWith "p" then ((s.drop 1).toNat?).map fun k => (true, k)
  else none

def showJid : Option (Bool × Nat) → String
  | some (b, k) => (if b then "p" else "t") ++ toString k
  | none => "?"

def showJidSet (l : List (Option (Bool × Nat))) : String :=
  "{" ++ ",".intercalate (sortS (l.map showJid)).eraseDups ++ "}"

/-- One `GD` entry `<job>:<dep>,<dep>,...`. -/
def parseDepEntry (e : String) : Option (Bool × Nat) × List (Option (Bool × Nat)) :=
  match e.splitOn ":" with
  | [n, ds] => (parseJid n, if ds == "" then [] else (ds.splitOn ",").map parseJid)
  | _ => (none, [none])

/-- `entries`: the tokens of a `GD` line after the pid.  Divergences (kind `deps`):
    (a) the multiset of job identities is not that of `genJobs p`;
    (b) the SET of dependencies of a job differs from the model's (repetitions and the order inside
        the list are irrelevant);
    (c) a job names a dependency that is not enqueued earlier (any dependency-respecting order is
        fine, it need not be the model's);
    and any `?`. -/
def checkDeps (p : Prog) (entries : List String) : List Div :=
  let got := (entries.filter (· != "-")).map parseDepEntry
  let want := modelDeps p
  let unknown :=
    if got.any (fun g => g.1.isNone || g.2.any (·.isNone)) then
      [("deps", s!"pid {p.pid}: unattributed job name in [{" ".intercalate entries}]")]
    else []
  let gotIds := sortS (got.map fun g => showJid g.1)
  let wantIds := sortS (want.map fun w => showJid (some w.1))
  let ids := if gotIds != wantIds then [("deps", s!"pid {p.pid}: jobs got {gotIds} want {wantIds}")] else []
  let sets := want.flatMap fun w =>
    (got.filter (·.1 == some w.1)).flatMap fun g =>
      let wd := w.2.map some
      if g.2.all (wd.contains ·) && wd.all (g.2.contains ·) then []
      else [("deps", s!"pid {p.pid}: job {showJid (some w.1)}: Dependencies got {showJidSet g.2} want {showJidSet wd}")]
  let order := (List.range got.length).flatMap fun i =>
    let g := got.getD i (none, [])
    g.2.eraseDups.flatMap fun d =>
      if d.isSome && !((got.take i).any (·.1 == d)) then
        [("deps", s!"pid {p.pid}: job {showJid g.1} (enqueue position {i}) names {showJid d} which is not enqueued before it")]
      else []
  unknown ++ ids ++ sets ++ order

end Gen.Check
