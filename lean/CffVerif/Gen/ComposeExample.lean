/-
  Non-vacuity of the composition theorems (item 5): a concrete accepted flow, a scheduler run on
  two workers that ends the job bodies in an order different from the enqueue order and returns
  nil, with every hypothesis of `schedule_independent` / `flow_refines_ideal` checked by `decide`.

  The diamond-with-predicate program at the end of Properties.lean is sequentialised completely by
  its predicate (the predicate reads task 0's output and gates task 1, on which the join depends):
  its jobs form a chain 0 → 1 → 2 → 3 → 4 and the enqueue order is its only valid order
  (`diamond_is_a_chain`).  The example therefore uses the same diamond with the predicate reading
  the Param instead, which leaves task 0 and the predicate/task-1 branch independent.
-/
import CffVerif.Gen.Compose
import CffVerif.Gen.IdealOrder

namespace Gen.Example

open Gen Sched

def t0 : Task := { k := 0, ins := [1], outs := [2] }
def t1 : Task := { k := 1, ins := [1], outs := [3], pred := true, pins := [1] }
def t2 : Task := { k := 2, ins := [2, 3], outs := [4] }
def t3 : Task := { k := 3, ins := [4], outs := [], invoke := true }
/-- Params [1], Results [4]; t0 : 1 → 2; t1 : 1 → 3 gated by a predicate on 1; t2 : (2,3) → 4; t3 : Invoke on 4. -/
def prog : Prog := { params := [1], results := [4], tasks := [t2, t0, t3, t1] }

/-- The original diamond of Properties.lean (predicate on type 2). -/
def diamond : Prog :=
  { params := [1], results := [4],
    tasks := [t2, t0, t3, { k := 1, ins := [1], outs := [3], pred := true, pins := [2] }] }

theorem diamond_is_a_chain : (genJobs diamond).map (·.deps) = [[], [0], [1], [0, 2], [3]] := by decide

/-- The generated jobs: 0 = task 0, 1 = predicate of task 1, 2 = task 1, 3 = task 2, 4 = task 3. -/
theorem prog_jobs :
    (genJobs prog).map (fun j => (j.fn.isPred, j.fn.k, j.deps)) =
      [(false, 0, []), (true, 1, []), (false, 1, [1]), (false, 2, [0, 2]), (false, 3, [3])] := by decide

def sc : Scenario := {}

def cfg : Cfg := { N := 2, coe := false, emit := false, deps := (genJobs prog).map (·.deps) }

/-- Two workers; worker 1 runs the predicate (job 1) and then task 1 (job 2) to their ends while
    worker 0 is still inside task 0 (job 0): the bodies end in the order 1, 2, 0, 3, 4. -/
def acts : List Act :=
  [.callerSend, .loopEnq, .callerSend, .loopEnq, .callerSend, .loopEnq, .callerSend, .loopEnq,
   .callerSend, .loopEnq, .callerClose, .loopEnqClosed,
   .loopDispatch 0, .loopDispatch 1, .workerDecide 0, .workerDecide 1,
   .workerEnd 1 .ok false, .workerPost 1, .loopResult,
   .loopDispatch 1, .workerDecide 1, .workerEnd 1 .ok false,
   .workerEnd 0 .ok false, .workerPost 1, .loopResult, .workerPost 0, .loopResult,
   .loopDispatch 0, .workerDecide 0, .workerEnd 0 .ok false, .workerPost 0, .loopResult,
   .loopDispatch 0, .workerDecide 0, .workerEnd 0 .ok false, .workerPost 0, .loopResult,
   .loopClose, .callerRetFin]

theorem prog_accepted : validateFlow prog = [] := by decide
theorem prog_small : SmallTypes prog := by unfold SmallTypes; decide
theorem prog_ids : DistinctIds prog := by unfold DistinctIds; decide

/-- The run exists, ends the bodies in an order that is not the enqueue order, returns nil with all
    jobs submitted, and its log replays consistently; the replayed store has the reference value on
    the Results type. -/
theorem run_facts :
    ∃ s, run cfg (init cfg) acts = some s ∧
      endedOrder s.log = [1, 2, 0, 3, 4] ∧
      Ev.waitReturned [] ∈ s.log ∧ s.caller.sent = (genJobs prog).length ∧
      (replay prog sc s.log).2 = true ∧
      (∀ τ ∈ prog.results, (replay prog sc s.log).1.val τ = (ideal prog sc).store.val τ) ∧
      (replay prog sc s.log).1.val 4 = 2292191 := by
  decide

/-- The theorems applied to the example: the store after this out-of-order run is the reference
    store. -/
theorem example_refines : ∃ s, run cfg (init cfg) acts = some s ∧ (replay prog sc s.log).1 = (ideal prog sc).store := by
  obtain ⟨s, hr, _, hnil, hall, hcons, _⟩ := run_facts
  exact ⟨s, hr, (flow_refines_ideal prog sc prog_accepted prog_small prog_ids cfg rfl rfl (by decide) acts s hr
    hcons rfl hnil hall).1⟩

/-- A run with a failing predicate-gated branch: the predicate returns false, task 1 is gated off
    (its body still returns nil), everything else as before.  Same theorems, same conclusion. -/
theorem run_facts_pred_false :
    let sc' : Scenario := { pred := [(1, .f)] }
    ∃ s, run cfg (init cfg) acts = some s ∧ (replay prog sc' s.log).2 = true ∧
      (replay prog sc' s.log).1.val 4 = (ideal prog sc').store.val 4 ∧
      (replay prog sc' s.log).1.val 3 = 0 := by
  decide

/-- A failing run (fail-fast): task 0's function returns an error while the predicate branch
    already finished; the scheduler logs `ended 0 (fail 7)`, nothing downstream runs and `Wait`
    returns that error.  The log replays consistently (the outcome is `ok` exactly for the bodies
    that return nil), so `schedule_independent` applies to it. -/
def actsFail : List Act :=
  [.callerSend, .loopEnq, .callerSend, .loopEnq, .callerSend, .loopEnq, .callerSend, .loopEnq,
   .callerSend, .loopEnq, .callerClose, .loopEnqClosed,
   .loopDispatch 0, .loopDispatch 1, .workerDecide 0, .workerDecide 1,
   .workerEnd 1 .ok false, .workerPost 1, .loopResult,
   .loopDispatch 1, .workerDecide 1, .workerEnd 1 .ok false,
   .workerEnd 0 (.fail 7) false, .workerPost 1, .loopResult, .workerPost 0, .loopResult,
   .loopClose, .callerRetFin]

theorem run_facts_fail :
    let sc' : Scenario := { fn := [(0, .err)] }
    ∃ s, run cfg (init cfg) actsFail = some s ∧ endedOrder s.log = [1, 2, 0] ∧
      s.caller.ret = some [.fail 7] ∧ (replay prog sc' s.log).2 = true ∧
      -- with the wrong scenario (task 0 succeeds) the same log is *not* consistent
      (replay prog sc s.log).2 = false ∧
      -- the value task 1 computed is the reference value; task 0's output was never assigned
      (replay prog sc' s.log).1.val 3 = (ideal prog sc').store.val 3 ∧
      (replay prog sc' s.log).1.val 2 = 0 := by
  decide

/-- The reference execution is the execution of a valid order (here: all five jobs, in enqueue order). -/
theorem ideal_order : idealOrder prog sc = [0, 1, 2, 3, 4] := by decide

end Gen.Example
