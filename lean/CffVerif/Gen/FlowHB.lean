/-
  C12 — race freedom of the GENERATED CODE's shared variables, lifted from the scheduler.

  `Sched/HB.lean` proves that the scheduler's own memory is race free (`Sched.C12_race_free`) and
  defines happens-before (`Sched.hb`) on the positions of a run.  `Gen/FlowCorollaries3.lean`
  proves the single-writer discipline of the closure variables of a generated flow in terms of
  LOG positions (`C12_flow_single_writer_every_schedule`), trusting that the hand-offs
  `ended → resultSeen → dispatched → started` are channel operations.  This file removes that
  trust: it places the BODIES of the jobs on the positions of the run and proves that the
  happens-before relation of the Go memory model — the very relation `Sched.hb` — orders every
  pair of bodies that access a common closure variable, one of them writing it.

  * §1 `startPos`, `endPos`, `sendPos`, `retPos`, `retCtxPos` — the position (index into `acts`)
    of the action that logs `started j` (a `workerDecide w` that decides to run the body), that
    logs `ended j o` (`workerEnd w o cancel`), of the `Enqueue` call of job `j` (`callerSend`),
    and of `Wait`'s return through `finishedc` (`callerRetFin`) / through its context arm
    (`callerRetCtx`).  The model's bodies are ATOMIC at `workerEnd`: the accesses of the body of
    job `j` to the closure variables all happen on thread `worker w` between `startPos j` and
    `endPos j` (`body_positions`: same slot `w`, `startPos < endPos`, and `startPos →hb endPos` by
    program order).  So "the whole body of `i` happens-before the whole body of `j`" is
    `hb (endPos i) (startPos j)`.
  * §2–§5 helpers: what an action logs (`Logs`, `step_logs`), who changes a worker slot
    (`step_slot`, `slot_until`), the chain `workerEnd →po workerPost →(done i) loopResult`
    (`hb_end_seen`), then `loopResult →po loopDispatch →(readyc) workerDecide` for a dependency
    (`hb_dep_end_start`) and `loopResult →po loopClose →(finishedc) callerRetFin` for the
    epilogue (`hb_seen_ret`, `started_seen_of_exit`).
  * Property theorems (final section): `C12_flow_race_free`, `C12_flow_results_race_free`,
    `C12_par_race_free`, `C12_retCtx_not_ordered`, and their application to concrete runs.
-/
import CffVerif.Sched.HB
import CffVerif.Gen.FlowCorollaries3
import CffVerif.Gen.ParCorollaries

namespace Sched

open Loop Race

/-! ## 1. Positions of the events of a run -/

/-- The action at position `i` of the run is the first one after which the log contains an event
    satisfying `P`: "position `i` logs `P`". -/
def logsAt (c : Cfg) (acts : List Act) (P : Ev → Bool) (i : Nat) : Bool :=
  match stAt c acts i, stAt c acts (i + 1) with
  | some s, some s' => !s.log.any P && s'.log.any P
  | _, _ => false

/-- The position that logs `P`, if any (it is unique: the log only grows). -/
def firstPos (c : Cfg) (acts : List Act) (P : Ev → Bool) : Option Nat :=
  (List.range acts.length).find? (logsAt c acts P)

/-- The position of the action that logs `started j`: the worker's decision to run the body of
    job `j` (`res.Err = j.run(j.ctx)` is entered). -/
def startPos (c : Cfg) (acts : List Act) (j : Nat) : Option Nat := firstPos c acts (· == Ev.started j)

/-- The position of the action that logs `ended j o`: the body of job `j` returns (or calls
    `runtime.Goexit`).  The model's bodies are atomic at this action. -/
def endPos (c : Cfg) (acts : List Act) (j : Nat) : Option Nat := firstPos c acts (Ev.isEndedOf j)

/-- The position of the `Enqueue` call of job `j` (it logs `sent j`). -/
def sendPos (c : Cfg) (acts : List Act) (j : Nat) : Option Nat := firstPos c acts (· == Ev.sent j)

/-- The position of `Wait`'s return through `case <-s.finishedc` (`callerRetFin`). -/
def retPos (acts : List Act) : Option Nat :=
  (List.range acts.length).find? (fun i => acts[i]? == some .callerRetFin)

/-- The position of `Wait`'s return through `case <-ctx.Done()` (`callerRetCtx`). -/
def retCtxPos (acts : List Act) : Option Nat :=
  (List.range acts.length).find? (fun i => acts[i]? == some .callerRetCtx)

/-- Position `q` is worker `w` deciding to run the body of job `j`. -/
def IsStart (c : Cfg) (acts : List Act) (q w j : Nat) : Prop :=
  ∃ sq sq', acts[q]? = some (.workerDecide w) ∧ stAt c acts q = some sq ∧ stAt c acts (q + 1) = some sq' ∧
    sq.ws[w]? = some (.holding j) ∧ sq'.ws[w]? = some (.running j)

/-- Position `q` is the end of the body of job `j`, with outcome `o`, on worker `w`. -/
def IsEnd (c : Cfg) (acts : List Act) (q w j : Nat) (o : Outcome) : Prop :=
  ∃ cancel sq, acts[q]? = some (.workerEnd w o cancel) ∧ stAt c acts q = some sq ∧
    sq.ws[w]? = some (.running j)

/-! Helper lemmas live in `Sched.BodyHB`. -/
namespace BodyHB

/-! ## 2. What an action logs -/

/-- `Logs c s s' a e`: the events an action `a` taking `s` to `s'` may append to the log, with
    what is known about the states. -/
inductive Logs (c : Cfg) (s s' : State) : Act → Ev → Prop where
  | send : Logs c s s' .callerSend (.sent s.caller.sent)
  | retCtx : Logs c s s' .callerRetCtx (.waitReturned [.ctxErr])
  | retFin : Logs c s s' .callerRetFin (.waitReturned (retVal c s))
  | reg (j : Nat) : Logs c s s' .loopEnq (.registered j)
  | disp (w j : Nat) : Logs c s s' (.loopDispatch w) (.dispatched j)
  | seen (j : Nat) (r : Res) (rest : List (Nat × Res)) : s.loop.phase = .select → s.donec = (j, r) :: rest →
      Logs c s s' .loopResult (.resultSeen j r)
  | winv (k : Nat) : Logs c s s' .loopResult (.wroteInvalid k)
  | tick (st : Report) : Logs c s s' .loopTick (.report st)
  | close : Logs c s s' .loopClose .loopExit
  | skip (w j : Nat) (why : SkipWhy) : Logs c s s' (.workerDecide w) (.skipped j why)
  | start (w j : Nat) : s.ws[w]? = some (.holding j) → s'.ws[w]? = some (.running j) →
      Logs c s s' (.workerDecide w) (.started j)
  | ended (w j : Nat) (o : Outcome) (cancel : Bool) : s.ws[w]? = some (.running j) →
      Logs c s s' (.workerEnd w o cancel) (.ended j o)
  | endCancel (w : Nat) (o : Outcome) (cancel : Bool) (x : Nat) : Logs c s s' (.workerEnd w o cancel) (.cancelled x)
  | cancel (x : Nat) : Logs c s s' (.cancel x) (.cancelled x)

theorem mem_new {α : Type} {l es : List α} {e : α} (hn : e ∉ l) (he : e ∈ l ++ es) : e ∈ es := by
  rcases List.mem_append.mp he with h | h
  · exact absurd h hn
  · exact h

/-- Every new event of a step is one of `Logs`. -/
theorem step_logs {c : Cfg} (hw : c.wiring = Wiring.std) {s s' : State} {a : Act}
    (hs : step c s a = some s') {e : Ev} (hn : e ∉ s.log) (he : e ∈ s'.log) : Logs c s s' a e := by
  cases a with
  | callerSend =>
    obtain ⟨_, _, _, _, rfl⟩ := inv_callerSend hs
    have h := mem_new (l := s.log) (es := [Ev.sent s.caller.sent]) hn he
    simp only [List.mem_singleton] at h; subst h; exact .send
  | callerClose => obtain ⟨_, _, rfl⟩ := inv_callerClose hs; exact absurd he hn
  | callerRetCtx =>
    obtain ⟨_, _, _, rfl⟩ := inv_callerRetCtx hw hs
    have h := mem_new (l := s.log) (es := [Ev.waitReturned [.ctxErr]]) hn he
    simp only [List.mem_singleton] at h; subst h; exact .retCtx
  | callerRetFin =>
    obtain ⟨_, _, _, rfl⟩ := inv_callerRetFin hs
    have h := mem_new (l := s.log) (es := [Ev.waitReturned (retVal c s)]) hn he
    simp only [List.mem_singleton] at h; subst h; exact .retFin
  | loopEnq =>
    obtain ⟨j, _, _, _, _, rfl⟩ := inv_loopEnq hs
    have h := mem_new (l := s.log) (es := [Ev.registered j]) hn he
    simp only [List.mem_singleton] at h; subst h; exact .reg j
  | loopEnqClosed => obtain ⟨_, _, _, _, rfl⟩ := inv_loopEnqClosed hs; exact absurd he hn
  | loopDispatch w =>
    obtain ⟨j, _, _, _, _, rfl⟩ := inv_loopDispatch hs
    have h := mem_new (l := s.log) (es := [Ev.dispatched j]) hn he
    simp only [List.mem_singleton] at h; subst h; exact .disp w j
  | loopResult =>
    obtain ⟨j, r, rest, hp, hdc, rfl⟩ := inv_loopResult hs
    rcases List.mem_append.mp he with h | h
    · have h := mem_new hn h
      simp only [List.mem_singleton] at h; subst h; exact .seen j r rest hp hdc
    · split at h
      · simp only [invalidWrites, List.mem_map] at h
        obtain ⟨k, _, rfl⟩ := h
        exact .winv k
      · simp at h
  | loopTick =>
    obtain ⟨_, _, rfl⟩ := inv_loopTick hs
    have h := mem_new (l := s.log) (es := [Ev.report (Loop.report c s.loop)]) hn he
    simp only [List.mem_singleton] at h; subst h; exact .tick _
  | loopDrain => obtain ⟨_, _, _, _, rfl⟩ := inv_loopDrain hw hs; exact absurd he hn
  | loopClose =>
    obtain ⟨_, _, _, rfl⟩ := inv_loopClose hw hs
    have h := mem_new (l := s.log) (es := [Ev.loopExit]) hn he
    simp only [List.mem_singleton] at h; subst h; exact .close
  | workerDecide w =>
    obtain ⟨j, hj, hc⟩ := inv_workerDecide hw hs
    rcases hc with ⟨_, rfl⟩ | ⟨_, _, rfl⟩ | ⟨_, _, rfl⟩
    · have h := mem_new (l := s.log) (es := [Ev.skipped j .ctx]) hn he
      simp only [List.mem_singleton] at h; subst h; exact .skip w j _
    · have h := mem_new (l := s.log) (es := [Ev.skipped j .invalid]) hn he
      simp only [List.mem_singleton] at h; subst h; exact .skip w j _
    · have h := mem_new (l := s.log) (es := [Ev.started j]) hn he
      simp only [List.mem_singleton] at h; subst h
      exact .start w j hj (List.getElem?_set_self (List.getElem?_eq_some_iff.mp hj).1)
  | workerEnd w o cancel =>
    obtain ⟨j, hj, rfl⟩ := inv_workerEnd hs
    have he' : e ∈ (afterBody c s j o cancel).log := he
    rcases afterBody_log c s j o cancel with h | h <;> rw [h] at he'
    · have h := mem_new hn he'
      simp only [List.mem_singleton] at h; subst h; exact .ended w j o cancel hj
    · have h := mem_new hn he'
      simp only [List.mem_cons, List.not_mem_nil, or_false] at h
      rcases h with rfl | rfl
      · exact .ended w j o cancel hj
      · exact .endCancel w o cancel _
  | workerPost w => obtain ⟨_, _, _, _, rfl⟩ := inv_workerPost hs; exact absurd he hn
  | workerDiePost w => obtain ⟨_, _, _, rfl⟩ := inv_workerDiePost hw hs; exact absurd he hn
  | workerExit w => obtain ⟨_, _, rfl⟩ := inv_workerExit hs; exact absurd he hn
  | cancel x =>
    obtain ⟨_, _, rfl⟩ := inv_cancel hs
    have h := mem_new (l := s.log) (es := [Ev.cancelled x]) hn he
    simp only [List.mem_singleton] at h; subst h; exact .cancel x

/-! ## 3. The position that logs an event -/

section Pos

variable {c : Cfg} {acts : List Act} {P : Ev → Bool}

theorem stAt_ge {p : Nat} (hp : acts.length ≤ p) : stAt c acts p = stAt c acts acts.length := by
  unfold stAt; rw [List.take_of_length_le hp, List.take_length]

theorem stAt_length {s : State} (hrun : run c (init c) acts = some s) : stAt c acts acts.length = some s := by
  unfold stAt; rw [List.take_length]; exact hrun

theorem any_mono (hw : c.wiring = Wiring.std) {p p' : Nat} {sp sp' : State} (hpp : p ≤ p')
    (h : stAt c acts p = some sp) (h' : stAt c acts p' = some sp') (ha : sp.log.any P = true) :
    sp'.log.any P = true := by
  obtain ⟨e, he, hP⟩ := List.any_eq_true.mp ha
  exact List.any_eq_true.mpr ⟨e, log_mono hw hpp h h' e he, hP⟩

theorem logsAt_iff {q : Nat} : logsAt c acts P q = true ↔
    ∃ sq sq', stAt c acts q = some sq ∧ stAt c acts (q + 1) = some sq' ∧
      sq.log.any P = false ∧ sq'.log.any P = true := by
  unfold logsAt
  constructor
  · intro h
    split at h
    · next s s' h1 h2 =>
      simp only [Bool.and_eq_true, Bool.not_eq_true'] at h
      exact ⟨s, s', h1, h2, h.1, h.2⟩
    · simp at h
  · rintro ⟨sq, sq', h1, h2, h3, h4⟩
    simp [h1, h2, h3, h4]

theorem logsAt_lt {q : Nat} (h : logsAt c acts P q = true) : q < acts.length := by
  apply Classical.byContradiction
  intro hge
  obtain ⟨sq, sq', h1, h2, h3, h4⟩ := logsAt_iff.mp h
  rw [stAt_ge (by omega)] at h1 h2
  rw [h1] at h2
  simp only [Option.some.injEq] at h2
  subst h2
  rw [h3] at h4; cases h4

theorem logsAt_unique (hw : c.wiring = Wiring.std) {q q' : Nat} (h : logsAt c acts P q = true)
    (h' : logsAt c acts P q' = true) : q = q' := by
  have key : ∀ {a b : Nat}, logsAt c acts P a = true → logsAt c acts P b = true → a < b → False := by
    intro a b ha hb hab
    obtain ⟨_, sa', _, h2, _, h4⟩ := logsAt_iff.mp ha
    obtain ⟨sb, _, h1', _, h3', _⟩ := logsAt_iff.mp hb
    have := any_mono hw (Nat.succ_le_of_lt hab) h2 h1' h4
    rw [h3'] at this; cases this
  rcases Nat.lt_trichotomy q q' with hlt | he | hlt
  · exact (key h h' hlt).elim
  · exact he
  · exact (key h' h hlt).elim

theorem firstPos_iff (hw : c.wiring = Wiring.std) {q : Nat} :
    firstPos c acts P = some q ↔ logsAt c acts P q = true := by
  unfold firstPos
  constructor
  · intro h; exact List.find?_some h
  · intro h
    have hm : q ∈ List.range acts.length := List.mem_range.mpr (logsAt_lt h)
    cases hf : (List.range acts.length).find? (logsAt c acts P) with
    | none => exact absurd h (by simpa using List.find?_eq_none.mp hf q hm)
    | some q' => rw [logsAt_unique hw (List.find?_some hf) h]

theorem exists_logsAt {s : State} (hrun : run c (init c) acts = some s) :
    ∀ (p : Nat) (sp : State), stAt c acts p = some sp → sp.log.any P = true →
      ∃ q, q < p ∧ logsAt c acts P q = true := by
  intro p
  induction p with
  | zero =>
    intro sp h ha
    rw [stAt_zero] at h
    simp only [Option.some.injEq] at h
    subst h
    simp [init] at ha
  | succ p ih =>
    intro sp' h' ha
    obtain ⟨sp, h⟩ := stAt_isSome hrun p
    cases hp : sp.log.any P with
    | true =>
      obtain ⟨q, hq, hl⟩ := ih sp h hp
      exact ⟨q, by omega, hl⟩
    | false => exact ⟨p, by omega, logsAt_iff.mpr ⟨sp, sp', h, h', hp, ha⟩⟩

/-- With `q` the position that logs `P`: the log of the state before position `p` contains a
    `P`-event exactly when `q < p`. -/
theorem firstPos_lt_iff (hw : c.wiring = Wiring.std) {s : State} (hrun : run c (init c) acts = some s)
    {q p : Nat} {sp : State} (hf : firstPos c acts P = some q) (hp : stAt c acts p = some sp) :
    sp.log.any P = true ↔ q < p := by
  have hl := (firstPos_iff hw).mp hf
  constructor
  · intro ha
    obtain ⟨q', hq', hl'⟩ := exists_logsAt hrun p sp hp ha
    rw [logsAt_unique hw hl hl']; exact hq'
  · intro hqp
    obtain ⟨_, sq', _, h2, _, h4⟩ := logsAt_iff.mp hl
    exact any_mono hw (Nat.succ_le_of_lt hqp) h2 hp h4

/-- The position exists iff the final log contains such an event. -/
theorem firstPos_exists_iff (hw : c.wiring = Wiring.std) {s : State} (hrun : run c (init c) acts = some s) :
    (∃ q, firstPos c acts P = some q) ↔ s.log.any P = true := by
  constructor
  · rintro ⟨q, hf⟩
    have hl := (firstPos_iff hw).mp hf
    exact (firstPos_lt_iff hw hrun hf (stAt_length hrun)).mpr (logsAt_lt hl)
  · intro ha
    obtain ⟨q, _, hl⟩ := exists_logsAt hrun acts.length s (stAt_length hrun) ha
    exact ⟨q, (firstPos_iff hw).mpr hl⟩

/-- The step taken at the position that logs `P`, and the `P`-event it logs. -/
theorem logsAt_event (hw : c.wiring = Wiring.std) {s : State} (hrun : run c (init c) acts = some s) {q : Nat}
    (h : logsAt c acts P q = true) :
    ∃ a sq sq' e, acts[q]? = some a ∧ stAt c acts q = some sq ∧ stAt c acts (q + 1) = some sq' ∧
      step c sq a = some sq' ∧ P e = true ∧ e ∉ sq.log ∧ e ∈ sq'.log ∧ Logs c sq sq' a e := by
  have hlt := logsAt_lt h
  obtain ⟨sq, sq', h1, h2, h3, h4⟩ := logsAt_iff.mp h
  have ha : acts[q]? = some acts[q] := List.getElem?_eq_getElem hlt
  obtain ⟨sq'', hst, hnext⟩ := pos_step hrun ha h1
  rw [h2] at hnext
  simp only [Option.some.injEq] at hnext
  subst hnext
  obtain ⟨e, he, hP⟩ := List.any_eq_true.mp h4
  have hn : e ∉ sq.log := by
    intro hm
    have : sq.log.any P = true := List.any_eq_true.mpr ⟨e, hm, hP⟩
    rw [h3] at this; cases this
  exact ⟨acts[q], sq, sq', e, ha, h1, h2, hst, hP, hn, he, step_logs hw hst hn he⟩

theorem any_eq_iff_mem {l : List Ev} {e : Ev} : l.any (· == e) = true ↔ e ∈ l := by
  simp [List.any_eq_true]

theorem startPos_isStart (hw : c.wiring = Wiring.std) {s : State} (hrun : run c (init c) acts = some s)
    {j q : Nat} (h : startPos c acts j = some q) : ∃ w, IsStart c acts q w j := by
  obtain ⟨a, sq, sq', e, ha, h1, h2, _, hP, _, _, hL⟩ := logsAt_event hw hrun ((firstPos_iff hw).mp h)
  simp only [beq_iff_eq] at hP
  subst hP
  cases hL with
  | start w _ hh hr => exact ⟨w, sq, sq', ha, h1, h2, hh, hr⟩

theorem endPos_isEnd (hw : c.wiring = Wiring.std) {s : State} (hrun : run c (init c) acts = some s)
    {j q : Nat} (h : endPos c acts j = some q) : ∃ w o, IsEnd c acts q w j o ∧ Ev.ended j o ∈ s.log := by
  have hl := (firstPos_iff hw).mp h
  obtain ⟨a, sq, sq', e, ha, h1, h2, _, hP, _, hm, hL⟩ := logsAt_event hw hrun hl
  obtain ⟨o, rfl⟩ := isEndedOf_eq hP
  cases hL with
  | ended w _ _ cancel hr =>
    exact ⟨w, o, ⟨cancel, sq, ha, h1, hr⟩,
      log_mono hw (Nat.succ_le_of_lt (logsAt_lt hl)) h2 (stAt_length hrun) _ hm⟩

theorem sendPos_isSend (hw : c.wiring = Wiring.std) {s : State} (hrun : run c (init c) acts = some s)
    {j q : Nat} (h : sendPos c acts j = some q) : IsSend c acts q j := by
  obtain ⟨a, sq, sq', e, ha, h1, h2, _, hP, _, _, hL⟩ := logsAt_event hw hrun ((firstPos_iff hw).mp h)
  simp only [beq_iff_eq] at hP
  cases hL <;> simp only [reduceCtorEq, Ev.sent.injEq] at hP
  exact ⟨sq, ha, h1, hP⟩

theorem startPos_exists_iff (hw : c.wiring = Wiring.std) {s : State} (hrun : run c (init c) acts = some s)
    (j : Nat) : (∃ q, startPos c acts j = some q) ↔ Ev.started j ∈ s.log := by
  unfold startPos
  rw [firstPos_exists_iff hw hrun, any_eq_iff_mem]

theorem endPos_exists_iff (hw : c.wiring = Wiring.std) {s : State} (hrun : run c (init c) acts = some s)
    (j : Nat) : (∃ q, endPos c acts j = some q) ↔ ∃ o, Ev.ended j o ∈ s.log := by
  unfold endPos
  rw [firstPos_exists_iff hw hrun, List.any_eq_true]
  constructor
  · rintro ⟨e, he, hP⟩
    obtain ⟨o, rfl⟩ := isEndedOf_eq hP
    exact ⟨o, he⟩
  · rintro ⟨o, ho⟩
    exact ⟨_, ho, by simp [Ev.isEndedOf]⟩

theorem sendPos_exists_iff (hw : c.wiring = Wiring.std) {s : State} (hrun : run c (init c) acts = some s)
    (j : Nat) : (∃ q, sendPos c acts j = some q) ↔ Ev.sent j ∈ s.log := by
  unfold sendPos
  rw [firstPos_exists_iff hw hrun, any_eq_iff_mem]

end Pos

/-! ## 4. Who changes a worker slot -/

/-- The only actions that take worker slot `w` out of state `x`. -/
def SlotAct (w : Nat) : W → Act → Prop
  | .idle, a => a = .loopDispatch w ∨ a = .workerExit w
  | .holding _, a => a = .workerDecide w
  | .running _, a => ∃ o cancel, a = .workerEnd w o cancel
  | .posting _ _, a => a = .workerPost w
  | .dying _, a => a = .workerDiePost w
  | .exited, _ => False

/-- A step leaves worker slot `w` as it is, unless it is the action of that slot's state. -/
theorem step_slot {c : Cfg} (hw : c.wiring = Wiring.std) {s s' : State} {a : Act} (hs : step c s a = some s')
    {w : Nat} {x : W} (hx : s.ws[w]? = some x) : s'.ws[w]? = some x ∨ SlotAct w x a := by
  have same : s'.ws = s.ws → s'.ws[w]? = some x ∨ SlotAct w x a := fun e => Or.inl (by rw [e]; exact hx)
  have own : ∀ (w0 : Nat) (y0 y : W), s.ws[w0]? = some y0 → s'.ws = s.ws.set w0 y →
      (w0 = w → y0 = x → SlotAct w x a) → s'.ws[w]? = some x ∨ SlotAct w x a := by
    intro w0 y0 y h0 e hact
    by_cases hww : w0 = w
    · subst hww
      rw [hx] at h0
      exact Or.inr (hact rfl (Option.some.inj h0).symm)
    · left; rw [e, List.getElem?_set_ne hww]; exact hx
  cases a with
  | callerSend => obtain ⟨_, _, _, _, rfl⟩ := inv_callerSend hs; exact same rfl
  | callerClose => obtain ⟨_, _, rfl⟩ := inv_callerClose hs; exact same rfl
  | callerRetCtx => obtain ⟨_, _, _, rfl⟩ := inv_callerRetCtx hw hs; exact same rfl
  | callerRetFin => obtain ⟨_, _, _, rfl⟩ := inv_callerRetFin hs; exact same rfl
  | loopEnq => obtain ⟨_, _, _, _, _, rfl⟩ := inv_loopEnq hs; exact same rfl
  | loopEnqClosed => obtain ⟨_, _, _, _, rfl⟩ := inv_loopEnqClosed hs; exact same rfl
  | loopDispatch w0 =>
    obtain ⟨j, l, _, hi, _, rfl⟩ := inv_loopDispatch hs
    exact own w0 _ (.holding j) hi rfl (fun e1 e2 => by subst e1; subst e2; exact Or.inl rfl)
  | loopResult => obtain ⟨_, _, _, _, _, rfl⟩ := inv_loopResult hs; exact same rfl
  | loopTick => obtain ⟨_, _, rfl⟩ := inv_loopTick hs; exact same rfl
  | loopDrain => obtain ⟨_, _, _, _, rfl⟩ := inv_loopDrain hw hs; exact same rfl
  | loopClose => obtain ⟨_, _, _, rfl⟩ := inv_loopClose hw hs; exact same rfl
  | workerDecide w0 =>
    obtain ⟨j, hj, hc⟩ := inv_workerDecide hw hs
    rcases hc with ⟨_, rfl⟩ | ⟨_, _, rfl⟩ | ⟨_, _, rfl⟩ <;>
      exact own w0 _ _ hj rfl (fun e1 e2 => by subst e1; subst e2; exact rfl)
  | workerEnd w0 o cancel =>
    obtain ⟨j, hj, rfl⟩ := inv_workerEnd hs
    refine own w0 _ (if o = .goexit then .dying j else .posting j (outcomeRes o)) hj
      (by simp [(afterBody_frame c s j o cancel).2.1])
      (fun e1 e2 => by subst e1; subst e2; exact ⟨o, cancel, rfl⟩)
  | workerPost w0 =>
    obtain ⟨j, r, hj, _, rfl⟩ := inv_workerPost hs
    exact own w0 _ _ hj rfl (fun e1 e2 => by subst e1; subst e2; exact rfl)
  | workerDiePost w0 =>
    obtain ⟨j, hj, _, rfl⟩ := inv_workerDiePost hw hs
    exact own w0 _ _ hj rfl (fun e1 e2 => by subst e1; subst e2; exact rfl)
  | workerExit w0 =>
    obtain ⟨hj, _, rfl⟩ := inv_workerExit hs
    exact own w0 _ _ hj rfl (fun e1 e2 => by subst e1; subst e2; exact Or.inr rfl)
  | cancel x => obtain ⟨_, _, rfl⟩ := inv_cancel hs; exact same rfl

section Slot

variable {c : Cfg} {acts : List Act}

/-- From a position where slot `w` is in state `x`: at every later position the slot is still in
    state `x`, or in between the slot's own action was taken (in a state where the slot was still
    `x`). -/
theorem slot_until (hw : c.wiring = Wiring.std) {s : State} (hrun : run c (init c) acts = some s)
    {w : Nat} {x : W} {q0 : Nat} {s0 : State} (h0 : stAt c acts q0 = some s0) (hx : s0.ws[w]? = some x) :
    ∀ (n : Nat) (sp : State), stAt c acts (q0 + n) = some sp →
      sp.ws[w]? = some x ∨
      ∃ q a sq, q0 ≤ q ∧ q < q0 + n ∧ acts[q]? = some a ∧ stAt c acts q = some sq ∧
        sq.ws[w]? = some x ∧ SlotAct w x a := by
  intro n
  induction n with
  | zero =>
    intro sp h
    rw [Nat.add_zero, h0] at h
    simp only [Option.some.injEq] at h
    subst h
    exact Or.inl hx
  | succ n ih =>
    intro sp' h'
    obtain ⟨sp, h⟩ := stAt_isSome hrun (q0 + n)
    rcases ih sp h with hs | ⟨q, a, sq, h1, h2, h3, h4, h5, h6⟩
    · by_cases hlen : q0 + n < acts.length
      · have ha : acts[q0 + n]? = some acts[q0 + n] := List.getElem?_eq_getElem hlen
        obtain ⟨sp'', hst, hnext⟩ := pos_step hrun ha h
        have e : q0 + (n + 1) = q0 + n + 1 := by omega
        rw [e, hnext] at h'
        simp only [Option.some.injEq] at h'
        subst h'
        rcases step_slot hw hst hs with hk | hk
        · exact Or.inl hk
        · exact Or.inr ⟨q0 + n, _, sp, by omega, by omega, ha, h, hs, hk⟩
      · rw [stAt_ge (by omega)] at h'
        rw [stAt_ge (by omega)] at h
        rw [h] at h'
        simp only [Option.some.injEq] at h'
        subst h'
        exact Or.inl hs
    · exact Or.inr ⟨q, a, sq, h1, by omega, h3, h4, h5, h6⟩

end Slot

/-! ## 5. The happens-before chains -/

section Chains

variable {c : Cfg} {acts : List Act}

theorem stAt_full (hw : c.wiring = Wiring.std) (hwf : WfCfg c) {p : Nat} {sp : State}
    (h : stAt c acts p = some sp) : Reach2 c sp ∧ Inv8 c sp :=
  full_run hw hwf (acts.take p) sp h

theorem posted_mono (hw : c.wiring = Wiring.std) (hwf : WfCfg c) {k p p' : Nat} {sp sp' : State} (hpp : p ≤ p')
    (h : stAt c acts p = some sp) (h' : stAt c acts p' = some sp') (hP : Posted k sp) : Posted k sp' := by
  rw [stAt_run hpp h] at h'
  exact (run_induct (c := c) (fun u => Reach c u ∧ Posted k u)
    (fun u a u' hu hst => ⟨P3.reach_step hw hwf hu.1 hst, step_posted hw hwf hu.1 hst hu.2⟩) _ _ _
    ⟨(stAt_reach hw hwf h).1, hP⟩ h').2

/-- A send (close) synchronises with the receive of that value (that observes it). -/
theorem edge_msg {i j : Nat} {a b : Act} {si sj : State} {m : Msg} (hij : i < j) (ha : acts[i]? = some a)
    (hb : acts[j]? = some b) (hsi : stAt c acts i = some si) (hsj : stAt c acts j = some sj)
    (hr : m ∈ rel si a) (hq : m ∈ acq sj b) : edgeB c acts i j = true := by
  simp [edgeB, hij, ha, hb, hsi, hsj]
  exact Or.inr ⟨m, hr, hq⟩

/-- `workerEnd` of job `d` →(program order of the worker) the post of `d`'s result on `donec`
    →(that value) the result arm that receives it. -/
theorem hb_end_seen (hw : c.wiring = Wiring.std) (hwf : WfCfg c) {s : State} (hrun : run c (init c) acts = some s)
    {e w d : Nat} {o : Outcome} (hE : IsEnd c acts e w d o) {qr : Nat} {sr : State} {r : Res}
    {rest : List (Nat × Res)} (har : acts[qr]? = some .loopResult) (hsr : stAt c acts qr = some sr)
    (hdc : sr.donec = (d, r) :: rest) : hb c acts e qr := by
  obtain ⟨cancel, se, hae, hse, hslot⟩ := hE
  obtain ⟨se', hst, hnext⟩ := pos_step hrun hae hse
  have hPr : Posted d sr := Or.inl ⟨r, by rw [hdc]; exact List.mem_cons_self⟩
  have heq : e < qr := by
    rcases Nat.lt_trichotomy e qr with h | h | h
    · exact h
    · subst h; rw [hae] at har; cases har
    · exact (posted_not_held (stAt_reach hw hwf hse).1
        (posted_mono hw hwf (Nat.le_of_lt h) hsr hse hPr) hslot rfl).elim
  obtain ⟨j, hj, hse'⟩ := inv_workerEnd hst
  rw [hslot] at hj
  simp only [Option.some.injEq, W.running.injEq] at hj
  subst hj
  have hy : ∃ y : W, se'.ws[w]? = some y ∧ (y = .dying d ∨ y = .posting d (outcomeRes o)) := by
    refine ⟨if o = .goexit then .dying d else .posting d (outcomeRes o), ?_, by split <;> simp⟩
    rw [hse']
    show ((afterBody c se d o cancel).ws.set w _)[w]? = _
    rw [(afterBody_frame c se d o cancel).2.1]
    exact List.getElem?_set_self (List.getElem?_eq_some_iff.mp hslot).1
  obtain ⟨y, hy, hyc⟩ := hy
  have hyj : y.job? = some d := by rcases hyc with rfl | rfl <;> rfl
  obtain ⟨n, hn⟩ : ∃ n, qr = e + 1 + n := ⟨qr - (e + 1), by omega⟩
  subst hn
  rcases slot_until hw hrun hnext hy n sr hsr with hs | ⟨q, a, sq, h1, h2, h3, h4, h5, h6⟩
  · exact (posted_not_held (stAt_reach hw hwf hsr).1 hPr hs hyj).elim
  · have hta : a.thread = .worker w ∧ Msg.done d ∈ rel sq a := by
      rcases hyc with rfl | rfl
      · have : a = .workerDiePost w := h6
        subst this
        exact ⟨rfl, by simp [rel, h5]⟩
      · have : a = .workerPost w := h6
        subst this
        exact ⟨rfl, by simp [rel, h5]⟩
    have e1 : edgeB c acts e q = true :=
      edge_po (by omega) hae h3 hse h4 (by rw [hta.1]; rfl) (by simp [Act.thread])
    have e2 : edgeB c acts q (e + 1 + n) = true :=
      edge_msg h2 h3 har h4 hsr hta.2 (by simp [acq, hdc])
    exact .tail (.single e1) e2

/-- **The positions of a body.**  The start and the end of the body of job `j` are actions of the
    same worker slot `w`, the start comes first, and it happens-before the end (program order). -/
theorem body_positions (hw : c.wiring = Wiring.std) (hwf : WfCfg c) {s : State}
    (hrun : run c (init c) acts = some s) {j q e : Nat} (hq : startPos c acts j = some q)
    (he : endPos c acts j = some e) :
    q < e ∧ ∃ w o, IsStart c acts q w j ∧ IsEnd c acts e w j o ∧ edgeB c acts q e = true := by
  obtain ⟨w, hS⟩ := startPos_isStart hw hrun hq
  obtain ⟨w', o, hE, _⟩ := endPos_isEnd hw hrun he
  obtain ⟨sq, sq', haq, hsq, hsq', hhold, hrunning⟩ := hS
  obtain ⟨cancel, se, hae, hse, hslot⟩ := hE
  have hqe : q < e := by
    have hst := ((stAt_full hw hwf hse).1.i6.runFresh w' j hslot).1
    exact (firstPos_lt_iff hw hrun hq hse).mp (any_eq_iff_mem.mpr hst)
  have hww : w' = w := by
    obtain ⟨n, hn⟩ : ∃ n, e = q + 1 + n := ⟨e - (q + 1), by omega⟩
    subst hn
    rcases slot_until hw hrun hsq' hrunning n se hse with hs | ⟨q2, a, sq2, h1, h2, h3, h4, h5, h6⟩
    · exact ((holder_facts (stAt_reach hw hwf hse).1.i1 hs rfl).2.2.1 w' _ hslot rfl)
    · exfalso
      obtain ⟨o2, c2, rfl⟩ : ∃ o2 c2, a = .workerEnd w o2 c2 := h6
      obtain ⟨sq2', hst, hnext⟩ := pos_step hrun h3 h4
      obtain ⟨j', hj', hs2⟩ := inv_workerEnd hst
      rw [h5] at hj'
      simp only [Option.some.injEq, W.running.injEq] at hj'
      subst hj'
      have hm : Ev.ended j o2 ∈ sq2'.log := by
        rw [hs2]
        show Ev.ended j o2 ∈ (afterBody c sq2 j o2 c2).log
        rcases afterBody_log c sq2 j o2 c2 with h | h <;> rw [h] <;> simp
      have : sq2'.log.any (Ev.isEndedOf j) = true :=
        List.any_eq_true.mpr ⟨_, hm, by simp [Ev.isEndedOf]⟩
      have := (firstPos_lt_iff hw hrun he hnext).mp this
      omega
  subst hww
  exact ⟨hqe, w', o, ⟨sq, sq', haq, hsq, hsq', hhold, hrunning⟩, ⟨cancel, se, hae, hse, hslot⟩,
    edge_po hqe haq hae hsq hse rfl (by simp [Act.thread])⟩

/-- **A dependency's body happens-before the dependent body.**  If `d` is among the dependencies
    of `j` and the body of `j` starts at position `q`, the body of `d` has ended at a position `e`
    with `e →hb q`: `workerEnd` of `d` →(po, worker) `workerPost` →(`donec`) `loopResult` of `d`
    →(po, loop) `loopDispatch w` of `j` →(`readyc`) `workerDecide w` of `j`.  (The loop hands `j`
    out only when all its dependencies are `done`: `Inv2.depsDone`.) -/
theorem hb_dep_end_start (hw : c.wiring = Wiring.std) (hwf : WfCfg c) {s : State}
    (hrun : run c (init c) acts = some s) {j d q : Nat} (hd : d ∈ c.depsOf j)
    (hq : startPos c acts j = some q) : ∃ e, endPos c acts d = some e ∧ e < q ∧ hb c acts e q := by
  obtain ⟨w, sq, sq', haq, hsq, hsq', hhold, hrunning⟩ := startPos_isStart hw hrun hq
  -- the end of `d` exists (C01)
  have hstj : Ev.started j ∈ s.log := (startPos_exists_iff hw hrun j).mp ⟨q, hq⟩
  obtain ⟨i, hi⟩ := List.mem_iff_getElem?.mp hstj
  obtain ⟨k, _, hk⟩ := (full_run hw hwf acts s hrun).1.r.i3.depsBefore i j hi d hd
  obtain ⟨e, he⟩ := (endPos_exists_iff hw hrun d).mpr ⟨_, List.mem_of_getElem? hk⟩
  obtain ⟨w', o, hE, _⟩ := endPos_isEnd hw hrun he
  -- the hand-off of `j`
  obtain ⟨r, qd, _, hqdq, _, hdisp, _, edisp⟩ :=
    hb_send_worker hw hwf hrun haq hsq (by rfl) hhold (by rfl)
  obtain ⟨sqd, l, haqd, hsqd, hdl⟩ := hdisp
  obtain ⟨sqd', hstd, hnextd⟩ := pos_step hrun haqd hsqd
  have hlogd : Ev.dispatched j ∈ sqd'.log := by
    obtain ⟨j', l', _, _, hd', rfl⟩ := inv_loopDispatch hstd
    rw [hdl] at hd'
    simp only [Option.some.injEq, Prod.mk.injEq] at hd'
    obtain ⟨rfl, _⟩ := hd'
    simp
  have hdispd : (job sqd'.loop j).dispatched = true := (stAt_reach hw hwf hnextd).2.dispLog j hlogd
  have hdone : (job sqd'.loop d).done = true := (stAt_reach hw hwf hnextd).1.i2.depsDone j hdispd d hd
  obtain ⟨r', hseen⟩ := (stAt_full hw hwf hnextd).1.i6.doneSeen d hdone
  have hany : sqd'.log.any (Ev.isSeenOf d) = true := List.any_eq_true.mpr ⟨_, hseen, by simp [Ev.isSeenOf]⟩
  obtain ⟨qr, hqr, hlr⟩ := exists_logsAt hrun (qd + 1) sqd' hnextd hany
  obtain ⟨a, sr, sr', ev, har, hsr, _, _, hP, _, _, hL⟩ := logsAt_event hw hrun hlr
  obtain ⟨r'', rfl⟩ := isSeenOf_eq hP
  cases hL with
  | seen _ _ rest hph hdc =>
    have hqrd : qr < qd := by
      rcases Nat.lt_or_ge qr qd with h | h
      · exact h
      · have : qr = qd := by omega
        subst this; rw [har] at haqd; cases haqd
    have h1 := hb_end_seen hw hwf hrun hE har hsr hdc
    have e2 : edgeB c acts qr qd = true := edge_po hqrd har haqd hsr hsqd rfl (by simp [Act.thread])
    have hall : hb c acts e q := .tail (.tail h1 e2) edisp
    have hle := HB.le h1
    exact ⟨e, he, by omega, hall⟩

/-- **Every body start happens-after the `Enqueue` call of its own job** — `callerSend`
    →(`enqueuec`) `loopEnq` →(po, loop) `loopDispatch w` →(`readyc`) `workerDecide w`. -/
theorem hb_send_start (hw : c.wiring = Wiring.std) (hwf : WfCfg c) {s : State}
    (hrun : run c (init c) acts = some s) {j q : Nat} (hq : startPos c acts j = some q) :
    ∃ r, sendPos c acts j = some r ∧ r < q ∧ hb c acts r q := by
  obtain ⟨w, sq, sq', haq, hsq, hsq', hhold, hrunning⟩ := startPos_isStart hw hrun hq
  obtain ⟨r, qd, hrqd, hqdq, hsend, _, h1, edisp⟩ :=
    hb_send_worker hw hwf hrun haq hsq (by rfl) hhold (by rfl)
  have hpos : sendPos c acts j = some r := by
    obtain ⟨sr, har, hsr, hsent⟩ := hsend
    obtain ⟨sr', hst, hnext⟩ := pos_step hrun har hsr
    have hm : Ev.sent j ∈ sr'.log := by
      obtain ⟨_, _, _, _, rfl⟩ := inv_callerSend hst
      simp [hsent]
    have hlen : r < acts.length := (List.getElem?_eq_some_iff.mp har).1
    have hfin := log_mono hw (Nat.succ_le_of_lt hlen) hnext (stAt_length hrun) _ hm
    obtain ⟨r', hr'⟩ := (sendPos_exists_iff hw hrun j).mpr hfin
    rw [hr', send_unique hw hrun (sendPos_isSend hw hrun hr') ⟨sr, har, hsr, hsent⟩]
  exact ⟨r, hpos, by omega, .tail h1 edisp⟩

/-- Once the loop has exited its state is frozen. -/
theorem step_exited_frame {s s' : State} {a : Act} (hw : c.wiring = Wiring.std) (hs : step c s a = some s')
    (h : s.loop.phase = .exited) : s'.loop = s.loop := by
  by_cases hl : a.isLoop = false
  · exact step_nonloop_frame hw hl hs
  · cases a with
    | loopEnq => obtain ⟨_, _, hp, _⟩ := inv_loopEnq hs; simp [h] at hp
    | loopEnqClosed => obtain ⟨hp, _⟩ := inv_loopEnqClosed hs; simp [h] at hp
    | loopDispatch w => obtain ⟨_, _, hp, _⟩ := inv_loopDispatch hs; simp [h] at hp
    | loopResult => obtain ⟨_, _, _, hp, _⟩ := inv_loopResult hs; simp [h] at hp
    | loopTick => obtain ⟨hp, _⟩ := inv_loopTick hs; simp [h] at hp
    | loopDrain => obtain ⟨_, _, hp, _⟩ := inv_loopDrain hw hs; simp [h] at hp
    | loopClose => obtain ⟨hp, _⟩ := inv_loopClose hw hs; simp [h] at hp
    | _ => simp [Act.isLoop] at hl

theorem exited_frozen (hw : c.wiring = Wiring.std) {p p' : Nat} {sp sp' : State} (hpp : p ≤ p')
    (h : stAt c acts p = some sp) (h' : stAt c acts p' = some sp') (hex : sp.loop.phase = .exited) :
    sp'.loop = sp.loop :=
  stAt_mono (c := c) (acts := acts) (fun u v => u.loop.phase = .exited → v.loop = u.loop) (fun _ _ => rfl)
    (fun a b d h1 h2 he => by
      have e1 := h1 he
      have e2 := h2 (by rw [e1]; exact he)
      rw [e2, e1])
    (fun u a u' hs he => step_exited_frame hw hs he) hpp h h' hex

/-- **The result arm that saw the result of `i` happens-before `Wait`'s return through
    `finishedc`** — `loopResult` →(po, loop) `loopClose` →(`close(finishedc)`) `callerRetFin` —,
    hence so does the body of `i`. -/
theorem hb_seen_ret (hw : c.wiring = Wiring.std) (hwf : WfCfg c) {s : State}
    (hrun : run c (init c) acts = some s) {qf : Nat} (hret : acts[qf]? = some .callerRetFin)
    {i : Nat} {r : Res} {e : Nat} (hseen : Ev.resultSeen i r ∈ s.log) (he : endPos c acts i = some e) :
    e < qf ∧ hb c acts e qf := by
  have hqf : qf < acts.length := (List.getElem?_eq_some_iff.mp hret).1
  obtain ⟨sf, hsf⟩ := stAt_isSome hrun qf
  obtain ⟨sf', hstf, _⟩ := pos_step hrun hret hsf
  obtain ⟨_, _, hph, _⟩ := inv_callerRetFin hstf
  obtain ⟨qc, hqc, hclose⟩ := (hist hw hwf qf sf (Nat.le_of_lt hqf) hsf).exited hph
  obtain ⟨sc, hac, hsc⟩ := hclose
  obtain ⟨sc', hstc, hnextc⟩ := pos_step hrun hac hsc
  have hexc : sc'.loop.phase = .exited := by
    obtain ⟨_, _, _, rfl⟩ := inv_loopClose hw hstc; rfl
  -- the result arm
  have hany : s.log.any (Ev.isSeenOf i) = true := List.any_eq_true.mpr ⟨_, hseen, by simp [Ev.isSeenOf]⟩
  obtain ⟨qr, hfr⟩ := (firstPos_exists_iff hw hrun).mpr hany
  obtain ⟨a, sr, sr', ev, har, hsr, _, _, hP, _, _, hL⟩ := logsAt_event hw hrun ((firstPos_iff hw).mp hfr)
  obtain ⟨r', rfl⟩ := isSeenOf_eq hP
  cases hL with
  | seen _ _ rest hphr hdc =>
    have hqrc : qr < qc := by
      rcases Nat.lt_trichotomy qr qc with h | h | h
      · exact h
      · subst h; rw [har] at hac; cases hac
      · have := exited_mono hw (Nat.succ_le_of_lt h) hnextc hsr hexc
        rw [hphr] at this; cases this
    obtain ⟨w, o, hE, _⟩ := endPos_isEnd hw hrun he
    have h1 := hb_end_seen hw hwf hrun hE har hsr hdc
    have e2 : edgeB c acts qr qc = true := edge_po hqrc har hac hsr hsc rfl (by simp [Act.thread])
    have e3 : edgeB c acts qc qf = true := edge_close_ret hqc ⟨sc, hac, hsc⟩ hret hsf
    have hle := HB.le h1
    exact ⟨by omega, .tail (.tail h1 e2) e3⟩

/-- When the loop has left its `for` because nothing is pending (ContinueOnError mode, or an
    empty error), every body that ever starts in the run has ended and its result has been seen by
    the loop. -/
theorem started_seen_of_exit (hw : c.wiring = Wiring.std) (hwf : WfCfg c) {s : State}
    (hrun : run c (init c) acts = some s) {p0 : Nat} {s0 : State} (h0 : stAt c acts p0 = some s0)
    (hex : s0.loop.phase = .exited) (hall : c.coe = true ∨ s0.loop.err = []) {i : Nat}
    (hst : Ev.started i ∈ s.log) : ∃ r o, Ev.resultSeen i r ∈ s.log ∧ Ev.ended i o ∈ s.log := by
  have hfr : s.loop = s0.loop := by
    by_cases hp : p0 ≤ acts.length
    · exact exited_frozen hw hp h0 (stAt_length hrun) hex
    · rw [stAt_ge (by omega), stAt_length hrun] at h0
      simp only [Option.some.injEq] at h0
      rw [h0]
  have R := (full_run hw hwf acts s hrun).1
  have hph : s.loop.phase ≠ .select := by rw [hfr, hex]; simp
  have hdoneAll : ∀ j, j < s.loop.jobs.length → (job s.loop j).done = true := by
    intro j hj
    rcases R.i7.exitReason hph with ⟨hff, hne⟩ | ⟨hpend, _⟩
    · rcases hall with h | h
      · rw [h] at hff; cases hff
      · rw [hfr] at hne; exact absurd h hne
    · have hz : s.loop.jobs.countP Loop.undoneB = 0 := by
        have := R.r.i4.counts.pend; rw [hpend] at this; exact_mod_cast this.symm
      rw [countP_jobs_range, List.countP_eq_zero] at hz
      have := hz j (List.mem_range.mpr hj)
      simpa [Loop.undoneB, Loop.job] using this
  have hdisp := R.r.i3.startedDisp i hst
  have hlt : i < s.loop.jobs.length := by
    rcases Nat.lt_or_ge i s.loop.jobs.length with h | h
    · exact h
    · rw [job_of_ge _ _ h] at hdisp; simp at hdisp
  obtain ⟨r, hseen⟩ := R.i6.doneSeen i (hdoneAll i hlt)
  refine ⟨r, ?_⟩
  rcases (R.i6.seenProd i r hseen).1 with ⟨o, _, ho⟩ | ⟨_, hsk⟩ | ⟨_, hsk⟩
  · exact ⟨o, hseen, ho⟩
  · have := eq_of_countP_le_one (R.i6.decOnce i) hst hsk (by simp [Ev.decides]) (by simp [Ev.decides])
    cases this
  · have := eq_of_countP_le_one (R.i6.decOnce i) hst hsk (by simp [Ev.decides]) (by simp [Ev.decides])
    cases this

/-- `Wait` returns through `finishedc` at most once: `retPos` is THE position of `callerRetFin`. -/
theorem retFin_unique (hw : c.wiring = Wiring.std) (hwf : WfCfg c) {s : State}
    (hrun : run c (init c) acts = some s) {q q' : Nat} (h : acts[q]? = some .callerRetFin)
    (h' : acts[q']? = some .callerRetFin) : q = q' := by
  have key : ∀ {a b : Nat}, acts[a]? = some .callerRetFin → acts[b]? = some .callerRetFin → a < b → False := by
    intro a b ha hb hab
    obtain ⟨sa, hsa⟩ := stAt_isSome hrun a
    obtain ⟨sb, hsb⟩ := stAt_isSome hrun b
    obtain ⟨sa', hsta, hnexta⟩ := pos_step hrun ha hsa
    obtain ⟨sb', hstb, _⟩ := pos_step hrun hb hsb
    have hm : Ev.waitReturned (retVal c sa) ∈ sa'.log := by
      obtain ⟨_, _, _, rfl⟩ := inv_callerRetFin hsta; simp
    have hm' := log_mono hw (Nat.succ_le_of_lt hab) hnexta hsb _ hm
    have h1 := (stAt_full hw hwf hsb).2.retLogged _ hm'
    obtain ⟨_, h2, _⟩ := inv_callerRetFin hstb
    rw [h2] at h1; cases h1
  rcases Nat.lt_trichotomy q q' with hlt | he | hlt
  · exact (key h h' hlt).elim
  · exact he
  · exact (key h' h hlt).elim

theorem retPos_iff (hw : c.wiring = Wiring.std) (hwf : WfCfg c) {s : State}
    (hrun : run c (init c) acts = some s) {q : Nat} : retPos acts = some q ↔ acts[q]? = some .callerRetFin := by
  unfold retPos
  constructor
  · intro h; simpa using List.find?_some h
  · intro h
    have hm : q ∈ List.range acts.length := List.mem_range.mpr (List.getElem?_eq_some_iff.mp h).1
    cases hf : (List.range acts.length).find? (fun i => acts[i]? == some Act.callerRetFin) with
    | none => exact absurd h (by simpa using List.find?_eq_none.mp hf q hm)
    | some q' => rw [retFin_unique hw hwf hrun (q := q') (q' := q) (by simpa using List.find?_some hf) h]

/-- A nil return of `Wait` is a return through `finishedc`, with an empty `s.err`. -/
theorem nil_ret (hw : c.wiring = Wiring.std) (hwf : WfCfg c) {s : State}
    (hrun : run c (init c) acts = some s) (hnil : Ev.waitReturned [] ∈ s.log) :
    ∃ qf sf, retPos acts = some qf ∧ stAt c acts qf = some sf ∧ sf.loop.phase = .exited ∧ sf.loop.err = [] := by
  obtain ⟨q, hf⟩ := (firstPos_exists_iff hw hrun (P := (· == Ev.waitReturned []))).mpr (any_eq_iff_mem.mpr hnil)
  obtain ⟨a, sq, sq', ev, ha, hsq, _, hst, hP, _, _, hL⟩ := logsAt_event hw hrun ((firstPos_iff hw).mp hf)
  simp only [beq_iff_eq] at hP
  cases hL <;> simp only [reduceCtorEq, Ev.waitReturned.injEq, List.cons_ne_self] at hP
  obtain ⟨_, _, hph, _⟩ := inv_callerRetFin hst
  refine ⟨q, sq, (retPos_iff hw hwf hrun).mpr ha, hsq, hph, ?_⟩
  unfold retVal at hP
  split at hP
  · next h => simpa using h
  · exact hP

end Chains

end BodyHB

open BodyHB

/-! ## 6. Scheduler-level statements (any configuration, any job bodies) -/

/-- **The positions of a body.**  `startPos j` (`endPos j`) exists exactly when `started j` (some
    `ended j o`) is in the log; the start is a `workerDecide w` of a slot holding `j` that turns it
    `running j`; if the body ended, its end is a `workerEnd w o _` of THE SAME slot `w`, at a later
    position, and the start happens-before the end (program order of worker `w`); a body that
    ended had started. -/
theorem body_positions (c : Cfg) (hw : c.wiring = Wiring.std) (hwf : WfCfg c) (acts : List Act) (s : State)
    (hrun : run c (init c) acts = some s) (j : Nat) :
    ((∃ q, startPos c acts j = some q) ↔ Ev.started j ∈ s.log) ∧
    ((∃ e, endPos c acts j = some e) ↔ ∃ o, Ev.ended j o ∈ s.log) ∧
    (∀ q, startPos c acts j = some q → ∃ w, IsStart c acts q w j) ∧
    (∀ e, endPos c acts j = some e → ∃ q, startPos c acts j = some q) ∧
    (∀ q e, startPos c acts j = some q → endPos c acts j = some e →
      q < e ∧ hb c acts q e ∧ ∃ w o, IsStart c acts q w j ∧ IsEnd c acts e w j o) := by
  refine ⟨startPos_exists_iff hw hrun j, endPos_exists_iff hw hrun j,
    fun q hq => startPos_isStart hw hrun hq, ?_, ?_⟩
  · intro e he
    obtain ⟨o, ho⟩ := (endPos_exists_iff hw hrun j).mp ⟨e, he⟩
    exact (startPos_exists_iff hw hrun j).mpr ((full_run hw hwf acts s hrun).1.i6.endedStarted j o ho)
  · intro q e hq he
    obtain ⟨hlt, w, o, hS, hE, hedge⟩ := BodyHB.body_positions hw hwf hrun hq he
    exact ⟨hlt, .single hedge, w, o, hS, hE⟩

/-- **Epilogue.**  If `Wait` returns through `finishedc` at position `qf`, in ContinueOnError mode
    or with a nil error, then every body that ever starts in the run has ended at a position
    `e < qf` with `e →hb qf`. -/
theorem epilogue_hb (c : Cfg) (hw : c.wiring = Wiring.std) (hwf : WfCfg c) (acts : List Act) (s : State)
    (hrun : run c (init c) acts = some s) (qf : Nat) (hret : retPos acts = some qf)
    (hall : c.coe = true ∨ Ev.waitReturned [] ∈ s.log) (i : Nat) (hst : Ev.started i ∈ s.log) :
    ∃ e, endPos c acts i = some e ∧ e < qf ∧ hb c acts e qf := by
  have haf := (retPos_iff hw hwf hrun).mp hret
  obtain ⟨sf, hsf⟩ := stAt_isSome hrun qf
  obtain ⟨sf', hstf, _⟩ := pos_step hrun haf hsf
  obtain ⟨_, _, hph, _⟩ := inv_callerRetFin hstf
  have hall' : c.coe = true ∨ sf.loop.err = [] := by
    rcases hall with h | h
    · exact Or.inl h
    · obtain ⟨qf', sf2, h1, h2, _, h4⟩ := nil_ret hw hwf hrun h
      rw [hret] at h1
      simp only [Option.some.injEq] at h1
      subst h1
      rw [hsf] at h2
      simp only [Option.some.injEq] at h2
      subst h2
      exact Or.inr h4
  obtain ⟨r, o, hseen, hend⟩ := started_seen_of_exit hw hwf hrun hsf hph hall' hst
  obtain ⟨e, he⟩ := (endPos_exists_iff hw hrun i).mpr ⟨o, hend⟩
  obtain ⟨h1, h2⟩ := hb_seen_ret hw hwf hrun haf hseen he
  exact ⟨e, he, h1, h2⟩

/-- **Prologue.**  The start of the body of `j` happens-after the `Enqueue` call of `j`
    (`callerSend` at `sendPos j`), hence after everything the caller goroutine did up to that
    call. -/
theorem prologue_hb (c : Cfg) (hw : c.wiring = Wiring.std) (hwf : WfCfg c) (acts : List Act) (s : State)
    (hrun : run c (init c) acts = some s) (j q : Nat) (hq : startPos c acts j = some q) :
    ∃ r, sendPos c acts j = some r ∧ acts[r]? = some .callerSend ∧ r < q ∧ hb c acts r q ∧
      ∀ r' a, r' ≤ r → acts[r']? = some a → a.thread = .caller → hb c acts r' q := by
  obtain ⟨r, hr, hlt, hh⟩ := hb_send_start hw hwf hrun hq
  obtain ⟨sr, har, hsr, _⟩ := sendPos_isSend hw hrun hr
  refine ⟨r, hr, har, hlt, hh, ?_⟩
  intro r' a hle ha hta
  rcases Nat.lt_or_ge r' r with h | h
  · obtain ⟨sr', hsr'⟩ := stAt_isSome hrun r'
    exact HB.trans (.single (edge_po h ha har hsr' hsr (by rw [hta]; rfl) (by rw [hta]; simp))) hh
  · have : r' = r := by omega
    subst this; exact hh

/-- What is NOT ordered: a body that ends after `Wait` returned (through either arm) is not
    happens-before that return — happens-before only goes forward along the run. -/
theorem not_hb_of_lt (c : Cfg) (acts : List Act) {e r : Nat} (h : r < e) : ¬ hb c acts e r := by
  intro hh
  have := HB.le hh
  omega

end Sched

/-! ## Concrete runs (for the non-vacuity applications at the end) -/

namespace Gen.Example

open Gen Sched

/-- `actsCancel` (all five jobs submitted, `close(enqueuec)` done, jobs 0 and 1 executing, the
    context cancelled) followed by `Wait` returning through its context arm (position 17) and,
    AFTER that, the end of the body of job 0 (position 18). -/
def actsRetCtx : List Act := actsCancel ++ [.callerRetCtx, .workerEnd 0 .ok false]

theorem runRetCtx_H : ∃ s, RunH prog sc cfg actsRetCtx s ∧ Ev.waitReturned [Res.ctxErr] ∈ s.log := by
  have h : ∃ s, run cfg (init cfg) actsRetCtx = some s ∧ (replay prog sc s.log).2 = true ∧
      Ev.waitReturned [Res.ctxErr] ∈ s.log := by decide
  obtain ⟨s, hr, hcons, h1⟩ := h
  exact ⟨s, ⟨prog_accepted, prog_small, prog_ids, rfl, rfl, by decide, hr, hcons⟩, h1⟩

end Gen.Example

namespace Gen.ParEx

open Gen Sched

/-- `actsLeak` (fail-fast: the task fails, the loop exits and `Wait` returns the error through
    `finishedc` at position 20 while slice element 0 — job 1 — is still executing) followed by the
    end of that body (position 21). -/
def actsLeakEnd : List Act := actsLeak ++ [.workerEnd 1 .ok false]

theorem runLeakEnd_H : ∃ s, ParRunH p scFail (cfg false) actsLeakEnd s ∧ s.caller.ret = some [Res.fail 0] := by
  have h : ∃ s, run (cfg false) (init (cfg false)) actsLeakEnd = some s ∧ Consistent p scFail s.log ∧
      s.caller.ret = some [Res.fail 0] := by decide
  obtain ⟨s, hr, hcons, h1⟩ := h
  exact ⟨s, ⟨parCfg false, rfl, by decide, hr, hcons⟩, h1⟩

/-- `actsCancel` followed by `Wait` returning through its context arm (position 17) and then the
    end of the body of job 0 (position 18). -/
def actsRetCtx : List Act := actsCancel ++ [.callerRetCtx, .workerEnd 0 .ok false]

theorem runRetCtx_H : ∃ s, ParRunH p {} (cfg false) actsRetCtx s ∧ Ev.waitReturned [Res.ctxErr] ∈ s.log := by
  have h : ∃ s, run (cfg false) (init (cfg false)) actsRetCtx = some s ∧ Consistent p {} s.log ∧
      Ev.waitReturned [Res.ctxErr] ∈ s.log := by decide
  obtain ⟨s, hr, hcons, h1⟩ := h
  exact ⟨s, ⟨parCfg false, rfl, by decide, hr, hcons⟩, h1⟩

end Gen.ParEx

/-! ## Property theorems -/

namespace Gen

open Sched (Ev Outcome Res hb startPos endPos sendPos retPos retCtxPos IsStart IsEnd)

section props
variable {p : Prog} {sc : Scenario} {c : Sched.Cfg} {acts : List Sched.Act} {s : Sched.State}

/-! ### C12 — the bodies that share a closure variable are ordered by happens-before -/

/-- **C12, flow level: race freedom of the closure variables, every schedule.**

    Accepted flow, any run of the scheduler.  The body of job `j` executes on thread
    `worker w` between the positions `startPos c acts j` (the `workerDecide w` that logs
    `started j`) and `endPos c acts j` (the `workerEnd w o _` that logs `ended j o`); the model's
    bodies are atomic at `workerEnd`, so every access of the body to a closure variable lies
    between these two positions of that thread (`Sched.body_positions`).

    Let `i ≠ j` be jobs of the flow whose bodies access a common closure variable `v`, `i`
    WRITING it, `j` writing or reading it, and let the body of `j` start in the run.  Then:

    * `j` does not write `v` (single writer: the both-writers case is impossible), it reads it,
      and `i` is among `j`'s `Dependencies`;
    * the body of `i` started (`qi`) and ended (`ei`), the body of `j` starts at `qj`,
      `qi < ei < qj`, `qi →hb ei` (program order of the worker) and **`ei →hb qj`**: the whole
      body of the writer happens-before the whole body of the reader, in the happens-before
      relation of the Go memory model on the run (`Sched.hb`: program order, channel send →
      receive, close → receive, `readyc` rendezvous).  The chain is `workerEnd i` →(po)
      `workerPost` →(`donec`) `loopResult` →(po) `loopDispatch w'` →(`readyc`) `workerDecide w'`.

    Hence any two conflicting accesses of different bodies to a closure variable are ordered by
    happens-before: no data race on the closure variables (for the symmetric form see
    `C12_flow_race_free_sym`). -/
theorem C12_flow_race_free (H : RunH p sc c acts s) {i j : Nat} (hi : i < (genJobs p).length)
    (hj : j < (genJobs p).length) (hne : i ≠ j) {v : Var} (hwi : v ∈ writesAt p i)
    (hvj : v ∈ writesAt p j ∨ v ∈ readsAt p j) (hsj : Ev.started j ∈ s.log) :
    v ∉ writesAt p j ∧ v ∈ readsAt p j ∧ i ∈ c.depsOf j ∧
    ∃ qi ei qj, startPos c acts i = some qi ∧ endPos c acts i = some ei ∧ startPos c acts j = some qj ∧
      qi < ei ∧ ei < qj ∧ hb c acts qi ei ∧ hb c acts ei qj := by
  have hnw : v ∉ writesAt p j := fun h => hne (H.disc.writesDisjoint i j v hi hj hwi h)
  have hr : v ∈ readsAt p j := by
    rcases hvj with h | h
    · exact absurd h hnw
    · exact h
  have hdep : i ∈ c.depsOf j := by
    rw [depsOf_cfg H.deps hj]; exact H.disc.readDep i j v hi hj hr hwi
  obtain ⟨h1, _, _, h4, h5⟩ := Sched.body_positions c H.wiring H.wf acts s H.run i
  obtain ⟨qj, hqj⟩ := (Sched.body_positions c H.wiring H.wf acts s H.run j).1.mpr hsj
  obtain ⟨ei, hei, hlt, hh⟩ := Sched.BodyHB.hb_dep_end_start H.wiring H.wf H.run hdep hqj
  obtain ⟨qi, hqi⟩ := h4 ei hei
  obtain ⟨hlt', hh', _⟩ := h5 qi ei hqi hei
  exact ⟨hnw, hr, hdep, qi, ei, qj, hqi, hei, hqj, hlt', hlt, hh', hh⟩

/-- **C12, flow level, symmetric form.**  Two different jobs of the flow whose bodies both started
    and conflict on some closure variable (one of them writes a variable the other one writes or
    reads): the whole body of one happens-before the whole body of the other. -/
theorem C12_flow_race_free_sym (H : RunH p sc c acts s) {i j : Nat} (hi : i < (genJobs p).length)
    (hj : j < (genJobs p).length) (hne : i ≠ j)
    (hconf : ∃ v, (v ∈ writesAt p i ∧ (v ∈ writesAt p j ∨ v ∈ readsAt p j)) ∨
      (v ∈ writesAt p j ∧ (v ∈ writesAt p i ∨ v ∈ readsAt p i)))
    (hsi : Ev.started i ∈ s.log) (hsj : Ev.started j ∈ s.log) :
    (∃ ei qj, endPos c acts i = some ei ∧ startPos c acts j = some qj ∧ hb c acts ei qj) ∨
    (∃ ej qi, endPos c acts j = some ej ∧ startPos c acts i = some qi ∧ hb c acts ej qi) := by
  obtain ⟨v, h | h⟩ := hconf
  · obtain ⟨_, _, _, _, ei, qj, _, h2, h3, _, _, _, h7⟩ := C12_flow_race_free H hi hj hne h.1 h.2 hsj
    exact Or.inl ⟨ei, qj, h2, h3, h7⟩
  · obtain ⟨_, _, _, _, ej, qi, _, h2, h3, _, _, _, h7⟩ := C12_flow_race_free H hj hi (Ne.symm hne) h.1 h.2 hsi
    exact Or.inr ⟨ej, qi, h2, h3, h7⟩

/-- **C12, flow level: the closure's prologue and epilogue.**

    1. *Epilogue.*  The generated closure reads the result variables (and copies them into the
       Results targets: `flowEnd`, `C02_flow_refines_ideal`) only after `Wait` returned nil.  If
       `Wait` returns through `finishedc` at position `qf = retPos acts` with a nil error (or, more
       generally, in ContinueOnError mode), then EVERY body that ever starts in the run has ended
       at a position `e < qf` and `e →hb qf`: `workerEnd` →(po) `workerPost` →(`donec`) `loopResult`
       →(po) `loopClose` →(`close(finishedc)`) `callerRetFin`.
    2. A nil return is a return through `finishedc` (`retPos` exists), and then every submitted
       job's body started (and, by 1., ended before the return).
    3. *Prologue.*  The caller writes the Params variables before any `Enqueue`, i.e. before
       position 0 of the run, and it executes the `callerSend`s in program order.  Every body
       start `q` is happens-after the `Enqueue` call of its own job (`r = sendPos c acts j`, a
       `callerSend`): `callerSend` →(`enqueuec`) `loopEnq` →(po) `loopDispatch w` →(`readyc`)
       `workerDecide w`; hence after every earlier action `r' ≤ r` of the caller goroutine, and
       after everything the caller did before the run.

    What is NOT ordered: see `C12_retCtx_not_ordered`. -/
theorem C12_flow_results_race_free (H : RunH p sc c acts s) :
    (∀ qf, retPos acts = some qf → (c.coe = true ∨ Ev.waitReturned [] ∈ s.log) →
      ∀ i, Ev.started i ∈ s.log → ∃ e, endPos c acts i = some e ∧ e < qf ∧ hb c acts e qf) ∧
    (Ev.waitReturned [] ∈ s.log →
      (∃ qf, retPos acts = some qf) ∧ ∀ i, i < s.caller.sent → Ev.started i ∈ s.log) ∧
    (∀ j q, startPos c acts j = some q →
      ∃ r, sendPos c acts j = some r ∧ acts[r]? = some Sched.Act.callerSend ∧ r < q ∧ hb c acts r q ∧
        ∀ r' a, r' ≤ r → acts[r']? = some a → a.thread = Sched.Thread.caller → hb c acts r' q) := by
  refine ⟨Sched.epilogue_hb c H.wiring H.wf acts s H.run, ?_, Sched.prologue_hb c H.wiring H.wf acts s H.run⟩
  intro hnil
  obtain ⟨qf, _, hqf, _⟩ := Sched.BodyHB.nil_ret H.wiring H.wf H.run hnil
  refine ⟨⟨qf, hqf⟩, fun i hi => ?_⟩
  have := Sched.nil_complete c H.wiring H.wf acts s H.run hnil i hi
  exact (Sched.full_run H.wiring H.wf acts s H.run).1.i6.endedStarted i _ this

/-- **C12, Parallel level: race freedom, every schedule.**

    The bodies of a `cff.Parallel` (task functions, the slice / map function on an element / entry,
    End functions) share no closure variable of the generated code: the only ordering the generated
    code promises to the user's functions is that an End function runs after all the elements of
    its collection.  Any run of the scheduler on the job list of a Parallel:

    1. For every collection block with an End function whose End job's body starts at `q`: the body
       of EVERY element job `base + x` started (`qx`) and ended (`ex`), `qx < ex < q`, `qx →hb ex`
       and `ex →hb q` — the whole call on element `x` happens-before the call of the End function
       (same chain as for a flow, through the End job's `Dependencies`).
    2. If `Wait` returns through `finishedc` at `qf`, in ContinueOnError mode or with a nil
       error, every body that ever starts has ended at some `e < qf` with `e →hb qf`: the
       directive's return happens-after every body.  (Fail-fast with an error: NOT true, see
       `C12_par_failfast_return_partial`.)
    3. Every body start happens-after the `Enqueue` call of its job, hence after everything the
       caller did before (slices / maps are read by the prologue to build the jobs). -/
theorem C12_par_race_free (H : ParRunH p sc c acts s) :
    (∀ kd col base, CollAt p kd col base → col.hasEnd = true →
      ∀ q, startPos c acts (base + collN col) = some q → ∀ x, x < collN col →
        ∃ qx ex, startPos c acts (base + x) = some qx ∧ endPos c acts (base + x) = some ex ∧
          qx < ex ∧ ex < q ∧ hb c acts qx ex ∧ hb c acts ex q) ∧
    (∀ qf, retPos acts = some qf → (c.coe = true ∨ Ev.waitReturned [] ∈ s.log) →
      ∀ i, Ev.started i ∈ s.log → ∃ e, endPos c acts i = some e ∧ e < qf ∧ hb c acts e qf) ∧
    (∀ j q, startPos c acts j = some q →
      ∃ r, sendPos c acts j = some r ∧ acts[r]? = some Sched.Act.callerSend ∧ r < q ∧ hb c acts r q ∧
        ∀ r' a, r' ≤ r → acts[r']? = some a → a.thread = Sched.Thread.caller → hb c acts r' q) := by
  refine ⟨?_, Sched.epilogue_hb c H.wiring H.wf acts s H.run, Sched.prologue_hb c H.wiring H.wf acts s H.run⟩
  intro kd col base hat hend q hq x hx
  have hdeps := (((C01_par_every_schedule H).2.2.2 kd col base hat).2 hend).1
  have hd : base + x ∈ c.depsOf (base + collN col) := by
    rw [hdeps]; exact List.mem_map.mpr ⟨x, List.mem_range.mpr hx, rfl⟩
  obtain ⟨ex, hex, hlt, hh⟩ := Sched.BodyHB.hb_dep_end_start H.wiring H.wf H.run hd hq
  obtain ⟨_, _, _, h4, h5⟩ := Sched.body_positions c H.wiring H.wf acts s H.run (base + x)
  obtain ⟨qx, hqx⟩ := h4 ex hex
  obtain ⟨hlt', hh', _⟩ := h5 qx ex hqx hex
  exact ⟨qx, ex, hqx, hex, hlt', hlt, hh', hh⟩

end props

end Gen

/-! ### what is NOT ordered -/

namespace Gen

open Sched (Ev Outcome Res hb startPos endPos sendPos retPos retCtxPos)

/-- **C12: what happens-before does NOT order — `Wait` returning through its context arm.**

    When `Wait` returns through `case <-ctx.Done()` (`callerRetCtx`, at `retCtxPos acts`) nothing
    synchronises the return with the workers: bodies may still be executing, and they are
    unordered with everything the caller does afterwards.  This is NOT a data race in the generated
    code, because on a non-nil return the closure reads no variable written by a task:

    1. for every flow, every non-nil `wait` and every store, `flowEnd` returns `wait` and writes no
       Results target (`C07_results_untouched`: the Results are copied only on nil).  (The only
       task-written variables the epilogue looks at on the error path are the `task<k>.ran` flags of
       the `TaskSkipped` sweep, which the templates declare as atomic booleans — `t.ran.Load()` /
       `ran.Store(true)`, quoted in the headers of `Gen/FlowRun.lean` and `Gen/ParEnd.lean` —;
       atomic operations synchronise by themselves and are outside the scope of this model.)  A `cff.Parallel` has no Results at all.
    2. In general a body that ends after a return is not happens-before it (`hb` goes forward).
    3. Concretely, in the flow run `Example.actsRetCtx` `Wait` returns `[ctxErr]` at position 17
       while the body of job 0 (started at 14 on worker 0) is executing; it ends at 18; none of
       `14 →hb 17`, `17 →hb 18`, `18 →hb 17` holds.
    4. The same for the Parallel run `ParEx.actsRetCtx`. -/
theorem C12_retCtx_not_ordered :
    (∀ (p : Prog) (wait : List String) (st : Store), wait ≠ [] →
      (flowEnd p wait st).ret = wait ∧ (flowEnd p wait st).written = []) ∧
    (∀ (c : Sched.Cfg) (acts : List Sched.Act) (e r : Nat), r < e → ¬ hb c acts e r) ∧
    (∃ s, RunH Example.prog Example.sc Example.cfg Example.actsRetCtx s ∧
      Ev.waitReturned [Res.ctxErr] ∈ s.log ∧
      retCtxPos Example.actsRetCtx = some 17 ∧ retPos Example.actsRetCtx = none ∧
      startPos Example.cfg Example.actsRetCtx 0 = some 14 ∧ endPos Example.cfg Example.actsRetCtx 0 = some 18 ∧
      ¬ hb Example.cfg Example.actsRetCtx 14 17 ∧ ¬ hb Example.cfg Example.actsRetCtx 17 18 ∧
      ¬ hb Example.cfg Example.actsRetCtx 18 17) ∧
    (∃ s, ParRunH ParEx.p {} (ParEx.cfg false) ParEx.actsRetCtx s ∧
      Ev.waitReturned [Res.ctxErr] ∈ s.log ∧
      retCtxPos ParEx.actsRetCtx = some 17 ∧ retPos ParEx.actsRetCtx = none ∧
      startPos (ParEx.cfg false) ParEx.actsRetCtx 0 = some 14 ∧
      endPos (ParEx.cfg false) ParEx.actsRetCtx 0 = some 18 ∧
      ¬ hb (ParEx.cfg false) ParEx.actsRetCtx 14 17 ∧ ¬ hb (ParEx.cfg false) ParEx.actsRetCtx 17 18 ∧
      ¬ hb (ParEx.cfg false) ParEx.actsRetCtx 18 17) := by
  refine ⟨fun p wait st hw => ⟨(C07_results_untouched p wait st).1, (C07_results_untouched p wait st).2.1 hw⟩,
    fun c acts e r h => Sched.not_hb_of_lt c acts h, ?_, ?_⟩
  · obtain ⟨s, H, hw⟩ := Example.runRetCtx_H
    exact ⟨s, H, hw, by decide, by decide, by decide, by decide, by decide, by decide, by decide⟩
  · obtain ⟨s, H, hw⟩ := ParEx.runRetCtx_H
    exact ⟨s, H, hw, by decide, by decide, by decide, by decide, by decide, by decide, by decide⟩

section partials
variable {p : Prog} {sc : Scenario} {c : Sched.Cfg} {acts : List Sched.Act} {s : Sched.State}

/-- **C12, Parallel level: the return through `finishedc` in fail-fast mode with an error
    (partial).**  "The directive's return happens-after every body" is FALSE when `Wait` returns a
    non-nil error in fail-fast mode: the loop leaves its `for` at the first failing result, while
    other bodies may still be executing.  What holds on every return through `finishedc`: every
    body whose RESULT THE LOOP HAS SEEN ended before the return and happens-before it.

    Counter-example (`ParEx.actsLeakEnd`, fail-fast): the task fails, `Wait` returns `[fail 0]`
    through `finishedc` at position 20 while slice element 0 (job 1, started at 15) is executing;
    its body ends at 21; neither `21 →hb 20` nor `20 →hb 21` holds (and the generated closure,
    returning a non-nil error, reads nothing the body writes). -/
theorem C12_par_failfast_return_partial :
    (∀ {p : Prog} {sc : Scenario} {c : Sched.Cfg} {acts : List Sched.Act} {s : Sched.State},
      ParRunH p sc c acts s → ∀ qf, retPos acts = some qf →
        ∀ i r e, Ev.resultSeen i r ∈ s.log → endPos c acts i = some e → e < qf ∧ hb c acts e qf) ∧
    (∃ s, ParRunH ParEx.p ParEx.scFail (ParEx.cfg false) ParEx.actsLeakEnd s ∧
      (ParEx.cfg false).coe = false ∧ s.caller.ret = some [Res.fail 0] ∧
      retPos ParEx.actsLeakEnd = some 20 ∧
      startPos (ParEx.cfg false) ParEx.actsLeakEnd 1 = some 15 ∧
      endPos (ParEx.cfg false) ParEx.actsLeakEnd 1 = some 21 ∧
      ¬ hb (ParEx.cfg false) ParEx.actsLeakEnd 21 20 ∧ ¬ hb (ParEx.cfg false) ParEx.actsLeakEnd 20 21) := by
  refine ⟨?_, ?_⟩
  · intro p sc c acts s H qf hret i r e hseen he
    exact Sched.BodyHB.hb_seen_ret H.wiring H.wf H.run
      ((Sched.BodyHB.retPos_iff H.wiring H.wf H.run).mp hret) hseen he
  · obtain ⟨s, H, hr⟩ := ParEx.runLeakEnd_H
    exact ⟨s, H, rfl, hr, by decide, by decide, by decide, by decide, by decide⟩

/-- The same partial statement for a flow: on every return through `finishedc`, every body whose
    result the loop has seen happens-before the return. -/
theorem C12_flow_return_seen_partial (H : RunH p sc c acts s) (qf : Nat) (hret : retPos acts = some qf)
    (i : Nat) (r : Res) (e : Nat) (hseen : Ev.resultSeen i r ∈ s.log) (he : endPos c acts i = some e) :
    e < qf ∧ hb c acts e qf :=
  Sched.BodyHB.hb_seen_ret H.wiring H.wf H.run ((Sched.BodyHB.retPos_iff H.wiring H.wf H.run).mp hret) hseen he

end partials

end Gen

/-! ### the property theorems applied to concrete runs (non-vacuity) -/

namespace Gen.Example

open Gen Sched

/-- The positions of the bodies in the nil run `Example.acts` (two workers): job 0 runs on worker 0
    from 14 to 22, job 1 (the predicate) on worker 1 from 15 to 16, job 2 on worker 1 from 20 to 21,
    job 3 on worker 0 from 28 to 29, job 4 on worker 0 from 33 to 34; the `Enqueue` calls are at
    0, 2, 4, 6, 8; `Wait` returns through `finishedc` at 38. -/
theorem runNil_positions :
    (List.range 5).map (fun j => (startPos cfg acts j, endPos cfg acts j, sendPos cfg acts j)) =
      [(some 14, some 22, some 0), (some 15, some 16, some 2), (some 20, some 21, some 4),
       (some 28, some 29, some 6), (some 33, some 34, some 8)] ∧
    retPos acts = some 38 ∧ retCtxPos acts = none := by
  decide

/-- `C12_flow_race_free` on the nil run, variable `v2` (written by job 0 = task 0, read by job 3 =
    task 2): the body of job 0 (positions 14–22, worker 0) happens-before the body of job 3
    (from position 28); the positions are those computed by `decide`. -/
theorem runNil_race_free :
    Var.val 2 ∈ writesAt prog 0 ∧ Var.val 2 ∈ readsAt prog 3 ∧ Var.val 2 ∉ writesAt prog 3 ∧
    0 ∈ cfg.depsOf 3 ∧ hb cfg acts 14 22 ∧ hb cfg acts 22 28 ∧ ¬ hb cfg acts 28 22 := by
  obtain ⟨s, H, _, hs3, _⟩ := runNil_H
  have hw : Var.val 2 ∈ writesAt prog 0 := by decide
  have hr : Var.val 2 ∈ readsAt prog 3 := by decide
  obtain ⟨hnw, _, hdep, qi, ei, qj, h1, h2, h3, _, _, h6, h7⟩ :=
    C12_flow_race_free H (i := 0) (j := 3) (by decide) (by decide) (by decide) hw (Or.inr hr) hs3
  have e1 : startPos cfg acts 0 = some 14 := by decide
  have e2 : endPos cfg acts 0 = some 22 := by decide
  have e3 : startPos cfg acts 3 = some 28 := by decide
  rw [e1] at h1; rw [e2] at h2; rw [e3] at h3
  cases h1; cases h2; cases h3
  exact ⟨hw, hr, hnw, hdep, h6, h7, Sched.not_hb_of_lt cfg acts (by decide)⟩

/-- `C12_flow_results_race_free` on the nil run: `Wait` returns nil through `finishedc` at 38; the
    body of every job happens-before that return (e.g. job 4, ended at 34, and job 1, ended at 16);
    the start of job 3 (28) happens-after its `Enqueue` call (position 6) and hence after the
    caller's first `Enqueue` (position 0). -/
theorem runNil_results :
    retPos acts = some 38 ∧ (∀ i, i < 5 → ∃ e, endPos cfg acts i = some e ∧ e < 38 ∧ hb cfg acts e 38) ∧
    hb cfg acts 34 38 ∧ hb cfg acts 16 38 ∧ hb cfg acts 6 28 ∧ hb cfg acts 0 28 := by
  obtain ⟨s, H, hnil, _, _⟩ := runNil_H
  obtain ⟨h1, h2, h3⟩ := C12_flow_results_race_free H
  have hret : retPos acts = some 38 := by decide
  have hsent : s.caller.sent = 5 := by
    have : ∃ s', run cfg (init cfg) acts = some s' ∧ s'.caller.sent = 5 := by decide
    obtain ⟨s', hr', hs'⟩ := this
    rw [H.run] at hr'; cases hr'; exact hs'
  have hall : ∀ i, i < 5 → ∃ e, endPos cfg acts i = some e ∧ e < 38 ∧ hb cfg acts e 38 :=
    fun i hi => h1 38 hret (Or.inr hnil) i ((h2 hnil).2 i (by omega))
  obtain ⟨e4, he4, _, hh4⟩ := hall 4 (by decide)
  obtain ⟨e1, he1, _, hh1⟩ := hall 1 (by decide)
  have p4 : endPos cfg acts 4 = some 34 := by decide
  have p1 : endPos cfg acts 1 = some 16 := by decide
  rw [p4] at he4; rw [p1] at he1; cases he4; cases he1
  obtain ⟨r, hr, _, _, hh, hprev⟩ := h3 3 28 (by decide)
  have p3 : sendPos cfg acts 3 = some 6 := by decide
  rw [p3] at hr; cases hr
  exact ⟨hret, hall, hh4, hh1, hh, hprev 0 .callerSend (by decide) (by decide) rfl⟩

/-- **Happens-before is not "everything is ordered".**  In the nil run the bodies of job 0
    (task 0: positions 14–22 on worker 0) and of job 2 (task 1: positions 20–21 on worker 1) have
    NO conflicting closure variable — neither writes anything the other one writes or reads — and
    they are concurrent: no end is happens-before the other's start, and not even a start is
    happens-before the other's end. -/
theorem runNil_concurrent :
    (writesAt prog 0).all (fun v => !(writesAt prog 2 ++ readsAt prog 2).contains v) = true ∧
    (writesAt prog 2).all (fun v => !(writesAt prog 0 ++ readsAt prog 0).contains v) = true ∧
    startPos cfg acts 0 = some 14 ∧ endPos cfg acts 0 = some 22 ∧
    startPos cfg acts 2 = some 20 ∧ endPos cfg acts 2 = some 21 ∧
    ¬ hb cfg acts 22 20 ∧ ¬ hb cfg acts 21 14 ∧ ¬ hb cfg acts 14 21 ∧ ¬ hb cfg acts 20 22 := by
  decide

end Gen.Example

namespace Gen.ParEx

open Gen Sched

/-- `C12_par_race_free` on the nil run `ParEx.actsOk`: the End job of the slice (job 3) starts at
    33; the bodies of the two element jobs — job 1 (15–16) and job 2 (24–27) — happen-before it;
    `Wait` returns nil through `finishedc` at 38 and the body of every job happens-before that
    (e.g. the End job's, ended at 34); job 3's start happens-after its `Enqueue` call (6); the
    bodies of the task (job 0: 14–17, worker 0) and of slice element 0 (job 1: 15–16, worker 1) are
    concurrent. -/
theorem runOk_race_free :
    startPos (cfg false) actsOk 3 = some 33 ∧
    hb (cfg false) actsOk 15 16 ∧ hb (cfg false) actsOk 16 33 ∧
    hb (cfg false) actsOk 24 27 ∧ hb (cfg false) actsOk 27 33 ∧
    retPos actsOk = some 38 ∧ hb (cfg false) actsOk 34 38 ∧ hb (cfg false) actsOk 6 33 ∧
    ¬ hb (cfg false) actsOk 14 16 ∧ ¬ hb (cfg false) actsOk 15 17 := by
  obtain ⟨s, H, hnil, _, hs3, _⟩ := runOk_H
  obtain ⟨h1, h2, h3⟩ := C12_par_race_free H
  have p3 : startPos (cfg false) actsOk 3 = some 33 := by decide
  have hret : retPos actsOk = some 38 := by decide
  obtain ⟨q1, e1, a1, b1, _, _, c1, d1⟩ := h1 .slice sl 1 sl_at rfl 33 p3 0 (by decide)
  obtain ⟨q2, e2, a2, b2, _, _, c2, d2⟩ := h1 .slice sl 1 sl_at rfl 33 p3 1 (by decide)
  have x1 : startPos (cfg false) actsOk (1 + 0) = some 15 := by decide
  have y1 : endPos (cfg false) actsOk (1 + 0) = some 16 := by decide
  have x2 : startPos (cfg false) actsOk (1 + 1) = some 24 := by decide
  have y2 : endPos (cfg false) actsOk (1 + 1) = some 27 := by decide
  rw [x1] at a1; rw [y1] at b1; rw [x2] at a2; rw [y2] at b2
  cases a1; cases b1; cases a2; cases b2
  obtain ⟨e, he, _, hh⟩ := h2 38 hret (Or.inr hnil) 3 hs3
  have y3 : endPos (cfg false) actsOk 3 = some 34 := by decide
  rw [y3] at he; cases he
  obtain ⟨r, hr, _, _, hh', _⟩ := h3 3 33 p3
  have z3 : sendPos (cfg false) actsOk 3 = some 6 := by decide
  rw [z3] at hr; cases hr
  exact ⟨p3, c1, d1, c2, d2, hret, hh, hh', by decide, by decide⟩

end Gen.ParEx
