/-
  C14 completeness, part 3: the declarative well-formedness of a flow (`WellFormed`) and its
  equivalence with acceptance by `validateFlow` (`validateFlow_iff_wellFormed`).
-/
import CffVerif.Gen.Complete2

namespace Gen

/-! ### acceptance as a conjunction -/

theorem ite_cons_nil_iff {c : Prop} [Decidable c] {x : String} :
    (if c then [x] else []) = ([] : List String) ↔ ¬ c := by
  by_cases h : c <;> simp [h]

theorem ite_nil_cons_iff {c : Prop} [Decidable c] {x : String} :
    (if c then [] else [x]) = ([] : List String) ↔ c := by
  by_cases h : c <;> simp [h]

/-- Acceptance, as the conjunction of the directly checked conditions and the two verdicts of the
    breadth-first walk. -/
theorem validateFlow_nil_iff (p : Prog) : validateFlow p = [] ↔
    AcceptFacts p ∧
    (bfs (funcs p) (bfsFuel p) (sinksOf p) [] p.params.eraseDups []).1 = [] ∧
    (bfs (funcs p) (bfsFuel p) (sinksOf p) [] p.params.eraseDups []).2 = [] := by
  constructor
  · intro h
    refine ⟨accept_facts p h, ?_⟩
    unfold validateFlow at h
    simp only [] at h
    rw [eraseDups_eq_nil_iff] at h
    simp only [List.append_eq_nil_iff] at h
    obtain ⟨⟨⟨_, h7⟩, h8⟩, _⟩ := h
    rw [ite_nil_cons_iff, List.isEmpty_iff] at h7 h8
    exact ⟨h7, h8⟩
  · intro ⟨hf, h7, h8⟩
    unfold validateFlow
    simp only []
    rw [eraseDups_eq_nil_iff]
    simp only [List.append_eq_nil_iff]
    refine ⟨⟨⟨⟨⟨⟨⟨⟨?_, ?_⟩, ?_⟩, ?_⟩, ?_⟩, ?_⟩, ?_⟩, ?_⟩, ?_⟩
    · rw [ite_cons_nil_iff]; simp [hf.paramsDistinct]
    · rw [List.flatMap_eq_nil_iff]
      intro t ht
      have h1 := hf.invokeIff t ht
      have h2 := hf.fallbackNeedsError t ht
      cases he : t.outs.isEmpty <;> cases hi : t.invoke <;> cases hb : t.fb <;> cases hr : t.err <;>
        simp_all
    · rw [ite_cons_nil_iff]; simpa using hf.invokeConstant
    · rw [ite_cons_nil_iff]
      intro hc
      simp only [Bool.and_eq_true, Bool.or_eq_true, beq_iff_eq] at hc
      exact hf.emitterForInstrument hc.1 hc.2
    · rw [ite_nil_cons_iff]; simp [hf.oneProvider.1, hf.oneProvider.2]
    · rw [ite_cons_nil_iff]
      simp only [List.any_eq_true, not_exists, not_and, Bool.not_eq_true']
      intro f hf' o ho
      have := hf.outputsConsumed f hf' o ho
      simp only [List.any_eq_true] at this
      rcases this with h | h | h
      · have hm : o ∈ p.results := List.contains_iff_mem.mp h
        simp; intro h'; exact absurd hm h'
      · obtain ⟨g, hg, hgo⟩ := h
        have hm : o ∈ g.deps := List.contains_iff_mem.mp hgo
        simp; intro _ h'; exact absurd hm (h' g hg)
      · simp; intro _ _; exact h
    · rw [ite_nil_cons_iff, List.isEmpty_iff]; exact h7
    · rw [ite_nil_cons_iff, List.isEmpty_iff]; exact h8
    · rw [ite_cons_nil_iff]; simp [hf.noCycleFound]

/-! ### the declarative specification -/

/-- A type is consumed if it is a Result or a dependency of some function (task or predicate). -/
def Consumed (p : Prog) (τ : Ty) : Prop := τ ∈ p.results ∨ ∃ f ∈ funcs p, τ ∈ f.deps

/-- Declarative well-formedness of a flow; no reference to `bfs`, `dfsCycle`, `hasCycle` or fuel. -/
structure WellFormed (p : Prog) : Prop where
  paramsDistinct   : p.params.Nodup
  invokeIff        : ∀ t ∈ p.tasks, (t.outs = [] ↔ t.invoke = true)
  fallbackNeedsErr : ∀ t ∈ p.tasks, t.fb = true → t.err = true
  invokeConstant   : p.quirk ≠ "invokevar"
  emitterForInstr  : (p.instrDir = true ∨ ∃ t ∈ p.tasks, t.instr = true) → p.emitters ≠ 0
  /-- no type is provided by two functions, or twice by one function -/
  uniqueProvider   : ∀ τ, countProviders (funcs p) τ ≤ 1
  paramNotProvided : ∀ τ ∈ p.params, countProviders (funcs p) τ = 0
  consumedProvided : ∀ τ, Consumed p τ → τ ∈ p.params ∨ 0 < countProviders (funcs p) τ
  paramsConsumed   : ∀ τ ∈ p.params, Consumed p τ
  outputsConsumed  : ∀ f ∈ funcs p, ∀ o ∈ f.outs, Consumed p o
  acyclic          : Acyclic p

/-- The encoding assumption of the model: user types and task ids are below 1000 (Invoke sentinel
    types are `1000+k`, predicate sentinel types `2000+k`). -/
def SmallTypes (p : Prog) : Prop :=
  (∀ τ ∈ p.params ++ p.results, τ < 1000) ∧
  ∀ t ∈ p.tasks, t.k < 1000 ∧ ∀ τ ∈ t.ins ++ t.outs ++ t.pins, τ < 1000

/-- Task ids are pairwise distinct (guaranteed by the generator). -/
def DistinctIds (p : Prog) : Prop := (p.tasks.map (·.k)).Nodup

/-! ### every function is reachable -/

theorem reach_consumed_or_inv {p : Prog} {x : Ty} (h : Reach (funcs p) (sinksOf p) x) :
    Consumed p x ∨ ∃ t ∈ p.tasks, t.invoke = true ∧ x = invTy t.k := by
  cases h with
  | sink hs =>
    rcases mem_sinksOf.mp hs with h | h
    · exact Or.inl (Or.inl h)
    · exact Or.inr h
  | dep _ _ hd => exact Or.inl (Or.inr ⟨_, getD_mem (getD_deps_lt hd), hd⟩)

/-- **`all_reachable`.**  In an acyclic flow with unique providers in which every output is consumed
    and output-less tasks carry Invoke, every function provides some type that the walk from the
    Results/Invoke sinks reaches. -/
theorem all_reachable (p : Prog) (hinv : ∀ t ∈ p.tasks, t.outs = [] → t.invoke = true)
    (hcons : ∀ f ∈ funcs p, ∀ o ∈ f.outs, Consumed p o) (hu : crossUnique (funcs p) = true)
    (hac : Acyclic p) :
    ∀ i, i < (funcs p).length →
      ∃ o ∈ ((funcs p).getD i default).provides, Reach (funcs p) (sinksOf p) o := by
  obtain ⟨rank, hrank, hbound⟩ := hac
  have main : ∀ n i, i < (funcs p).length → (funcs p).length + 1 - rank i ≤ n →
      ∃ o ∈ ((funcs p).getD i default).provides, Reach (funcs p) (sinksOf p) o := by
    intro n
    induction n with
    | zero => intro i _ h; have := hbound i; omega
    | succ n ih =>
      intro i hi hn
      have hfi := getD_mem hi
      cases ho : ((funcs p).getD i default).outs with
      | nil =>
        obtain ⟨t, ht, hf | ⟨_, hf⟩⟩ := mem_funcs.mp hfi
        · rw [hf] at ho ⊢
          have hti : t.invoke = true := hinv t ht ho
          exact ⟨invTy t.k, (invTy_provided ht hti).2,
            Reach.sink (mem_sinksOf.mpr (Or.inr ⟨t, ht, hti, rfl⟩))⟩
        · rw [hf] at ho; simp [Task.predFn] at ho
      | cons o os =>
        have hoo : o ∈ ((funcs p).getD i default).outs := by rw [ho]; simp
        have hop : o ∈ ((funcs p).getD i default).provides := by
          unfold Fn.provides; exact List.mem_append_left _ hoo
        refine ⟨o, hop, ?_⟩
        rcases hcons _ hfi o hoo with hr | ⟨g, hg, hog⟩
        · exact Reach.sink (mem_sinksOf.mpr (Or.inl hr))
        · obtain ⟨j, hj, rfl⟩ := exists_getD_of_mem hg
          have hpo : providerOf (funcs p) o = some i := providerOf_of_mem hu hi hop
          have hlt : rank i < rank j := by
            apply hrank j i
            simp only [dependsOn, List.mem_filterMap]
            exact ⟨o, hog, hpo⟩
          have hbj := hbound j
          obtain ⟨o', ho', hr'⟩ := ih j hj (by omega)
          exact Reach.dep hr' (providerOf_of_mem hu hj ho') hog
  intro i hi
  exact main _ i hi (Nat.le_refl _)

theorem reach_of_consumed (p : Prog) (hinv : ∀ t ∈ p.tasks, t.outs = [] → t.invoke = true)
    (hcons : ∀ f ∈ funcs p, ∀ o ∈ f.outs, Consumed p o) (hu : crossUnique (funcs p) = true)
    (hac : Acyclic p) {x : Ty} (hx : Consumed p x) : Reach (funcs p) (sinksOf p) x := by
  rcases hx with hr | ⟨g, hg, hxg⟩
  · exact Reach.sink (mem_sinksOf.mpr (Or.inl hr))
  · obtain ⟨j, hj, rfl⟩ := exists_getD_of_mem hg
    obtain ⟨o', ho', hr'⟩ := all_reachable p hinv hcons hu hac j hj
    exact Reach.dep hr' (providerOf_of_mem hu hj ho') hxg

/-! ### completeness -/

theorem wellFormed_acceptFacts (p : Prog) (h : WellFormed p) : AcceptFacts p := by
  refine ⟨?_, ?_, h.fallbackNeedsErr, h.invokeConstant, ?_, (unique_iff _).mp h.uniqueProvider, ?_, ?_⟩
  · exact (eraseDups_length_eq_iff _).mpr h.paramsDistinct
  · intro t ht; rw [List.isEmpty_iff]; exact h.invokeIff t ht
  · intro hi
    apply h.emitterForInstr
    rcases hi with hi | hi
    · exact Or.inl hi
    · obtain ⟨t, ht, hti⟩ := List.any_eq_true.mp hi
      exact Or.inr ⟨t, ht, hti⟩
  · intro f hf o ho
    rcases h.outputsConsumed f hf o ho with hr | ⟨g, hg, hog⟩
    · exact Or.inl (List.contains_iff_mem.mpr hr)
    · exact Or.inr (Or.inl (List.any_eq_true.mpr ⟨g, hg, List.contains_iff_mem.mpr hog⟩))
  · exact hasCycle_false_of_acyclic p h.acyclic

set_option linter.unusedVariables false in
/-- **Completeness.**  Every well-formed flow is accepted.  (Neither side condition is used by this
    direction; they are kept so that the three statements have the same shape.) -/
theorem wellFormed_accepted (p : Prog) (hs : SmallTypes p) (hd : DistinctIds p) (h : WellFormed p) :
    validateFlow p = [] := by
  have hf := wellFormed_acceptFacts p h
  obtain ⟨hmiss, hleft⟩ := bfs_spec p
  rw [validateFlow_nil_iff]
  refine ⟨hf, ?_, ?_⟩
  · rw [List.eq_nil_iff_forall_not_mem]
    intro x hx
    obtain ⟨hr, hn, hxp⟩ := (hmiss x).mp hx
    rcases reach_consumed_or_inv hr with hc | ⟨t, ht, hti, rfl⟩
    · rcases h.consumedProvided x hc with hp | hp
      · exact hxp hp
      · obtain ⟨i, hi⟩ := countProviders_pos_iff.mp hp
        rw [hn] at hi; cases hi
    · obtain ⟨h1, h2⟩ := invTy_provided ht hti
      exact providerOf_eq_none_iff.mp hn _ h1 h2
  · rw [List.eq_nil_iff_forall_not_mem]
    intro x hx
    obtain ⟨hxp, hnot⟩ := (hleft x).mp hx
    apply hnot
    refine ⟨?_, countProviders_eq_zero_iff.mp (h.paramNotProvided x hxp)⟩
    exact reach_of_consumed p (fun t ht => (h.invokeIff t ht).mp) h.outputsConsumed
      hf.oneProvider.1 h.acyclic (h.paramsConsumed x hxp)

set_option linter.unusedVariables false in
/-- **Soundness.**  Every accepted flow is well-formed.  `SmallTypes` is needed (see the example in
    `Gen/Complete.lean`: the model tolerates an unconsumed output in the Invoke-sentinel range);
    `DistinctIds` is not used: a clash of ids that matters makes two functions provide the same
    sentinel type, which both sides reject. -/
theorem accepted_wellFormed (p : Prog) (hs : SmallTypes p) (hd : DistinctIds p)
    (h : validateFlow p = []) : WellFormed p := by
  obtain ⟨hf, hm, hl⟩ := (validateFlow_nil_iff p).mp h
  obtain ⟨hmiss, hleft⟩ := bfs_spec p
  rw [hm] at hmiss
  rw [hl] at hleft
  have hac : Acyclic p := acyclic_of_no_cycle p hf.noCycleFound hf.oneProvider.1
  have hinv : ∀ t ∈ p.tasks, (t.outs = [] ↔ t.invoke = true) := by
    intro t ht; rw [← List.isEmpty_iff]; exact hf.invokeIff t ht
  have hcons : ∀ f ∈ funcs p, ∀ o ∈ f.outs, Consumed p o := by
    intro f hff o ho
    rcases hf.outputsConsumed f hff o ho with hr | hr | hr
    · exact Or.inl (List.contains_iff_mem.mp hr)
    · obtain ⟨g, hg, hog⟩ := List.any_eq_true.mp hr
      exact Or.inr ⟨g, hg, List.contains_iff_mem.mp hog⟩
    · exfalso
      obtain ⟨t, ht, hft | ⟨_, hft⟩⟩ := mem_funcs.mp hff
      · subst hft
        have := (hs.2 t ht).2 o (by simp [Task.fn] at ho; simp [ho])
        exact Nat.lt_irrefl _ (Nat.lt_of_lt_of_le this hr.1)
      · subst hft
        simp only [Task.predFn, prdTy, List.mem_singleton] at ho
        subst ho
        exact Nat.not_lt.mpr (Nat.le_add_right 2000 t.k) hr.2
  have hparam : ∀ x ∈ p.params, Reach (funcs p) (sinksOf p) x ∧ providerOf (funcs p) x = none := by
    intro x hx
    exact Classical.byContradiction fun hn => List.not_mem_nil ((hleft x).mpr ⟨hx, hn⟩)
  refine ⟨(eraseDups_length_eq_iff _).mp hf.paramsDistinct, hinv, hf.fallbackNeedsError,
    hf.invokeConstant, ?_, (unique_iff _).mpr hf.oneProvider, ?_, ?_, ?_, hcons, hac⟩
  · intro hi
    apply hf.emitterForInstrument
    rcases hi with hi | ⟨t, ht, hti⟩
    · exact Or.inl hi
    · exact Or.inr (List.any_eq_true.mpr ⟨t, ht, hti⟩)
  · intro x hx
    exact countProviders_eq_zero_iff.mpr (hparam x hx).2
  · intro x hx
    have hr := reach_of_consumed p (fun t ht => (hinv t ht).mp) hcons hf.oneProvider.1 hac hx
    have := fun hh => List.not_mem_nil ((hmiss x).mpr hh)
    by_cases hxp : x ∈ p.params
    · exact Or.inl hxp
    · right
      apply countProviders_pos_iff.mpr
      cases hp : providerOf (funcs p) x with
      | some i => exact ⟨i, rfl⟩
      | none => exact absurd ⟨hr, hp, hxp⟩ this
  · intro x hx
    rcases reach_consumed_or_inv (hparam x hx).1 with hc | ⟨t, _, _, he⟩
    · exact hc
    · have := hs.1 x (List.mem_append_left _ hx)
      simp only [invTy] at he
      subst he
      exact absurd this (Nat.not_lt.mpr (Nat.le_add_right 1000 t.k))

/-- **C14, sound and complete.**  Under the encoding assumptions, the executable validation model
    accepts exactly the declaratively well-formed flows. -/
theorem validateFlow_iff_wellFormed (p : Prog) (hs : SmallTypes p) (hd : DistinctIds p) :
    validateFlow p = [] ↔ WellFormed p :=
  ⟨accepted_wellFormed p hs hd, wellFormed_accepted p hs hd⟩

end Gen
