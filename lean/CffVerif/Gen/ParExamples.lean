/-
  Non-vacuity of the Parallel composition theorems (`Gen.ParCompose`): concrete runs of the
  scheduler model on the job list generated for

      cff.Parallel(ctx, cff.Concurrency(2),
        cff.Task(f0),
        cff.Slice(func(i int, v T) error, s /* len 2 */, cff.SliceEnd(end)),
        cff.Map(func(k K, v V) error, m /* len 1 */))

  All premises of `C10_calls_complete` (resp. `C08_par_errors`) hold of them, and the conclusions
  are the expected ones.  Everything is checked by `decide` (kernel evaluation).
-/
import CffVerif.Gen.ParCompose
import CffVerif.Gen.Check

namespace Gen.ParEx

open Sched

def p : Prog :=
  { kind := .par
    ptasks := [{ k := 0 }]
    slices := [{ id := 0, idx := true, len := some 2, hasEnd := true }]
    maps := [{ id := 1, len := some 1 }] }

def cfg (coe : Bool) : Cfg := { N := 2, coe := coe, emit := false, deps := (parJobs p).map (·.deps) }

theorem parCfg (coe : Bool) : ParCfg p (cfg coe) := ⟨rfl, rfl, Nat.le_succ 1⟩

/-- jobs: 0 = task, 1, 2 = slice elements, 3 = SliceEnd (after 1 and 2), 4 = map entry. -/
example : (parJobs p).map (·.deps) = [[], [], [], [1, 2], []] ∧
    (parJobs p).map (·.body) =
      [.task 0, .sliceElem 0 0 70235, .sliceElem 0 1 70236, .sliceEnd 0, .mapElem 1 0 84331 94331] ∧
    CollAt p .slice { id := 0, idx := true, len := some 2, hasEnd := true } 1 ∧
    CollAt p .map { id := 1, len := some 1 } 4 :=
  ⟨by decide, by decide, ⟨0, by decide, by decide⟩, ⟨0, by decide, by decide⟩⟩

def enqueueAll : List Act :=
  [.callerSend, .loopEnq, .callerSend, .loopEnq, .callerSend, .loopEnq, .callerSend, .loopEnq, .callerSend, .loopEnq,
   .callerClose, .loopEnqClosed]

/-- Fail-fast, nothing fails, two workers, bodies ending out of enqueue order, up to `Wait` = nil. -/
def actsOk : List Act :=
  enqueueAll ++
  [.loopDispatch 0, .loopDispatch 1, .workerDecide 0, .workerDecide 1,
   .workerEnd 1 .ok false, .workerEnd 0 .ok false, .workerPost 1, .workerPost 0, .loopResult, .loopResult,
   .loopDispatch 0, .loopDispatch 1, .workerDecide 0, .workerDecide 1,
   .workerEnd 1 .ok false, .workerEnd 0 .ok false, .workerPost 0, .workerPost 1, .loopResult, .loopResult,
   .loopDispatch 0, .workerDecide 0, .workerEnd 0 .ok false, .workerPost 0, .loopResult,
   .loopClose, .callerRetFin]

/-- **Non-vacuity of `C10_calls_complete` / `C10_end_last`.** The premises hold, and the functions
    called are the five expected ones, each once, the End function last of its slice. -/
example : ∃ s, run (cfg false) (init (cfg false)) actsOk = some s ∧
    Ev.waitReturned [] ∈ s.log ∧ s.caller.sent = (parJobs p).length ∧ Consistent p {} s.log ∧
    endedIds s.log = [1, 0, 4, 2, 3] ∧
    callsOf p {} s.log = ["scall 0 0 70235", "call 0", "mcall 1 84331 94331", "scall 0 1 70236", "secall 0"] ∧
    (callsOf p {} s.log).isPerm
      (["call 0"] ++ ["scall 0 0 70235", "scall 0 1 70236", "secall 0"] ++ ["mcall 1 84331 94331"]) = true ∧
    s.log.idxOf (Ev.ended 1 .ok) < s.log.idxOf (Ev.started 3) ∧
    s.log.idxOf (Ev.ended 2 .ok) < s.log.idxOf (Ev.started 3) := by
  decide

/-- The spelled-out lines of `parJobs_calls` for this program. -/
example : (p.ptasks.map fun t => s!"call {t.k}") ++ p.slices.flatMap (sliceLines p) ++ p.maps.flatMap mapLines
    = ["call 0", "scall 0 0 70235", "scall 0 1 70236", "secall 0", "mcall 1 84331 94331"] := by
  decide

/-- The task panics, the slice function returns an error on element 1. -/
def scFail : Scenario := { fn := [(0, .panic)], sl := [(0, 1, .err)] }

/-- ContinueOnError; the task (job 0) and slice element 1 (job 2) run concurrently and both fail;
    job 0 ends first but job 2 posts its result first. -/
def actsFail : List Act :=
  enqueueAll ++
  [.loopDispatch 0, .loopDispatch 1, .workerDecide 0, .workerDecide 1,
   .workerEnd 1 .ok false, .workerPost 1, .loopResult,
   .loopDispatch 1, .workerDecide 1,
   .workerEnd 0 (.fail 0) false, .workerEnd 1 (.fail 2) false, .workerPost 1, .workerPost 0, .loopResult, .loopResult,
   .loopDispatch 0, .loopDispatch 1, .workerDecide 0, .workerDecide 1,
   .workerEnd 0 .ok false, .workerPost 0, .workerPost 1, .loopResult, .loopResult,
   .loopClose, .callerRetFin]

/-- **Non-vacuity of `C08_par_errors` / `C08_par_end_iff` / `C10_end_never_after_failure`,** and the
    counterexample to "the entries are in the order of the `ended` events": the premises hold
    (`noCancelB` is the executable form of `∀ x, Ev.cancelled x ∉ s.log`, `noCancel_of_b`, which gives
    the premise `∀ j, Ev.cancelled (c.ctxOfJob j) ∉ s.log`); every
    task/element/entry function was called once although two of them failed; the End function was
    never started (its job was skipped as invalid); `Wait` returns exactly the two functions' own
    errors — in the order `[job 2, job 0]` in which the loop saw the results, whereas the bodies
    ended in the order `[job 0, job 2]`. -/
example : ∃ s, run (cfg true) (init (cfg true)) actsFail = some s ∧
    s.loop.phase ≠ .select ∧ s.caller.sent = (parJobs p).length ∧ noCancelB s.log = true ∧
    Consistent p scFail s.log ∧
    callsOf p scFail s.log = ["scall 0 0 70235", "call 0", "scall 0 1 70236", "mcall 1 84331 94331"] ∧
    Ev.started 3 ∉ s.log ∧ Ev.skipped 3 .invalid ∈ s.log ∧
    failedIds s.log = [0, 2] ∧
    s.loop.err = [.fail 2, .fail 0] ∧
    s.caller.ret = some [.fail 2, .fail 0] ∧
    s.loop.err.map (entryOf p scFail) = ["serr:0:1", "panic:0:str"] := by
  decide

/-- The same scenario is *not* consistent with a log in which the failing element ended ok
    (`Consistent` is not vacuous). -/
example : ¬ Consistent p scFail [Ev.ended 2 .ok] ∧ ¬ Consistent p scFail [Ev.ended 2 (.fail 7)] ∧
    ¬ Consistent p scFail [Ev.ended 1 .goexit] ∧ Consistent p scFail [Ev.ended 2 (.fail 2), Ev.ended 1 .ok] := by
  decide

/-! ### agreement with the oracle `checkPar`

The observation a run of the model would produce (call lines of the bodies that ended, entries of
the error `Wait` returned) is accepted by the executable oracle the driver applies to observations
of the real generated code: no `calls`, `ret`, `order` or `crash` divergence.  This checks that
`runPJob`'s call lines and error entries are spelled as the oracle expects them. -/

open Gen.Check in
def modelObs (p : Prog) (sc : Scenario) (s : State) : Obs :=
  { hasRet := true
    ret := (s.caller.ret.getD []).map (entryOf p sc)
    calls := (callsOf p sc s.log).map fun l => match l.splitOn " " with
      | h :: t => (h, t)
      | [] => ("", []) }

open Gen.Check in
def oracleDivs (p : Prog) (sc : Scenario) (s : State) : List Div :=
  (checkPar p sc 4 (modelObs p sc s)).filter fun d => d.1 == "calls" || d.1 == "ret" || d.1 == "order" || d.1 == "crash"

-- (`#guard`: evaluated at build time; `decide` cannot unfold the oracle's string functions)
#guard (run (cfg false) (init (cfg false)) actsOk).map (oracleDivs p {}) == some []
#guard (run (cfg true) (init (cfg true)) actsFail).map (oracleDivs { p with coe := "const1" } scFail) == some []
-- the oracle is not vacuous: the same observation is rejected for a fail-fast directive
#guard (run (cfg true) (init (cfg true)) actsFail).map (fun s => (oracleDivs { p with coe := "const0" } scFail s).length)
  == some 1

end Gen.ParEx
