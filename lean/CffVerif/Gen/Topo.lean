/-
  C02_topo_sound: the enqueue order computed by `toposort` (internal/graph.go) lists every function
  after all the functions it depends on, for every acyclic dependency relation.  Acyclicity is
  stated declaratively (existence of a rank function).
-/
import CffVerif.Gen.Compile

namespace Gen

/-- Every element of the list has all its dependencies earlier in the list. -/
def Closed (dep : Nat → List Nat) (acc : List Nat) : Prop :=
  ∀ (i x : Nat), acc[i]? = some x → ∀ d ∈ dep x, ∃ j : Nat, j < i ∧ acc[j]? = some d

theorem closed_nil (dep : Nat → List Nat) : Closed dep [] := by intro i x h; simp at h

theorem closed_mem {dep : Nat → List Nat} {acc : List Nat} (h : Closed dep acc) {x : Nat} (hx : x ∈ acc) :
    ∀ d ∈ dep x, d ∈ acc := by
  intro d hd
  obtain ⟨i, hi⟩ := List.mem_iff_getElem?.mp hx
  obtain ⟨j, _, hj⟩ := h i x hi d hd
  exact List.mem_of_getElem? hj

theorem closed_append {dep : Nat → List Nat} {acc : List Nat} (h : Closed dep acc) {n : Nat}
    (hd : ∀ d ∈ dep n, d ∈ acc) : Closed dep (acc ++ [n]) := by
  intro i x hi d hdx
  by_cases hlt : i < acc.length
  · rw [List.getElem?_append_left hlt] at hi
    obtain ⟨j, hj, hjd⟩ := h i x hi d hdx
    exact ⟨j, hj, by rw [List.getElem?_append_left (by omega)]; exact hjd⟩
  · rw [List.getElem?_append_right (by omega)] at hi
    have hi0 : i = acc.length := by
      have := (List.getElem?_eq_some_iff.mp hi).1; simp at this; omega
    subst hi0
    simp at hi; subst hi
    obtain ⟨j, hj⟩ := List.mem_iff_getElem?.mp (hd d hdx)
    have hjl := (List.getElem?_eq_some_iff.mp hj).1
    exact ⟨j, hjl, by rw [List.getElem?_append_left hjl]; exact hj⟩

/-- The generic DFS of `toposort`, over an arbitrary dependency function. -/
def visit (dep : Nat → List Nat) : Nat → Nat → List Nat → List Nat
  | 0, _, acc => acc
  | fuel + 1, n, acc =>
    if acc.contains n then acc
    else
      let acc := (dep n).foldl (fun acc d => visit dep fuel d acc) acc
      if acc.contains n then acc else acc ++ [n]

structure VisitOk (dep : Nat → List Nat) (acc acc' : List Nat) (n : Nat) : Prop where
  closed : Closed dep acc'
  nodup : acc'.Nodup
  mono : ∀ x ∈ acc, x ∈ acc'
  mem : n ∈ acc'

theorem visit_ok (dep : Nat → List Nat) (rank : Nat → Nat) (hrank : ∀ i, ∀ d ∈ dep i, rank d < rank i) :
    ∀ (fuel n : Nat) (acc : List Nat), rank n < fuel → Closed dep acc → acc.Nodup →
      VisitOk dep acc (visit dep fuel n acc) n := by
  intro fuel
  induction fuel with
  | zero => intro n acc h; omega
  | succ fuel ih =>
    intro n acc hr hc hnd
    simp only [visit]
    by_cases hin : acc.contains n = true
    · rw [if_pos hin]
      exact ⟨hc, hnd, fun x hx => hx, by simpa using hin⟩
    · rw [if_neg hin]
      -- fold over the dependencies
      have fold : ∀ (ds : List Nat) (a : List Nat), (∀ d ∈ ds, rank d < fuel) → Closed dep a → a.Nodup →
          Closed dep (ds.foldl (fun acc d => visit dep fuel d acc) a) ∧
          (ds.foldl (fun acc d => visit dep fuel d acc) a).Nodup ∧
          (∀ x ∈ a, x ∈ ds.foldl (fun acc d => visit dep fuel d acc) a) ∧
          (∀ d ∈ ds, d ∈ ds.foldl (fun acc d => visit dep fuel d acc) a) := by
        intro ds
        induction ds with
        | nil => intro a _ hca hna; exact ⟨hca, hna, fun x hx => hx, by simp⟩
        | cons d ds ihd =>
          intro a hrd hca hna
          simp only [List.foldl_cons]
          have v := ih d a (hrd d (by simp)) hca hna
          obtain ⟨c1, c2, c3, c4⟩ := ihd (visit dep fuel d a) (fun x hx => hrd x (by simp [hx])) v.closed v.nodup
          refine ⟨c1, c2, fun x hx => c3 x (v.mono x hx), ?_⟩
          intro x hx
          simp only [List.mem_cons] at hx
          rcases hx with rfl | hx
          · exact c3 x v.mem
          · exact c4 x hx
      have hds : ∀ d ∈ dep n, rank d < fuel := fun d hd => by have := hrank n d hd; omega
      obtain ⟨f1, f2, f3, f4⟩ := fold (dep n) acc hds hc hnd
      by_cases hin2 : ((dep n).foldl (fun acc d => visit dep fuel d acc) acc).contains n = true
      · rw [if_pos hin2]
        exact ⟨f1, f2, f3, by simpa using hin2⟩
      · rw [if_neg hin2]
        have hnotin : n ∉ (dep n).foldl (fun acc d => visit dep fuel d acc) acc := by simpa using hin2
        refine ⟨closed_append f1 f4, ?_, fun x hx => List.mem_append_left _ (f3 x hx), by simp⟩
        rw [List.nodup_append]
        exact ⟨f2, by simp, by intro a ha b hb; simp at hb; subst hb; intro e; subst e; exact hnotin ha⟩

/-- `topoVisit` is `visit` over `dependsOn`. -/
theorem topoVisit_eq (fs : List Fn) : ∀ (fuel n : Nat) (acc : List Nat),
    topoVisit fs fuel n acc = visit (dependsOn fs) fuel n acc := by
  intro fuel
  induction fuel with
  | zero => intro n acc; rfl
  | succ fuel ih =>
    intro n acc
    simp only [topoVisit, visit]
    have : ∀ (ds : List Nat) (a : List Nat), ds.foldl (fun acc d => topoVisit fs fuel d acc) a
        = ds.foldl (fun acc d => visit (dependsOn fs) fuel d acc) a := by
      intro ds; induction ds with
      | nil => intro a; rfl
      | cons d ds ihd => intro a; simp only [List.foldl_cons, ih, ihd]
    rw [this]

/-- **C02 topo soundness.** For an acyclic dependency relation whose ranks fit the fuel
    (`rank < Count + 1`), `toposort` returns every function exactly once, each after all the
    functions it depends on. -/
theorem toposort_sound (fs : List Fn) (rank : Nat → Nat)
    (hrank : ∀ i, ∀ d ∈ dependsOn fs i, rank d < rank i) (hbound : ∀ i, rank i < fs.length + 1) :
    Closed (dependsOn fs) (toposort fs) ∧ (toposort fs).Nodup ∧ ∀ i, i < fs.length → i ∈ toposort fs := by
  unfold toposort
  have gen : ∀ (ns : List Nat) (a : List Nat), Closed (dependsOn fs) a → a.Nodup →
      Closed (dependsOn fs) (ns.foldl (fun acc n => topoVisit fs (fs.length + 1) n acc) a) ∧
      (ns.foldl (fun acc n => topoVisit fs (fs.length + 1) n acc) a).Nodup ∧
      (∀ x ∈ a, x ∈ ns.foldl (fun acc n => topoVisit fs (fs.length + 1) n acc) a) ∧
      (∀ n ∈ ns, n ∈ ns.foldl (fun acc n => topoVisit fs (fs.length + 1) n acc) a) := by
    intro ns
    induction ns with
    | nil => intro a hc hn; exact ⟨hc, hn, fun x hx => hx, by simp⟩
    | cons n ns ih =>
      intro a hc hn
      simp only [List.foldl_cons]
      rw [topoVisit_eq]
      have v := visit_ok (dependsOn fs) rank hrank (fs.length + 1) n a (hbound n) hc hn
      have := ih (visit (dependsOn fs) (fs.length + 1) n a) v.closed v.nodup
      simp only [← topoVisit_eq] at this ⊢
      obtain ⟨c1, c2, c3, c4⟩ := this
      refine ⟨c1, c2, fun x hx => c3 x (by rw [topoVisit_eq]; exact v.mono x hx), ?_⟩
      intro x hx
      simp only [List.mem_cons] at hx
      rcases hx with rfl | hx
      · exact c3 x (by rw [topoVisit_eq]; exact v.mem)
      · exact c4 x hx
  obtain ⟨g1, g2, _, g4⟩ := gen (List.range fs.length) [] (closed_nil _) (by simp)
  exact ⟨g1, g2, fun i hi => g4 i (List.mem_range.mpr hi)⟩


/-- Acyclicity of a flow's function graph, declaratively: a rank that strictly decreases along
    every dependency, bounded by the number of functions. -/
def Acyclic (p : Prog) : Prop :=
  ∃ rank : Nat → Nat, (∀ i, ∀ d ∈ dependsOn (funcs p) i, rank d < rank i) ∧ ∀ i, rank i < (funcs p).length + 1

/-- **C02_topo_sound.** In the code generated for an acyclic flow every job names as `Dependencies`
    only jobs enqueued before it (so every `taskN.job` / `predN.job` is defined before use and the
    scheduler's contract "dependencies must be enqueued first" is met), and every function of the
    flow is enqueued exactly once. -/
theorem genJobs_deps_before (p : Prog) (hac : Acyclic p) :
    (∀ (pos : Nat) (j : Job), (genJobs p)[pos]? = some j → ∀ d ∈ j.deps, d < pos) ∧
    (genJobs p).length = (funcs p).length := by
  obtain ⟨rank, hrank, hbound⟩ := hac
  obtain ⟨hclosed, hnd, hall⟩ := toposort_sound (funcs p) rank hrank hbound
  refine ⟨?_, ?_⟩
  · intro pos j hj d hd
    simp only [genJobs, List.getElem?_map] at hj
    cases ht : (toposort (funcs p))[pos]? with
    | none => simp [ht] at hj
    | some i =>
      simp only [ht, Option.map_some, Option.some.injEq] at hj
      subst hj
      simp only [List.mem_map] at hd
      obtain ⟨x, hx, rfl⟩ := hd
      obtain ⟨jx, hjlt, hjx⟩ := hclosed pos i ht x hx
      obtain ⟨hjl, hje⟩ := List.getElem?_eq_some_iff.mp hjx
      have := hnd.idxOf_getElem jx hjl
      rw [hje] at this
      rw [this]; exact hjlt
  · simp only [genJobs, List.length_map]
    -- the order is a duplicate-free list containing every index below `length`, and nothing else
    have hsub : ∀ x ∈ toposort (funcs p), x < (funcs p).length := by
      -- every visited node is either a root `n < length` or a dependency, which is a provider index
      intro x hx
      by_cases hlt : x < (funcs p).length
      · exact hlt
      · exfalso
        -- ranks are bounded but that does not bound x; use the construction: x is in the list only
        -- if it is a root or `providerOf` returned it, both `< length`
        have hprov : ∀ i, ∀ d ∈ dependsOn (funcs p) i, d < (funcs p).length := by
          intro i d hd
          simp only [dependsOn, List.mem_filterMap] at hd
          obtain ⟨t, _, ht⟩ := hd
          simp only [providerOf] at ht
          have hm := List.mem_of_getLast? ht
          have := (List.mem_filter.mp hm).1
          exact List.mem_range.mp this
        -- generic fact about `visit`: new elements are the start node or dependencies
        have gen : ∀ (fuel n : Nat) (acc : List Nat), (∀ y ∈ acc, y < (funcs p).length) → n < (funcs p).length →
            ∀ y ∈ visit (dependsOn (funcs p)) fuel n acc, y < (funcs p).length := by
          intro fuel
          induction fuel with
          | zero => intro n acc ha _ y hy; exact ha y hy
          | succ fuel ih =>
            intro n acc ha hn y hy
            simp only [visit] at hy
            split at hy
            · exact ha y hy
            · have fold : ∀ (ds : List Nat) (a : List Nat), (∀ d ∈ ds, d < (funcs p).length) → (∀ z ∈ a, z < (funcs p).length) →
                  ∀ z ∈ ds.foldl (fun acc d => visit (dependsOn (funcs p)) fuel d acc) a, z < (funcs p).length := by
                intro ds
                induction ds with
                | nil => intro a _ h z hz; exact h z hz
                | cons d ds ihd =>
                  intro a hds h z hz
                  simp only [List.foldl_cons] at hz
                  exact ihd _ (fun e he => hds e (by simp [he])) (ih d a h (hds d (by simp))) z hz
              split at hy
              · exact fold _ acc (hprov n) ha y hy
              · rcases List.mem_append.mp hy with hy | hy
                · exact fold _ acc (hprov n) ha y hy
                · simp at hy; subst hy; exact hn
        have all : ∀ (ns : List Nat) (a : List Nat), (∀ n ∈ ns, n < (funcs p).length) → (∀ z ∈ a, z < (funcs p).length) →
            ∀ z ∈ ns.foldl (fun acc n => topoVisit (funcs p) ((funcs p).length + 1) n acc) a, z < (funcs p).length := by
          intro ns
          induction ns with
          | nil => intro a _ h z hz; exact h z hz
          | cons n ns ihn =>
            intro a hns h z hz
            simp only [List.foldl_cons] at hz
            apply ihn _ (fun e he => hns e (by simp [he])) _ z hz
            rw [topoVisit_eq]
            exact gen _ n a h (hns n (by simp))
        exact hlt (all (List.range (funcs p).length) [] (fun n hn => List.mem_range.mp hn) (by simp) x hx)
    -- a duplicate-free list over `range n` containing all of it has length n
    have hperm : (toposort (funcs p)).Perm (List.range (funcs p).length) := by
      apply (List.perm_ext_iff_of_nodup hnd List.nodup_range).mpr
      intro a
      constructor
      · intro ha; exact List.mem_range.mpr (hsub a ha)
      · intro ha; exact hall a (List.mem_range.mp ha)
    simpa using hperm.length_eq

end Gen
