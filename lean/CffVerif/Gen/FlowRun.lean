/-
  G — the end of the closure generated for cff.Flow (internal/templates/flow/flow.go.tmpl), after
  the jobs were enqueued:

      defer func() { flowEmitter.FlowDone(ctx, …) }()                      -- registered first
      defer func() { for _, t := range tasks { if !t.ran.Load() { t.emitter.TaskSkipped(ctx, err) } } }()
      …enqueue…
      if err := sched.Wait(ctx); err != nil { flowEmitter.FlowError(ctx, err); return err }
      *(r0) = v<τ0> … ; flowEmitter.FlowSuccess(ctx); return nil

  Deferred calls run last-in first-out: the TaskSkipped sweep runs before FlowDone, and sees the
  named result `err`.  `flowEmitter` and a task's emitter are no-ops unless the flow / the task is
  instrumented.  `tasks` is appended to in the order the task jobs are emitted (TopoFuncs order).

  `flowEnd` is used by the driver (Gen.Check.checkFlow) to compare the tail of every recording
  emitter of real generated code; the theorems below are about that same definition.
-/
import CffVerif.Gen.Flow

namespace Gen

/-- An event as the recording emitters of the harness see it: kind, task id (-1 = directive), class. -/
abbrev DEv := String × Int × String

def sortStr (l : List String) : List String := l.mergeSort (fun a b => decide (a ≤ b))

/-- Class of the error handed to FlowError/TaskSkipped: "nil" or the sorted entries. -/
def retCls (ret : List String) : String := if ret.isEmpty then "nil" else "+".intercalate (sortStr ret)

/-- The instrumented tasks in the order of the generated `tasks` slice. -/
def instrTasksInOrder (p : Prog) : List Nat :=
  (genJobs p).filterMap fun j =>
    if !j.fn.isPred && p.taskInstrumented (taskOf p j.fn.k) then some j.fn.k else none

def skippedEv (rc : String) (k : Nat) : DEv := ("TaskSkipped", Int.ofNat k, rc)

structure FlowEnd where
  ret : List String              -- what the closure returns ([] = nil)
  written : List (Nat × Nat)     -- (index of the Results target, value copied into it)
  events : List DEv              -- what every installed emitter receives from here on

/-- The closure's epilogue as a function of what `Wait` returned and of the closure variables at
    that moment (`st.val` for the Results copy, `st.ran` for the sweep). -/
def flowEnd (p : Prog) (wait : List String) (st : Store) : FlowEnd :=
  let rc := retCls wait
  let outcome : List DEv :=
    if !p.instrDir then [] else if wait.isEmpty then [("FlowSuccess", -1, "-")] else [("FlowError", -1, rc)]
  let sweep : List DEv := ((instrTasksInOrder p).filter fun k => !st.ran k).map (skippedEv rc)
  let done : List DEv := if p.instrDir then [("FlowDone", -1, "-")] else []
  { ret := wait
    written := if wait.isEmpty then (List.range p.results.length).map fun i => (i, st.val (p.results.getD i 0)) else []
    events := outcome ++ sweep ++ done }

def DEv.isDirective (e : DEv) : Bool := e.2.1 == -1

/-! ### theorems -/

theorem skipped_not_directive (rc : String) (k : Nat) : DEv.isDirective (skippedEv rc k) = false := by
  simp only [DEv.isDirective, skippedEv, beq_eq_false_iff_ne, ne_eq]
  intro h; cases h

theorem filter_dir_sweep (rc : String) (ks : List Nat) :
    (ks.map (skippedEv rc)).filter DEv.isDirective = [] := by
  rw [List.filter_eq_nil_iff]
  intro e he
  obtain ⟨k, _, rfl⟩ := List.mem_map.mp he
  simp [skipped_not_directive]

theorem filter_nondir_sweep (rc : String) (ks : List Nat) :
    (ks.map (skippedEv rc)).filter (fun e => !DEv.isDirective e) = ks.map (skippedEv rc) := by
  rw [List.filter_eq_self]
  intro e he
  obtain ⟨k, _, rfl⟩ := List.mem_map.mp he
  simp [skipped_not_directive]

/-- **C18 directive events.** An instrumented flow reports exactly one outcome event — FlowSuccess
    iff it returns nil, otherwise FlowError carrying the returned error — followed by exactly one
    FlowDone, and nothing else at directive level; a flow that is not instrumented reports nothing. -/
theorem flowEnd_directive_events (p : Prog) (wait : List String) (st : Store) :
    (flowEnd p wait st).events.filter DEv.isDirective =
      if p.instrDir then
        [if wait.isEmpty then ("FlowSuccess", -1, "-") else ("FlowError", -1, retCls wait), ("FlowDone", -1, "-")]
      else [] := by
  simp only [flowEnd, List.filter_append, filter_dir_sweep]
  cases hi : p.instrDir <;> cases hw : wait.isEmpty <;> simp [DEv.isDirective]

/-- FlowDone is the last event of an instrumented flow. -/
theorem flowEnd_done_last (p : Prog) (wait : List String) (st : Store) (hi : p.instrDir = true) :
    (flowEnd p wait st).events.getLast? = some ("FlowDone", -1, "-") := by
  simp [flowEnd, hi]

/-- **C18 skipped.** The sweep reports TaskSkipped exactly for the instrumented tasks that did not
    run, once each in `tasks` order, with the error the flow returns (nil on success). -/
theorem flowEnd_skipped (p : Prog) (wait : List String) (st : Store) :
    (flowEnd p wait st).events.filter (fun e => !DEv.isDirective e) =
      ((instrTasksInOrder p).filter fun k => !st.ran k).map (skippedEv (retCls wait)) := by
  simp only [flowEnd, List.filter_append, filter_nondir_sweep]
  cases hi : p.instrDir <;> cases hw : wait.isEmpty <;> simp [DEv.isDirective]

/-- **C07 results.** The Results targets are written only when `Wait` returned nil — then every
    target gets the value of its type's variable — and never on an error: they keep their values. -/
theorem flowEnd_results (p : Prog) (wait : List String) (st : Store) :
    (wait ≠ [] → (flowEnd p wait st).written = []) ∧
    (wait = [] → (flowEnd p wait st).written = (List.range p.results.length).map fun i => (i, st.val (p.results.getD i 0))) := by
  constructor
  · intro h
    have : wait.isEmpty = false := by cases wait <;> simp_all
    simp [flowEnd, this]
  · intro h; subst h; simp [flowEnd]

/-- **C07 error identity.** The closure returns what `Wait` returned, unchanged. -/
theorem flowEnd_ret (p : Prog) (wait : List String) (st : Store) : (flowEnd p wait st).ret = wait := rfl

/-- Non-vacuity: an instrumented flow with two instrumented tasks of which the second did not run
    (its predicate was false) and which returns nil. -/
example :
    let t0 : Task := { k := 0, ins := [1], outs := [2], instr := true }
    let t1 : Task := { k := 1, ins := [2], outs := [3], instr := true, pred := true }
    let p : Prog := { params := [1], results := [3], tasks := [t1, t0], emitters := 1, instrDir := true }
    let st : Store := { ran := fun k => k == 0 }
    (flowEnd p [] st).events = [("FlowSuccess", -1, "-"), ("TaskSkipped", 1, "nil"), ("FlowDone", -1, "-")] ∧
    (flowEnd p [] st).written = [(0, 0)] := by
  decide

end Gen
