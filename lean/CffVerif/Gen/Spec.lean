/-
  G/C — abstract program specs, scenarios and the value discipline shared with
  harness/cmd/progrun (format: harness/PROTOCOL.md).
-/
namespace Gen

abbrev Ty := Nat

/-! ### value discipline (bit-identical to harness/internal/progspec) -/

def modulus : Nat := 2147483629
def mix (acc x : Nat) : Nat := (acc * 31 + x + 17) % modulus
def H (tag : Nat) (xs : List Nat) : Nat := 1 + (tag :: xs).foldl mix 7
def taskOut (k o : Nat) (args : List Nat) : Nat := H (100 + 16 * k + o) args
def paramVal (i : Nat) : Nat := H (50000 + i) []
def fallbackVal (k o : Nat) : Nat := H (60000 + 16 * k + o) []
def sliceElem (s i : Nat) : Nat := H (70000 + 4096 * s + i) []
def mapKey (m j : Nat) : Nat := H (80000 + 4096 * m + j) []
def mapVal (m j : Nat) : Nat := H (90000 + 4096 * m + j) []

/-! ### specs -/

structure Task where
  k : Nat
  pos : Nat := 0
  ctx : Bool := false
  err : Bool := false
  invoke : Bool := false
  instr : Bool := false
  fb : Bool := false
  pred : Bool := false
  pctx : Bool := false
  ins : List Ty := []
  outs : List Ty := []
  pins : List Ty := []
  deriving Repr, DecidableEq, Inhabited

structure PTask where
  k : Nat
  ctx : Bool := false
  err : Bool := false
  instr : Bool := false
  group : Option Nat := none
  deriving Repr, DecidableEq, Inhabited

structure Coll where          -- a cff.Slice or cff.Map
  id : Nat
  idx : Bool := false         -- slice function has the index parameter
  ctx : Bool := false
  err : Bool := false
  len : Option Nat := some 0  -- none = nil collection
  hasEnd : Bool := false
  endctx : Bool := false
  enderr : Bool := false
  /-- the collection's element (key, value) types are assignable to the function's parameters
      (Go's assignability is an abstract relation here; the harness states it per pair) -/
  assignable : Bool := true
  deriving Repr, DecidableEq, Inhabited

inductive Kind | flow | par
  deriving Repr, DecidableEq, Inhabited

structure Prog where
  pid : Nat := 0
  kind : Kind := .flow
  stream : String := "wf"
  quirk : String := "-"            -- source-level peculiarity (e.g. invokevar: a cff.Invoke argument is not a constant)
  sigP : String := "-"             -- sig-shape: parameter kinds of one task's function (c/v, trailing V = variadic)
  sigR : String := "-"             -- sig-shape: result kinds (v/e)
  params : List Ty := []
  results : List Ty := []
  tasks : List Task := []          -- in listing (source) order; `k` is the identity
  ptasks : List PTask := []
  slices : List Coll := []
  maps : List Coll := []
  conc : Option Nat := none
  coe : String := "-"              -- - const0 const1 expr0 expr1
  emitters : Nat := 0
  instrDir : Bool := false
  autoinstr : Bool := false
  mode : String := "base"
  wrap : Bool := true
  order : List String := []
  deriving Repr, Inhabited

def Prog.coeTrue (p : Prog) : Bool := p.coe == "const1" || p.coe == "expr1"
def Prog.hasCoe (p : Prog) : Bool := p.coe != "-"

/-- A flow task is instrumented if it carries cff.Instrument, or the flow is instrumented and
    cff ran with -auto-instrument. -/
def Prog.taskInstrumented (p : Prog) (t : Task) : Bool := t.instr || (p.autoinstr && p.instrDir)

inductive FnOut | ok | err | panic
  deriving Repr, DecidableEq, Inhabited
inductive PredOut | t | f | panic
  deriving Repr, DecidableEq, Inhabited

structure Scenario where
  sid : Nat := 0
  conc : Option Nat := none
  execs : Nat := 1
  cancel : String := "none"        -- none | before | in:<k>
  fn : List (Nat × FnOut) := []
  pred : List (Nat × PredOut) := []
  sl : List (Nat × Nat × FnOut) := []   -- failing slice elements (s, i, kind)
  slend : List (Nat × FnOut) := []
  mp : List (Nat × Nat × FnOut) := []
  mpend : List (Nat × FnOut) := []
  pv : Nat := 0
  deriving Repr, Inhabited

def Scenario.fnOut (sc : Scenario) (k : Nat) : FnOut := (sc.fn.lookup k).getD .ok
def Scenario.predOut (sc : Scenario) (k : Nat) : PredOut := (sc.pred.lookup k).getD .t
def Scenario.cancelIn (sc : Scenario) : Option Nat :=
  if sc.cancel.startsWith "in:" then (sc.cancel.drop 3).toNat? else none
/-- `cancel=sl:<S>:<i>`: element `i` of slice `S` cancels the directive's context when it is called. -/
def Scenario.cancelSl (sc : Scenario) : Option (Nat × Nat) :=
  if sc.cancel.startsWith "sl:" then
    match ((sc.cancel.drop 3).toString.splitOn ":").map String.toNat? with
    | [some s, some i] => some (s, i)
    | _ => none
  else none

/-- panic value classes: string, error value, runtime error, struct, and `pe`: a `*cff.PanicError`
    obtained from another directive (the `must(err)` idiom). -/
def vclasses : List String := ["str", "err", "rt", "struct", "pe"]
/-- Panic value class: `kind` ∈ t p q s m S M as in progspec.VClass. -/
def Scenario.vclass (sc : Scenario) (kind : Char) (a b : Nat) : String :=
  let off := if kind == 'p' || kind == 'S' || kind == 'M' then 1 else 0
  vclasses.getD ((sc.pv + a + b + off) % 5) "?"

/-! ### parsing of spec and scenario lines -/

def kv (toks : List String) (key : String) : Option String :=
  toks.findSome? fun t => if t.startsWith (key ++ "=") then some (t.drop (key.length + 1)).copy else none

def kvB (toks : List String) (key : String) : Bool := kv toks key == some "1"
def kvN (toks : List String) (key : String) : Option Nat := (kv toks key).bind String.toNat?
def natList (s : String) : List Nat := if s == "-" || s == "" then [] else (s.splitOn ",").filterMap String.toNat?
def kvL (toks : List String) (key : String) : List Nat := natList ((kv toks key).getD "-")

def parseFnOut (s : String) : FnOut := if s == "err" then .err else if s == "panic" then .panic else .ok
def parsePredOut (s : String) : PredOut := if s == "f" then .f else if s == "panic" then .panic else .t

def pairs (s : String) : List (List String) :=
  if s == "-" || s == "" then [] else (s.splitOn ",").map (·.splitOn ":")

/-- Apply one `P <pid> ...` line to the program being assembled. -/
def Prog.addLine (p : Prog) (toks : List String) : Prog :=
  match toks with
  | "P" :: _ :: "meta" :: rest =>
    { p with stream := (kv rest "stream").getD "wf", quirk := (kv rest "quirk").getD "-",
             sigP := (kv rest "psig").getD "-", sigR := (kv rest "rsig").getD "-" }
  | "P" :: _ :: "params" :: rest => { p with params := rest.filterMap String.toNat? }
  | "P" :: _ :: "results" :: rest => { p with results := rest.filterMap String.toNat? }
  | "P" :: _ :: "task" :: k :: rest =>
    let t : Task := {
      k := k.toNat?.getD 0, pos := (kvN rest "pos").getD 0, ctx := kvB rest "ctx",
      err := kvB rest "err", invoke := kvB rest "invoke", instr := kvB rest "instr", fb := kvB rest "fb",
      pred := kvB rest "pred", pctx := kvB rest "pctx", ins := kvL rest "ins", outs := kvL rest "outs",
      pins := kvL rest "pins" }
    { p with tasks := p.tasks ++ [t] }
  | "P" :: _ :: "ptask" :: k :: rest =>
    let t : PTask := {
      k := k.toNat?.getD 0, ctx := kvB rest "ctx", err := kvB rest "err",
      instr := kvB rest "instr", group := kvN rest "group" }
    { p with ptasks := p.ptasks ++ [t] }
  | "P" :: _ :: "slice" :: s :: rest =>
    let c : Coll := {
      id := s.toNat?.getD 0, idx := kvB rest "idx", ctx := kvB rest "ctx", err := kvB rest "err",
      len := kvN rest "len", hasEnd := kvB rest "end", endctx := kvB rest "endctx", enderr := kvB rest "enderr",
      assignable := (kv rest "assignable") != some "0" }
    { p with slices := p.slices ++ [c] }
  | "P" :: _ :: "map" :: m :: rest =>
    let c : Coll := {
      id := m.toNat?.getD 0, ctx := kvB rest "ctx", err := kvB rest "err",
      len := kvN rest "len", hasEnd := kvB rest "end", endctx := kvB rest "endctx", enderr := kvB rest "enderr",
      assignable := (kv rest "assignable") != some "0" }
    { p with maps := p.maps ++ [c] }
  | "P" :: _ :: "opts" :: rest =>
    { p with
      conc := kvN rest "conc", coe := (kv rest "coe").getD "-", emitters := (kvN rest "emitters").getD 0,
      instrDir := kvB rest "instrflow" || kvB rest "instrpar", autoinstr := kvB rest "autoinstr",
      mode := (kv rest "mode").getD "base", wrap := (kv rest "wrap") != some "0" }
  | "P" :: _ :: "order" :: rest =>
    -- the `order` line closes a program: from here on `tasks` is in LISTING order (the order of the
    -- cff.Task options in the source, `pos`), which is what `funcs`/`toposort` iterate over
    { p with order := rest, tasks := p.tasks.mergeSort (fun a b => decide (a.pos ≤ b.pos)) }
  | _ => p

def parseScenario (toks : List String) : Scenario :=
  -- S <pid> <sid> conc= execs= cancel= fn= pred= sl= slend= mp= mpend= pv=
  let rest := toks.drop 3
  let two := fun (s : String) (f : String → FnOut) => (pairs s).filterMap fun
    | [a, b] => a.toNat?.map fun a => (a, f b)
    | _ => none
  let three := fun (s : String) => (pairs s).filterMap fun
    | [a, b, c] => match a.toNat?, b.toNat? with
      | some a, some b => some (a, b, parseFnOut c)
      | _, _ => none
    | _ => none
  { sid := ((toks.getD 2 "0").toNat?).getD 0
    conc := kvN rest "conc"
    execs := (kvN rest "execs").getD 1
    cancel := (kv rest "cancel").getD "none"
    fn := two ((kv rest "fn").getD "-") parseFnOut
    pred := (pairs ((kv rest "pred").getD "-")).filterMap fun
      | [a, b] => a.toNat?.map fun a => (a, parsePredOut b)
      | _ => none
    sl := three ((kv rest "sl").getD "-")
    slend := two ((kv rest "slend").getD "-") parseFnOut
    mp := three ((kv rest "mp").getD "-")
    mpend := two ((kv rest "mpend").getD "-") parseFnOut
    pv := (kvN rest "pv").getD 0 }

end Gen
