/-
  G — body semantics of the jobs generated for `cff.Parallel`
  (internal/templates/parallel/task.go.tmpl, slice.go.tmpl, map.go.tmpl).

  Every generated body has the same shape

      fn = func(ctx context.Context) (err error) {
          defer func() {
              recovered := recover()
              if recovered != nil { err = &cff.PanicError{Value: recovered, Stacktrace: …} }
          }()
          err = f(ctx?, <own copies of (idx,) val / key, val>)      // once
          return
      }

  (`task.go.tmpl` additionally talks to the task emitter, which does not influence `err`.)
  The outcome of the user function comes from the scenario, read exactly as the oracle
  `Gen.Check.checkPar` reads it; the call lines and error entries are spelled exactly as there.
-/
import CffVerif.Gen.Parallel
import CffVerif.Gen.Flow

namespace Gen

/-- What one Parallel job body did. -/
structure PRes where
  call : String                    -- the call line of the user function (`checkPar` spelling)
  ret : Option String := none      -- the error entry the job returns, none = nil
  crashed : Bool := false          -- a panic escaped the body
  deriving Repr, DecidableEq, Inhabited

/-- The slice (map) of `p` a body's collection id refers to (the first one carrying that id). -/
def collOf (cs : List Coll) (id : Nat) : Coll := (cs.find? (·.id == id)).getD { id := id }

/-- Outcome of the slice function on element `i` of slice `s`, as `checkPar` reads `sc.sl`. -/
def Scenario.slOut (sc : Scenario) (s i : Nat) : FnOut :=
  ((((sc.sl.filter (·.1 == s)).find? (·.2.1 == i)).map (·.2.2))).getD .ok
/-- Outcome of the map function on entry `j` of map `m`, as `checkPar` reads `sc.mp`. -/
def Scenario.mpOut (sc : Scenario) (m j : Nat) : FnOut :=
  ((((sc.mp.filter (·.1 == m)).find? (·.2.1 == j)).map (·.2.2))).getD .ok
def Scenario.slendOut (sc : Scenario) (s : Nat) : FnOut := (sc.slend.lookup s).getD .ok
def Scenario.mpendOut (sc : Scenario) (m : Nat) : FnOut := (sc.mpend.lookup m).getD .ok

/-- The call line of a body: the function with its own copy of (index,) value / (key, value). -/
def pCall (p : Prog) : PBody → String
  | .task k => s!"call {k}"
  | .sliceElem s i v => s!"scall {s} {if (collOf p.slices s).idx then toString i else "-"} {v}"
  | .sliceEnd s => s!"secall {s}"
  | .mapElem m _ key val => s!"mcall {m} {key} {val}"
  | .mapEnd m => s!"mecall {m}"

/-- What the user function of a body does in scenario `sc`. -/
def pOut (sc : Scenario) : PBody → FnOut
  | .task k => sc.fnOut k
  | .sliceElem s i _ => sc.slOut s i
  | .sliceEnd s => sc.slendOut s
  | .mapElem m j _ _ => sc.mpOut m j
  | .mapEnd m => sc.mpendOut m

/-- The entry of the function's own error. -/
def pErrEntry : PBody → String
  | .task k => s!"err:{k}"
  | .sliceElem s i _ => s!"serr:{s}:{i}"
  | .sliceEnd s => s!"seerr:{s}"
  | .mapElem m j _ _ => s!"merr:{m}:{j}"
  | .mapEnd m => s!"meerr:{m}"

/-- The `PanicError` entry: names the function and carries the class of the panic's value. -/
def pPanicEntry (sc : Scenario) : PBody → String
  | .task k => s!"panic:{k}:{sc.vclass 'q' k 0}"
  | .sliceElem s i _ => s!"spanic:{s}:{i}:{sc.vclass 's' s i}"
  | .sliceEnd s => s!"sepanic:{s}:{sc.vclass 'S' s 0}"
  | .mapElem m j _ _ => s!"mpanic:{m}:{j}:{sc.vclass 'm' m j}"
  | .mapEnd m => s!"mepanic:{m}:{sc.vclass 'M' m 0}"

/-- The common body: one call; the function's error is returned as it is; a panic is turned into
    a `PanicError` by the deferred recover block (if there is one). -/
def runBody (fl : BodyFlags) (call : String) (out : FnOut) (errEntry panicEntry : String) : PRes :=
  match out with
  | .ok => { call }
  | .err => { call, ret := some errEntry }
  | .panic => if fl.recoverBlock then { call, ret := some panicEntry } else { call, crashed := true }

/-- One job body of generated Parallel code. -/
def runPJob (fl : BodyFlags) (p : Prog) (sc : Scenario) (b : PBody) : PRes :=
  runBody fl (pCall p b) (pOut sc b) (pErrEntry b) (pPanicEntry sc b)

/-! ### body theorems -/

/-- With the templates' recover blocks no panic escapes a Parallel job body. -/
theorem runPJob_no_crash (p : Prog) (sc : Scenario) (b : PBody) : (runPJob .std p sc b).crashed = false := by
  unfold runPJob runBody BodyFlags.std
  cases pOut sc b <;> simp

/-- Without the recover block a panicking function takes the process down (the flag matters). -/
theorem runPJob_crash_without_recover (p : Prog) (sc : Scenario) (b : PBody) (h : pOut sc b = .panic) :
    (runPJob { recoverBlock := false } p sc b).crashed = true := by
  unfold runPJob runBody; simp [h]

/-- `decide`d witness: a panicking slice function without the recover block. -/
example :
    (runPJob { recoverBlock := false } {} { sl := [(3, 1, .panic)] } (.sliceElem 3 1 0)).crashed = true ∧
    (runPJob .std {} { sl := [(3, 1, .panic)] } (.sliceElem 3 1 0)).crashed = false ∧
    (runPJob { recoverBlock := false } {} { sl := [(3, 1, .panic)] } (.sliceElem 3 0 0)).crashed = false := by
  decide

/-- What a body returns: nil iff the function's outcome is ok; the function's own error entry on an
    error; the `PanicError` entry with the panic's value class on a panic. -/
theorem runPJob_ret (p : Prog) (sc : Scenario) (b : PBody) :
    ((runPJob .std p sc b).ret = none ↔ pOut sc b = .ok) ∧
    (pOut sc b = .err → (runPJob .std p sc b).ret = some (pErrEntry b)) ∧
    (pOut sc b = .panic → (runPJob .std p sc b).ret = some (pPanicEntry sc b)) := by
  unfold runPJob runBody BodyFlags.std
  cases pOut sc b <;> simp

/-- The function is called once, with the body's own copies: the call line does not depend on the
    flags nor on the scenario. -/
theorem runPJob_call (fl : BodyFlags) (p : Prog) (sc : Scenario) (b : PBody) : (runPJob fl p sc b).call = pCall p b := by
  unfold runPJob runBody
  cases pOut sc b <;> simp
  split <;> rfl

/-- The call line of a slice element carries the element's own `(i, s[i])`, a map entry's its own
    `(k, m[k])`, exactly as the oracle spells them. -/
theorem runPJob_call_elem (fl : BodyFlags) (p : Prog) (sc : Scenario) (s i v m j key val : Nat) :
    (runPJob fl p sc (.sliceElem s i v)).call
      = s!"scall {s} {if (collOf p.slices s).idx then toString i else "-"} {v}" ∧
    (runPJob fl p sc (.mapElem m j key val)).call = s!"mcall {m} {key} {val}" :=
  ⟨runPJob_call .., runPJob_call ..⟩

/-- The entries, spelled out for the oracle (`checkPar`). -/
theorem runPJob_entries (p : Prog) (sc : Scenario) :
    (∀ k, sc.fnOut k = .err → (runPJob .std p sc (.task k)).ret = some s!"err:{k}") ∧
    (∀ k, sc.fnOut k = .panic → (runPJob .std p sc (.task k)).ret = some s!"panic:{k}:{sc.vclass 'q' k 0}") ∧
    (∀ s i v, sc.slOut s i = .err → (runPJob .std p sc (.sliceElem s i v)).ret = some s!"serr:{s}:{i}") ∧
    (∀ s i v, sc.slOut s i = .panic →
      (runPJob .std p sc (.sliceElem s i v)).ret = some s!"spanic:{s}:{i}:{sc.vclass 's' s i}") ∧
    (∀ s, sc.slendOut s = .err → (runPJob .std p sc (.sliceEnd s)).ret = some s!"seerr:{s}") ∧
    (∀ s, sc.slendOut s = .panic → (runPJob .std p sc (.sliceEnd s)).ret = some s!"sepanic:{s}:{sc.vclass 'S' s 0}") ∧
    (∀ m j k v, sc.mpOut m j = .err → (runPJob .std p sc (.mapElem m j k v)).ret = some s!"merr:{m}:{j}") ∧
    (∀ m j k v, sc.mpOut m j = .panic →
      (runPJob .std p sc (.mapElem m j k v)).ret = some s!"mpanic:{m}:{j}:{sc.vclass 'm' m j}") ∧
    (∀ m, sc.mpendOut m = .err → (runPJob .std p sc (.mapEnd m)).ret = some s!"meerr:{m}") ∧
    (∀ m, sc.mpendOut m = .panic → (runPJob .std p sc (.mapEnd m)).ret = some s!"mepanic:{m}:{sc.vclass 'M' m 0}") := by
  refine ⟨?_, ?_, ?_, ?_, ?_, ?_, ?_, ?_, ?_, ?_⟩ <;> intros <;>
    first
      | exact (runPJob_ret p sc _).2.1 ‹_›
      | exact (runPJob_ret p sc _).2.2 ‹_›

end Gen
