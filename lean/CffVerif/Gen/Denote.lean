/-
  C02 — the dataflow a Flow directive describes, declaratively (`valueOf`), and its independence
  of the order in which the tasks are listed.
-/
import CffVerif.Gen.Flow

namespace Gen

/-- The task providing type `τ` and the position of `τ` among its outputs. -/
def providerTask (tasks : List Task) (τ : Ty) : Option Task := tasks.find? (·.outs.contains τ)

/-- The value of type `τ` in a flow in which no function fails: the Params value, or the result of
    the unique providing task applied to the values of its inputs (zero if its predicate is false). -/
def valueOf (p : Prog) (sc : Scenario) : Nat → Ty → Nat
  | 0, _ => 0
  | fuel + 1, τ =>
    match p.params.idxOf? τ with
    | some i => paramVal i
    | none =>
      match providerTask p.tasks τ with
      | some t =>
        if t.pred && sc.predOut t.k == .f then 0
        else taskOut t.k (t.outs.idxOf τ) (t.ins.map (valueOf p sc fuel))
      | none => 0

/-- At most one listed task provides each type (what validation establishes). -/
def UniqueProviders (tasks : List Task) : Prop :=
  ∀ τ, ∀ t₁ ∈ tasks, ∀ t₂ ∈ tasks, t₁.outs.contains τ = true → t₂.outs.contains τ = true → t₁ = t₂

theorem find?_perm_unique {l₁ l₂ : List Task} (h : l₁.Perm l₂) (q : Task → Bool)
    (huniq : ∀ a ∈ l₁, ∀ b ∈ l₁, q a = true → q b = true → a = b) : l₁.find? q = l₂.find? q := by
  cases h1 : l₁.find? q with
  | none =>
    have hn : ∀ x ∈ l₁, q x = false := by
      intro x hx; have := List.find?_eq_none.mp h1 x hx; simpa using this
    symm; apply List.find?_eq_none.mpr
    intro x hx; have := hn x (h.symm.subset hx); simp [this]
  | some a =>
    have ha := List.mem_of_find?_eq_some h1
    have hqa := List.find?_some h1
    cases h2 : l₂.find? q with
    | none =>
      have := List.find?_eq_none.mp h2 a (h.subset ha); simp [hqa] at this
    | some b =>
      have hb := h.symm.subset (List.mem_of_find?_eq_some h2)
      have hqb := List.find?_some h2
      rw [huniq a ha b hb hqa hqb]

/-- **C02 order independence.** Listing the tasks of a flow in any other order denotes the same
    value for every type, provided each type has at most one providing task. -/
theorem valueOf_perm (p₁ p₂ : Prog) (sc : Scenario) (hparams : p₁.params = p₂.params)
    (hperm : p₁.tasks.Perm p₂.tasks) (huniq : UniqueProviders p₁.tasks) :
    ∀ (fuel : Nat) (τ : Ty), valueOf p₁ sc fuel τ = valueOf p₂ sc fuel τ := by
  intro fuel
  induction fuel with
  | zero => intro τ; rfl
  | succ fuel ih =>
    intro τ
    simp only [valueOf, hparams]
    have hp : providerTask p₁.tasks τ = providerTask p₂.tasks τ :=
      find?_perm_unique hperm _ (fun a ha b hb qa qb => huniq τ a ha b hb qa qb)
    rw [hp]
    have : ∀ t : Task, t.ins.map (valueOf p₁ sc fuel) = t.ins.map (valueOf p₂ sc fuel) := by
      intro t; apply List.map_congr_left; intro x _; exact ih x
    cases p₂.params.idxOf? τ with
    | some i => rfl
    | none =>
      cases providerTask p₂.tasks τ with
      | none => rfl
      | some t => simp only [this]

/-- The concurrency limit is not an input of the denotation at all. -/
theorem valueOf_conc_independent (p : Prog) (sc : Scenario) (n : Option Nat) (fuel : Nat) (τ : Ty) :
    valueOf { p with conc := n } sc fuel τ = valueOf p sc fuel τ := by
  induction fuel generalizing τ with
  | zero => rfl
  | succ fuel ih =>
    simp only [valueOf]
    have : ∀ t : Task, t.ins.map (valueOf { p with conc := n } sc fuel) = t.ins.map (valueOf p sc fuel) := by
      intro t; apply List.map_congr_left; intro x _; exact ih x
    cases p.params.idxOf? τ with
    | some i => rfl
    | none =>
      cases providerTask p.tasks τ with
      | none => rfl
      | some t => simp only [this]

/-- Executable cross-check used by the driver: the reference execution in enqueue order computes
    `valueOf` for every Results type (checked on every accepted program, proved only per body). -/
def idealAgreesWithDenote (p : Prog) (sc : Scenario) : Bool :=
  let id := ideal p sc
  let fuel := p.tasks.length + 2
  p.results.all fun τ => id.store.val τ == valueOf p sc fuel τ

end Gen
