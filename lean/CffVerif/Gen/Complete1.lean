/-
  C14 completeness, part 1: list facts, provider facts (`providerOf`, `countProviders`,
  `crossUnique`, `selfUnique`) and completeness of the memoised cycle search (`dfsCycle`).
-/
import CffVerif.Gen.Accept

namespace Gen

/-! ### `eraseDups` -/

theorem eraseDups_length_le (l : List Nat) : l.eraseDups.length ≤ l.length := by
  generalize hn : l.length = n
  induction n using Nat.strongRecOn generalizing l with
  | _ n ih =>
    cases l with
    | nil => simp
    | cons a as =>
      rw [List.eraseDups_cons]
      simp only [List.length_cons] at hn ⊢
      have h1 := List.length_filter_le (fun b => !b == a) as
      have := ih (as.filter (fun b => !b == a)).length (by omega) _ rfl
      omega

/-- `eraseDups` keeps the length exactly when there is no duplicate. -/
theorem eraseDups_length_eq_iff (l : List Nat) : l.eraseDups.length = l.length ↔ l.Nodup := by
  generalize hn : l.length = n
  induction n using Nat.strongRecOn generalizing l with
  | _ n ih =>
    cases l with
    | nil => simp at hn; simp [← hn]
    | cons a as =>
      rw [List.eraseDups_cons]
      simp only [List.length_cons] at hn ⊢
      have h1 := List.length_filter_le (fun b => !b == a) as
      have h2 := eraseDups_length_le (as.filter (fun b => !b == a))
      have h3 := ih (as.filter (fun b => !b == a)).length (by omega) _ rfl
      rw [List.nodup_cons]
      constructor
      · intro h
        have e1 : (as.filter (fun b => !b == a)).length = as.length := by omega
        have e2 : as.filter (fun b => !b == a) = as := by
          rw [List.filter_eq_self]
          exact List.length_filter_eq_length_iff.mp e1
        rw [e2] at h h3
        refine ⟨?_, h3.mp (by omega)⟩
        intro ha
        have := List.filter_eq_self.mp e2 a ha
        simp at this
      · intro ⟨ha, hnd⟩
        have e2 : as.filter (fun b => !b == a) = as := by
          rw [List.filter_eq_self]
          intro x hx
          simp
          intro e; subst e; exact ha hx
        rw [e2] at h3 ⊢
        have := h3.mpr hnd
        omega

theorem eraseDups_eq_nil_iff {l : List String} : l.eraseDups = [] ↔ l = [] :=
  ⟨eraseDups_eq_nil, fun h => by subst h; rfl⟩

/-! ### indexing `funcs` -/

theorem getD_mem {fs : List Fn} {i : Nat} (h : i < fs.length) : fs.getD i default ∈ fs := by
  rw [List.getD_eq_getElem?_getD, List.getElem?_eq_getElem h]; simp

theorem exists_getD_of_mem {fs : List Fn} {f : Fn} (h : f ∈ fs) :
    ∃ i, i < fs.length ∧ fs.getD i default = f := by
  obtain ⟨i, hi, e⟩ := List.mem_iff_getElem.mp h
  exact ⟨i, hi, by rw [List.getD_eq_getElem?_getD, List.getElem?_eq_getElem hi]; simpa using e⟩

theorem getD_of_ge {fs : List Fn} {i : Nat} (h : fs.length ≤ i) : fs.getD i default = default := by
  simp [List.getD_eq_getElem?_getD, List.getElem?_eq_none h]

theorem getD_deps_lt {fs : List Fn} {i : Nat} {d : Ty} (h : d ∈ (fs.getD i default).deps) :
    i < fs.length := by
  rcases Nat.lt_or_ge i fs.length with h' | h'
  · exact h'
  · rw [getD_of_ge h'] at h
    exact absurd h (by simp [show (default : Fn).deps = [] from rfl])

/-! ### providers -/

theorem providerOf_eq_none_iff {fs : List Fn} {t : Ty} :
    providerOf fs t = none ↔ ∀ f ∈ fs, t ∉ f.provides := by
  unfold providerOf
  rw [List.getLast?_eq_none_iff, List.filter_eq_nil_iff]
  constructor
  · intro h f hf hm
    obtain ⟨i, hi, e⟩ := exists_getD_of_mem hf
    exact h i (List.mem_range.mpr hi) (by rw [e]; exact List.contains_iff_mem.mpr hm)
  · intro h i hi hc
    exact h _ (getD_mem (List.mem_range.mp hi)) (List.contains_iff_mem.mp hc)

theorem providerOf_isSome_iff {fs : List Fn} {t : Ty} :
    (∃ i, providerOf fs t = some i) ↔ ∃ f ∈ fs, t ∈ f.provides := by
  constructor
  · intro ⟨i, hi⟩
    obtain ⟨h1, h2⟩ := providerOf_spec hi
    exact ⟨_, getD_mem h1, h2⟩
  · intro ⟨f, hf, ht⟩
    cases hp : providerOf fs t with
    | some i => exact ⟨i, rfl⟩
    | none => exact absurd ht (providerOf_eq_none_iff.mp hp f hf)

theorem countProviders_eq_count (fs : List Fn) (t : Ty) :
    countProviders fs t = (fs.flatMap Fn.provides).count t := by
  unfold countProviders
  rw [List.count_flatMap]
  rfl

theorem countProviders_eq_zero_iff {fs : List Fn} {t : Ty} :
    countProviders fs t = 0 ↔ providerOf fs t = none := by
  rw [countProviders_eq_count, List.count_eq_zero, providerOf_eq_none_iff]
  simp only [List.mem_flatMap, not_exists, not_and]

theorem countProviders_pos_iff {fs : List Fn} {t : Ty} :
    0 < countProviders fs t ↔ ∃ i, providerOf fs t = some i := by
  rw [Nat.pos_iff_ne_zero, Ne, countProviders_eq_zero_iff]
  cases providerOf fs t <;> simp

theorem selfUnique_iff {fs : List Fn} : selfUnique fs = true ↔ ∀ f ∈ fs, f.provides.Nodup := by
  unfold selfUnique
  simp only [List.all_eq_true, beq_iff_eq]
  constructor
  · intro h f hf; exact (eraseDups_length_eq_iff _).mp (h f hf)
  · intro h f hf; exact (eraseDups_length_eq_iff _).mpr (h f hf)

theorem crossUnique_iff {fs : List Fn} : crossUnique fs = true ↔
    fs.Pairwise (fun a b => ∀ x ∈ a.provides, ∀ y ∈ b.provides, x ≠ y) := by
  rw [List.pairwise_iff_getElem]
  constructor
  · intro h i j hi hj hij x hx y hy e
    subst e
    have gi : fs.getD i default = fs[i] := by
      rw [List.getD_eq_getElem?_getD, List.getElem?_eq_getElem hi]; rfl
    have gj : fs.getD j default = fs[j] := by
      rw [List.getD_eq_getElem?_getD, List.getElem?_eq_getElem hj]; rfl
    have := crossUnique_spec h hi hj (t := x) (by rw [gi]; exact hx) (by rw [gj]; exact hy)
    omega
  · intro h
    unfold crossUnique
    simp only [List.all_eq_true, List.mem_range, Bool.or_eq_true, beq_iff_eq, Bool.not_eq_true',
      List.any_eq_false]
    intro i hi j hj
    have gi : fs.getD i default = fs[i] := by
      rw [List.getD_eq_getElem?_getD, List.getElem?_eq_getElem hi]; rfl
    have gj : fs.getD j default = fs[j] := by
      rw [List.getD_eq_getElem?_getD, List.getElem?_eq_getElem hj]; rfl
    rcases Nat.lt_trichotomy i j with hij | hij | hij
    · right
      intro x hx
      rw [gi] at hx; rw [gj]
      simp only [List.contains_eq_mem, decide_eq_true_eq]
      intro hy
      exact h i j hi hj hij x hx x hy rfl
    · left; exact hij
    · right
      intro x hx
      rw [gi] at hx; rw [gj]
      simp only [List.contains_eq_mem, decide_eq_true_eq]
      intro hy
      exact h j i hj hi hij x hy x hx rfl

/-- "At most one provider per type" (two functions, or one function twice) is exactly the pair of
    executable checks `crossUnique` and `selfUnique`. -/
theorem unique_iff (fs : List Fn) :
    (∀ t, countProviders fs t ≤ 1) ↔ crossUnique fs = true ∧ selfUnique fs = true := by
  have : (∀ t, countProviders fs t ≤ 1) ↔ (fs.flatMap Fn.provides).Nodup := by
    rw [List.nodup_iff_count]
    constructor
    · intro h t; rw [← countProviders_eq_count]; exact h t
    · intro h t; rw [countProviders_eq_count]; exact h t
  rw [this, List.Nodup, List.pairwise_flatMap, crossUnique_iff, selfUnique_iff]
  constructor
  · intro ⟨a, b⟩; exact ⟨b, a⟩
  · intro ⟨a, b⟩; exact ⟨b, a⟩

/-! ### completeness of the cycle search -/

theorem dfs_fold_false (fs : List Fn) (fuel : Nat) (path : List Ty) (ds : List Ty)
    (h : ∀ d ∈ ds, ∀ v, (dfsCycle fs fuel path d v).1 = false) :
    ∀ acc : Bool × List Ty, acc.1 = false →
      (ds.foldl (fun (acc : Bool × List Ty) d =>
        if acc.1 then acc else dfsCycle fs fuel path d acc.2) acc).1 = false := by
  induction ds with
  | nil => intro acc ha; exact ha
  | cons d ds ih =>
    intro acc ha
    simp only [List.foldl_cons, ha, Bool.false_eq_true, if_false]
    exact ih (fun d' hd' => h d' (List.mem_cons_of_mem _ hd')) _ (h d (by simp) acc.2)

theorem provDeps_eq_some {fs : List Fn} {t : Ty} {ds : List Ty} (h : provDeps fs t = some ds) :
    ∃ j, providerOf fs t = some j ∧ ds = (fs.getD j default).deps := by
  unfold provDeps at h
  cases hp : providerOf fs t with
  | none => simp [hp] at h
  | some j => simp [hp] at h; exact ⟨j, rfl, h.symm⟩

/-- **Completeness of the memoised depth-first search.**  If the dependency relation on functions
    has a strictly decreasing rank, the search never answers "cycle": a type on the path would
    have a provider ranked strictly above itself, and the fuel cannot run out because the path
    consists of distinct members of `A` (the list of all types). -/
theorem dfs_complete (fs : List Fn) (A : List Ty) (rank : Nat → Nat)
    (hrank : ∀ i, ∀ d ∈ dependsOn fs i, rank d < rank i)
    (hA : ∀ i, ∀ d ∈ (fs.getD i default).deps, d ∈ A) :
    ∀ (fuel : Nat) (path : List Ty) (t : Ty) (v : List Ty),
      path.Nodup → (∀ x ∈ path, x ∈ A) → t ∈ A → A.length + 2 ≤ path.length + fuel →
      (∀ x ∈ path, ∃ i, providerOf fs x = some i ∧ ∀ j, providerOf fs t = some j → rank j < rank i) →
      (dfsCycle fs fuel path t v).1 = false := by
  intro fuel
  induction fuel with
  | zero =>
    intro path t v hnd hsub _ hlen _
    have := hnd.length_le_of_subset (fun x hx => hsub x hx)
    omega
  | succ fuel ih =>
    intro path t v hnd hsub htA hlen hinv
    simp only [dfsCycle]
    cases hp : provDeps fs t with
    | none => rfl
    | some ds =>
      obtain ⟨j, hj, hds⟩ := provDeps_eq_some hp
      simp only []
      by_cases hpath : path.contains t = true
      · exfalso
        obtain ⟨i, hi, hlt⟩ := hinv t (List.contains_iff_mem.mp hpath)
        rw [hj] at hi
        cases hi
        exact Nat.lt_irrefl _ (hlt j hj)
      · rw [if_neg hpath]
        by_cases hvis : v.contains t = true
        · rw [if_pos hvis]
        · rw [if_neg hvis]
          have hfold := dfs_fold_false fs fuel (path ++ [t]) ds (by
            intro d hd w
            have hdj : d ∈ (fs.getD j default).deps := hds ▸ hd
            have htp : t ∉ path := fun hm => hpath (List.contains_iff_mem.mpr hm)
            apply ih (path ++ [t]) d w
            · rw [List.nodup_append]
              refine ⟨hnd, by simp, ?_⟩
              intro a ha b hb
              simp at hb; subst hb
              intro e; subst e; exact htp ha
            · intro x hx
              rcases List.mem_append.mp hx with hx | hx
              · exact hsub x hx
              · simp at hx; subst hx; exact htA
            · exact hA j d hdj
            · simp only [List.length_append, List.length_cons, List.length_nil]; omega
            · intro x hx
              have hrd : ∀ j', providerOf fs d = some j' → rank j' < rank j := by
                intro j' hj'
                apply hrank j j'
                simp only [dependsOn, List.mem_filterMap]
                exact ⟨d, hdj, hj'⟩
              rcases List.mem_append.mp hx with hx | hx
              · obtain ⟨i, hi, hlt⟩ := hinv x hx
                exact ⟨i, hi, fun j' hj' => Nat.lt_trans (hrd j' hj') (hlt j hj)⟩
              · simp at hx; subst hx
                exact ⟨j, hj, hrd⟩) (false, v) rfl
          simp only [hfold, Bool.false_eq_true, if_false]

theorem mem_allTypes {p : Prog} {x : Ty} : x ∈ allTypes p ↔
    x ∈ p.params ∨ x ∈ p.results ∨ ∃ f ∈ funcs p, x ∈ f.deps ∨ x ∈ f.provides := by
  unfold allTypes
  rw [List.mem_eraseDups]
  simp only [List.mem_append, List.mem_flatMap, or_assoc]

theorem dep_mem_allTypes (p : Prog) (i : Nat) (d : Ty) (h : d ∈ ((funcs p).getD i default).deps) :
    d ∈ allTypes p :=
  mem_allTypes.mpr (Or.inr (Or.inr ⟨_, getD_mem (getD_deps_lt h), Or.inl h⟩))

/-- **Acyclic ⇒ no cycle reported** (no uniqueness assumption is needed for this direction). -/
theorem hasCycle_false_of_acyclic (p : Prog) (h : Acyclic p) : hasCycle p = false := by
  obtain ⟨rank, hrank, _⟩ := h
  unfold hasCycle
  simp only []
  apply dfs_fold_false
  · intro d hd v
    obtain ⟨f, hf, hdf⟩ := List.mem_flatMap.mp hd
    apply dfs_complete (funcs p) (allTypes p) rank hrank (dep_mem_allTypes p)
    · exact List.nodup_nil
    · intro x hx; simp at hx
    · exact mem_allTypes.mpr (Or.inr (Or.inr ⟨f, hf, Or.inl hdf⟩))
    · simp
    · intro x hx; simp at hx
  · rfl

end Gen
