/-
  G — job structure of the code generated for cff.Parallel (internal/templates/parallel/*.tmpl):
  one job per Task/Tasks function, one job per slice element / map entry (carrying its own copy of
  index and value), and one End job per collection depending on all element jobs of that collection.
-/
import CffVerif.Gen.Spec

namespace Gen

inductive PBody where
  | task (k : Nat)
  | sliceElem (s i : Nat) (v : Nat)
  | sliceEnd (s : Nat)
  | mapElem (m j : Nat) (key val : Nat)
  | mapEnd (m : Nat)
  deriving Repr, DecidableEq, Inhabited

structure PJob where
  body : PBody
  deps : List Nat := []
  deriving Repr, DecidableEq, Inhabited

def collN (c : Coll) : Nat := c.len.getD 0

/-- Jobs of one collection, given the index `base` of its first job. -/
def sliceJobs (base : Nat) (c : Coll) : List PJob :=
  ((List.range (collN c)).map fun i => ({ body := .sliceElem c.id i (sliceElem c.id i) } : PJob)) ++
  (if c.hasEnd then [{ body := .sliceEnd c.id, deps := (List.range (collN c)).map (base + ·) }] else [])

def mapJobs (base : Nat) (c : Coll) : List PJob :=
  ((List.range (collN c)).map fun j => ({ body := .mapElem c.id j (mapKey c.id j) (mapVal c.id j) } : PJob)) ++
  (if c.hasEnd then [{ body := .mapEnd c.id, deps := (List.range (collN c)).map (base + ·) }] else [])

def collsJobs (mk : Nat → Coll → List PJob) : Nat → List Coll → List PJob
  | _, [] => []
  | base, c :: cs => mk base c ++ collsJobs mk (base + (mk base c).length) cs

/-- The jobs in enqueue order: tasks, then slices, then maps (parallel.go.tmpl). -/
def parJobs (p : Prog) : List PJob :=
  let tj := p.ptasks.map fun t => ({ body := .task t.k } : PJob)
  let sj := collsJobs sliceJobs tj.length p.slices
  tj ++ sj ++ collsJobs mapJobs (tj.length + sj.length) p.maps

theorem sliceJobs_length (base : Nat) (c : Coll) :
    (sliceJobs base c).length = collN c + (if c.hasEnd then 1 else 0) := by
  unfold sliceJobs; split <;> simp

/-- **C10 elements.** A slice of length n yields exactly the element jobs (i, s[i]) for i < n, each
    once, each with its own copy of index and value — also for nil and empty slices (n = 0). -/
theorem sliceJobs_elements (base : Nat) (c : Coll) :
    (sliceJobs base c).filterMap (fun j => match j.body with | .sliceElem s i v => some (s, i, v) | _ => none)
      = (List.range (collN c)).map fun i => (c.id, i, sliceElem c.id i) := by
  unfold sliceJobs
  rw [List.filterMap_append]
  have h1 : ((List.range (collN c)).map fun i => ({ body := .sliceElem c.id i (sliceElem c.id i) } : PJob)).filterMap
      (fun j => match j.body with | .sliceElem s i v => some (s, i, v) | _ => none)
      = (List.range (collN c)).map fun i => (c.id, i, sliceElem c.id i) := by
    rw [List.filterMap_map]; simp [Function.comp_def, List.filterMap_eq_map]
  rw [h1]
  split <;> simp

/-- **C10 End hook.** The End job of a collection lists as dependencies exactly the element jobs of
    its own collection (all of them, nothing else); with C01 it starts only after every element
    call returned without error, and with an empty or nil collection it has no dependency and runs. -/
theorem sliceJobs_end_deps (base : Nat) (c : Coll) (h : c.hasEnd = true) :
    (sliceJobs base c)[collN c]? = some { body := .sliceEnd c.id, deps := (List.range (collN c)).map (base + ·) } ∧
    ∀ i, i < collN c → ∃ v, ((sliceJobs base c)[i]?).map (·.body) = some (.sliceElem c.id i v) := by
  unfold sliceJobs
  simp only [h, if_true]
  refine ⟨?_, ?_⟩
  · rw [List.getElem?_append_right (by simp)]; simp
  · intro i hi
    refine ⟨sliceElem c.id i, ?_⟩
    rw [List.getElem?_append_left (by simpa using hi)]
    simp [hi]

theorem mapJobs_end_deps (base : Nat) (c : Coll) (h : c.hasEnd = true) :
    (mapJobs base c)[collN c]? = some { body := .mapEnd c.id, deps := (List.range (collN c)).map (base + ·) } := by
  unfold mapJobs
  simp only [h, if_true]
  rw [List.getElem?_append_right (by simp)]; simp

/-- Every dependency of a collection's job points at an earlier job (the scheduler's contract). -/
theorem sliceJobs_deps_before (base : Nat) (c : Coll) (i : Nat) (j : PJob)
    (h : (sliceJobs base c)[i]? = some j) : ∀ d ∈ j.deps, d < base + i := by
  unfold sliceJobs at h
  by_cases hi : i < collN c
  · rw [List.getElem?_append_left (by simpa using hi)] at h
    simp [hi] at h; subst h; simp
  · rw [List.getElem?_append_right (by simpa using hi)] at h
    split at h
    · simp only [List.length_map, List.length_range] at h
      have hlen : i - collN c = 0 := by
        have := (List.getElem?_eq_some_iff.mp h).1; simp at this; omega
      rw [hlen] at h
      simp at h
      rw [← h]
      intro d hd; simp at hd; obtain ⟨x, hx, rfl⟩ := hd; omega
    · simp at h

end Gen
